import OnlVerif.Lemmas.TRKOracle
/-!
# The two-rate token bucket on the kernel model: the invariant along runs, and what holds when `run()` has returned
-/

set_option linter.unusedSimpArgs false

namespace TRK
open TwoRateOnK QEntry

variable {size : Int → Nat} {cfg : TrCfg ℚ} {arrivals : List ℚ}
variable {s : KS} {a : A} {q : QEntry ℚ} {rest : List (QEntry ℚ)}

/-- the kernel state is a sound configuration and the history passes the oracle -/
structure Inv3 (size : Int → Nat) (cfg : TrCfg ℚ) (arrivals : List ℚ) (s : KS) (a : A) : Prop where
  i : Inv cfg s a
  o : ∃ o, OInv size cfg arrivals a s.now (histOf s.trace) o

theorem inv3_step (fuel : Nat) (h : Inv3 size cfg arrivals s a) (hp : popMin s.agenda = some (q, rest)) :
    ∃ s' a' new, step (body size cfg) (fuel + 1) s = .ok s' ∧ Inv3 size cfg arrivals s' a' ∧ a'.mu + 1 ≤ a.mu ∧
      AStep size cfg s.events.size s.eid a q a' new ∧ s'.now = q.time ∧ histOf s'.trace = histOf s.trace ++ new := by
  obtain ⟨s', a', new, h1, h2, h3, h4, h5, h6⟩ := inv_step (size := size) fuel h.i hp
  have hmin := (isMin_of_pop h.i.k hp).1
  obtain ⟨o, ho⟩ := h.o
  obtain ⟨o', ho'⟩ := oinv_step (h.i.a.advance hmin) (ho.advance h.i.a hmin) h4
  exact ⟨s', a', new, h1, ⟨h2, o', by rw [h5, h6]; exact ho'⟩, h3, h4, h5, h6⟩

theorem initState_now (arrivals : List ℚ) : (initState cfg arrivals : KS).now = 0 := by
  simp [initState, doCall_spawn, zero_eq']

theorem initState_trace (arrivals : List ℚ) : (initState cfg arrivals : KS).trace = #[] := by
  simp [initState, doCall_spawn]

theorem inv3_init (hg : GapsOK arrivals) (hgood : TwoRate.Good cfg) :
    Inv3 size cfg arrivals (initState cfg arrivals) (a0 cfg arrivals) := by
  refine ⟨inv_init arrivals hg hgood, oInit cfg, ?_⟩
  rw [initState_trace, initState_now]
  exact ⟨rfl, rfl, ⟨by simp [oInit, zero_eq'], rfl, rfl, by simp [oInit, a0, zero_eq']⟩, rfl⟩

/-- **every state reachable by kernel steps satisfies the invariant** -/
theorem reach_inv3 (fuel : Nat) (hg : GapsOK arrivals) (hgood : TwoRate.Good cfg)
    (h : KReach (body size cfg) (fuel + 1) (initState cfg arrivals) s) : ∃ a, Inv3 size cfg arrivals s a := by
  induction h with
  | init => exact ⟨a0 cfg arrivals, inv3_init hg hgood⟩
  | @step s s' _ hs ih =>
    obtain ⟨a, hi⟩ := ih
    cases hp : popMin s.agenda with
    | none => simp [step, hp, StepResult.state?] at hs
    | some qr =>
      obtain ⟨q, rest⟩ := qr
      obtain ⟨s'', a', new, h1, h2, -⟩ := inv3_step fuel hi hp
      rw [h1] at hs
      simp only [StepResult.state?, Option.some.injEq] at hs
      subst hs
      exact ⟨a', h2⟩

/-- **`run()` returns** -/
theorem run_returns3 (fuel : Nat) (s0 : KS) : ∀ (n : Nat) (s : KS) (a : A), Inv3 size cfg arrivals s a → a.mu < n →
    KReach (body size cfg) (fuel + 1) s0 s →
    ∃ sF aF, runLoop (body size cfg) (fuel + 1) none n s = .returned .none sF ∧
      Inv3 size cfg arrivals sF aF ∧ sF.agenda = [] ∧ KReach (body size cfg) (fuel + 1) s0 sF
  | 0, _, _, _, hmu, _ => absurd hmu (Nat.not_lt_zero _)
  | n + 1, s, a, h, hmu, hre => by
    cases hp : popMin s.agenda with
    | none =>
      refine ⟨s, a, ?_, h, popMin_none hp, hre⟩
      simp [runLoop, step, hp]
    | some qr =>
      obtain ⟨q, rest⟩ := qr
      obtain ⟨s', a', new, h1, h2, h3, -⟩ := inv3_step fuel h hp
      have := run_returns3 fuel s0 n s' a' h2 (by omega) (KReach.step hre (by rw [h1]; rfl))
      simpa [runLoop, h1] using this

/-- with an empty agenda everything has been forwarded -/
theorem inv3_final (h : Inv3 size cfg arrivals s a) (he : s.agenda = []) :
    ∃ o, orun size cfg (oInit cfg) (histOf s.trace) = some o ∧ o.waiting = [] ∧
      obsPuts (histOf s.trace) = arrivalsFrom 0 0 arrivals := by
  have hag := h.i.k.ag
  rw [he] at hag
  have hent : a.entries = [] := List.Perm.eq_nil hag.symm
  simp only [A.entries, List.append_eq_nil_iff] at hent
  obtain ⟨hro, hsr, hpe⟩ := hent
  obtain ⟨o, ho⟩ := h.o
  have hi := h.i.a
  cases hrun : a.run with
  | init q0 => simp [hrun, RPhase.entries] at hro
  | H g id q0 t0 => simp [hrun, RPhase.entries] at hro
  | T1 t id q0 => simp [hrun, RPhase.entries] at hro
  | W g t0 =>
    cases hsrc : a.src with
    | init q0 arr => simp [hsrc, SPhase.entries] at hsr
    | wait id arr q0 => simp [hsrc, SPhase.entries] at hsr
    | ending q0 => simp [hsrc, SPhase.entries] at hsr
    | done =>
      have hp := hi.run
      rw [hrun] at hp
      have hit : a.items = [] := by
        by_contra hc
        exact hp.2.2 hc hpe
      refine ⟨o, ho.run, ?_, ?_⟩
      · rw [ho.wq]; simp [waitingOf, RPhase.held, hrun, hit]
      · have := ho.fut
        rw [hsrc] at this
        simpa [srcFuture] using this

end TRK
