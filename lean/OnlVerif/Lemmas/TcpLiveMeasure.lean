import Mathlib.Algebra.Order.Archimedean.Basic
import OnlVerif.Lemmas.TcpLiveInv
/-!
# The termination measure of fair runs of the closed loop (C16)

Lexicographically:

1. `progress`: bytes the sink's contiguous prefix, the sender's `last_ack` and `next_seq` still have to go;
2. `pipe`: 0 if progress is already in the pipeline (a copy of the segment at `last_ack` is in flight, or an ACK
   beyond `last_ack`), else 1;
3. while not: how many more timer expiries can precede the expiry of the timer of `last_ack`
   (`need`: doublings of the RTO until a re-armed timer lands beyond it; `cnt`: timers still before it);
4. timers not yet due (twice) and due;
5. the weight of the packets in flight (a data packet outweighs the ACK it causes, which outweighs the retransmission
   a duplicate ACK may cause) plus the pending work of `run`.
-/

open TcpScalar TcpSender TcpSink TcpLoop

namespace AL
variable {β : Type}

theorem get?_set_ne {k q : Nat} (v : β) (l : List (Nat × β)) (h : q ≠ k) : get? q (set k v l) = get? q l := by
  induction l with
  | nil => simp [set, get?, h.symm]
  | cons p rest ih =>
    obtain ⟨k', v'⟩ := p
    unfold set
    by_cases hk : k' = k
    · subst hk
      simp only [if_true]
      unfold get?
      simp [h.symm]
    · simp only [hk, if_false]
      unfold get?
      by_cases hq : k' = q
      · simp [hq]
      · simp [hq, ih]

/-- replacing the value of a present key moves one unit of a count -/
theorem countP_set (p : Nat × β → Bool) {k : Nat} {v0 : β} (v : β) :
    ∀ {l : List (Nat × β)}, get? k l = some v0 →
      (set k v l).countP p + (if p (k, v0) then 1 else 0) = l.countP p + (if p (k, v) then 1 else 0) := by
  intro l
  induction l with
  | nil => intro h; simp [get?] at h
  | cons x rest ih =>
    intro h
    obtain ⟨k', v'⟩ := x
    unfold get? at h
    unfold set
    by_cases hk : k' = k
    · subst hk
      simp only [if_true] at h
      injection h with h
      subst h
      simp only [if_true, List.countP_cons]
      omega
    · simp only [hk, if_false] at h
      simp only [hk, if_false, List.countP_cons]
      have := ih h
      omega

theorem length_set_of_mem {k : Nat} {v0 : β} (v : β) : ∀ {l : List (Nat × β)}, get? k l = some v0 → (set k v l).length = l.length := by
  intro l
  induction l with
  | nil => intro h; simp [get?] at h
  | cons x rest ih =>
    intro h
    obtain ⟨k', v'⟩ := x
    unfold get? at h
    unfold set
    by_cases hk : k' = k
    · simp [hk]
    · simp only [hk, if_false] at h
      simp [hk, ih h]

end AL

namespace TcpLive

/-! ## `need`: how many doublings of the RTO until `now + 2·rto` passes `w` -/

theorem exists_need (w now rto : ℚ) (hr : 0 < rto) : ∃ k : Nat, w < now + 2 ^ (k + 1) * rto := by
  obtain ⟨k, hk⟩ := exists_nat_gt ((w - now) / rto)
  refine ⟨k, ?_⟩
  have h1 : (k : ℚ) < 2 ^ (k + 1) := by
    have : k < 2 ^ (k + 1) := Nat.lt_of_lt_of_le (Nat.lt_two_pow_self) (Nat.pow_le_pow_right (by norm_num) (Nat.le_succ k))
    exact_mod_cast this
  have h2 : (w - now) / rto < 2 ^ (k + 1) := lt_trans hk h1
  have h3 : w - now < 2 ^ (k + 1) * rto := by
    have := (div_lt_iff₀ hr).mp h2
    linarith
  linarith

open Classical in
noncomputable def need (w now rto : ℚ) : Nat := if h : ∃ k : Nat, w < now + 2 ^ (k + 1) * rto then Nat.find h else 0

theorem need_spec (w now rto : ℚ) (hr : 0 < rto) : w < now + 2 ^ (need w now rto + 1) * rto := by
  unfold need
  rw [dif_pos (exists_need w now rto hr)]
  exact Nat.find_spec (exists_need w now rto hr)

theorem need_le (w now rto : ℚ) (k : Nat) (hk : w < now + 2 ^ (k + 1) * rto) : need w now rto ≤ k := by
  unfold need
  rw [dif_pos ⟨k, hk⟩]
  exact Nat.find_le hk

theorem need_mono_now (w now now' rto : ℚ) (hr : 0 < rto) (h : now ≤ now') : need w now' rto ≤ need w now rto := by
  apply need_le
  have := need_spec w now rto hr
  linarith

/-- a timer expiry doubles the RTO: one doubling fewer is needed -/
theorem need_double (w now rto : ℚ) (hr : 0 < rto) (h : 0 < need w now rto) :
    need w now (rto * 2) + 1 ≤ need w now rto := by
  have hs := need_spec w now rto hr
  have : need w now (rto * 2) ≤ need w now rto - 1 := by
    apply need_le
    have e : need w now rto - 1 + 1 = need w now rto := by omega
    rw [e]
    have : (2 : ℚ) ^ (need w now rto + 1) * rto = 2 ^ need w now rto * (rto * 2) := by ring
    linarith
  omega

theorem need_double_le (w now rto : ℚ) (hr : 0 < rto) : need w now (rto * 2) ≤ need w now rto := by
  apply need_le
  have hs := need_spec w now rto hr
  have h2 : (0:ℚ) < 2 ^ (need w now rto + 1) := by positivity
  nlinarith

theorem need_zero (w now rto : ℚ) (hr : 0 < rto) (h : need w now rto = 0) : w < now + rto * 2 := by
  have := need_spec w now rto hr
  rw [h] at this
  norm_num at this
  linarith

/-! ## the components -/

/-- the sink's contiguous prefix, read off a sorted buffer (what `TcpSink.ackOf` returns) -/
def pfx : List Range → Nat
  | [] => 0
  | r :: _ => if r.1 == 0 then r.2 else 0

theorem pfx_isPrefix {L : List Range} (h : Sep L) : IsPrefix L (pfx L) := by
  cases L with
  | nil => exact ⟨fun b hb => absurd hb (Nat.not_lt_zero b), covers_nil 0⟩
  | cons r rest =>
    obtain ⟨p, hp, hpre⟩ := ackOf_isPrefix (r :: rest) h (by simp)
    have : p = pfx (r :: rest) := by
      unfold ackOf at hp
      injection hp with hp
      exact hp.symm
    exact this ▸ hpre

/-- wake-up instant of the timer of segment `q` -/
def wakeOf (T : List (Nat × TimerRec ℚ)) (q : Nat) : ℚ :=
  match AL.get? q T with
  | some tr => tr.wake
  | none => 0

/-- timers other than `P`'s that wake no later than `w` -/
def cnt (T : List (Nat × TimerRec ℚ)) (P : Nat) (w : ℚ) : Nat :=
  T.countP fun kv => decide (kv.1 ≠ P) && decide (kv.2.wake ≤ w)

/-- timers that wake after `now` -/
def fut (T : List (Nat × TimerRec ℚ)) (now : ℚ) : Nat := T.countP fun kv => decide (now < kv.2.wake)

/-- timers that are due -/
def due (T : List (Nat × TimerRec ℚ)) (now : ℚ) : Nat := T.countP fun kv => decide (kv.2.wake ≤ now)

theorem fut_add_due (T : List (Nat × TimerRec ℚ)) (now : ℚ) : fut T now + due T now = T.length := by
  unfold fut due
  induction T with
  | nil => simp
  | cons x rest ih =>
    simp only [List.countP_cons, List.length_cons]
    by_cases hx : now < x.2.wake
    · have : ¬ x.2.wake ≤ now := not_le.mpr hx
      simp only [hx, this, decide_true, decide_false, if_true]
      simp
      omega
    · have : x.2.wake ≤ now := not_lt.mp hx
      simp only [hx, this, decide_true, decide_false, if_true]
      simp
      omega

/-- progress is already in the pipeline: a copy of the segment at `last_ack` is in flight, or an ACK beyond it -/
def InPipe (l : Loop ℚ) : Prop :=
  (∃ tx ∈ l.data, tx.seq = l.snd.last_ack) ∨ (∃ a ∈ l.acks, l.snd.last_ack < a.ackno)

/-- weight of the data path -/
def wd (P : Nat) (data : List (Tx ℚ)) : Nat := (data.map fun tx => if tx.seq = P then 1 else 3).sum

/-- weight of the ACK path -/
def wa (P : Nat) (acks : List (AckIn ℚ)) : Nat := (acks.map fun a => if a.ackno = P then 2 else 0).sum

/-- pending work of `run` -/
def pm (s : Sender ℚ) : Nat := 2 * s.tokens + if s.proc = .runnable then 1 else 0

def muA (n : Nat) (l : Loop ℚ) : Nat := (n - pfx l.sink) + (n - l.snd.last_ack) + (n - l.snd.next_seq)

open Classical in
noncomputable def muG (l : Loop ℚ) : Nat := if InPipe l then 0 else 1

open Classical in
noncomputable def muV (l : Loop ℚ) : Nat :=
  if InPipe l then 0
  else need (wakeOf l.snd.timers l.snd.last_ack) l.snd.now l.snd.est.rto +
       cnt l.snd.timers l.snd.last_ack (wakeOf l.snd.timers l.snd.last_ack)

open Classical in
noncomputable def muC (l : Loop ℚ) : Nat :=
  if InPipe l then due l.snd.timers l.snd.now else 2 * fut l.snd.timers l.snd.now + due l.snd.timers l.snd.now

def muW (l : Loop ℚ) : Nat := wd l.snd.last_ack l.data + wa l.snd.last_ack l.acks + pm l.snd

noncomputable def mu (n : Nat) (l : Loop ℚ) : Nat × Nat × Nat × Nat × Nat := (muA n l, muG l, muV l, muC l, muW l)

/-- the lexicographic order on the measure -/
def Lt5 : Nat × Nat × Nat × Nat × Nat → Nat × Nat × Nat × Nat × Nat → Prop :=
  Prod.Lex (· < ·) (Prod.Lex (· < ·) (Prod.Lex (· < ·) (Prod.Lex (· < ·) (· < ·))))

theorem lt5_wf : WellFounded Lt5 :=
  WellFounded.prod_lex Nat.lt_wfRel.wf (WellFounded.prod_lex Nat.lt_wfRel.wf (WellFounded.prod_lex Nat.lt_wfRel.wf
    (WellFounded.prod_lex Nat.lt_wfRel.wf Nat.lt_wfRel.wf)))

theorem lt5_iff (a b : Nat × Nat × Nat × Nat × Nat) :
    Lt5 a b ↔ a.1 < b.1 ∨ a.1 = b.1 ∧ (a.2.1 < b.2.1 ∨ a.2.1 = b.2.1 ∧ (a.2.2.1 < b.2.2.1 ∨ a.2.2.1 = b.2.2.1 ∧
      (a.2.2.2.1 < b.2.2.2.1 ∨ a.2.2.2.1 = b.2.2.2.1 ∧ a.2.2.2.2 < b.2.2.2.2))) := by
  unfold Lt5
  simp only [Prod.lex_def]

/-- the facts about the three marks that `muA` needs -/
theorem marks (n : Nat) {l : Loop ℚ} (h : LInv n l) :
    l.snd.last_ack ≤ pfx l.sink ∧ pfx l.sink ≤ l.snd.next_seq ∧ l.snd.next_seq ≤ n := by
  have hp := pfx_isPrefix h.sink
  refine ⟨?_, ?_, h.s.ns_le⟩
  · by_contra hc
    exact hp.2 (h.lap _ (Nat.lt_of_not_le hc))
  · by_contra hc
    have := h.sinkb _ (hp.1 _ (Nat.lt_of_not_le hc))
    omega

end TcpLive
