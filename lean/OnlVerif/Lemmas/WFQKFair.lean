import OnlVerif.Lemmas.WFQKFinal
import OnlVerif.Lemmas.StampFairBurst
/-!
# The WFQ scheduler on the kernel model: a burst of arrivals at one instant (static backlog), step by step on the LTS image
-/

set_option linter.unusedSimpArgs false

namespace WFQK
open WFQOnK QEntry Stamp

variable {N scale F : Nat} {flow size : Int → Nat} {cfg : WfqCfg ℚ} {d1 L : Nat} {arrivals : List (ℚ × Int)}
variable {s : KS} {a a' : A} {q : QEntry ℚ} {rest : List (QEntry ℚ)} {n e : Nat} {new : List (HEv ℚ)}

/-- an accepted action sequence that takes nothing in contains no `put` -/
theorem noPut_of_ins_nil {σ : Type} (d : Sched ℚ σ) : ∀ (as : List (StAct ℚ)) (s s' : StState ℚ σ) (outs : List SPkt),
    runActs d s as = .ok (s', [], outs) → WFQ.NoPut as
  | [], _, _, _, _ => by intro a ha; cases ha
  | x :: as, s, s', outs, h => by
    simp only [runActs] at h
    split at h
    · cases h
    · rename_i s1 o h1
      split at h
      · cases h
      · rename_i s2 i2 o2 h2
        simp only [Except.ok.injEq, Prod.mk.injEq] at h
        obtain ⟨rfl, h3, rfl⟩ := h
        have he : entered x o = [] ∧ i2 = [] := by
          simpa [List.append_eq_nil_iff] using h3
        have ih := noPut_of_ins_nil d as s1 s2 o2 (by rw [he.2] at h2; exact h2)
        intro b hb p hbp
        rcases List.mem_cons.mp hb with rfl | hb'
        · subst hbp
          -- an accepted `put` always answers `.accepted`
          simp only [Stamp.step] at h1
          unfold Stamp.doPut at h1
          split at h1
          · cases h1
          · simp only [Except.ok.injEq, Prod.mk.injEq] at h1
            obtain ⟨-, rfl⟩ := h1
            simp [entered] at he
        · exact ih b hb' p hbp

/-- the `put` of the source is one LTS action -/
theorem lts_put (hi : AInv N scale size F flow cfg d1 L a q.time) {id : Int} {arr : List (ℚ × Int)}
    (h : a.src = .wait id arr q) :
    Stamp.step (WFQ.sched cfg) (toM size F flow cfg a q.time) (.put (pktOf flow size id)) =
      .ok (toM size F flow cfg { a.afterPut size F flow cfg q.time id with
        src := srcNext q.time (e + 1) (n + 1) arr
        pend := a.pend ++ [⟨q.time, NORMAL, e, n⟩] } q.time, .accepted) := by
  have hs := hi.src
  rw [h] at hs
  obtain ⟨-, hwk, -, -⟩ := hs
  have hfid : flow id < F := (hwk.gap (0, id) List.mem_cons_self).2.1
  have h0c : flow id ∉ a.keys flow → a.cnt (flow id) = 0 := fun hk => ((hi.keysOK _ hfid).1 hk).1
  have h0b : flow id ∉ a.keys flow → a.byt (flow id) = 0 := fun hk => ((hi.keysOK _ hfid).1 hk).2.1
  simp only [Stamp.step]
  rw [doPut_toM hi hfid]
  simp only [Stamp.enqueue, toM, A.keys, keysOf_append, putRec, pktOf, bump_dictOf _ (keysOf_nodup _) _ _ _ h0c,
    bump_dictOf _ (keysOf_nodup _) _ _ _ h0b, List.map_append, List.map_singleton, itemW, A.afterPut]

/-! ## the invariant of a burst, along kernel runs -/

/-- the workload is one burst: every packet arrives at the instant `t0` (all gaps but the first are 0), sizes lie in
`(0, Lm]` -/
structure BurstOK (size : Int → Nat) (Lm : Nat) (t0 : ℚ) (arrivals : List (ℚ × Int)) : Prop where
  inst : ∀ x ∈ arrivalsFrom 0 arrivals, x.2 = t0
  sz : ∀ id, 0 < size id ∧ size id ≤ Lm

/-- the full invariant and the fairness invariant of the LTS image -/
structure InvF (N scale F : Nat) (flow size : Int → Nat) (cfg : WfqCfg ℚ) (d1 L : Nat) (arrivals : List (ℚ × Int))
    (Lm : Nat) (t0 : ℚ) (s : KS) (a : A) : Prop where
  i : Inv3 N scale F flow size cfg d1 L arrivals s a
  f : WFQ.FairB cfg Lm t0 (toM size F flow cfg a s.now) (outPk size flow (histOf s.trace))

theorem pos_of_cfgOK (hc : CfgOK F cfg) : WFQ.Pos cfg := by
  refine ⟨hc.rate, ?_⟩
  intro k v hk
  have hkF : k < F := hc.keys _ (lookup_mem_o _ _ _ hk)
  obtain ⟨m, h1, h2⟩ := hc.w k hkF
  rw [hk] at h2
  cases h2
  exact_mod_cast h1

/-- a configuration step without a `put`, on the fairness invariant -/
theorem fairB_noput {Lm : Nat} {t0 : ℚ} {outs : List SPkt} (hc : CfgOK F cfg)
    (hf : WFQ.FairB cfg Lm t0 (toM size F flow cfg a q.time) outs)
    (hacts : ∃ acts, runActs (WFQ.sched cfg) (toM size F flow cfg a q.time) acts =
      .ok (toM size F flow cfg a' q.time, [], outPk size flow new)) :
    WFQ.FairB cfg Lm t0 (toM size F flow cfg a' q.time) (outs ++ outPk size flow new) := by
  obtain ⟨acts, hr⟩ := hacts
  exact WFQ.fairB_runActs_noput (pos_of_cfgOK hc) acts (noPut_of_ins_nil _ _ _ _ _ hr) hf hr

theorem invF_step {Lm : Nat} {t0 : ℚ} (fuel : Nat) (hb : BurstOK size Lm t0 arrivals)
    (h : InvF N scale F flow size cfg d1 L arrivals Lm t0 s a) (hp : popMin s.agenda = some (q, rest)) :
    ∃ s' a', _root_.step (prog F flow size cfg N scale) (fuel + 1) s = .ok s' ∧
      InvF N scale F flow size cfg d1 L arrivals Lm t0 s' a' := by
  obtain ⟨s', a', new, h1, h2, h3, h4, h5, h6, -⟩ := inv_step_lts (size := size) fuel h.i.i hp
  have hmin := (isMin_of_pop h.i.i.k hp).1
  have hia := h.i.i.ai.advance hmin
  have hc := hia.cfgOK
  obtain ⟨o, hr, ho⟩ := h.i.o
  obtain ⟨o', hr', ho'⟩ := oracle_step_hist hia hmin (entries_eid h.i.i.k) hr (oinv_advance h.i.i.ai hmin ho) h4
  have hi3 : Inv3 N scale F flow size cfg d1 L arrivals s' a' :=
    ⟨h2, ⟨o', by rw [h6]; exact hr', by rw [h5]; exact ho'⟩, pinv_step h.i.p h4⟩
  refine ⟨s', a', h1, hi3, ?_⟩
  -- the clock advance
  obtain ⟨acts0, h0⟩ := lts_advance (size := size) h.i.i.ai hmin
  have hf0 : WFQ.FairB cfg Lm t0 (toM size F flow cfg a q.time) (outPk size flow (histOf s.trace)) := by
    have := WFQ.fairB_runActs_noput (pos_of_cfgOK hc) acts0 (noPut_of_ins_nil _ _ _ _ _ h0) h.f h0
    simpa using this
  rw [h5, h6, outPk_append]
  have hnp : putPk size flow new = [] → WFQ.FairB cfg Lm t0 (toM size F flow cfg a' q.time)
      (outPk size flow (histOf s.trace) ++ outPk size flow new) := by
    intro hnil
    obtain ⟨acts, hr2⟩ := lts_step hia h4
    rw [hnil] at hr2
    exact fairB_noput hc hf0 ⟨acts, hr2⟩
  cases h4 with
  | srcPut id arr h0s =>
    have hstep := lts_put (e := s.eid) (n := s.events.size) hia h0s
    have ht := step_trans _ _ _ _ _ hstep
    have hq : q.time = t0 := by
      have hpi := h.i.p
      unfold PInv at hpi
      rw [h0s] at hpi
      have hm : (id, q.time) ∈ arrivalsFrom 0 arrivals := by
        rw [← hpi]; simp [remaining]
      exact hb.inst _ hm
    have hsz : 0 < (pktOf flow size id).size ∧ (pktOf flow size id).size ≤ Lm := hb.sz id
    obtain ⟨hf1, -⟩ := WFQ.fairB_step_put (pos_of_cfgOK hc) hf0 (by show q.time = t0; exact hq) hsz ht
    have : outPk size flow [HEv.put id q.time, HEv.vtime (a.advV F cfg q.time),
        HEv.stamp (putRec size F flow cfg a q.time id).2.2] = [] := by simp [outPk]
    rw [this, List.append_nil]
    exact hf1
  | runInit h0 => exact hnp (by simp [putPk])
  | pktResume g w h0 => exact hnp (by simp [putPk])
  | sendInit p id h0 => exact hnp (by simp [putPk])
  | sendFire p t id h0 => exact hnp (by simp [putPk])
  | doneHit p id0 w h0 hw => exact hnp (by simp [putPk])
  | doneBlock p id0 h0 hit => exact hnp (by simp [putPk])
  | srcInit arr h0 => exact hnp (by simp [putPk])
  | srcEnd h0 => exact hnp (by simp [putPk])
  | pendNoop l1 l2 hpe hno => exact hnp (by simp [putPk])
  | pendHand g w l1 l2 hpe h0 hw => exact hnp (by simp [putPk])

theorem invF_init {Lm : Nat} {t0 : ℚ} (hc : CfgOK F cfg) (hg : GridOK scale size F cfg d1 L arrivals)
    (hw : WorkOK N size F flow cfg d1 arrivals) :
    InvF N scale F flow size cfg d1 L arrivals Lm t0 (initState F arrivals) (a0 arrivals) := by
  obtain ⟨-, h2, h3⟩ := kinv_init (N := N) (scale := scale) (size := size) hc arrivals
  refine ⟨inv3_init hc hg hw, ?_⟩
  rw [h2, h3, toM_a0]
  exact WFQ.fairB_start' cfg Lm t0 0

/-- **every state reachable by kernel steps of a burst workload satisfies the fairness invariant** -/
theorem reach_invF {Lm : Nat} {t0 : ℚ} (fuel : Nat) (hc : CfgOK F cfg) (hg : GridOK scale size F cfg d1 L arrivals)
    (hw : WorkOK N size F flow cfg d1 arrivals) (hb : BurstOK size Lm t0 arrivals)
    (h : KReach (prog F flow size cfg N scale) (fuel + 1) (initState F arrivals) s) :
    ∃ a, InvF N scale F flow size cfg d1 L arrivals Lm t0 s a := by
  induction h with
  | init => exact ⟨a0 arrivals, invF_init hc hg hw⟩
  | @step s s' _ hs ih =>
    obtain ⟨a, hi⟩ := ih
    cases hp : popMin s.agenda with
    | none => simp [_root_.step, hp, StepResult.state?] at hs
    | some qr =>
      obtain ⟨q, rest⟩ := qr
      obtain ⟨s'', a', h1, h2⟩ := invF_step fuel hb hi hp
      rw [h1] at hs
      simp only [StepResult.state?, Option.some.injEq] at hs
      subst hs
      exact ⟨a', h2⟩

end WFQK
