import OnlVerif.Lemmas.SndKOps2
/-!
# The TCP sender on the kernel model: the attribute cells under the writes of the program

`CellsOK s a` after a `Call.store`: one lemma per attribute (group).  The indices of the cells are pairwise different
(`cell_ne`: unfold and `omega`).
-/

set_option linter.unusedSimpArgs false

namespace SndK
open SenderOnK
open TimerK (lookup)

/-- two cell indices are different -/
macro "cell_ne" : tactic =>
  `(tactic| ((try simp only [cNext, cBuf, cLack, cDup, cRtt, cDev, cRto, cCC, cCwnd, cPutAt, cSent, cTmIn, cTmStopped,
      cTmExpire, cTmTimeout, cTmStart, cTmProc, ne_eq]); omega))

@[simp] theorem spawnSt_shared (s : KS) (st : St) : (spawnSt s st).shared = s.shared := rfl
@[simp] theorem emit_shared (s : KS) (o : Obs ℚ) : (s.emit o).shared = s.shared := rfl

/-- drop the writes to other cells from a `lookup` (the cell indices are unfolded to numbers) -/
macro "strip" : tactic =>
  `(tactic| ((try simp only [cNext, cBuf, cLack, cDup, cRtt, cDev, cRto, cCC, cCwnd, cPutAt, cSent, cTmIn, cTmStopped,
      cTmExpire, cTmTimeout, cTmStart, cTmProc]); simp (disch := omega) only [lookup_setCell_ne, lookup_setCell_same, spawnSt_shared, emit_shared]))

/-! ## association lists -/

theorem AL_get?_set {β : Type} (k k' : Nat) (v : β) (l : List (Nat × β)) :
    AL.get? k' (AL.set k v l) = if k' = k then some v else AL.get? k' l := by
  induction l with
  | nil =>
    simp only [AL.set, AL.get?]
    by_cases h : k' = k
    · simp [h]
    · have : ¬ k = k' := fun e => h e.symm
      simp [h, this]
  | cons x xs ih =>
    obtain ⟨a, b⟩ := x
    simp only [AL.set]
    by_cases ha : a = k
    · subst ha
      simp only [if_true, AL.get?]
      by_cases h : k' = a
      · simp [h]
      · have : ¬ a = k' := fun e => h e.symm
        simp [h, this]
    · simp only [ha, if_false, AL.get?]
      by_cases hk : a = k'
      · subst hk
        simp [ha]
      · simp only [hk, if_false]
        exact ih

theorem AL_get?_del {β : Type} (k k' : Nat) (l : List (Nat × β)) (hn : (AL.keys l).Nodup) :
    AL.get? k' (AL.del k l) = if k' = k then none else AL.get? k' l := by
  induction l with
  | nil => simp [AL.del, AL.get?]
  | cons x xs ih =>
    obtain ⟨a, b⟩ := x
    have hn' : (AL.keys xs).Nodup := (List.nodup_cons.mp hn).2
    have ha : a ∉ AL.keys xs := (List.nodup_cons.mp hn).1
    simp only [AL.del]
    by_cases hak : a = k
    · subst hak
      simp only [if_true, AL.get?]
      by_cases h : k' = a
      · subst h
        simp only [if_true]
        exact (AL.get?_eq_none_iff _ _).mpr ha
      · have : ¬ a = k' := fun e => h e.symm
        simp [h, this]
    · simp only [hak, if_false, AL.get?]
      by_cases hk : a = k'
      · subst hk
        simp [hak]
      · simp only [hk, if_false]
        exact ih hn'

/-! ## the cells of the congestion-control object -/

/-- the state after `storeCC c` -/
def storeCCSt (s : KS) (c : CCState ℚ) : KS :=
  setCell (setCell (setCell (setCell (setCell (setCell (setCell (setCell (setCell (setCell (setCell (setCell (setCell (setCell
    (setCell (setCell s (cCC 0) (TimeCell.enc c.mss)) (cCC 1) (TimeCell.enc c.cwnd)) (cCC 2) (TimeCell.enc c.ssthresh))
    (cCC 3) (TimeCell.enc c.W_last_max)) (cCC 4) (TimeCell.enc c.epoch_start)) (cCC 5) (TimeCell.enc c.origin_point))
    (cCC 6) (TimeCell.enc c.d_min)) (cCC 7) (TimeCell.enc c.W_tcp)) (cCC 8) (TimeCell.enc c.K)) (cCC 9) (TimeCell.enc c.ack_cnt))
    (cCC 10) (flagVal c.tcp_friendliness)) (cCC 11) (flagVal c.fast_convergence)) (cCC 12) (TimeCell.enc c.beta))
    (cCC 13) (TimeCell.enc c.C)) (cCC 14) (TimeCell.enc c.cwnd_cnt)) (cCC 15) (TimeCell.enc c.cnt)

theorem rb_storeCC (s : KS) (c : CCState ℚ) (p : EvId) (cont : B ℚ) :
    runBurst p (storeCC c cont) s = runBurst p cont (storeCCSt s c) := by
  simp only [storeCC, rb_storeTime, rb_storeFlag, storeCCSt]

theorem rb_loadCC {s : KS} {c : CCState ℚ} (h : ∀ x ∈ ccCells c, lookup s.shared x.1 = x.2) (p : EvId)
    (cont : CCState ℚ → B ℚ) : runBurst p (loadCC cont) s = runBurst p (cont c) s := by
  simp only [ccCells, List.forall_mem_cons, List.not_mem_nil, IsEmpty.forall_iff, implies_true, and_true] at h
  obtain ⟨h0, h1, h2, h3, h4, h5, h6, h7, h8, h9, h10, h11, h12, h13, h14, h15⟩ := h
  simp only [loadCC, rb_loadTime h0, rb_loadTime h1, rb_loadTime h2, rb_loadTime h3, rb_loadTime h4, rb_loadTime h5,
    rb_loadTime h6, rb_loadTime h7, rb_loadTime h8, rb_loadTime h9, rb_loadFlag_val h10, rb_loadFlag_val h11, rb_loadTime h12,
    rb_loadTime h13, rb_loadTime h14, rb_loadTime h15]

theorem storeCCSt_cc (s : KS) (c : CCState ℚ) : ∀ x ∈ ccCells c, lookup (storeCCSt s c).shared x.1 = x.2 := by
  simp only [ccCells, List.forall_mem_cons, List.not_mem_nil, IsEmpty.forall_iff, implies_true, and_true, storeCCSt]
  refine ⟨?_, ?_, ?_, ?_, ?_, ?_, ?_, ?_, ?_, ?_, ?_, ?_, ?_, ?_, ?_, ?_⟩ <;> strip

theorem storeCCSt_other (s : KS) (c : CCState ℚ) (k : Nat) (hk : k < 7 ∨ 22 < k) :
    lookup (storeCCSt s c).shared k = lookup s.shared k := by
  unfold storeCCSt
  strip

theorem storeCCSt_kk {act : Option EvId} {s : KS} {κ : Kern} (h : KK act s κ) (c : CCState ℚ) : KK act (storeCCSt s c) κ := by
  unfold storeCCSt
  repeat apply KK.setCell
  exact h

theorem ccCells_fst {c : CCState ℚ} {x : Nat × Val} (h : x ∈ ccCells c) : 7 ≤ x.1 ∧ x.1 ≤ 22 := by
  simp only [ccCells, cCC, List.mem_cons, List.not_mem_nil, or_false] at h
  rcases h with rfl | rfl | rfl | rfl | rfl | rfl | rfl | rfl | rfl | rfl | rfl | rfl | rfl | rfl | rfl | rfl <;> simp

/-! ## one write, one attribute -/

/-- close the goals of `CellsOK` about the cells that a write does not touch -/
macro "cg" h:ident : tactic =>
  `(tactic| (first
    | (strip; first | exact ($h).next | exact ($h).buf | exact ($h).lack | exact ($h).dup | exact ($h).rtt | exact ($h).dev
                    | exact ($h).rto | exact ($h).putAt)
    | (intro seq; strip; first | exact ($h).sent seq | exact ($h).tin seq)
    | (intro seq hs; strip; first | exact ($h).stopped seq hs | exact ($h).expire seq hs | exact ($h).timeout seq hs
                                  | exact ($h).start seq hs | exact ($h).proc seq hs)
    | (intro x hx; have := ccCells_fst hx; strip; exact ($h).cc x hx)))

variable {act : Option EvId} {s : KS} {a : A}

theorem KI.set_dup (h : KI act s a) (n : Nat) :
    KI act (setCell s cDup (.int n)) { a with S := { a.S with dupack := n } } := by
  refine ⟨h.k.setCell _ _, ?_⟩
  have hc := h.c
  refine ⟨?_, ?_, ?_, ?_, ?_, ?_, ?_, ?_, ?_, ?_, ?_, ?_, ?_, ?_, ?_, ?_⟩
  all_goals first | cg hc | skip
  exact lookup_setCell_same _ _ _

theorem KI.set_lack (h : KI act s a) (n : Nat) :
    KI act (setCell s cLack (.int n)) { a with S := { a.S with last_ack := n } } := by
  refine ⟨h.k.setCell _ _, ?_⟩
  have hc := h.c
  refine ⟨?_, ?_, ?_, ?_, ?_, ?_, ?_, ?_, ?_, ?_, ?_, ?_, ?_, ?_, ?_, ?_⟩
  all_goals first | cg hc | skip
  exact lookup_setCell_same _ _ _

theorem KI.set_buf (h : KI act s a) (n : Nat) :
    KI act (setCell s cBuf (.int n)) { a with S := { a.S with send_buffer := n } } := by
  refine ⟨h.k.setCell _ _, ?_⟩
  have hc := h.c
  refine ⟨?_, ?_, ?_, ?_, ?_, ?_, ?_, ?_, ?_, ?_, ?_, ?_, ?_, ?_, ?_, ?_⟩
  all_goals first | cg hc | skip
  exact lookup_setCell_same _ _ _

theorem KI.set_next (h : KI act s a) (n : Nat) :
    KI act (setCell s cNext (.int n)) { a with S := { a.S with next_seq := n } } := by
  refine ⟨h.k.setCell _ _, ?_⟩
  have hc := h.c
  refine ⟨?_, ?_, ?_, ?_, ?_, ?_, ?_, ?_, ?_, ?_, ?_, ?_, ?_, ?_, ?_, ?_⟩
  all_goals first | cg hc | skip
  exact lookup_setCell_same _ _ _

theorem KI.set_putAt (h : KI act s a) (t : ℚ) :
    KI act (setCell s cPutAt (TimeCell.enc t)) { a with putAt := t } := by
  refine ⟨h.k.setCell _ _, ?_⟩
  have hc := h.c
  refine ⟨?_, ?_, ?_, ?_, ?_, ?_, ?_, ?_, ?_, ?_, ?_, ?_, ?_, ?_, ?_, ?_⟩
  all_goals first | cg hc | skip
  exact lookup_setCell_same _ _ _

/-- the state after `storeEst e` -/
def storeEstSt (s : KS) (e : RttEst ℚ) : KS :=
  setCell (setCell (setCell s cRtt (TimeCell.enc e.rtt_estimate)) cDev (TimeCell.enc e.est_deviation)) cRto (TimeCell.enc e.rto)

theorem rb_storeEst (s : KS) (e : RttEst ℚ) (p : EvId) (cont : B ℚ) :
    runBurst p (storeEst e cont) s = runBurst p cont (storeEstSt s e) := by
  simp only [storeEst, rb_storeTime, storeEstSt]

theorem rb_loadEst (hc : CellsOK s a) (p : EvId) (cont : RttEst ℚ → B ℚ) :
    runBurst p (loadEst cont) s = runBurst p (cont a.S.est) s := by
  simp only [loadEst, rb_loadTime hc.rtt, rb_loadTime hc.dev, rb_loadTime hc.rto]

theorem KI.set_est (h : KI act s a) (e : RttEst ℚ) :
    KI act (storeEstSt s e) { a with S := { a.S with est := e } } := by
  refine ⟨(((h.k.setCell _ _).setCell _ _).setCell _ _), ?_⟩
  have hc := h.c
  unfold storeEstSt
  refine ⟨?_, ?_, ?_, ?_, ?_, ?_, ?_, ?_, ?_, ?_, ?_, ?_, ?_, ?_, ?_, ?_⟩
  all_goals first | cg hc | skip
  all_goals strip

theorem KI.set_cc (h : KI act s a) (c : CCState ℚ) :
    KI act (storeCCSt s c) { a with S := { a.S with cc := c } } := by
  refine ⟨storeCCSt_kk h.k c, ?_⟩
  have hc := h.c
  refine ⟨?_, ?_, ?_, ?_, ?_, ?_, ?_, storeCCSt_cc s c, ?_, ?_, ?_, ?_, ?_, ?_, ?_, ?_⟩
  all_goals unfold storeCCSt
  all_goals cg hc

/-- `ccCall f`: the generated method `f` applied to the object in the cells -/
theorem rb_ccCall (h : KI act s a) (f : CCState ℚ → CCState ℚ) (p : EvId) (cont : B ℚ) :
    runBurst p (ccCall f cont) s = runBurst p cont (storeCCSt s (f a.S.cc)) := by
  simp only [ccCall, rb_loadCC h.c.cc, rb_storeCC]

theorem rb_estCall (h : KI act s a) (f : RttEst ℚ → RttEst ℚ) (p : EvId) (cont : B ℚ) :
    runBurst p (estCall f cont) s = runBurst p cont (storeEstSt s (f a.S.est)) := by
  simp only [estCall, rb_loadEst h.c, rb_storeEst]

theorem KI.set_sent (h : KI act s a) (seq : Nat) (t : ℚ) :
    KI act (setCell s (cSent seq) (TimeCell.enc t)) { a with S := { a.S with sent := AL.set seq t a.S.sent } } := by
  refine ⟨h.k.setCell _ _, ?_⟩
  have hc := h.c
  refine ⟨?_, ?_, ?_, ?_, ?_, ?_, ?_, ?_, ?_, ?_, ?_, ?_, ?_, ?_, ?_, ?_⟩
  all_goals first | cg hc | skip
  intro seq'
  show _ = optEnc (AL.get? seq' (AL.set seq t a.S.sent))
  rw [AL_get?_set]
  by_cases he : seq' = seq
  · subst he; rw [if_pos rfl]; strip; rfl
  · rw [if_neg he]; strip; exact hc.sent seq'

theorem KI.del_sent (h : KI act s a) (seq : Nat) (hn : (AL.keys a.S.sent).Nodup) :
    KI act (setCell s (cSent seq) .none) { a with S := { a.S with sent := AL.del seq a.S.sent } } := by
  refine ⟨h.k.setCell _ _, ?_⟩
  have hc := h.c
  refine ⟨?_, ?_, ?_, ?_, ?_, ?_, ?_, ?_, ?_, ?_, ?_, ?_, ?_, ?_, ?_, ?_⟩
  all_goals first | cg hc | skip
  intro seq'
  show _ = optEnc (AL.get? seq' (AL.del seq a.S.sent))
  rw [AL_get?_del _ _ _ hn]
  by_cases he : seq' = seq
  · subst he; rw [if_pos rfl]; strip; rfl
  · rw [if_neg he]; strip; exact hc.sent seq'

theorem KI.set_tin (h : KI act s a) (seq : Nat) (r : TimerRec ℚ) :
    KI act (setCell s (cTmIn seq) (.int 1)) { a with S := { a.S with timers := AL.set seq r a.S.timers } } := by
  refine ⟨h.k.setCell _ _, ?_⟩
  have hc := h.c
  refine ⟨?_, ?_, ?_, ?_, ?_, ?_, ?_, ?_, ?_, ?_, ?_, ?_, ?_, ?_, ?_, ?_⟩
  all_goals first | cg hc | skip
  intro seq'
  show _ = if (AL.get? seq' (AL.set seq r a.S.timers)).isSome then _ else _
  rw [AL_get?_set]
  by_cases he : seq' = seq
  · subst he; rw [if_pos rfl]; strip; rfl
  · rw [if_neg he]; strip; exact hc.tin seq'

theorem KI.del_tin (h : KI act s a) (seq : Nat) (hn : (AL.keys a.S.timers).Nodup) :
    KI act (setCell s (cTmIn seq) .none) { a with S := { a.S with timers := AL.del seq a.S.timers } } := by
  refine ⟨h.k.setCell _ _, ?_⟩
  have hc := h.c
  refine ⟨?_, ?_, ?_, ?_, ?_, ?_, ?_, ?_, ?_, ?_, ?_, ?_, ?_, ?_, ?_, ?_⟩
  all_goals first | cg hc | skip
  intro seq'
  show _ = if (AL.get? seq' (AL.del seq a.S.timers)).isSome then _ else _
  rw [AL_get?_del _ _ _ hn]
  by_cases he : seq' = seq
  · subst he; rw [if_pos rfl]; strip; rfl
  · rw [if_neg he]; strip; exact hc.tin seq'

/-- a write to the timer record in `timers[seq]` that keeps the key: the presence flag does not change -/
theorem KI.upd_timer (h : KI act s a) (seq : Nat) (r : TimerRec ℚ) (hm : (AL.get? seq a.S.timers).isSome) :
    KI act s { a with S := { a.S with timers := AL.set seq r a.S.timers } } := by
  refine ⟨h.k, ?_⟩
  have hc := h.c
  refine ⟨hc.next, hc.buf, hc.lack, hc.dup, hc.rtt, hc.dev, hc.rto, hc.cc, hc.putAt, hc.sent, ?_, hc.stopped, hc.expire,
    hc.timeout, hc.start, hc.proc⟩
  intro seq'
  show _ = if (AL.get? seq' (AL.set seq r a.S.timers)).isSome then _ else _
  rw [AL_get?_set, hc.tin seq']
  by_cases he : seq' = seq
  · subst he; rw [if_pos rfl, hm]; rfl
  · rw [if_neg he]

theorem KI.set_stopped (h : KI act s a) (seq : Nat) (b : Bool) :
    KI act (setCell s (cTmStopped seq) (.int (if b then 1 else 0)))
      { a with tmc := upd a.tmc seq { a.tmc seq with stopped := b } } := by
  refine ⟨h.k.setCell _ _, ?_⟩
  have hc := h.c
  refine ⟨?_, ?_, ?_, ?_, ?_, ?_, ?_, ?_, ?_, ?_, ?_, ?_, ?_, ?_, ?_, ?_⟩
  all_goals first | cg hc | skip
  all_goals
    intro seq' hs
    by_cases he : seq' = seq
    · subst he
      simp only [upd_same]
      strip
      try (first | exact hc.stopped _ hs | exact hc.expire _ hs | exact hc.timeout _ hs | exact hc.start _ hs)
    · simp only [upd_ne _ _ _ _ he]
      strip
      first | exact hc.stopped _ hs | exact hc.expire _ hs | exact hc.timeout _ hs | exact hc.start _ hs

theorem KI.set_expire (h : KI act s a) (seq : Nat) (x : ℚ) :
    KI act (setCell s (cTmExpire seq) (TimeCell.enc x))
      { a with tmc := upd a.tmc seq { a.tmc seq with expire := x } } := by
  refine ⟨h.k.setCell _ _, ?_⟩
  have hc := h.c
  refine ⟨?_, ?_, ?_, ?_, ?_, ?_, ?_, ?_, ?_, ?_, ?_, ?_, ?_, ?_, ?_, ?_⟩
  all_goals first | cg hc | skip
  all_goals
    intro seq' hs
    by_cases he : seq' = seq
    · subst he
      simp only [upd_same]
      strip
      try (first | exact hc.stopped _ hs | exact hc.expire _ hs | exact hc.timeout _ hs | exact hc.start _ hs)
    · simp only [upd_ne _ _ _ _ he]
      strip
      first | exact hc.stopped _ hs | exact hc.expire _ hs | exact hc.timeout _ hs | exact hc.start _ hs

theorem KI.set_timeout (h : KI act s a) (seq : Nat) (x : ℚ) :
    KI act (setCell s (cTmTimeout seq) (TimeCell.enc x))
      { a with tmc := upd a.tmc seq { a.tmc seq with timeout := x } } := by
  refine ⟨h.k.setCell _ _, ?_⟩
  have hc := h.c
  refine ⟨?_, ?_, ?_, ?_, ?_, ?_, ?_, ?_, ?_, ?_, ?_, ?_, ?_, ?_, ?_, ?_⟩
  all_goals first | cg hc | skip
  all_goals
    intro seq' hs
    by_cases he : seq' = seq
    · subst he
      simp only [upd_same]
      strip
      try (first | exact hc.stopped _ hs | exact hc.expire _ hs | exact hc.timeout _ hs | exact hc.start _ hs)
    · simp only [upd_ne _ _ _ _ he]
      strip
      first | exact hc.stopped _ hs | exact hc.expire _ hs | exact hc.timeout _ hs | exact hc.start _ hs

theorem KI.set_start (h : KI act s a) (seq : Nat) (x : ℚ) :
    KI act (setCell s (cTmStart seq) (TimeCell.enc x))
      { a with tmc := upd a.tmc seq { a.tmc seq with start := x } } := by
  refine ⟨h.k.setCell _ _, ?_⟩
  have hc := h.c
  refine ⟨?_, ?_, ?_, ?_, ?_, ?_, ?_, ?_, ?_, ?_, ?_, ?_, ?_, ?_, ?_, ?_⟩
  all_goals first | cg hc | skip
  all_goals
    intro seq' hs
    by_cases he : seq' = seq
    · subst he
      simp only [upd_same]
      strip
      try (first | exact hc.stopped _ hs | exact hc.expire _ hs | exact hc.timeout _ hs | exact hc.start _ hs)
    · simp only [upd_ne _ _ _ _ he]
      strip
      first | exact hc.stopped _ hs | exact hc.expire _ hs | exact hc.timeout _ hs | exact hc.start _ hs

end SndK
