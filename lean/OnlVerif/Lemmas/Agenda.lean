import Mathlib.Tactic.Linarith
import Mathlib.Algebra.Order.Field.Rat
import Mathlib.Data.List.Perm.Basic
import OnlVerif.Kernel.Agenda
/-! # Lemmas about the event queue (exact rational time) -/

namespace QEntry

/-- the scheduling key `(time, priority, eid)` in lexicographic order -/
def KeyLt (a b : QEntry ℚ) : Prop :=
  a.time < b.time ∨ (a.time = b.time ∧ (a.prio < b.prio ∨ (a.prio = b.prio ∧ a.eid < b.eid)))

theorem lt_iff (a b : QEntry ℚ) : a.lt b = true ↔ KeyLt a b := by
  unfold QEntry.lt KeyLt
  simp only [Bool.or_eq_true, Bool.and_eq_true, decide_eq_true_eq, Bool.not_eq_true', decide_eq_false_iff_not,
    beq_iff_eq, not_lt]
  constructor
  · rintro (h | ⟨h1, h2⟩)
    · exact Or.inl h
    · rcases lt_or_eq_of_le h1 with h | h
      · exact Or.inl h
      · exact Or.inr ⟨h, h2⟩
  · rintro (h | ⟨h1, h2⟩)
    · exact Or.inl h
    · exact Or.inr ⟨le_of_eq h1, h2⟩

theorem KeyLt.trans {a b c : QEntry ℚ} (h1 : KeyLt a b) (h2 : KeyLt b c) : KeyLt a c := by
  unfold KeyLt at *
  rcases h1 with h1 | ⟨e1, h1⟩ <;> rcases h2 with h2 | ⟨e2, h2⟩
  · exact Or.inl (lt_trans h1 h2)
  · exact Or.inl (e2 ▸ h1)
  · exact Or.inl (e1 ▸ h2)
  · refine Or.inr ⟨e1.trans e2, ?_⟩
    rcases h1 with h1 | ⟨p1, h1⟩ <;> rcases h2 with h2 | ⟨p2, h2⟩
    · exact Or.inl (lt_trans h1 h2)
    · exact Or.inl (p2 ▸ h1)
    · exact Or.inl (p1 ▸ h2)
    · exact Or.inr ⟨p1.trans p2, lt_trans h1 h2⟩

theorem KeyLt.irrefl (a : QEntry ℚ) : ¬ KeyLt a a := by
  unfold KeyLt; intro h
  rcases h with h | ⟨_, h | ⟨_, h⟩⟩
  · exact lt_irrefl _ h
  · exact Nat.lt_irrefl _ h
  · exact Nat.lt_irrefl _ h

/-- two entries with different `eid` are always comparable -/
theorem KeyLt.total {a b : QEntry ℚ} (h : a.eid ≠ b.eid) : KeyLt a b ∨ KeyLt b a := by
  unfold KeyLt
  rcases lt_trichotomy a.time b.time with ht | ht | ht
  · exact Or.inl (Or.inl ht)
  · rcases Nat.lt_trichotomy a.prio b.prio with hp | hp | hp
    · exact Or.inl (Or.inr ⟨ht, Or.inl hp⟩)
    · rcases Nat.lt_trichotomy a.eid b.eid with he | he | he
      · exact Or.inl (Or.inr ⟨ht, Or.inr ⟨hp, he⟩⟩)
      · exact absurd he h
      · exact Or.inr (Or.inr ⟨ht.symm, Or.inr ⟨hp.symm, he⟩⟩)
    · exact Or.inr (Or.inr ⟨ht.symm, Or.inl hp⟩)
  · exact Or.inr (Or.inl ht)

/-- negative transitivity: the key order is a strict weak order -/
theorem KeyLt.of_not_lt_of_lt {a b c : QEntry ℚ} (h1 : ¬ KeyLt a b) (h2 : KeyLt a c) : KeyLt b c := by
  unfold KeyLt at *
  rcases lt_trichotomy a.time b.time with ht | ht | ht
  · exact absurd (Or.inl ht) h1
  · rcases Nat.lt_trichotomy a.prio b.prio with hp | hp | hp
    · exact absurd (Or.inr ⟨ht, Or.inl hp⟩) h1
    · rcases Nat.lt_trichotomy a.eid b.eid with he | he | he
      · exact absurd (Or.inr ⟨ht, Or.inr ⟨hp, he⟩⟩) h1
      · rw [← ht, ← hp, ← he]; exact h2
      · rw [← ht, ← hp]
        rcases h2 with h2 | ⟨e, h2 | ⟨e2, h2⟩⟩
        · exact Or.inl h2
        · exact Or.inr ⟨e, Or.inl h2⟩
        · exact Or.inr ⟨e, Or.inr ⟨e2, lt_trans he h2⟩⟩
    · rw [← ht]
      rcases h2 with h2 | ⟨e, h2 | ⟨e2, h2⟩⟩
      · exact Or.inl h2
      · exact Or.inr ⟨e, Or.inl (lt_trans hp h2)⟩
      · exact Or.inr ⟨e, Or.inl (e2 ▸ hp)⟩
  · rcases h2 with h2 | ⟨e, _⟩
    · exact Or.inl (lt_trans ht h2)
    · exact Or.inl (e ▸ ht)

theorem KeyLt.asymm {a b : QEntry ℚ} (h : KeyLt a b) : ¬ KeyLt b a :=
  fun h' => KeyLt.irrefl a (h.trans h')

end QEntry

open QEntry

/-- what `popMin` returns: the popped entry, the rest is the queue without it (as a multiset),
and nothing in the rest is smaller than the popped entry -/
theorem popMin_spec : ∀ (l : List (QEntry ℚ)) (m : QEntry ℚ) (rest : List (QEntry ℚ)),
    popMin l = some (m, rest) → l.Perm (m :: rest) ∧ ∀ x ∈ rest, ¬ KeyLt x m
  | [], m, rest, h => by simp [popMin] at h
  | x :: xs, m, rest, h => by
    unfold popMin at h
    cases hp : popMin xs with
    | none =>
      rw [hp] at h
      simp only [Option.some.injEq, Prod.mk.injEq] at h
      obtain ⟨rfl, rfl⟩ := h
      cases xs with
      | nil => exact ⟨List.Perm.refl _, by simp⟩
      | cons y ys =>
        exfalso
        unfold popMin at hp
        cases h2 : popMin ys <;> rw [h2] at hp
        · simp at hp
        · simp only at hp; split at hp <;> simp at hp
    | some mr =>
      obtain ⟨m', rest'⟩ := mr
      rw [hp] at h
      have ih := popMin_spec xs m' rest' hp
      simp only at h
      split at h
      · rename_i hlt
        simp only [Option.some.injEq, Prod.mk.injEq] at h
        obtain ⟨rfl, rfl⟩ := h
        refine ⟨?_, ?_⟩
        · exact (List.Perm.cons x ih.1).trans (List.Perm.swap _ _ _)
        · intro y hy
          rcases List.mem_cons.mp hy with rfl | hy
          · exact ((lt_iff _ _).mp hlt).asymm
          · exact ih.2 y hy
      · rename_i hnlt
        simp only [Option.some.injEq, Prod.mk.injEq] at h
        obtain ⟨rfl, rfl⟩ := h
        refine ⟨List.Perm.refl _, ?_⟩
        intro y hy
        have hy' : y ∈ m' :: rest' := ih.1.subset hy
        have hnm : ¬ KeyLt m' x := fun hk => hnlt ((lt_iff _ _).mpr hk)
        rcases List.mem_cons.mp hy' with rfl | hy'
        · exact hnm
        · exact fun hk => hnm (KeyLt.of_not_lt_of_lt (ih.2 y hy') hk)
