import OnlVerif.Lemmas.DRRKRefine
/-!
# The DRR scheduler on the kernel model: the send-or-park decision, read off the attribute cells

The burst in which `run` resumes with a packet it has just taken from the store of the class it visits: the packet is sent
iff the credit cell of the class covers it; otherwise it becomes the parked head of the class.
-/

set_option linter.unusedSimpArgs false

namespace DRRK
open DRROnK QEntry MQ
open TimerK (lookup dec_enc)

variable {F : Nat} {flow size : Int → Nat} {cfg : DRR.Cfg ℚ} {Lmax P : Nat}
variable {s : KS} {a : A} {q : QEntry ℚ} {rest : List (QEntry ℚ)}

theorem cellTime_def {Q : Nat → ℚ} (hk : KInv flow F Q s a) {f : Nat} (hf : f < F) : cellTime s (cDef f) = a.dfc f := by
  simp only [cellTime, cellVal_eq, hk.cells.cd f hf, dec_enc, Option.getD_some]

theorem cellVal_hol {Q : Nat → ℚ} (hk : KInv flow F Q s a) {f : Nat} (hf : f < F) : cellVal s (cHol f) = optVal (a.hol f) := by
  rw [cellVal_eq, hk.cells.ch f hf]

theorem cellInt_cls {Q : Nat → ℚ} (hk : KInv flow F Q s a) {f : Nat} (hf : f < F) : cellInt s (cCls f) = a.ccnt f := by
  simp only [cellInt, cellVal_eq, hk.cells.cq f hf]

/-- the burst that starts with a packet the credit does not cover: the packet is parked, the loops go on -/
theorem burst_got_park {now : ℚ} {g : EvId} {m : Nat} {id : Int} (hi : AInv flow F size cfg Lmax P a now) (h : a.run = .H g m id q)
    (hle : ¬ (Num.ofNat (size id) : ℚ) ≤ a.dfc (flow id)) :
    ∃ L fin, (∀ f, a.dfc f ≤ L.dfc f) ∧ fin ≠ .hang ∧
      EndOK size a.ccnt (upd a.hol (flow id) (some id)) (A.total F { a with hol := upd a.hol (flow id) (some id) }) cfg.weights L
        (some fin) ∧
      a.burst F (qOf cfg) size cfg.weights P now (.got m id) =
        ⟨finA { a with hol := upd a.hol (flow id) (some id) } L (some fin), [.park id now] ++ L.evs, fin⟩ := by
  have hQ0 : ∀ c, 0 ≤ qOf cfg c := fun c => by linarith [qOf_ge hi.table c]
  have hrun := hi.run
  rw [h] at hrun
  obtain ⟨w, hw⟩ := hrun.2.2.2.2.1
  obtain ⟨rest, hd⟩ := drop_of_getElem? hw
  obtain ⟨hm, -⟩ := mid_got hi h
  have hd' : cfg.weights.drop (m + 1) = rest := by
    have := congrArg List.tail hd
    simpa [List.tail_drop] using this
  have hv := visitFrom_ok (Q := qOf cfg) (size := size) (ccnt := a.ccnt) (hol := upd a.hol (flow id) (some id)) (t := now)
    (total := A.total F { a with hol := upd a.hol (flow id) (some id) }) (ws := cfg.weights) hQ0 rest (m + 1)
    ⟨a.dfc, []⟩ hd'
  obtain ⟨h1, h2, h3⟩ := loop_post (t := now) hm _ hv.1 hv.2
  refine ⟨_, _, h3, h1, h2, ?_⟩
  simp only [A.burst, hd, hle, if_false]
  rfl

/-- the burst that starts with a packet the credit covers: the packet is sent -/
theorem burst_got_send {now : ℚ} {g : EvId} {m : Nat} {id : Int} (hi : AInv flow F size cfg Lmax P a now) (h : a.run = .H g m id q)
    (hle : (Num.ofNat (size id) : ℚ) ≤ a.dfc (flow id)) :
    a.burst F (qOf cfg) size cfg.weights P now (.got m id) = ⟨a, [], .send m (flow id) id false⟩ := by
  have hrun := hi.run
  rw [h] at hrun
  obtain ⟨w, hw⟩ := hrun.2.2.2.2.1
  obtain ⟨rest, hd⟩ := drop_of_getElem? hw
  simp only [A.burst, hd, hle, if_true]

/-- a burst that starts while `run` holds a freshly taken packet starts with that packet -/
theorem startsAt_H {g : EvId} {m : Nat} {id : Int} {q0 : QEntry ℚ} (h : a.run = .H g m id q0) {en : Entry} (hst : StartsAt a q en) :
    en = .got m id ∧ q = q0 := by
  cases en with
  | top =>
    rcases hst with h1 | ⟨g1, h1⟩ <;> (rw [h] at h1; cases h1)
  | got m1 id1 =>
    obtain ⟨g1, h1⟩ := hst
    rw [h] at h1
    cases h1
    exact ⟨rfl, rfl⟩
  | done m1 id1 =>
    obtain ⟨p1, h1⟩ := hst
    rw [h] at h1; cases h1

/-- **the decision, on configurations and cells**: the step in which a `serve` or `park` is observed while `run` holds a
freshly taken packet -/
theorem decision_core (fuel : Nat) {g : EvId} {m : Nat} {id : Int} {q0 : QEntry ℚ} {s' : KS}
    (hi : Inv2 F flow size cfg Lmax P s a) (hrun : a.run = .H g m id q0)
    (hstep : step (prog F flow size cfg P) (fuel + 1) s = .ok s')
    (hdec : ∀ new, histOf s'.trace = histOf s.trace ++ new → ∃ i t, HEv.serve i t ∈ new ∨ HEv.park i t ∈ new) :
    (∃ w, cfg.weights[m]? = some (flow id, w)) ∧ flow id < F ∧ 0 < cellTime s (cDef (flow id)) ∧
    cellVal s (cHol (flow id)) = .none ∧ 0 < cellInt s (cCls (flow id)) ∧
    (∀ f, f < F → cellTime s (cDef f) ≤ cellTime s' (cDef f)) ∧
    (((size id : ℚ) ≤ cellTime s (cDef (flow id)) ∧ histOf s'.trace = histOf s.trace ++ [.serve id s'.now] ∧
        (absDRR cfg flow size s').phase = .spawned (pktOf flow size id) ∧
        ∀ f, f < F → cellTime s' (cDef f) = cellTime s (cDef f)) ∨
      (cellTime s (cDef (flow id)) < (size id : ℚ) ∧
        (∃ more, histOf s'.trace = histOf s.trace ++ .park id s'.now :: more) ∧
        (cellVal s' (cHol (flow id)) = .int id ∨ (absDRR cfg flow size s').phase = .spawned (pktOf flow size id)))) := by
  cases hp : popMin s.agenda with
  | none => simp [_root_.step, hp] at hstep
  | some qr =>
    obtain ⟨q, rest⟩ := qr
    obtain ⟨s'', a', new, h1, h2, -, h4, h5, h6, -⟩ := inv_step_lts fuel hi hp
    rw [h1] at hstep
    cases hstep
    have hmin := (isMin_of_pop hi.i.k hp).1
    have hai := hi.i.a.advance hmin
    have hra := hai.run
    rw [hrun] at hra
    obtain ⟨-, -, -, hpk, hw, hhol, hdpos⟩ := hra
    have hk := hi.i.k
    have hk' := h2.i.k
    obtain ⟨i, t, hmem⟩ := hdec new h6
    have hcls : 0 < a.ccnt (flow id) := by
      have h1' := hai.cntOK _ hpk.1
      have h2' := hai.ccntOK _ hpk.1
      rw [heldCnt_some (id := id) (by simp [hrun, RPhase.held]), if_pos rfl] at h1'
      rw [unbookedCnt_none (by simp [hrun, RPhase.unbooked])] at h2'
      have : 0 ≤ holCnt a (flow id) := by unfold holCnt; split <;> omega
      omega
    refine ⟨hw, hpk.1, by rw [cellTime_def hk hpk.1]; exact hdpos, by rw [cellVal_hol hk hpk.1, hhol]; rfl,
      by rw [cellInt_cls hk hpk.1]; exact hcls, ?_⟩
    rw [h5]
    -- which configuration step it is
    have hburst : ∀ (en : Entry) (r : BurstRes), StartsAt a q en →
        a.burst F (qOf cfg) size cfg.weights P q.time en = r →
        ((Num.ofNat (size id) : ℚ) ≤ a.dfc (flow id) ∧ r = ⟨a, [], .send m (flow id) id false⟩) ∨
        (¬ (Num.ofNat (size id) : ℚ) ≤ a.dfc (flow id) ∧ ∃ L fin, (∀ f, a.dfc f ≤ L.dfc f) ∧ fin ≠ .hang ∧
          EndOK size a.ccnt (upd a.hol (flow id) (some id)) (A.total F { a with hol := upd a.hol (flow id) (some id) })
            cfg.weights L (some fin) ∧
          r = ⟨finA { a with hol := upd a.hol (flow id) (some id) } L (some fin), [.park id q.time] ++ L.evs, fin⟩) := by
      intro en r hst hb
      obtain ⟨rfl, rfl⟩ := startsAt_H hrun hst
      by_cases hle : (Num.ofNat (size id) : ℚ) ≤ a.dfc (flow id)
      · exact Or.inl ⟨hle, by rw [← hb, burst_got_send hai hrun hle]⟩
      · obtain ⟨L, fin, g1, g2, g3, g4⟩ := burst_got_park hai hrun hle
        exact Or.inr ⟨hle, L, fin, g1, g2, g3, by rw [← hb, g4]⟩
    have hphase : ∀ (r : RPhase), a'.run = r → (absDRR cfg flow size s').phase = phaseOf flow size r := by
      intro r hr
      rw [absDRR_eq h2, ← hr]; rfl
    have hsz : (Num.ofNat (size id) : ℚ) = (size id : ℚ) := Num.ofNat_rat _
    cases h4 with
    | burstGet en r m' c' id' is hst hb hfin hc' hit =>
      rcases hburst en r hst hb with ⟨hle, rfl⟩ | ⟨hle, L, fin, g1, g2, g3, rfl⟩
      · cases hfin
      · simp only at hfin; subst hfin
        refine ⟨fun f hf => by rw [cellTime_def hk hf, cellTime_def hk' hf]; exact g1 f, Or.inr ⟨?_, ⟨_, h6⟩, Or.inl ?_⟩⟩
        · rw [cellTime_def hk hpk.1, ← hsz]; exact not_le.mp hle
        · rw [cellVal_hol hk' hpk.1]
          show optVal (upd a.hol (flow id) (some id) (flow id)) = _
          rw [upd_same]; rfl
    | burstSend en r m' c' id' pk hst hb hfin =>
      rcases hburst en r hst hb with ⟨hle, rfl⟩ | ⟨hle, L, fin, g1, g2, g3, rfl⟩
      · simp only [LoopEnd.send.injEq] at hfin
        obtain ⟨rfl, rfl, rfl, rfl⟩ := hfin
        refine ⟨fun f hf => by rw [cellTime_def hk hf, cellTime_def hk' hf], Or.inl ⟨?_, by simpa using h6, hphase _ rfl, ?_⟩⟩
        · rw [cellTime_def hk hpk.1, ← hsz]; exact hle
        · intro f hf; rw [cellTime_def hk hf, cellTime_def hk' hf]
      · simp only at hfin; subst hfin
        obtain ⟨rfl, ⟨w', hw'⟩, ghol, -, -⟩ := g3
        refine ⟨fun f hf => by rw [cellTime_def hk hf, cellTime_def hk' hf]; exact g1 f,
          Or.inr ⟨?_, ⟨_, by simpa [List.append_assoc] using h6⟩, ?_⟩⟩
        · rw [cellTime_def hk hpk.1, ← hsz]; exact not_le.mp hle
        · by_cases hcc : c' = flow id
          · subst hcc
            rw [upd_same] at ghol
            cases ghol
            exact Or.inr (hphase _ rfl)
          · left
            rw [cellVal_hol hk' hpk.1]
            show optVal (upd (upd a.hol (flow id) (some id)) c' none (flow id)) = _
            rw [upd_ne _ _ _ _ (Ne.symm hcc), upd_same]; rfl
    | burstBlock en r hst hb hfin htk =>
      rcases hburst en r hst hb with ⟨hle, rfl⟩ | ⟨hle, L, fin, g1, g2, g3, rfl⟩
      · cases hfin
      · simp only at hfin; subst hfin
        refine ⟨fun f hf => by rw [cellTime_def hk hf, cellTime_def hk' hf]; exact g1 f,
          Or.inr ⟨?_, ⟨_, by simpa [List.append_assoc] using h6⟩, Or.inl ?_⟩⟩
        · rw [cellTime_def hk hpk.1, ← hsz]; exact not_le.mp hle
        · rw [cellVal_hol hk' hpk.1]
          show optVal (upd a.hol (flow id) (some id) (flow id)) = _
          rw [upd_same]; rfl
    | burstTok en r k hst hb hfin htk =>
      rcases hburst en r hst hb with ⟨hle, rfl⟩ | ⟨hle, L, fin, g1, g2, g3, rfl⟩
      · cases hfin
      · simp only at hfin; subst hfin
        refine ⟨fun f hf => by rw [cellTime_def hk hf, cellTime_def hk' hf]; exact g1 f,
          Or.inr ⟨?_, ⟨_, by simpa [List.append_assoc] using h6⟩, Or.inl ?_⟩⟩
        · rw [cellTime_def hk hpk.1, ← hsz]; exact not_le.mp hle
        · rw [cellVal_hol hk' hpk.1]
          show optVal (upd a.hol (flow id) (some id) (flow id)) = _
          rw [upd_same]; rfl
    | sendInit p m1 id1 h => rcases hmem with hmem | hmem <;> cases hmem
    | sendFire p t1 m1 id1 h => rcases hmem with hmem | hmem <;> simp at hmem
    | srcInit arr h => rcases hmem with hmem | hmem <;> cases hmem
    | srcPutTok id1 arr h htot => rcases hmem with hmem | hmem <;> simp at hmem
    | srcPutPlain id1 arr h htot => rcases hmem with hmem | hmem <;> simp at hmem
    | srcEnd h => rcases hmem with hmem | hmem <;> cases hmem
    | pendNoop r l1 l2 hpe hno => rcases hmem with hmem | hmem <;> cases hmem
    | pendHand g1 t1 l1 l2 hpe h htk => rcases hmem with hmem | hmem <;> cases hmem

end DRRK
