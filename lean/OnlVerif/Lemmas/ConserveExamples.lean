import OnlVerif.Lemmas.ConserveStore
import OnlVerif.Lemmas.ConserveTrace
import OnlVerif.Lemmas.ConserveFifo
import OnlVerif.Lemmas.ConserveDecide
/-!
# Concrete runs used as non-vacuity witnesses by `Props/C06.lean` and `Props/C07.lean`

Each example is a real program (`body`) run by the model's `step` from an initial environment that holds one
spawned process; everything about the resulting states is evaluated by `decide`.
-/

namespace Conserve

/-- an event table without request events, checked on the allocated part -/
theorem noReq_of_bounded {σ : Type} (s : KState ℚ σ) (h : ∀ e, e < s.events.size → isReq s e = false) :
    ∀ e, isReq s e = false := by
  intro e
  by_cases he : e < s.events.size
  · exact h e he
  · cases hr : isReq s e with
    | false => rfl
    | true => exact absurd (lt_size_of_isReq hr) he

/-- the state after one kernel step (the state itself if the agenda is empty) -/
def stepSt {σ : Type} (body : σ → Resume → Burst ℚ σ) (fuel : Nat) (s : KState ℚ σ) : KState ℚ σ :=
  ((step body fuel s).state?).getD s

theorem stepSt_spec {σ : Type} (body : σ → Resume → Burst ℚ σ) (fuel : Nat) (s : KState ℚ σ)
    (h : ((step body fuel s).state?).isSome = true) : (step body fuel s).state? = some (stepSt body fuel s) := by
  obtain ⟨s1, h1⟩ := Option.isSome_iff_exists.mp h
  unfold stepSt; rw [h1]; rfl

/-- the environment after `env.process(body(st))` on a fresh environment with resources `rs` -/
def spawned {σ : Type} (rs : Array ResRec) (st : σ) : KState ℚ σ :=
  (doCall ({ now := 0, resources := rs } : KState ℚ σ) 0 (.spawn st)).1

theorem spawned_wf {σ : Type} (rs : Array ResRec) (st : σ)
    (h : ∀ r, (rs.getD r default).putQ = [] ∧ (rs.getD r default).getQ = []) : WF (spawned rs st) :=
  (Base.crel.doCall _ (WF.init 0 rs h) 0 (.spawn st) trivial).keepWF (WF.init 0 rs h)

theorem spawned_noReq {σ : Type} (rs : Array ResRec) (st : σ) : ∀ e, isReq (spawned rs st) e = false := by
  apply noReq_of_bounded
  intro e he
  have hsz : (spawned rs st).events.size = 2 := rfl
  rw [hsz] at he
  have : e = 0 ∨ e = 1 := by omega
  rcases this with h | h <;> subst h <;> rfl

theorem queues_empty_of_all (rs : Array ResRec) (h : ∀ i, i < rs.size → (rs.getD i default).putQ = [] ∧ (rs.getD i default).getQ = []) :
    ∀ r, (rs.getD r default).putQ = [] ∧ (rs.getD r default).getQ = [] := by
  intro r
  by_cases hr : r < rs.size
  · exact h r hr
  · have : rs.getD r default = default := by
      simp only [Array.getD_eq_getD_getElem?]
      rw [Array.getElem?_eq_none (Nat.le_of_not_lt hr)]; rfl
    rw [this]; exact ⟨rfl, rfl⟩

namespace ExContainer

/-- `yield c.put(3); yield c.put(2); yield c.get(4)` issued in one burst on `Container(capacity=10, init=1)` -/
def body : Nat → Resume → Burst ℚ Nat := fun _ _ =>
  .call (.cput 0 3) fun _ => .call (.cput 0 2) fun _ => .call (.cget 0 4) fun _ => .ret .none

def rs : Array ResRec := #[{ kind := .container, capacity := some 10, level := 1 }]
def s0 : KState ℚ Nat := spawned rs 0
def s1 : KState ℚ Nat := stepSt body 5 s0

theorem noTrig : ∀ st rs, NoTrig (body st rs) := fun _ _ =>
  .call _ _ rfl fun _ => .call _ _ rfl fun _ => .call _ _ rfl fun _ => .ret _

theorem wf0 : WF s0 := spawned_wf rs 0 (queues_empty_of_all rs (by decide))
theorem noReq0 : ∀ e, isReq s0 e = false := spawned_noReq rs 0

theorem reach : SafeReach body 5 s0 s1 :=
  SafeReach.step SafeReach.init (stepOK_of_noTrig body noTrig 5 s0) (stepSt_spec body 5 s0 (by decide))

end ExContainer

namespace ExStore

/-- `yield st.put(7); yield st.put(5); yield st.put(9); yield st.get()` issued in one burst on `Store(capacity=2)`:
the third put has to wait until the get has taken the oldest item -/
def body : Nat → Resume → Burst ℚ Nat := fun _ _ =>
  .call (.sput 0 7) fun _ => .call (.sput 0 5) fun _ => .call (.sput 0 9) fun _ => .call (.sget 0 0) fun _ => .ret .none

def rs : Array ResRec := #[{ kind := .store, capacity := some 2 }]
def s0 : KState ℚ Nat := spawned rs 0
def s1 : KState ℚ Nat := stepSt body 5 s0
def s2 : KState ℚ Nat := stepSt body 5 s1
def s3 : KState ℚ Nat := stepSt body 5 s2
def s4 : KState ℚ Nat := stepSt body 5 s3

theorem noTrig : ∀ st rs, NoTrig (body st rs) := fun _ _ =>
  .call _ _ rfl fun _ => .call _ _ rfl fun _ => .call _ _ rfl fun _ => .call _ _ rfl fun _ => .ret _

theorem wf0 : WF s0 := spawned_wf rs 0 (queues_empty_of_all rs (by decide))
theorem noReq0 : ∀ e, isReq s0 e = false := spawned_noReq rs 0

theorem sorted0 : QSorted s0 := QSorted.of_empty s0 (queues_empty_of_all rs (by decide))

theorem reach1 : SafeReach body 5 s0 s1 :=
  SafeReach.step SafeReach.init (stepOK_of_noTrig body noTrig 5 s0) (stepSt_spec body 5 s0 (by decide))
theorem reach2 : SafeReach body 5 s0 s2 :=
  SafeReach.step reach1 (stepOK_of_noTrig body noTrig 5 s1) (stepSt_spec body 5 s1 (by decide +kernel))
theorem reach3 : SafeReach body 5 s0 s3 :=
  SafeReach.step reach2 (stepOK_of_noTrig body noTrig 5 s2) (stepSt_spec body 5 s2 (by decide +kernel))
theorem reach4 : SafeReach body 5 s0 s4 :=
  SafeReach.step reach3 (stepOK_of_noTrig body noTrig 5 s3) (stepSt_spec body 5 s3 (by decide +kernel))

end ExStore

namespace ExPrio

/-- `PriorityResource(capacity=1)`: one burst issues `request(priority=2)` (granted at once), then `request(priority=1)`,
`request(priority=0)`, `request(priority=1)` (queued, sorted by priority, ties in arrival order), then releases the first -/
def body : Nat → Resume → Burst ℚ Nat := fun _ _ =>
  .call (.request 0 2 false) fun _ => .call (.request 0 1 false) fun _ => .call (.request 0 0 false) fun _ =>
  .call (.request 0 1 false) fun _ => .call (.release 0 2) fun _ => .ret .none

def rs : Array ResRec := #[{ kind := .priority, capacity := some 1 }]
def s0 : KState ℚ Nat := spawned rs 0
def s1 : KState ℚ Nat := stepSt body 5 s0
def s2 : KState ℚ Nat := stepSt body 5 s1
def s3 : KState ℚ Nat := stepSt body 5 s2

theorem noTrig : ∀ st rs, NoTrig (body st rs) := fun _ _ =>
  .call _ _ rfl fun _ => .call _ _ rfl fun _ => .call _ _ rfl fun _ => .call _ _ rfl fun _ => .call _ _ rfl fun _ => .ret _

theorem wf0 : WF s0 := spawned_wf rs 0 (queues_empty_of_all rs (by decide))
theorem noReq0 : ∀ e, isReq s0 e = false := spawned_noReq rs 0
theorem sorted0 : QSorted s0 := QSorted.of_empty s0 (queues_empty_of_all rs (by decide))

theorem reach1 : SafeReach body 5 s0 s1 :=
  SafeReach.step SafeReach.init (stepOK_of_noTrig body noTrig 5 s0) (stepSt_spec body 5 s0 (by decide +kernel))
theorem reach13 : SafeReach body 5 s1 s3 :=
  SafeReach.step (SafeReach.step SafeReach.init (stepOK_of_noTrig body noTrig 5 s1) (stepSt_spec body 5 s1 (by decide +kernel)))
    (stepOK_of_noTrig body noTrig 5 s2) (stepSt_spec body 5 s2 (by decide +kernel))

end ExPrio

namespace ExSucceed

/-- inside the domain although it calls `succeed`: the target is a plain event -/
def body : Nat → Resume → Burst ℚ Nat := fun _ _ =>
  .call .event fun rp => match rp with
    | .ev e => .call (.succeed e (.int 1)) fun _ => .call (.cput 0 3) fun _ => .ret .none
    | _ => .ret .none

def s0 : KState ℚ Nat := spawned ExContainer.rs 0
def s1 : KState ℚ Nat := stepSt body 5 s0

theorem wf0 : WF s0 := ExContainer.wf0
theorem noReq0 : ∀ e, isReq s0 e = false := ExContainer.noReq0
theorem reach : SafeReach body 5 s0 s1 :=
  SafeReach.step SafeReach.init (by decide +kernel) (stepSt_spec body 5 s0 (by decide +kernel))

end ExSucceed

namespace ExBad

/-- outside the domain: the program itself triggers a waiting `ContainerPut` (amount 20 on capacity 10) -/
def body : Nat → Resume → Burst ℚ Nat := fun _ _ =>
  .call (.cput 0 20) fun rp => match rp with
    | .ev e => .call (.succeed e .none) fun _ => .ret .none
    | _ => .ret .none

def s0 : KState ℚ Nat := spawned ExContainer.rs 0
def s1 : KState ℚ Nat := stepSt body 5 s0

end ExBad

end Conserve
