import OnlVerif.Lemmas.WFQKFrame
/-!
# The WFQ scheduler on the kernel model: what `put` and the bookkeeping of `run` do with the attribute cells

`update_vtime`, `reset_vtime`, `WFQ.put` up to its `store.put`, and the bookkeeping of `WFQ.run` after a transmission only
read and store attribute cells and log.  Each lemma is stated for an arbitrary state `S` whose cells are those of a
configuration `a` (`Cells`) and an arbitrary continuation: the state afterwards is `S` with other cells (those of the
configuration the lemma names) and a longer trace.
-/

set_option linter.unusedSimpArgs false
set_option linter.unusedVariables false

namespace WFQK
open WFQOnK
open TimerK (lookup)

variable {N scale F : Nat} {flow size : Int → Nat} {cfg : WfqCfg ℚ}

/-- look a cell up in a list of explicit stores -/
syntax "lsimp" (" [" Lean.Parser.Tactic.simpLemma,* "]")? : tactic
macro_rules
  | `(tactic| lsimp) => `(tactic| simp [-List.filter_filter, TimerK.lookup_store, TimerK.lookup_cons, TimerK.lookup_filter_ne, wfqk])
  | `(tactic| lsimp [$args,*]) => `(tactic| simp [-List.filter_filter, TimerK.lookup_store, TimerK.lookup_cons, TimerK.lookup_filter_ne, wfqk, $args,*])

/-- the attribute cells are those of configuration `a` -/
structure Cells (F : Nat) (sh : List (Nat × Val)) (a : A) : Prop where
  c0 : lookup sh cRecv = .int a.recv
  c1 : lookup sh cCur = curVal a.cur
  cvt : lookup sh cVtime = TimeCell.enc a.vtime
  cl : lookup sh cLast = TimeCell.enc a.last
  cc : ∀ f, f < F → lookup sh (cCount f) = .int (a.cnt f)
  cb : ∀ f, f < F → lookup sh (cBytes f) = .int (a.byt f)
  cf : ∀ c, c < F → lookup sh (cFin c) = if a.fset then TimeCell.enc (a.fin c) else Val.none
  ck : ∀ c, c < F → lookup sh (cCls c) = clsVal (a.cls c)
  cact : ∀ c, c < F → lookup sh (cAct c) = .int (if a.act c then 1 else 0)

theorem KInv.cells {rate : ℚ} {s : KS} {a : A} (hk : KInv N scale size rate F s a) : Cells F s.shared a :=
  ⟨hk.c0, hk.c1, hk.cvt, hk.cl, hk.cc, hk.cb, hk.cf, hk.ck, hk.cact⟩

/-- only the attribute fields of a configuration matter -/
theorem Cells.congr {sh : List (Nat × Val)} {a a' : A} (h : Cells F sh a) (h0 : a'.recv = a.recv) (h1 : a'.cur = a.cur)
    (h2 : a'.vtime = a.vtime) (h3 : a'.last = a.last) (h4 : a'.cnt = a.cnt) (h5 : a'.byt = a.byt) (h6 : a'.fset = a.fset)
    (h7 : a'.fin = a.fin) (h8 : a'.cls = a.cls) (h9 : a'.act = a.act) : Cells F sh a' :=
  ⟨by rw [h0]; exact h.c0, by rw [h1]; exact h.c1, by rw [h2]; exact h.cvt, by rw [h3]; exact h.cl,
   by rw [h4]; exact h.cc, by rw [h5]; exact h.cb, by rw [h6, h7]; exact h.cf, by rw [h8]; exact h.ck,
   by rw [h9]; exact h.cact⟩

theorem CfgOK.lookup_w (hc : CfgOK F cfg) {c : Nat} (h : c < F) : Stamp.lookup cfg.weights c = some (wOf cfg c) := by
  obtain ⟨n, -, hn⟩ := hc.w c h
  simp [wOf, hn]

theorem mem_of_lookup : ∀ (l : List (Nat × ℚ)) (c : Nat) (w : ℚ), Stamp.lookup l c = some w → ∃ kv ∈ l, kv.1 = c
  | [], _, _, h => by simp [Stamp.lookup] at h
  | (c', v) :: r, c, w, h => by
    by_cases hc : c' = c
    · exact ⟨(c', v), List.mem_cons_self, hc⟩
    · simp only [Stamp.lookup, hc, if_false] at h
      obtain ⟨kv, h1, h2⟩ := mem_of_lookup r c w h
      exact ⟨kv, List.mem_cons_of_mem _ h1, h2⟩

/-! ## `update_vtime` and `reset_vtime` -/

/-- `self.update_vtime()` with a non-zero weight sum -/
theorem runBurst_updateVtime (p : EvId) (S : KS) (a : A) (now : ℚ) (cont : Burst ℚ St)
    (hc : Cells F S.shared a) (hcfg : CfgOK F cfg) (hws : a.ws F cfg ≠ 0) :
    runBurst p (updateVtime F cfg now cont) S =
      runBurst p cont { S with shared := (cVtime, TimeCell.enc (a.vtime + (now - a.last) / a.ws F cfg)) ::
                                          S.shared.filter (·.1 != cVtime) } := by
  unfold updateVtime
  rw [runBurst_sumWeights p a.act S _ F 0 _ (fun j _ h => hc.cact j (by omega)) (fun j _ h => hcfg.lookup_w (by omega)),
    runBurst_loadKey p _ _ _ S hc.cvt, runBurst_loadKey p _ _ _ S hc.cl]
  have h0 : ¬ Num.eqb (wsum cfg a.act 0 F Num.zero) Num.zero = true := by
    rw [Num.eqb_iff, zero_eq']; exact hws
  rw [if_neg h0, runBurst_store, zero_eq']
  rfl

/-- the cells after `update_vtime` -/
theorem Cells.updateVtime {sh : List (Nat × Val)} {a : A} (hc : Cells F sh a) (v : ℚ) :
    Cells F ((cVtime, TimeCell.enc v) :: sh.filter (·.1 != cVtime)) { a with vtime := v } := by
  refine ⟨?_, ?_, ?_, ?_, ?_, ?_, ?_, ?_, ?_⟩
  · lsimp [hc.c0]
  · lsimp [hc.c1]
  · lsimp
  · lsimp [hc.cl]
  · intro c h; lsimp [hc.cc c h]
  · intro c h; lsimp [hc.cb c h]
  · intro c h; lsimp [hc.cf c h]
  · intro c h; lsimp [hc.ck c h]
  · intro c h; lsimp [hc.cact c h]

/-- `self.reset_vtime()`: `vtime` and every `finish_times[c]` become 0 -/
theorem runBurst_resetVtime (p : EvId) (S : KS) (a : A) (cont : Burst ℚ St) (hc : Cells F S.shared a)
    (hcfg : CfgOK F cfg) :
    ∃ sh, Cells F sh { a with vtime := 0, fset := true, fin := fun _ => 0 } ∧
      runBurst p (resetVtime cfg cont) S = runBurst p cont { S with shared := sh } := by
  obtain ⟨sh, h1, h2, h3⟩ := runBurst_zeroFinish p cont cfg.weights
    { S with shared := (cVtime, TimeCell.enc (0 : ℚ)) :: S.shared.filter (·.1 != cVtime) }
  refine ⟨sh, ?_, ?_⟩
  · refine ⟨?_, ?_, ?_, ?_, ?_, ?_, ?_, ?_, ?_⟩
    · rw [h2 _ (by intro kv _; simp [wfqk])]; lsimp [hc.c0]
    · rw [h2 _ (by intro kv _; simp [wfqk])]; lsimp [hc.c1]
    · rw [h2 _ (by intro kv _; simp [wfqk])]; lsimp
    · rw [h2 _ (by intro kv _; simp [wfqk])]; lsimp [hc.cl]
    · intro c h; rw [h2 _ (by intro kv _; simp [wfqk])]; lsimp [hc.cc c h]
    · intro c h; rw [h2 _ (by intro kv _; simp [wfqk])]; lsimp [hc.cb c h]
    · intro c h
      obtain ⟨kv, hkv, rfl⟩ := mem_of_lookup _ _ _ (hcfg.lookup_w h)
      simp [h3 kv hkv]
    · intro c h; rw [h2 _ (by intro kv _; simp [wfqk])]; lsimp [hc.ck c h]
    · intro c h; rw [h2 _ (by intro kv _; simp [wfqk])]; lsimp [hc.cact c h]
  · unfold resetVtime
    rw [zero_eq', runBurst_store, h1]

/-! ## `WFQ.put` -/

section poly
variable {τ : Type} [Num τ] [TimeCell τ] [StampCode τ]

/-- `put` after `reset_vtime()` / `update_vtime()`, up to `self.last_time = now`; `K x` is what follows for the stamp `x` -/
def putTail (flow size : Int → Nat) (cfg : WfqCfg τ) (now : τ) (id : Int) (K : τ → Burst τ (WfqKSt τ)) : Burst τ (WfqKSt τ) :=
  loadKey (cFin (flow id)) fun f =>
  loadKey cVtime fun v =>
  .call (.log "vtime" (TimeCell.enc v)) fun _ =>
  match Stamp.lookup cfg.weights (flow id) with
  | none => .raise keyErr
  | some w =>
    if Num.eqb (cfg.rate * w) Num.zero then .raise zeroDiv else
    .call (.store (cFin (flow id)) (TimeCell.enc (WFQ.stampOf cfg f v w (size id)))) fun _ =>
    .call (.log "stamp" (TimeCell.enc (WFQ.stampOf cfg f v w (size id)))) fun _ =>
    addPacket flow size id <|
    loadIntKey (cCls (flow id)) fun n =>
    .call (.store (cCls (flow id)) (.int (n.getD 0 + 1))) fun _ =>
    .call (.store (cAct (flow id)) (.int 1)) fun _ =>
    .call (.store cLast (TimeCell.enc now)) fun _ =>
    K (WFQ.stampOf cfg f v w (size id))

/-- `self.store.put(PriorityItem((finish, now), packet))`, then `cont` -/
def putStore (N scale : Nat) (id : Int) (cont : Burst τ (WfqKSt τ)) (x : τ) : Burst τ (WfqKSt τ) :=
  .call (.sput pst (stampItem scale N x id)) fun rp => match rp with
    | .ev _ => cont
    | rp => bad rp

theorem wfqPut_eq' (F : Nat) (flow size : Int → Nat) (cfg : WfqCfg τ) (N scale : Nat) (now : τ) (id : Int)
    (cont : Burst τ (WfqKSt τ)) :
    wfqPut F flow size cfg N scale now id cont =
      .call (.log "put" (.int id)) fun _ =>
      totalPackets F fun tot =>
      (if tot = 0 then resetVtime cfg else updateVtime F cfg now) <|
      putTail flow size cfg now id (putStore N scale id cont) := rfl

end poly

theorem wfqPut_eq (now : ℚ) (id : Int) (cont : Burst ℚ St) :
    wfqPut F flow size cfg N scale now id cont =
      .call (.log "put" (.int id)) fun _ =>
      totalPackets F fun tot =>
      (if tot = 0 then resetVtime cfg else updateVtime F cfg now) <|
      putTail flow size cfg now id (putStore N scale id cont) := wfqPut_eq' F flow size cfg N scale now id cont

/-- the attributes after the tail of `put` -/
def A.putTail (flow size : Int → Nat) (cfg : WfqCfg ℚ) (a : A) (now : ℚ) (id : Int) : A :=
  { a with
    cnt := upd a.cnt (flow id) (a.cnt (flow id) + 1)
    byt := upd a.byt (flow id) (a.byt (flow id) + (size id : Int))
    recv := a.recv + 1
    last := now
    fin := upd a.fin (flow id) (WFQ.stampOf cfg (a.fin (flow id)) a.vtime (wOf cfg (flow id)) (size id))
    cls := upd a.cls (flow id) (some ((a.cls (flow id)).getD 0 + 1))
    act := upd a.act (flow id) true }

theorem runBurst_putTail (p : EvId) (S : KS) (a : A) (now : ℚ) (id : Int) (K : ℚ → Burst ℚ St)
    (hc : Cells F S.shared a) (hcfg : CfgOK F cfg) (hfid : flow id < F) (hfs : a.fset = true)
    (hrw : cfg.rate * wOf cfg (flow id) ≠ 0) :
    ∃ sh, runBurst p (putTail flow size cfg now id K) S =
        runBurst p (K (WFQ.stampOf cfg (a.fin (flow id)) a.vtime (wOf cfg (flow id)) (size id)))
          { S with shared := sh
                   trace := (S.trace.push (.log p "vtime" (TimeCell.enc a.vtime) S.now)).push
                     (.log p "stamp" (TimeCell.enc (WFQ.stampOf cfg (a.fin (flow id)) a.vtime (wOf cfg (flow id)) (size id))) S.now) } ∧
      Cells F sh (a.putTail flow size cfg now id) := by
  have hcf := hc.cf _ hfid
  rw [hfs, if_pos rfl] at hcf
  have h0 : ¬ Num.eqb (cfg.rate * wOf cfg (flow id)) Num.zero = true := by
    rw [Num.eqb_iff, zero_eq']; exact hrw
  have hck := hc.ck _ hfid
  unfold putTail
  rw [runBurst_loadKey p _ _ _ S hcf, runBurst_loadKey p _ _ _ S hc.cvt, hcfg.lookup_w hfid]
  simp only [h0, if_false, Bool.false_eq_true]
  cases hcl : a.cls (flow id) <;> rw [hcl] at hck
  all_goals
    ssimp [hc.c0, hc.cc _ hfid, hc.cb _ hfid, hck]
    refine ⟨_, rfl, ?_⟩
    refine ⟨?_, ?_, ?_, ?_, ?_, ?_, ?_, ?_, ?_⟩
    · ssimp [A.putTail, hc.c0]
    · ssimp [A.putTail, hc.c1]
    · ssimp [A.putTail, hc.cvt]
    · ssimp [A.putTail]
    · intro f' hf'
      by_cases hff : f' = flow id
      · subst hff; ssimp [A.putTail]
      · ssimp [A.putTail, hff, Ne.symm hff, upd_ne, hc.cc f' hf']
    · intro f' hf'
      by_cases hff : f' = flow id
      · subst hff; ssimp [A.putTail]
      · ssimp [A.putTail, hff, Ne.symm hff, upd_ne, hc.cb f' hf']
    · intro f' hf'
      by_cases hff : f' = flow id
      · subst hff; ssimp [A.putTail, hfs]
      · ssimp [A.putTail, hff, Ne.symm hff, upd_ne, hc.cf f' hf']
    · intro f' hf'
      by_cases hff : f' = flow id
      · subst hff; ssimp [A.putTail, hcl]
      · ssimp [A.putTail, hff, Ne.symm hff, upd_ne, hc.ck f' hf']
    · intro f' hf'
      by_cases hff : f' = flow id
      · subst hff; ssimp [A.putTail]
      · ssimp [A.putTail, hff, Ne.symm hff, upd_ne, hc.cact f' hf']

/-- **`WFQ.put(packet)` up to its `store.put`**: the cells afterwards are those of `a.afterPut`, the trace has the `put`,
`vtime` and `stamp` observations -/
theorem runBurst_wfqPut (p : EvId) (S : KS) (a : A) (now : ℚ) (id : Int) (cont : Burst ℚ St)
    (hc : Cells F S.shared a) (hcfg : CfgOK F cfg) (hfid : flow id < F)
    (hfs : a.total F ≠ 0 → a.fset = true) (hws : a.total F ≠ 0 → a.ws F cfg ≠ 0)
    (hrw : cfg.rate * wOf cfg (flow id) ≠ 0) :
    ∃ sh, runBurst p (wfqPut F flow size cfg N scale now id cont) S =
        runBurst p (putStore N scale id cont (putRec size F flow cfg a now id).2.2)
          { S with shared := sh
                   trace := ((S.trace.push (.log p "put" (.int id) S.now)).push
                     (.log p "vtime" (TimeCell.enc (a.advV F cfg now)) S.now)).push
                     (.log p "stamp" (TimeCell.enc (putRec size F flow cfg a now id).2.2) S.now) } ∧
      Cells F sh (a.afterPut size F flow cfg now id) := by
  -- the configuration after `reset_vtime()` / `update_vtime()`
  have key : ∃ sh1, Cells F sh1 { a with vtime := a.advV F cfg now, fset := true, fin := a.advFin F } ∧
      runBurst p (wfqPut F flow size cfg N scale now id cont) S =
        runBurst p (putTail flow size cfg now id (putStore N scale id cont))
          { S with shared := sh1, trace := S.trace.push (.log p "put" (.int id) S.now) } := by
    rw [wfqPut_eq, runBurst_call, doCall_log]
    simp only [noteErr]
    rw [runBurst_total p F a.cnt { S with trace := S.trace.push (.log p "put" (.int id) S.now) } _ hc.cc]
    by_cases htot : a.total F = 0
    · have htot' : sumFrom a.cnt 0 F = 0 := htot
      simp only [htot', if_true]
      obtain ⟨sh1, h1, h2⟩ := runBurst_resetVtime (cfg := cfg) p
        { S with trace := S.trace.push (.log p "put" (.int id) S.now) } a
        (putTail flow size cfg now id (putStore N scale id cont)) hc hcfg
      refine ⟨sh1, h1.congr rfl rfl ?_ rfl rfl rfl rfl ?_ rfl rfl, h2⟩
      · simp [A.advV, htot]
      · simp [A.advFin, htot]
    · have htot' : ¬ sumFrom a.cnt 0 F = 0 := htot
      simp only [htot', if_false]
      rw [runBurst_updateVtime (cfg := cfg) p { S with trace := S.trace.push (.log p "put" (.int id) S.now) } a now _ hc hcfg
        (hws htot)]
      refine ⟨_, (hc.updateVtime (a.vtime + (now - a.last) / a.ws F cfg)).congr rfl rfl ?_ rfl rfl rfl ?_ ?_ rfl rfl, rfl⟩
      · simp [A.advV, htot]
      · simp [hfs htot]
      · simp [A.advFin, htot]
  obtain ⟨sh1, hc1, heq⟩ := key
  obtain ⟨sh, h1, h2⟩ := runBurst_putTail (flow := flow) (size := size) (cfg := cfg) p
    { S with shared := sh1, trace := S.trace.push (.log p "put" (.int id) S.now) }
    { a with vtime := a.advV F cfg now, fset := true, fin := a.advFin F } now id (putStore N scale id cont) hc1 hcfg hfid rfl hrw
  exact ⟨sh, heq.trans h1, h2.congr rfl rfl rfl rfl rfl rfl rfl rfl rfl rfl⟩

/-! ## the bookkeeping of `run` after a transmission -/

section poly
variable {τ : Type} [Num τ] [TimeCell τ]

/-- `if len(self.active_set) == 0: self.reset_vtime()`, `self.last_time = env.now`, the `done` observation, the next pass -/
def doneTail (F : Nat) (cfg : WfqCfg τ) (now : τ) : Burst τ (WfqKSt τ) :=
  sumActive 0 F 0 fun m =>
  (if m = 0 then resetVtime cfg else fun k => k) <|
  .call (.store cLast (TimeCell.enc now)) fun _ =>
  loadKey cVtime fun v =>
  .call (.log "done" (TimeCell.enc v)) fun _ =>
  runLoop

/-- `self.class_count[class_id] -= 1` and what follows, for the count `n` read -/
def doneMid (F : Nat) (flow : Int → Nat) (cfg : WfqCfg τ) (now : τ) (id : Int) (n : Int) : Burst τ (WfqKSt τ) :=
  .call (.store (cCls (flow id)) (.int (n - 1))) fun _ =>
  (fun (k : Burst τ (WfqKSt τ)) =>
    if n - 1 = 0 then
      loadInt (cAct (flow id)) fun a =>
      if a = 1 then .call (.store (cAct (flow id)) (.int 0)) fun _ => k else .raise keyErr
    else k) <|
  doneTail F cfg now

theorem runDone_eq' (F : Nat) (flow : Int → Nat) (cfg : WfqCfg τ) (now : τ) (id : Int) :
    runDone F flow cfg now id =
      (updateVtime F cfg now <|
       loadIntKey (cCls (flow id)) fun n =>
       match n with
       | none => .raise keyErr
       | some n => doneMid F flow cfg now id n) := rfl

end poly

/-- the tail of the bookkeeping: `reset_vtime()` if no class is active, `last_time = now`, the `done` observation -/
theorem runBurst_doneTail (p : EvId) (S : KS) (a : A) (now : ℚ) (hc : Cells F S.shared a) (hcfg : CfgOK F cfg)
    (hfs : a.fset = true) :
    ∃ sh, runBurst p (doneTail F cfg now) S =
        runBurst p runLoop
          { S with shared := sh
                   trace := S.trace.push (.log p "done" (TimeCell.enc (if nAct a.act 0 F 0 = 0 then 0 else a.vtime)) S.now) } ∧
      Cells F sh { a with vtime := if nAct a.act 0 F 0 = 0 then 0 else a.vtime
                          fin := if nAct a.act 0 F 0 = 0 then fun _ => 0 else a.fin
                          last := now } := by
  unfold doneTail
  rw [runBurst_sumActive p a.act S _ F 0 0 (fun j _ h => hc.cact j (by omega))]
  have tail : ∀ (S1 : KS) (a1 : A), Cells F S1.shared a1 →
      ∃ sh, runBurst p (.call (.store cLast (TimeCell.enc now)) fun _ => loadKey cVtime fun v =>
            .call (.log "done" (TimeCell.enc v)) fun _ => runLoop) S1 =
          runBurst p runLoop { S1 with shared := sh, trace := S1.trace.push (.log p "done" (TimeCell.enc a1.vtime) S1.now) } ∧
        Cells F sh { a1 with last := now } := by
    intro S1 a1 h1
    rw [runBurst_store, runBurst_loadKey p cVtime a1.vtime _ _ (by lsimp [h1.cvt]),
      runBurst_call, doCall_log_enc]
    simp only [noteErr]
    refine ⟨_, rfl, ?_⟩
    refine ⟨?_, ?_, ?_, ?_, ?_, ?_, ?_, ?_, ?_⟩
    · lsimp [h1.c0]
    · lsimp [h1.c1]
    · lsimp [h1.cvt]
    · lsimp
    · intro c h; lsimp [h1.cc c h]
    · intro c h; lsimp [h1.cb c h]
    · intro c h; lsimp [h1.cf c h]
    · intro c h; lsimp [h1.ck c h]
    · intro c h; lsimp [h1.cact c h]
  by_cases hm : nAct a.act 0 F 0 = 0
  · simp only [hm, if_true]
    obtain ⟨sh1, h1, h2⟩ := runBurst_resetVtime (cfg := cfg) p S a
      (.call (.store cLast (TimeCell.enc now)) fun _ => loadKey cVtime fun v =>
            .call (.log "done" (TimeCell.enc v)) fun _ => runLoop) hc hcfg
    obtain ⟨sh, h3, h4⟩ := tail { S with shared := sh1 } _ h1
    exact ⟨sh, h2.trans h3, h4.congr rfl rfl rfl rfl rfl rfl hfs rfl rfl rfl⟩
  · simp only [hm, if_false]
    obtain ⟨sh, h3, h4⟩ := tail S a hc
    exact ⟨sh, h3, h4.congr rfl rfl rfl rfl rfl rfl rfl rfl rfl rfl⟩

/-- **the bookkeeping of `run` after a transmission**: the cells afterwards are those of `a.afterDone`, the trace has the
`done` observation -/
theorem runBurst_runDone (p : EvId) (S : KS) (a : A) (now : ℚ) (id0 : Int) (hc : Cells F S.shared a) (hcfg : CfgOK F cfg)
    (hfid : flow id0 < F) (hfs : a.fset = true) (hws : a.ws F cfg ≠ 0) {n : Int} (hcls : a.cls (flow id0) = some n)
    (hact : n - 1 = 0 → a.act (flow id0) = true) :
    ∃ sh, runBurst p (runDone F flow cfg now id0) S =
        runBurst p runLoop
          { S with shared := sh
                   trace := S.trace.push (.log p "done" (TimeCell.enc (a.afterDone F flow cfg now id0).vtime) S.now) } ∧
      Cells F sh (a.afterDone F flow cfg now id0) := by
  have hck := hc.ck _ hfid
  rw [hcls] at hck
  -- up to the membership update
  have key : ∃ sh1, Cells F sh1 { a with vtime := a.vtime + (now - a.last) / a.ws F cfg,
                                          cls := upd a.cls (flow id0) (some (n - 1)), act := actAfter a (flow id0) } ∧
      runBurst p (runDone F flow cfg now id0) S = runBurst p (doneTail F cfg now) { S with shared := sh1 } := by
    rw [runDone_eq', runBurst_updateVtime (cfg := cfg) p S a now _ hc hcfg hws,
      runBurst_loadIntKey p _ (some n) _ _ (by lsimp [hck])]
    simp only [doneMid]
    rw [runBurst_store]
    have hc1 := hc.updateVtime (a.vtime + (now - a.last) / a.ws F cfg)
    by_cases h0 : n - 1 = 0
    · have ha := hc.cact _ hfid
      rw [hact h0] at ha
      simp only [h0, if_true]
      rw [runBurst_loadInt p _ 1 _ _ (by lsimp [ha])]
      simp only [if_true]
      rw [runBurst_store]
      refine ⟨_, ?_, rfl⟩
      refine ⟨?_, ?_, ?_, ?_, ?_, ?_, ?_, ?_, ?_⟩
      · lsimp [hc.c0]
      · lsimp [hc.c1]
      · lsimp
      · lsimp [hc.cl]
      · intro c h; lsimp [hc.cc c h]
      · intro c h; lsimp [hc.cb c h]
      · intro c h; lsimp [hc.cf c h]
      · intro c h
        by_cases hcc : c = flow id0
        · subst hcc; lsimp [clsVal, h0]
        · lsimp [hcc, Ne.symm hcc, upd_ne, hc.ck c h]
      · intro c h
        by_cases hcc : c = flow id0
        · subst hcc; lsimp [actAfter, hcls, h0]
        · lsimp [hcc, Ne.symm hcc, upd_ne, actAfter, hcls, h0, hc.cact c h]
    · simp only [h0, if_false]
      refine ⟨_, ?_, rfl⟩
      refine ⟨?_, ?_, ?_, ?_, ?_, ?_, ?_, ?_, ?_⟩
      · lsimp [hc.c0]
      · lsimp [hc.c1]
      · lsimp
      · lsimp [hc.cl]
      · intro c h; lsimp [hc.cc c h]
      · intro c h; lsimp [hc.cb c h]
      · intro c h; lsimp [hc.cf c h]
      · intro c h
        by_cases hcc : c = flow id0
        · subst hcc; lsimp [clsVal]
        · lsimp [hcc, Ne.symm hcc, upd_ne, hc.ck c h]
      · intro c h; lsimp [actAfter, hcls, h0, hc.cact c h]
  obtain ⟨sh1, hc1, heq⟩ := key
  obtain ⟨sh, h1, h2⟩ := runBurst_doneTail (cfg := cfg) p { S with shared := sh1 } _ now hc1 hcfg hfs
  refine ⟨sh, heq.trans ?_, h2.congr rfl rfl ?_ rfl rfl rfl rfl ?_ ?_ rfl⟩
  · rw [h1]; simp [A.afterDone]
  · simp [A.afterDone]
  · simp [A.afterDone]
  · simp [A.afterDone, hcls]

end WFQK
