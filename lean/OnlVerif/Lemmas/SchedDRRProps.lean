import OnlVerif.Lemmas.SchedDRRQuantum
/-!
# DRR: the setting of the C15 theorems (initial state, reachability, well-formed configuration) and a decidable
check that exhibits concrete windows
-/

namespace DRR
open MQ

/-- the state of a `DRR` scheduler after `__init__` -/
def start (cfg : Cfg ℚ) (t0 : ℚ) : St := MQ.init (ctl0 cfg) t0 (counts0 cfg)

/-- reached from the initial state by an admissible action sequence whose packets are at most `L` bytes -/
def Reached (cfg : Cfg ℚ) (L : ℚ) (t0 : ℚ) (s : St) : Prop :=
  ∃ as ins outs, (∀ a ∈ as, ActOk L a) ∧ runActs (sched cfg) (start cfg t0) as = .ok (s, ins, outs)

/-- the configuration is a Python dict of positive weights -/
structure CfgOk (cfg : Cfg ℚ) : Prop where
  nodup : (cfg.weights.map (·.1)).Nodup
  pos : ∀ e ∈ cfg.weights, 0 < e.2

theorem quantum_pos (cfg : Cfg ℚ) (hc : CfgOk cfg) (cls : Nat) (q : ℚ) (h : quantum cfg cls = some q) : 0 < q := by
  have := quantum_ge cfg hc.pos cls q h; linarith

theorem good_of_reached (cfg : Cfg ℚ) (hc : CfgOk cfg) (L : ℚ) (hL : 0 < L) (t0 : ℚ) (s : St)
    (h : Reached cfg L t0 s) : Good cfg L s := by
  obtain ⟨as, ins, outs, ha, hr⟩ := h
  exact good_run cfg L hL (quantum_pos cfg hc) as _ s ins outs (good_init cfg L hc.nodup t0) ha hr


/-! ### windows from logs (used to exhibit a concrete window) -/

/-- the state a log ends in -/
def lastPost (s : St) : List (Entry (Ctl ℚ)) → St
  | [] => s
  | e :: r => lastPost e.post r

/-- a stretch of a log all of whose states satisfy `P` is a window -/
theorem window_of_log (cfg : Cfg ℚ) (L : ℚ) (P : St → Prop) (as : List (MAct ℚ)) (s : St)
    (l : List (Entry (Ctl ℚ))) (hr : runLog (sched cfg) s as = .ok l) (ha : ∀ a ∈ as, ActOk L a) (hs : P s)
    (hp : ∀ e ∈ l, P e.post) : Window cfg L P s (l.map (·.out)) (lastPost s l) := by
  induction as generalizing s l with
  | nil =>
    simp only [runLog, Except.ok.injEq] at hr
    subst hr
    exact Window.nil s hs
  | cons a as ih =>
    simp only [runLog] at hr
    split at hr
    · cases hr
    · rename_i s1 o h1
      split at hr
      · cases hr
      · rename_i l2 h2
        simp only [Except.ok.injEq] at hr
        subst hr
        exact Window.cons s a s1 o _ _ hs (ha a (by simp)) h1
          (ih s1 l2 h2 (fun a' ha' => ha a' (List.mem_cons_of_mem _ ha')) (hp ⟨s, a, o, s1⟩ (by simp))
            (fun e he => hp e (List.mem_cons_of_mem _ he)))

/-- decidable form of `Both` -/
def bothB (ia ib a b : Nat) (s : St) : Bool :=
  match s.ctl.classCount[ia]?, s.ctl.classCount[ib]? with
  | some (a', na), some (b', nb) => a' == a && b' == b && decide (0 < na) && decide (0 < nb)
  | _, _ => false

theorem both_of_bothB (ia ib a b : Nat) (s : St) (h : bothB ia ib a b s = true) : Both ia ib a b s := by
  unfold bothB at h
  split at h
  · rename_i a' na b' nb h1 h2
    simp only [Bool.and_eq_true, beq_iff_eq, decide_eq_true_eq] at h
    obtain ⟨⟨⟨rfl, rfl⟩, h3⟩, h4⟩ := h
    exact ⟨na, nb, h1, h2, h3, h4⟩
  · cases h

/-- decidable form of `ActOk` for an integral bound -/
def actOkB (L : Nat) (a : MAct ℚ) : Bool :=
  match a with
  | .put p => decide (p.size ≤ L)
  | _ => true

theorem actOk_of_actOkB (L : Nat) (a : MAct ℚ) (h : actOkB L a = true) : ActOk (L : ℚ) a := by
  intro p hp
  subst hp
  simp only [actOkB, decide_eq_true_eq] at h
  exact_mod_cast h

/-- checks, by running the model, that after the prefix `pre` the stretch `win` is a window in which the classes at
entries `ia`, `ib` stay backlogged, and returns the departed bytes of both classes in it -/
def demoWindow (cfg : Cfg ℚ) (L ia ib a b : Nat) (pre win : List (MAct ℚ)) : Option (Int × Int) :=
  match runActs (sched cfg) (start cfg 0) pre with
  | .error _ => none
  | .ok (s1, _, _) =>
    match runLog (sched cfg) s1 win with
    | .error _ => none
    | .ok l =>
      if bothB ia ib a b s1 && l.all (fun e => bothB ia ib a b e.post) && (pre ++ win).all (actOkB L) then
        some (bytesOut cfg a (l.map (·.out)), bytesOut cfg b (l.map (·.out)))
      else none

/-- what `demoWindow` establishes: the hypotheses of `drr_fair` and `drr_visits_alternate` -/
theorem demoWindow_sound (cfg : Cfg ℚ) (L ia ib a b : Nat) (pre win : List (MAct ℚ)) (r : Int × Int)
    (h : demoWindow cfg L ia ib a b pre win = some r) :
    ∃ s1 s2 outs, Reached cfg (L : ℚ) 0 s1 ∧ Window cfg (L : ℚ) (Both ia ib a b) s1 outs s2 ∧
      bytesOut cfg a outs = r.1 ∧ bytesOut cfg b outs = r.2 := by
  unfold demoWindow at h
  split at h
  · cases h
  · rename_i s1 ins outs hpre
    split at h
    · cases h
    · rename_i l hlog
      split at h
      · rename_i hc
        simp only [Bool.and_eq_true, List.all_eq_true, List.mem_append] at hc
        obtain ⟨⟨h1, h2⟩, h3⟩ := hc
        simp only [Option.some.injEq] at h
        subst h
        refine ⟨s1, lastPost s1 l, l.map (·.out), ⟨pre, ins, outs, fun a' ha' => actOk_of_actOkB L a' (h3 a' (Or.inl ha')), hpre⟩, ?_, rfl, rfl⟩
        exact window_of_log cfg L _ win s1 l hlog (fun a' ha' => actOk_of_actOkB L a' (h3 a' (Or.inr ha')))
          (both_of_bothB ia ib a b s1 h1) (fun e he => both_of_bothB ia ib a b e.post (h2 e he))
      · cases h


end DRR
