import OnlVerif.Lemmas.TRKLts
/-!
# The two-rate token bucket on the kernel model: the abstraction function `absTR` reads the configuration's LTS state off the kernel
state (up to the ghost field)
-/

set_option linter.unusedSimpArgs false

namespace TRK
open TwoRateOnK QEntry
open TimerK (lookup plookup proc?_eq dec_enc)

variable {size : Int → Nat} {cfg : TrCfg ℚ} {arrivals : List ℚ}
variable {s : KS} {a : A}

theorem cellVal_eq (k : Nat) : cellVal s k = lookup s.shared k := rfl

/-- an agenda entry of the shaper is identified by its event -/
theorem entry_of_ev (hk : KInv s a) {q0 : QEntry ℚ} (hq0 : a.run.entries = [q0]) (hev : q0.ev ∈ a.run.ids) :
    ∀ x ∈ s.agenda, x.ev = q0.ev → x = q0 := by
  intro x hx hxe
  have hx' : x ∈ a.entries := hk.ag.subset hx
  obtain ⟨nrun, nsrc, npend, drun, dsrc⟩ := (ids_nodup_iff a).mp hk.nd
  simp only [A.entries, List.mem_append, hq0, List.mem_singleton] at hx'
  rcases hx' with h | h | h
  · exact h
  · exfalso
    have hs := hk.src
    have : x.ev ∈ a.src.ids := by
      cases hsrc : a.src with
      | init q1 arr => rw [hsrc] at hs h; simp only [SPhase.entries, List.mem_singleton] at h; subst h; simp [trids, hs.1]
      | wait id r q1 => rw [hsrc] at h; simp only [SPhase.entries, List.mem_singleton] at h; subst h; simp [trids]
      | ending q1 => rw [hsrc] at hs h; simp only [SPhase.entries, List.mem_singleton] at h; subst h; simp [trids, hs.1]
      | done => rw [hsrc] at h; simp [SPhase.entries] at h
    exact (drun _ hev).1 (hxe ▸ this)
  · exfalso
    exact (drun _ hev).2 (hxe ▸ mem_pendIds_of h)

theorem dueOf_eq (hk : KInv s a) {q0 : QEntry ℚ} {t : EvId} (hq0 : a.run.entries = [q0]) (hev : q0.ev = t)
    (hmem : t ∈ a.run.ids) : dueOf s t = q0.time := by
  unfold dueOf
  have hm : q0 ∈ s.agenda := hk.ag.symm.subset (mem_run (by rw [hq0]; simp))
  have huniq := entry_of_ev hk hq0 (by rw [hev]; exact hmem)
  cases hf : s.agenda.find? (·.ev == t) with
  | none =>
    have := List.find?_eq_none.mp hf q0 hm
    simp [hev] at this
  | some x =>
    have h1 := List.mem_of_find?_eq_some hf
    have h2 := List.find?_some hf
    simp only [beq_iff_eq] at h2
    rw [huniq x h1 (by rw [h2, hev])]
    rfl

/-- **the abstraction function reads the configuration's LTS state off the kernel state** (up to the ghost field) -/
theorem absTR_eq (h : Inv3 size cfg arrivals s a) (lg : List (ℚ × Nat × Nat)) :
    setGhost (absTR size s) lg = toF size a s.now lg := by
  have hk := h.i.k
  have h0 : cellNat s cRecv = a.cts.length := by
    unfold cellNat; rw [cellVal_eq, hk.c0]; simp
  have h1 : cellNat s cSent = a.sent.toNat := by
    unfold cellNat; rw [cellVal_eq, hk.c1]
  have h2 : cellTime s cCommit = a.commit := by
    unfold cellTime; rw [cellVal_eq, hk.c2, dec_enc]; rfl
  have h3 : cellTime s cUpd = a.upd := by
    unfold cellTime; rw [cellVal_eq, hk.c3, dec_enc]; rfl
  have h4 : cellOpt s cPeak = a.peak := by
    unfold cellOpt; rw [cellVal_eq, hk.c4]
    cases a.peak with
    | none => rfl
    | some x =>
      have : (TimeCell.dec (TimeCell.enc x : Val) : Option ℚ) = some x := dec_enc x
      simp only [encOpt]
      revert this
      cases (TimeCell.enc x : Val) <;> intro this <;> exact this
  have hit : (s.res storeId).items = a.items := by
    show (s.res 0).items = a.items; rw [hk.res]; rfl
  have hr := hk.run
  unfold absTR setGhost toF
  cases hrun : a.run with
  | init q0 =>
    rw [hrun] at hr
    simp [trProc, hr.2.2.1, h0, h1, h2, h3, h4, hit]
  | W g t0 =>
    rw [hrun] at hr
    simp [trProc, hr.2.1, hr.1.2.2, h0, h1, h2, h3, h4, hit]
  | H g id q0 t0 =>
    rw [hrun] at hr
    simp [trProc, hr.2.2.1, hr.2.1.2.2, h0, h1, h2, h3, h4, hit]
  | T1 t id q0 =>
    rw [hrun] at hr
    have hd := dueOf_eq hk (q0 := q0) (t := t) (by simp [hrun, RPhase.entries]) hr.1 (by simp [hrun, trids])
    simp [trProc, hr.2.2.1, hd, h0, h1, h2, h3, h4, hit]

end TRK
