import OnlVerif.Lemmas.SplitPlanMain
import OnlVerif.Lemmas.OnceDec
import OnlVerif.Lemmas.SplitDemo
/-!
# The run-level hypotheses are decidable per concrete run (C03, stage 3)

`ScopedStep I body fuel s` (the program names existing ids only) and `c.SimStep body fuel s` (run-level id-opacity) can be
evaluated for a concrete program and state (`decide +kernel`), given decidable equality on local states and a decidable
`I.below`.  A run that ends (empty agenda) after `N` steps satisfies `ScopedRun` / `SimAlong` as soon as its `N` states
satisfy `ScopedStep` / `SimStep` (`AllUpTo.runAll`).
-/

deriving instance DecidableEq for Call
deriving instance DecidableEq for Term

variable {σ : Type}

namespace SplitWF

/-! ## the mirror predicates are decidable when their parameter is -/

section mirror
variable (P : EvId → σ → Resume → KState ℚ σ → Prop) [∀ p st r s, Decidable (P p st r s)] (body : σ → Resume → Burst ℚ σ)

def ResumeAll.dec (p : EvId) : (fuel : Nat) → (e : EvId) → (s : KState ℚ σ) → Decidable (ResumeAll P body p fuel e s)
  | 0, _, _ => isTrue trivial
  | fuel + 1, e, s => by
    unfold ResumeAll
    split
    · exact isTrue trivial
    · refine @instDecidableAnd _ _ inferInstance ?_
      split
      · split
        · exact isTrue trivial
        · exact ResumeAll.dec p fuel _ _
      · exact isTrue trivial

instance (p : EvId) (fuel : Nat) (e : EvId) (s : KState ℚ σ) : Decidable (ResumeAll P body p fuel e s) :=
  ResumeAll.dec P body p fuel e s

instance (fuel : Nat) (iv p : EvId) (s : KState ℚ σ) : Decidable (IntrAll P body fuel iv p s) := by
  unfold IntrAll
  split
  · exact isTrue trivial
  · split
    · exact isTrue trivial
    · split <;> exact inferInstance

instance instDecCbAll (fuel : Nat) (e : EvId) (s : KState ℚ σ) : (cb : Cb) → Decidable (CbAll P body fuel e s cb)
  | .resume p => inferInstanceAs (Decidable (ResumeAll P body p fuel e s))
  | .intr iv => by
    simp only [CbAll]
    split
    · exact inferInstance
    · exact isTrue trivial
  | .probe _ => isTrue trivial
  | .stop => isTrue trivial
  | .check _ => isTrue trivial
  | .build _ => isTrue trivial
  | .trigPut _ => isTrue trivial
  | .trigGet _ => isTrue trivial

def CbsAll.dec (fuel : Nat) (e : EvId) : (cbs : List Cb) → (l : LoopSt ℚ σ) → Decidable (CbsAll P body fuel e cbs l)
  | [], _ => isTrue trivial
  | cb :: cbs, l => @instDecidableAnd _ _ (instDecCbAll P body fuel e l.s cb) (CbsAll.dec fuel e cbs _)

instance instDecStepAll (fuel : Nat) (s : KState ℚ σ) : Decidable (StepAll P body fuel s) := by
  unfold StepAll
  split
  · exact isTrue trivial
  · split
    · exact isTrue trivial
    · exact CbsAll.dec P body fuel _ _ _

/-- what has to be evaluated for a run that ends within `N` steps -/
def AllUpTo (fuel : Nat) (s0 : KState ℚ σ) (N : Nat) : Prop :=
  (Once.iter body fuel N s0).isNone = true ∧
  ∀ n, n < N → match Once.iter body fuel n s0 with
    | some s => StepAll P body fuel s
    | none => True

instance (fuel : Nat) (s0 : KState ℚ σ) (N : Nat) : Decidable (AllUpTo P body fuel s0 N) := by
  unfold AllUpTo
  refine @instDecidableAnd _ _ inferInstance (@Nat.decidableBallLT N _ (fun n _ => ?_))
  split
  · exact inferInstance
  · exact isTrue trivial

omit [∀ p st r s, Decidable (P p st r s)] in
/-- **a run that ends after `N` steps, each of which satisfies `StepAll P`, satisfies `RunAll P`** -/
theorem AllUpTo.runAll {fuel : Nat} {s0 : KState ℚ σ} {N : Nat} (h : AllUpTo P body fuel s0 N) : RunAll P body fuel s0 := by
  intro s hr
  obtain ⟨n, hn⟩ := Once.reach_iter hr
  have hend : Once.iter body fuel N s0 = none := by
    cases hc : Once.iter body fuel N s0 with
    | none => rfl
    | some x => have := h.1; rw [hc] at this; cases this
  by_cases hlt : n < N
  · have := h.2 n hlt
    rw [hn] at this
    exact this
  · have := Once.iter_none_of_le hend n (by omega)
    rw [hn] at this; cases this

end mirror

/-! ## the domain hypothesis `ScopedStep` -/

instance instDecValBelow (n : Nat) : (v : Val) → Decidable (valBelow n v)
  | .ev e => inferInstanceAs (Decidable (e < n))
  | .cv keys => inferInstanceAs (Decidable (∀ k ∈ keys, k < n))
  | .preempted b r _ =>
    match b with
    | none => decidable_of_iff (r < n) ⟨fun h => ⟨fun p hp => (by cases hp), h⟩, fun h => h.2⟩
    | some p0 => decidable_of_iff (p0 < n ∧ r < n)
        ⟨fun h => ⟨fun p hp => (by cases hp; exact h.1), h.2⟩, fun h => ⟨h.1 p0 rfl, h.2⟩⟩
  | .none => isTrue trivial
  | .int _ => isTrue trivial
  | .str _ => isTrue trivial
  | .frozen _ => isTrue trivial

instance instDecExcBelow (n : Nat) (x : Exc) : Decidable (excBelow n x) :=
  inferInstanceAs (Decidable (∀ v ∈ x.args, valBelow n v))

instance instDecCallBelow (I : IdSt σ) [∀ n st, Decidable (I.below n st)] (n : Nat) : (c : Call ℚ σ) → Decidable (callBelow I n c)
  | .timeout _ v => inferInstanceAs (Decidable (valBelow n v))
  | .succeed e v => inferInstanceAs (Decidable (e < n ∧ valBelow n v))
  | .fail e x => inferInstanceAs (Decidable (e < n ∧ excBelow n x))
  | .spawn st => inferInstanceAs (Decidable (I.below n st))
  | .interrupt _ cause => inferInstanceAs (Decidable (valBelow n cause))
  | .cond _ ops => inferInstanceAs (Decidable (∀ o ∈ ops, o < n))
  | .release _ req => inferInstanceAs (Decidable (req < n))
  | .log _ v => inferInstanceAs (Decidable (valBelow n v))
  | .store _ v => inferInstanceAs (Decidable (valBelow n v))
  | .event => isTrue trivial
  | .probe _ _ => isTrue trivial
  | .request _ _ _ => isTrue trivial
  | .cancel _ => isTrue trivial
  | .cput _ _ => isTrue trivial
  | .cget _ _ => isTrue trivial
  | .sput _ _ => isTrue trivial
  | .sget _ _ => isTrue trivial
  | .load _ => isTrue trivial

def ScopedBurst.dec (I : IdSt σ) [∀ n st, Decidable (I.below n st)] (self : EvId) : (b : Burst ℚ σ) → (s : KState ℚ σ) →
    Decidable (ScopedBurst I self b s)
  | .call c k, s => @instDecidableAnd _ _ (instDecCallBelow I s.events.size c) (ScopedBurst.dec I self (k _) _)
  | .yield e st, s => inferInstanceAs (Decidable (e < s.events.size ∧ I.below s.events.size st))
  | .ret v, s => inferInstanceAs (Decidable (valBelow s.events.size v))
  | .raise x, s => inferInstanceAs (Decidable (excBelow s.events.size x))

instance (I : IdSt σ) [∀ n st, Decidable (I.below n st)] (self : EvId) (b : Burst ℚ σ) (s : KState ℚ σ) :
    Decidable (ScopedBurst I self b s) := ScopedBurst.dec I self b s

instance (I : IdSt σ) [∀ n st, Decidable (I.below n st)] (body : σ → Resume → Burst ℚ σ) (fuel : Nat) (s : KState ℚ σ) :
    Decidable (ScopedStep I body fuel s) :=
  instDecStepAll (fun p st r s => ScopedBurst I p (body st r) s) body fuel s

instance (n : Nat) (st : SSt) : Decidable ((IdSt.none SSt).below n st) := isTrue trivial

/-- a run that ends after `N` steps, each naming existing ids only, satisfies the domain hypothesis -/
theorem scopedRun_of_upTo (I : IdSt σ) (body : σ → Resume → Burst ℚ σ) (fuel : Nat) (s0 : KState ℚ σ) (N : Nat)
    (h : AllUpTo (fun p st r s => ScopedBurst I p (body st r) s) body fuel s0 N) : ScopedRun I body fuel s0 :=
  AllUpTo.runAll _ body h

end SplitWF

/-! ## the run-level id-opacity hypothesis `SimStep` -/

def SimBurst.dec [DecidableEq σ] (ρ : EvId → EvId) (rσ : σ → σ) (self : EvId) : (b b' : Burst ℚ σ) → (s : KState ℚ σ) →
    Decidable (SimBurst ρ rσ self b b' s)
  | .call c k, .call c' k', s =>
    @instDecidableAnd _ _ (inferInstanceAs (Decidable (c' = rnCall ρ rσ c))) (SimBurst.dec ρ rσ self (k _) (k' _) _)
  | .call _ _, .yield _ _, _ => isFalse (fun h => h)
  | .call _ _, .ret _, _ => isFalse (fun h => h)
  | .call _ _, .raise _, _ => isFalse (fun h => h)
  | .yield e st, .yield e' st', _ => inferInstanceAs (Decidable (e' = ρ e ∧ st' = rσ st))
  | .yield _ _, .call _ _, _ => isFalse (fun h => h)
  | .yield _ _, .ret _, _ => isFalse (fun h => h)
  | .yield _ _, .raise _, _ => isFalse (fun h => h)
  | .ret v, .ret v', _ => inferInstanceAs (Decidable (v' = rnVal ρ v))
  | .ret _, .call _ _, _ => isFalse (fun h => h)
  | .ret _, .yield _ _, _ => isFalse (fun h => h)
  | .ret _, .raise _, _ => isFalse (fun h => h)
  | .raise x, .raise x', _ => inferInstanceAs (Decidable (x' = rnExc ρ x))
  | .raise _, .call _ _, _ => isFalse (fun h => h)
  | .raise _, .yield _ _, _ => isFalse (fun h => h)
  | .raise _, .ret _, _ => isFalse (fun h => h)

instance [DecidableEq σ] (ρ : EvId → EvId) (rσ : σ → σ) (self : EvId) (b b' : Burst ℚ σ) (s : KState ℚ σ) :
    Decidable (SimBurst ρ rσ self b b' s) := SimBurst.dec ρ rσ self b b' s

instance [DecidableEq σ] (c : SplitCfg σ) (body : σ → Resume → Burst ℚ σ) (fuel : Nat) (s : KState ℚ σ) :
    Decidable (c.SimStep body fuel s) :=
  SplitWF.instDecStepAll (c.simP body) body fuel s

/-- a run that ends after `N` steps, each of them id-opaque at run level, satisfies `SimAlong` -/
theorem SplitCfg.simAlong_of_upTo (c : SplitCfg σ) (body : σ → Resume → Burst ℚ σ) (fuel : Nat) (s0 : KState ℚ σ) (N : Nat)
    (h : SplitWF.AllUpTo (c.simP body) body fuel s0 N) : c.SimAlong body fuel s0 :=
  fun j sj hj => SplitWF.AllUpTo.runAll _ body h sj (SplitWF.kreach_of_stepN body fuel j s0 sj hj)

/-! ## a decidable form of the plan hypothesis `PlanSim`, for runs that end within `N` steps -/

namespace SplitPlan
open SplitWF
variable {I : IdSt σ}

/-- `PlanSim` with `SimAlong` replaced by its finite check `AllUpTo … N` -/
def PlanSimUpTo (I : IdSt σ) (body : σ → Resume → Burst ℚ σ) (fuel budget N : Nat) : List Piece → KState ℚ σ → Prop
  | [], _ => True
  | p :: ps, S =>
    (match p with
      | .untilTime t =>
        if hpos : 0 < S.events.size then AllUpTo ((SplitCfg.at S hpos t (I.rn S.events.size)).simP body) body fuel S N else True
      | _ => True) ∧
    match p.run body fuel budget S with
    | some S1 => PlanSimUpTo I body fuel budget N ps S1
    | none => True

def PlanSimUpTo.dec [DecidableEq σ] (I : IdSt σ) (body : σ → Resume → Burst ℚ σ) (fuel budget N : Nat) :
    (plan : List Piece) → (S : KState ℚ σ) → Decidable (PlanSimUpTo I body fuel budget N plan S)
  | [], _ => isTrue trivial
  | p :: ps, S => by
    unfold PlanSimUpTo
    refine @instDecidableAnd _ _ ?_ ?_
    · cases p with
      | untilTime t =>
        simp only
        split
        · exact inferInstance
        · exact isTrue trivial
      | step n => exact isTrue trivial
      | untilEvent e => exact isTrue trivial
    · split
      · exact PlanSimUpTo.dec I body fuel budget N ps _
      · exact isTrue trivial

instance [DecidableEq σ] (I : IdSt σ) (body : σ → Resume → Burst ℚ σ) (fuel budget N : Nat) (plan : List Piece) (S : KState ℚ σ) :
    Decidable (PlanSimUpTo I body fuel budget N plan S) := PlanSimUpTo.dec I body fuel budget N plan S

theorem PlanSimUpTo.planSim (body : σ → Resume → Burst ℚ σ) (fuel budget N : Nat) : ∀ (plan : List Piece) (S : KState ℚ σ),
    PlanSimUpTo I body fuel budget N plan S → PlanSim I body fuel budget plan S
  | [], _, _ => trivial
  | p :: ps, S, h => by
    obtain ⟨h1, h2⟩ := h
    refine ⟨?_, ?_⟩
    · cases p with
      | untilTime t =>
        intro hpos
        simp only [dif_pos hpos] at h1
        exact SplitCfg.simAlong_of_upTo _ body fuel S N h1
      | step n => trivial
      | untilEvent e => trivial
    · cases hp : p.run body fuel budget S with
      | none => trivial
      | some S1 =>
        rw [hp] at h2
        exact PlanSimUpTo.planSim body fuel budget N ps S1 h2

end SplitPlan
