import OnlVerif.Lemmas.KernelStep
import OnlVerif.Lemmas.ResStep
/-! # Order of processing along whole runs (C01) -/

namespace Once
variable {σ : Type}
open QEntry

/-- one step: the agenda invariant is kept, the `eid` counter does not go back, and every entry of the new agenda
was already pending or carries an `eid` issued during the step -/
theorem step_agenda (body : σ → Resume → Burst ℚ σ) (fuel : Nat) (s s' : KState ℚ σ) (h : AgendaWF s)
    (hs : (step body fuel s).state? = some s') :
    AgendaWF s' ∧ s.eid ≤ s'.eid ∧ ∀ x ∈ s'.agenda, x ∈ s.agenda ∨ s.eid ≤ x.eid := by
  obtain ⟨q, rest, hq, hx⟩ := step_shape body fuel s s' hs
  have ho := openEvent_wf s q rest h hq
  have sp := popMin_spec _ _ _ hq
  refine ⟨ho.1.ext hx, hx.eid_le, ?_⟩
  obtain ⟨new, ha, hp⟩ := hx.grows
  intro x hxm
  rw [ha] at hxm
  rcases List.mem_append.mp hxm with hm | hm
  · exact Or.inr (hp x hm).2.1
  · exact Or.inl (sp.1.symm.subset (List.mem_cons_of_mem _ hm))

/-- along a run: the same, from any earlier state to any later one -/
theorem reach_agenda (body : σ → Resume → Burst ℚ σ) (fuel : Nat) (s s2 : KState ℚ σ) (h : AgendaWF s)
    (hr : KReach body fuel s s2) :
    AgendaWF s2 ∧ s.eid ≤ s2.eid ∧ ∀ x ∈ s2.agenda, x ∈ s.agenda ∨ s.eid ≤ x.eid := by
  induction hr with
  | init => exact ⟨h, Nat.le_refl _, fun x hx => Or.inl hx⟩
  | step _ hs ih =>
    obtain ⟨h1, h2, h3⟩ := ih
    obtain ⟨k1, k2, k3⟩ := step_agenda body fuel _ _ h1 hs
    refine ⟨k1, Nat.le_trans h2 k2, ?_⟩
    intro x hx
    rcases k3 x hx with hm | hm
    · exact h3 x hm
    · exact Or.inr (Nat.le_trans h2 hm)

/-- the clock never goes back along a run -/
theorem reach_now_mono (body : σ → Resume → Burst ℚ σ) (fuel : Nat) (s s2 : KState ℚ σ) (h : AgendaWF s)
    (hr : KReach body fuel s s2) : s.now ≤ s2.now := by
  induction hr with
  | init => exact le_refl _
  | step hr' hs ih =>
    have hw := (reach_agenda body fuel s _ h hr').1
    obtain ⟨q, rest, hq, hx⟩ := step_shape body fuel _ _ hs
    have ho := openEvent_wf _ q rest hw hq
    exact le_trans ih (by rw [hx.now_eq]; exact ho.2)

/-- **processing order**: if a step pops entry `qi` and a later step pops entry `qj`, then `qi` comes strictly before
`qj` in `(time, priority, eid)` order — unless `qj` was pushed only after `qi` had been popped -/
theorem processed_order (body : σ → Resume → Burst ℚ σ) (fuel : Nat) (s0 s s' s2 : KState ℚ σ) (h0 : AgendaWF s0)
    (hr : KReach body fuel s0 s) (qi : QEntry ℚ) (resti : List (QEntry ℚ)) (hqi : popMin s.agenda = some (qi, resti))
    (hs : (step body fuel s).state? = some s') (hr2 : KReach body fuel s' s2)
    (qj : QEntry ℚ) (restj : List (QEntry ℚ)) (hqj : popMin s2.agenda = some (qj, restj)) :
    KeyLt qi qj ∨ (qj ∉ s.agenda ∧ s.eid ≤ qj.eid) := by
  have hw : AgendaWF s := (reach_agenda body fuel s0 s h0 hr).1
  -- the step that pops `qi`
  obtain ⟨q, rest, hq, hx⟩ := step_shape body fuel s s' hs
  rw [hqi] at hq
  cases hq
  have sp := popMin_spec _ _ _ hqi
  have hw' : AgendaWF s' := (openEvent_wf s qi resti hw hqi).1.ext hx
  obtain ⟨new, ha, hp⟩ := hx.grows
  have hnew : ∀ x, s.eid ≤ x.eid → x ∉ s.agenda := fun x hle hm => Nat.lt_irrefl _ (Nat.lt_of_lt_of_le (hw.eid_lt x hm) hle)
  -- where does `qj` come from?
  have hqjm : qj ∈ s2.agenda := (popMin_spec _ _ _ hqj).1.symm.subset List.mem_cons_self
  have hd := (List.Perm.pairwise_iff (R := fun a b : QEntry ℚ => a.eid ≠ b.eid) (fun {a b} h => h.symm) sp.1).mp hw.distinct
  rcases (reach_agenda body fuel s' s2 hw' hr2).2.2 qj hqjm with hm | hm
  · rw [ha] at hm
    rcases List.mem_append.mp hm with hm | hm
    · exact Or.inr ⟨hnew qj (hp qj hm).2.1, (hp qj hm).2.1⟩
    · -- `qj` was pending when `qi` was popped: the pop is the strict minimum
      left
      have hne : qi.eid ≠ qj.eid := (List.pairwise_cons.mp hd).1 qj hm
      rcases KeyLt.total hne with h1 | h1
      · exact h1
      · exact absurd h1 (sp.2 qj hm)
  · have : s.eid ≤ qj.eid := Nat.le_trans hx.eid_le hm
    exact Or.inr ⟨hnew qj this, this⟩

end Once
