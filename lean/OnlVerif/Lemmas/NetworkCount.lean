import Mathlib.Data.List.Perm.Basic
import Mathlib.Tactic.SplitIfs
import OnlVerif.Net.Network
/-!
# Counting packets in a network of accounts

`rc g s q` is how often packet `q` occurs in list `s` of the network state `g`.  Every atomic effect of the model changes
exactly one list (`rc_app`, `rc_del`); the abstract lemmas `Exact.move` / `Exact.add` say that moving one occurrence from a
place to a place, or adding a new packet at one place, keeps "every introduced packet is in exactly one place, once".
-/

namespace Net
variable {ι π κ : Type} [DecidableEq ι] [DecidableEq π] [DecidableEq κ]

/-- indicator -/
def ind (b : Prop) [Decidable b] : Nat := if b then 1 else 0

theorem ind_true {b : Prop} [Decidable b] (h : b) : ind b = 1 := by simp [ind, h]
theorem ind_false {b : Prop} [Decidable b] (h : ¬ b) : ind b = 0 := by simp [ind, h]
theorem ind_le_one (b : Prop) [Decidable b] : ind b ≤ 1 := by unfold ind; split <;> omega

/-- number of occurrences of `q` in list `s` -/
def GState.rc (g : GState ι π) (s : Slot ι) (q : π) : Nat := (g.recs s).count q

theorem recs_app (g : GState ι π) (s s' : Slot ι) (p : π) (r : Nat) :
    (g.app s p r).recs s' = if s' = s then g.recs s' ++ [p] else g.recs s' := by
  cases s <;> cases s' <;>
    simp only [GState.app, GState.recs, GState.modify, upd, reduceCtorEq, if_false, Slot.inn.injEq, Slot.made.injEq,
      Slot.out.injEq, Slot.dropped.injEq, Slot.held.injEq, Slot.sink.injEq]
  all_goals first
    | (split_ifs with h <;> first | rfl | (subst h; simp))
    | skip
  · rename_i k k'
    by_cases h : k' = k
    · subst h; simp [List.filter_append]
    · have : ¬ k = k' := fun e => h e.symm
      simp [List.filter_append, h, this]

theorem recs_del (g : GState ι π) (a : ι) (p : π) (s' : Slot ι) :
    (g.del a p).recs s' = if s' = .held a then (g.recs s').erase p else g.recs s' := by
  cases s' <;>
    simp only [GState.del, GState.recs, GState.modify, upd, reduceCtorEq, if_false, Slot.held.injEq]
  all_goals first
    | (split_ifs with h <;> first | rfl | (subst h; simp))
    | skip

theorem count_snoc (l : List π) (p q : π) : (l ++ [p]).count q = l.count q + ind (q = p) := by
  rw [List.count_append, List.count_singleton]
  unfold ind
  by_cases h : q = p
  · subst h; simp
  · have : ¬ p = q := fun e => h e.symm
    simp [h, this]

theorem rc_app (g : GState ι π) (s s' : Slot ι) (p q : π) (r : Nat) :
    (g.app s p r).rc s' q = g.rc s' q + ind (s' = s ∧ q = p) := by
  unfold GState.rc
  rw [recs_app]
  by_cases h : s' = s
  · rw [if_pos h, count_snoc]
    by_cases hq : q = p <;> simp [ind, h, hq]
  · rw [if_neg h]; simp [ind, h]

theorem rc_del (g : GState ι π) (a : ι) (p q : π) (s' : Slot ι) (hp : p ∈ (g.acct a).held) :
    (g.del a p).rc s' q + ind (s' = .held a ∧ q = p) = g.rc s' q := by
  unfold GState.rc
  rw [recs_del]
  by_cases h : s' = .held a
  · subst h
    rw [if_pos rfl, List.count_erase]
    by_cases hq : q = p
    · subst hq
      have : 0 < ((g.recs (.held a)).count q) := List.count_pos_iff.mpr hp
      simp [ind]; omega
    · have : ¬ p = q := fun e => hq e.symm
      simp [ind, hq, this]
  · rw [if_neg h]; simp [ind, h]

/-! the ghost logs are not touched by the atomic effects -/
@[simp] theorem app_injected (g : GState ι π) (s : Slot ι) (p : π) (r : Nat) : (g.app s p r).injected = g.injected := by
  cases s <;> rfl
@[simp] theorem app_copies (g : GState ι π) (s : Slot ι) (p : π) (r : Nat) : (g.app s p r).copies = g.copies := by
  cases s <;> rfl
@[simp] theorem del_injected (g : GState ι π) (a : ι) (p : π) : (g.del a p).injected = g.injected := rfl
@[simp] theorem del_copies (g : GState ι π) (a : ι) (p : π) : (g.del a p).copies = g.copies := rfl
@[simp] theorem app_introduced (g : GState ι π) (s : Slot ι) (p : π) (r : Nat) : (g.app s p r).introduced = g.introduced := by
  simp [GState.introduced]
@[simp] theorem del_introduced (g : GState ι π) (a : ι) (p : π) : (g.del a p).introduced = g.introduced := rfl

/-! ### exactly one place -/

/-- every packet with `U` is in exactly one place, once; every other packet is nowhere -/
def Exact (c : Slot ι → π → Nat) (U : π → Prop) : Prop :=
  ∀ q, (U q → ∃ s, s.isPlace = true ∧ c s q = 1 ∧ ∀ s', s'.isPlace = true → s' ≠ s → c s' q = 0) ∧
       (¬ U q → ∀ s, s.isPlace = true → c s q = 0)

theorem Exact.move {c c' : Slot ι → π → Nat} {U : π → Prop} (h : Exact c U) (src dst : Slot ι)
    (hd : dst.isPlace = true) (hsrc : src.isPlace = true) (p : π) (hp : 1 ≤ c src p)
    (hc : ∀ s q, s.isPlace = true → c' s q + ind (s = src ∧ q = p) = c s q + ind (s = dst ∧ q = p)) : Exact c' U := by
  intro q
  by_cases hq : q = p
  · subst hq
    have hU : U q := by
      by_contra hn
      have := (h q).2 hn src hsrc
      omega
    obtain ⟨s0, h0p, h01, h0o⟩ := (h q).1 hU
    have hs0 : s0 = src := by
      by_contra hne
      have := h0o src hsrc (fun e => hne e.symm)
      omega
    subst hs0
    refine ⟨fun _ => ⟨dst, hd, ?_, ?_⟩, fun hn => absurd hU hn⟩
    · have := hc dst q hd
      by_cases hds : dst = s0
      · subst hds
        simp only [and_self, ind_true] at this
        omega
      · have h0 := h0o dst hd hds
        rw [ind_false (fun hh => hds hh.1), ind_true ⟨rfl, rfl⟩] at this
        omega
    · intro s' hs' hne
      have := hc s' q hs'
      have e1 : ind (s' = dst ∧ q = q) = 0 := ind_false (fun hh => hne hh.1)
      rw [e1] at this
      by_cases hss : s' = s0
      · subst hss
        have e2 : ind (s' = s' ∧ q = q) = 1 := ind_true ⟨rfl, rfl⟩
        rw [e2] at this
        omega
      · have h0 := h0o s' hs' hss
        have e2 : ind (s' = s0 ∧ q = q) = 0 := ind_false (fun hh => hss hh.1)
        rw [e2] at this
        omega
  · have same : ∀ s, s.isPlace = true → c' s q = c s q := by
      intro s hs
      have := hc s q hs
      rw [ind_false (fun hh => hq hh.2), ind_false (fun hh => hq hh.2)] at this
      omega
    refine ⟨fun hU => ?_, fun hn s hs => ?_⟩
    · obtain ⟨s0, h0p, h01, h0o⟩ := (h q).1 hU
      exact ⟨s0, h0p, by rw [same s0 h0p]; exact h01, fun s' hs' hne => by rw [same s' hs']; exact h0o s' hs' hne⟩
    · rw [same s hs]; exact (h q).2 hn s hs

theorem Exact.add {c c' : Slot ι → π → Nat} {U U' : π → Prop} (h : Exact c U) (dst : Slot ι)
    (hd : dst.isPlace = true) (p : π) (hp : ¬ U p)
    (hc : ∀ s q, s.isPlace = true → c' s q = c s q + ind (s = dst ∧ q = p))
    (hU : ∀ q, U' q ↔ U q ∨ q = p) : Exact c' U' := by
  intro q
  by_cases hq : q = p
  · subst hq
    refine ⟨fun _ => ⟨dst, hd, ?_, ?_⟩, fun hn => absurd ((hU q).mpr (Or.inr rfl)) hn⟩
    · rw [hc dst q hd, (h q).2 hp dst hd, ind_true ⟨rfl, rfl⟩]
    · intro s' hs' hne
      rw [hc s' q hs', (h q).2 hp s' hs', ind_false (fun hh => hne hh.1)]
  · have same : ∀ s, s.isPlace = true → c' s q = c s q := by
      intro s hs
      rw [hc s q hs, ind_false (fun hh => hq hh.2)]; rfl
    have hUq : U' q ↔ U q := by rw [hU q]; simp [hq]
    refine ⟨fun hU' => ?_, fun hn s hs => ?_⟩
    · obtain ⟨s0, h0p, h01, h0o⟩ := (h q).1 (hUq.mp hU')
      exact ⟨s0, h0p, by rw [same s0 h0p]; exact h01, fun s' hs' hne => by rw [same s' hs']; exact h0o s' hs' hne⟩
    · rw [same s hs]; exact (h q).2 (fun hh => hn (hUq.mpr hh)) s hs

theorem Exact.congr {c c' : Slot ι → π → Nat} {U : π → Prop} (h : Exact c U)
    (hc : ∀ s q, s.isPlace = true → c' s q = c s q) : Exact c' U := by
  intro q
  refine ⟨fun hU => ?_, fun hn s hs => by rw [hc s q hs]; exact (h q).2 hn s hs⟩
  obtain ⟨s0, h0p, h01, h0o⟩ := (h q).1 hU
  exact ⟨s0, h0p, by rw [hc s0 q h0p]; exact h01, fun s' hs' hne => by rw [hc s' q hs']; exact h0o s' hs' hne⟩

end Net
