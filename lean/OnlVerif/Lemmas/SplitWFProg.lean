import OnlVerif.Lemmas.SplitWFStep
/-!
# A sufficient condition on the program text for the domain hypothesis `ScopedRun` (C03, stage 3)

`ScopedProg I body`: whatever bound `n` the ids in its local state and in what it is resumed with obey, the program names
only ids below `n` or ids it has been handed by an API reply since.  Every such program satisfies `ScopedStep` in every
well-scoped state, hence `ScopedRun` from every well-scoped state (`ScopedProg.run`).
-/

variable {σ : Type}

namespace SplitWF
variable {I : IdSt σ}

/-- the burst names only ids below `n` or ids handed to it by a reply -/
inductive BurstScoped (I : IdSt σ) : Nat → Burst ℚ σ → Prop
  | call (n : Nat) (c : Call ℚ σ) (k : Reply → Burst ℚ σ) : callBelow I n c →
      (∀ m r, n ≤ m → replyBelow m r → BurstScoped I m (k r)) → BurstScoped I n (.call c k)
  | yield (n : Nat) (e : EvId) (st : σ) : e < n → I.below n st → BurstScoped I n (.yield e st)
  | ret (n : Nat) (v : Val) : valBelow n v → BurstScoped I n (.ret v)
  | raise (n : Nat) (x : Exc) : excBelow n x → BurstScoped I n (.raise x)

/-- **programs that name no id they have not been given** -/
def ScopedProg (I : IdSt σ) (body : σ → Resume → Burst ℚ σ) : Prop :=
  ∀ n st r, I.below n st → resumeBelow n r → BurstScoped I n (body st r)

theorem BurstScoped.mono {n m : Nat} {b : Burst ℚ σ} (h : BurstScoped I n b) (hnm : n ≤ m) : BurstScoped I m b := by
  induction h generalizing m with
  | call n c k hc _ ih =>
    refine BurstScoped.call m c k ?_ (fun m' r hm' hr => ih m' r (Nat.le_trans hnm hm') hr (Nat.le_refl _))
    cases c <;> simp only [callBelow] at hc ⊢
    case timeout d v => exact hc.mono hnm
    case succeed e v => exact ⟨Nat.lt_of_lt_of_le hc.1 hnm, hc.2.mono hnm⟩
    case fail e x => exact ⟨Nat.lt_of_lt_of_le hc.1 hnm, hc.2.mono hnm⟩
    case spawn st => exact I.mono hc hnm
    case interrupt p cause => exact hc.mono hnm
    case cond all ops => exact fun o ho => Nat.lt_of_lt_of_le (hc o ho) hnm
    case release r req => exact Nat.lt_of_lt_of_le hc hnm
    case log w v => exact hc.mono hnm
    case store k v => exact hc.mono hnm
  | yield n e st he hst => exact BurstScoped.yield m e st (Nat.lt_of_lt_of_le he hnm) (I.mono hst hnm)
  | ret n v hv => exact BurstScoped.ret m v (hv.mono hnm)
  | raise n x hx => exact BurstScoped.raise m x (hx.mono hnm)

/-- a statically scoped burst run from a well-scoped state names existing ids only -/
theorem scopedBurst_of_static (self : EvId) (b : Burst ℚ σ) : ∀ (s : KState ℚ σ), WS I s → self < s.events.size →
    BurstScoped I s.events.size b → ScopedBurst I self b s := by
  induction b with
  | call c k ih =>
    intro s h hself hb
    cases hb with
    | call _ _ _ hc hk =>
      refine ⟨hc, ?_⟩
      have hd := ws_doCall h self c (fun _ _ _ => hself) hc
      have hg : s.events.size ≤ (doCall s self c).1.events.size := (Grow.krel.doCall s self c).2
      have hsz := size_noteErr self (doCall s self c)
      refine ih _ _ (ws_noteErr self _ hd.1 (Nat.lt_of_lt_of_le hself hg) hd.2) ?_ ?_
      · rw [hsz]; exact Nat.lt_of_lt_of_le hself hg
      · rw [hsz]; exact hk _ _ hg hd.2
  | yield e st =>
    intro s _ _ hb
    cases hb with
    | yield _ _ _ he hst => exact ⟨he, hst⟩
  | ret v =>
    intro s _ _ hb
    cases hb with
    | ret _ _ hv => exact hv
  | raise x =>
    intro s _ _ hb
    cases hb with
    | raise _ _ hx => exact hx

section prog
variable {body : σ → Resume → Burst ℚ σ} (hP : ScopedProg I body)
include hP

theorem ScopedProg.resume (p : EvId) : ∀ (fuel : Nat) (e : EvId) (s : KState ℚ σ), WS I s → p < s.events.size →
    ResumeAll (scopedP I body) body p fuel e s
  | 0, _, _, _, _ => trivial
  | fuel + 1, e, s, h, hp => by
    unfold ResumeAll
    cases hpr : s.proc? p with
    | none => trivial
    | some pr =>
      simp only [deliver]
      have hd : WS I (deliverSt s p e) := ws_deliverSt h p e hp
      have hgd : s.events.size ≤ (deliverSt s p e).events.size := (Grow.krel.deliver s p e).2
      have hp1 : p < (deliverSt s p e).events.size := Nat.lt_of_lt_of_le hp hgd
      have hstart : WS I ((deliverSt s p e).emit (.resumed p (resumeArg s p e) (deliverSt s p e).now)) :=
        SB.emit hd _ ⟨hp1, (resumeArg_below h p e).mono hgd⟩
      have hb : ScopedBurst I p (body pr.st (resumeArg s p e))
          ((deliverSt s p e).emit (.resumed p (resumeArg s p e) (deliverSt s p e).now)) :=
        scopedBurst_of_static p _ _ hstart hp1
          (hP _ pr.st (resumeArg s p e) (I.mono (SB.proc_st h p pr hpr) hgd) ((resumeArg_below h p e).mono hgd))
      refine ⟨hb, ?_⟩
      have hbt := ws_runBurst p (body pr.st (resumeArg s p e)) _ hstart hp1 hb
      have hgb : (deliverSt s p e).events.size ≤ (runBurst p (body pr.st (resumeArg s p e))
          ((deliverSt s p e).emit (.resumed p (resumeArg s p e) (deliverSt s p e).now))).1.events.size :=
        (Grow.krel.runBurst p _ ((deliverSt s p e).emit (.resumed p (resumeArg s p e) (deliverSt s p e).now))).2
      generalize runBurst p (body pr.st (resumeArg s p e))
          ((deliverSt s p e).emit (.resumed p (resumeArg s p e) (deliverSt s p e).now)) = bt at hbt hgb ⊢
      obtain ⟨s1, tm⟩ := bt
      have hp2 : p < s1.events.size := Nat.lt_of_lt_of_le hp1 hgb
      cases tm with
      | returned v => trivial
      | raised x => trivial
      | yielded e' st' =>
        simp only
        have h2 : WS I (s1.setProc p { st := st', target := some e' }) :=
          SB.setProc hbt.1 p _ hp2 (fun t ht => by simp only [Option.some.injEq] at ht; subst ht; exact hbt.2.1) hbt.2.2
        cases hreg : register (s1.setProc p { st := st', target := some e' }) p e' with
        | some s3 => trivial
        | none => exact ScopedProg.resume p fuel e' _ h2 hp2

theorem ScopedProg.intr (fuel : Nat) (iv p : EvId) (s : KState ℚ σ) (h : WS I s) (hp : p < s.events.size) :
    IntrAll (scopedP I body) body fuel iv p s := by
  unfold IntrAll
  split
  · trivial
  · cases hpr : s.proc? p with
    | none => trivial
    | some pr =>
      simp only
      cases htg : pr.target with
      | none => exact ScopedProg.resume hP p fuel iv s h hp
      | some t =>
        simp only
        refine ScopedProg.resume hP p fuel iv _ (WS.of_le (SB.eraseCb h t _) (by simp [KState.eraseCb, KState.setEv])) ?_
        simpa [KState.eraseCb, KState.setEv] using hp

theorem ScopedProg.cb (fuel : Nat) (e : EvId) (s : KState ℚ σ) (cb : Cb) (h : WS I s) (hcb : cbBelow s.events.size cb) :
    CbAll (scopedP I body) body fuel e s cb := by
  cases cb <;> simp only [CbAll]
  case resume p => exact ScopedProg.resume hP p fuel e s h hcb
  case intr iv =>
    cases hk : (s.ev iv).kind with
    | intr p =>
      simp only
      have hp : p < s.events.size := by
        have := (h.events iv).kind
        rw [hk] at this
        exact this
      exact ScopedProg.intr hP fuel iv p s h hp
    | _ => trivial

theorem ScopedProg.cbs (fuel : Nat) (e : EvId) : ∀ (cbs : List Cb) (l : LoopSt ℚ σ), WS I l.s → e < l.s.events.size →
    (∀ cb ∈ cbs, cbBelow l.s.events.size cb) → CbsAll (scopedP I body) body fuel e cbs l
  | [], _, _, _, _ => trivial
  | cb :: cbs, l, h, he, hcbs => by
    have hA := ScopedProg.cb hP fuel e l.s cb h (hcbs cb List.mem_cons_self)
    have hg : l.s.events.size ≤ (runCb body fuel e l cb).s.events.size := (Grow.krel.runCb body fuel e l cb).2
    exact ⟨hA, ScopedProg.cbs fuel e cbs _ (ws_runCb body fuel e l cb h he (hcbs cb List.mem_cons_self) hA)
      (Nat.lt_of_lt_of_le he hg) (fun c hc => (hcbs c (List.mem_cons_of_mem _ hc)).mono hg)⟩

/-- **a statically scoped program names existing ids only in every step from a well-scoped state** -/
theorem ScopedProg.step (fuel : Nat) (s : KState ℚ σ) (h : WS I s) : ScopedStep I body fuel s := by
  unfold ScopedStep StepAll
  cases hq : popMin s.agenda with
  | none => trivial
  | some qr =>
    obtain ⟨q, rest⟩ := qr
    simp only
    cases hc : (s.ev q.ev).cbs with
    | none => trivial
    | some cbs =>
      simp only
      have hqm : q ∈ s.agenda := (popMin_spec _ _ _ hq).1.symm.subset List.mem_cons_self
      have hge : s.events.size ≤ (openEvent s q rest).events.size := by simp [openEvent]
      exact ScopedProg.cbs hP fuel q.ev cbs { s := openEvent s q rest } (ws_openEvent h q rest hq)
        (Nat.lt_of_lt_of_le (h.agenda q hqm) hge) (fun cb hcb => ((h.events q.ev).cbs cbs hc cb hcb).mono hge)

/-- … hence in every run from a well-scoped state -/
theorem ScopedProg.run (fuel : Nat) (s0 : KState ℚ σ) (h0 : WS I s0) : ScopedRun I body fuel s0 := by
  intro s hr
  have : WS I s := by
    induction hr with
    | init => exact h0
    | step _ hs ih => exact ws_step body fuel _ _ ih (ScopedProg.step hP fuel _ ih) hs
  exact ScopedProg.step hP fuel s this

end prog

end SplitWF
