import OnlVerif.Lemmas.WireKAbs
/-!
# The Wire on the kernel model: every configuration step is sound

For each constructor of `AStep`: the abstract invariant is kept (with the deliveries appended: `delivered so far ++ still
to come` stays what the wire's arithmetic gives for the whole workload) and the step budget drops by one.  All statements
are at the instant of the processed entry (`AInv.advance` brings the clock there).
-/

set_option linter.unusedSimpArgs false

namespace WireK
open WireOnK QEntry

variable {cfg : WireCfg ℚ} {losses delays : List ℚ}
variable {arrivals : List ℚ} {a : A} {outs : List (Int × ℚ)} {q : QEntry ℚ}

/-- what a sound configuration step delivers -/
def StepOK (cfg : WireCfg ℚ) (losses delays : List ℚ) (arrivals : List ℚ) (a : A) (q : QEntry ℚ) (outs : List (Int × ℚ))
    (a' : A) (new : List (Int × ℚ)) : Prop :=
  AInv cfg losses delays arrivals a' q.time (outs ++ new) ∧ a'.mu + 1 ≤ a.mu

theorem due_of_sub {a a' : A} {t : ℚ} (hd : ∀ x ∈ a.entries, t ≤ x.time)
    (hsub : ∀ x ∈ a'.entries, x ∈ a.entries ∨ t ≤ x.time) : ∀ x ∈ a'.entries, t ≤ x.time := by
  intro x hx
  rcases hsub x hx with h | h
  · exact hd x h
  · exact h

/-! ## the wire's arithmetic, one packet at a time -/

theorem deliv_lost (fr : ℚ) (nl nd : Nat) (id : Int) (c : ℚ) (R : List (Int × ℚ))
    (hl : isLost cfg (draw losses nl) = true) :
    deliv cfg losses delays fr nl nd ((id, c) :: R) = deliv cfg losses delays (max fr c) (nlNext cfg nl) nd R := by
  simp [deliv, hl]

theorem deliv_wait (fr : ℚ) (nl nd : Nat) (id : Int) (c : ℚ) (R : List (Int × ℚ))
    (hl : isLost cfg (draw losses nl) = false) (hw : max fr c - c < draw delays nd) :
    deliv cfg losses delays fr nl nd ((id, c) :: R) =
      (id, c + draw delays nd) :: deliv cfg losses delays (c + draw delays nd) (nlNext cfg nl) (nd + 1) R := by
  simp [deliv, hl, hw]

theorem deliv_now (fr : ℚ) (nl nd : Nat) (id : Int) (c : ℚ) (R : List (Int × ℚ))
    (hl : isLost cfg (draw losses nl) = false) (hw : ¬ max fr c - c < draw delays nd) :
    deliv cfg losses delays fr nl nd ((id, c) :: R) =
      (id, max fr c) :: deliv cfg losses delays (max fr c) (nlNext cfg nl) (nd + 1) R := by
  simp [deliv, hl, hw]

/-! ## `put` adds a stamp and an item: nothing known changes -/

theorem getD_snoc_lt (l : List ℚ) (x : ℚ) (k : Nat) (h : k < l.length) : (l ++ [x]).getD k 0 = l.getD k 0 := by
  simp [List.getD_eq_getElem?_getD, List.getElem?_append_left h]

theorem getD_snoc_eq (l : List ℚ) (x : ℚ) : (l ++ [x]).getD l.length 0 = x := by
  simp [List.getD_eq_getElem?_getD]

theorem ctOf_put (a a' : A) (x : ℚ) (hc : a'.cts = a.cts ++ [x]) (id : Int) (h : id.toNat < a.cts.length) :
    a'.ctOf id = a.ctOf id := by
  unfold A.ctOf
  rw [hc, getD_snoc_lt _ _ _ h]

theorem ctOf_new (a a' : A) (x : ℚ) (hc : a'.cts = a.cts ++ [x]) : a'.ctOf (a.cts.length : Int) = x := by
  unfold A.ctOf
  rw [hc, Int.toNat_natCast, getD_snoc_eq]

/-- the waiting packets after a `put` at the instant the source's entry was due: the source's next packet is now in the
store, with the stamp it was predicted with -/
theorem waiting_put (a a' : A) (t : ℚ) (F : List (Int × ℚ)) (hc : a'.cts = a.cts ++ [t])
    (hi : a'.items = a.items ++ [(a.cts.length : Int)]) (hits : ∀ i ∈ a.items, i.toNat < a.cts.length)
    (hf : a.src.future t = ((a.cts.length : Int), t) :: F) (hf' : a'.src.future t = F) :
    a'.waiting t = a.waiting t := by
  unfold A.waiting
  rw [hi, hf, hf', List.map_append, List.map_singleton, ctOf_new a a' t hc, List.append_assoc, List.singleton_append]
  congr 1
  apply List.map_congr_left
  intro i hi'
  rw [ctOf_put a a' t hc i (hits i hi')]

variable (hi : AInv cfg losses delays arrivals a q.time outs)
include hi

/-! ## the steps -/

theorem stepOK_wireInit (g : EvId) (h : a.wire = .init q) :
    StepOK cfg losses delays arrivals a q outs { a with wire := .W g q.time 0 0 } [] := by
  have hp := hi.wire
  rw [h] at hp
  obtain ⟨-, -, hit, hpe, h0⟩ := hp
  refine ⟨⟨⟨le_refl _, ?_⟩, hi.src, hi.pend, ?_, ?_, hi.its, ?_⟩, ?_⟩
  · intro i hi'; simp only at hi'; rw [hit] at hi'; cases hi'
  · intro _ hne; exact absurd hit hne
  · apply due_of_sub hi.due
    intro x hx
    simp only [A.entries, WPhase.entries, List.nil_append] at hx
    exact Or.inl (by simp [A.entries, hx])
  · have := hi.ghost
    simp only [pred, h, List.append_nil, A.waiting, A.ctOf] at this ⊢
    rw [h0] at this ⊢; exact this
  · simp [A.mu, h, WPhase.mu] <;> omega

theorem stepOK_srcEnd (h : a.src = .ending q) : StepOK cfg losses delays arrivals a q outs { a with src := .done } [] := by
  refine ⟨⟨?_, trivial, hi.pend, hi.idle, ?_, hi.its, ?_⟩, ?_⟩
  · exact hi.wire
  · apply due_of_sub hi.due
    intro x hx
    simp only [A.entries, SPhase.entries, List.nil_append, List.mem_append] at hx
    left
    simp only [A.entries, List.mem_append]
    tauto
  · have := hi.ghost
    simp only [pred, A.waiting, A.ctOf, h, SPhase.future, List.append_nil] at this ⊢
    exact this
  · simp [A.mu, h, SPhase.mu]; omega

theorem stepOK_srcInitEnd (q' : QEntry ℚ) (h : a.src = .init q []) (ht : q'.time = q.time) (hp : q'.prio = NORMAL) :
    StepOK cfg losses delays arrivals a q outs { a with src := .ending q' } [] := by
  refine ⟨⟨hi.wire, ⟨ht, hp⟩, hi.pend, hi.idle, ?_, hi.its, ?_⟩, ?_⟩
  · apply due_of_sub hi.due
    intro x hx
    simp only [A.entries, SPhase.entries, List.mem_append, List.mem_singleton] at hx ⊢
    rcases hx with hx | hx | hx
    · exact Or.inl (Or.inl hx)
    · exact Or.inr (by rw [hx, ht])
    · exact Or.inl (Or.inr (Or.inr hx))
  · have := hi.ghost
    simp only [pred, A.waiting, A.ctOf, h, SPhase.future, futureOf, List.append_nil] at this ⊢
    exact this
  · simp [A.mu, h, SPhase.mu]; omega

theorem stepOK_srcInitWait (q' : QEntry ℚ) (gap : ℚ) (rest : List ℚ) (h : a.src = .init q (gap :: rest))
    (ht : q'.time = q.time + gap) (hp : q'.prio = NORMAL) :
    StepOK cfg losses delays arrivals a q outs { a with src := .wait 0 rest q' } [] := by
  have hs := hi.src
  rw [h] at hs
  obtain ⟨-, -, hg, hpe, hcts⟩ := hs
  have hgap : 0 ≤ gap := hg gap (by simp)
  refine ⟨⟨hi.wire, ⟨hp, fun x hx => hg x (List.mem_cons_of_mem _ hx), by simp [hcts], ?_⟩, hi.pend, hi.idle, ?_, hi.its, ?_⟩, ?_⟩
  · intro u hu; simp only at hu; rw [hpe] at hu; cases hu
  · apply due_of_sub hi.due
    intro x hx
    simp only [A.entries, SPhase.entries, List.mem_append, List.mem_singleton] at hx ⊢
    rcases hx with hx | hx | hx
    · exact Or.inl (Or.inl hx)
    · exact Or.inr (by rw [hx, ht]; linarith)
    · exact Or.inl (Or.inr (Or.inr hx))
  · have := hi.ghost
    simp only [pred, A.waiting, A.ctOf, h, SPhase.future, futureOf, ht, add_zero, Nat.cast_zero, zero_add, List.append_nil] at this ⊢
    exact this
  · simp [A.mu, h, SPhase.mu]; omega

theorem stepOK_putIdle (h : a.pend = some q) (hw : a.wire.getQ = [] ∨ a.items = []) :
    StepOK cfg losses delays arrivals a q outs { a with pend := none } [] := by
  have hp := hi.wire
  have hs := hi.src
  refine ⟨⟨?_, ?_, ?_, ?_, ?_, hi.its, ?_⟩, ?_⟩
  · cases hwire : a.wire with
    | init q0 => rw [hwire] at hp; rw [hp.2.2.2.1] at h; cases h
    | W g t0 nl nd => rw [hwire] at hp; exact hp
    | H g id q0 t0 nl nd => rw [hwire] at hp; exact hp
    | T t id q0 nl nd => rw [hwire] at hp; exact hp
  · cases hsrc : a.src with
    | init q0 arr => rw [hsrc] at hs; rw [hs.2.2.2.1] at h; cases h
    | wait next rest q0 => rw [hsrc] at hs; exact ⟨hs.1, hs.2.1, hs.2.2.1, fun u hu => by cases hu⟩
    | ending q0 => rw [hsrc] at hs; exact hs
    | done => trivial
  · intro u hu; cases hu
  · intro hidle hne
    exfalso
    cases hwire : a.wire with
    | init q0 => rw [hwire] at hp; exact hne hp.2.2.1
    | W g t0 nl nd =>
      rcases hw with hw | hw
      · simp [hwire, WPhase.getQ] at hw
      · exact hne hw
    | H g id q0 t0 nl nd => simp [hwire, WPhase.idle] at hidle
    | T t id q0 nl nd => simp [hwire, WPhase.idle] at hidle
  · apply due_of_sub hi.due
    intro x hx
    simp only [A.entries, Option.toList, List.mem_append] at hx ⊢
    rcases hx with hx | hx | hx
    · exact Or.inl (Or.inl hx)
    · exact Or.inl (Or.inr (Or.inl hx))
    · cases hx
  · have := hi.ghost
    simp only [pred, A.waiting, A.ctOf, List.append_nil] at this ⊢
    exact this
  · simp [A.mu, h]; omega

theorem stepOK_putHand (q' : QEntry ℚ) (g : EvId) (t0 : ℚ) (nl nd : Nat) (i : Int) (is : List Int) (h : a.pend = some q)
    (hw : a.wire = .W g t0 nl nd) (hit : a.items = i :: is) (ht : q'.time = q.time ∧ q'.prio = NORMAL) :
    StepOK cfg losses delays arrivals a q outs { a with pend := none, wire := .H g i q' t0 nl nd, items := is } [] := by
  have hs := hi.src
  have hp := hi.wire
  rw [hw] at hp
  obtain ⟨ht0, hct⟩ := hp
  have hii := hi.its i (by rw [hit]; simp)
  have hci : a.ctOf i = q.time := hct i (by rw [hit]; simp)
  refine ⟨⟨⟨ht.1, ht.2, ?_, hii.1, hii.2.1⟩, ?_, ?_, ?_, ?_, ?_, ?_⟩, ?_⟩
  · show max t0 (a.ctOf i) = q.time
    rw [hci]; exact max_eq_right ht0
  · cases hsrc : a.src with
    | init q0 arr => rw [hsrc] at hs; rw [hs.2.2.2.1] at h; cases h
    | wait next rest q0 => rw [hsrc] at hs; exact ⟨hs.1, hs.2.1, hs.2.2.1, fun u hu => by cases hu⟩
    | ending q0 => rw [hsrc] at hs; exact hs
    | done => trivial
  · intro u hu; cases hu
  · intro hidle; simp [WPhase.idle] at hidle
  · apply due_of_sub hi.due
    intro x hx
    simp only [A.entries, WPhase.entries, Option.toList, List.mem_append, List.mem_singleton] at hx ⊢
    rcases hx with hx | hx | hx
    · exact Or.inr (by rw [hx, ht.1])
    · exact Or.inl (Or.inr (Or.inl hx))
    · cases hx
  · intro j hj
    exact hi.its j (by rw [hit]; exact List.mem_cons_of_mem _ hj)
  · have := hi.ghost
    simp only [pred, A.waiting, A.ctOf, hw, hit, List.map_cons, List.cons_append, List.append_nil] at this ⊢
    exact this
  · simp [A.mu, h, hw, hit, WPhase.mu]; omega

/-! ### `put` -/

omit hi in
/-- a `put` changes nothing that is still to be delivered -/
theorem pred_put (a a' : A) (t : ℚ) (F : List (Int × ℚ)) (hw : a'.wire = a.wire) (hc : a'.cts = a.cts ++ [t])
    (hit : a'.items = a.items ++ [(a.cts.length : Int)]) (hits : ∀ i ∈ a.items, i.toNat < a.cts.length)
    (hf : a.src.future t = ((a.cts.length : Int), t) :: F) (hf' : a'.src.future t = F)
    (hid : ∀ g id q0 t0 nl nd, a.wire = .H g id q0 t0 nl nd → id.toNat < a.cts.length) :
    pred cfg losses delays a' t = pred cfg losses delays a t := by
  have hwt := waiting_put a a' t F hc hit hits hf hf'
  unfold pred
  rw [hw, hwt]
  cases hwire : a.wire with
  | init q0 => rfl
  | W g t0 nl nd => rfl
  | H g id q0 t0 nl nd =>
    simp only
    rw [ctOf_put a a' t hc id (hid g id q0 t0 nl nd hwire)]
  | T tt id q0 nl nd => rfl

/-- the parts of the invariant a `put` at the instant of the source's entry establishes, whatever the source does next -/
theorem put_core (hq : IsMin a q) (next : Nat) (rest : List ℚ) (h : a.src = .wait next rest q) (hn : a.pend = none)
    (a' : A) (u : QEntry ℚ) (hw : a'.wire = a.wire) (hp : a'.pend = some u) (hc : a'.cts = a.cts ++ [q.time])
    (hit : a'.items = a.items ++ [(next : Int)]) (hu : u.time = q.time ∧ u.prio = NORMAL) :
    next = a.cts.length ∧ WireA a' q.time a'.wire ∧ (∀ v, a'.pend = some v → v.time = q.time ∧ v.prio = NORMAL) ∧
    (a'.wire.idle = true → a'.items ≠ [] → a'.pend.isSome = true) ∧
    (∀ i ∈ a'.items, 0 ≤ i ∧ i.toNat < a'.cts.length ∧ a'.ctOf i ≤ q.time) ∧
    (∀ F, a.src.future q.time = ((a.cts.length : Int), q.time) :: F → a'.src.future q.time = F →
      pred cfg losses delays a' q.time = pred cfg losses delays a q.time) := by
  have hs := hi.src
  rw [h] at hs
  obtain ⟨hsp, -, hnext, -⟩ := hs
  have hits : ∀ i ∈ a.items, i.toNat < a.cts.length := fun i hi' => (hi.its i hi').2.1
  have hlen : a'.cts.length = a.cts.length + 1 := by rw [hc]; simp
  have hnew : a'.ctOf (next : Int) = q.time := by rw [hnext]; exact ctOf_new a a' q.time hc
  have hp0 := hi.wire
  refine ⟨hnext, ?_, ?_, ?_, ?_, ?_⟩
  · rw [hw]
    cases hwire : a.wire with
    | init q0 =>
      exfalso
      rw [hwire] at hp0
      refine hi.not_prio_lt hq (mem_wire (by simp [hwire, WPhase.entries])) hp0.1 ?_
      rw [hp0.2.1, hsp]; decide
    | W g t0 nl nd =>
      rw [hwire] at hp0
      refine ⟨hp0.1, ?_⟩
      have hemp : a.items = [] := by
        by_contra hne
        have := hi.idle (by simp [hwire, WPhase.idle]) hne
        rw [hn] at this; cases this
      intro i hi'
      rw [hit, hemp] at hi'
      simp only [List.nil_append, List.mem_singleton] at hi'
      rw [hi']; exact hnew
    | H g id q0 t0 nl nd =>
      rw [hwire] at hp0
      obtain ⟨h1, h2, h3, h4, h5⟩ := hp0
      exact ⟨h1, h2, by rw [ctOf_put a a' q.time hc id h5]; exact h3, h4, by rw [hlen]; omega⟩
    | T tt id q0 nl nd =>
      rw [hwire] at hp0
      exact ⟨hp0.1, hp0.2.1, by rw [hlen]; have := hp0.2.2; omega⟩
  · intro v hv
    rw [hp] at hv
    simp only [Option.some.injEq] at hv
    subst hv
    exact hu
  · intro _ _; rw [hp]; rfl
  · intro i hi'
    rw [hit] at hi'
    simp only [List.mem_append, List.mem_singleton] at hi'
    rcases hi' with hi' | rfl
    · obtain ⟨h1, h2, h3⟩ := hi.its i hi'
      exact ⟨h1, by rw [hlen]; omega, by rw [ctOf_put a a' q.time hc i h2]; exact h3⟩
    · exact ⟨Int.natCast_nonneg _, by rw [hlen, Int.toNat_natCast, hnext]; omega, by rw [hnew]⟩
  · intro F hf hf'
    refine pred_put a a' q.time F hw hc (by rw [hit, hnext]) hits hf hf' ?_
    intro g id q0 t0 nl nd hwire
    rw [hwire] at hp0
    exact hp0.2.2.2.2

theorem stepOK_srcPutEnd (hq : IsMin a q) (u q' : QEntry ℚ) (next : Nat) (h : a.src = .wait next [] q) (hn : a.pend = none)
    (hu : u.time = q.time ∧ u.prio = NORMAL) (ht : q'.time = q.time ∧ q'.prio = NORMAL) :
    StepOK cfg losses delays arrivals a q outs
      { a with src := .ending q', pend := some u, items := a.items ++ [(next : Int)], cts := a.cts ++ [q.time] } [] := by
  obtain ⟨hnext, c1, c2, c3, c4, c5⟩ := put_core hi hq next [] h hn
    { a with src := .ending q', pend := some u, items := a.items ++ [(next : Int)], cts := a.cts ++ [q.time] } u rfl rfl rfl rfl hu
  refine ⟨⟨c1, ⟨ht.1, ht.2⟩, c2, c3, ?_, c4, ?_⟩, ?_⟩
  · apply due_of_sub hi.due
    intro x hx
    simp only [A.entries, SPhase.entries, Option.toList, List.mem_append, List.mem_singleton] at hx ⊢
    rcases hx with hx | hx | hx
    · exact Or.inl (Or.inl hx)
    · exact Or.inr (by rw [hx, ht.1])
    · exact Or.inr (by rw [hx, hu.1])
  · rw [List.append_nil, c5 [] (by simp [h, SPhase.future, futureOf, hnext]) rfl]
    exact hi.ghost
  · simp [A.mu, h, hn, SPhase.mu]; omega

theorem stepOK_srcPutWait (hq : IsMin a q) (u q' : QEntry ℚ) (next : Nat) (gap : ℚ) (rest : List ℚ)
    (h : a.src = .wait next (gap :: rest) q) (hn : a.pend = none) (hu : u.time = q.time ∧ u.prio = NORMAL)
    (ht : q'.time = q.time + gap ∧ q'.prio = NORMAL) (ho : u.eid < q'.eid) :
    StepOK cfg losses delays arrivals a q outs
      { a with src := .wait (next + 1) rest q', pend := some u, items := a.items ++ [(next : Int)],
               cts := a.cts ++ [q.time] } [] := by
  obtain ⟨hnext, c1, c2, c3, c4, c5⟩ := put_core hi hq next (gap :: rest) h hn
    { a with src := .wait (next + 1) rest q', pend := some u, items := a.items ++ [(next : Int)], cts := a.cts ++ [q.time] }
    u rfl rfl rfl rfl hu
  have hs := hi.src
  rw [h] at hs
  obtain ⟨-, hg, -, -⟩ := hs
  have hgap : 0 ≤ gap := hg gap (by simp)
  refine ⟨⟨c1, ⟨ht.2, fun x hx => hg x (List.mem_cons_of_mem _ hx), by simp [hnext], ?_⟩, c2, c3, ?_, c4, ?_⟩, ?_⟩
  · intro v hv
    simp only [Option.some.injEq] at hv
    subst hv; exact ho
  · apply due_of_sub hi.due
    intro x hx
    simp only [A.entries, SPhase.entries, Option.toList, List.mem_append, List.mem_singleton] at hx ⊢
    rcases hx with hx | hx | hx
    · exact Or.inl (Or.inl hx)
    · exact Or.inr (by rw [hx, ht.1]; linarith)
    · exact Or.inr (by rw [hx, hu.1])
  · rw [List.append_nil, c5 (futureOf q'.time (next + 1) (0 :: rest))
      (by simp [h, SPhase.future, futureOf, hnext, ht.1]) rfl]
    exact hi.ghost
  · simp [A.mu, h, hn, SPhase.mu]; omega

/-! ### the server takes a packet -/

theorem stepOK_serveLostIdle (g g' : EvId) (id : Int) (t0 : ℚ) (nl nd : Nat) (h : a.wire = .H g id q t0 nl nd)
    (hl : isLost cfg (draw losses nl) = true) (hit : a.items = []) :
    StepOK cfg losses delays arrivals a q outs { a with wire := .W g' q.time (nlNext cfg nl) nd } [] := by
  have hp := hi.wire
  rw [h] at hp
  obtain ⟨-, -, hmax, -, -⟩ := hp
  refine ⟨⟨⟨le_refl _, ?_⟩, hi.src, hi.pend, ?_, ?_, hi.its, ?_⟩, ?_⟩
  · intro i hi'; simp only at hi'; rw [hit] at hi'; cases hi'
  · intro _ hne; exact absurd hit hne
  · apply due_of_sub hi.due
    intro x hx
    simp only [A.entries, WPhase.entries, List.nil_append] at hx
    exact Or.inl (by simp [A.entries, hx])
  · have := hi.ghost
    simp only [pred, h, List.append_nil, A.waiting, A.ctOf] at this ⊢
    rw [deliv_lost _ _ _ _ _ _ hl] at this
    rw [show max t0 (a.cts.getD id.toNat 0) = q.time from hmax] at this
    exact this
  · simp [A.mu, h, WPhase.mu] <;> omega

theorem stepOK_serveLostNext (q' : QEntry ℚ) (g g' : EvId) (id : Int) (t0 : ℚ) (nl nd : Nat) (i : Int) (is : List Int)
    (h : a.wire = .H g id q t0 nl nd) (hl : isLost cfg (draw losses nl) = true) (hit : a.items = i :: is)
    (ht : q'.time = q.time ∧ q'.prio = NORMAL) :
    StepOK cfg losses delays arrivals a q outs
      { a with wire := .H g' i q' q.time (nlNext cfg nl) nd, items := is } [] := by
  have hp := hi.wire
  rw [h] at hp
  obtain ⟨-, -, hmax, -, -⟩ := hp
  have hii := hi.its i (by rw [hit]; simp)
  refine ⟨⟨⟨ht.1, ht.2, max_eq_left hii.2.2, hii.1, hii.2.1⟩, hi.src, hi.pend, ?_, ?_, ?_, ?_⟩, ?_⟩
  · intro hidle; simp [WPhase.idle] at hidle
  · apply due_of_sub hi.due
    intro x hx
    simp only [A.entries, WPhase.entries, List.mem_append, List.mem_singleton] at hx ⊢
    rcases hx with hx | hx
    · exact Or.inr (by rw [hx, ht.1])
    · exact Or.inl (Or.inr hx)
  · intro j hj
    exact hi.its j (by rw [hit]; exact List.mem_cons_of_mem _ hj)
  · have := hi.ghost
    simp only [pred, h, hit, List.append_nil, A.waiting, A.ctOf, List.map_cons, List.cons_append] at this ⊢
    rw [deliv_lost _ _ _ _ _ _ hl] at this
    rw [show max t0 (a.cts.getD id.toNat 0) = q.time from hmax] at this
    exact this
  · simp [A.mu, h, hit, WPhase.mu] <;> omega

theorem stepOK_serveWait (q' : QEntry ℚ) (g t : EvId) (id : Int) (t0 : ℚ) (nl nd : Nat) (h : a.wire = .H g id q t0 nl nd)
    (hl : isLost cfg (draw losses nl) = false) (hw : q.time - a.ctOf id < draw delays nd)
    (ht : q'.time = q.time + (draw delays nd - (q.time - a.ctOf id)) ∧ q'.prio = NORMAL) :
    StepOK cfg losses delays arrivals a q outs { a with wire := .T t id q' (nlNext cfg nl) (nd + 1) } [] := by
  have hp := hi.wire
  rw [h] at hp
  obtain ⟨-, -, hmax, h4, h5⟩ := hp
  refine ⟨⟨⟨ht.2, h4, h5⟩, hi.src, hi.pend, ?_, ?_, hi.its, ?_⟩, ?_⟩
  · intro hidle; simp [WPhase.idle] at hidle
  · apply due_of_sub hi.due
    intro x hx
    simp only [A.entries, WPhase.entries, List.mem_append, List.mem_singleton] at hx ⊢
    rcases hx with hx | hx
    · exact Or.inr (by rw [hx, ht.1]; linarith)
    · exact Or.inl (Or.inr hx)
  · have := hi.ghost
    have hw' : max t0 (a.ctOf id) - a.ctOf id < draw delays nd := by rw [hmax]; exact hw
    have hqt : q'.time = a.ctOf id + draw delays nd := by rw [ht.1]; ring
    simp only [pred, h, List.append_nil, A.waiting] at this ⊢
    rw [deliv_wait _ _ _ _ _ _ hl hw'] at this
    rw [hqt]
    exact this
  · simp [A.mu, h, WPhase.mu] <;> omega

theorem stepOK_serveOutIdle (g g' : EvId) (id : Int) (t0 : ℚ) (nl nd : Nat) (h : a.wire = .H g id q t0 nl nd)
    (hl : isLost cfg (draw losses nl) = false) (hw : ¬ q.time - a.ctOf id < draw delays nd) (hit : a.items = []) :
    StepOK cfg losses delays arrivals a q outs { a with wire := .W g' q.time (nlNext cfg nl) (nd + 1) } [(id, q.time)] := by
  have hp := hi.wire
  rw [h] at hp
  obtain ⟨-, -, hmax, -, -⟩ := hp
  refine ⟨⟨⟨le_refl _, ?_⟩, hi.src, hi.pend, ?_, ?_, hi.its, ?_⟩, ?_⟩
  · intro i hi'; simp only at hi'; rw [hit] at hi'; cases hi'
  · intro _ hne; exact absurd hit hne
  · apply due_of_sub hi.due
    intro x hx
    simp only [A.entries, WPhase.entries, List.nil_append] at hx
    exact Or.inl (by simp [A.entries, hx])
  · have := hi.ghost
    have hw' : ¬ max t0 (a.ctOf id) - a.ctOf id < draw delays nd := by rw [hmax]; exact hw
    simp only [pred, h, A.waiting] at this ⊢
    rw [deliv_now _ _ _ _ _ _ hl hw', hmax] at this
    rw [List.append_assoc, List.singleton_append]
    exact this
  · simp [A.mu, h, WPhase.mu] <;> omega

theorem stepOK_serveOutNext (q' : QEntry ℚ) (g g' : EvId) (id : Int) (t0 : ℚ) (nl nd : Nat) (i : Int) (is : List Int)
    (h : a.wire = .H g id q t0 nl nd) (hl : isLost cfg (draw losses nl) = false)
    (hw : ¬ q.time - a.ctOf id < draw delays nd) (hit : a.items = i :: is) (ht : q'.time = q.time ∧ q'.prio = NORMAL) :
    StepOK cfg losses delays arrivals a q outs
      { a with wire := .H g' i q' q.time (nlNext cfg nl) (nd + 1), items := is } [(id, q.time)] := by
  have hp := hi.wire
  rw [h] at hp
  obtain ⟨-, -, hmax, -, -⟩ := hp
  have hii := hi.its i (by rw [hit]; simp)
  refine ⟨⟨⟨ht.1, ht.2, max_eq_left hii.2.2, hii.1, hii.2.1⟩, hi.src, hi.pend, ?_, ?_, ?_, ?_⟩, ?_⟩
  · intro hidle; simp [WPhase.idle] at hidle
  · apply due_of_sub hi.due
    intro x hx
    simp only [A.entries, WPhase.entries, List.mem_append, List.mem_singleton] at hx ⊢
    rcases hx with hx | hx
    · exact Or.inr (by rw [hx, ht.1])
    · exact Or.inl (Or.inr hx)
  · intro j hj
    exact hi.its j (by rw [hit]; exact List.mem_cons_of_mem _ hj)
  · have := hi.ghost
    have hw' : ¬ max t0 (a.ctOf id) - a.ctOf id < draw delays nd := by rw [hmax]; exact hw
    simp only [pred, h, hit, A.waiting, List.map_cons, List.cons_append] at this ⊢
    rw [deliv_now _ _ _ _ _ _ hl hw', hmax] at this
    rw [List.append_assoc, List.singleton_append]
    exact this
  · simp [A.mu, h, hit, WPhase.mu] <;> omega

/-! ### the propagation delay is over -/

theorem stepOK_fireIdle (t g : EvId) (id : Int) (nl nd : Nat) (h : a.wire = .T t id q nl nd) (hit : a.items = []) :
    StepOK cfg losses delays arrivals a q outs { a with wire := .W g q.time nl nd } [(id, q.time)] := by
  refine ⟨⟨⟨le_refl _, ?_⟩, hi.src, hi.pend, ?_, ?_, hi.its, ?_⟩, ?_⟩
  · intro i hi'; simp only at hi'; rw [hit] at hi'; cases hi'
  · intro _ hne; exact absurd hit hne
  · apply due_of_sub hi.due
    intro x hx
    simp only [A.entries, WPhase.entries, List.nil_append] at hx
    exact Or.inl (by simp [A.entries, hx])
  · have := hi.ghost
    simp only [pred, h, A.waiting] at this ⊢
    rw [List.append_assoc, List.singleton_append]
    exact this
  · simp [A.mu, h, WPhase.mu] <;> omega

theorem stepOK_fireNext (q' : QEntry ℚ) (t g : EvId) (id : Int) (nl nd : Nat) (i : Int) (is : List Int)
    (h : a.wire = .T t id q nl nd) (hit : a.items = i :: is) (ht : q'.time = q.time ∧ q'.prio = NORMAL) :
    StepOK cfg losses delays arrivals a q outs { a with wire := .H g i q' q.time nl nd, items := is } [(id, q.time)] := by
  have hii := hi.its i (by rw [hit]; simp)
  refine ⟨⟨⟨ht.1, ht.2, max_eq_left hii.2.2, hii.1, hii.2.1⟩, hi.src, hi.pend, ?_, ?_, ?_, ?_⟩, ?_⟩
  · intro hidle; simp [WPhase.idle] at hidle
  · apply due_of_sub hi.due
    intro x hx
    simp only [A.entries, WPhase.entries, List.mem_append, List.mem_singleton] at hx ⊢
    rcases hx with hx | hx
    · exact Or.inr (by rw [hx, ht.1])
    · exact Or.inl (Or.inr hx)
  · intro j hj
    exact hi.its j (by rw [hit]; exact List.mem_cons_of_mem _ hj)
  · have := hi.ghost
    simp only [pred, h, hit, A.waiting, List.map_cons, List.cons_append] at this ⊢
    rw [List.append_assoc, List.singleton_append]
    exact this
  · simp [A.mu, h, hit, WPhase.mu] <;> omega

end WireK
