import OnlVerif.Lemmas.Fifo
/-!
# The transitions of a FifoServer, as an inductive relation

`step_trans` turns an accepted `Fifo.step` into one explicit case; invariants of concrete devices are then
proved by `cases` on `Trans` instead of unfolding `step` again.
-/

namespace Fifo
variable {δ : Type}

inductive Trans (d : Dev ℚ δ) : FState ℚ δ → FAct ℚ → FState ℚ δ → FOut ℚ → Prop
  | init (s) : s.started = false → Trans d s .init (issueGet { s with started := true }) .nothing
  | putAcc (s p) : (d.admitPkt s.dev s.now s.items.length p).2.1 = true →
      Trans d s (.put p) { s with dev := (d.admitPkt s.dev s.now s.items.length p).1,
                                  items := s.items ++ [(d.admitPkt s.dev s.now s.items.length p).2.2] } .accepted
  | putDrop (s p) : (d.admitPkt s.dev s.now s.items.length p).2.1 = false →
      Trans d s (.put p) { s with dev := (d.admitPkt s.dev s.now s.items.length p).1 } .dropped
  | handoff (s p rest) : s.getPending = true → s.items = p :: rest →
      Trans d s .handoff { s with items := rest, handed := some p, getPending := false } .nothing
  | resumeEmit (s x y p) : s.handed = some p → (d.onResume s.dev s.now x y p).2.2 = .emit →
      Trans d s (.resume x y)
        (issueGet { s with handed := none, tx := none,
                           dev := d.onDone (d.onResume s.dev s.now x y p).1 (d.onResume s.dev s.now x y p).2.1 })
        (.depart (d.onResume s.dev s.now x y p).2.1)
  | resumeLose (s x y p) : s.handed = some p → (d.onResume s.dev s.now x y p).2.2 = .lose →
      Trans d s (.resume x y)
        (issueGet { s with handed := none, tx := none,
                           dev := d.onDone (d.onResume s.dev s.now x y p).1 (d.onResume s.dev s.now x y p).2.1 })
        (.lost (d.onResume s.dev s.now x y p).2.1)
  | resumeWait (s x y p dt) : s.handed = some p → (d.onResume s.dev s.now x y p).2.2 = .wait dt →
      Trans d s (.resume x y)
        { s with handed := none, dev := (d.onResume s.dev s.now x y p).1,
                 tx := some ((d.onResume s.dev s.now x y p).2.1, s.now + dt, 0) } .nothing
  | fireEmit (s p due k) : s.tx = some (p, due, k) → s.now = due → (d.onFire s.dev s.now k p).2.2 = .emit →
      Trans d s .fire
        (issueGet { s with tx := none, dev := d.onDone (d.onFire s.dev s.now k p).1 (d.onFire s.dev s.now k p).2.1 })
        (.depart (d.onFire s.dev s.now k p).2.1)
  | fireLose (s p due k) : s.tx = some (p, due, k) → s.now = due → (d.onFire s.dev s.now k p).2.2 = .lose →
      Trans d s .fire
        (issueGet { s with tx := none, dev := d.onDone (d.onFire s.dev s.now k p).1 (d.onFire s.dev s.now k p).2.1 })
        (.lost (d.onFire s.dev s.now k p).2.1)
  | fireWait (s p due k dt) : s.tx = some (p, due, k) → s.now = due → (d.onFire s.dev s.now k p).2.2 = .wait dt →
      Trans d s .fire
        { s with dev := (d.onFire s.dev s.now k p).1, tx := some ((d.onFire s.dev s.now k p).2.1, s.now + dt, k + 1) }
        .nothing
  | tick (s t) : s.now ≤ t → s.started = true → s.handed = none → ¬ (s.getPending = true ∧ s.items ≠ []) →
      (∀ p due k, s.tx = some (p, due, k) → t ≤ due) → Trans d s (.tick t) { s with now := t } .nothing

theorem step_trans (d : Dev ℚ δ) (s s' : FState ℚ δ) (a : FAct ℚ) (o : FOut ℚ)
    (h : step d s a = .ok (s', o)) : Trans d s a s' o := by
  cases a with
  | init =>
    simp only [step] at h
    split at h
    · cases h
    · rename_i hst
      simp only [Except.ok.injEq, Prod.mk.injEq] at h
      obtain ⟨rfl, rfl⟩ := h
      exact Trans.init s (by simpa using hst)
  | put p =>
    simp only [step] at h
    split at h
    · rename_i hc
      simp only [Except.ok.injEq, Prod.mk.injEq] at h
      obtain ⟨rfl, rfl⟩ := h
      exact Trans.putAcc s p hc
    · rename_i hc
      simp only [Except.ok.injEq, Prod.mk.injEq] at h
      obtain ⟨rfl, rfl⟩ := h
      exact Trans.putDrop s p (by simpa using hc)
  | handoff =>
    simp only [step] at h
    split at h
    · rename_i hg
      split at h
      · rename_i p rest hi
        simp only [Except.ok.injEq, Prod.mk.injEq] at h
        obtain ⟨rfl, rfl⟩ := h
        exact Trans.handoff s p rest hg hi
      · cases h
    · cases h
  | resume x y =>
    simp only [step] at h
    split at h
    · cases h
    · rename_i p hp
      unfold proceed at h
      split at h
      · rename_i hn
        simp only [Except.ok.injEq, Prod.mk.injEq] at h
        obtain ⟨rfl, rfl⟩ := h
        exact Trans.resumeEmit s x y p hp hn
      · rename_i hn
        simp only [Except.ok.injEq, Prod.mk.injEq] at h
        obtain ⟨rfl, rfl⟩ := h
        exact Trans.resumeLose s x y p hp hn
      · rename_i dt hn
        simp only [Except.ok.injEq, Prod.mk.injEq] at h
        obtain ⟨rfl, rfl⟩ := h
        exact Trans.resumeWait s x y p dt hp hn
      · cases h
  | fire =>
    simp only [step] at h
    split at h
    · cases h
    · rename_i p due k htx
      split at h
      · cases h
      · rename_i h1
        split at h
        · cases h
        · rename_i h2
          have hnow : s.now = due := le_antisymm (not_lt.mp h2) (not_lt.mp h1)
          unfold proceed at h
          split at h
          · rename_i hn
            simp only [Except.ok.injEq, Prod.mk.injEq] at h
            obtain ⟨rfl, rfl⟩ := h
            exact Trans.fireEmit s p due k htx hnow hn
          · rename_i hn
            simp only [Except.ok.injEq, Prod.mk.injEq] at h
            obtain ⟨rfl, rfl⟩ := h
            exact Trans.fireLose s p due k htx hnow hn
          · rename_i dt hn
            simp only [Except.ok.injEq, Prod.mk.injEq] at h
            obtain ⟨rfl, rfl⟩ := h
            exact Trans.fireWait s p due k dt htx hnow hn
          · cases h
  | tick t =>
    have hx := (tick_ok_iff d s t).mp ⟨s', o, h⟩
    obtain ⟨h1, h2, h3, h4, h5⟩ := hx
    have : step d s (.tick t) = .ok ({ s with now := t }, .nothing) := by
      simp only [step]
      rw [if_neg (not_lt.mpr h1)]
      simp only [h2, h3, Bool.not_true, Bool.false_eq_true, if_false, Option.isSome_none]
      have hn : ¬ ((s.getPending && !s.items.isEmpty) = true) := by
        intro hc
        simp only [Bool.and_eq_true, Bool.not_eq_true', List.isEmpty_eq_false_iff] at hc
        exact h4 ⟨hc.1, hc.2⟩
      rw [if_neg hn]
      cases htx : s.tx with
      | none => rfl
      | some x =>
        obtain ⟨p, due, k⟩ := x
        simp only
        rw [if_neg (not_lt.mpr (h5 p due k htx))]
    rw [this] at h
    simp only [Except.ok.injEq, Prod.mk.injEq] at h
    obtain ⟨rfl, rfl⟩ := h
    exact Trans.tick s t h1 h2 h3 h4 h5

end Fifo
