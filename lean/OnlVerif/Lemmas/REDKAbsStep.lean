import OnlVerif.Lemmas.REDKAbs
import OnlVerif.Lemmas.PortKAbsStep
import Mathlib.Tactic.Ring
/-!
# Generator → REDPort → sink on the kernel model: every configuration step is sound

For each constructor of `AStep`: the abstract invariant is kept (with the views appended), the step budget drops by one,
and the RED LTS accepts the corresponding actions (`init`, `put`, `handoff`, `resume`, `fire`, or nothing).
All statements are at the instant of the processed entry (`AInv.advance` / `lts_advance` bring the clock there).
-/

set_option linter.unusedSimpArgs false

namespace REDK
open REDOnK QEntry

variable {c : Cfg ℚ} {sizes0 : List Nat} {gaps0 : List ℚ}
variable {a : A} {vs : List (View ℚ)} {q : QEntry ℚ}

/-! ## views -/

@[simp] theorem gensV_append (l1 l2 : List (View ℚ)) : gensV (l1 ++ l2) = gensV l1 ++ gensV l2 := by simp [gensV]
@[simp] theorem usV_append (l1 l2 : List (View ℚ)) : usV (l1 ++ l2) = usV l1 ++ usV l2 := by simp [usV]
@[simp] theorem outsV_append (l1 l2 : List (View ℚ)) : outsV (l1 ++ l2) = outsV l1 ++ outsV l2 := by simp [outsV]
@[simp] theorem sinksV_append (l1 l2 : List (View ℚ)) : sinksV (l1 ++ l2) = sinksV l1 ++ sinksV l2 := by simp [sinksV]
@[simp] theorem gensV_nil : gensV ([] : List (View ℚ)) = [] := rfl
@[simp] theorem usV_nil : usV ([] : List (View ℚ)) = [] := rfl
@[simp] theorem outsV_nil : outsV ([] : List (View ℚ)) = [] := rfl
@[simp] theorem sinksV_nil : sinksV ([] : List (View ℚ)) = [] := rfl
@[simp] theorem gensV_dep (i : Int) (t : ℚ) : gensV [View.out i t, View.sink i t] = [] := rfl
@[simp] theorem usV_dep (i : Int) (t : ℚ) : usV [View.out i t, View.sink i t] = [] := rfl
@[simp] theorem outsV_dep (i : Int) (t : ℚ) : outsV [View.out i t, View.sink i t] = [(i, t)] := rfl
@[simp] theorem sinksV_dep (i : Int) (t : ℚ) : sinksV [View.out i t, View.sink i t] = [(i, t)] := rfl
@[simp] theorem gensV_arr (i : Int) (t x : ℚ) : gensV [View.gen i t, View.u x] = [(i, t)] := rfl
@[simp] theorem usV_arr (i : Int) (t x : ℚ) : usV [View.gen i t, View.u x] = [x] := rfl
@[simp] theorem outsV_arr (i : Int) (t x : ℚ) : outsV [View.gen i t, View.u x] = [] := rfl
@[simp] theorem sinksV_arr (i : Int) (t x : ℚ) : sinksV [View.gen i t, View.u x] = [] := rfl

/-- what a sound configuration step delivers -/
def StepOK (c : Cfg ℚ) (sizes0 : List Nat) (gaps0 : List ℚ) (a : A) (q : QEntry ℚ) (vs : List (View ℚ))
    (a' : A) (new : List (View ℚ)) : Prop :=
  AInv c sizes0 gaps0 a' q.time (vs ++ new) ∧ a'.mu + 1 ≤ a.mu ∧
  ∃ acts insI, a'.accIds = a.accIds ++ insI ∧
    Fifo.runActs (Port.dev (cfg c)) (toF c sizes0 a q.time (usV vs)) acts =
      .ok (toF c sizes0 a' q.time (usV (vs ++ new)), insI.map Int.toNat, (outsV new).map (·.1.toNat))

/-- entries of the old configuration without the port's / source's / pending one stay entries -/
theorem due_of_sub {a a' : A} {t : ℚ} (hd : ∀ x ∈ a.entries, t ≤ x.time)
    (hsub : ∀ x ∈ a'.entries, x ∈ a.entries ∨ t ≤ x.time) : ∀ x ∈ a'.entries, t ≤ x.time := by
  intro x hx
  rcases hsub x hx with h | h
  · exact hd x h
  · exact h

theorem stepOK_portInit (hi : AInv c sizes0 gaps0 a q.time vs) (g : EvId) (h : a.port = .init q) :
    StepOK c sizes0 gaps0 a q vs { a with port := .W g, len := a.len - 1 } [] := by
  have hp := hi.port
  rw [h] at hp
  obtain ⟨-, -, hit, hpe⟩ := hp
  refine ⟨⟨trivial, hi.src, hi.pend, ?_, ?_, ?_, ?_, by simpa using hi.ulen, by simpa using hi.gen, by simpa using hi.sink,
    hi.nacc⟩, ?_, [.init], [], by simp, ?_⟩
  · intro _ hne; exact absurd hit hne
  · intro x hx
    apply hi.due
    simp only [A.entries, PPhase.entries, List.nil_append] at hx
    simp [A.entries, hx]
  · have := hi.len
    simp only [h, PPhase.isW] at this
    simp [PPhase.isW, this, hit]
  · intro id hid
    apply hi.held
    simpa [PPhase.inHand, h] using hid
  · simp [A.mu, h, PPhase.mu]; omega
  · simp [Fifo.runActs, Fifo.step, toF, h, hit, Fifo.issueGet, Fifo.entered, Fifo.left, outsV]

theorem stepOK_srcEnd (hi : AInv c sizes0 gaps0 a q.time vs) (h : a.src = .ending q) :
    StepOK c sizes0 gaps0 a q vs { a with src := .done } [] := by
  have hg := hi.gen
  refine ⟨⟨hi.port, trivial, hi.pend, hi.idle, ?_, hi.len, hi.held, by simpa using hi.ulen, ?_, by simpa using hi.sink,
    hi.nacc⟩, ?_, [], [], by simp, ?_⟩
  · intro x hx
    apply hi.due
    simp only [A.entries, SPhase.entries, List.nil_append] at hx
    simp only [A.entries, List.mem_append]
    rcases List.mem_append.mp hx with hx | hx
    · exact Or.inl hx
    · exact Or.inr (Or.inr hx)
  · rw [h] at hg
    refine ⟨by simpa [SPhase.pred] using hg.law, ?_, ?_, by simp [SPhase.todo], by simpa using hg.ngen⟩
    · intro n hn; cases hn
    · intro n l hn; cases hn
  · simp [A.mu, h, SPhase.mu]; omega
  · simp [Fifo.runActs, toF, outsV]

theorem stepOK_srcInit (hi : AInv c sizes0 gaps0 a q.time vs) (q' : QEntry ℚ) (gaps : List ℚ) (sizes : List Nat) (us : List ℚ)
    (h : a.src = .init q gaps sizes us) (ht : q'.time = q.time + c.initialDelay) (hp : q'.prio = NORMAL) :
    StepOK c sizes0 gaps0 a q vs { a with src := .delay q' gaps sizes us } [] := by
  have hs := hi.src
  rw [h] at hs
  obtain ⟨-, hq0, -, hg, hd, hpe⟩ := hs
  have hgi := hi.gen
  rw [h] at hgi
  refine ⟨⟨hi.port, ⟨hp, hg, hpe⟩, hi.pend, hi.idle, ?_, hi.len, hi.held, by simpa using hi.ulen, ?_, by simpa using hi.sink,
    hi.nacc⟩, ?_, [], [], by simp, ?_⟩
  · apply due_of_sub hi.due
    intro x hx
    simp only [A.entries, SPhase.entries, List.mem_append, List.mem_singleton] at hx ⊢
    rcases hx with hx | hx | hx
    · exact Or.inl (Or.inl hx)
    · exact Or.inr (by rw [hx, ht]; linarith)
    · exact Or.inl (Or.inr (Or.inr hx))
  · refine ⟨?_, by simpa [SPhase.sent] using hgi.sent, by simpa [SPhase.sent, SPhase.sizesLeft] using hgi.sizes,
      by simpa [SPhase.todo] using hgi.draws, by simpa using hgi.ngen⟩
    have := hgi.law
    simp only [SPhase.pred, ht, hq0, List.append_nil] at this ⊢
    exact this
  · simp [A.mu, h, SPhase.mu]; omega
  · simp [Fifo.runActs, toF, outsV]

/-- the loop head stops: nothing more is emitted -/
theorem emit_genNext_none {t : ℚ} {gaps : List ℚ} {sizes : List Nat} (k : Nat) (h : genNext c t gaps sizes = none) :
    Gen.emit c.finish t k (gaps.zip sizes) = [] := by
  unfold genNext at h
  cases gaps with
  | nil => simp [Gen.emit]
  | cons g gs =>
    cases sizes with
    | nil => simp [Gen.emit]
    | cons z zs =>
      cases hr : Gen.running c.finish t with
      | false => simp [Gen.emit, hr]
      | true => simp [hr] at h

/-- the loop head goes on: the next packet -/
theorem emit_genNext_some {t : ℚ} {gaps : List ℚ} {sizes : List Nat} (k : Nat) {gap : ℚ} {z : Nat} {gaps' : List ℚ}
    {sizes' : List Nat} (h : genNext c t gaps sizes = some (gap, z, gaps', sizes')) :
    gaps = gap :: gaps' ∧ sizes = z :: sizes' ∧
    Gen.emit c.finish t k (gaps.zip sizes) =
      { id := k + 1, time := t + gap, size := z } :: Gen.emit c.finish (t + gap) (k + 1) (gaps'.zip sizes') := by
  unfold genNext at h
  cases gaps with
  | nil => cases hr : Gen.running c.finish t <;> simp [hr] at h
  | cons g gs =>
    cases sizes with
    | nil => cases hr : Gen.running c.finish t <;> simp [hr] at h
    | cons z0 zs =>
      cases hr : Gen.running c.finish t with
      | false => simp [hr] at h
      | true =>
        simp only [hr, if_true, Option.some.injEq, Prod.mk.injEq] at h
        obtain ⟨rfl, rfl, rfl, rfl⟩ := h
        simp [Gen.emit, hr]

theorem stepOK_srcDelayEnd (hi : AInv c sizes0 gaps0 a q.time vs) (q' : QEntry ℚ) (gaps : List ℚ) (sizes : List Nat)
    (us : List ℚ) (h : a.src = .delay q gaps sizes us) (hn : genNext c q.time gaps sizes = none)
    (ht : q'.time = q.time ∧ q'.prio = NORMAL) :
    StepOK c sizes0 gaps0 a q vs { a with src := .ending q' } [] := by
  have hgi := hi.gen
  rw [h] at hgi
  refine ⟨⟨hi.port, ht, hi.pend, hi.idle, ?_, hi.len, hi.held, by simpa using hi.ulen, ?_, by simpa using hi.sink,
    hi.nacc⟩, ?_, [], [], by simp, ?_⟩
  · apply due_of_sub hi.due
    intro x hx
    simp only [A.entries, SPhase.entries, List.mem_append, List.mem_singleton] at hx ⊢
    rcases hx with hx | hx | hx
    · exact Or.inl (Or.inl hx)
    · exact Or.inr (by rw [hx, ht.1])
    · exact Or.inl (Or.inr (Or.inr hx))
  · refine ⟨?_, ?_, ?_, by simp [SPhase.todo], by simpa using hgi.ngen⟩
    · have := hgi.law
      simpa [SPhase.pred, emit_genNext_none 0 hn] using this
    · intro n hn; cases hn
    · intro n l hn; cases hn
  · simp [A.mu, h, SPhase.mu]; omega
  · simp [Fifo.runActs, toF, outsV]

theorem stepOK_srcDelayWait (hi : AInv c sizes0 gaps0 a q.time vs) (q' : QEntry ℚ) (gaps : List ℚ) (sizes : List Nat)
    (us : List ℚ) (gap : ℚ) (z : Nat) (gaps' : List ℚ) (sizes' : List Nat)
    (h : a.src = .delay q gaps sizes us) (hn : genNext c q.time gaps sizes = some (gap, z, gaps', sizes'))
    (ht : q'.time = q.time + gap ∧ q'.prio = NORMAL) :
    StepOK c sizes0 gaps0 a q vs { a with src := .wait 0 z gaps' sizes' us q' } [] := by
  have hs := hi.src
  rw [h] at hs
  obtain ⟨-, hg, hpe⟩ := hs
  have hgi := hi.gen
  rw [h] at hgi
  obtain ⟨rfl, rfl, hem⟩ := emit_genNext_some (c := c) 0 hn
  have hgap : 0 ≤ gap := hg gap (by simp)
  refine ⟨⟨hi.port, ⟨ht.2, fun x hx => hg x (List.mem_cons_of_mem _ hx), ?_⟩, hi.pend, hi.idle, ?_, hi.len, hi.held,
    by simpa using hi.ulen, ?_, by simpa using hi.sink, hi.nacc⟩, ?_, [], [], by simp, ?_⟩
  · intro u hu; simp only at hu; rw [hpe] at hu; cases hu
  · apply due_of_sub hi.due
    intro x hx
    simp only [A.entries, SPhase.entries, List.mem_append, List.mem_singleton] at hx ⊢
    rcases hx with hx | hx | hx
    · exact Or.inl (Or.inl hx)
    · exact Or.inr (by rw [hx, ht.1]; linarith)
    · exact Or.inl (Or.inr (Or.inr hx))
  · refine ⟨?_, by simpa [SPhase.sent] using hgi.sent, by simpa [SPhase.sent, SPhase.sizesLeft] using hgi.sizes,
      by simpa [SPhase.todo] using hgi.draws, by simpa using hgi.ngen⟩
    have := hgi.law
    simp only [SPhase.pred] at this ⊢
    rw [hem] at this
    simpa [ht.1] using this
  · simp [A.mu, h, SPhase.mu]; omega
  · simp [Fifo.runActs, toF, outsV]

theorem stepOK_putIdle (hi : AInv c sizes0 gaps0 a q.time vs) (h : a.pend = some q)
    (hw : a.port.getQ = [] ∨ a.items = []) :
    StepOK c sizes0 gaps0 a q vs { a with pend := none } [] := by
  have hp := hi.port
  have hs := hi.src
  refine ⟨⟨?_, ?_, ?_, ?_, ?_, hi.len, hi.held, by simpa using hi.ulen, by simpa using hi.gen, by simpa using hi.sink,
    hi.nacc⟩, ?_, [], [], by simp, ?_⟩
  · cases hport : a.port with
    | init q0 => rw [hport] at hp; rw [hp.2.2.2] at h; cases h
    | W g => trivial
    | H g id q0 => rw [hport] at hp; exact hp
    | T t id q0 => rw [hport] at hp; exact hp
  · cases hsrc : a.src with
    | init q0 g z u => rw [hsrc] at hs; rw [hs.2.2.2.2.2] at h; cases h
    | delay q0 g z u => rw [hsrc] at hs; rw [hs.2.2] at h; cases h
    | wait n z g zs u q0 => rw [hsrc] at hs; exact ⟨hs.1, hs.2.1, fun u hu => by cases hu⟩
    | ending q0 => rw [hsrc] at hs; exact hs
    | done => trivial
  · intro u hu; cases hu
  · intro hidle hne
    exfalso
    cases hport : a.port with
    | init q0 => rw [hport] at hp; exact hne hp.2.2.1
    | W g => rcases hw with hw | hw
             · simp [hport, PPhase.getQ] at hw
             · exact hne hw
    | H g id q0 => simp [hport, PPhase.idle] at hidle
    | T t id q0 => simp [hport, PPhase.idle] at hidle
  · apply due_of_sub hi.due
    intro x hx
    simp only [A.entries, Option.toList, List.mem_append] at hx ⊢
    rcases hx with hx | hx | hx
    · exact Or.inl (Or.inl hx)
    · exact Or.inl (Or.inr (Or.inl hx))
    · cases hx
  · simp [A.mu, h]; omega
  · simp [Fifo.runActs, toF, outsV]

theorem stepOK_putHand (hi : AInv c sizes0 gaps0 a q.time vs) (q' : QEntry ℚ) (g : EvId) (i : Int) (is : List Int)
    (h : a.pend = some q) (hw : a.port = .W g) (hit : a.items = i :: is) (ht : q'.time = q.time ∧ q'.prio = NORMAL) :
    StepOK c sizes0 gaps0 a q vs { a with pend := none, port := .H g i q', items := is } [] := by
  have hs := hi.src
  refine ⟨⟨ht, ?_, ?_, ?_, ?_, ?_, ?_, by simpa using hi.ulen, by simpa using hi.gen, by simpa using hi.sink,
    hi.nacc⟩, ?_, [.handoff], [], by simp, ?_⟩
  · cases hsrc : a.src with
    | init q0 g z u => rw [hsrc] at hs; rw [hs.2.2.2.2.2] at h; cases h
    | delay q0 g z u => rw [hsrc] at hs; rw [hs.2.2] at h; cases h
    | wait n z g zs u q0 => rw [hsrc] at hs; exact ⟨hs.1, hs.2.1, fun u hu => by cases hu⟩
    | ending q0 => rw [hsrc] at hs; exact hs
    | done => trivial
  · intro u hu; cases hu
  · intro hidle; simp [PPhase.idle] at hidle
  · apply due_of_sub hi.due
    intro x hx
    simp only [A.entries, PPhase.entries, Option.toList, List.mem_append, List.mem_singleton] at hx ⊢
    rcases hx with hx | hx | hx
    · exact Or.inr (by rw [hx, ht.1])
    · exact Or.inl (Or.inr (Or.inl hx))
    · cases hx
  · have := hi.len
    simp only [hw, hit, PPhase.isW, List.length_cons] at this
    simp only [PPhase.isW]
    rw [this]; push_cast; simp
  · intro id hid
    apply hi.held
    simp only [PPhase.inHand, hw, hit, List.nil_append, List.singleton_append] at hid ⊢
    exact hid
  · simp [A.mu, h, hw, hit, PPhase.mu]; omega
  · simp [Fifo.runActs, Fifo.step, toF, hw, hit, Fifo.entered, Fifo.left, outsV]


theorem stepOK_serveTx (hr : 0 < c.rate) (hi : AInv c sizes0 gaps0 a q.time vs) (q' : QEntry ℚ) (g t : EvId) (id : Int)
    (h : a.port = .H g id q) (ht : q'.time = q.time + txTime sizes0 c.rate id ∧ q'.prio = NORMAL) :
    StepOK c sizes0 gaps0 a q vs { a with port := .T t id q', busy := true, bsz := szOf sizes0 id } [] := by
  have htx : 0 ≤ txTime sizes0 c.rate id := by
    unfold txTime; rw [Num.ofNat_rat]; exact div_nonneg (Nat.cast_nonneg _) (le_of_lt hr)
  refine ⟨⟨ht.2, hi.src, hi.pend, ?_, ?_, ?_, ?_, by simpa using hi.ulen, by simpa using hi.gen, by simpa using hi.sink,
    hi.nacc⟩, ?_, [.resume 0 0], [], by simp, ?_⟩
  · intro hidle; simp [PPhase.idle] at hidle
  · apply due_of_sub hi.due
    intro x hx
    simp only [A.entries, PPhase.entries, List.mem_append, List.mem_singleton] at hx ⊢
    rcases hx with hx | hx
    · refine Or.inr ?_
      rw [hx, ht.1]
      linarith
    · exact Or.inl (Or.inr hx)
  · have := hi.len
    simpa [h, PPhase.isW] using this
  · intro x hx
    apply hi.held
    simpa [h, PPhase.inHand] using hx
  · simp [A.mu, h, PPhase.mu]; omega
  · have hz : (Num.zero : ℚ) < c.rate := by rw [zero_eq']; exact hr
    simp [Fifo.runActs, Fifo.step, toF, h, Port.dev, Port.onResume, cfg, hz, Fifo.proceed, Port.txTime, pktOf, txTime, ht.1,
      Fifo.entered, Fifo.left, outsV]

/-- the sink's books after one more departure -/
theorem SinkInv.depart {scnt sbytes : Nat} {outs sinks : List (Int × ℚ)} (h : SinkInv sizes0 scnt sbytes outs sinks)
    (id : Int) (t : ℚ) :
    SinkInv sizes0 (scnt + 1) (sbytes + szOf sizes0 id) (outs ++ [(id, t)]) (sinks ++ [(id, t)]) := by
  refine ⟨by rw [h.same], by simp [h.cnt], by simp [h.bytes]⟩

theorem stepOK_fireIdle (hi : AInv c sizes0 gaps0 a q.time vs) (t g : EvId) (id : Int)
    (h : a.port = .T t id q) (hit : a.items = []) :
    StepOK c sizes0 gaps0 a q vs
      { a with port := .W g, bytes := a.bytes - (szOf sizes0 id : Int), busy := false, bsz := 0, len := a.len - 1, scnt := a.scnt + 1, sbytes := a.sbytes + szOf sizes0 id }
      [.out id q.time, .sink id q.time] := by
  refine ⟨⟨trivial, hi.src, hi.pend, ?_, ?_, ?_, ?_, by simpa using hi.ulen, by simpa using hi.gen,
    by simpa using hi.sink.depart id q.time, hi.nacc⟩, ?_, [.fire], [], by simp, ?_⟩
  · intro _ hne; exact absurd hit hne
  · apply due_of_sub hi.due
    intro x hx
    simp only [A.entries, PPhase.entries, List.nil_append] at hx
    exact Or.inl (by simp [A.entries, hx])
  · have := hi.len
    simp only [h, hit, PPhase.isW] at this
    simp [PPhase.isW, this, hit]
  · intro x hx
    simp [PPhase.inHand, hit] at hx
  · simp [A.mu, h, PPhase.mu]; omega
  · simp [Fifo.runActs, Fifo.step, toF, h, hit, Port.dev, Port.onFire, Port.onDone, Fifo.proceed, Fifo.issueGet, pktOf,
      Fifo.entered, Fifo.left]

theorem stepOK_fireNext (hi : AInv c sizes0 gaps0 a q.time vs) (q' : QEntry ℚ) (t g : EvId) (id i : Int)
    (is : List Int) (h : a.port = .T t id q) (hit : a.items = i :: is) (ht : q'.time = q.time ∧ q'.prio = NORMAL) :
    StepOK c sizes0 gaps0 a q vs
      { a with port := .H g i q', items := is, bytes := a.bytes - (szOf sizes0 id : Int), busy := false, bsz := 0, len := a.len - 1, scnt := a.scnt + 1, sbytes := a.sbytes + szOf sizes0 id }
      [.out id q.time, .sink id q.time] := by
  refine ⟨⟨ht, hi.src, hi.pend, ?_, ?_, ?_, ?_, by simpa using hi.ulen, by simpa using hi.gen,
    by simpa using hi.sink.depart id q.time, hi.nacc⟩, ?_, [.fire], [], by simp, ?_⟩
  · intro hidle; simp [PPhase.idle] at hidle
  · apply due_of_sub hi.due
    intro x hx
    simp only [A.entries, PPhase.entries, List.mem_append, List.mem_singleton] at hx ⊢
    rcases hx with hx | hx
    · exact Or.inr (by rw [hx, ht.1])
    · exact Or.inl (Or.inr hx)
  · have := hi.len
    simp only [h, hit, PPhase.isW, List.length_cons] at this
    simp only [PPhase.isW]
    rw [this]; push_cast; simp
  · intro x hx
    apply hi.held
    simp only [PPhase.inHand, h, hit, List.singleton_append, List.mem_cons] at hx ⊢
    exact Or.inr hx
  · simp [A.mu, h, hit, PPhase.mu]; omega
  · simp [Fifo.runActs, Fifo.step, toF, h, hit, Port.dev, Port.onFire, Port.onDone, Fifo.proceed, Fifo.issueGet, pktOf,
      Fifo.entered, Fifo.left]

theorem stepOK_serveNowIdle (hi : AInv c sizes0 gaps0 a q.time vs) (g g' : EvId) (id : Int)
    (h : a.port = .H g id q) (hr : ¬ 0 < c.rate) (hit : a.items = []) :
    StepOK c sizes0 gaps0 a q vs
      { a with port := .W g', bytes := a.bytes - (szOf sizes0 id : Int), busy := false, bsz := 0, len := a.len - 1, scnt := a.scnt + 1, sbytes := a.sbytes + szOf sizes0 id }
      [.out id q.time, .sink id q.time] := by
  refine ⟨⟨trivial, hi.src, hi.pend, ?_, ?_, ?_, ?_, by simpa using hi.ulen, by simpa using hi.gen,
    by simpa using hi.sink.depart id q.time, hi.nacc⟩, ?_, [.resume 0 0], [], by simp, ?_⟩
  · intro _ hne; exact absurd hit hne
  · apply due_of_sub hi.due
    intro x hx
    simp only [A.entries, PPhase.entries, List.nil_append] at hx
    exact Or.inl (by simp [A.entries, hx])
  · have := hi.len
    simp only [h, hit, PPhase.isW] at this
    simp [PPhase.isW, this, hit]
  · intro x hx
    simp [PPhase.inHand, hit] at hx
  · simp [A.mu, h, PPhase.mu]; omega
  · have hz : ¬ (Num.zero : ℚ) < c.rate := by rw [zero_eq']; exact hr
    simp [Fifo.runActs, Fifo.step, toF, h, hit, Port.dev, Port.onResume, Port.onDone, cfg, hz, Fifo.proceed, Fifo.issueGet,
      pktOf, Fifo.entered, Fifo.left]

theorem stepOK_serveNowNext (hi : AInv c sizes0 gaps0 a q.time vs) (q' : QEntry ℚ) (g g' : EvId) (id i : Int)
    (is : List Int) (h : a.port = .H g id q) (hr : ¬ 0 < c.rate) (hit : a.items = i :: is)
    (ht : q'.time = q.time ∧ q'.prio = NORMAL) :
    StepOK c sizes0 gaps0 a q vs
      { a with port := .H g' i q', items := is, bytes := a.bytes - (szOf sizes0 id : Int), busy := false, bsz := 0, len := a.len - 1, scnt := a.scnt + 1, sbytes := a.sbytes + szOf sizes0 id }
      [.out id q.time, .sink id q.time] := by
  refine ⟨⟨ht, hi.src, hi.pend, ?_, ?_, ?_, ?_, by simpa using hi.ulen, by simpa using hi.gen,
    by simpa using hi.sink.depart id q.time, hi.nacc⟩, ?_, [.resume 0 0], [], by simp, ?_⟩
  · intro hidle; simp [PPhase.idle] at hidle
  · apply due_of_sub hi.due
    intro x hx
    simp only [A.entries, PPhase.entries, List.mem_append, List.mem_singleton] at hx ⊢
    rcases hx with hx | hx
    · exact Or.inr (by rw [hx, ht.1])
    · exact Or.inl (Or.inr hx)
  · have := hi.len
    simp only [h, hit, PPhase.isW, List.length_cons] at this
    simp only [PPhase.isW]
    rw [this]; push_cast; simp
  · intro x hx
    apply hi.held
    simp only [PPhase.inHand, h, hit, List.singleton_append, List.mem_cons] at hx ⊢
    exact Or.inr hx
  · simp [A.mu, h, hit, PPhase.mu]; omega
  · have hz : ¬ (Num.zero : ℚ) < c.rate := by rw [zero_eq']; exact hr
    simp [Fifo.runActs, Fifo.step, toF, h, hit, Port.dev, Port.onResume, Port.onDone, cfg, hz, Fifo.proceed, Fifo.issueGet,
      pktOf, Fifo.entered, Fifo.left]


/-! ## arrivals -/

/-- the packets the port holds keep their draw when the log grows -/
theorem pk_ext (ulog : List ℚ) (x : ℚ) (id : Int) (h1 : 1 ≤ id) (h2 : id ≤ (ulog.length : Int)) :
    pk c sizes0 (ulog ++ [x]) id = pk c sizes0 ulog id := by
  have hlt : id.toNat - 1 < ulog.length := by omega
  simp [pk, pktOf, List.getD_eq_getElem?_getD, List.getElem?_append_left hlt]

/-- the draw of the packet that arrives now is the one just logged -/
theorem pk_new (ulog : List ℚ) (x : ℚ) (n : Nat) (h : ulog.length = n) :
    (pk c sizes0 (ulog ++ [x]) ((n : Int) + 1)).draw = x := by
  have : ((n : Int) + 1).toNat - 1 = ulog.length := by omega
  subst h
  simp [pk, pktOf, this, List.getD_eq_getElem?_getD]

theorem szOf_succ (n z : Nat) (zs : List Nat) (h : sizes0.drop n = z :: zs) : szOf sizes0 ((n : Int) + 1) = z := by
  have h1 : ((n : Int) + 1).toNat - 1 = n := by omega
  unfold szOf
  rw [h1, List.getD_eq_getElem?_getD]
  have : sizes0[n]? = (sizes0.drop n)[0]? := by simp
  rw [this, h]; rfl

theorem drop_succ_of (n z : Nat) (zs : List Nat) (h : sizes0.drop n = z :: zs) : sizes0.drop (n + 1) = zs := by
  have : sizes0.drop (n + 1) = (sizes0.drop n).drop 1 := by rw [List.drop_drop]
  rw [this, h]; rfl

/-- the generator's books after packet `n + 1` has been created at `q.time` and the loop head has decided -/
theorem GenInv.next {n z : Nat} {gaps : List ℚ} {sizes : List Nat} {us us' : List ℚ} {recv : Nat} {gens : List (Int × ℚ)}
    (h : GenInv c sizes0 gaps0 (.wait n z gaps sizes us q) recv gens) (S' : SPhase)
    (hS : (genNext c q.time gaps sizes = none ∧ ∃ q', S' = .ending q') ∨
      ∃ gap z' gaps' sizes' q', genNext c q.time gaps sizes = some (gap, z', gaps', sizes') ∧
        S' = .wait (n + 1) z' gaps' sizes' us' q' ∧ q'.time = q.time + gap)
    (hus : us.length ≤ us'.length + 1) :
    GenInv c sizes0 gaps0 S' (recv + 1) (gens ++ [((n : Int) + 1, q.time)]) := by
  have hn : n = recv := h.sent n rfl
  have hsz : sizes0.drop n = z :: sizes := h.sizes n _ rfl rfl
  have hz := szOf_succ (sizes0 := sizes0) n z sizes hsz
  have hlaw := h.law
  simp only [SPhase.pred, List.map_cons, gtrip] at hlaw
  rcases hS with ⟨hnx, q', rfl⟩ | ⟨gap, z', gaps', sizes', q', hnx, rfl, hqt⟩
  · refine ⟨?_, ?_, ?_, by simp [SPhase.todo], by simp [h.ngen]⟩
    · rw [emit_genNext_none _ hnx] at hlaw
      simp only [SPhase.pred, List.map_append, List.map_cons, List.map_nil, List.append_nil, hz]
      rw [← hlaw]
      simp
    · intro m hm; cases hm
    · intro m l hm; cases hm
  · obtain ⟨rfl, rfl, hem⟩ := emit_genNext_some (c := c) (n + 1) hnx
    refine ⟨?_, ?_, ?_, ?_, by simp [h.ngen]⟩
    · rw [hem] at hlaw
      simp only [SPhase.pred, List.map_append, List.map_cons, List.map_nil, hz, gtrip, hqt]
      rw [← hlaw]
      simp [gtrip]
    · intro m hm; simp only [SPhase.sent, Option.some.injEq] at hm; omega
    · intro m l hm hl
      simp only [SPhase.sent, SPhase.sizesLeft, Option.some.injEq] at hm hl
      subst hm hl
      exact drop_succ_of (sizes0 := sizes0) n z _ hsz
    · have := h.draws
      simp only [SPhase.todo, List.length_cons] at this ⊢
      omega

theorem usAfter_length (avg : ℚ) (us : List ℚ) : us.length ≤ (usAfter c avg us).length + 1 := by
  unfold usAfter
  split
  · simp [List.length_tail]; omega
  · omega

/-- the queue figure the program computes is the one the LTS uses -/
theorem cur_eq (hi : AInv c sizes0 gaps0 a q.time vs) (hn : a.pend = none) (d : PortSt ℚ) (hd : d.byteSize = a.bytes) :
    Port.redCur (cfg c) d a.items.length = (Num.ofNat (curOf c a) : ℚ) := by
  unfold Port.redCur curOf cfg
  cases hlb : c.limitBytes with
  | true => simp [hd]
  | false =>
    simp only [Bool.false_eq_true, if_false]
    congr 1
    have hl := hi.len
    cases hw : a.port.isW with
    | false => rw [hl, hw]; simp
    | true =>
      have hit : a.items = [] := by
        by_contra hc
        have hidle : a.port.idle = true := by
          cases hport : a.port <;> simp [hport, PPhase.isW, PPhase.idle] at hw ⊢
        have := hi.idle hidle hc
        rw [hn] at this; cases this
      rw [hl, hw, hit]; simp

theorem toF_ext (a : A) (now : ℚ) (ulog : List ℚ) (x : ℚ)
    (hh : ∀ id ∈ a.port.inHand ++ a.items, 1 ≤ id ∧ id ≤ (ulog.length : Int)) :
    toF c sizes0 a now (ulog ++ [x]) = toF c sizes0 a now ulog := by
  have hitems : a.items.map (pk c sizes0 (ulog ++ [x])) = a.items.map (pk c sizes0 ulog) := by
    apply List.map_congr_left
    intro id hid
    exact pk_ext ulog x id (hh id (by simp [hid])).1 (hh id (by simp [hid])).2
  unfold toF
  rw [hitems]
  cases hport : a.port with
  | init q0 => rfl
  | W g => rfl
  | H g id q0 =>
    have := hh id (by simp [hport, PPhase.inHand])
    simp only [pk_ext ulog x id this.1 this.2]
  | T t id q0 =>
    have := hh id (by simp [hport, PPhase.inHand])
    simp only [pk_ext ulog x id this.1 this.2]


/-- the LTS admission of the arriving packet: `admitRed` computes the program's average and decision -/
theorem admission_eq (hi : AInv c sizes0 gaps0 a q.time vs) (hn : a.pend = none) (p : Pkt ℚ) :
    Port.admitPkt (cfg c)
        { byteSize := a.bytes, received := a.recv, dropped := a.dropped, busy := a.busy, busySize := a.bsz, avg := a.avg }
        q.time a.items.length p =
      if dropQ c (avgNew c a) p.draw then
        ({ byteSize := a.bytes, received := a.recv + 1, dropped := a.dropped + 1, busy := a.busy, busySize := a.bsz,
           avg := avgNew c a }, false, p)
      else
        ({ byteSize := a.bytes + p.size, received := a.recv + 1, dropped := a.dropped, busy := a.busy, busySize := a.bsz,
           avg := avgNew c a }, true, p) := by
  have hcur := cur_eq hi hn
    { byteSize := a.bytes, received := a.recv + 1, dropped := a.dropped, busy := a.busy, busySize := a.bsz, avg := a.avg } rfl
  have hlim : Port.redLimit (cfg c) = (Num.ofNat c.qlimit : ℚ) := by simp [Port.redLimit, cfg]
  unfold Port.admitPkt
  simp only [cfg] at hcur hlim ⊢
  simp only [Port.admitRed, hcur, hlim, avgNew, dropQ]
  split <;> rename_i hh <;> simp [Port.refuse, Port.accept, hh]

/-- **an accepted arrival** (the generator then goes on to `S'`) -/
theorem stepOK_srcAcc (hi : AInv c sizes0 gaps0 a q.time vs) (hq : IsMin a q) (u : QEntry ℚ) (n z : Nat) (gaps : List ℚ)
    (sizes : List Nat) (us : List ℚ) (S' : SPhase) (h : a.src = .wait n z gaps sizes us q) (hn : a.pend = none)
    (hacc : dropQ c (avgNew c a) (uAtt c (avgNew c a) us) = false)
    (hu : u.time = q.time ∧ u.prio = NORMAL) (hS : SrcA c (some u) q.time S')
    (hdue : ∀ x ∈ S'.entries, q.time ≤ x.time)
    (hG : GenInv c sizes0 gaps0 S' (a.recv + 1) (gensV vs ++ [((n : Int) + 1, q.time)]))
    (hmu : S'.mu ≤ 4 * gaps.length + 1) :
    StepOK c sizes0 gaps0 a q vs
      { (a.arrive c S') with pend := some u, items := a.items ++ [(n : Int) + 1], bytes := a.bytes + (z : Int), len := a.len + 1, accIds := a.accIds ++ [(n : Int) + 1] }
      [.gen ((n : Int) + 1) q.time, .u (uAtt c (avgNew c a) us)] := by
  have hp := hi.port
  have hs := hi.src
  rw [h] at hs
  have hgi := hi.gen
  rw [h] at hgi
  have hnr : n = a.recv := hgi.sent n rfl
  have hsz : szOf sizes0 ((n : Int) + 1) = z := szOf_succ n z sizes (hgi.sizes n _ rfl rfl)
  have hnotinit : ∀ q0, a.port ≠ .init q0 := by
    intro q0 hport
    rw [hport] at hp
    refine hi.not_prio_lt hq (mem_port (by simp [hport, PPhase.entries])) hp.1 ?_
    rw [hp.2.1, hs.1]; decide
  have hheld : ∀ id ∈ a.port.inHand ++ a.items, 1 ≤ id ∧ id ≤ ((usV vs).length : Int) := by
    intro id hid; rw [hi.ulen]; exact hi.held id hid
  refine ⟨⟨?_, hS, ?_, ?_, ?_, ?_, ?_, ?_, ?_, ?_, ?_⟩, ?_, [.put (pk c sizes0 (usV vs ++ [uAtt c (avgNew c a) us]) ((n : Int) + 1))],
    [(n : Int) + 1], rfl, ?_⟩
  · show PortA (a.items ++ [(n : Int) + 1]) (some u) q.time a.port
    cases hport : a.port with
    | init q0 => exact absurd hport (hnotinit q0)
    | W g => trivial
    | H g i0 q0 => rw [hport] at hp; exact hp
    | T t i0 q0 => rw [hport] at hp; exact hp
  · intro u' hu'; cases hu'; exact hu
  · intro _ _; rfl
  · intro x hx
    simp only [A.entries, A.arrive, Option.toList, List.mem_append, List.mem_singleton] at hx
    rcases hx with hx | hx | hx
    · exact hi.due x (mem_port hx)
    · exact hdue x hx
    · rw [hx, hu.1]
  · show a.len + 1 = ((a.items ++ [(n : Int) + 1]).length : Int) - (if a.port.isW then 1 else 0)
    rw [hi.len]; simp; ring
  · intro id hid
    simp only [A.arrive, List.mem_append, List.mem_singleton] at hid ⊢
    rcases hid with hid | hid | hid
    · have := hi.held id (by simp [hid]); push_cast; omega
    · have := hi.held id (by simp [hid]); push_cast; omega
    · subst hid; push_cast; omega
  · simp [A.arrive, hi.ulen]
  · simpa [A.arrive] using hG
  · simpa [A.arrive] using hi.sink
  · have := hi.nacc
    simp only [A.arrive, List.length_append, List.length_singleton]
    omega
  · simp only [A.mu, A.arrive, h, hn]
    have : (SPhase.wait n z gaps sizes us q).mu = 4 * gaps.length + 5 := rfl
    simp [this]; omega
  · have hdraw := pk_new (c := c) (sizes0 := sizes0) (usV vs) (uAtt c (avgNew c a) us) n (by rw [hi.ulen, hnr])
    have hadm := admission_eq hi hn (pk c sizes0 (usV vs ++ [uAtt c (avgNew c a) us]) ((n : Int) + 1))
    rw [hdraw, hacc] at hadm
    simp only [Bool.false_eq_true, if_false] at hadm
    have hsize : (pk c sizes0 (usV vs ++ [uAtt c (avgNew c a) us]) ((n : Int) + 1)).size = z := hsz
    have hid : (pk c sizes0 (usV vs ++ [uAtt c (avgNew c a) us]) ((n : Int) + 1)).id = ((n : Int) + 1).toNat := rfl
    rw [hsize] at hadm
    have hext := toF_ext (c := c) (sizes0 := sizes0) a q.time (usV vs) (uAtt c (avgNew c a) us) hheld
    have hitems : (a.items ++ [(n : Int) + 1]).map (pk c sizes0 (usV vs ++ [uAtt c (avgNew c a) us])) =
        a.items.map (pk c sizes0 (usV vs)) ++ [pk c sizes0 (usV vs ++ [uAtt c (avgNew c a) us]) ((n : Int) + 1)] := by
      rw [List.map_append]
      congr 1
      apply List.map_congr_left
      intro id hid'
      exact pk_ext _ _ id (hheld id (by simp [hid'])).1 (hheld id (by simp [hid'])).2
    have hport_ext : ∀ id, id ∈ a.port.inHand →
        pk c sizes0 (usV vs ++ [uAtt c (avgNew c a) us]) id = pk c sizes0 (usV vs) id := by
      intro id hid'
      exact pk_ext _ _ id (hheld id (by simp [hid'])).1 (hheld id (by simp [hid'])).2
    simp only [usV_append, usV_arr, outsV_arr, List.map_nil]
    simp only [Fifo.runActs, Fifo.step, Port.dev_admit]
    have hdev : (toF c sizes0 a q.time (usV vs)).dev =
        { byteSize := a.bytes, received := a.recv, dropped := a.dropped, busy := a.busy, busySize := a.bsz, avg := a.avg } := rfl
    have hnow : (toF c sizes0 a q.time (usV vs)).now = q.time := rfl
    have hlen : (toF c sizes0 a q.time (usV vs)).items.length = a.items.length := by simp [toF]
    simp only [hdev, hnow, hlen, hadm]
    simp only [if_true, Fifo.entered, Fifo.left, hid]
    have : toF c sizes0 { (a.arrive c S') with pend := some u, items := a.items ++ [(n : Int) + 1], bytes := a.bytes + (z : Int), len := a.len + 1, accIds := a.accIds ++ [(n : Int) + 1] } q.time (usV vs ++ [uAtt c (avgNew c a) us]) =
        { (toF c sizes0 a q.time (usV vs)) with
            dev := { byteSize := a.bytes + (z : Int), received := a.recv + 1, dropped := a.dropped, busy := a.busy, busySize := a.bsz, avg := avgNew c a }
            items := (toF c sizes0 a q.time (usV vs)).items ++ [pk c sizes0 (usV vs ++ [uAtt c (avgNew c a) us]) ((n : Int) + 1)] } := by
      unfold toF
      simp only [A.arrive, hitems]
      cases hport : a.port with
      | init q0 => rfl
      | W g => rfl
      | H g id q0 => simp only [hport_ext id (by simp [hport, PPhase.inHand])]
      | T t id q0 => simp only [hport_ext id (by simp [hport, PPhase.inHand])]
    rw [this]
    simp [hnow]

/-- **a refused arrival** (the generator then goes on to `S'`) -/
theorem stepOK_srcDrop (hi : AInv c sizes0 gaps0 a q.time vs) (n z : Nat) (gaps : List ℚ)
    (sizes : List Nat) (us : List ℚ) (S' : SPhase) (h : a.src = .wait n z gaps sizes us q) (hn : a.pend = none)
    (hdrop : dropQ c (avgNew c a) (uAtt c (avgNew c a) us) = true)
    (hS : SrcA c none q.time S')
    (hdue : ∀ x ∈ S'.entries, q.time ≤ x.time)
    (hG : GenInv c sizes0 gaps0 S' (a.recv + 1) (gensV vs ++ [((n : Int) + 1, q.time)]))
    (hmu : S'.mu ≤ 4 * gaps.length + 1) :
    StepOK c sizes0 gaps0 a q vs { (a.arrive c S') with dropped := a.dropped + 1 }
      [.gen ((n : Int) + 1) q.time, .u (uAtt c (avgNew c a) us)] := by
  have hgi := hi.gen
  rw [h] at hgi
  have hnr : n = a.recv := hgi.sent n rfl
  have hheld : ∀ id ∈ a.port.inHand ++ a.items, 1 ≤ id ∧ id ≤ ((usV vs).length : Int) := by
    intro id hid; rw [hi.ulen]; exact hi.held id hid
  refine ⟨⟨hi.port, ?_, hi.pend, hi.idle, ?_, hi.len, ?_, ?_, ?_, ?_, ?_⟩, ?_,
    [.put (pk c sizes0 (usV vs ++ [uAtt c (avgNew c a) us]) ((n : Int) + 1))], [], by simp [A.arrive], ?_⟩
  · show SrcA c a.pend q.time S'
    rw [hn]; exact hS
  · intro x hx
    simp only [A.entries, A.arrive, List.mem_append] at hx
    rcases hx with hx | hx | hx
    · exact hi.due x (mem_port hx)
    · exact hdue x hx
    · exact hi.due x (by simp [A.entries, hx])
  · intro id hid
    have := hi.held id hid
    simp only [A.arrive]; push_cast; omega
  · simp [A.arrive, hi.ulen]
  · simpa [A.arrive] using hG
  · simpa [A.arrive] using hi.sink
  · have := hi.nacc
    show a.accIds.length + (a.dropped + 1) = a.recv + 1
    omega
  · simp only [A.mu, A.arrive, h, hn]
    have : (SPhase.wait n z gaps sizes us q).mu = 4 * gaps.length + 5 := rfl
    simp [this]; omega
  · have hdraw := pk_new (c := c) (sizes0 := sizes0) (usV vs) (uAtt c (avgNew c a) us) n (by rw [hi.ulen, hnr])
    have hadm := admission_eq hi hn (pk c sizes0 (usV vs ++ [uAtt c (avgNew c a) us]) ((n : Int) + 1))
    rw [hdraw, hdrop] at hadm
    simp only [if_true] at hadm
    simp only [usV_append, usV_arr, outsV_arr, List.map_nil]
    simp only [Fifo.runActs, Fifo.step, Port.dev_admit]
    have hdev : (toF c sizes0 a q.time (usV vs)).dev =
        { byteSize := a.bytes, received := a.recv, dropped := a.dropped, busy := a.busy, busySize := a.bsz, avg := a.avg } := rfl
    have hnow : (toF c sizes0 a q.time (usV vs)).now = q.time := rfl
    have hlen : (toF c sizes0 a q.time (usV vs)).items.length = a.items.length := by simp [toF]
    simp only [hdev, hnow, hlen, hadm]
    simp only [Bool.false_eq_true, if_false, Fifo.entered, Fifo.left]
    have : toF c sizes0 { (a.arrive c S') with dropped := a.dropped + 1 } q.time (usV vs ++ [uAtt c (avgNew c a) us]) =
        { (toF c sizes0 a q.time (usV vs)) with
            dev := { byteSize := a.bytes, received := a.recv + 1, dropped := a.dropped + 1, busy := a.busy, busySize := a.bsz, avg := avgNew c a } } := by
      have hext := toF_ext (c := c) (sizes0 := sizes0) { (a.arrive c S') with dropped := a.dropped + 1 } q.time (usV vs)
        (uAtt c (avgNew c a) us) hheld
      rw [hext]
      rfl
    rw [this]
    simp [hnow]


theorem wait_mu (n z : Nat) (gaps : List ℚ) (sizes : List Nat) (us : List ℚ) (q' : QEntry ℚ) :
    (SPhase.wait n z gaps sizes us q').mu = 4 * gaps.length + 5 := rfl

/-- **every configuration step is sound**: invariant kept, one unit of budget used, accepted by the LTS -/
theorem astep_sound {now : ℚ} {a' : A} {new : List (View ℚ)}
    (hi : AInv c sizes0 gaps0 a now vs) (hq : IsMin a q) (hs : AStep c sizes0 a q a' new) :
    AInv c sizes0 gaps0 a' q.time (vs ++ new) ∧ a'.mu + 1 ≤ a.mu ∧
    ∃ acts insI, a'.accIds = a.accIds ++ insI ∧
      Fifo.runActs (Port.dev (cfg c)) (toF c sizes0 a now (usV vs)) acts =
        .ok (toF c sizes0 a' q.time (usV (vs ++ new)), insI.map Int.toNat, (outsV new).map (·.1.toNat)) := by
  have hi' := hi.advance hq
  obtain ⟨acts0, h0⟩ := lts_advance (usV vs) hi hq
  have key : StepOK c sizes0 gaps0 a q vs a' new := by
    cases hs with
    | portInit g h => exact stepOK_portInit hi' g h
    | srcInit q' gaps sizes us h ht hp => exact stepOK_srcInit hi' q' gaps sizes us h ht hp
    | srcDelayEnd q' gaps sizes us h hn ht => exact stepOK_srcDelayEnd hi' q' gaps sizes us h hn ht
    | srcDelayWait q' gaps sizes us gap z gaps' sizes' h hn ht =>
      exact stepOK_srcDelayWait hi' q' gaps sizes us gap z gaps' sizes' h hn ht
    | srcAccEnd u q' n z gaps sizes us h hn hd hacc hnx hu ht =>
      have hgi := hi'.gen
      rw [h] at hgi
      refine stepOK_srcAcc hi' hq u n z gaps sizes us (.ending q') h hn hacc hu ht ?_
        (hgi.next (.ending q') (Or.inl ⟨hnx, q', rfl⟩) (le_refl _ |>.trans (Nat.le_succ _))) (by simp [SPhase.mu])
      intro x hx; simp only [SPhase.entries, List.mem_singleton] at hx; rw [hx, ht.1]
    | srcAccWait u q' n z gaps sizes us gap z' gaps' sizes' h hn hd hacc hnx hu ht ho =>
      have hgi := hi'.gen
      rw [h] at hgi
      have hs' := hi'.src
      rw [h] at hs'
      obtain ⟨hg1, hg2, _⟩ := emit_genNext_some (c := c) 0 hnx
      have hgap : 0 ≤ gap := hs'.2.1 gap (by rw [hg1]; simp)
      refine stepOK_srcAcc hi' hq u n z gaps sizes us _ h hn hacc hu
        ⟨ht.2, fun x hx => hs'.2.1 x (by rw [hg1]; exact List.mem_cons_of_mem _ hx), ?_⟩ ?_
        (hgi.next _ (Or.inr ⟨gap, z', gaps', sizes', q', hnx, rfl, ht.1⟩) (usAfter_length _ _)) ?_
      · intro u' hu'; cases hu'; exact ho
      · intro x hx; simp only [SPhase.entries, List.mem_singleton] at hx; rw [hx, ht.1]; linarith
      · rw [wait_mu, hg1]; simp; omega
    | srcDropEnd q' n z gaps sizes us h hn hd hdrop hnx ht =>
      have hgi := hi'.gen
      rw [h] at hgi
      refine stepOK_srcDrop hi' n z gaps sizes us (.ending q') h hn hdrop ht ?_
        (hgi.next (.ending q') (Or.inl ⟨hnx, q', rfl⟩) (le_refl _ |>.trans (Nat.le_succ _))) (by simp [SPhase.mu])
      intro x hx; simp only [SPhase.entries, List.mem_singleton] at hx; rw [hx, ht.1]
    | srcDropWait q' n z gaps sizes us gap z' gaps' sizes' h hn hd hdrop hnx ht =>
      have hgi := hi'.gen
      rw [h] at hgi
      have hs' := hi'.src
      rw [h] at hs'
      obtain ⟨hg1, hg2, _⟩ := emit_genNext_some (c := c) 0 hnx
      have hgap : 0 ≤ gap := hs'.2.1 gap (by rw [hg1]; simp)
      refine stepOK_srcDrop hi' n z gaps sizes us _ h hn hdrop
        ⟨ht.2, fun x hx => hs'.2.1 x (by rw [hg1]; exact List.mem_cons_of_mem _ hx), fun u hu => by cases hu⟩ ?_
        (hgi.next _ (Or.inr ⟨gap, z', gaps', sizes', q', hnx, rfl, ht.1⟩) (usAfter_length _ _)) ?_
      · intro x hx; simp only [SPhase.entries, List.mem_singleton] at hx; rw [hx, ht.1]; linarith
      · rw [wait_mu, hg1]; simp; omega
    | putIdle h hw => exact stepOK_putIdle hi' h hw
    | putHand q' g i is h hw hit ht => exact stepOK_putHand hi' q' g i is h hw hit ht
    | serveTx q' g t id h hr ht => exact stepOK_serveTx hr hi' q' g t id h ht
    | serveNowIdle g g' id h hr hit => exact stepOK_serveNowIdle hi' g g' id h hr hit
    | serveNowNext q' g g' id i is h hr hit ht => exact stepOK_serveNowNext hi' q' g g' id i is h hr hit ht
    | fireIdle t g id h hit => exact stepOK_fireIdle hi' t g id h hit
    | fireNext q' t g id i is h hit ht => exact stepOK_fireNext hi' q' t g id i is h hit ht
    | srcEnd h => exact stepOK_srcEnd hi' h
  obtain ⟨h1, h2, acts, insI, h3, h4⟩ := key
  refine ⟨h1, h2, acts0 ++ acts, insI, h3, ?_⟩
  have := PortK.runActs_append _ _ _ _ _ _ _ _ _ _ h0 h4
  simpa using this

end REDK
