import OnlVerif.Lemmas.REDKAbs
import Mathlib.Tactic.Ring
/-!
# Generator → REDPort → sink on the kernel model: every configuration step is sound

For each constructor of `AStep`: the abstract invariant is kept (with the views appended), the step budget drops by one,
and the RED LTS accepts the corresponding actions (`init`, `put`, `handoff`, `resume`, `fire`, or nothing).
All statements are at the instant of the processed entry (`AInv.advance` / `lts_advance` bring the clock there).
-/

set_option linter.unusedSimpArgs false

namespace REDK
open REDOnK QEntry

variable {c : Cfg ℚ} {sizes0 : List Nat} {gaps0 : List ℚ}
variable {a : A} {vs : List (View ℚ)} {q : QEntry ℚ}

/-! ## views -/

@[simp] theorem gensV_append (l1 l2 : List (View ℚ)) : gensV (l1 ++ l2) = gensV l1 ++ gensV l2 := by simp [gensV]
@[simp] theorem usV_append (l1 l2 : List (View ℚ)) : usV (l1 ++ l2) = usV l1 ++ usV l2 := by simp [usV]
@[simp] theorem outsV_append (l1 l2 : List (View ℚ)) : outsV (l1 ++ l2) = outsV l1 ++ outsV l2 := by simp [outsV]
@[simp] theorem sinksV_append (l1 l2 : List (View ℚ)) : sinksV (l1 ++ l2) = sinksV l1 ++ sinksV l2 := by simp [sinksV]
@[simp] theorem gensV_nil : gensV ([] : List (View ℚ)) = [] := rfl
@[simp] theorem usV_nil : usV ([] : List (View ℚ)) = [] := rfl
@[simp] theorem outsV_nil : outsV ([] : List (View ℚ)) = [] := rfl
@[simp] theorem sinksV_nil : sinksV ([] : List (View ℚ)) = [] := rfl
@[simp] theorem gensV_dep (i : Int) (t : ℚ) : gensV [View.out i t, View.sink i t] = [] := rfl
@[simp] theorem usV_dep (i : Int) (t : ℚ) : usV [View.out i t, View.sink i t] = [] := rfl
@[simp] theorem outsV_dep (i : Int) (t : ℚ) : outsV [View.out i t, View.sink i t] = [(i, t)] := rfl
@[simp] theorem sinksV_dep (i : Int) (t : ℚ) : sinksV [View.out i t, View.sink i t] = [(i, t)] := rfl
@[simp] theorem gensV_arr (i : Int) (t x : ℚ) : gensV [View.gen i t, View.u x] = [(i, t)] := rfl
@[simp] theorem usV_arr (i : Int) (t x : ℚ) : usV [View.gen i t, View.u x] = [x] := rfl
@[simp] theorem outsV_arr (i : Int) (t x : ℚ) : outsV [View.gen i t, View.u x] = [] := rfl
@[simp] theorem sinksV_arr (i : Int) (t x : ℚ) : sinksV [View.gen i t, View.u x] = [] := rfl

/-- what a sound configuration step delivers -/
def StepOK (c : Cfg ℚ) (sizes0 : List Nat) (gaps0 : List ℚ) (a : A) (q : QEntry ℚ) (vs : List (View ℚ))
    (a' : A) (new : List (View ℚ)) : Prop :=
  AInv c sizes0 gaps0 a' q.time (vs ++ new) ∧ a'.mu + 1 ≤ a.mu ∧
  ∃ acts insI, a'.accIds = a.accIds ++ insI ∧
    Fifo.runActs (Port.dev (cfg c)) (toF c sizes0 a q.time (usV vs)) acts =
      .ok (toF c sizes0 a' q.time (usV (vs ++ new)), insI.map Int.toNat, (outsV new).map (·.1.toNat))

/-- entries of the old configuration without the port's / source's / pending one stay entries -/
theorem due_of_sub {a a' : A} {t : ℚ} (hd : ∀ x ∈ a.entries, t ≤ x.time)
    (hsub : ∀ x ∈ a'.entries, x ∈ a.entries ∨ t ≤ x.time) : ∀ x ∈ a'.entries, t ≤ x.time := by
  intro x hx
  rcases hsub x hx with h | h
  · exact hd x h
  · exact h

theorem stepOK_portInit (hi : AInv c sizes0 gaps0 a q.time vs) (g : EvId) (h : a.port = .init q) :
    StepOK c sizes0 gaps0 a q vs { a with port := .W g, len := a.len - 1 } [] := by
  have hp := hi.port
  rw [h] at hp
  obtain ⟨-, -, hit, hpe⟩ := hp
  refine ⟨⟨trivial, hi.src, hi.pend, ?_, ?_, ?_, ?_, by simpa using hi.ulen, by simpa using hi.gen, by simpa using hi.sink,
    hi.nacc⟩, ?_, [.init], [], by simp, ?_⟩
  · intro _ hne; exact absurd hit hne
  · intro x hx
    apply hi.due
    simp only [A.entries, PPhase.entries, List.nil_append] at hx
    simp [A.entries, hx]
  · have := hi.len
    simp only [h, PPhase.isW] at this
    simp [PPhase.isW, this, hit]
  · intro id hid
    apply hi.held
    simpa [PPhase.inHand, h] using hid
  · simp [A.mu, h, PPhase.mu]; omega
  · simp [Fifo.runActs, Fifo.step, toF, h, hit, Fifo.issueGet, Fifo.entered, Fifo.left, outsV]

theorem stepOK_srcEnd (hi : AInv c sizes0 gaps0 a q.time vs) (h : a.src = .ending q) :
    StepOK c sizes0 gaps0 a q vs { a with src := .done } [] := by
  have hg := hi.gen
  refine ⟨⟨hi.port, trivial, hi.pend, hi.idle, ?_, hi.len, hi.held, by simpa using hi.ulen, ?_, by simpa using hi.sink,
    hi.nacc⟩, ?_, [], [], by simp, ?_⟩
  · intro x hx
    apply hi.due
    simp only [A.entries, SPhase.entries, List.nil_append] at hx
    simp only [A.entries, List.mem_append]
    rcases List.mem_append.mp hx with hx | hx
    · exact Or.inl hx
    · exact Or.inr (Or.inr hx)
  · rw [h] at hg
    refine ⟨by simpa [SPhase.pred] using hg.law, ?_, ?_, by simp [SPhase.todo], by simpa using hg.ngen⟩
    · intro n hn; cases hn
    · intro n l hn; cases hn
  · simp [A.mu, h, SPhase.mu]; omega
  · simp [Fifo.runActs, toF, outsV]

theorem stepOK_srcInit (hi : AInv c sizes0 gaps0 a q.time vs) (q' : QEntry ℚ) (gaps : List ℚ) (sizes : List Nat) (us : List ℚ)
    (h : a.src = .init q gaps sizes us) (ht : q'.time = q.time + c.initialDelay) (hp : q'.prio = NORMAL) :
    StepOK c sizes0 gaps0 a q vs { a with src := .delay q' gaps sizes us } [] := by
  have hs := hi.src
  rw [h] at hs
  obtain ⟨-, hq0, -, hg, hd, hpe⟩ := hs
  have hgi := hi.gen
  rw [h] at hgi
  refine ⟨⟨hi.port, ⟨hp, hg, hpe⟩, hi.pend, hi.idle, ?_, hi.len, hi.held, by simpa using hi.ulen, ?_, by simpa using hi.sink,
    hi.nacc⟩, ?_, [], [], by simp, ?_⟩
  · apply due_of_sub hi.due
    intro x hx
    simp only [A.entries, SPhase.entries, List.mem_append, List.mem_singleton] at hx ⊢
    rcases hx with hx | hx | hx
    · exact Or.inl (Or.inl hx)
    · exact Or.inr (by rw [hx, ht]; linarith)
    · exact Or.inl (Or.inr (Or.inr hx))
  · refine ⟨?_, by simpa [SPhase.sent] using hgi.sent, by simpa [SPhase.sent, SPhase.sizesLeft] using hgi.sizes,
      by simpa [SPhase.todo] using hgi.draws, by simpa using hgi.ngen⟩
    have := hgi.law
    simp only [SPhase.pred, ht, hq0, List.append_nil] at this ⊢
    exact this
  · simp [A.mu, h, SPhase.mu]; omega
  · simp [Fifo.runActs, toF, outsV]

/-- the loop head stops: nothing more is emitted -/
theorem emit_genNext_none {t : ℚ} {gaps : List ℚ} {sizes : List Nat} (k : Nat) (h : genNext c t gaps sizes = none) :
    Gen.emit c.finish t k (gaps.zip sizes) = [] := by
  unfold genNext at h
  cases gaps with
  | nil => simp [Gen.emit]
  | cons g gs =>
    cases sizes with
    | nil => simp [Gen.emit]
    | cons z zs =>
      cases hr : Gen.running c.finish t with
      | false => simp [Gen.emit, hr]
      | true => simp [hr] at h

/-- the loop head goes on: the next packet -/
theorem emit_genNext_some {t : ℚ} {gaps : List ℚ} {sizes : List Nat} (k : Nat) {gap : ℚ} {z : Nat} {gaps' : List ℚ}
    {sizes' : List Nat} (h : genNext c t gaps sizes = some (gap, z, gaps', sizes')) :
    gaps = gap :: gaps' ∧ sizes = z :: sizes' ∧
    Gen.emit c.finish t k (gaps.zip sizes) =
      { id := k + 1, time := t + gap, size := z } :: Gen.emit c.finish (t + gap) (k + 1) (gaps'.zip sizes') := by
  unfold genNext at h
  cases gaps with
  | nil => cases hr : Gen.running c.finish t <;> simp [hr] at h
  | cons g gs =>
    cases sizes with
    | nil => cases hr : Gen.running c.finish t <;> simp [hr] at h
    | cons z0 zs =>
      cases hr : Gen.running c.finish t with
      | false => simp [hr] at h
      | true =>
        simp only [hr, if_true, Option.some.injEq, Prod.mk.injEq] at h
        obtain ⟨rfl, rfl, rfl, rfl⟩ := h
        simp [Gen.emit, hr]

theorem stepOK_srcDelayEnd (hi : AInv c sizes0 gaps0 a q.time vs) (q' : QEntry ℚ) (gaps : List ℚ) (sizes : List Nat)
    (us : List ℚ) (h : a.src = .delay q gaps sizes us) (hn : genNext c q.time gaps sizes = none)
    (ht : q'.time = q.time ∧ q'.prio = NORMAL) :
    StepOK c sizes0 gaps0 a q vs { a with src := .ending q' } [] := by
  have hgi := hi.gen
  rw [h] at hgi
  refine ⟨⟨hi.port, ht, hi.pend, hi.idle, ?_, hi.len, hi.held, by simpa using hi.ulen, ?_, by simpa using hi.sink,
    hi.nacc⟩, ?_, [], [], by simp, ?_⟩
  · apply due_of_sub hi.due
    intro x hx
    simp only [A.entries, SPhase.entries, List.mem_append, List.mem_singleton] at hx ⊢
    rcases hx with hx | hx | hx
    · exact Or.inl (Or.inl hx)
    · exact Or.inr (by rw [hx, ht.1])
    · exact Or.inl (Or.inr (Or.inr hx))
  · refine ⟨?_, ?_, ?_, by simp [SPhase.todo], by simpa using hgi.ngen⟩
    · have := hgi.law
      simpa [SPhase.pred, emit_genNext_none 0 hn] using this
    · intro n hn; cases hn
    · intro n l hn; cases hn
  · simp [A.mu, h, SPhase.mu]; omega
  · simp [Fifo.runActs, toF, outsV]

theorem stepOK_srcDelayWait (hi : AInv c sizes0 gaps0 a q.time vs) (q' : QEntry ℚ) (gaps : List ℚ) (sizes : List Nat)
    (us : List ℚ) (gap : ℚ) (z : Nat) (gaps' : List ℚ) (sizes' : List Nat)
    (h : a.src = .delay q gaps sizes us) (hn : genNext c q.time gaps sizes = some (gap, z, gaps', sizes'))
    (ht : q'.time = q.time + gap ∧ q'.prio = NORMAL) :
    StepOK c sizes0 gaps0 a q vs { a with src := .wait 0 z gaps' sizes' us q' } [] := by
  have hs := hi.src
  rw [h] at hs
  obtain ⟨-, hg, hpe⟩ := hs
  have hgi := hi.gen
  rw [h] at hgi
  obtain ⟨rfl, rfl, hem⟩ := emit_genNext_some (c := c) 0 hn
  have hgap : 0 ≤ gap := hg gap (by simp)
  refine ⟨⟨hi.port, ⟨ht.2, fun x hx => hg x (List.mem_cons_of_mem _ hx), ?_⟩, hi.pend, hi.idle, ?_, hi.len, hi.held,
    by simpa using hi.ulen, ?_, by simpa using hi.sink, hi.nacc⟩, ?_, [], [], by simp, ?_⟩
  · intro u hu; simp only at hu; rw [hpe] at hu; cases hu
  · apply due_of_sub hi.due
    intro x hx
    simp only [A.entries, SPhase.entries, List.mem_append, List.mem_singleton] at hx ⊢
    rcases hx with hx | hx | hx
    · exact Or.inl (Or.inl hx)
    · exact Or.inr (by rw [hx, ht.1]; linarith)
    · exact Or.inl (Or.inr (Or.inr hx))
  · refine ⟨?_, by simpa [SPhase.sent] using hgi.sent, by simpa [SPhase.sent, SPhase.sizesLeft] using hgi.sizes,
      by simpa [SPhase.todo] using hgi.draws, by simpa using hgi.ngen⟩
    have := hgi.law
    simp only [SPhase.pred] at this ⊢
    rw [hem] at this
    simpa [ht.1] using this
  · simp [A.mu, h, SPhase.mu]; omega
  · simp [Fifo.runActs, toF, outsV]

theorem stepOK_putIdle (hi : AInv c sizes0 gaps0 a q.time vs) (h : a.pend = some q)
    (hw : a.port.getQ = [] ∨ a.items = []) :
    StepOK c sizes0 gaps0 a q vs { a with pend := none } [] := by
  have hp := hi.port
  have hs := hi.src
  refine ⟨⟨?_, ?_, ?_, ?_, ?_, hi.len, hi.held, by simpa using hi.ulen, by simpa using hi.gen, by simpa using hi.sink,
    hi.nacc⟩, ?_, [], [], by simp, ?_⟩
  · cases hport : a.port with
    | init q0 => rw [hport] at hp; rw [hp.2.2.2] at h; cases h
    | W g => trivial
    | H g id q0 => rw [hport] at hp; exact hp
    | T t id q0 => rw [hport] at hp; exact hp
  · cases hsrc : a.src with
    | init q0 g z u => rw [hsrc] at hs; rw [hs.2.2.2.2.2] at h; cases h
    | delay q0 g z u => rw [hsrc] at hs; rw [hs.2.2] at h; cases h
    | wait n z g zs u q0 => rw [hsrc] at hs; exact ⟨hs.1, hs.2.1, fun u hu => by cases hu⟩
    | ending q0 => rw [hsrc] at hs; exact hs
    | done => trivial
  · intro u hu; cases hu
  · intro hidle hne
    exfalso
    cases hport : a.port with
    | init q0 => rw [hport] at hp; exact hne hp.2.2.1
    | W g => rcases hw with hw | hw
             · simp [hport, PPhase.getQ] at hw
             · exact hne hw
    | H g id q0 => simp [hport, PPhase.idle] at hidle
    | T t id q0 => simp [hport, PPhase.idle] at hidle
  · apply due_of_sub hi.due
    intro x hx
    simp only [A.entries, Option.toList, List.mem_append] at hx ⊢
    rcases hx with hx | hx | hx
    · exact Or.inl (Or.inl hx)
    · exact Or.inl (Or.inr (Or.inl hx))
    · cases hx
  · simp [A.mu, h]; omega
  · simp [Fifo.runActs, toF, outsV]

theorem stepOK_putHand (hi : AInv c sizes0 gaps0 a q.time vs) (q' : QEntry ℚ) (g : EvId) (i : Int) (is : List Int)
    (h : a.pend = some q) (hw : a.port = .W g) (hit : a.items = i :: is) (ht : q'.time = q.time ∧ q'.prio = NORMAL) :
    StepOK c sizes0 gaps0 a q vs { a with pend := none, port := .H g i q', items := is } [] := by
  have hs := hi.src
  refine ⟨⟨ht, ?_, ?_, ?_, ?_, ?_, ?_, by simpa using hi.ulen, by simpa using hi.gen, by simpa using hi.sink,
    hi.nacc⟩, ?_, [.handoff], [], by simp, ?_⟩
  · cases hsrc : a.src with
    | init q0 g z u => rw [hsrc] at hs; rw [hs.2.2.2.2.2] at h; cases h
    | delay q0 g z u => rw [hsrc] at hs; rw [hs.2.2] at h; cases h
    | wait n z g zs u q0 => rw [hsrc] at hs; exact ⟨hs.1, hs.2.1, fun u hu => by cases hu⟩
    | ending q0 => rw [hsrc] at hs; exact hs
    | done => trivial
  · intro u hu; cases hu
  · intro hidle; simp [PPhase.idle] at hidle
  · apply due_of_sub hi.due
    intro x hx
    simp only [A.entries, PPhase.entries, Option.toList, List.mem_append, List.mem_singleton] at hx ⊢
    rcases hx with hx | hx | hx
    · exact Or.inr (by rw [hx, ht.1])
    · exact Or.inl (Or.inr (Or.inl hx))
    · cases hx
  · have := hi.len
    simp only [hw, hit, PPhase.isW, List.length_cons] at this
    simp only [PPhase.isW]
    rw [this]; push_cast; simp
  · intro id hid
    apply hi.held
    simp only [PPhase.inHand, hw, hit, List.nil_append, List.singleton_append] at hid ⊢
    exact hid
  · simp [A.mu, h, hw, hit, PPhase.mu]; omega
  · simp [Fifo.runActs, Fifo.step, toF, hw, hit, Fifo.entered, Fifo.left, outsV]

end REDK
