import OnlVerif.Lemmas.TcpSink
import OnlVerif.Lemmas.TcpSender
import OnlVerif.Tcp.Loop
/-!
# The closed loop: the joint safety invariant behind the partial progress results of C16

`J`: the sender invariant, the sink buffer invariant, every ACK in flight is backed by what the sink holds (all
bytes below its number, and the first byte of the segment it answers), every packet in flight has the sender's MSS as
size, and **every segment issued so far is either at the sink (its first byte is held) or under a pending
retransmission timer**.
-/

open TcpScalar TcpSender TcpSink

namespace TcpLoop

/-- what an accepted sender action can emit, and what it does to the timers -/
theorem step_outs {s s' : Sender ℚ} {a : Act ℚ} {outs : List (Tx ℚ)} (h : Inv s) (ha : ActOk a)
    (hs : s.step a = .ok s' outs) :
    s'.mss = s.mss ∧ (∀ tx ∈ outs, tx.size = s.mss) ∧ (∀ tx ∈ outs, tx.kind = .new → tx.seq ∈ AL.keys s'.timers) := by
  have resend_sz : ∀ {X : Sender ℚ} {q : Nat} {tx : Tx ℚ}, tx ∈ (X.resend q).2 → X.mss = s.mss →
      tx.size = s.mss ∧ tx.kind = .resend := by
    intro X q tx htx hX
    rw [resend_out] at htx
    split_ifs at htx
    · simp at htx; subst htx; exact ⟨hX, rfl⟩
    · simp at htx
  have resend_mss : ∀ (X : Sender ℚ) (q : Nat), (X.resend q).1.mss = X.mss := by
    intro X q; obtain ⟨S, hS, _⟩ := resend_frame X q; rw [hS]
  cases a with
  | wake fuel =>
    have hs' : s.wakeStep fuel = .ok s' outs := hs
    unfold Sender.wakeStep at hs'
    split_ifs at hs'
    obtain ⟨new, e, hem⟩ := (runLoop_spec fuel s [] h).2 s' outs hs'
    simp only [List.nil_append] at e
    subst e
    refine ⟨(emits_next hem h).2, ?_, ?_⟩
    · intro tx htx
      obtain ⟨i, hi, rfl⟩ := List.getElem_of_mem htx
      exact (emits_window hem h i hi).2.1
    · intro tx htx _
      exact emits_new_timed hem h tx htx
  | handoff =>
    have hs' : s.handoffStep = .ok s' outs := hs
    unfold Sender.handoffStep at hs'
    split_ifs at hs'
    injection hs' with e1 e2; subst e1 e2
    exact ⟨rfl, fun tx htx => by simp at htx, fun tx htx => by simp at htx⟩
  | tick t =>
    have hs' : s.tickStep t = .ok s' outs := hs
    unfold Sender.tickStep at hs'
    split_ifs at hs'
    injection hs' with e1 e2; subst e1 e2
    exact ⟨rfl, fun tx htx => by simp at htx, fun tx htx => by simp at htx⟩
  | fire seq =>
    cases ht : AL.get? seq s.timers with
    | none =>
      have : s.step (.fire seq) = .reject .noTimer := by show s.fireStep seq = _; unfold Sender.fireStep; rw [ht]
      rw [this] at hs; cases hs
    | some tr =>
      by_cases hdue : tr.live = true ∧ tr.wake = s.now ∧ ¬ s.now < tr.expiry
      · obtain ⟨S, r, _, _⟩ := fireStep_spec s seq tr ht hdue
        have hs' : s.fireStep seq = .ok s' outs := hs
        rw [r] at hs'; injection hs' with e1 e2; subst e1 e2
        refine ⟨rfl, fun tx htx => (resend_sz htx rfl).1, fun tx htx hk => ?_⟩
        rw [(resend_sz htx rfl).2] at hk; cases hk
      · have hs' : s.fireStep seq = .ok s' outs := hs
        unfold Sender.fireStep at hs'
        rw [ht] at hs'
        have hd : (!tr.live || !Num.eqb tr.wake s.now || decide (s.now < tr.expiry)) = true := by
          by_contra hc
          apply hdue
          simp only [Bool.or_eq_true, Bool.not_eq_true', decide_eq_true_eq, not_or, Bool.not_eq_false] at hc
          exact ⟨hc.1.1, (eqb_iff _ _).mp hc.1.2, hc.2⟩
        simp only [hd, if_true] at hs'
        cases hs'
  | ack x =>
    have hs' : s.ackStep x = .ok s' outs := hs
    have hf : 10000 ≤ x.fid := ha
    by_cases hp : s.now < x.ptime
    · unfold Sender.ackStep at hs'
      simp only [Nat.not_lt.mpr hf, hp, if_true, if_false] at hs'
      cases hs'
    have hok : AckOk s x := ⟨hf, not_lt.mp hp⟩
    rcases Nat.lt_trichotomy x.ackno s.last_ack with hst | hd | hd
    · rw [ackStep_stale s x hok hst] at hs'
      injection hs' with e1 e2; subst e1 e2
      exact ⟨rfl, fun tx htx => by simp at htx, fun tx htx => by simp at htx⟩
    · rcases Nat.lt_trichotomy s.dupack 2 with h2 | h2 | h2
      · rw [ackStep_early s x hok hd h2] at hs'
        injection hs' with e1 e2; subst e1 e2
        exact ⟨rfl, fun tx htx => by simp at htx, fun tx htx => by simp at htx⟩
      · rw [ackStep_third s x hok hd h2] at hs'
        injection hs' with e1 e2; subst e1 e2
        unfold Sender.thirdDup
        refine ⟨resend_mss _ _, fun tx htx => (resend_sz htx rfl).1, fun tx htx hk => ?_⟩
        rw [(resend_sz htx rfl).2] at hk; cases hk
      · rw [ackStep_more s x hok hd (by omega)] at hs'
        injection hs' with e1 e2; subst e1 e2
        unfold Sender.moreDup
        simp only
        split_ifs
        · refine ⟨resend_mss _ _, fun tx htx => (resend_sz htx rfl).1, fun tx htx hk => ?_⟩
          rw [(resend_sz htx rfl).2] at hk; cases hk
        · exact ⟨rfl, fun tx htx => by simp at htx, fun tx htx => by simp at htx⟩
    · obtain ⟨T, S, r, _⟩ := ackStep_new_spec s x h.cc h.keys h.nodup hok hd
      rw [r] at hs'; injection hs' with e1 e2; subst e1 e2
      exact ⟨rfl, fun tx htx => by simp at htx, fun tx htx => by simp at htx⟩

/-- the joint invariant of the closed loop -/
structure J (l : Loop ℚ) : Prop where
  snd : Inv l.snd
  mss_pos : 0 < l.snd.mss
  sink : Sep l.sink
  data : ∀ tx ∈ l.data, tx.size = l.snd.mss
  acks : ∀ a ∈ l.acks, 10000 ≤ a.fid ∧ (∀ b, b < a.ackno → Covers l.sink b) ∧ Covers l.sink a.pid
  issued : ∀ q ∈ l.issued, Covers l.sink q ∨ q ∈ AL.keys l.snd.timers

theorem J_init (s : Sender ℚ) (h : Inv s) (hm : 0 < s.mss) : J (Loop.init s) :=
  ⟨h, hm, sep_nil, fun tx htx => by simp [Loop.init] at htx, fun a ha => by simp [Loop.init] at ha,
   fun q hq => by simp [Loop.init] at hq⟩

theorem mem_newSeqs {outs : List (Tx ℚ)} {q : Nat} (h : q ∈ Loop.newSeqs outs) : ∃ tx ∈ outs, tx.kind = .new ∧ tx.seq = q := by
  unfold Loop.newSeqs at h
  obtain ⟨tx, htx, rfl⟩ := List.mem_map.mp h
  obtain ⟨h1, h2⟩ := List.mem_filter.mp htx
  exact ⟨tx, h1, by simpa using h2, rfl⟩

/-- **every accepted action of the closed loop keeps the joint invariant** -/
theorem J_step {l l' : Loop ℚ} {a : LAct ℚ} (h : J l) (hs : l.step a = some l') : J l' := by
  cases a with
  | own act =>
    unfold Loop.step at hs
    simp only at hs
    split_ifs at hs with hack
    cases hst : l.snd.step act with
    | reject w => rw [hst] at hs; cases hs
    | error e => rw [hst] at hs; cases hs
    | ok s' outs =>
      rw [hst] at hs
      injection hs with hs; subst hs
      have haok : ActOk act := by
        cases act with
        | ack x => simp [Loop.isAck] at hack
        | _ => trivial
      obtain ⟨m1, m2, m3⟩ := step_outs h.snd haok hst
      refine ⟨(step_safe h.snd act haok).2 _ _ hst, by rw [m1]; exact h.mss_pos, h.sink, ?_, h.acks, ?_⟩
      · intro tx htx
        rw [m1]
        rcases List.mem_append.mp htx with e | e
        · exact h.data tx e
        · exact m2 tx e
      · intro q hq
        rcases List.mem_append.mp hq with e | e
        · rcases h.issued q e with c | c
          · exact Or.inl c
          · by_cases hk : q ∈ AL.keys s'.timers
            · exact Or.inr hk
            · obtain ⟨x, hx, _⟩ := timer_cancel_only_by_ack l.snd s' act outs h.snd haok hst q c hk
              subst hx; simp [Loop.isAck] at hack
        · obtain ⟨tx, htx, hk, rfl⟩ := mem_newSeqs e
          exact Or.inr (m3 tx htx hk)
  | deliver =>
    unfold Loop.step at hs
    simp only at hs
    cases hd : l.data with
    | nil => rw [hd] at hs; cases hs
    | cons tx rest =>
      rw [hd] at hs
      simp only at hs
      obtain ⟨hsep', hcov'⟩ := packetArrived_spec l.sink tx.seq tx.size h.sink
      obtain ⟨n, hn, hp⟩ := ackOf_isPrefix _ hsep' (packetArrived_ne_nil l.sink tx.seq tx.size)
      have hput : TcpSink.put l.sink tx.seq tx.size = (packetArrived l.sink tx.seq tx.size, .ok n) := by
        unfold TcpSink.put; simp only [hn]
      rw [hput] at hs
      injection hs with hs; subst hs
      have hmono : ∀ b, Covers l.sink b → Covers (packetArrived l.sink tx.seq tx.size) b :=
        fun b hb => (hcov' b).mpr (Or.inl hb)
      have hsz : tx.size = l.snd.mss := h.data tx (by rw [hd]; exact List.mem_cons_self)
      refine ⟨h.snd, h.mss_pos, hsep', fun t ht => h.data t (by rw [hd]; exact List.mem_cons_of_mem _ ht), ?_, ?_⟩
      · intro a ha
        rcases List.mem_append.mp ha with e | e
        · obtain ⟨a1, a2, a3⟩ := h.acks a e
          exact ⟨a1, fun b hb => hmono b (a2 b hb), hmono _ a3⟩
        · simp at e; subst e
          refine ⟨Nat.le_refl _, hp.1, (hcov' _).mpr (Or.inr ⟨Nat.le_refl _, ?_⟩)⟩
          show tx.seq < tx.seq + tx.size
          have := h.mss_pos; omega
      · intro q hq
        rcases h.issued q hq with c | c
        · exact Or.inl (hmono q c)
        · exact Or.inr c
  | ackArrive =>
    unfold Loop.step at hs
    simp only at hs
    cases hd : l.acks with
    | nil => rw [hd] at hs; cases hs
    | cons x rest =>
      rw [hd] at hs
      simp only at hs
      cases hst : l.snd.step (.ack x) with
      | reject w => rw [hst] at hs; cases hs
      | error e => rw [hst] at hs; cases hs
      | ok s' outs =>
        rw [hst] at hs
        injection hs with hs; subst hs
        obtain ⟨x1, x2, x3⟩ := h.acks x (by rw [hd]; exact List.mem_cons_self)
        have haok : ActOk (.ack x : Act ℚ) := x1
        obtain ⟨m1, m2, _⟩ := step_outs h.snd haok hst
        refine ⟨(step_safe h.snd _ haok).2 _ _ hst, by rw [m1]; exact h.mss_pos, h.sink, ?_,
          fun a ha => h.acks a (by rw [hd]; exact List.mem_cons_of_mem _ ha), ?_⟩
        · intro tx htx
          rw [m1]
          rcases List.mem_append.mp htx with e | e
          · exact h.data tx e
          · exact m2 tx e
        · intro q hq
          rcases h.issued q hq with c | c
          · exact Or.inl c
          · by_cases hk : q ∈ AL.keys s'.timers
            · exact Or.inr hk
            · obtain ⟨y, hy, _, hcover⟩ := timer_cancel_only_by_ack l.snd s' _ outs h.snd haok hst q c hk
              injection hy with hy; subst hy
              rcases hcover with hlt | heq
              · exact Or.inl (x2 q hlt)
              · exact Or.inl (heq ▸ x3)
  | dropData i =>
    unfold Loop.step at hs
    simp only at hs
    split_ifs at hs
    injection hs with hs; subst hs
    exact ⟨h.snd, h.mss_pos, h.sink, fun tx htx => h.data tx (List.mem_of_mem_eraseIdx htx), h.acks, h.issued⟩
  | dropAck i =>
    unfold Loop.step at hs
    simp only at hs
    split_ifs at hs
    injection hs with hs; subst hs
    exact ⟨h.snd, h.mss_pos, h.sink, h.data, fun a ha => h.acks a (List.mem_of_mem_eraseIdx ha), h.issued⟩

/-- states of the closed loop reachable by accepted actions -/
inductive LReach (l0 : Loop ℚ) : Loop ℚ → Prop
  | init : LReach l0 l0
  | step {l l' : Loop ℚ} {a : LAct ℚ} : LReach l0 l → l.step a = some l' → LReach l0 l'

theorem reach_J {l0 l : Loop ℚ} (h0 : J l0) (hr : LReach l0 l) : J l := by
  induction hr with
  | init => exact h0
  | step _ hs ih => exact J_step ih hs

end TcpLoop
