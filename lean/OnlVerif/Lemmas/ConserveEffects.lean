import OnlVerif.Lemmas.ConserveEngine
/-!
# Conservation / ordering proofs: what each atomic resource unit does to the state

One characterisation per unit (`PutEffect`, `GetEffect`, `NewReqEffect`, `dropPutQ/dropGetQ`), proved once by
unfolding the model; the instances of `CRel` use only these.
-/

variable {σ : Type}

namespace Conserve

/-- a granted `_do_put` of request `e` on resource `r` (with the request leaving the queue) -/
structure PutEffect (s s' : KState ℚ σ) (r : ResId) (e : EvId) : Prop where
  size : s'.events.size = s.events.size
  kind : ∀ a, (s'.ev a).kind = (s.ev a).kind
  cbs : ∀ a, (s'.ev a).cbs = (s.ev a).cbs
  core : ∀ a, coreOf s' a = coreOf s a
  outE : (s'.ev e).out = some (.ok .none)
  outOther : ∀ a, a ≠ e → (s'.ev a).out = (s.ev a).out
  procs : s'.procs = s.procs
  rsize : s'.resources.size = s.resources.size
  resOther : ∀ r', r' ≠ r → s'.res r' = s.res r'
  rkind : (s'.res r).kind = (s.res r).kind
  rcap : (s'.res r).capacity = (s.res r).capacity
  putQ : (s'.res r).putQ = (s.res r).putQ.erase e
  getQ : (s'.res r).getQ = (s.res r).getQ
  levelC : (s.res r).kind = .container → (s'.res r).level = (s.res r).level + (reqOf s e).amount
  levelN : (s.res r).kind ≠ .container → (s'.res r).level = (s.res r).level
  itemsS : isStoreKind (s.res r).kind = true → (s'.res r).items = (s.res r).items ++ [(reqOf s e).item]
  itemsN : isStoreKind (s.res r).kind = false → (s'.res r).items = (s.res r).items

/-- a granted `_do_get` of request `e` on resource `r`, handing out `v` -/
structure GetEffect (s s' : KState ℚ σ) (r : ResId) (e : EvId) (v : Val) : Prop where
  size : s'.events.size = s.events.size
  kind : ∀ a, (s'.ev a).kind = (s.ev a).kind
  cbs : ∀ a, (s'.ev a).cbs = (s.ev a).cbs
  core : ∀ a, coreOf s' a = coreOf s a
  outE : (s'.ev e).out = some (.ok v)
  outOther : ∀ a, a ≠ e → (s'.ev a).out = (s.ev a).out
  procs : s'.procs = s.procs
  rsize : s'.resources.size = s.resources.size
  resOther : ∀ r', r' ≠ r → s'.res r' = s.res r'
  rkind : (s'.res r).kind = (s.res r).kind
  rcap : (s'.res r).capacity = (s.res r).capacity
  putQ : (s'.res r).putQ = (s.res r).putQ
  getQ : (s'.res r).getQ = (s.res r).getQ.erase e
  levelC : (s.res r).kind = .container → (s'.res r).level = (s.res r).level - (reqOf s e).amount
  levelN : (s.res r).kind ≠ .container → (s'.res r).level = (s.res r).level
  /-- a store hands out exactly one of the items it holds, which leaves the store -/
  itemsS : isStoreKind (s.res r).kind = true →
    ∃ x, v = .int x ∧ x ∈ (s.res r).items ∧ (s'.res r).items = (s.res r).items.erase x
  itemsN : isStoreKind (s.res r).kind = false → (s'.res r).items = (s.res r).items

section evfacts

theorem coreOf_setOut (s : KState ℚ σ) (e : EvId) (o : Outcome) (a : EvId) : coreOf (s.setOut e o) a = coreOf s a := by
  unfold coreOf; rw [reqOf_setOut]

theorem kind_setOut (s : KState ℚ σ) (e : EvId) (o : Outcome) (a : EvId) : ((s.setOut e o).ev a).kind = (s.ev a).kind := by
  rw [KState.ev_setOut]; split
  · rename_i h; rw [h.1]
  · rfl

theorem cbs_setOut (s : KState ℚ σ) (e : EvId) (o : Outcome) (a : EvId) : ((s.setOut e o).ev a).cbs = (s.ev a).cbs := by
  rw [KState.ev_setOut]; split
  · rename_i h; rw [h.1]
  · rfl

theorem out_setOut_self (s : KState ℚ σ) (e : EvId) (o : Outcome) (h : e < s.events.size) :
    ((s.setOut e o).ev e).out = some o := by
  rw [KState.ev_setOut, if_pos ⟨rfl, h⟩]

theorem out_setOut_other (s : KState ℚ σ) (e : EvId) (o : Outcome) (a : EvId) (h : a ≠ e) :
    ((s.setOut e o).ev a).out = (s.ev a).out := by
  rw [KState.ev_setOut, if_neg (fun hc => h hc.1)]

theorem cbs_setUsage (s : KState ℚ σ) (e a : EvId) : ((s.setUsage e).ev a).cbs = (s.ev a).cbs := by
  unfold KState.setUsage
  rw [KState.ev_setEv]; split
  · rename_i h; rw [h.1]
  · rfl

end evfacts

/-- events-side description of `x.trigger e o` where `x` differs from `s` by resource updates and possibly `setUsage e` -/
structure EvTrig (s s' : KState ℚ σ) (e : EvId) (o : Outcome) : Prop where
  size : s'.events.size = s.events.size
  kind : ∀ a, (s'.ev a).kind = (s.ev a).kind
  cbs : ∀ a, (s'.ev a).cbs = (s.ev a).cbs
  core : ∀ a, coreOf s' a = coreOf s a
  outE : e < s.events.size → (s'.ev e).out = some o
  outOther : ∀ a, a ≠ e → (s'.ev a).out = (s.ev a).out
  procs : s'.procs = s.procs

/-- a state that differs from `s` only in the resource table -/
theorem EvTrig.of_resOnly (s x : KState ℚ σ) (e : EvId) (o : Outcome) (hev : x.events = s.events) (hp : x.procs = s.procs) :
    EvTrig s (x.trigger e o) e o := by
  have hxe : ∀ a, x.ev a = s.ev a := fun a => by simp only [KState.ev, hev]
  have hcore : ∀ a, coreOf x a = coreOf s a := fun a => by simp only [coreOf, reqOf, hxe]
  refine ⟨?_, ?_, ?_, ?_, ?_, ?_, hp⟩
  · show (x.setOut e o).events.size = _
    unfold KState.setOut; rw [KState.esize_setEv, hev]
  · intro a; rw [KState.ev_trigger, kind_setOut, hxe]
  · intro a; rw [KState.ev_trigger, cbs_setOut, hxe]
  · intro a
    have : coreOf (x.trigger e o) a = coreOf (x.setOut e o) a := rfl
    rw [this, coreOf_setOut, hcore]
  · intro h; rw [KState.ev_trigger, out_setOut_self _ _ _ (by rw [hev]; exact h)]
  · intro a ha; rw [KState.ev_trigger, out_setOut_other _ _ _ _ ha, hxe]

/-- the same with `request.usage_since = now` in between -/
theorem EvTrig.of_resOnly_usage (s x : KState ℚ σ) (e : EvId) (o : Outcome) (hev : x.events = s.events) (hp : x.procs = s.procs) :
    EvTrig s ((x.setUsage e).trigger e o) e o := by
  have hxe : ∀ a, x.ev a = s.ev a := fun a => by simp only [KState.ev, hev]
  have hcore : ∀ a, coreOf x a = coreOf s a := fun a => by simp only [coreOf, reqOf, hxe]
  have hF := Frame.setUsage x e
  refine ⟨?_, ?_, ?_, ?_, ?_, ?_, hp⟩
  · show ((x.setUsage e).setOut e o).events.size = _
    unfold KState.setOut; rw [KState.esize_setEv, hF.size, hev]
  · intro a; rw [KState.ev_trigger, kind_setOut, hF.kind, hxe]
  · intro a; rw [KState.ev_trigger, cbs_setOut, cbs_setUsage, hxe]
  · intro a
    have : coreOf ((x.setUsage e).trigger e o) a = coreOf ((x.setUsage e).setOut e o) a := rfl
    rw [this, coreOf_setOut, hF.core, hcore]
  · intro h; rw [KState.ev_trigger, out_setOut_self _ _ _ (by rw [hF.size, hev]; exact h)]
  · intro a ha; rw [KState.ev_trigger, out_setOut_other _ _ _ _ ha, hF.out, hxe]

/-- events-side description of `applyPut` -/
theorem applyPut_evTrig (s : KState ℚ σ) (r : ResId) (e : EvId) : EvTrig s (applyPut s r e) e (.ok .none) := by
  unfold applyPut
  simp only
  split
  · exact EvTrig.of_resOnly_usage s _ e _ rfl rfl
  · exact EvTrig.of_resOnly_usage s _ e _ rfl rfl
  · exact EvTrig.of_resOnly_usage s _ e _ rfl rfl
  · exact EvTrig.of_resOnly s _ e _ rfl rfl
  · exact EvTrig.of_resOnly s _ e _ rfl rfl
  · exact EvTrig.of_resOnly s _ e _ rfl rfl
  · exact EvTrig.of_resOnly s _ e _ rfl rfl

theorem kind_cases (k : ResKind) :
    (isResKind k = true ∧ isStoreKind k = false ∧ k ≠ .container) ∨
    (k = .container ∧ isResKind k = false ∧ isStoreKind k = false) ∨
    (isStoreKind k = true ∧ isResKind k = false ∧ k ≠ .container) := by
  cases k
  · exact Or.inl ⟨by decide, by decide, by simp⟩
  · exact Or.inl ⟨by decide, by decide, by simp⟩
  · exact Or.inl ⟨by decide, by decide, by simp⟩
  · exact Or.inr (Or.inl ⟨rfl, by decide, by decide⟩)
  · exact Or.inr (Or.inr ⟨by decide, by decide, by simp⟩)
  · exact Or.inr (Or.inr ⟨by decide, by decide, by simp⟩)
  · exact Or.inr (Or.inr ⟨by decide, by decide, by simp⟩)

/-- the resource record of `r` after `applyPut` -/
theorem applyPut_res_R (s : KState ℚ σ) (r : ResId) (e : EvId) (hr : r < s.resources.size)
    (hk : isResKind (s.res r).kind = true) :
    (applyPut s r e).res r = { s.res r with users := (s.res r).users ++ [e] } := by
  cases hkk : (s.res r).kind <;> rw [hkk] at hk <;> try exact absurd hk (by decide)
  all_goals
    unfold applyPut
    simp only [hkk, KState.res_trigger, KState.res_setUsage, KState.setUsers]
    rw [KState.res_setRes, if_pos ⟨rfl, hr⟩]

theorem applyPut_res_C (s : KState ℚ σ) (r : ResId) (e : EvId) (hr : r < s.resources.size)
    (hk : (s.res r).kind = .container) :
    (applyPut s r e).res r = { s.res r with level := (s.res r).level + (reqOf s e).amount } := by
  unfold applyPut
  simp only [hk, KState.res_trigger, KState.setLevel]
  rw [KState.res_setRes, if_pos ⟨rfl, hr⟩]

theorem applyPut_res_S (s : KState ℚ σ) (r : ResId) (e : EvId) (hr : r < s.resources.size)
    (hk : isStoreKind (s.res r).kind = true) :
    (applyPut s r e).res r = { s.res r with items := (s.res r).items ++ [(reqOf s e).item] } := by
  cases hkk : (s.res r).kind <;> rw [hkk] at hk <;> try exact absurd hk (by decide)
  all_goals
    unfold applyPut
    simp only [hkk, KState.res_trigger, KState.setItems]
    rw [KState.res_setRes, if_pos ⟨rfl, hr⟩]

theorem applyPut_resOther (s : KState ℚ σ) (r : ResId) (e : EvId) (r' : ResId) (h : r' ≠ r) :
    (applyPut s r e).res r' = s.res r' := by
  unfold applyPut
  simp only
  split <;> simp only [KState.res_trigger, KState.res_setUsage, KState.setUsers, KState.setLevel, KState.setItems] <;>
    rw [KState.res_setRes, if_neg (fun hc => h hc.1)]

theorem applyPut_rsize (s : KState ℚ σ) (r : ResId) (e : EvId) : (applyPut s r e).resources.size = s.resources.size := by
  unfold applyPut
  simp only
  split <;> simp only [KState.trigger, KState.schedule, KState.setOut, KState.setUsage, KState.setEv, KState.setUsers,
    KState.setLevel, KState.setItems, KState.rsize_setRes]

theorem grantPut_effect (s : KState ℚ σ) (r : ResId) (e : EvId) (he : e < s.events.size) (hr : r < s.resources.size) :
    PutEffect s (grantPutSt s r e) r e := by
  have hT := applyPut_evTrig s r e
  have hrs : r < (applyPut s r e).resources.size := by rw [applyPut_rsize]; exact hr
  have hr1 : (grantPutSt s r e).res r = { (applyPut s r e).res r with putQ := ((applyPut s r e).res r).putQ.erase e } := by
    unfold grantPutSt dropPutQ KState.setPutQ
    rw [KState.res_setRes, if_pos ⟨rfl, hrs⟩]
  have hev : ∀ a, (grantPutSt s r e).ev a = (applyPut s r e).ev a := fun a => rfl
  have hcore : ∀ a, coreOf (grantPutSt s r e) a = coreOf (applyPut s r e) a := fun a => rfl
  have hrsz : (grantPutSt s r e).resources.size = s.resources.size := by
    unfold grantPutSt dropPutQ KState.setPutQ
    rw [KState.rsize_setRes, applyPut_rsize]
  have hoth : ∀ r', r' ≠ r → (grantPutSt s r e).res r' = s.res r' := by
    intro r' h
    unfold grantPutSt dropPutQ KState.setPutQ
    rw [KState.res_setRes, if_neg (fun hc => h hc.1), applyPut_resOther _ _ _ _ h]
  rcases kind_cases (s.res r).kind with ⟨h1, h2, h3⟩ | ⟨h1, h2, h3⟩ | ⟨h1, h2, h3⟩
  · have hX := hr1
    rw [applyPut_res_R s r e hr h1] at hX
    exact ⟨hT.size, fun a => by rw [hev]; exact hT.kind a, fun a => by rw [hev]; exact hT.cbs a,
      fun a => by rw [hcore]; exact hT.core a, by rw [hev]; exact hT.outE he,
      fun a ha => by rw [hev]; exact hT.outOther a ha, hT.procs, hrsz, hoth,
      by rw [hX], by rw [hX], by rw [hX], by rw [hX], fun h => absurd h h3, fun _ => by rw [hX],
      fun h => absurd (h.symm.trans h2) (by decide), fun _ => by rw [hX]⟩
  · have hX := hr1
    rw [applyPut_res_C s r e hr h1] at hX
    exact ⟨hT.size, fun a => by rw [hev]; exact hT.kind a, fun a => by rw [hev]; exact hT.cbs a,
      fun a => by rw [hcore]; exact hT.core a, by rw [hev]; exact hT.outE he,
      fun a ha => by rw [hev]; exact hT.outOther a ha, hT.procs, hrsz, hoth,
      by rw [hX], by rw [hX], by rw [hX], by rw [hX], fun _ => by rw [hX], fun h => absurd h1 h,
      fun h => absurd (h.symm.trans h3) (by decide), fun _ => by rw [hX]⟩
  · have hX := hr1
    rw [applyPut_res_S s r e hr h1] at hX
    exact ⟨hT.size, fun a => by rw [hev]; exact hT.kind a, fun a => by rw [hev]; exact hT.cbs a,
      fun a => by rw [hcore]; exact hT.core a, by rw [hev]; exact hT.outE he,
      fun a ha => by rw [hev]; exact hT.outOther a ha, hT.procs, hrsz, hoth,
      by rw [hX], by rw [hX], by rw [hX], by rw [hX], fun h => absurd h h3, fun _ => by rw [hX],
      fun _ => by rw [hX], fun h => absurd (h1.symm.trans h) (by decide)⟩

/-! ### `_do_get` -/

theorem takeOut_procs (s : KState ℚ σ) (r : ResId) (e : EvId) (v : Val) : (takeOut s r e v).procs = s.procs := by
  unfold takeOut
  simp only
  split <;> try rfl
  all_goals split <;> rfl

theorem takeOut_events (s : KState ℚ σ) (r : ResId) (e : EvId) (v : Val) : (takeOut s r e v).events = s.events := by
  unfold takeOut
  simp only
  split <;> try rfl
  all_goals split <;> rfl

theorem takeOut_resOther (s : KState ℚ σ) (r : ResId) (e : EvId) (v : Val) (r' : ResId) (h : r' ≠ r) :
    (takeOut s r e v).res r' = s.res r' := by
  unfold takeOut
  simp only
  split
  · simp only [KState.setUsers]; rw [KState.res_setRes, if_neg (fun hc => h hc.1)]
  · simp only [KState.setUsers]; rw [KState.res_setRes, if_neg (fun hc => h hc.1)]
  · simp only [KState.setUsers]; rw [KState.res_setRes, if_neg (fun hc => h hc.1)]
  · simp only [KState.setLevel]; rw [KState.res_setRes, if_neg (fun hc => h hc.1)]
  · simp only [KState.setItems]; rw [KState.res_setRes, if_neg (fun hc => h hc.1)]
  · split
    · simp only [KState.setItems]; rw [KState.res_setRes, if_neg (fun hc => h hc.1)]
    · rfl
  · split
    · simp only [KState.setItems]; rw [KState.res_setRes, if_neg (fun hc => h hc.1)]
    · rfl

/-- what a store's `_do_get` hands out is one of its items -/
theorem getItem_store (s : KState ℚ σ) (r : ResId) (e : EvId) (v : Val) (hk : isStoreKind (s.res r).kind = true)
    (hg : getItem s r e = some v) : ∃ x, v = .int x ∧ x ∈ (s.res r).items := by
  unfold getItem at hg
  cases hkk : (s.res r).kind <;> rw [hkk] at hk <;> try exact absurd hk (by decide)
  · simp only [hkk] at hg
    cases hi : (s.res r).items with
    | nil => rw [hi] at hg; simp at hg
    | cons x xs =>
      rw [hi] at hg
      simp only [List.head?_cons, Option.map_some, Option.some.injEq] at hg
      exact ⟨x, hg.symm, List.mem_cons_self⟩
  · simp only [hkk] at hg
    cases hm : listMin (s.res r).items with
    | none => rw [hm] at hg; simp at hg
    | some m =>
      rw [hm] at hg
      simp only [Option.map_some, Option.some.injEq] at hg
      refine ⟨m, hg.symm, ?_⟩
      have : ∀ (l : List Int) (m : Int), listMin l = some m → m ∈ l := by
        intro l
        induction l with
        | nil => intro m h; simp [listMin] at h
        | cons x xs ih =>
          intro m h
          unfold listMin at h
          cases hx : listMin xs with
          | none => rw [hx] at h; simp only [Option.some.injEq] at h; subst h; exact List.mem_cons_self
          | some m' =>
            rw [hx] at h
            simp only at h
            split at h
            · simp only [Option.some.injEq] at h; subst h; exact List.mem_cons_of_mem _ (ih _ hx)
            · simp only [Option.some.injEq] at h; subst h; exact List.mem_cons_self
      exact this _ _ hm
  · simp only [hkk] at hg
    cases hf : (s.res r).items.find? (filterOk (reqOf s e).filter) with
    | none => rw [hf] at hg; simp at hg
    | some x =>
      rw [hf] at hg
      simp only [Option.map_some, Option.some.injEq] at hg
      exact ⟨x, hg.symm, List.mem_of_find?_eq_some hf⟩

theorem takeOut_res_R (s : KState ℚ σ) (r : ResId) (e : EvId) (v : Val) (hr : r < s.resources.size)
    (hk : isResKind (s.res r).kind = true) :
    (takeOut s r e v).res r = { s.res r with users := (s.res r).users.erase (reqOf s e).releaseOf } := by
  cases hkk : (s.res r).kind <;> rw [hkk] at hk <;> try exact absurd hk (by decide)
  all_goals
    unfold takeOut
    simp only [hkk, KState.setUsers]
    rw [KState.res_setRes, if_pos ⟨rfl, hr⟩]

theorem takeOut_res_C (s : KState ℚ σ) (r : ResId) (e : EvId) (v : Val) (hr : r < s.resources.size)
    (hk : (s.res r).kind = .container) :
    (takeOut s r e v).res r = { s.res r with level := (s.res r).level - (reqOf s e).amount } := by
  unfold takeOut
  simp only [hk, KState.setLevel]
  rw [KState.res_setRes, if_pos ⟨rfl, hr⟩]

/-- a store's `_do_get` removes the item it hands out -/
theorem takeOut_res_S (s : KState ℚ σ) (r : ResId) (e : EvId) (x : Int) (hr : r < s.resources.size)
    (hk : isStoreKind (s.res r).kind = true) (hg : getItem s r e = some (.int x)) :
    (takeOut s r e (.int x)).res r = { s.res r with items := (s.res r).items.erase x } := by
  cases hkk : (s.res r).kind <;> rw [hkk] at hk <;> try exact absurd hk (by decide)
  · unfold takeOut
    simp only [hkk, KState.setItems]
    rw [KState.res_setRes, if_pos ⟨rfl, hr⟩]
    unfold getItem at hg
    simp only [hkk] at hg
    cases hi : (s.res r).items with
    | nil => rw [hi] at hg; simp at hg
    | cons y ys =>
      rw [hi] at hg
      simp only [List.head?_cons, Option.map_some, Option.some.injEq, Val.int.injEq] at hg
      subst hg
      simp
  · unfold takeOut
    simp only [hkk, KState.setItems]
    rw [KState.res_setRes, if_pos ⟨rfl, hr⟩]
  · unfold takeOut
    simp only [hkk, KState.setItems]
    rw [KState.res_setRes, if_pos ⟨rfl, hr⟩]

theorem grantGet_effect (s : KState ℚ σ) (r : ResId) (e : EvId) (v : Val) (he : e < s.events.size)
    (hr : r < s.resources.size) (hg : getItem s r e = some v) : GetEffect s (grantGetSt s r e v) r e v := by
  have hT : EvTrig s ((takeOut s r e v).trigger e (.ok v)) e (.ok v) :=
    EvTrig.of_resOnly s _ e _ (takeOut_events s r e v) (takeOut_procs s r e v)
  have hrs : r < ((takeOut s r e v).trigger e (.ok v)).resources.size := by
    show r < (takeOut s r e v).resources.size
    rw [takeOut_rsize]; exact hr
  have hr1 : (grantGetSt s r e v).res r =
      { (takeOut s r e v).res r with getQ := ((takeOut s r e v).res r).getQ.erase e } := by
    unfold grantGetSt dropGetQ KState.setGetQ
    rw [KState.res_setRes, if_pos ⟨rfl, hrs⟩]; rfl
  have hev : ∀ a, (grantGetSt s r e v).ev a = ((takeOut s r e v).trigger e (.ok v)).ev a := fun a => rfl
  have hcore : ∀ a, coreOf (grantGetSt s r e v) a = coreOf ((takeOut s r e v).trigger e (.ok v)) a := fun a => rfl
  have hrsz : (grantGetSt s r e v).resources.size = s.resources.size := by
    unfold grantGetSt dropGetQ KState.setGetQ
    rw [KState.rsize_setRes]
    show (takeOut s r e v).resources.size = _
    rw [takeOut_rsize]
  have hoth : ∀ r', r' ≠ r → (grantGetSt s r e v).res r' = s.res r' := by
    intro r' h
    unfold grantGetSt dropGetQ KState.setGetQ
    rw [KState.res_setRes, if_neg (fun hc => h hc.1), KState.res_trigger, takeOut_resOther _ _ _ _ _ h]
  rcases kind_cases (s.res r).kind with ⟨h1, h2, h3⟩ | ⟨h1, h2, h3⟩ | ⟨h1, h2, h3⟩
  · have hX := hr1
    rw [takeOut_res_R s r e v hr h1] at hX
    exact ⟨hT.size, fun a => by rw [hev]; exact hT.kind a, fun a => by rw [hev]; exact hT.cbs a,
      fun a => by rw [hcore]; exact hT.core a, by rw [hev]; exact hT.outE he,
      fun a ha => by rw [hev]; exact hT.outOther a ha, hT.procs, hrsz, hoth,
      by rw [hX], by rw [hX], by rw [hX], by rw [hX], fun h => absurd h h3, fun _ => by rw [hX],
      fun h => absurd (h.symm.trans h2) (by decide), fun _ => by rw [hX]⟩
  · have hX := hr1
    rw [takeOut_res_C s r e v hr h1] at hX
    exact ⟨hT.size, fun a => by rw [hev]; exact hT.kind a, fun a => by rw [hev]; exact hT.cbs a,
      fun a => by rw [hcore]; exact hT.core a, by rw [hev]; exact hT.outE he,
      fun a ha => by rw [hev]; exact hT.outOther a ha, hT.procs, hrsz, hoth,
      by rw [hX], by rw [hX], by rw [hX], by rw [hX], fun _ => by rw [hX], fun h => absurd h1 h,
      fun h => absurd (h.symm.trans h3) (by decide), fun _ => by rw [hX]⟩
  · obtain ⟨x, hv, hx⟩ := getItem_store s r e v h1 hg
    subst hv
    have hX := hr1
    rw [takeOut_res_S s r e x hr h1 hg] at hX
    exact ⟨hT.size, fun a => by rw [hev]; exact hT.kind a, fun a => by rw [hev]; exact hT.cbs a,
      fun a => by rw [hcore]; exact hT.core a, by rw [hev]; exact hT.outE he,
      fun a ha => by rw [hev]; exact hT.outOther a ha, hT.procs, hrsz, hoth,
      by rw [hX], by rw [hX], by rw [hX], by rw [hX], fun h => absurd h h3, fun _ => by rw [hX],
      fun _ => ⟨x, rfl, hx, by rw [hX]⟩, fun h => absurd (h1.symm.trans h) (by decide)⟩

/-! ### `Put/Get.__init__` -/

/-- the request record `Put.__init__` / `Get.__init__` creates -/
def putRec (r : ResId) (rq : ReqData ℚ) : EvRec ℚ := { kind := .put r, cbs := some [.trigGet r], out := none, req := some rq }
def getRec (r : ResId) (rq : ReqData ℚ) : EvRec ℚ := { kind := .get r, cbs := some [.trigPut r], out := none, req := some rq }

/-- events-side description of request creation: one fresh, untriggered event; everything else as before -/
structure NewReqEv (s s' : KState ℚ σ) (x : EvRec ℚ) : Prop where
  size : s'.events.size = s.events.size + 1
  old : ∀ a, a < s.events.size → s'.ev a = s.ev a
  new : s'.ev s.events.size = { x with label := s.nlabel + 1 }
  procs : s'.procs = s.procs
  rsize : s'.resources.size = s.resources.size

theorem newReqEv_of (s x' : KState ℚ σ) (x : EvRec ℚ) (he : x'.events = (s.newLabelled x).1.events)
    (hp : x'.procs = s.procs) (hr : x'.resources.size = s.resources.size) : NewReqEv s x' x := by
  have hxe : ∀ a, x'.ev a = (s.newLabelled x).1.ev a := fun a => by simp only [KState.ev, he]
  refine ⟨by rw [he]; simp [KState.newLabelled], ?_, ?_, hp, hr⟩
  · intro a ha; rw [hxe, KState.ev_newLabelled, if_neg (Nat.ne_of_lt ha)]
  · rw [hxe, KState.ev_newLabelled, if_pos rfl]

theorem newPut_ev (s : KState ℚ σ) (r : ResId) (rq : ReqData ℚ) : NewReqEv s (newPutSt s r rq) (putRec r rq) := by
  apply newReqEv_of
  · rfl
  · rfl
  · unfold newPutSt enqPut KState.setPutQ; rw [KState.rsize_setRes]; rfl

theorem newGet_ev (s : KState ℚ σ) (r : ResId) (rq : ReqData ℚ) : NewReqEv s (newGetSt s r rq) (getRec r rq) := by
  apply newReqEv_of
  · rfl
  · rfl
  · unfold newGetSt enqGet KState.setGetQ; rw [KState.rsize_setRes]; rfl

theorem newPut_resOther (s : KState ℚ σ) (r : ResId) (rq : ReqData ℚ) (r' : ResId) (h : r' ≠ r) :
    (newPutSt s r rq).res r' = s.res r' := by
  unfold newPutSt enqPut KState.setPutQ
  rw [KState.res_setRes, if_neg (fun hc => h hc.1)]; rfl

theorem newGet_resOther (s : KState ℚ σ) (r : ResId) (rq : ReqData ℚ) (r' : ResId) (h : r' ≠ r) :
    (newGetSt s r rq).res r' = s.res r' := by
  unfold newGetSt enqGet KState.setGetQ
  rw [KState.res_setRes, if_neg (fun hc => h hc.1)]; rfl

/-- `insertSorted` reads only the request data, which the resource table does not hold -/
theorem insertSorted_congr (s t : KState ℚ σ) (h : ∀ a, reqOf s a = reqOf t a) (e : EvId) (l : List EvId) :
    insertSorted s e l = insertSorted t e l := by
  induction l with
  | nil => rfl
  | cons x xs ih => unfold insertSorted; rw [h e, h x, ih]

/-- the resource record of `r` after `Put.__init__` enqueued the fresh request `e = s.events.size` -/
theorem newPut_res_in (s : KState ℚ σ) (r : ResId) (rq : ReqData ℚ) (hr : r < s.resources.size) :
    (newPutSt s r rq).res r =
      { s.res r with putQ := if isPrioKind (s.res r).kind then insertSorted (newPutSt s r rq) s.events.size (s.res r).putQ
                             else (s.res r).putQ ++ [s.events.size] } := by
  have hreq : ∀ a, reqOf (s.newLabelled (putRec r rq)).1 a = reqOf (newPutSt s r rq) a := fun a => rfl
  have h1 : (newPutSt s r rq).res r =
      { s.res r with putQ := if isPrioKind (s.res r).kind then
                               insertSorted (s.newLabelled (putRec r rq)).1 s.events.size (s.res r).putQ
                             else (s.res r).putQ ++ [s.events.size] } := by
    unfold newPutSt enqPut KState.setPutQ
    rw [KState.res_setRes, if_pos ⟨rfl, hr⟩]
    rfl
  rw [h1, insertSorted_congr _ _ hreq]

theorem newPut_res_out (s : KState ℚ σ) (r : ResId) (rq : ReqData ℚ) (hr : ¬ r < s.resources.size) :
    (newPutSt s r rq).res r = s.res r := by
  unfold newPutSt enqPut KState.setPutQ
  rw [KState.res_setRes, if_neg (fun hc => hr hc.2)]
  rfl

theorem newGet_res_in (s : KState ℚ σ) (r : ResId) (rq : ReqData ℚ) (hr : r < s.resources.size) :
    (newGetSt s r rq).res r = { s.res r with getQ := (s.res r).getQ ++ [s.events.size] } := by
  unfold newGetSt enqGet KState.setGetQ
  rw [KState.res_setRes, if_pos ⟨rfl, hr⟩]
  rfl

theorem newGet_res_out (s : KState ℚ σ) (r : ResId) (rq : ReqData ℚ) (hr : ¬ r < s.resources.size) :
    (newGetSt s r rq).res r = s.res r := by
  unfold newGetSt enqGet KState.setGetQ
  rw [KState.res_setRes, if_neg (fun hc => hr hc.2)]
  rfl

theorem mem_insertSorted (s : KState ℚ σ) (e : EvId) (l : List EvId) (a : EvId) :
    a ∈ insertSorted s e l ↔ a = e ∨ a ∈ l := by
  induction l with
  | nil => simp [insertSorted]
  | cons x xs ih =>
    unfold insertSorted
    split
    · simp
    · simp only [List.mem_cons, ih]
      constructor
      · rintro (h | h | h)
        · exact Or.inr (Or.inl h)
        · exact Or.inl h
        · exact Or.inr (Or.inr h)
      · rintro (h | h | h)
        · exact Or.inr (Or.inl h)
        · exact Or.inl h
        · exact Or.inr (Or.inr h)

theorem sublist_insertSorted (s : KState ℚ σ) (e : EvId) (l : List EvId) : l.Sublist (insertSorted s e l) := by
  induction l with
  | nil => simp [insertSorted]
  | cons x xs ih =>
    unfold insertSorted
    split
    · exact List.sublist_cons_self _ _
    · exact List.Sublist.cons_cons x ih

theorem nodup_insertSorted (s : KState ℚ σ) (e : EvId) (l : List EvId) (hn : l.Nodup) (he : e ∉ l) :
    (insertSorted s e l).Nodup := by
  induction l with
  | nil => simp [insertSorted]
  | cons x xs ih =>
    unfold insertSorted
    split
    · exact List.nodup_cons.mpr ⟨he, hn⟩
    · have hx := List.nodup_cons.mp hn
      refine List.nodup_cons.mpr ⟨?_, ih hx.2 (fun h => he (List.mem_cons_of_mem _ h))⟩
      rw [mem_insertSorted]
      rintro (h | h)
      · exact he (h ▸ List.mem_cons_self)
      · exact hx.1 h

/-! ### cancel -/

theorem dropPutQ_res (s : KState ℚ σ) (r : ResId) (e : EvId) (r' : ResId) :
    (dropPutQ s r e).res r' = if r' = r ∧ r < s.resources.size then { s.res r with putQ := (s.res r).putQ.erase e } else s.res r' := by
  unfold dropPutQ KState.setPutQ
  rw [KState.res_setRes]

theorem dropGetQ_res (s : KState ℚ σ) (r : ResId) (e : EvId) (r' : ResId) :
    (dropGetQ s r e).res r' = if r' = r ∧ r < s.resources.size then { s.res r with getQ := (s.res r).getQ.erase e } else s.res r' := by
  unfold dropGetQ KState.setGetQ
  rw [KState.res_setRes]

end Conserve
