import OnlVerif.Lemmas.ConserveQueue
/-!
# Every run is a sequence of atomic units; a request is granted only by the grant unit, at its place in the queue

`AUnit s s'` is the smallest relation containing the units of `CRel` (with their guards); `UnitSeq` is its
reflexive–transitive closure.  Instantiating the engine with `UnitSeq` shows that every kernel step of every program
(inside the domain) decomposes into atomic units.  Inspecting the units then gives the "moment of the grant"
statements: a put is granted only while it is the **head** of its queue and `_do_put`'s guard holds; a get is granted
only while every queue member in front of it belongs to a `FilterStore` and matches no item.
-/

variable {σ : Type}

namespace Conserve

inductive AUnit : KState ℚ σ → KState ℚ σ → Prop
  | frame {s s'} : WF s → Frame s s' → AUnit s s'
  | alloc {s s'} (x : EvRec ℚ) : WF s → s'.events = s.events.push x → nonReqKind x.kind = true →
      (∀ l, x.cbs = some l → ∀ cb ∈ l, cbPlain cb = true) → s'.resources = s.resources → s'.procs = s.procs → AUnit s s'
  | trigNR (s e o) : WF s → isReq s e = false → AUnit s (s.setOut e o)
  | grantPut (s r e rest) : WF s → (s.res r).putQ = e :: rest → canPut s r e = true → AUnit s (grantPutSt s r e)
  | grantGet (s r e v pre rest) : WF s → (s.res r).getQ = pre ++ e :: rest → getItem s r e = some v →
      (∀ a ∈ pre, (s.res r).kind = .fstore ∧ getItem s r a = none) → AUnit s (grantGetSt s r e v)
  | newPut (s r rq) : WF s → AUnit s (newPutSt s r rq)
  | newGet (s r rq) : WF s → AUnit s (newGetSt s r rq)
  | cancelPut (s r e) : WF s → (s.ev e).out = none → (s.ev e).kind = .put r → e ∈ (s.res r).putQ → AUnit s (dropPutQ s r e)
  | cancelGet (s r e) : WF s → (s.ev e).out = none → (s.ev e).kind = .get r → e ∈ (s.res r).getQ → AUnit s (dropGetQ s r e)

/-- finite sequences of atomic units -/
inductive UnitSeq : KState ℚ σ → KState ℚ σ → Prop
  | refl (s) : UnitSeq s s
  | snoc {s s1 s2} : UnitSeq s s1 → AUnit s1 s2 → UnitSeq s s2

theorem UnitSeq.trans {s1 s2 s3 : KState ℚ σ} (h12 : UnitSeq s1 s2) (h23 : UnitSeq s2 s3) : UnitSeq s1 s3 := by
  induction h23 with
  | refl => exact h12
  | snoc _ hu ih => exact UnitSeq.snoc ih hu

theorem UnitSeq.single {s s' : KState ℚ σ} (h : AUnit s s') : UnitSeq s s' := UnitSeq.snoc (UnitSeq.refl s) h

/-- every atomic unit is in `Base` -/
theorem AUnit.base {s s' : KState ℚ σ} (h : AUnit s s') : Base s s' := by
  cases h with
  | frame hW hF => exact Base.crel.frame _ _ hW hF
  | alloc x hW he hk hc hr hp => exact Base.crel.alloc _ _ x hW he hk hc hr hp
  | trigNR e o hW hn => exact Base.crel.trigNR _ e o hW hn
  | grantPut r e rest hW hq hc => exact Base.crel.grantPut _ r e rest hW hq hc
  | grantGet r e v pre rest hW hq hg hp => exact Base.crel.grantGet _ r e v pre rest hW hq hg hp
  | newPut r rq hW => exact Base.crel.newPut _ r rq hW
  | newGet r rq hW => exact Base.crel.newGet _ r rq hW
  | cancelPut r e hW ho hk hm => exact Base.crel.cancelPut _ r e hW ho hk hm
  | cancelGet r e hW ho hk hm => exact Base.crel.cancelGet _ r e hW ho hk hm

def UnitsRel (s s' : KState ℚ σ) : Prop := Base s s' ∧ UnitSeq s s'

theorem UnitsRel.crel : CRel (UnitsRel (σ := σ)) where
  refl s := ⟨Base.refl s, UnitSeq.refl s⟩
  trans h12 h23 := ⟨h12.1.trans h23.1, h12.2.trans h23.2⟩
  toBase h := h.1
  frame _ _ hW hF := ⟨(AUnit.frame hW hF).base, UnitSeq.single (AUnit.frame hW hF)⟩
  alloc _ _ x hW he hk hc hr hp := ⟨(AUnit.alloc x hW he hk hc hr hp).base, UnitSeq.single (AUnit.alloc x hW he hk hc hr hp)⟩
  trigNR s e o hW hn := ⟨(AUnit.trigNR s e o hW hn).base, UnitSeq.single (AUnit.trigNR s e o hW hn)⟩
  grantPut s r e rest hW hq hc := ⟨(AUnit.grantPut s r e rest hW hq hc).base, UnitSeq.single (AUnit.grantPut s r e rest hW hq hc)⟩
  grantGet s r e v pre rest hW hq hg hp :=
    ⟨(AUnit.grantGet s r e v pre rest hW hq hg hp).base, UnitSeq.single (AUnit.grantGet s r e v pre rest hW hq hg hp)⟩
  newPut s r rq hW := ⟨(AUnit.newPut s r rq hW).base, UnitSeq.single (AUnit.newPut s r rq hW)⟩
  newGet s r rq hW := ⟨(AUnit.newGet s r rq hW).base, UnitSeq.single (AUnit.newGet s r rq hW)⟩
  cancelPut s r e hW ho hk hm := ⟨(AUnit.cancelPut s r e hW ho hk hm).base, UnitSeq.single (AUnit.cancelPut s r e hW ho hk hm)⟩
  cancelGet s r e hW ho hk hm := ⟨(AUnit.cancelGet s r e hW ho hk hm).base, UnitSeq.single (AUnit.cancelGet s r e hW ho hk hm)⟩

/-- **every run inside the domain is a finite sequence of atomic units** -/
theorem reach_units (body : σ → Resume → Burst ℚ σ) (fuel : Nat) (s s' : KState ℚ σ) (hW : WF s)
    (hr : SafeReach body fuel s s') : UnitSeq s s' :=
  (UnitsRel.crel.reach body fuel s s' hW hr).2

/-- every state of a unit sequence that starts well-formed is well-formed -/
theorem UnitSeq.wf {s s' : KState ℚ σ} (h : UnitSeq s s') (hW : WF s) : WF s' := by
  induction h with
  | refl => exact hW
  | snoc _ hu ih => exact hu.base.keepWF ih

/-- the outcome of a request that a unit does not grant is untouched -/
theorem newReq_old_out {s s' : KState ℚ σ} {x : EvRec ℚ} (hN : NewReqEv s s' x) {e : EvId} (he : e < s.events.size) :
    (s'.ev e).out = (s.ev e).out := by rw [hN.old e he]

/-- **A put request is granted only by `_do_put` on the head of the queue, under `_do_put`'s guard.** -/
theorem AUnit.grant_put {s s' : KState ℚ σ} (h : AUnit s s') {r : ResId} {e : EvId} (hk : (s.ev e).kind = .put r)
    (ho : (s.ev e).out = none) (ho' : (s'.ev e).out ≠ none) :
    ∃ rest, (s.res r).putQ = e :: rest ∧ canPut s r e = true ∧ s' = grantPutSt s r e := by
  have hlt : e < s.events.size := lt_size_of_put hk
  have hreq : isReq s e = true := isReq_of_put hk
  cases h with
  | frame hW hF => rw [hF.out, ho] at ho'; exact absurd rfl ho'
  | alloc x hW he _ _ _ _ =>
    rw [Base.ev_of_push he, if_neg (Nat.ne_of_lt hlt), ho] at ho'; exact absurd rfl ho'
  | trigNR e0 o hW hn =>
    have hne : e ≠ e0 := by intro hc; subst hc; rw [hn] at hreq; cases hreq
    rw [out_setOut_other _ _ _ _ hne, ho] at ho'; exact absurd rfl ho'
  | grantPut r0 e0 rest hW hq hc =>
    have hE := Base.putEffect_of_guard hW hq
    by_cases hee : e = e0
    · subst hee
      have hmem : e ∈ (s.res r0).putQ := by rw [hq]; exact List.mem_cons_self
      have hr : r = r0 := by
        have := (hW.putQ r0 e hmem).1
        rw [hk] at this; injection this
      subst hr
      exact ⟨rest, hq, hc, rfl⟩
    · rw [hE.outOther e hee, ho] at ho'; exact absurd rfl ho'
  | grantGet r0 e0 v pre rest hW hq hg hp =>
    have hE := Base.getEffect_of_guard hW hq hg
    have hmem : e0 ∈ (s.res r0).getQ := by rw [hq]; simp
    have hne : e ≠ e0 := by
      intro hc; subst hc
      have := (hW.getQ r0 e hmem).1
      rw [hk] at this; cases this
    rw [hE.outOther e hne, ho] at ho'; exact absurd rfl ho'
  | newPut r0 rq hW => rw [newReq_old_out (newPut_ev s r0 rq) hlt, ho] at ho'; exact absurd rfl ho'
  | newGet r0 rq hW => rw [newReq_old_out (newGet_ev s r0 rq) hlt, ho] at ho'; exact absurd rfl ho'
  | cancelPut r0 e0 hW _ _ _ => exact absurd ho ho'
  | cancelGet r0 e0 hW _ _ _ => exact absurd ho ho'

/-- **A get request is granted only by `_do_get` at its place in the queue**: `_do_get`'s guard holds, and every
queue member in front of it belongs to a `FilterStore` and matches no item at that moment. -/
theorem AUnit.grant_get {s s' : KState ℚ σ} (h : AUnit s s') {r : ResId} {e : EvId} (hk : (s.ev e).kind = .get r)
    (ho : (s.ev e).out = none) (ho' : (s'.ev e).out ≠ none) :
    ∃ v pre rest, (s.res r).getQ = pre ++ e :: rest ∧ getItem s r e = some v ∧
      (∀ a ∈ pre, (s.res r).kind = .fstore ∧ getItem s r a = none) ∧ s' = grantGetSt s r e v := by
  have hlt : e < s.events.size := lt_size_of_get hk
  have hreq : isReq s e = true := isReq_of_get hk
  cases h with
  | frame hW hF => rw [hF.out, ho] at ho'; exact absurd rfl ho'
  | alloc x hW he _ _ _ _ =>
    rw [Base.ev_of_push he, if_neg (Nat.ne_of_lt hlt), ho] at ho'; exact absurd rfl ho'
  | trigNR e0 o hW hn =>
    have hne : e ≠ e0 := by intro hc; subst hc; rw [hn] at hreq; cases hreq
    rw [out_setOut_other _ _ _ _ hne, ho] at ho'; exact absurd rfl ho'
  | grantPut r0 e0 rest hW hq hc =>
    have hE := Base.putEffect_of_guard hW hq
    have hmem : e0 ∈ (s.res r0).putQ := by rw [hq]; exact List.mem_cons_self
    have hne : e ≠ e0 := by
      intro hc; subst hc
      have := (hW.putQ r0 e hmem).1
      rw [hk] at this; cases this
    rw [hE.outOther e hne, ho] at ho'; exact absurd rfl ho'
  | grantGet r0 e0 v pre rest hW hq hg hp =>
    have hE := Base.getEffect_of_guard hW hq hg
    by_cases hee : e = e0
    · subst hee
      have hmem : e ∈ (s.res r0).getQ := by rw [hq]; simp
      have hr : r = r0 := by
        have := (hW.getQ r0 e hmem).1
        rw [hk] at this; injection this
      subst hr
      exact ⟨v, pre, rest, hq, hg, hp, rfl⟩
    · rw [hE.outOther e hee, ho] at ho'; exact absurd rfl ho'
  | newPut r0 rq hW => rw [newReq_old_out (newPut_ev s r0 rq) hlt, ho] at ho'; exact absurd rfl ho'
  | newGet r0 rq hW => rw [newReq_old_out (newGet_ev s r0 rq) hlt, ho] at ho'; exact absurd rfl ho'
  | cancelPut r0 e0 hW _ _ _ => exact absurd ho ho'
  | cancelGet r0 e0 hW _ _ _ => exact absurd ho ho'

/-- for every class but `FilterStore` the granted get is the head of its queue -/
theorem AUnit.grant_get_head {s s' : KState ℚ σ} (h : AUnit s s') {r : ResId} {e : EvId} (hk : (s.ev e).kind = .get r)
    (ho : (s.ev e).out = none) (ho' : (s'.ev e).out ≠ none) (hf : (s.res r).kind ≠ .fstore) :
    ∃ v rest, (s.res r).getQ = e :: rest ∧ getItem s r e = some v ∧ s' = grantGetSt s r e v := by
  obtain ⟨v, pre, rest, hq, hg, hp, hs⟩ := h.grant_get hk ho ho'
  cases pre with
  | nil => exact ⟨v, rest, hq, hg, hs⟩
  | cons p ps => exact absurd (hp p List.mem_cons_self).1 hf

/-! ## the moment of a grant, inside a run -/

theorem UnitSeq.base {s s' : KState ℚ σ} (h : UnitSeq s s') : Base s s' := by
  induction h with
  | refl => exact Base.refl _
  | snoc _ hu ih => exact ih.trans hu.base

/-- **Every granted put was, at the moment of its grant, the head of its queue**: if `e` is a waiting put of `r` in `s`
and granted in `s'`, the unit sequence from `s` to `s'` passes through a state `t` in which `e` heads the queue and
`_do_put`'s guard holds, and continues from `grantPutSt t r e`. -/
theorem UnitSeq.grant_put_moment {s s' : KState ℚ σ} (h : UnitSeq s s') {r : ResId} {e : EvId}
    (hk : (s.ev e).kind = .put r) (ho : (s.ev e).out = none) (ho' : (s'.ev e).out ≠ none) :
    ∃ t rest, UnitSeq s t ∧ UnitSeq (grantPutSt t r e) s' ∧ (t.res r).putQ = e :: rest ∧ canPut t r e = true ∧
      (t.ev e).out = none := by
  induction h with
  | refl => exact absurd ho ho'
  | @snoc s1 s2 h1 hu ih =>
    by_cases hmid : (s1.ev e).out = none
    · have hk1 : (s1.ev e).kind = .put r := by rw [h1.base.kind e (lt_size_of_put hk)]; exact hk
      obtain ⟨rest, hq, hc, hs2⟩ := hu.grant_put hk1 hmid ho'
      exact ⟨s1, rest, h1, by rw [hs2]; exact UnitSeq.refl _, hq, hc, hmid⟩
    · obtain ⟨t, rest, ht, ht', hq, hc, hto⟩ := ih hmid
      exact ⟨t, rest, ht, UnitSeq.snoc ht' hu, hq, hc, hto⟩

/-- **Every granted get was granted in its turn**: at the moment of its grant it could be served, and every queue
member in front of it belonged to a `FilterStore` and matched no item. -/
theorem UnitSeq.grant_get_moment {s s' : KState ℚ σ} (h : UnitSeq s s') {r : ResId} {e : EvId}
    (hk : (s.ev e).kind = .get r) (ho : (s.ev e).out = none) (ho' : (s'.ev e).out ≠ none) :
    ∃ t v pre rest, UnitSeq s t ∧ UnitSeq (grantGetSt t r e v) s' ∧ (t.res r).getQ = pre ++ e :: rest ∧
      getItem t r e = some v ∧ (∀ a ∈ pre, (t.res r).kind = .fstore ∧ getItem t r a = none) ∧ (t.ev e).out = none ∧
      (s'.ev e).out = some (.ok v) := by
  induction h with
  | refl => exact absurd ho ho'
  | @snoc s1 s2 h1 hu ih =>
    by_cases hmid : (s1.ev e).out = none
    · have hk1 : (s1.ev e).kind = .get r := by rw [h1.base.kind e (lt_size_of_get hk)]; exact hk
      obtain ⟨v, pre, rest, hq, hg, hp, hs2⟩ := hu.grant_get hk1 hmid ho'
      have hWt : WF s1 := by cases hu <;> assumption
      refine ⟨s1, v, pre, rest, h1, by rw [hs2]; exact UnitSeq.refl _, hq, hg, hp, hmid, ?_⟩
      rw [hs2]; exact (Base.getEffect_of_guard hWt hq hg).outE
    · obtain ⟨t, v, pre, rest, ht, ht', hq, hg, hp, hto, hout⟩ := ih hmid
      refine ⟨t, v, pre, rest, ht, UnitSeq.snoc ht' hu, hq, hg, hp, hto, ?_⟩
      have hk1 : (s1.ev e).kind = .get r := by rw [h1.base.kind e (lt_size_of_get hk)]; exact hk
      rw [hu.base.outStable e (isReq_of_get hk1) hmid]; exact hout

end Conserve
