import OnlVerif.Lemmas.TRKStepSrc
/-!
# The two-rate token bucket on the kernel model: configuration steps (no kernel terms here)

`AStep n e a q a' new`: processing the agenda entry `q` in a kernel state with `n` events and entry counter `e` takes the
configuration `a` to `a'` and appends `new` to the put / out history.  `astep_sound`: every configuration step keeps `AInv`
and lowers the bound on the steps still to come.
-/

set_option linter.unusedSimpArgs false

namespace TRK
open TwoRateOnK QEntry

variable (size : Int → Nat) (cfg : TrCfg ℚ)

/-- **one kernel step, seen on configurations** -/
inductive AStep (n e : Nat) : A → QEntry ℚ → A → List (HEv ℚ) → Prop
  | runInit (a : A) (q : QEntry ℚ) (h : a.run = .init q) : AStep n e a q { a with run := .W n q.time } []
  | serveWait (a : A) (q : QEntry ℚ) (g : EvId) (id : Int) (t0 dt cm : ℚ) (pk : Option ℚ) (h : a.run = .H g id q t0)
      (hdec : verdictA size cfg a q.time id = .ok (.wait dt cm pk)) :
      AStep n e a q { a with
        run := .T1 n id (⟨q.time + dt, NORMAL, e, n⟩ : QEntry ℚ)
        commit := cm, peak := pk, upd := q.time } []
  | serveOutMiss (a : A) (q : QEntry ℚ) (g : EvId) (id : Int) (t0 cm : ℚ) (col : Nat) (pk : Option ℚ)
      (h : a.run = .H g id q t0) (hdec : verdictA size cfg a q.time id = .ok (.emit col cm pk)) (hit : a.items = []) :
      AStep n e a q { a with run := .W n q.time, commit := cm, peak := pk, upd := q.time,
                             sent := a.sent + 1 } [.out id col q.time]
  | serveOutHit (a : A) (q : QEntry ℚ) (g : EvId) (id : Int) (t0 cm : ℚ) (col : Nat) (pk : Option ℚ) (i : Int) (is : List Int)
      (h : a.run = .H g id q t0) (hdec : verdictA size cfg a q.time id = .ok (.emit col cm pk)) (hit : a.items = i :: is) :
      AStep n e a q { a with run := .H n i ⟨q.time, NORMAL, e, n⟩ q.time, items := is,
                             commit := cm, peak := pk, upd := q.time, sent := a.sent + 1 } [.out id col q.time]
  | tokOutMiss (a : A) (q : QEntry ℚ) (t : EvId) (id : Int) (h : a.run = .T1 t id q) (hit : a.items = []) :
      AStep n e a q { a with run := .W n q.time, commit := (afterWait cfg a.commit a.peak).2.1,
                             peak := (afterWait cfg a.commit a.peak).2.2, upd := q.time, sent := a.sent + 1 }
        [.out id (afterWait cfg a.commit a.peak).1 q.time]
  | tokOutHit (a : A) (q : QEntry ℚ) (t : EvId) (id : Int) (i : Int) (is : List Int) (h : a.run = .T1 t id q)
      (hit : a.items = i :: is) :
      AStep n e a q { a with run := .H n i ⟨q.time, NORMAL, e, n⟩ q.time, items := is,
                             commit := (afterWait cfg a.commit a.peak).2.1, peak := (afterWait cfg a.commit a.peak).2.2,
                             upd := q.time, sent := a.sent + 1 } [.out id (afterWait cfg a.commit a.peak).1 q.time]
  | srcInit (a : A) (q : QEntry ℚ) (arr : List ℚ) (h : a.src = .init q arr) :
      AStep n e a q { a with src := srcNext q.time e n 0 arr } []
  | srcPut (a : A) (q : QEntry ℚ) (next : Nat) (arr : List ℚ) (h : a.src = .wait next arr q) :
      AStep n e a q { a with
        src := srcNext q.time (e + 1) (n + 1) (next + 1) arr
        pend := a.pend ++ [⟨q.time, NORMAL, e, n⟩]
        items := a.items ++ [(next : Int)]
        cts := a.cts ++ [q.time] } [.put next q.time]
  | srcEnd (a : A) (q : QEntry ℚ) (h : a.src = .ending q) : AStep n e a q { a with src := .done } []
  | pendNoop (a : A) (q : QEntry ℚ) (l1 l2 : List (QEntry ℚ)) (hpe : a.pend = l1 ++ q :: l2)
      (hno : ¬ ((∃ g t0, a.run = .W g t0) ∧ a.items ≠ [])) :
      AStep n e a q { a with pend := l1 ++ l2 } []
  | pendHand (a : A) (q : QEntry ℚ) (g : EvId) (t0 : ℚ) (i : Int) (is : List Int) (l1 l2 : List (QEntry ℚ))
      (hpe : a.pend = l1 ++ q :: l2) (h : a.run = .W g t0) (hit : a.items = i :: is) :
      AStep n e a q { a with pend := l1 ++ l2, run := .H g i ⟨q.time, NORMAL, e, g⟩ t0, items := is } []

variable {size cfg}

/-! ## agenda entries of a configuration -/

theorem mem_run {a : A} {x : QEntry ℚ} (h : x ∈ a.run.entries) : x ∈ a.entries := by
  simp [A.entries, h]

theorem mem_src {a : A} {x : QEntry ℚ} (h : x ∈ a.src.entries) : x ∈ a.entries := by
  simp [A.entries, h]

theorem mem_pend {a : A} {u : QEntry ℚ} (h : u ∈ a.pend) : u ∈ a.entries := by
  simp [A.entries, h]

theorem keyLt_of_now {x q : QEntry ℚ} {now : ℚ} (hx : x.time = now) (hq : now ≤ q.time)
    (h : now < q.time ∨ x.prio < q.prio ∨ (x.prio = q.prio ∧ x.eid < q.eid)) : KeyLt x q := by
  unfold KeyLt
  rcases lt_or_eq_of_le hq with h1 | h1
  · exact Or.inl (hx ▸ h1)
  · rcases h with h | h | h
    · exact Or.inl (hx ▸ h)
    · exact Or.inr ⟨hx.trans h1, Or.inl h⟩
    · exact Or.inr ⟨hx.trans h1, Or.inr h⟩

/-- `q` is a minimal entry of the configuration: what `popMin` returns -/
def IsMin (a : A) (q : QEntry ℚ) : Prop := q ∈ a.entries ∧ ∀ x ∈ a.entries, ¬ KeyLt x q

variable {a : A} {now : ℚ} {q : QEntry ℚ}

theorem AInv.now_le (hi : AInv cfg a now) (hq : IsMin a q) : now ≤ q.time := hi.due q hq.1

theorem AInv.time_eq (hi : AInv cfg a now) (hq : IsMin a q) {x : QEntry ℚ} (hx : x ∈ a.entries)
    (hxt : x.time = now) : q.time = now :=
  le_antisymm (hxt ▸ not_keyLt_time (hq.2 x hx)) (hi.due q hq.1)

theorem AInv.not_prio_lt (hi : AInv cfg a now) (hq : IsMin a q) {x : QEntry ℚ} (hx : x ∈ a.entries)
    (hxt : x.time = now) (hp : x.prio < q.prio) : False :=
  hq.2 x hx (keyLt_of_now hxt (hi.now_le hq) (Or.inr (Or.inl hp)))

/-- **letting the clock advance to the next entry changes nothing else** -/
theorem AInv.advance (hi : AInv cfg a now) (hq : IsMin a q) : AInv cfg a q.time := by
  rcases eq_or_lt_of_le (hi.now_le hq) with h | h
  · rw [← h]; exact hi
  have hne : ∀ x ∈ a.entries, x.time ≠ now := fun x hx hxt => absurd (hi.time_eq hq hx hxt) (ne_of_gt h)
  have hpn : a.pend = [] := by
    cases hp : a.pend with
    | nil => rfl
    | cons u r => exact absurd (hi.pend u (by rw [hp]; simp)).1 (hne u (mem_pend (by rw [hp]; simp)))
  refine ⟨?_, ?_, ?_, ?_, ?_, hi.good, hi.pk⟩
  · have hp := hi.run
    cases hr : a.run with
    | init q0 => rw [hr] at hp; exact absurd hp.1 (hne q0 (mem_run (by simp [hr, RPhase.entries])))
    | W g t0 =>
      rw [hr] at hp
      have hit : a.items = [] := by
        by_contra hc
        exact hp.2.2 hc hpn
      refine ⟨le_trans hp.1 (le_of_lt h), ?_, fun hc => absurd hit hc⟩
      rw [hit]; intro i hi'; cases hi'
    | H g id q0 t0 => rw [hr] at hp; exact absurd hp.1 (hne q0 (mem_run (by simp [hr, RPhase.entries])))
    | T1 t id q0 => rw [hr] at hp; exact hp
  · have hs := hi.src
    cases hsrc : a.src with
    | init q0 arr => rw [hsrc] at hs; exact absurd hs.1 (hne q0 (mem_src (by simp [hsrc, SPhase.entries])))
    | wait next rest q0 => rw [hsrc] at hs; exact hs
    | ending q0 => rw [hsrc] at hs; exact absurd hs.1 (hne q0 (mem_src (by simp [hsrc, SPhase.entries])))
    | done => trivial
  · intro u hu; rw [hpn] at hu; cases hu
  · intro x hx; exact not_keyLt_time (hq.2 x hx)
  · intro i hi'
    obtain ⟨h1, h2, h3⟩ := hi.its i hi'
    exact ⟨h1, h2, le_trans h3 (le_of_lt h)⟩

end TRK
