import Mathlib.Tactic.FieldSimp
import OnlVerif.Lemmas.FifoAux
import OnlVerif.Lemmas.Envelope
import OnlVerif.Net.TokenBucket
/-! # Invariants of the TokenBucket model -/

namespace TokenBucket
open Fifo Envelope

@[simp] theorem dev_admit (c : TbCfg ℚ) : (dev c).admitPkt = admitPkt := rfl
@[simp] theorem dev_onResume (c : TbCfg ℚ) : (dev c).onResume = onResume c := rfl
@[simp] theorem dev_onFire (c : TbCfg ℚ) : (dev c).onFire = onFire c := rfl
@[simp] theorem dev_onDone (c : TbCfg ℚ) : (dev c).onDone = onDone := rfl

theorem eight : (Num.ofNat 8 : ℚ) = 8 := by
  show ((8 : ℕ) : ℚ) = 8
  norm_num

theorem refillLevel_eq (c : TbCfg ℚ) (d : TbSt ℚ) (now : ℚ) :
    refillLevel c d now = min c.bucket (d.level + c.rate * (now - d.upd) / 8) := by
  unfold refillLevel
  rw [Num.pymin_eq, eight]

theorem tokenWait_eq (c : TbCfg ℚ) (lvl : ℚ) (p : Pkt ℚ) : tokenWait c lvl p = ((p.size : ℚ) - lvl) * 8 / c.rate := by
  unfold tokenWait
  rw [eight]; rfl

theorem peakWait_eq (k : ℚ) (p : Pkt ℚ) : peakWait k p = (p.size : ℚ) * 8 / k := by
  unfold peakWait
  rw [eight]; rfl

/-- the three outcomes of `TokenBucket.run` when it gets a packet -/
theorem onResume_cases (c : TbCfg ℚ) (d : TbSt ℚ) (now x y : ℚ) (p : Pkt ℚ) :
    (refillLevel c d now < p.size ∧
      onResume c d now x y p = (startWait (refill c d now), p, .wait (tokenWait c (refillLevel c d now) p))) ∨
    (¬ refillLevel c d now < p.size ∧ ∃ k, peakOn c = some k ∧
      onResume c d now x y p = (debitNow (refill c d now) now p, p, .wait (peakWait k p))) ∨
    (¬ refillLevel c d now < p.size ∧ peakOn c = none ∧
      onResume c d now x y p = (logOut (debitNow (refill c d now) now p) now p, p, .emit)) := by
  unfold onResume
  by_cases hs : refillLevel c d now < (Num.ofNat p.size : ℚ)
  · left; exact ⟨hs, by rw [if_pos hs]⟩
  · right
    rw [if_neg hs]
    unfold afterDebit
    cases hk : peakOn c with
    | none => right; exact ⟨hs, rfl, rfl⟩
    | some k => left; exact ⟨hs, k, rfl, rfl⟩

/-- the three outcomes when a timeout of `TokenBucket.run` fires -/
theorem onFire_cases (c : TbCfg ℚ) (d : TbSt ℚ) (now : ℚ) (k : Nat) (p : Pkt ℚ) :
    (d.tokWait = true ∧ ∃ r, peakOn c = some r ∧ onFire c d now k p = (debitAfterWait d now p, p, .wait (peakWait r p))) ∨
    (d.tokWait = true ∧ peakOn c = none ∧ onFire c d now k p = (logOut (debitAfterWait d now p) now p, p, .emit)) ∨
    (d.tokWait = false ∧ onFire c d now k p = (logOut d now p, p, .emit)) := by
  unfold onFire
  by_cases ht : d.tokWait = true
  · rw [if_pos ht]
    unfold afterDebit
    cases hk : peakOn c with
    | none => right; left; exact ⟨ht, rfl, rfl⟩
    | some r => left; exact ⟨ht, r, rfl, rfl⟩
  · right; right
    rw [if_neg ht]
    exact ⟨by simpa using ht, rfl⟩

theorem idPreserving (c : TbCfg ℚ) : IdPreserving (dev c) := by
  refine ⟨?_, ?_, ?_⟩
  · intro s now w p; rfl
  · intro s now x y p
    rcases onResume_cases c s now x y p with ⟨_, h⟩ | ⟨_, _, _, h⟩ | ⟨_, _, h⟩ <;> simp only [dev_onResume, h]
  · intro s now k p
    rcases onFire_cases c s now k p with ⟨_, _, _, h⟩ | ⟨_, _, h⟩ | ⟨_, h⟩ <;> simp only [dev_onFire, h]

/-- the configuration the property speaks about: a positive rate and a non-negative bucket size -/
structure Good (c : TbCfg ℚ) : Prop where
  rate : 0 < c.rate
  bucket : 0 ≤ c.bucket

/-! ### tokens -/

/-- token side of the invariant, over the clock, the device state and the server's timeout -/
structure TokP (c : TbCfg ℚ) (now : ℚ) (d : TbSt ℚ) (tx : Option (Pkt ℚ × ℚ × Nat)) : Prop where
  updLe : d.upd ≤ now
  lvl0 : 0 ≤ d.level
  lvlB : d.level ≤ c.bucket
  cred : Cred c.bucket c.rate d.level d.upd d.log
  conf : Conforms c.bucket c.rate d.log
  idle : tx = none → d.tokWait = false
  tok : ∀ p due k, tx = some (p, due, k) → d.tokWait = true →
    due = d.upd + ((p.size : ℚ) - d.level) * 8 / c.rate ∧ d.level < p.size

theorem refill_facts (c : TbCfg ℚ) (hg : Good c) (now : ℚ) (d : TbSt ℚ) (h1 : d.upd ≤ now) (h2 : 0 ≤ d.level) :
    0 ≤ refillLevel c d now ∧ refillLevel c d now ≤ c.bucket ∧
    refillLevel c d now ≤ d.level + c.rate * (now - d.upd) / 8 := by
  rw [refillLevel_eq]
  refine ⟨le_min hg.bucket ?_, min_le_left _ _, min_le_right _ _⟩
  have : 0 ≤ c.rate * (now - d.upd) := mul_nonneg (le_of_lt hg.rate) (by linarith)
  linarith [div_nonneg this (by norm_num : (0 : ℚ) ≤ 8)]

/-- the server starts to wait for the missing tokens -/
theorem tok_startWait (c : TbCfg ℚ) (hg : Good c) (now : ℚ) (d : TbSt ℚ) (p : Pkt ℚ) (h : TokP c now d none)
    (hs : refillLevel c d now < p.size) :
    TokP c now (startWait (refill c d now)) (some (p, now + tokenWait c (refillLevel c d now) p, 0)) := by
  obtain ⟨r0, rB, rle⟩ := refill_facts c hg now d h.updLe h.lvl0
  refine ⟨le_refl _, r0, rB, cred_advance h.cred rle, h.conf, fun hx => (by cases hx), ?_⟩
  intro q due k hq _
  simp only [Option.some.injEq, Prod.mk.injEq] at hq
  obtain ⟨rfl, rfl, _⟩ := hq
  exact ⟨by rw [tokenWait_eq]; rfl, hs⟩

/-- the tokens are there: debit at once -/
theorem tok_debitNow (c : TbCfg ℚ) (hg : Good c) (now : ℚ) (d : TbSt ℚ) (p : Pkt ℚ) (h : TokP c now d none)
    (hs : ¬ refillLevel c d now < p.size) (tx : Option (Pkt ℚ × ℚ × Nat)) :
    TokP c now (debitNow (refill c d now) now p) tx := by
  obtain ⟨r0, rB, rle⟩ := refill_facts c hg now d h.updLe h.lvl0
  have hs' : (p.size : ℚ) ≤ refillLevel c d now := not_lt.mp hs
  have hc : Cred c.bucket c.rate (refillLevel c d now) now d.log := cred_advance h.cred rle
  have hp : (0 : ℚ) ≤ p.size := Nat.cast_nonneg _
  refine ⟨le_refl _, ?_, ?_, ?_, ?_, fun _ => h.idle rfl, ?_⟩
  · show 0 ≤ refillLevel c d now - (p.size : ℚ); linarith
  · show refillLevel c d now - (p.size : ℚ) ≤ c.bucket; linarith
  · exact cred_push p.size hc (le_trans rB (le_max_left _ _))
  · exact conforms_push p.size h.conf hc hs'
  · intro q due k _ ht
    have : d.tokWait = false := h.idle rfl
    rw [show (debitNow (refill c d now) now p).tokWait = d.tokWait from rfl, this] at ht
    cases ht

/-- the wait for the missing tokens is over: the level is exactly the packet, debit it -/
theorem tok_debitAfterWait (c : TbCfg ℚ) (hg : Good c) (now : ℚ) (d : TbSt ℚ) (p : Pkt ℚ) (k : Nat)
    (h : TokP c now d (some (p, now, k))) (ht : d.tokWait = true) (tx : Option (Pkt ℚ × ℚ × Nat)) :
    TokP c now (debitAfterWait d now p) tx := by
  obtain ⟨hdue, hlt⟩ := h.tok p now k rfl ht
  have hr : c.rate ≠ 0 := ne_of_gt hg.rate
  have hfull : (p.size : ℚ) ≤ d.level + c.rate * (now - d.upd) / 8 := by
    have : now - d.upd = ((p.size : ℚ) - d.level) * 8 / c.rate := by linarith
    rw [this]
    have : c.rate * (((p.size : ℚ) - d.level) * 8 / c.rate) / 8 = (p.size : ℚ) - d.level := by
      field_simp
    rw [this]; linarith
  have hc : Cred c.bucket c.rate (p.size : ℚ) now d.log := cred_advance h.cred hfull
  have hpush := cred_push p.size hc (le_max_right _ _)
  rw [sub_self] at hpush
  have hz : (Num.zero : ℚ) = 0 := zero_eq'
  refine ⟨le_refl _, ?_, ?_, ?_, ?_, fun _ => rfl, ?_⟩
  · show (0 : ℚ) ≤ Num.zero; rw [hz]
  · show (Num.zero : ℚ) ≤ c.bucket; rw [hz]; exact hg.bucket
  · show Cred c.bucket c.rate Num.zero now ((now, p.size) :: d.log); rw [hz]; exact hpush
  · exact conforms_push p.size h.conf hc (le_refl _)
  · intro q due k' _ ht'
    cases ht'

/-- bookkeeping that does not touch levels, log or the wait flag -/
theorem tok_same (c : TbCfg ℚ) (now : ℚ) (d d' : TbSt ℚ) (tx tx' : Option (Pkt ℚ × ℚ × Nat)) (h : TokP c now d tx)
    (e1 : d'.level = d.level) (e2 : d'.upd = d.upd) (e3 : d'.log = d.log) (e4 : d'.tokWait = d.tokWait)
    (hidle : tx' = none → d.tokWait = false)
    (htok : ∀ p due k, tx' = some (p, due, k) → d.tokWait = true → tx = some (p, due, k)) : TokP c now d' tx' := by
  refine ⟨by rw [e2]; exact h.updLe, by rw [e1]; exact h.lvl0, by rw [e1]; exact h.lvlB,
    by rw [e1, e2, e3]; exact h.cred, by rw [e3]; exact h.conf, by rw [e4]; exact hidle, ?_⟩
  intro p due k hx ht
  rw [e4] at ht
  rw [e1, e2]
  exact h.tok p due k (htok p due k hx ht) ht

def Tok (c : TbCfg ℚ) (s : FState ℚ (TbSt ℚ)) : Prop := TokP c s.now s.dev s.tx

theorem tok_issueGet (c : TbCfg ℚ) (s : FState ℚ (TbSt ℚ)) (h : Tok c s) : Tok c (issueGet s) := by
  unfold Tok
  rw [issueGet_now, issueGet_dev', issueGet_tx']
  exact h

/-- every accepted step keeps the token invariant -/
theorem step_tok (c : TbCfg ℚ) (hg : Good c) (s s' : FState ℚ (TbSt ℚ)) (a : FAct ℚ) (o : FOut ℚ)
    (hsh : Shape s) (hi : Tok c s) (hstep : step (dev c) s a = .ok (s', o)) : Tok c s' := by
  have ht := step_trans (dev c) s s' a o hstep
  clear hstep
  cases ht with
  | init h => exact tok_issueGet c _ hi
  | putAcc p h =>
    exact tok_same c s.now s.dev _ s.tx s.tx hi rfl rfl rfl rfl hi.idle (fun _ _ _ hx _ => hx)
  | putDrop p h => simp [dev_admit, admitPkt] at h
  | handoff p rest hg' hit => exact hi
  | resumeEmit x y p hp hn =>
    simp only [dev_onResume, dev_onDone] at hn ⊢
    have htx := (shape_of_handed hsh hp).2.2
    have hi' : TokP c s.now s.dev none := htx ▸ hi
    apply tok_issueGet
    rcases onResume_cases c s.dev s.now x y p with ⟨_, he⟩ | ⟨_, k, _, he⟩ | ⟨hs, _, he⟩
    · rw [he] at hn; cases hn
    · rw [he] at hn; cases hn
    · rw [he]
      have := tok_debitNow c hg s.now s.dev p hi' hs none
      exact tok_same c s.now _ _ none none this rfl rfl rfl rfl this.idle (fun _ _ _ hx _ => hx)
  | resumeLose x y p hp hn =>
    simp only [dev_onResume] at hn
    rcases onResume_cases c s.dev s.now x y p with ⟨_, he⟩ | ⟨_, k, _, he⟩ | ⟨hs, _, he⟩ <;> rw [he] at hn <;> cases hn
  | resumeWait x y p dt hp hn =>
    simp only [dev_onResume] at hn ⊢
    have htx := (shape_of_handed hsh hp).2.2
    have hi' : TokP c s.now s.dev none := htx ▸ hi
    rcases onResume_cases c s.dev s.now x y p with ⟨hs, he⟩ | ⟨hs, k, _, he⟩ | ⟨hs, _, he⟩
    · rw [he] at hn ⊢
      simp only [Next.wait.injEq] at hn
      subst hn
      exact tok_startWait c hg s.now s.dev p hi' hs
    · rw [he] at hn ⊢
      exact tok_debitNow c hg s.now s.dev p hi' hs _
    · rw [he] at hn; cases hn
  | fireEmit p due k htx hnow hn =>
    simp only [dev_onFire, dev_onDone] at hn ⊢
    have hi' : TokP c s.now s.dev (some (p, s.now, k)) := by
      have := hi
      unfold Tok at this
      rw [htx, ← hnow] at this
      exact this
    apply tok_issueGet
    rcases onFire_cases c s.dev s.now k p with ⟨_, r, _, he⟩ | ⟨hw, _, he⟩ | ⟨hw, he⟩
    · rw [he] at hn; cases hn
    · rw [he]
      have := tok_debitAfterWait c hg s.now s.dev p k hi' hw none
      exact tok_same c s.now _ _ none none this rfl rfl rfl rfl this.idle (fun _ _ _ hx _ => hx)
    · rw [he]
      exact tok_same c s.now s.dev _ _ none hi' rfl rfl rfl rfl (fun _ => hw) (fun _ _ _ hx _ => by cases hx)
  | fireLose p due k htx hnow hn =>
    simp only [dev_onFire] at hn
    rcases onFire_cases c s.dev s.now k p with ⟨_, r, _, he⟩ | ⟨hw, _, he⟩ | ⟨hw, he⟩ <;> rw [he] at hn <;> cases hn
  | fireWait p due k dt htx hnow hn =>
    simp only [dev_onFire] at hn ⊢
    have hi' : TokP c s.now s.dev (some (p, s.now, k)) := by
      have := hi
      unfold Tok at this
      rw [htx, ← hnow] at this
      exact this
    rcases onFire_cases c s.dev s.now k p with ⟨hw, r, _, he⟩ | ⟨hw, _, he⟩ | ⟨hw, he⟩
    · rw [he] at hn ⊢
      exact tok_debitAfterWait c hg s.now s.dev p k hi' hw _
    · rw [he] at hn; cases hn
    · rw [he] at hn; cases hn
  | tick t h1 h2 h3 h4 h5 =>
    exact ⟨le_trans hi.updLe h1, hi.lvl0, hi.lvlB, hi.cred, hi.conf, hi.idle, hi.tok⟩

/-! ### peak spacing -/

/-- spacing side of the invariant -/
structure SpcP (c : TbCfg ℚ) (now : ℚ) (d : TbSt ℚ) (tx : Option (Pkt ℚ × ℚ × Nat)) : Prop where
  pk : ∀ p due k, tx = some (p, due, k) → d.tokWait = false → ∃ r, peakOn c = some r ∧ due = d.upd + (p.size : ℚ) * 8 / r
  outLe : ∀ e, d.outLog.head? = some e → e.1 ≤ now
  outUpd : ∀ x e, tx = some x → d.outLog.head? = some e → e.1 ≤ d.upd
  spaced : ∀ r, peakOn c = some r → Spaced r d.outLog

def Spc (c : TbCfg ℚ) (s : FState ℚ (TbSt ℚ)) : Prop := SpcP c s.now s.dev s.tx

theorem spc_issueGet (c : TbCfg ℚ) (s : FState ℚ (TbSt ℚ)) (h : Spc c s) : Spc c (issueGet s) := by
  unfold Spc
  rw [issueGet_now, issueGet_dev', issueGet_tx']
  exact h

/-- the server goes to sleep at `now` (for tokens: `wait = true`; for the peak spacing `8·size/r`) having set
`update_time = now` -/
theorem spc_sleep (c : TbCfg ℚ) (now : ℚ) (d d' : TbSt ℚ) (tx : Option (Pkt ℚ × ℚ × Nat)) (p : Pkt ℚ) (due : ℚ) (k : Nat)
    (h : SpcP c now d tx) (e1 : d'.upd = now) (e2 : d'.outLog = d.outLog)
    (hpk : d'.tokWait = false → ∃ r, peakOn c = some r ∧ due = now + (p.size : ℚ) * 8 / r) :
    SpcP c now d' (some (p, due, k)) := by
  refine ⟨?_, by rw [e2]; exact h.outLe, ?_, by rw [e2]; exact h.spaced⟩
  · intro q due' k' hq hw
    simp only [Option.some.injEq, Prod.mk.injEq] at hq
    obtain ⟨rfl, rfl, _⟩ := hq
    rw [e1]; exact hpk hw
  · intro x e _ he
    rw [e1]; rw [e2] at he; exact h.outLe e he

/-- the packet leaves at `now`, which is at least `8·size/r` after its predecessor whenever a peak `r` is set -/
theorem spc_out (c : TbCfg ℚ) (now : ℚ) (d : TbSt ℚ) (p : Pkt ℚ)
    (h : ∀ r, peakOn c = some r → Spaced r d.outLog)
    (hsp : ∀ r, peakOn c = some r → ∀ e, d.outLog.head? = some e → e.1 + (p.size : ℚ) * 8 / r ≤ now) :
    SpcP c now (onDone (logOut d now p) p) none := by
  refine ⟨fun _ _ _ hx => (by cases hx), ?_, fun _ _ hx => (by cases hx), ?_⟩
  · intro e he
    simp only [onDone, logOut, List.head?_cons, Option.some.injEq] at he
    rw [← he]
  · intro r hr
    exact spaced_push now p.size (h r hr) (hsp r hr)

/-- every accepted step keeps the spacing invariant -/
theorem step_spc (c : TbCfg ℚ) (s s' : FState ℚ (TbSt ℚ)) (a : FAct ℚ) (o : FOut ℚ)
    (hi : Spc c s) (hstep : step (dev c) s a = .ok (s', o)) : Spc c s' := by
  have ht := step_trans (dev c) s s' a o hstep
  clear hstep
  cases ht with
  | init h => exact spc_issueGet c _ hi
  | putAcc p h => exact ⟨hi.pk, hi.outLe, hi.outUpd, hi.spaced⟩
  | putDrop p h => simp [dev_admit, admitPkt] at h
  | handoff p rest hg' hit => exact hi
  | resumeEmit x y p hp hn =>
    simp only [dev_onResume, dev_onDone] at hn ⊢
    apply spc_issueGet
    rcases onResume_cases c s.dev s.now x y p with ⟨_, he⟩ | ⟨_, k, _, he⟩ | ⟨hs, hk, he⟩
    · rw [he] at hn; cases hn
    · rw [he] at hn; cases hn
    · rw [he]
      exact spc_out c s.now (debitNow (refill c s.dev s.now) s.now p) p hi.spaced (fun r hr => by rw [hk] at hr; cases hr)
  | resumeLose x y p hp hn =>
    simp only [dev_onResume] at hn
    rcases onResume_cases c s.dev s.now x y p with ⟨_, he⟩ | ⟨_, k, _, he⟩ | ⟨hs, _, he⟩ <;> rw [he] at hn <;> cases hn
  | resumeWait x y p dt hp hn =>
    simp only [dev_onResume] at hn ⊢
    rcases onResume_cases c s.dev s.now x y p with ⟨hs, he⟩ | ⟨hs, k, hk, he⟩ | ⟨hs, _, he⟩
    · rw [he] at hn ⊢
      exact spc_sleep c s.now s.dev _ s.tx p _ 0 hi rfl rfl (fun hw => by cases hw)
    · rw [he] at hn ⊢
      simp only [Next.wait.injEq] at hn
      subst hn
      exact spc_sleep c s.now s.dev _ s.tx p _ 0 hi rfl rfl (fun _ => ⟨k, hk, by rw [peakWait_eq]⟩)
    · rw [he] at hn; cases hn
  | fireEmit p due k htx hnow hn =>
    simp only [dev_onFire, dev_onDone] at hn ⊢
    apply spc_issueGet
    rcases onFire_cases c s.dev s.now k p with ⟨_, r, _, he⟩ | ⟨hw, hk, he⟩ | ⟨hw, he⟩
    · rw [he] at hn; cases hn
    · rw [he]
      exact spc_out c s.now (debitAfterWait s.dev s.now p) p hi.spaced (fun r hr => by rw [hk] at hr; cases hr)
    · rw [he]
      refine spc_out c s.now s.dev p hi.spaced ?_
      intro r hr e he'
      obtain ⟨r', hr', hdue⟩ := hi.pk p due k htx hw
      rw [hr] at hr'; cases hr'
      have := hi.outUpd _ e htx he'
      rw [hnow, hdue]; linarith
  | fireLose p due k htx hnow hn =>
    simp only [dev_onFire] at hn
    rcases onFire_cases c s.dev s.now k p with ⟨_, r, _, he⟩ | ⟨hw, _, he⟩ | ⟨hw, he⟩ <;> rw [he] at hn <;> cases hn
  | fireWait p due k dt htx hnow hn =>
    simp only [dev_onFire] at hn ⊢
    rcases onFire_cases c s.dev s.now k p with ⟨hw, r, hr, he⟩ | ⟨hw, _, he⟩ | ⟨hw, he⟩
    · rw [he] at hn ⊢
      simp only [Next.wait.injEq] at hn
      subst hn
      exact spc_sleep c s.now s.dev _ s.tx p _ (k + 1) hi rfl rfl (fun _ => ⟨r, hr, by rw [peakWait_eq]⟩)
    · rw [he] at hn; cases hn
    · rw [he] at hn; cases hn
  | tick t h1 h2 h3 h4 h5 =>
    exact ⟨hi.pk, fun e he => le_trans (hi.outLe e he) h1, hi.outUpd, hi.spaced⟩

/-! ### whole runs -/

theorem init_tok (c : TbCfg ℚ) (hg : Good c) (t0 : ℚ) (h0 : 0 ≤ t0) : Tok c (Fifo.init (st0 c) t0) := by
  have hz : (Num.zero : ℚ) = 0 := zero_eq'
  refine ⟨(by show (Num.zero : ℚ) ≤ t0; rw [hz]; exact h0), hg.bucket, le_refl _, cred_nil _ _ _ _, conforms_nil _ _,
    fun _ => rfl, fun _ _ _ hx => (by cases hx)⟩

theorem init_spc (c : TbCfg ℚ) (t0 : ℚ) : Spc c (Fifo.init (st0 c) t0) :=
  ⟨fun _ _ _ hx => (by cases hx), fun _ he => (by cases he), fun _ _ hx => (by cases hx), fun _ _ => spaced_nil _⟩

/-- the invariants hold after every accepted action sequence -/
theorem run_inv (c : TbCfg ℚ) (hg : Good c) (t0 : ℚ) (h0 : 0 ≤ t0) (as : List (FAct ℚ)) (s : FState ℚ (TbSt ℚ))
    (ins outs : List Nat) (h : runActs (dev c) (Fifo.init (st0 c) t0) as = .ok (s, ins, outs)) :
    Shape s ∧ Tok c s ∧ Spc c s := by
  refine run_induct (dev c) (fun s => Shape s ∧ Tok c s ∧ Spc c s) ?_ as _ s ins outs
    ⟨Fifo.init_shape _ _, init_tok c hg t0 h0, init_spc c t0⟩ h
  intro s a s' o hP hs
  exact ⟨(step_conserves (dev c) (idPreserving c) s s' a o hP.1 hs).2, step_tok c hg s s' a o hP.1 hP.2.1 hs,
    step_spc c s s' a o hP.2.2 hs⟩

/-- a token bucket never refuses and never discards -/
theorem never_loses (c : TbCfg ℚ) (s s' : FState ℚ (TbSt ℚ)) (a : FAct ℚ) (o : FOut ℚ)
    (hstep : step (dev c) s a = .ok (s', o)) : o ≠ .dropped ∧ ∀ q, o ≠ .lost q := by
  have ht := step_trans (dev c) s s' a o hstep
  cases ht with
  | putDrop p h => simp [dev_admit, admitPkt] at h
  | resumeLose x y p hp hn =>
    simp only [dev_onResume] at hn
    rcases onResume_cases c s.dev s.now x y p with ⟨_, he⟩ | ⟨_, k, _, he⟩ | ⟨hs, _, he⟩ <;> rw [he] at hn <;> cases hn
  | fireLose p due k htx hnow hn =>
    simp only [dev_onFire] at hn
    rcases onFire_cases c s.dev s.now k p with ⟨_, r, _, he⟩ | ⟨hw, _, he⟩ | ⟨hw, he⟩ <;> rw [he] at hn <;> cases hn
  | _ => exact ⟨fun h => (by cases h), fun q h => (by cases h)⟩

/-- the server holds packet `q` outside the store -/
def Holds (s : FState ℚ (TbSt ℚ)) (q : Pkt ℚ) : Prop := s.handed = some q ∨ ∃ due k, s.tx = some (q, due, k)

/-- how one step changes the ghost logs: the debit log grows only by a debit of the packet in hand, stamped with the
current instant; the departure log grows exactly when a packet is forwarded -/
def LogStep (s s' : FState ℚ (TbSt ℚ)) (o : FOut ℚ) : Prop :=
  (s'.dev.log = s.dev.log ∨ ∃ q, Holds s q ∧ s'.dev.log = (s.now, q.size) :: s.dev.log) ∧
  (match o with
   | .depart q => s'.dev.outLog = (s.now, q.size) :: s.dev.outLog
   | _ => s'.dev.outLog = s.dev.outLog)

theorem log_step (c : TbCfg ℚ) (s s' : FState ℚ (TbSt ℚ)) (a : FAct ℚ) (o : FOut ℚ)
    (hstep : step (dev c) s a = .ok (s', o)) : LogStep s s' o := by
  have ht := step_trans (dev c) s s' a o hstep
  clear hstep
  unfold LogStep
  cases ht with
  | init h => refine ⟨Or.inl ?_, ?_⟩ <;> simp [issueGet_dev']
  | putAcc p h => exact ⟨Or.inl rfl, rfl⟩
  | putDrop p h => exact ⟨Or.inl rfl, rfl⟩
  | handoff p rest hg hit => exact ⟨Or.inl rfl, rfl⟩
  | resumeEmit x y p hp hn =>
    simp only [dev_onResume, dev_onDone, issueGet_dev'] at hn ⊢
    rcases onResume_cases c s.dev s.now x y p with ⟨_, he⟩ | ⟨_, k, _, he⟩ | ⟨hs, _, he⟩
    · rw [he] at hn; cases hn
    · rw [he] at hn; cases hn
    · rw [he]; exact ⟨Or.inr ⟨p, Or.inl hp, rfl⟩, rfl⟩
  | resumeLose x y p hp hn =>
    simp only [dev_onResume] at hn
    rcases onResume_cases c s.dev s.now x y p with ⟨_, he⟩ | ⟨_, k, _, he⟩ | ⟨hs, _, he⟩ <;> rw [he] at hn <;> cases hn
  | resumeWait x y p dt hp hn =>
    simp only [dev_onResume] at hn ⊢
    rcases onResume_cases c s.dev s.now x y p with ⟨_, he⟩ | ⟨_, k, _, he⟩ | ⟨hs, _, he⟩
    · rw [he]; exact ⟨Or.inl rfl, rfl⟩
    · rw [he]; exact ⟨Or.inr ⟨p, Or.inl hp, rfl⟩, rfl⟩
    · rw [he] at hn; cases hn
  | fireEmit p due k htx hnow hn =>
    simp only [dev_onFire, dev_onDone, issueGet_dev'] at hn ⊢
    rcases onFire_cases c s.dev s.now k p with ⟨_, r, _, he⟩ | ⟨hw, _, he⟩ | ⟨hw, he⟩
    · rw [he] at hn; cases hn
    · rw [he]; exact ⟨Or.inr ⟨p, Or.inr ⟨due, k, htx⟩, rfl⟩, rfl⟩
    · rw [he]; exact ⟨Or.inl rfl, rfl⟩
  | fireLose p due k htx hnow hn =>
    simp only [dev_onFire] at hn
    rcases onFire_cases c s.dev s.now k p with ⟨_, r, _, he⟩ | ⟨hw, _, he⟩ | ⟨hw, he⟩ <;> rw [he] at hn <;> cases hn
  | fireWait p due k dt htx hnow hn =>
    simp only [dev_onFire] at hn ⊢
    rcases onFire_cases c s.dev s.now k p with ⟨_, r, _, he⟩ | ⟨hw, _, he⟩ | ⟨hw, he⟩
    · rw [he]; exact ⟨Or.inr ⟨p, Or.inr ⟨due, k, htx⟩, rfl⟩, rfl⟩
    · rw [he] at hn; cases hn
    · rw [he] at hn; cases hn
  | tick t h1 h2 h3 h4 h5 => exact ⟨Or.inl rfl, rfl⟩

end TokenBucket
