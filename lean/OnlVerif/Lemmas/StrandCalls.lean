import OnlVerif.Lemmas.StrandOps
/-!
# Everything that is not a resource operation leaves the resources alone

Events, conditions, interrupts, process bookkeeping: each keeps the structural invariant `Pkg` and is a
non-resource frame step `NR`; hence it keeps the loop invariant `J`.  Then: every API call (`doCall`), under the
domain hypothesis `callDom`.
-/

variable {σ : Type}

abbrev Keeps (s s' : KState ℚ σ) : Prop := Pkg s' none ∧ NR s s'

theorem Keeps.refl {s : KState ℚ σ} (h : Pkg s none) : Keeps s s := ⟨h, NR.refl s⟩
theorem Keeps.trans {s1 s2 s3 : KState ℚ σ} (a : Keeps s1 s2) (b : Keeps s2 s3) : Keeps s1 s3 := ⟨b.1, a.2.trans b.2⟩

theorem J.keeps {s s' : KState ℚ σ} {rem : List Cb} (h : J s rem) (k : Keeps s s') : J s' rem ∧ Fr s s' :=
  ⟨h.nr k.1 k.2, k.2.fr⟩

theorem ghost_keeps {s s' : KState ℚ σ} (h : Pkg s none) (hn : s'.now = s.now) (ha : s'.agenda = s.agenda)
    (he : s'.events = s.events) (hp : s'.procs = s.procs) (hr : s'.resources = s.resources) : Keeps s s' :=
  ⟨h.congr ha he hp hr, NR.of_same hn ha he hp hr⟩

/-! ## event records -/

theorem setMeta_keeps {s : KState ℚ σ} (h : Pkg s none) (x : EvId) (rec : EvRec ℚ) (hk : rec.kind = (s.ev x).kind)
    (hc : rec.cbs = (s.ev x).cbs) (ho : rec.out = (s.ev x).out) (hr : rec.req = (s.ev x).req) :
    Keeps s (s.setEv x rec) := by
  refine ⟨h.setEv x rec hk (fun l hl => ⟨l, by rw [hc]; exact hl, fun _ _ hm => hm⟩)
    (fun l' c hl hm => Or.inl ⟨l', by rw [← hc]; exact hl, hm⟩) (fun h1 => by rw [ho]; exact h1)
    (fun h1 h2 => absurd (ho ▸ h1) h2), ?_⟩
  refine NR.setEv s x rec hk (fun l hl => ⟨l, by rw [hc]; exact hl, fun _ _ hm => hm⟩) (fun h1 => by rw [ho]; exact h1) ?_
  unfold reqOf; rw [hr]

theorem defuse_keeps {s : KState ℚ σ} (h : Pkg s none) (e : EvId) : Keeps s (s.defuse e) :=
  setMeta_keeps h e _ rfl rfl rfl rfl

theorem bumpCount_keeps {s : KState ℚ σ} (h : Pkg s none) (c : EvId) : Keeps s (s.bumpCount c) :=
  setMeta_keeps h c _ rfl rfl rfl rfl

theorem addCb_keeps {s : KState ℚ σ} (h : Pkg s none) (x : EvId) (cb : Cb)
    (hcb : ∀ c, cb = .check c → isCond s c = true) : Keeps s (s.addCb x cb) := by
  have hcbs : ∀ l, (s.ev x).cbs = some l → ∃ l', ((s.ev x).cbs.map (· ++ [cb])) = some l' ∧
      ∀ cb', cb'.isTrig = true → cb' ∈ l → cb' ∈ l' := by
    intro l hl
    exact ⟨l ++ [cb], by rw [hl]; rfl, fun _ _ hm => List.mem_append_left _ hm⟩
  refine ⟨?_, ?_⟩
  · unfold KState.addCb
    refine h.setEv x _ rfl hcbs ?_ (fun h1 => h1) (fun h1 h2 => absurd h1 h2)
    intro l' c hl hm
    cases hx : (s.ev x).cbs with
    | none => rw [hx] at hl; cases hl
    | some l =>
      simp only [hx, Option.map_some, Option.some.injEq] at hl
      subst hl
      rcases List.mem_append.mp hm with hm | hm
      · exact Or.inl ⟨l, rfl, hm⟩
      · exact Or.inr (hcb c (List.mem_singleton.mp hm).symm)
  · unfold KState.addCb
    exact NR.setEv s x _ rfl hcbs (fun h1 => h1) rfl

theorem eraseCb_keeps {s : KState ℚ σ} (h : Pkg s none) (x : EvId) (cb : Cb) (hcb : cb.isTrig = false) :
    Keeps s (s.eraseCb x cb) := by
  have hcbs : ∀ l, (s.ev x).cbs = some l → ∃ l', ((s.ev x).cbs.map (·.erase cb)) = some l' ∧
      ∀ cb', cb'.isTrig = true → cb' ∈ l → cb' ∈ l' := by
    intro l hl
    refine ⟨l.erase cb, by rw [hl]; rfl, fun cb' ht hm => (List.mem_erase_of_ne ?_).mpr hm⟩
    intro heq; rw [heq, hcb] at ht; cases ht
  refine ⟨?_, ?_⟩
  · unfold KState.eraseCb
    refine h.setEv x _ rfl hcbs ?_ (fun h1 => h1) (fun h1 h2 => absurd h1 h2)
    intro l' c hl hm
    cases hx : (s.ev x).cbs with
    | none => rw [hx] at hl; cases hl
    | some l =>
      simp only [hx, Option.map_some, Option.some.injEq] at hl
      subst hl
      exact Or.inl ⟨l, rfl, List.mem_of_mem_erase hm⟩
  · unfold KState.eraseCb
    exact NR.setEv s x _ rfl hcbs (fun h1 => h1) rfl

theorem noQ_of_kind {s : KState ℚ σ} {ex : Option EvId} (h : Pkg s ex) (x : EvId)
    (hp : ∀ r, (s.ev x).kind ≠ .put r) (hg : ∀ r, (s.ev x).kind ≠ .get r) : NoQ s x :=
  fun r => ⟨fun hm => hp r (h.putQ r x hm).1, fun hm => hg r (h.getQ r x hm).1⟩

theorem noQ_of_isCond {s : KState ℚ σ} {ex : Option EvId} (h : Pkg s ex) (c : EvId) (hc : isCond s c = true) :
    NoQ s c := by
  apply noQ_of_kind h c <;> intro r hk <;> unfold isCond at hc <;> rw [hk] at hc <;> cases hc

theorem trigger_keeps {s : KState ℚ σ} (h : Pkg s none) (x : EvId) (o : Outcome) (hx : x < s.events.size)
    (hq : NoQ s x) : Keeps s (s.trigger x o) :=
  ⟨h.trigger x o hx (fun _ => Or.inl hq), NR.trigger s x o⟩

theorem mkInterrupt_keeps {s : KState ℚ σ} (h : Pkg s none) (p : EvId) (c : Val) : Keeps s (mkInterrupt s p c).1 :=
  ⟨h.mkInterrupt p c, NR.mkInterrupt s p c⟩

theorem isCond_keeps {s s' : KState ℚ σ} (k : Keeps s s') {c : EvId} (hc : isCond s c = true) : isCond s' c = true := by
  rw [isCond_congr (k.2.fr.kind c (isCond_lt hc))]; exact hc

/-! ## conditions -/

theorem condCheck_keeps {s : KState ℚ σ} (h : Pkg s none) (c e : EvId) (hc : isCond s c = true) :
    Keeps s (condCheck s c e) := by
  have trig : ∀ (s1 : KState ℚ σ) (o : Outcome), Keeps s s1 → Keeps s (s1.trigger c o) := by
    intro s1 o k
    have hc1 := isCond_keeps k hc
    exact k.trans (trigger_keeps k.1 c o (isCond_lt hc1) (noQ_of_isCond k.1 c hc1))
  unfold condCheck
  split
  · exact Keeps.refl h
  · split
    · have k1 := bumpCount_keeps h c
      exact trig _ _ (k1.trans (defuse_keeps k1.1 e))
    · split
      · exact trig _ _ (bumpCount_keeps h c)
      · exact bumpCount_keeps h c

theorem foldl_inv {α : Type} (P : KState ℚ σ → Prop) (f : KState ℚ σ → α → KState ℚ σ)
    (hf : ∀ s a, P s → P (f s a)) : ∀ (l : List α) (s : KState ℚ σ), P s → P (l.foldl f s)
  | [], _, h => h
  | a :: l, s, h => foldl_inv P f hf l (f s a) (hf s a h)

theorem eraseCheck_keeps {s : KState ℚ σ} (h : Pkg s none) (c e : EvId) : Keeps s (eraseCheck s c e) := by
  unfold eraseCheck
  split
  · split
    · exact eraseCb_keeps h e _ rfl
    · exact Keeps.refl h
  · exact Keeps.refl h

theorem removeChecks_keeps : ∀ (fuel : Nat) (c : EvId) (s : KState ℚ σ), Pkg s none → Keeps s (removeChecks fuel c s)
  | 0, _, _, h => Keeps.refl h
  | fuel + 1, c, s, h => by
    unfold removeChecks
    refine foldl_inv (fun s' => Keeps s s') _ ?_ _ s (Keeps.refl h)
    intro s' e k
    have k1 := eraseCheck_keeps k.1 c e
    split
    · exact k.trans (k1.trans (removeChecks_keeps fuel e _ k1.1))
    · exact k.trans k1

theorem condBuild_keeps {s : KState ℚ σ} (h : Pkg s none) (c : EvId) : Keeps s (condBuild s c) := by
  unfold condBuild
  simp only
  have k := removeChecks_keeps (c + 1) c s h
  split
  · rename_i v hv
    refine k.trans ⟨k.1.setOut c _ (fun h1 => ?_), NR.setOut _ c _⟩
    rw [hv] at h1; cases h1
  · exact k

theorem mkCond_keeps {s : KState ℚ σ} (h : Pkg s none) (all : Bool) (ops : List EvId) :
    Keeps s (mkCond s all ops).1 := by
  have hp := Pushed.newLabelled s { kind := .cond all ops, cbs := some [], out := none }
  have k1 : Keeps s (s.newLabelled { kind := .cond all ops, cbs := some [], out := none }).1 :=
    ⟨hp.pkg h (by intro l c hl hm; simp only [Option.some.injEq] at hl; subst hl; simp at hm), hp.nr⟩
  have hc1 : isCond (s.newLabelled { kind := .cond all ops, cbs := some [], out := none }).1 s.events.size = true := by
    unfold isCond; rw [hp.ev_new]
  unfold mkCond
  simp only
  split
  · exact k1.trans (trigger_keeps k1.1 _ _ (isCond_lt hc1) (noQ_of_isCond k1.1 _ hc1))
  · have hfold := foldl_inv (fun s' => Keeps s s' ∧ isCond s' s.events.size = true)
      (fun t e => if t.processed e then condCheck t s.events.size e else t.addCb e (.check s.events.size))
      (by
        intro s' e ⟨k, hc⟩
        split
        · have k2 := condCheck_keeps k.1 _ e hc
          exact ⟨k.trans k2, isCond_keeps k2 hc⟩
        · have k2 := addCb_keeps k.1 e (.check s.events.size) (by intro c' hc'; injection hc' with h1; rw [← h1]; exact hc)
          exact ⟨k.trans k2, isCond_keeps k2 hc⟩)
      ops _ ⟨k1, hc1⟩
    exact hfold.1.trans (addCb_keeps hfold.1.1 s.events.size (.build s.events.size) (by intro c' hc'; cases hc'))

/-! ## process bookkeeping -/

theorem deliverSt_keeps {s : KState ℚ σ} (h : Pkg s none) (p e : EvId) : Keeps s (deliverSt s p e) := by
  have k0 : Keeps s { s with active := some p } := ghost_keeps h rfl rfl rfl rfl rfl
  unfold deliverSt
  split
  · exact k0.trans (defuse_keeps k0.1 e)
  · exact k0

theorem finishProc_keeps {s : KState ℚ σ} (h : Pkg s none) (p : EvId) (pr : ProcRec σ) (o : Outcome)
    (hk : (s.ev p).kind = .proc) : Keeps s (finishProc s p pr o) := by
  have hx : p < s.events.size := KState.lt_of_kind (by rw [hk]; simp)
  have k1 := trigger_keeps h p o hx (noQ_of_kind h p (by rw [hk]; simp) (by rw [hk]; simp))
  have k2 : Keeps s ((s.trigger p o).emit (.ended p o s.now)) := k1.trans (ghost_keeps k1.1 rfl rfl rfl rfl rfl)
  have hk2 : ((((s.trigger p o).emit (.ended p o s.now))).ev p).kind = .proc := by
    rw [k2.2.fr.kind p hx]; exact hk
  have k3 : Keeps s (((s.trigger p o).emit (.ended p o s.now)).setProc p { pr with target := none }) :=
    k2.trans ⟨k2.1.setProc p _ hk2, NR.setProc _ p _⟩
  unfold finishProc
  exact k3.trans (ghost_keeps k3.1 rfl rfl rfl rfl rfl)

theorem register_keeps {s s' : KState ℚ σ} (h : Pkg s none) (p e' : EvId) (hr : register s p e' = some s') :
    Keeps s s' := by
  unfold register at hr
  split at hr
  · cases hr
  · cases hr
    have k1 := addCb_keeps h e' (.resume p) (by intro c hc; cases hc)
    exact k1.trans (ghost_keeps k1.1 rfl rfl rfl rfl rfl)

/-! ## API calls -/

theorem doCall_J {s : KState ℚ σ} {rem : List Cb} (h : J s rem) (self : EvId) (c : Call ℚ σ) (hd : callDom s c) :
    J (doCall s self c).1 rem ∧ Fr s (doCall s self c).1 := by
  cases c <;> simp only [doCall]
  case timeout d v =>
    split
    · exact ⟨h, Fr.refl s⟩
    · have hp := Pushed.newLabelled s { kind := .timeout, cbs := some [], out := some (.ok v) }
      have k1 : Keeps s (s.newLabelled { kind := .timeout, cbs := some [], out := some (.ok v) }).1 :=
        ⟨hp.pkg h.pkg (by intro l c hl hm; simp only [Option.some.injEq] at hl; subst hl; simp at hm), hp.nr⟩
      exact h.keeps (k1.trans ⟨k1.1.schedule s.events.size _ _ (by rw [hp.ev_new]; simp), NR.schedule _ _ _ _⟩)
  case event =>
    have hp := Pushed.newLabelled s { kind := .plain, cbs := some [], out := none }
    exact h.keeps ⟨hp.pkg h.pkg (by intro l c hl hm; simp only [Option.some.injEq] at hl; subst hl; simp at hm), hp.nr⟩
  case succeed e v =>
    split
    · exact ⟨h, Fr.refl s⟩
    · exact h.keeps (trigger_keeps h.pkg e _ hd.1 hd.2)
  case fail e x =>
    split
    · exact ⟨h, Fr.refl s⟩
    · exact h.keeps (trigger_keeps h.pkg e _ hd.1 hd.2)
  case spawn st =>
    have hp1 := Pushed.newLabelled s { kind := .proc, cbs := some [], out := none }
    have k1 : Keeps s (s.newLabelled { kind := .proc, cbs := some [], out := none }).1 :=
      ⟨hp1.pkg h.pkg (by intro l c hl hm; simp only [Option.some.injEq] at hl; subst hl; simp at hm), hp1.nr⟩
    have k2 : Keeps s ((s.newLabelled { kind := .proc, cbs := some [], out := none }).1.setProc s.events.size
        { st := st, target := some (s.events.size + 1) }) :=
      k1.trans ⟨k1.1.setProc _ _ (by rw [hp1.ev_new]), NR.setProc _ _ _⟩
    have hp3 := Pushed.newEv ((s.newLabelled { kind := .proc, cbs := some [], out := none }).1.setProc s.events.size
        { st := st, target := some (s.events.size + 1) })
        { kind := .init s.events.size, cbs := some [.resume s.events.size], out := some (.ok .none) }
    have k3 := k2.trans ⟨hp3.pkg k2.1 (by
      intro l c hl hm; simp only [Option.some.injEq] at hl; subst hl; simp at hm), hp3.nr⟩
    refine h.keeps (k3.trans ⟨k3.1.schedule _ _ _ ?_, NR.schedule _ _ _ _⟩)
    have hsz : ((s.newLabelled { kind := .proc, cbs := some [], out := none }).1.setProc s.events.size
        { st := st, target := some (s.events.size + 1) }).events.size = s.events.size + 1 := hp1.size
    have hev := hp3.ev_new
    rw [hsz] at hev
    rw [hev]; simp
  case interrupt p cause =>
    split
    · exact ⟨h, Fr.refl s⟩
    · have := h.keeps (mkInterrupt_keeps h.pkg p cause)
      generalize mkInterrupt s p cause = r at this ⊢
      obtain ⟨s1, o⟩ := r
      cases o <;> exact this
  case probe e tag =>
    split
    · exact ⟨h, Fr.refl s⟩
    · exact h.keeps (addCb_keeps h.pkg e _ (by intro c hc; cases hc))
  case cond all ops => exact h.keeps (mkCond_keeps h.pkg all ops)
  case request r prio pre =>
    split
    · exact ⟨h, Fr.refl s⟩
    · exact h.newPut r _
  case release r req =>
    split
    · exact ⟨h, Fr.refl s⟩
    · exact h.newGet r _
  case cancel e =>
    have := h.cancel e
    generalize cancelReq s e = r at this ⊢
    obtain ⟨s1, o⟩ := r
    cases o <;> exact this
  case cput r a =>
    split
    · exact ⟨h, Fr.refl s⟩
    · split
      · exact ⟨h, Fr.refl s⟩
      · exact h.newPut r _
  case cget r a =>
    split
    · exact ⟨h, Fr.refl s⟩
    · split
      · exact ⟨h, Fr.refl s⟩
      · exact h.newGet r _
  case sput r it =>
    split
    · exact ⟨h, Fr.refl s⟩
    · exact h.newPut r _
  case sget r f =>
    split
    · exact ⟨h, Fr.refl s⟩
    · exact h.newGet r _
  case log what v => exact h.keeps (ghost_keeps h.pkg rfl rfl rfl rfl rfl)
  case load k => exact ⟨h, Fr.refl s⟩
  case store k v => exact h.keeps (ghost_keeps h.pkg rfl rfl rfl rfl rfl)

theorem noteErr_J {rem : List Cb} (self : EvId) (sr : KState ℚ σ × Reply) (h : J sr.1 rem) :
    J (noteErr self sr) rem ∧ Fr sr.1 (noteErr self sr) := by
  unfold noteErr
  split
  · exact h.keeps (ghost_keeps h.pkg rfl rfl rfl rfl rfl)
  · exact ⟨h, Fr.refl _⟩
