import OnlVerif.Lemmas.SndKLts2
/-!
# The TCP sender on the kernel model: `put(ack)`, fragment by fragment
-/

set_option linter.unusedSimpArgs false

namespace SndK
open SenderOnK TcpSender
open TimerK (lookup)

variable {act : Option EvId} {s : KS} {a : A} {p : EvId}

/-- the filter of the list comprehension in `put` -/
def covCond (ackno pid : Nat) (c : Nat) : Bool := decide (c < ackno) || c == pid

/-- one key of the cancellation loop, on configurations: the timer is stopped at `now` and both dict entries go -/
def cancelA1 (cond : Nat → Bool) (now : ℚ) (a : A) (c : Nat) : A :=
  if (AL.get? c a.S.timers).isSome && cond c then
    { a with S := { a.S with timers := AL.del c a.S.timers, sent := AL.del c a.S.sent },
             tmc := upd a.tmc c { a.tmc c with stopped := true, expire := now } }
  else a

def cancelA (cond : Nat → Bool) (now : ℚ) : A → List Nat → A
  | a, [] => a
  | a, c :: cs => cancelA cond now (cancelA1 cond now a c) cs

theorem cancelA1_S (cond : Nat → Bool) (now : ℚ) (a : A) (c : Nat) : (cancelA1 cond now a c).S = cancel1 cond a.S c := by
  unfold cancelA1 cancel1
  split <;> rfl

theorem cancelA_S (cond : Nat → Bool) (now : ℚ) : ∀ (cs : List Nat) (a : A), (cancelA cond now a cs).S = cancelS cond a.S cs
  | [], _ => rfl
  | c :: cs, a => by
    show (cancelA cond now (cancelA1 cond now a c) cs).S = cancelS cond (cancel1 cond a.S c) cs
    rw [cancelA_S cond now cs, cancelA1_S]

/-- the loop changes nothing but `timers`, `sent_packets` and the attributes of the stopped timers -/
theorem cancelA1_frame (cond : Nat → Bool) (now : ℚ) (a : A) (c : Nat) :
    (cancelA1 cond now a c).run = a.run ∧ (cancelA1 cond now a c).scr = a.scr ∧ (cancelA1 cond now a c).pend = a.pend ∧
    (cancelA1 cond now a c).tks = a.tks ∧ (cancelA1 cond now a c).tmp = a.tmp ∧ (cancelA1 cond now a c).tph = a.tph ∧
    (cancelA1 cond now a c).putAt = a.putAt ∧ (cancelA1 cond now a c).txs = a.txs ∧ (cancelA1 cond now a c).cur = a.cur := by
  unfold cancelA1
  split <;> exact ⟨rfl, rfl, rfl, rfl, rfl, rfl, rfl, rfl, rfl⟩

theorem cancelA_frame (cond : Nat → Bool) (now : ℚ) : ∀ (cs : List Nat) (a : A),
    (cancelA cond now a cs).run = a.run ∧ (cancelA cond now a cs).scr = a.scr ∧ (cancelA cond now a cs).pend = a.pend ∧
    (cancelA cond now a cs).tks = a.tks ∧ (cancelA cond now a cs).tmp = a.tmp ∧ (cancelA cond now a cs).tph = a.tph ∧
    (cancelA cond now a cs).putAt = a.putAt ∧ (cancelA cond now a cs).txs = a.txs ∧ (cancelA cond now a cs).cur = a.cur
  | [], _ => ⟨rfl, rfl, rfl, rfl, rfl, rfl, rfl, rfl, rfl⟩
  | c :: cs, a => by
    obtain ⟨f1, f2, f3, f4, f5, f6, f7, f8, f9⟩ := cancelA_frame cond now cs (cancelA1 cond now a c)
    obtain ⟨g1, g2, g3, g4, g5, g6, g7, g8, g9⟩ := cancelA1_frame cond now a c
    exact ⟨f1.trans g1, f2.trans g2, f3.trans g3, f4.trans g4, f5.trans g5, f6.trans g6, f7.trans g7, f8.trans g8, f9.trans g9⟩

theorem cancel1_keys (cond : Nat → Bool) (S : Sender ℚ) (c : Nat) (hk : AL.keys S.timers = AL.keys S.sent)
    (hn : (AL.keys S.timers).Nodup) :
    AL.keys (cancel1 cond S c).timers = AL.keys (cancel1 cond S c).sent ∧ (AL.keys (cancel1 cond S c).timers).Nodup := by
  unfold cancel1
  split
  · exact ⟨by show AL.keys (AL.del c S.timers) = AL.keys (AL.del c S.sent); rw [AL.keys_del, AL.keys_del, hk],
      by show (AL.keys (AL.del c S.timers)).Nodup; rw [AL.keys_del]; exact hn.erase c⟩
  · exact ⟨hk, hn⟩

/-- **the cancellation loop of `put`** over the `n` candidate keys from `seq` on -/
theorem frag_cancel (mss : Nat) (now : ℚ) (ackno pid : Nat) : ∀ (n seq : Nat) (s : KS) (a : A),
    KI act s a → AL.keys a.S.timers = AL.keys a.S.sent → (AL.keys a.S.timers).Nodup →
    ∃ s', (∀ cont, runBurst p (sndCancel mss now ackno pid n seq cont) s = runBurst p cont s') ∧
      KI act s' (cancelA (covCond ackno pid) now a (cands mss seq n))
  | 0, _, s, a, h, _, _ => ⟨s, fun _ => rfl, h⟩
  | n + 1, seq, s, a, h, hk, hn => by
    have hk1 := cancel1_keys (covCond ackno pid) a.S seq hk hn
    rw [← cancelA1_S (covCond ackno pid) now a seq] at hk1
    by_cases hc : ((AL.get? seq a.S.timers).isSome && covCond ackno pid seq) = true
    · have hc' : ((AL.get? seq a.S.timers).isSome && (decide (seq < ackno) || seq == pid)) = true := hc
      have hsome : (AL.get? seq a.S.timers).isSome = true := (Bool.and_eq_true _ _ |>.mp hc).1
      have hmem : seq ∈ AL.keys a.S.timers := by
        cases hg : AL.get? seq a.S.timers with
        | none => rw [hg] at hsome; cases hsome
        | some v => exact AL.mem_of_get?_some hg
      obtain ⟨w, hw⟩ := AL.get?_isSome_of_mem (hk ▸ hmem)
      obtain ⟨s1, r1, h1⟩ := frag_tmStop (p := p) h now seq
      have h2 := h1.del_tin seq hn
      have h3 := h2.del_sent seq (hk ▸ hn)
      have e3 : cancelA1 (covCond ackno pid) now a seq =
          { a with S := { a.S with timers := AL.del seq a.S.timers, sent := AL.del seq a.S.sent },
                   tmc := upd a.tmc seq { a.tmc seq with stopped := true, expire := now } } := by
        unfold cancelA1; rw [hc]; rfl
      obtain ⟨s', r', h'⟩ := frag_cancel mss now ackno pid n (seq + mss) _ _ (h3.congr e3.symm) hk1.1 hk1.2
      refine ⟨s', fun cont => ?_, h'⟩
      unfold sndCancel
      rw [rb_loadFlag (b := (AL.get? seq a.S.timers).isSome) (h.c.tin seq), if_pos hc']
      rw [r1, rb_storeVal, rb_loadOptTime (o := some w) (by rw [h2.c.sent seq]; exact congrArg optEnc hw)]
      simp only [rb_storeVal]
      exact r' cont
    · have hc' : ¬ ((AL.get? seq a.S.timers).isSome && (decide (seq < ackno) || seq == pid)) = true := hc
      have e3 : cancelA1 (covCond ackno pid) now a seq = a := by
        unfold cancelA1; rw [if_neg hc]
      obtain ⟨s', r', h'⟩ := frag_cancel mss now ackno pid n (seq + mss) s a h hk hn
      refine ⟨s', fun cont => ?_, ?_⟩
      · unfold sndCancel
        rw [rb_loadFlag (b := (AL.get? seq a.S.timers).isSome) (h.c.tin seq), if_neg hc']
        exact r' cont
      show KI act s' (cancelA (covCond ackno pid) now (cancelA1 (covCond ackno pid) now a seq) (cands mss (seq + mss) n))
      rw [e3]; exact h'

/-- what the cancellation loop does to the timer of `seq`: nothing, or its entry in `timers` goes and it is stopped at `now` -/
def CancelRel (now : ℚ) (a a' : A) (seq : Nat) : Prop :=
  (AL.get? seq a'.S.timers = AL.get? seq a.S.timers ∧ a'.tmc seq = a.tmc seq) ∨
  (AL.get? seq a'.S.timers = none ∧ (AL.get? seq a.S.timers).isSome = true ∧
    a'.tmc seq = { a.tmc seq with stopped := true, expire := now })

theorem cancelA_rel (cond : Nat → Bool) (now : ℚ) : ∀ (cs : List Nat) (a : A), (AL.keys a.S.timers).Nodup →
    (AL.keys (cancelA cond now a cs).S.timers).Sublist (AL.keys a.S.timers) ∧
    ∀ seq, CancelRel now a (cancelA cond now a cs) seq
  | [], a, _ => ⟨List.Sublist.refl _, fun _ => Or.inl ⟨rfl, rfl⟩⟩
  | c :: cs, a, hn => by
    by_cases hc : ((AL.get? c a.S.timers).isSome && cond c) = true
    · have e1 : cancelA1 cond now a c =
          { a with S := { a.S with timers := AL.del c a.S.timers, sent := AL.del c a.S.sent },
                   tmc := upd a.tmc c { a.tmc c with stopped := true, expire := now } } := by
        unfold cancelA1; rw [if_pos hc]
      have hn1 : (AL.keys (cancelA1 cond now a c).S.timers).Nodup := by
        rw [e1]; show (AL.keys (AL.del c a.S.timers)).Nodup
        rw [AL.keys_del]; exact hn.erase c
      obtain ⟨i1, i2⟩ := cancelA_rel cond now cs (cancelA1 cond now a c) hn1
      have hsub1 : (AL.keys (cancelA1 cond now a c).S.timers).Sublist (AL.keys a.S.timers) := by
        rw [e1]; show (AL.keys (AL.del c a.S.timers)).Sublist _
        rw [AL.keys_del]; exact List.erase_sublist
      refine ⟨i1.trans hsub1, fun seq => ?_⟩
      have hsome : (AL.get? c a.S.timers).isSome = true := (Bool.and_eq_true _ _ |>.mp hc).1
      have g1 : ∀ seq, AL.get? seq (cancelA1 cond now a c).S.timers = if seq = c then none else AL.get? seq a.S.timers := by
        intro seq; rw [e1]; exact AL_get?_del _ _ _ hn
      have t1 : ∀ seq, (cancelA1 cond now a c).tmc seq =
          if seq = c then { a.tmc c with stopped := true, expire := now } else a.tmc seq := by
        intro seq; rw [e1]; rfl
      show CancelRel now a (cancelA cond now (cancelA1 cond now a c) cs) seq
      by_cases hs : seq = c
      · subst hs
        rcases i2 seq with ⟨j1, j2⟩ | ⟨_, j2, _⟩
        · exact Or.inr ⟨by rw [j1, g1, if_pos rfl], hsome, by rw [j2, t1, if_pos rfl]⟩
        · rw [g1, if_pos rfl] at j2; cases j2
      · rcases i2 seq with ⟨j1, j2⟩ | ⟨j1, j2, j3⟩
        · exact Or.inl ⟨by rw [j1, g1, if_neg hs], by rw [j2, t1, if_neg hs]⟩
        · exact Or.inr ⟨j1, by rw [g1, if_neg hs] at j2; exact j2, by rw [j3, t1, if_neg hs]⟩
    · have e1 : cancelA1 cond now a c = a := by unfold cancelA1; rw [if_neg hc]
      show (AL.keys (cancelA cond now (cancelA1 cond now a c) cs).S.timers).Sublist _ ∧
        ∀ seq, CancelRel now a (cancelA cond now (cancelA1 cond now a c) cs) seq
      rw [e1]
      exact cancelA_rel cond now cs a hn

/-! ## duplicate-ACK counting -/

theorem frag_countDup (h : KI act s a) (ackno : Nat) :
    ∃ s', (∀ cont : Nat → B ℚ, runBurst p (sndCountDup ackno a.S.last_ack a.S.dupack cont) s =
        runBurst p (cont (a.S.countDup ackno).dupack) s') ∧ KI act s' { a with S := a.S.countDup ackno } := by
  unfold sndCountDup Sender.countDup
  by_cases h1 : ackno = a.S.last_ack
  · simp only [h1, if_true]
    exact ⟨_, fun cont => by rw [rb_storeNat], h.set_dup _⟩
  · simp only [h1, if_false]
    by_cases h2 : a.S.dupack > 0
    · simp only [h2, if_true]
      unfold Sender.leaveDups
      by_cases h3 : a.S.dupack ≥ 3
      · simp only [h3, if_true]
        exact ⟨_, fun cont => by rw [rb_ccCall h, rb_storeNat], (h.set_cc _).set_dup 0⟩
      · simp only [h3, if_false]
        exact ⟨_, fun cont => by rw [rb_storeNat], h.set_dup 0⟩
    · simp only [h2, if_false]
      exact ⟨s, fun _ => rfl, h⟩

end SndK
