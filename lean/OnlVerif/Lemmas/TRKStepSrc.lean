import OnlVerif.Lemmas.TRKStepRun
/-!
# The two-rate token bucket on the kernel model: kernel steps of the source and of the pending `StorePut` events
-/

set_option linter.unusedSimpArgs false

namespace TRK
open TwoRateOnK
open TimerK (lookup plookup afterBurst resume_eq step_eq dec_enc)

variable {size : Int → Nat} {cfg : TrCfg ℚ}
variable {s : KS} {a : A} {q : QEntry ℚ} {rest : List (QEntry ℚ)}

/-- where the source goes after a `put` (or at its start): it sleeps until the next arrival (timeout event `ev`, entry number
`eid`) or its generator returns (process event 2) -/
def srcNext (now : ℚ) (eid : Nat) (ev : EvId) (next : Nat) : List ℚ → SPhase
  | [] => .ending ⟨now, NORMAL, eid, 2⟩
  | gap :: r => .wait next r ⟨now + gap, NORMAL, eid, ev⟩

/-- the `Initialize` event of the source: it sleeps until the first arrival, or returns at once -/
theorem kstep_srcInit (fuel : Nat) (hk : KInv s a) {arr : List ℚ} (hph : a.src = .init q arr) (hgap : GapsOK arr)
    (hp : popMin s.agenda = some (q, rest)) (hrest : rest.Perm (a.run.entries ++ a.pend)) :
    ∃ s', step (body size cfg) (fuel + 1) s = .ok s' ∧
      KInv s' { a with src := srcNext q.time s.eid s.events.size 0 arr } ∧
      s'.now = q.time ∧ histOf s'.trace = histOf s.trace := by
  have hr := hk.src
  rw [hph] at hr
  obtain ⟨hqe, ⟨hkind, hcbs, hout⟩, hproc, ⟨hpk, hpc, hpo⟩⟩ := hr
  have hgs : 3 < s.events.size := KState.lt_of_cbs hcbs
  have hwf := openEvent_wf s q rest hk.wf hp
  have hlt := hk.idlt
  rw [step_eq _ _ _ _ _ _ hp (hqe ▸ hcbs)]
  simp only [List.foldl, runCb]
  rw [resume_eq _ _ _ _ _ _ (show (openEvent s q rest).proc? 2 = _ from hproc)]
  simp only [KState.ev] at hkind hcbs hout hpk hpc hpo
  obtain ⟨nrun, nsrc, npend, drun, dsrc⟩ := (ids_nodup_iff a).mp hk.nd
  simp only [hph, trids] at nsrc drun dsrc hlt
  have hrun2 : ∀ e ∈ a.run.ids, e ≠ 2 ∧ e ≠ 3 := fun e he => ⟨fun h => (drun e he).1.1 h, fun h => (drun e he).1.2 h⟩
  have hpend2 : ∀ e ∈ pendIds a.pend, e ≠ 2 ∧ e ≠ 3 := fun e he => ⟨fun h => dsrc.1 (h ▸ he), fun h => dsrc.2 (h ▸ he)⟩
  have h2lt : 2 < s.events.size := by omega
  rcases arr with _ | ⟨gap, r⟩
  · bsimp [hqe, hgs, h2lt, hkind, hcbs, hout, hpk, hpc, hpo, Nat.ne_of_lt hgs, Nat.ne_of_lt h2lt, srcNext]
    refine ⟨⟨?_, ?_, ?_, ?_, ?_, ?_, ?_, ?_, ?_, ?_, ?_, ?_, ?_, ?_⟩, ?_⟩
    · exact wf_push1 hwf.1 _ rfl rfl rfl rfl (le_refl _)
    · simp only [A.entries, SPhase.entries, List.singleton_append]
      exact (List.Perm.cons _ hrest).trans List.perm_middle.symm
    · exact hk.rsz
    · exact hk.res
    · refine (hk.keep_run_pend [3, 2] (by evkeep) ?_ ?_).1
      · intro e he; simp only [List.mem_cons, List.not_mem_nil, or_false, not_or]
        exact he.elim (fun h => ⟨(hrun2 e h).2, (hrun2 e h).1⟩) (fun h => ⟨(hpend2 e h).2, (hpend2 e h).1⟩)
      · bsimp
    · refine ⟨rfl, ?_⟩
      bsimp [EvIs, hgs, h2lt, hpk, hpc]
    · refine (hk.keep_run_pend [3, 2] (by evkeep) ?_ ?_).2
      · intro e he; simp only [List.mem_cons, List.not_mem_nil, or_false, not_or]
        exact he.elim (fun h => ⟨(hrun2 e h).2, (hrun2 e h).1⟩) (fun h => ⟨(hpend2 e h).2, (hpend2 e h).1⟩)
      · bsimp
    · have hnd := hk.nd
      simp only [trids, hph] at hnd ⊢
      grind
    · exact hk.c0
    · exact hk.c1
    · exact hk.c2
    · exact hk.c3
    · exact hk.c4
    · exact hk.ct
    · simp [histOf_push]
  · have hg : 0 ≤ gap := hgap gap (by simp)
    bsimp [hqe, hgs, h2lt, hkind, hcbs, hout, hpk, hpc, hpo, Nat.ne_of_lt hgs, Nat.ne_of_lt h2lt, srcNext, hg]
    refine ⟨⟨?_, ?_, ?_, ?_, ?_, ?_, ?_, ?_, ?_, ?_, ?_, ?_, ?_, ?_⟩, ?_⟩
    · exact wf_push1 hwf.1 _ rfl rfl rfl rfl (by show q.time ≤ q.time + gap; linarith)
    · simp only [A.entries, SPhase.entries, List.singleton_append]
      exact (List.Perm.cons _ hrest).trans List.perm_middle.symm
    · exact hk.rsz
    · exact hk.res
    · refine (hk.keep_run_pend [3] (by evkeep) ?_ ?_).1
      · intro e he; simp only [List.mem_singleton]
        exact he.elim (fun h => (hrun2 e h).2) (fun h => (hpend2 e h).2)
      · bsimp
    · refine ⟨?_, ?_, ?_⟩
      · bsimp [EvIs]
      · bsimp
      · bsimp [EvIs, hgs, h2lt, hpk, hpc, hpo, Nat.ne_of_lt h2lt]
    · refine (hk.keep_run_pend [3] (by evkeep) ?_ ?_).2
      · intro e he; simp only [List.mem_singleton]
        exact he.elim (fun h => (hrun2 e h).2) (fun h => (hpend2 e h).2)
      · bsimp
    · have hnd := hk.nd
      simp only [trids, hph] at hnd ⊢
      grind
    · exact hk.c0
    · exact hk.c1
    · exact hk.c2
    · exact hk.c3
    · exact hk.c4
    · exact hk.ct
    · simp [histOf_push]

/-- the process event of the finished source: nobody waits for it -/
theorem kstep_srcEnd (fuel : Nat) (hk : KInv s a) (hph : a.src = .ending q)
    (hp : popMin s.agenda = some (q, rest)) (hrest : rest.Perm (a.run.entries ++ a.pend)) :
    ∃ s', step (body size cfg) (fuel + 1) s = .ok s' ∧
      KInv s' { a with src := .done } ∧
      s'.now = q.time ∧ histOf s'.trace = histOf s.trace := by
  have hr := hk.src
  rw [hph] at hr
  obtain ⟨hqe, ⟨hkind, hcbs, hout⟩⟩ := hr
  have hgs : 2 < s.events.size := KState.lt_of_cbs hcbs
  have hwf := openEvent_wf s q rest hk.wf hp
  rw [step_eq _ _ _ _ _ _ hp (hqe ▸ hcbs)]
  simp only [List.foldl]
  simp only [KState.ev] at hkind hcbs hout
  obtain ⟨nrun, nsrc, npend, drun, dsrc⟩ := (ids_nodup_iff a).mp hk.nd
  simp only [hph, trids] at nsrc drun dsrc
  bsimp [hqe, hgs, hkind, hcbs, hout]
  refine ⟨?_, ?_, ?_, ?_, ?_, ?_, ?_, ?_, ?_, ?_, ?_, ?_, ?_, ?_⟩
  · exact wf_same hwf.1 rfl rfl rfl
  · simp only [A.entries, SPhase.entries, List.nil_append]
    exact hrest
  · exact hk.rsz
  · exact hk.res
  · refine (hk.keep_run_pend [2] ?_ ?_ ?_).1
    · evkeep
    · intro e he; simp only [List.mem_singleton]
      exact he.elim (fun h h2 => (drun e h).1 h2) (fun h h2 => dsrc (h2 ▸ h))
    · rfl
  · trivial
  · refine (hk.keep_run_pend [2] ?_ ?_ ?_).2
    · evkeep
    · intro e he; simp only [List.mem_singleton]
      exact he.elim (fun h h2 => (drun e h).1 h2) (fun h h2 => dsrc (h2 ▸ h))
    · rfl
  · have hnd := hk.nd
    simp only [trids, hph] at hnd ⊢
    grind
  · exact hk.c0
  · exact hk.c1
  · exact hk.c2
  · exact hk.c3
  · exact hk.c4
  · exact hk.ct

/-- the source's timeout: `put(packet)` counts the packet, notes the instant (ghost) and stores it; then the source sleeps
until the next arrival or returns -/
theorem kstep_srcPut (fuel : Nat) (hk : KInv s a) {next : Nat} {arr : List ℚ} (hph : a.src = .wait next arr q)
    (hnext : next = a.cts.length) (hgap : GapsOK arr)
    (hp : popMin s.agenda = some (q, rest)) (hrest : rest.Perm (a.run.entries ++ a.pend)) :
    ∃ s', step (body size cfg) (fuel + 1) s = .ok s' ∧
      KInv s' { a with
        src := srcNext q.time (s.eid + 1) (s.events.size + 1) (next + 1) arr
        pend := a.pend ++ [⟨q.time, NORMAL, s.eid, s.events.size⟩]
        items := a.items ++ [(next : Int)]
        cts := a.cts ++ [q.time] } ∧
      s'.now = q.time ∧ histOf s'.trace = histOf s.trace ++ [.put next q.time] := by
  have hr := hk.src
  rw [hph] at hr
  obtain ⟨⟨hkind, hcbs, hout⟩, hproc, ⟨hpk, hpc, hpo⟩⟩ := hr
  have hgs : q.ev < s.events.size := KState.lt_of_cbs hcbs
  have h2lt : 2 < s.events.size := KState.lt_of_cbs hpc
  have hwf := openEvent_wf s q rest hk.wf hp
  have hlt := hk.idlt
  have hres := hk.res
  have hrsz := hk.rsz
  have hc0 := hk.c0; have hc1 := hk.c1; have hc2 := hk.c2; have hc3 := hk.c3; have hc4 := hk.c4
  simp only [cRecv_val, cSent_val, cCommit_val, cUpd_val, cPeak_val] at hc0 hc1 hc2 hc3 hc4
  simp only [KState.res] at hres
  rw [step_eq _ _ _ _ _ _ hp hcbs]
  simp only [List.foldl, runCb]
  rw [resume_eq _ _ _ _ _ _ (show (openEvent s q rest).proc? 2 = _ from hproc)]
  simp only [KState.ev] at hkind hcbs hout hpk hpc hpo
  obtain ⟨nrun, nsrc, npend, drun, dsrc⟩ := (ids_nodup_iff a).mp hk.nd
  simp only [hph, trids] at nsrc drun dsrc hlt
  have h2q : ¬ 2 = q.ev := nsrc
  have hrun2 : ∀ e ∈ a.run.ids, e ≠ q.ev := fun e he h => (drun e he).1.2 h
  have hrunp : ∀ e ∈ a.run.ids, e ≠ 2 := fun e he h => (drun e he).1.1 h
  have hpend2 : ∀ e ∈ pendIds a.pend, e ≠ q.ev := fun e he h => dsrc.2 (h ▸ he)
  have hpendp : ∀ e ∈ pendIds a.pend, e ≠ 2 := fun e he h => dsrc.1 (h ▸ he)
  have hne0 : ¬ s.events = #[] := by intro h; rw [h] at h2lt; simp at h2lt
  have hl3 : ∀ e ∈ a.run.ids, e < s.events.size := fun e he => hlt e (Or.inl he)
  have hl4 : ∀ e ∈ pendIds a.pend, e < s.events.size := fun e he => hlt e (Or.inr (Or.inr (Or.inr he)))
  have hleaf : ∀ (X : List EvId), (∀ e, e ∈ a.run.ids ∨ e ∈ pendIds a.pend → e ∉ X) → True := fun _ _ => trivial
  rcases arr with _ | ⟨gap, r⟩
  · bsimp [hgs, h2lt, hkind, hcbs, hout, hpk, hpc, hpo, Nat.ne_of_lt hgs, Nat.ne_of_lt h2lt, srcNext, h2q, Ne.symm h2q,
      doCall_sput (r := 0) (gq := a.run.getQ) (its := a.items), hres, hrsz, hc0, TimerK.ne_fresh hgs, TimerK.ne_fresh h2lt, stamp_ne]
    have hXrun : ∀ e, e ∈ a.run.ids ∨ e ∈ pendIds a.pend → e ∉ [q.ev, 2] := by
      intro e he
      simp only [List.mem_cons, List.mem_singleton, List.not_mem_nil, or_false, not_or]
      rcases he with h | h
      · exact ⟨hrun2 e h, hrunp e h⟩
      · exact ⟨hpend2 e h, hpendp e h⟩
    refine ⟨⟨?_, ?_, ?_, ?_, ?_, ?_, ?_, ?_, ?_, ?_, ?_, ?_, ?_, ?_⟩, ?_⟩
    · exact wf_push2 hwf.1 _ _ rfl rfl rfl rfl rfl (le_refl _) (le_refl _)
    · simp only [A.entries, SPhase.entries, List.singleton_append]
      perm_count hrest
    · bsimp [hrsz]
    · bsimp [KState.res, getD_setIfInBounds, hrsz]
    · refine (hk.keep_run_pend [q.ev, 2] (by evkeep) hXrun ?_).1
      bsimp
    · exact ⟨rfl, by bsimp [EvIs, hgs, h2lt, hpk, hpc, Nat.ne_of_lt h2lt, TimerK.ne_fresh h2lt, h2q, Ne.symm h2q, hne0]⟩
    · intro u hu
      rcases List.mem_append.mp hu with hu | hu
      · refine (hk.keep_run_pend [q.ev, 2] (by evkeep) hXrun ?_).2 u hu
        bsimp
      · simp only [List.mem_cons, List.not_mem_nil, or_false] at hu
        subst hu
        bsimp [EvIs, hne0, TimerK.ne_fresh h2lt, TimerK.ne_fresh hgs]
    · have hnd := hk.nd
      simp only [trids, hph] at hnd ⊢
      grind
    · bsimp [hc0, stamp_ne]
    · bsimp [hc1, stamp_ne]
    · bsimp [hc2, stamp_ne]
    · bsimp [hc3, stamp_ne]
    · bsimp [hc4, stamp_ne]
    · intro k hk'
      simp only [List.length_append, List.length_singleton] at hk'
      by_cases hkn : k = a.cts.length
      · subst hkn
        bsimp [hnext, List.getD_eq_getElem?_getD]
      · have hk2 : k < a.cts.length := by omega
        have := hk.ct k hk2
        bsimp [hnext, hkn, Ne.symm hkn, stamp_ne, this, List.getD_eq_getElem?_getD, List.getElem?_append_left hk2]
    · simp [histOf_push]
  · have hg : 0 ≤ gap := hgap gap (by simp)
    bsimp [hgs, h2lt, hkind, hcbs, hout, hpk, hpc, hpo, Nat.ne_of_lt hgs, Nat.ne_of_lt h2lt, srcNext, h2q, Ne.symm h2q,
      doCall_sput (r := 0) (gq := a.run.getQ) (its := a.items), hres, hrsz, hc0, TimerK.ne_fresh hgs, TimerK.ne_fresh h2lt, stamp_ne, hg]
    have hXrun : ∀ e, e ∈ a.run.ids ∨ e ∈ pendIds a.pend → e ∉ [q.ev] := by
      intro e he
      simp only [List.mem_singleton]
      rcases he with h | h
      · exact hrun2 e h
      · exact hpend2 e h
    refine ⟨⟨?_, ?_, ?_, ?_, ?_, ?_, ?_, ?_, ?_, ?_, ?_, ?_, ?_, ?_⟩, ?_⟩
    · exact wf_push2 hwf.1 _ _ rfl rfl rfl rfl rfl (by show q.time ≤ q.time + gap; linarith) (le_refl _)
    · simp only [A.entries, SPhase.entries, List.singleton_append]
      perm_count hrest
    · bsimp [hrsz]
    · bsimp [KState.res, getD_setIfInBounds, hrsz]
    · refine (hk.keep_run_pend [q.ev] (by evkeep) hXrun ?_).1
      bsimp
    · exact ⟨by bsimp [EvIs, hne0], by bsimp [hne0], by bsimp [EvIs, hgs, h2lt, hpk, hpc, hpo, Nat.ne_of_lt h2lt, TimerK.ne_fresh h2lt, h2q, Ne.symm h2q, hne0]⟩
    · intro u hu
      rcases List.mem_append.mp hu with hu | hu
      · refine (hk.keep_run_pend [q.ev] (by evkeep) hXrun ?_).2 u hu
        bsimp
      · simp only [List.mem_cons, List.not_mem_nil, or_false] at hu
        subst hu
        bsimp [EvIs, hne0, TimerK.ne_fresh h2lt, TimerK.ne_fresh hgs]
    · have hnd := hk.nd
      simp only [trids, hph] at hnd ⊢
      grind
    · bsimp [hc0, stamp_ne]
    · bsimp [hc1, stamp_ne]
    · bsimp [hc2, stamp_ne]
    · bsimp [hc3, stamp_ne]
    · bsimp [hc4, stamp_ne]
    · intro k hk'
      simp only [List.length_append, List.length_singleton] at hk'
      by_cases hkn : k = a.cts.length
      · subst hkn
        bsimp [hnext, List.getD_eq_getElem?_getD]
      · have hk2 : k < a.cts.length := by omega
        have := hk.ct k hk2
        bsimp [hnext, hkn, Ne.symm hkn, stamp_ne, this, List.getD_eq_getElem?_getD, List.getElem?_append_left hk2]
    · simp [histOf_push]

/-! ## the pending `StorePut` events -/

theorem pendIds_split (l1 l2 : List (QEntry ℚ)) (u : QEntry ℚ) :
    pendIds (l1 ++ u :: l2) = pendIds l1 ++ u.ev :: pendIds l2 := by simp [pendIds]

/-- what the `Nodup` of a configuration gives when one pending entry is taken out -/
theorem pend_split_facts {a : A} {q : QEntry ℚ} {l1 l2 : List (QEntry ℚ)}
    (hpe : a.pend = l1 ++ q :: l2) (npend : (pendIds a.pend).Nodup) :
    q.ev ∈ pendIds a.pend ∧ (∀ x, x ∈ pendIds (l1 ++ l2) → x ∈ pendIds a.pend) ∧
    (∀ u ∈ l1 ++ l2, u.ev ≠ q.ev) ∧ (pendIds (l1 ++ l2)).Nodup ∧ (∀ u ∈ l1 ++ l2, u ∈ a.pend) := by
  have hsub : ∀ x, x ∈ pendIds (l1 ++ l2) → x ∈ pendIds a.pend := by
    intro x h
    rw [hpe, pendIds_split]
    rw [pendIds_append] at h
    rcases List.mem_append.mp h with h | h
    · exact List.mem_append_left _ h
    · exact List.mem_append_right _ (List.mem_cons_of_mem _ h)
  rw [hpe, pendIds_split] at npend
  have hn := List.nodup_cons.mp (List.perm_middle.nodup_iff.mp npend)
  refine ⟨by rw [hpe, pendIds_split]; simp, hsub, ?_, by rw [pendIds_append]; exact hn.2, ?_⟩
  · intro u hu h
    exact hn.1 (by rw [← h, ← pendIds_append]; exact mem_pendIds_of hu)
  · intro u hu
    rw [hpe]
    rcases List.mem_append.mp hu with h | h
    · exact List.mem_append_left _ h
    · exact List.mem_append_right _ (List.mem_cons_of_mem _ h)

/-- a `StorePut` event is processed (`_trigger_get`) and nobody can be served: nothing happens -/
theorem kstep_pendNoop (fuel : Nat) (hk : KInv s a) {l1 l2 : List (QEntry ℚ)}
    (hpe : a.pend = l1 ++ q :: l2) (htg : triggerGet (openEvent s q rest) 0 = openEvent s q rest)
    (hp : popMin s.agenda = some (q, rest)) (hrest : rest.Perm (a.run.entries ++ (a.src.entries ++ (l1 ++ l2)))) :
    ∃ s', step (body size cfg) (fuel + 1) s = .ok s' ∧
      KInv s' { a with pend := l1 ++ l2 } ∧
      s'.now = q.time ∧ histOf s'.trace = histOf s.trace := by
  have hu : q ∈ a.pend := by rw [hpe]; simp
  obtain ⟨hkind, hcbs, hout⟩ := hk.pend q hu
  have hgs : q.ev < s.events.size := KState.lt_of_cbs hcbs
  have hwf := openEvent_wf s q rest hk.wf hp
  rw [step_eq _ _ _ _ _ _ hp hcbs]
  simp only [List.foldl, runCb]
  rw [htg]
  simp only [KState.ev] at hkind hcbs hout
  obtain ⟨nrun, nsrc, npend, drun, dsrc⟩ := (ids_nodup_iff a).mp hk.nd
  obtain ⟨hqmem, hsub, hpq, npend', hmem⟩ := pend_split_facts hpe npend
  have hrunq : ∀ e ∈ a.run.ids, e ≠ q.ev := fun e he h => (drun e he).2 (h ▸ hqmem)
  have hsrcq : ∀ e ∈ a.src.ids, e ≠ q.ev := fun e he h => dsrc e he (h ▸ hqmem)
  bsimp [hgs, hkind, hcbs, hout]
  refine ⟨?_, ?_, ?_, ?_, ?_, ?_, ?_, ?_, ?_, ?_, ?_, ?_, ?_, ?_⟩
  · exact wf_same hwf.1 rfl rfl rfl
  · exact hrest
  · exact hk.rsz
  · exact hk.res
  · refine hk.run.keep (X := [q.ev]) (by evkeep) ?_ rfl
    intro e he; simp only [List.mem_singleton]; exact hrunq e he
  · refine hk.src.keep (X := [q.ev]) (by evkeep) ?_ rfl
    intro e he; simp only [List.mem_singleton]; exact hsrcq e he
  · intro u hu
    refine (hk.pend u (hmem u hu)).keep (X := [q.ev]) (by evkeep) ?_
    simp only [List.mem_singleton]; exact hpq u hu
  · rw [ids_nodup_iff]
    exact ⟨nrun, nsrc, npend', fun x hx => ⟨(drun x hx).1, fun h => (drun x hx).2 (hsub x h)⟩,
      fun x hx h => dsrc x hx (hsub x h)⟩
  · exact hk.c0
  · exact hk.c1
  · exact hk.c2
  · exact hk.c3
  · exact hk.c4
  · exact hk.ct

/-- a `StorePut` event is processed while `run` is blocked in `store.get()`: the head item is handed over, the `StoreGet`
event of `run` is triggered -/
theorem kstep_pendHand (fuel : Nat) (hk : KInv s a) {g : EvId} {t0 : ℚ} {i : Int} {is : List Int} {l1 l2 : List (QEntry ℚ)}
    (hpe : a.pend = l1 ++ q :: l2) (hph : a.run = .W g t0) (hit : a.items = i :: is)
    (hp : popMin s.agenda = some (q, rest)) (hrest : rest.Perm (a.run.entries ++ (a.src.entries ++ (l1 ++ l2)))) :
    ∃ s', step (body size cfg) (fuel + 1) s = .ok s' ∧
      KInv s' { a with pend := l1 ++ l2, run := .H g i ⟨q.time, NORMAL, s.eid, g⟩ t0, items := is } ∧
      s'.now = q.time ∧ histOf s'.trace = histOf s.trace := by
  have hu : q ∈ a.pend := by rw [hpe]; simp
  obtain ⟨hkind, hcbs, hout⟩ := hk.pend q hu
  have hgs : q.ev < s.events.size := KState.lt_of_cbs hcbs
  have hwf := openEvent_wf s q rest hk.wf hp
  have hr := hk.run
  rw [hph] at hr
  obtain ⟨⟨hgk, hgc, hgo⟩, hproc0, hp0⟩ := hr
  have hgg : g < s.events.size := KState.lt_of_cbs hgc
  have hres := hk.res
  have hrsz := hk.rsz
  rw [hph, hit] at hres
  simp only [KState.res, RPhase.getQ] at hres
  obtain ⟨nrun, nsrc, npend, drun, dsrc⟩ := (ids_nodup_iff a).mp hk.nd
  obtain ⟨hqmem, hsub, hpq, npend', hmem⟩ := pend_split_facts hpe npend
  simp only [hph, trids] at nrun drun
  obtain ⟨⟨d0s, d0p⟩, ⟨dgs, dgp⟩⟩ := drun
  have hgq : g ≠ q.ev := fun h => dgp (h ▸ hqmem)
  have h0q : (0 : Nat) ≠ q.ev := fun h => d0p (h ▸ hqmem)
  have hsrcq : ∀ e ∈ a.src.ids, e ≠ q.ev := fun e he h => dsrc e he (h ▸ hqmem)
  have hpg : ∀ u ∈ l1 ++ l2, u.ev ≠ g := fun u hu h => dgp (hsub _ (h ▸ mem_pendIds_of hu))
  have hsrcg : ∀ e ∈ a.src.ids, e ≠ g := fun e he h => dgs (h ▸ he)
  rw [step_eq _ _ _ _ _ _ hp hcbs]
  simp only [List.foldl, runCb]
  simp only [KState.ev] at hkind hcbs hout hgk hgc hgo
  rw [triggerGet_hand (openEvent s q rest) 0 g i is hrsz (by bsimp [hgg]) hres]
  bsimp [hgs, hgg, hkind, hcbs, hout, hgk, hgc, hgo, hgq, Ne.symm hgq]
  refine ⟨?_, ?_, ?_, ?_, ?_, ?_, ?_, ?_, ?_, ?_, ?_, ?_, ?_, ?_⟩
  · exact wf_push1 hwf.1 _ rfl rfl rfl rfl (le_refl _)
  · simp only [A.entries, RPhase.entries, List.singleton_append]
    rw [hph] at hrest
    simp only [RPhase.entries, List.nil_append] at hrest
    exact List.Perm.cons _ hrest
  · bsimp [hrsz]
  · bsimp [KState.res, getD_setIfInBounds, hrsz, RPhase.getQ]
  · refine ⟨rfl, ?_, hproc0, ?_⟩
    · bsimp [EvIs, hgg, hgk, hgc, hgq, Ne.symm hgq]
    · exact hp0.keep (X := [q.ev, g]) (by evkeep) (by simp; exact ⟨h0q, nrun⟩)
  · refine hk.src.keep (X := [q.ev, g]) (by evkeep) ?_ rfl
    intro e he; simp only [List.mem_cons, List.not_mem_nil, or_false, not_or]; exact ⟨hsrcq e he, hsrcg e he⟩
  · intro u hu
    refine (hk.pend u (hmem u hu)).keep (X := [q.ev, g]) (by evkeep) ?_
    simp only [List.mem_cons, List.not_mem_nil, or_false, not_or]; exact ⟨hpq u hu, hpg u hu⟩
  · rw [ids_nodup_iff]
    refine ⟨by simpa [trids] using nrun, nsrc, npend', ?_, fun x hx h => dsrc x hx (hsub x h)⟩
    intro x hx
    simp only [trids] at hx
    rcases hx with rfl | rfl
    · exact ⟨d0s, fun h => d0p (hsub _ h)⟩
    · exact ⟨dgs, fun h => dgp (hsub _ h)⟩
  · exact hk.c0
  · exact hk.c1
  · exact hk.c2
  · exact hk.c3
  · exact hk.c4
  · exact hk.ct

end TRK
