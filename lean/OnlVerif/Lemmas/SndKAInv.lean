import OnlVerif.Lemmas.SndKFrag
/-!
# The TCP sender on the kernel model: what holds of the configurations of a run (`AInv`), and the clock

`AInv cfg a`: the LTS state of the configuration satisfies the invariant of the sender LTS (`TcpSender.Inv`); the keys of
`timers` are candidate keys, in order; every `Timer` object agrees with its entry in `timers` (a live timer is not stopped and
its process sleeps until exactly `expire_time`; a timer without entry is stopped); the entries of the agenda are due now
(process starts, hand-offs, pending `StorePut`s) or later (timeouts); the script delivers well-formed ACKs.  The lemma
`tick_ok` shows that the clock advance of a kernel step is an admissible `tick` of the LTS.
-/

set_option linter.unusedSimpArgs false

namespace SndK
open SenderOnK TcpSender

/-- the deliveries still to come: gaps are not negative, ACK packets carry a flow id `≥ 10000` and are not stamped in the
future of their delivery -/
def ScriptOK : ℚ → Script → Prop
  | _, [] => True
  | t, (gap, x) :: rest => 0 ≤ gap ∧ 10000 ≤ x.fid ∧ x.ptime ≤ t + gap ∧ ScriptOK (t + gap) rest

/-- the `Timer` of segment `seq` and its entry in `self.timers` -/
def TmA (a : A) (seq : Nat) : Prop :=
  match AL.get? seq a.S.timers with
  | some r =>
    (a.tmc seq).stopped = false ∧ r = ⟨(a.tmc seq).expire, (a.tmc seq).expire, true⟩ ∧
    (match a.tph seq with
     | .init q => q.time = a.S.now ∧ q.prio = URGENT ∧ a.S.now < (a.tmc seq).expire
     | .sleep _ q => q.time = (a.tmc seq).expire ∧ q.prio = NORMAL
     | _ => False)
  | none =>
    (a.tmc seq).stopped = true ∧ (a.tmc seq).expire ≤ a.S.now ∧
    (match a.tph seq with
     | .init q => q.time = a.S.now ∧ q.prio = URGENT
     | .sleep _ q => q.prio = NORMAL
     | .ending q => q.prio = NORMAL
     | .gone => True
     | .running => False)

def RunA (a : A) : RPhase → Prop
  | .init q => q.time = a.S.now ∧ q.prio = URGENT ∧ a.S.proc = .runnable
  | .blocked _ t0 => a.S.proc = .blocked ∧ t0 ≤ a.S.now ∧ a.S.tokens ≤ a.pend.length ∧ (0 < a.S.tokens → a.putAt = a.S.now)
  | .handed _ t0 q => q.time = a.S.now ∧ q.prio = NORMAL ∧ a.S.proc = .runnable ∧ Num.pymax t0 a.putAt = a.S.now
  | .ending q => a.S.proc = .finished ∧ q.prio = NORMAL
  | .done => a.S.proc = .finished
  | .running => False

def ScrA (a : A) : SPhase → Prop
  | .init q rest => q.time = a.S.now ∧ q.prio = URGENT ∧ ScriptOK a.S.now rest
  | .wait x rest q => q.prio = NORMAL ∧ 10000 ≤ x.fid ∧ x.ptime ≤ q.time ∧ ScriptOK q.time rest
  | .ending q => q.prio = NORMAL
  | .done => True
  | .running => False

structure AInv (cfg : Cfg) (a : A) : Prop where
  inv : Inv a.S
  kind : a.S.kind = cfg.kind
  mss : a.S.mss = cfg.mss
  size : a.S.size = some cfg.size
  mpos : 0 < cfg.mss
  spos : 0 < cfg.size
  dvd : cfg.mss ∣ cfg.size
  tks : a.tks = segKeys cfg.mss a.S.next_seq
  nmul : cfg.mss ∣ a.S.next_seq
  bufle : a.S.send_buffer ≤ cfg.size
  tkeys : (AL.keys a.S.timers).Sublist a.tks
  cur : a.cur = none
  run : RunA a a.run
  scr : ScrA a a.scr
  pend : ∀ u ∈ a.pend, u.time = a.S.now ∧ u.prio = NORMAL
  tm : ∀ seq ∈ a.tks, TmA a seq
  putAt : a.putAt ≤ a.S.now

/-! ## the popped entry is the earliest -/

theorem min_time {l : List (QEntry ℚ)} {q : QEntry ℚ} {rest ents : List (QEntry ℚ)} (hp : popMin l = some (q, rest))
    (hag : l.Perm ents) : ∀ x ∈ ents, q.time ≤ x.time := by
  obtain ⟨h1, h2⟩ := popMin_spec _ _ _ hp
  intro x hx
  have : x ∈ q :: rest := h1.subset (hag.symm.subset hx)
  rcases List.mem_cons.mp this with rfl | hr
  · exact le_refl _
  · exact not_keyLt_time (h2 x hr)

/-- among the entries due at the same instant an URGENT one is popped first -/
theorem min_prio {l : List (QEntry ℚ)} {q : QEntry ℚ} {rest ents : List (QEntry ℚ)} (hp : popMin l = some (q, rest))
    (hag : l.Perm ents) : ∀ x ∈ ents, x.time = q.time → q.prio ≤ x.prio := by
  obtain ⟨h1, h2⟩ := popMin_spec _ _ _ hp
  intro x hx ht
  have : x ∈ q :: rest := h1.subset (hag.symm.subset hx)
  rcases List.mem_cons.mp this with rfl | hr
  · exact le_refl _
  · by_contra hc
    exact h2 x hr (Or.inr ⟨ht, Or.inl (Nat.lt_of_not_le hc)⟩)

/-! ## membership in the entries of a configuration -/

theorem mem_entries_run {κ : Kern} {x : QEntry ℚ} (h : x ∈ κ.run.entries) : x ∈ κ.entries := by
  simp only [Kern.entries, List.mem_append]; exact Or.inl h

theorem mem_entries_scr {κ : Kern} {x : QEntry ℚ} (h : x ∈ κ.scr.entries) : x ∈ κ.entries := by
  simp only [Kern.entries, List.mem_append]; exact Or.inr (Or.inl h)

theorem mem_entries_pend {κ : Kern} {x : QEntry ℚ} (h : x ∈ κ.pend) : x ∈ κ.entries := by
  simp only [Kern.entries, List.mem_append]; exact Or.inr (Or.inr (Or.inl h))

theorem mem_entries_tm {κ : Kern} {x : QEntry ℚ} {seq : Nat} (hs : seq ∈ κ.keys) (h : x ∈ (κ.tph seq).entries) :
    x ∈ κ.entries := by
  simp only [Kern.entries, List.mem_append, tmEntries, List.mem_flatMap]
  exact Or.inr (Or.inr (Or.inr ⟨seq, hs, h⟩))

/-! ## the clock -/

/-- the configuration at instant `t` -/
def aTick (a : A) (t : ℚ) : A := { a with S := { a.S with now := t } }

theorem aTick_self (a : A) : aTick a a.S.now = a := rfl

/-- **the clock advance of a kernel step is an admissible `tick`**: when the earliest entry is due at `t`, nothing the LTS
still has to do at the current instant is pending (no resumption of `run`, no hand-off, no timer overdue) -/
theorem tick_ok {cfg : Cfg} {a : A} {t : ℚ} (hi : AInv cfg a) (hmin : ∀ x ∈ (kernOf a).entries, t ≤ x.time)
    (hlt : a.S.now < t) : a.S.tickStep t = .ok { a.S with now := t } [] ∧ AInv cfg (aTick a t) := by
  have hrun : a.S.proc ≠ .runnable ∧ (a.S.proc = .blocked → a.S.tokens = 0) ∧ RunA (aTick a t) a.run := by
    have hr := hi.run
    cases hph : a.run with
    | init q =>
      rw [hph] at hr
      have := hmin q (mem_entries_run (by simp [kernOf, hph, RPhase.entries]))
      rw [hr.1] at this
      exact absurd hlt (not_lt.mpr this)
    | blocked g t0 =>
      rw [hph] at hr
      obtain ⟨h1, h2, h3, h4⟩ := hr
      have hp0 : a.pend = [] := by
        cases hpd : a.pend with
        | nil => rfl
        | cons u us =>
          have hu : u ∈ a.pend := by rw [hpd]; simp
          have := hmin u (mem_entries_pend hu)
          rw [(hi.pend u hu).1] at this
          exact absurd hlt (not_lt.mpr this)
      have ht0 : a.S.tokens = 0 := by rw [hp0] at h3; simpa using h3
      refine ⟨by rw [h1]; simp, fun _ => ht0, ?_⟩
      refine ⟨h1, le_of_lt (lt_of_le_of_lt h2 hlt), h3, fun hpos => ?_⟩
      exact absurd hpos (by show ¬ 0 < a.S.tokens; omega)
    | handed g t0 q =>
      rw [hph] at hr
      have := hmin q (mem_entries_run (by simp [kernOf, hph, RPhase.entries]))
      rw [hr.1] at this
      exact absurd hlt (not_lt.mpr this)
    | ending q =>
      rw [hph] at hr
      exact ⟨by rw [hr.1]; simp, (fun h : a.S.proc = .blocked => by rw [hr.1] at h; cases h), hr⟩
    | done =>
      rw [hph] at hr
      exact ⟨by rw [hr]; simp, (fun h : a.S.proc = .blocked => by rw [hr] at h; cases h), hr⟩
    | running => rw [hph] at hr; exact hr.elim
  have hpend : a.pend = [] := by
    cases hpd : a.pend with
    | nil => rfl
    | cons u us =>
      have hu : u ∈ a.pend := by rw [hpd]; simp
      have := hmin u (mem_entries_pend hu)
      rw [(hi.pend u hu).1] at this
      exact absurd hlt (not_lt.mpr this)
  have htm : ∀ seq ∈ a.tks, TmA (aTick a t) seq ∧ ∀ r, AL.get? seq a.S.timers = some r → ¬ r.wake < t := by
    intro seq hs
    have h := hi.tm seq hs
    unfold TmA at h ⊢
    show (match AL.get? seq a.S.timers with | some r => _ | none => _) ∧ _
    cases hg : AL.get? seq a.S.timers with
    | some r =>
      rw [hg] at h
      obtain ⟨h1, h2, h3⟩ := h
      cases hph : a.tph seq with
      | init q =>
        rw [hph] at h3
        have := hmin q (mem_entries_tm (κ := kernOf a) hs (by simp [kernOf, hph, TPh.entries]))
        rw [h3.1] at this
        exact absurd hlt (not_lt.mpr this)
      | sleep e q =>
        rw [hph] at h3
        have hq := hmin q (mem_entries_tm (κ := kernOf a) hs (by simp [kernOf, hph, TPh.entries]))
        refine ⟨⟨h1, h2, ?_⟩, ?_⟩
        · show (match a.tph seq with | .init q => _ | .sleep _ q => _ | _ => False)
          rw [hph]; exact h3
        · intro r' hr'
          cases hr'
          rw [h2]
          show ¬ (a.tmc seq).expire < t
          rw [← h3.1]; exact not_lt.mpr hq
      | ending q => rw [hph] at h3; exact h3.elim
      | gone => rw [hph] at h3; exact h3.elim
      | running => rw [hph] at h3; exact h3.elim
    | none =>
      rw [hg] at h
      obtain ⟨h1, h2, h3⟩ := h
      refine ⟨⟨h1, le_of_lt (lt_of_le_of_lt h2 hlt), ?_⟩, fun r hr => by cases hr⟩
      cases hph : a.tph seq with
      | init q =>
        rw [hph] at h3
        have := hmin q (mem_entries_tm (κ := kernOf a) hs (by simp [kernOf, hph, TPh.entries]))
        rw [h3.1] at this
        exact absurd hlt (not_lt.mpr this)
      | sleep e q => rw [hph] at h3; show (match a.tph seq with | .init q => _ | .sleep _ q => _ | .ending q => _ | .gone => True | .running => False); rw [hph]; exact h3
      | ending q => rw [hph] at h3; show (match a.tph seq with | .init q => _ | .sleep _ q => _ | .ending q => _ | .gone => True | .running => False); rw [hph]; exact h3
      | gone => show (match a.tph seq with | .init q => _ | .sleep _ q => _ | .ending q => _ | .gone => True | .running => False); rw [hph]; trivial
      | running => rw [hph] at h3; exact h3.elim
  have hscr : ScrA (aTick a t) a.scr := by
    have hs := hi.scr
    cases hph : a.scr with
    | init q rest =>
      rw [hph] at hs
      have := hmin q (mem_entries_scr (by simp [kernOf, hph, SPhase.entries]))
      rw [hs.1] at this
      exact absurd hlt (not_lt.mpr this)
    | wait x rest q => rw [hph] at hs; exact hs
    | ending q => rw [hph] at hs; exact hs
    | done => trivial
    | running => rw [hph] at hs; exact hs.elim
  refine ⟨?_, ?_⟩
  · unfold Sender.tickStep
    have h1 : ¬ t < a.S.now := not_lt.mpr (le_of_lt hlt)
    have h2 : ¬ a.S.proc = .runnable := hrun.1
    have h3 : ¬ (a.S.proc = .blocked ∧ a.S.tokens > 0) := fun h => by have := hrun.2.1 h.1; omega
    have h4 : a.S.overdue t = false := by
      unfold Sender.overdue
      rw [List.any_eq_false]
      intro kv hkv
      have hk : kv.1 ∈ AL.keys a.S.timers := List.mem_map.mpr ⟨kv, hkv, rfl⟩
      have hs : kv.1 ∈ a.tks := hi.tkeys.subset hk
      obtain ⟨v, hv⟩ := AL.get?_isSome_of_mem hk
      have hmem := AL.pair_mem_of_get?_some hv
      have hvv : v = kv.2 := by
        have hn := hi.inv.nodup
        by_contra hne
        have : (kv.1, v) ≠ kv := fun e => hne (by rw [← e])
        -- two different pairs with the same key contradict `Nodup` of the keys
        have hinj := List.inj_on_of_nodup_map hn hmem hkv rfl
        exact this hinj
      have := (htm kv.1 hs).2 v hv
      rw [hvv] at this
      simp [this]
    simp only [h1, h2, h3, h4, if_false, Bool.false_eq_true]
  · exact ⟨hi.inv.transfer rfl rfl rfl rfl rfl hi.inv.buf, hi.kind, hi.mss, hi.size, hi.mpos, hi.spos, hi.dvd, hi.tks, hi.nmul,
      hi.bufle, hi.tkeys, hi.cur, hrun.2.2, hscr, (fun u hu => by have hu' : u ∈ a.pend := hu; rw [hpend] at hu'; cases hu'), fun seq hs => (htm seq hs).1,
      le_of_lt (lt_of_le_of_lt hi.putAt hlt)⟩

end SndK
