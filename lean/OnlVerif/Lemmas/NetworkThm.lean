import Mathlib.Data.List.Nodup
import OnlVerif.Lemmas.NetworkInv
/-!
# From the counting invariant to the statements of C08 (network half)
-/

namespace Net
variable {ι π κ : Type} [DecidableEq ι] [DecidableEq π] [DecidableEq κ]

/-- on a list all of whose members with `p`'s key are `p`, counting the key is counting `p` -/
theorem count_map_key (key : π → κ) (p : π) (l : List π) (h : ∀ q ∈ l, key q = key p → q = p) :
    (l.map key).count (key p) = l.count p := by
  induction l with
  | nil => rfl
  | cons x l ih =>
    have ih' := ih (fun q hq => h q (List.mem_cons_of_mem _ hq))
    simp only [List.map_cons, List.count_cons, ih']
    by_cases hx : x = p
    · subst hx; simp
    · have : ¬ key x = key p := fun e => hx (h x (List.mem_cons_self) e)
      simp [hx, this]

/-- the keys of the introduced packets are pairwise different: the key determines the record -/
theorem GInv.key_inj {n : Wiring ι π κ} {g : GState ι π} (h : GInv n g) {p q : π} (hp : p ∈ g.introduced)
    (hq : q ∈ g.introduced) (hk : n.key q = n.key p) : q = p :=
  List.inj_on_of_nodup_map h.keys hq hp hk

/-- the per-node account equation as a permutation -/
theorem GInv.acct_perm {n : Wiring ι π κ} {g : GState ι π} (h : GInv n g) (a : ι) :
    ((g.acct a).inn ++ (g.acct a).made).Perm ((g.acct a).out ++ (g.acct a).dropped.map (·.1) ++ (g.acct a).held) := by
  rw [List.perm_iff_count]
  intro q
  have := h.bal a q
  simp only [GState.rc, GState.recs] at this
  simp only [List.count_append]
  omega

/-- exactly one place, by record and by key -/
theorem GInv.one_place {n : Wiring ι π κ} {g : GState ι π} (h : GInv n g) (p : π) (hp : p ∈ g.introduced) :
    ∃ s : Slot ι, s.isPlace = true ∧ (g.recs s).count p = 1 ∧
      ∀ s' : Slot ι, s'.isPlace = true → ((g.recs s').map n.key).count (n.key p) = if s' = s then 1 else 0 := by
  obtain ⟨s, hs, h1, ho⟩ := (h.exact p).1 hp
  refine ⟨s, hs, h1, fun s' hs' => ?_⟩
  rw [count_map_key n.key p (g.recs s') (fun q hq hk => h.key_inj hp (h.known s' q hq) hk)]
  by_cases e : s' = s
  · subst e; rw [if_pos rfl]; exact h1
  · rw [if_neg e]; exact ho s' hs' e

theorem run_append (n : Wiring ι π κ) (es es' : List (GEv ι π)) (g g1 : GState ι π) (h : run n g es = .ok g1) :
    run n g (es ++ es') = run n g1 es' := by
  induction es generalizing g with
  | nil => simp only [run, Except.ok.injEq] at h; subst h; rfl
  | cons e es ih =>
    simp only [run, List.cons_append] at h ⊢
    split at h
    · cases h
    · rename_i g2 h2
      exact ih g2 h

theorem run_snoc (n : Wiring ι π κ) (es : List (GEv ι π)) (e : GEv ι π) (g g1 g2 : GState ι π) (h : run n g es = .ok g1)
    (hs : step n g1 e = .ok g2) : run n g (es ++ [e]) = .ok g2 := by
  rw [run_append n es [e] g g1 h]
  simp [run, hs]

end Net
