import Lean.Meta.Tactic.Simp.RegisterCommand
/-! simp sets used to execute the kernel model symbolically on the RR program (`rrk`) and to take the list of the events
of a configuration apart (`rrids`) -/
register_simp_attr rrk
register_simp_attr rrids
