import OnlVerif.Lemmas.TRKFrame
/-!
# The two-rate token bucket on the kernel model: kernel steps that run `TokenBucket.run`

Each lemma executes `Environment.step` of the kernel model symbolically on a state with configuration `a` whose next
agenda entry belongs to the shaper (its `Initialize`, the `StoreGet` it waits for, its timeout), and shows that
the resulting state has the configuration the lemma names.
-/

set_option linter.unusedSimpArgs false

namespace TRK
open TwoRateOnK
open TimerK (lookup plookup afterBurst resume_eq step_eq dec_enc)

variable {size : Int → Nat} {cfg : TrCfg ℚ}
variable {s : KS} {a : A} {q : QEntry ℚ} {rest : List (QEntry ℚ)}


/-! ## the branches of the decision -/

/-- the committed level after the refill at `now` -/
abbrev cmA (cfg : TrCfg ℚ) (a : A) (now : ℚ) : ℚ := TwoRate.refillLevel cfg.cbs a.commit cfg.cir a.upd now

theorem tokenWait_nonneg {k : ℚ} (hk : 0 < k) (lv : ℚ) (id : Int) (h : lv < (size id : ℚ)) :
    0 ≤ TwoRate.tokenWait lv k (pktOf size id) := by
  unfold TwoRate.tokenWait pktOf
  simp only [Num.ofNat_rat]
  have : 0 ≤ ((size id : ℚ) - lv) * 8 := by nlinarith
  exact div_nonneg (by simpa using this) (le_of_lt hk)

/-- `run` decides to wait: the two ways -/
theorem verdict_wait_cases (hgood : TwoRate.Good cfg) {id : Int} {now dt cm : ℚ} {pk : Option ℚ}
    (h : verdictA size cfg a now id = .ok (.wait dt cm pk)) :
    (∃ k b pl, TwoRate.pirOn cfg = some k ∧ TwoRate.pbsOn cfg = some b ∧ a.peak = some pl ∧
      TwoRate.refillLevel b pl k a.upd now < (size id : ℚ) ∧
      0 ≤ TwoRate.tokenWait (TwoRate.refillLevel b pl k a.upd now) k (pktOf size id) ∧
      dt = TwoRate.tokenWait (TwoRate.refillLevel b pl k a.upd now) k (pktOf size id) ∧
      cm = cmA cfg a now ∧ pk = some (TwoRate.refillLevel b pl k a.upd now)) ∨
    (TwoRate.pirOn cfg = none ∧ cmA cfg a now < (size id : ℚ) ∧
      0 ≤ TwoRate.tokenWait (cmA cfg a now) cfg.cir (pktOf size id) ∧
      dt = TwoRate.tokenWait (cmA cfg a now) cfg.cir (pktOf size id) ∧ cm = cmA cfg a now ∧ pk = a.peak) := by
  unfold verdictA verdict at h
  cases hk : TwoRate.pirOn cfg with
  | some k =>
    rw [hk] at h
    simp only at h
    cases hb : TwoRate.pbsOn cfg with
    | none => rw [hb] at h; simp at h
    | some b =>
      cases hpl : a.peak with
      | none => rw [hb, hpl] at h; simp at h
      | some pl =>
        rw [hb, hpl] at h
        simp only at h
        left
        by_cases h1 : TwoRate.refillLevel b pl k a.upd now < Num.ofNat (pktOf (τ := ℚ) size id).size
        · rw [if_pos h1] at h
          simp only [Except.ok.injEq, Dec.wait.injEq] at h
          simp only [pktOf, Num.ofNat_rat] at h1
          obtain ⟨rfl, rfl, rfl⟩ := h
          exact ⟨k, b, pl, rfl, rfl, rfl, h1, tokenWait_nonneg (hgood.pir k hk).1 _ id h1, rfl, rfl, rfl⟩
        · rw [if_neg h1] at h
          by_cases h2 : TwoRate.refillLevel cfg.cbs a.commit cfg.cir a.upd now < Num.ofNat (pktOf (τ := ℚ) size id).size
          · rw [if_pos h2] at h; simp at h
          · rw [if_neg h2] at h; simp at h
  | none =>
    rw [hk] at h
    simp only at h
    right
    by_cases h1 : TwoRate.refillLevel cfg.cbs a.commit cfg.cir a.upd now < Num.ofNat (pktOf (τ := ℚ) size id).size
    · rw [if_pos h1] at h
      simp only [Except.ok.injEq, Dec.wait.injEq] at h
      simp only [pktOf, Num.ofNat_rat] at h1
      obtain ⟨rfl, rfl, rfl⟩ := h
      exact ⟨rfl, h1, tokenWait_nonneg hgood.cir _ id h1, rfl, rfl, rfl⟩
    · rw [if_neg h1] at h; simp at h

/-- `run` decides to forward at once: the three ways -/
theorem verdict_emit_cases {id : Int} {now cm : ℚ} {col : Nat} {pk : Option ℚ}
    (h : verdictA size cfg a now id = .ok (.emit col cm pk)) :
    (∃ k b pl, TwoRate.pirOn cfg = some k ∧ TwoRate.pbsOn cfg = some b ∧ a.peak = some pl ∧
      ¬ TwoRate.refillLevel b pl k a.upd now < (size id : ℚ) ∧ cmA cfg a now < (size id : ℚ) ∧
      col = TwoRate.yellow ∧ cm = 0 ∧ pk = some (TwoRate.refillLevel b pl k a.upd now - (size id : ℚ))) ∨
    (∃ k b pl, TwoRate.pirOn cfg = some k ∧ TwoRate.pbsOn cfg = some b ∧ a.peak = some pl ∧
      ¬ TwoRate.refillLevel b pl k a.upd now < (size id : ℚ) ∧ ¬ cmA cfg a now < (size id : ℚ) ∧
      col = TwoRate.green ∧ cm = cmA cfg a now - (size id : ℚ) ∧
      pk = some (TwoRate.refillLevel b pl k a.upd now - (size id : ℚ))) ∨
    (TwoRate.pirOn cfg = none ∧ ¬ cmA cfg a now < (size id : ℚ) ∧
      col = TwoRate.green ∧ cm = cmA cfg a now - (size id : ℚ) ∧ pk = a.peak) := by
  unfold verdictA verdict at h
  cases hk : TwoRate.pirOn cfg with
  | some k =>
    rw [hk] at h
    simp only at h
    cases hb : TwoRate.pbsOn cfg with
    | none => rw [hb] at h; simp at h
    | some b =>
      cases hpl : a.peak with
      | none => rw [hb, hpl] at h; simp at h
      | some pl =>
        rw [hb, hpl] at h
        simp only at h
        by_cases h1 : TwoRate.refillLevel b pl k a.upd now < Num.ofNat (pktOf (τ := ℚ) size id).size
        · rw [if_pos h1] at h; simp at h
        · rw [if_neg h1] at h
          by_cases h2 : TwoRate.refillLevel cfg.cbs a.commit cfg.cir a.upd now < Num.ofNat (pktOf (τ := ℚ) size id).size
          · rw [if_pos h2] at h
            simp only [Except.ok.injEq, Dec.emit.injEq, pktOf, Num.ofNat_rat, zero_eq'] at h h1 h2
            obtain ⟨rfl, rfl, rfl⟩ := h
            exact Or.inl ⟨k, b, pl, rfl, rfl, rfl, h1, h2, rfl, rfl, rfl⟩
          · rw [if_neg h2] at h
            simp only [Except.ok.injEq, Dec.emit.injEq, pktOf, Num.ofNat_rat, zero_eq'] at h h1 h2
            obtain ⟨rfl, rfl, rfl⟩ := h
            exact Or.inr (Or.inl ⟨k, b, pl, rfl, rfl, rfl, h1, h2, rfl, rfl, rfl⟩)
  | none =>
    rw [hk] at h
    simp only at h
    right; right
    by_cases h1 : TwoRate.refillLevel cfg.cbs a.commit cfg.cir a.upd now < Num.ofNat (pktOf (τ := ℚ) size id).size
    · rw [if_pos h1] at h; simp at h
    · rw [if_neg h1] at h
      simp only [Except.ok.injEq, Dec.emit.injEq, pktOf, Num.ofNat_rat] at h h1
      obtain ⟨rfl, rfl, rfl⟩ := h
      exact ⟨rfl, h1, rfl, rfl, rfl⟩

/-- with a good configuration and a number in the peak bucket whenever there is a PIR, `run` does decide -/
theorem verdict_ok (hgood : TwoRate.Good cfg) (hpk : ∀ k, TwoRate.pirOn cfg = some k → ∃ pl, a.peak = some pl) (now : ℚ)
    (id : Int) : ∃ d, verdictA size cfg a now id = .ok d := by
  unfold verdictA verdict
  cases hk : TwoRate.pirOn cfg with
  | some k =>
    obtain ⟨b, hb, -⟩ := (hgood.pir k hk).2
    obtain ⟨pl, hpl⟩ := hpk k hk
    simp only [hb, hpl]
    split
    · exact ⟨_, rfl⟩
    · split <;> exact ⟨_, rfl⟩
  | none =>
    simp only
    split <;> exact ⟨_, rfl⟩

set_option hygiene false in
/-- `KInv` after a burst of `run` that ends in a sleep (no new `get`) -/
macro "leaf_sleep" e0:term : tactic => `(tactic| (
  refine ⟨⟨?_, ?_, ?_, ?_, ?_, ?_, ?_, ?_, ?_, ?_, ?_, ?_, ?_, ?_⟩, ?_⟩
  · exact wf_push1 hwf.1 _ rfl rfl rfl rfl (by first | exact le_refl _ | (show q.time ≤ q.time + _; linarith))
  · simp only [A.entries, RPhase.entries, List.singleton_append]
    exact List.Perm.cons _ hrest
  · exact hk.rsz
  · have := hk.res; rw [hph] at this; exact this
  · refine ⟨rfl, ?_, ?_, ?_⟩
    · bsimp [EvIs]
    · bsimp
    · bsimp [EvIs, hpk, hpc, hpo, Nat.ne_of_lt h0lt, h0e, Ne.symm h0e]
  · refine (hk.keep_src_pend [$e0] (by evkeep) ?_ ?_).1
    · intro e he; simp only [List.mem_singleton]; rintro rfl; exact he.elim de.1 de.2
    · bsimp
  · refine (hk.keep_src_pend [$e0] (by evkeep) ?_ ?_).2
    · intro e he; simp only [List.mem_singleton]; rintro rfl; exact he.elim de.1 de.2
    · bsimp
  · have hnd := hk.nd
    simp only [trids, hph] at hnd ⊢
    grind
  · bsimp [hc0, stamp_ne]
  · bsimp [hc1, stamp_ne]
  · bsimp [hc2, stamp_ne, Num.ofNat_rat, zero_eq']
  · bsimp [hc3, stamp_ne]
  · bsimp [hc4, stamp_ne, encOpt, Num.ofNat_rat, zero_eq']
  · intro k hk'
    bsimp [hk.ct k hk', stamp_ne]
  · simp [histOf_push, hidn]))

set_option hygiene false in
/-- `KInv` after a burst of `run` that ends in `store.get()` on the empty store -/
macro "leaf_miss" e0:term : tactic => `(tactic| (
  refine ⟨⟨?_, ?_, ?_, ?_, ?_, ?_, ?_, ?_, ?_, ?_, ?_, ?_, ?_, ?_⟩, ?_⟩
  · exact wf_same hwf.1 rfl rfl rfl
  · simp only [A.entries, RPhase.entries, List.nil_append]
    exact hrest
  · bsimp [hrsz]
  · bsimp [KState.res, getD_setIfInBounds, RPhase.getQ, hrsz, hit]
  · refine ⟨?_, ?_, ?_⟩
    · bsimp [EvIs]
    · bsimp
    · bsimp [EvIs, hpk, hpc, hpo, Nat.ne_of_lt h0lt, h0e, Ne.symm h0e]
  · refine (hk.keep_src_pend [$e0] (by evkeep) ?_ ?_).1
    · intro e he; simp only [List.mem_singleton]; rintro rfl; exact he.elim de.1 de.2
    · bsimp
  · refine (hk.keep_src_pend [$e0] (by evkeep) ?_ ?_).2
    · intro e he; simp only [List.mem_singleton]; rintro rfl; exact he.elim de.1 de.2
    · bsimp
  · have hnd := hk.nd
    simp only [trids, hph] at hnd ⊢
    grind
  · bsimp [hc0, stamp_ne]
  · bsimp [hc1, stamp_ne]
  · bsimp [hc2, stamp_ne, Num.ofNat_rat, zero_eq']
  · bsimp [hc3, stamp_ne]
  · bsimp [hc4, stamp_ne, encOpt, Num.ofNat_rat, zero_eq']
  · intro k hk'
    bsimp [hk.ct k hk', stamp_ne]
  · simp [histOf_push, hidn]))

set_option hygiene false in
/-- `KInv` after a burst of `run` that ends in `store.get()` served at once with the head of the store -/
macro "leaf_hit" e0:term : tactic => `(tactic| (
  refine ⟨⟨?_, ?_, ?_, ?_, ?_, ?_, ?_, ?_, ?_, ?_, ?_, ?_, ?_, ?_⟩, ?_⟩
  · exact wf_push1 hwf.1 _ rfl rfl rfl rfl (le_refl _)
  · simp only [A.entries, RPhase.entries, List.singleton_append]
    exact List.Perm.cons _ hrest
  · bsimp [hrsz]
  · bsimp [KState.res, getD_setIfInBounds, RPhase.getQ, hrsz]
  · refine ⟨rfl, ?_, ?_, ?_⟩
    · bsimp [EvIs]
    · bsimp
    · bsimp [EvIs, hpk, hpc, hpo, Nat.ne_of_lt h0lt, h0e, Ne.symm h0e]
  · refine (hk.keep_src_pend [$e0] (by evkeep) ?_ ?_).1
    · intro e he; simp only [List.mem_singleton]; rintro rfl; exact he.elim de.1 de.2
    · bsimp
  · refine (hk.keep_src_pend [$e0] (by evkeep) ?_ ?_).2
    · intro e he; simp only [List.mem_singleton]; rintro rfl; exact he.elim de.1 de.2
    · bsimp
  · have hnd := hk.nd
    simp only [trids, hph] at hnd ⊢
    grind
  · bsimp [hc0, stamp_ne]
  · bsimp [hc1, stamp_ne]
  · bsimp [hc2, stamp_ne, Num.ofNat_rat, zero_eq']
  · bsimp [hc3, stamp_ne]
  · bsimp [hc4, stamp_ne, encOpt, Num.ofNat_rat, zero_eq']
  · intro k hk'
    bsimp [hk.ct k hk', stamp_ne]
  · simp [histOf_push, hidn]))

/-- the `Initialize` event of `run`: the store is empty, it blocks in `store.get()` -/
theorem kstep_runInit (fuel : Nat) (hk : KInv s a) (hph : a.run = .init q) (hit : a.items = [])
    (hp : popMin s.agenda = some (q, rest)) (hrest : rest.Perm (a.src.entries ++ a.pend)) :
    ∃ s', step (body size cfg) (fuel + 1) s = .ok s' ∧
      KInv s' { a with run := .W s.events.size q.time } ∧
      s'.now = q.time ∧ histOf s'.trace = histOf s.trace := by
  have hr := hk.run
  rw [hph] at hr
  obtain ⟨hqe, ⟨hkind, hcbs, hout⟩, hproc0, ⟨hpk, hpc, hpo⟩⟩ := hr
  have hgs : 1 < s.events.size := KState.lt_of_cbs hcbs
  have hwf := openEvent_wf s q rest hk.wf hp
  have hlt := hk.idlt
  have hres := hk.res
  have hrsz := hk.rsz
  have hc0 := hk.c0; have hc1 := hk.c1; have hc2 := hk.c2; have hc3 := hk.c3; have hc4 := hk.c4
  simp only [cRecv_val, cSent_val, cCommit_val, cUpd_val, cPeak_val] at hc0 hc1 hc2 hc3 hc4
  rw [hph, hit] at hres
  simp only [KState.res, RPhase.getQ] at hres
  rw [step_eq _ _ _ _ _ _ hp (hqe ▸ hcbs)]
  simp only [List.foldl, runCb]
  rw [resume_eq _ _ _ _ _ _ (show (openEvent s q rest).proc? 0 = _ from hproc0)]
  simp only [KState.ev] at hkind hcbs hout hpk hpc hpo
  bsimp [hqe, hgs, hkind, hcbs, hout, Nat.ne_of_lt hgs, doCall_sget_miss (r := 0), hres, hrsz]
  obtain ⟨nrun, nsrc, npend, drun, dsrc⟩ := (ids_nodup_iff a).mp hk.nd
  simp only [hph, trids] at nrun drun hlt
  obtain ⟨d0, de⟩ := drun
  have h0e : ¬ 0 = 1 := by decide
  have h0lt := hlt.1
  have hidn : True := trivial
  leaf_miss 1


/-! ## the `StoreGet` event of `run`: it has the packet, refills the buckets and decides -/

/-- not enough tokens (peak tokens with PIR, committed tokens without): `run` sleeps until the missing ones have accumulated -/
theorem kstep_serveWait (fuel : Nat) (hgood : TwoRate.Good cfg) (hk : KInv s a) {g : EvId} {id : Int} {t0 dt cm : ℚ}
    {pk : Option ℚ} (hph : a.run = .H g id q t0) (hid : id.toNat < a.cts.length) (hnow : max t0 (a.ctOf id) = q.time)
    (hdec : verdictA size cfg a q.time id = .ok (.wait dt cm pk))
    (hp : popMin s.agenda = some (q, rest)) (hrest : rest.Perm (a.src.entries ++ a.pend)) :
    ∃ s', step (body size cfg) (fuel + 1) s = .ok s' ∧
      KInv s' { a with
        run := .T1 s.events.size id (⟨q.time + dt, NORMAL, s.eid, s.events.size⟩ : QEntry ℚ)
        commit := cm, peak := pk, upd := q.time } ∧
      s'.now = q.time ∧ histOf s'.trace = histOf s.trace := by
  have hr := hk.run
  rw [hph] at hr
  obtain ⟨hqe, ⟨hkind, hcbs, hout⟩, hproc0, ⟨hpk, hpc, hpo⟩⟩ := hr
  have hgs : g < s.events.size := KState.lt_of_cbs hcbs
  have hwf := openEvent_wf s q rest hk.wf hp
  have hlt := hk.idlt
  have hres := hk.res
  have hrsz := hk.rsz
  have hc0 := hk.c0; have hc1 := hk.c1; have hc2 := hk.c2; have hc3 := hk.c3; have hc4 := hk.c4
  simp only [cRecv_val, cSent_val, cCommit_val, cUpd_val, cPeak_val] at hc0 hc1 hc2 hc3 hc4
  have hcell : lookup s.shared (10 + id.toNat) = TimeCell.enc (a.ctOf id) := hk.ct _ hid
  rw [hph] at hres
  simp only [KState.res, RPhase.getQ] at hres
  rw [step_eq _ _ _ _ _ _ hp (hqe ▸ hcbs)]
  simp only [List.foldl, runCb]
  rw [triggerPut_none (openEvent s q rest) 0 [] a.items hres]
  rw [resume_eq _ _ _ _ _ _ (show (openEvent s q rest).proc? 0 = _ from hproc0)]
  simp only [KState.ev] at hkind hcbs hout hpk hpc hpo
  obtain ⟨nrun, nsrc, npend, drun, dsrc⟩ := (ids_nodup_iff a).mp hk.nd
  simp only [hph, trids] at nrun drun hlt
  obtain ⟨d0, de⟩ := drun
  have h0e : ¬ 0 = g := nrun
  have h0lt := hlt.1
  have hidn : True := trivial
  rcases verdict_wait_cases hgood hdec with ⟨k, b, pl, hk1, hb1, hpl, hlt1, hd, rfl, rfl, rfl⟩ | ⟨hk1, hlt1, hd, rfl, rfl, rfl⟩
  · rw [hpl] at hc4
    simp only [encOpt] at hc4
    bsimp [hqe, hgs, hkind, hcbs, hout, Nat.ne_of_lt hgs, hcell, hc2, hc3, hc4, Num.pymax_eq, hnow, hk1, hb1, hlt1, hd, stamp_ne,
      Num.ofNat_rat]
    leaf_sleep g
  · bsimp [hqe, hgs, hkind, hcbs, hout, Nat.ne_of_lt hgs, hcell, hc2, hc3, Num.pymax_eq, hnow, hk1, hlt1, hd, stamp_ne,
      Num.ofNat_rat]
    leaf_sleep g

/-- enough tokens, nothing else waits: the packet is painted and forwarded at once, `run` blocks in `store.get()` -/
theorem kstep_serveOutMiss (fuel : Nat) (hk : KInv s a) {g : EvId} {id : Int} {t0 cm : ℚ} {col : Nat} {pk : Option ℚ}
    (hph : a.run = .H g id q t0) (hid0 : 0 ≤ id) (hid : id.toNat < a.cts.length) (hnow : max t0 (a.ctOf id) = q.time)
    (hdec : verdictA size cfg a q.time id = .ok (.emit col cm pk)) (hit : a.items = [])
    (hp : popMin s.agenda = some (q, rest)) (hrest : rest.Perm (a.src.entries ++ a.pend)) :
    ∃ s', step (body size cfg) (fuel + 1) s = .ok s' ∧
      KInv s' { a with run := .W s.events.size q.time, commit := cm, peak := pk, upd := q.time, sent := a.sent + 1 } ∧
      s'.now = q.time ∧ histOf s'.trace = histOf s.trace ++ [.out id col q.time] := by
  have hr := hk.run
  rw [hph] at hr
  obtain ⟨hqe, ⟨hkind, hcbs, hout⟩, hproc0, ⟨hpk, hpc, hpo⟩⟩ := hr
  have hgs : g < s.events.size := KState.lt_of_cbs hcbs
  have hwf := openEvent_wf s q rest hk.wf hp
  have hlt := hk.idlt
  have hres := hk.res
  have hrsz := hk.rsz
  have hc0 := hk.c0; have hc1 := hk.c1; have hc2 := hk.c2; have hc3 := hk.c3; have hc4 := hk.c4
  simp only [cRecv_val, cSent_val, cCommit_val, cUpd_val, cPeak_val] at hc0 hc1 hc2 hc3 hc4
  have hcell : lookup s.shared (10 + id.toNat) = TimeCell.enc (a.ctOf id) := hk.ct _ hid
  rw [hph] at hres
  simp only [KState.res, RPhase.getQ] at hres
  rw [step_eq _ _ _ _ _ _ hp (hqe ▸ hcbs)]
  simp only [List.foldl, runCb]
  rw [triggerPut_none (openEvent s q rest) 0 [] a.items hres]
  rw [resume_eq _ _ _ _ _ _ (show (openEvent s q rest).proc? 0 = _ from hproc0)]
  simp only [KState.ev] at hkind hcbs hout hpk hpc hpo
  obtain ⟨nrun, nsrc, npend, drun, dsrc⟩ := (ids_nodup_iff a).mp hk.nd
  simp only [hph, trids] at nrun drun hlt
  obtain ⟨d0, de⟩ := drun
  have h0e : ¬ 0 = g := nrun
  have h0lt := hlt.1
  have hidn : ((id.toNat : Nat) : Int) = id := Int.toNat_of_nonneg hid0
  rw [hit] at hres
  rcases verdict_emit_cases hdec with ⟨k, b, pl, hk1, hb1, hpl, hlt1, hlt2, rfl, rfl, rfl⟩ |
    ⟨k, b, pl, hk1, hb1, hpl, hlt1, hlt2, rfl, rfl, rfl⟩ | ⟨hk1, hlt2, rfl, rfl, rfl⟩
  · rw [hpl] at hc4
    simp only [encOpt] at hc4
    bsimp [hqe, hgs, hkind, hcbs, hout, Nat.ne_of_lt hgs, hcell, hc1, hc2, hc3, hc4, Num.pymax_eq, hnow, hk1, hb1, hlt1, hlt2, stamp_ne,
      Num.ofNat_rat, doCall_sget_miss (r := 0), hres, hrsz]
    leaf_miss g
  · rw [hpl] at hc4
    simp only [encOpt] at hc4
    bsimp [hqe, hgs, hkind, hcbs, hout, Nat.ne_of_lt hgs, hcell, hc1, hc2, hc3, hc4, Num.pymax_eq, hnow, hk1, hb1, hlt1, hlt2, stamp_ne,
      Num.ofNat_rat, doCall_sget_miss (r := 0), hres, hrsz]
    leaf_miss g
  · bsimp [hqe, hgs, hkind, hcbs, hout, Nat.ne_of_lt hgs, hcell, hc1, hc2, hc3, Num.pymax_eq, hnow, hk1, hlt2, stamp_ne,
      Num.ofNat_rat, doCall_sget_miss (r := 0), hres, hrsz]
    leaf_miss g

/-- enough tokens, another packet waits: the packet is painted and forwarded at once, `run` takes the next one -/
theorem kstep_serveOutHit (fuel : Nat) (hk : KInv s a) {g : EvId} {id : Int} {t0 cm : ℚ} {col : Nat} {pk : Option ℚ}
    {i : Int} {is : List Int}
    (hph : a.run = .H g id q t0) (hid0 : 0 ≤ id) (hid : id.toNat < a.cts.length) (hnow : max t0 (a.ctOf id) = q.time)
    (hdec : verdictA size cfg a q.time id = .ok (.emit col cm pk)) (hit : a.items = i :: is)
    (hp : popMin s.agenda = some (q, rest)) (hrest : rest.Perm (a.src.entries ++ a.pend)) :
    ∃ s', step (body size cfg) (fuel + 1) s = .ok s' ∧
      KInv s' { a with run := .H s.events.size i ⟨q.time, NORMAL, s.eid, s.events.size⟩ q.time, items := is,
                       commit := cm, peak := pk, upd := q.time, sent := a.sent + 1 } ∧
      s'.now = q.time ∧ histOf s'.trace = histOf s.trace ++ [.out id col q.time] := by
  have hr := hk.run
  rw [hph] at hr
  obtain ⟨hqe, ⟨hkind, hcbs, hout⟩, hproc0, ⟨hpk, hpc, hpo⟩⟩ := hr
  have hgs : g < s.events.size := KState.lt_of_cbs hcbs
  have hwf := openEvent_wf s q rest hk.wf hp
  have hlt := hk.idlt
  have hres := hk.res
  have hrsz := hk.rsz
  have hc0 := hk.c0; have hc1 := hk.c1; have hc2 := hk.c2; have hc3 := hk.c3; have hc4 := hk.c4
  simp only [cRecv_val, cSent_val, cCommit_val, cUpd_val, cPeak_val] at hc0 hc1 hc2 hc3 hc4
  have hcell : lookup s.shared (10 + id.toNat) = TimeCell.enc (a.ctOf id) := hk.ct _ hid
  rw [hph] at hres
  simp only [KState.res, RPhase.getQ] at hres
  rw [step_eq _ _ _ _ _ _ hp (hqe ▸ hcbs)]
  simp only [List.foldl, runCb]
  rw [triggerPut_none (openEvent s q rest) 0 [] a.items hres]
  rw [resume_eq _ _ _ _ _ _ (show (openEvent s q rest).proc? 0 = _ from hproc0)]
  simp only [KState.ev] at hkind hcbs hout hpk hpc hpo
  obtain ⟨nrun, nsrc, npend, drun, dsrc⟩ := (ids_nodup_iff a).mp hk.nd
  simp only [hph, trids] at nrun drun hlt
  obtain ⟨d0, de⟩ := drun
  have h0e : ¬ 0 = g := nrun
  have h0lt := hlt.1
  have hidn : ((id.toNat : Nat) : Int) = id := Int.toNat_of_nonneg hid0
  rw [hit] at hres
  rcases verdict_emit_cases hdec with ⟨k, b, pl, hk1, hb1, hpl, hlt1, hlt2, rfl, rfl, rfl⟩ |
    ⟨k, b, pl, hk1, hb1, hpl, hlt1, hlt2, rfl, rfl, rfl⟩ | ⟨hk1, hlt2, rfl, rfl, rfl⟩
  · rw [hpl] at hc4
    simp only [encOpt] at hc4
    bsimp [hqe, hgs, hkind, hcbs, hout, Nat.ne_of_lt hgs, hcell, hc1, hc2, hc3, hc4, Num.pymax_eq, hnow, hk1, hb1, hlt1, hlt2, stamp_ne,
      Num.ofNat_rat, doCall_sget_hit (r := 0) (i := i) (is := is), hres, hrsz]
    leaf_hit g
  · rw [hpl] at hc4
    simp only [encOpt] at hc4
    bsimp [hqe, hgs, hkind, hcbs, hout, Nat.ne_of_lt hgs, hcell, hc1, hc2, hc3, hc4, Num.pymax_eq, hnow, hk1, hb1, hlt1, hlt2, stamp_ne,
      Num.ofNat_rat, doCall_sget_hit (r := 0) (i := i) (is := is), hres, hrsz]
    leaf_hit g
  · bsimp [hqe, hgs, hkind, hcbs, hout, Nat.ne_of_lt hgs, hcell, hc1, hc2, hc3, Num.pymax_eq, hnow, hk1, hlt2, stamp_ne,
      Num.ofNat_rat, doCall_sget_hit (r := 0) (i := i) (is := is), hres, hrsz]
    leaf_hit g

/-! ## the token wait is over -/

/-- the tokens have accumulated (that bucket is now empty), nothing else waits: the packet is painted red (with PIR) or yellow
(without) and forwarded, `run` blocks -/
theorem kstep_tokOutMiss (fuel : Nat) (hk : KInv s a) {t : EvId} {id : Int}
    (hph : a.run = .T1 t id q) (hid0 : 0 ≤ id) (hit : a.items = [])
    (hp : popMin s.agenda = some (q, rest)) (hrest : rest.Perm (a.src.entries ++ a.pend)) :
    ∃ s', step (body size cfg) (fuel + 1) s = .ok s' ∧
      KInv s' { a with run := .W s.events.size q.time, commit := (afterWait cfg a.commit a.peak).2.1,
                       peak := (afterWait cfg a.commit a.peak).2.2, upd := q.time, sent := a.sent + 1 } ∧
      s'.now = q.time ∧ histOf s'.trace = histOf s.trace ++ [.out id (afterWait cfg a.commit a.peak).1 q.time] := by
  have hr := hk.run
  rw [hph] at hr
  obtain ⟨hqe, ⟨hkind, hcbs, hout⟩, hproc0, ⟨hpk, hpc, hpo⟩⟩ := hr
  have hgs : t < s.events.size := KState.lt_of_cbs hcbs
  have hwf := openEvent_wf s q rest hk.wf hp
  have hlt := hk.idlt
  have hres := hk.res
  have hrsz := hk.rsz
  have hc0 := hk.c0; have hc1 := hk.c1; have hc2 := hk.c2; have hc3 := hk.c3; have hc4 := hk.c4
  simp only [cRecv_val, cSent_val, cCommit_val, cUpd_val, cPeak_val] at hc0 hc1 hc2 hc3 hc4
  rw [hph] at hres
  simp only [KState.res, RPhase.getQ] at hres
  rw [step_eq _ _ _ _ _ _ hp (hqe ▸ hcbs)]
  simp only [List.foldl, runCb]
  rw [resume_eq _ _ _ _ _ _ (show (openEvent s q rest).proc? 0 = _ from hproc0)]
  simp only [KState.ev] at hkind hcbs hout hpk hpc hpo
  obtain ⟨nrun, nsrc, npend, drun, dsrc⟩ := (ids_nodup_iff a).mp hk.nd
  simp only [hph, trids] at nrun drun hlt
  obtain ⟨d0, de⟩ := drun
  have h0e : ¬ 0 = t := nrun
  have h0lt := hlt.1
  have hidn : ((id.toNat : Nat) : Int) = id := Int.toNat_of_nonneg hid0
  rw [hit] at hres
  cases hk1 : TwoRate.pirOn cfg with
  | some k =>
    bsimp [hqe, hgs, hkind, hcbs, hout, Nat.ne_of_lt hgs, hc1, hc2, hc3, hk1, stamp_ne, doCall_sget_miss (r := 0), hres, hrsz,
      afterWait]
    leaf_miss t
  | none =>
    bsimp [hqe, hgs, hkind, hcbs, hout, Nat.ne_of_lt hgs, hc1, hc2, hc3, hk1, stamp_ne, doCall_sget_miss (r := 0), hres, hrsz,
      afterWait]
    leaf_miss t

/-- the tokens have accumulated, another packet waits: the packet is painted and forwarded, `run` takes the next one -/
theorem kstep_tokOutHit (fuel : Nat) (hk : KInv s a) {t : EvId} {id : Int} {i : Int} {is : List Int}
    (hph : a.run = .T1 t id q) (hid0 : 0 ≤ id) (hit : a.items = i :: is)
    (hp : popMin s.agenda = some (q, rest)) (hrest : rest.Perm (a.src.entries ++ a.pend)) :
    ∃ s', step (body size cfg) (fuel + 1) s = .ok s' ∧
      KInv s' { a with run := .H s.events.size i ⟨q.time, NORMAL, s.eid, s.events.size⟩ q.time, items := is,
                       commit := (afterWait cfg a.commit a.peak).2.1, peak := (afterWait cfg a.commit a.peak).2.2,
                       upd := q.time, sent := a.sent + 1 } ∧
      s'.now = q.time ∧ histOf s'.trace = histOf s.trace ++ [.out id (afterWait cfg a.commit a.peak).1 q.time] := by
  have hr := hk.run
  rw [hph] at hr
  obtain ⟨hqe, ⟨hkind, hcbs, hout⟩, hproc0, ⟨hpk, hpc, hpo⟩⟩ := hr
  have hgs : t < s.events.size := KState.lt_of_cbs hcbs
  have hwf := openEvent_wf s q rest hk.wf hp
  have hlt := hk.idlt
  have hres := hk.res
  have hrsz := hk.rsz
  have hc0 := hk.c0; have hc1 := hk.c1; have hc2 := hk.c2; have hc3 := hk.c3; have hc4 := hk.c4
  simp only [cRecv_val, cSent_val, cCommit_val, cUpd_val, cPeak_val] at hc0 hc1 hc2 hc3 hc4
  rw [hph] at hres
  simp only [KState.res, RPhase.getQ] at hres
  rw [step_eq _ _ _ _ _ _ hp (hqe ▸ hcbs)]
  simp only [List.foldl, runCb]
  rw [resume_eq _ _ _ _ _ _ (show (openEvent s q rest).proc? 0 = _ from hproc0)]
  simp only [KState.ev] at hkind hcbs hout hpk hpc hpo
  obtain ⟨nrun, nsrc, npend, drun, dsrc⟩ := (ids_nodup_iff a).mp hk.nd
  simp only [hph, trids] at nrun drun hlt
  obtain ⟨d0, de⟩ := drun
  have h0e : ¬ 0 = t := nrun
  have h0lt := hlt.1
  have hidn : ((id.toNat : Nat) : Int) = id := Int.toNat_of_nonneg hid0
  rw [hit] at hres
  cases hk1 : TwoRate.pirOn cfg with
  | some k =>
    bsimp [hqe, hgs, hkind, hcbs, hout, Nat.ne_of_lt hgs, hc1, hc2, hc3, hk1, stamp_ne,
      doCall_sget_hit (r := 0) (i := i) (is := is), hres, hrsz, afterWait]
    leaf_hit t
  | none =>
    bsimp [hqe, hgs, hkind, hcbs, hout, Nat.ne_of_lt hgs, hc1, hc2, hc3, hk1, stamp_ne,
      doCall_sget_hit (r := 0) (i := i) (is := is), hres, hrsz, afterWait]
    leaf_hit t

end TRK
