import OnlVerif.Lemmas.CondBuild
/-!
# `Condition._build_value` running as the callback of its own condition keeps the counting invariant
-/

namespace Cond
variable {σ : Type}

open Once (lt_of_isCond isCond_congr lt_of_cbs_some ev_default)

/-- the value of a condition that has succeeded is replaced (by `_build_value`): no clause of the invariant notices -/
theorem CInv.rewrite_ok {rem : List Cb} {e0 : EvId} {s s' : KState ℚ σ} (hc : CInv rem e0 s) (c : EvId)
    (hsize : s'.events.size = s.events.size) (hkind : ∀ x, (s'.ev x).kind = (s.ev x).kind)
    (hcbs : ∀ x, (s'.ev x).cbs = (s.ev x).cbs) (hcount : ∀ x, (s'.ev x).count = (s.ev x).count)
    (hdef : ∀ x, (s'.ev x).defused = (s.ev x).defused) (hout : ∀ x, x ≠ c → (s'.ev x).out = (s.ev x).out)
    (v w : Val) (ho : (s.ev c).out = some (.ok v)) (ho' : (s'.ev c).out = some (.ok w)) : CInv rem e0 s' := by
  have hS : Shape s s' := Shape.of_kind hkind
  have hproc : ∀ x, s'.processed x = s.processed x := fun x => by unfold KState.processed; rw [hcbs]
  have hnP : ∀ d, nProcessed s' d = nProcessed s d := fun d => nProcessed_congr (hS.ops_eq d) (fun x _ => hproc x)
  have hgone : ∀ d, Gone rem s' d ↔ Gone rem s d := by
    intro d
    have hb : ∀ a, Built rem s' a ↔ Built rem s a := fun a => by unfold Built; rw [hS.isCond_eq, hcbs]
    exact ⟨Gone.transfer hS.symm (fun a ha => (hb a).mp ha), Gone.transfer hS (fun a ha => (hb a).mpr ha)⟩
  have hne_of_none : ∀ d, (s'.ev d).out = none → d ≠ c := fun d hd hdc => by rw [hdc, ho'] at hd; cases hd
  have hne_of_fail : ∀ d x, (s'.ev d).out = some (.fail x) → d ≠ c := fun d x hd hdc => by rw [hdc, ho'] at hd; cases hd
  refine ⟨?_, ?_, ?_, ?_, ?_, ?_, ?_, ?_, hc.rem_bld_cnt, ?_, ?_, ?_, ?_, ?_, ?_⟩
  · intro d e he; rw [hS.ops_eq] at he; exact hc.older d e he
  · intro d hg e L hL; rw [hcbs] at hL; rw [hS.ops_eq]
    exact hc.chk_att d (fun hh => hg ((hgone d).mpr hh)) e L hL
  · intro d hg e L hL; rw [hcbs] at hL; exact hc.chk_gone d ((hgone d).mp hg) e L hL
  · intro d hm; rw [hS.ops_eq]; exact hc.rem_att d hm
  · intro d hg; exact hc.rem_gone d ((hgone d).mp hg)
  · intro e L d hL hm; rw [hcbs] at hL; rw [hS.ops_eq]; exact hc.bld_own e L d hL hm
  · intro d L hL hne; rw [hcbs] at hL; rw [hS.ops_eq] at hne; exact hc.bld_cnt d L hL hne
  · intro d hm; rw [hS.ops_eq]; exact hc.rem_bld_own d hm
  · intro hne
    obtain ⟨h1, h2⟩ := hc.e0_done hne
    exact ⟨by rw [hsize]; exact h1, by rw [hcbs]; exact h2⟩
  · intro d hcond hod hg
    have hd := hne_of_none d hod
    rw [hS.isCond_eq] at hcond
    rw [hout d hd] at hod
    rw [hcount, hnP]
    exact hc.cnt d hcond hod (fun hh => hg ((hgone d).mpr hh))
  · intro d hcond hod hg e he hp x hx
    have hd := hne_of_none d hod
    rw [hS.isCond_eq] at hcond
    rw [hout d hd] at hod
    rw [hS.ops_eq] at he
    rw [hproc] at hp
    rw [hout e (hne_of_fail e x hx)] at hx
    exact hc.nofail d hcond hod (fun hh => hg ((hgone d).mpr hh)) e he hp x hx
  · intro d hcond hod
    have hd := hne_of_none d hod
    rw [hS.isCond_eq] at hcond
    rw [hout d hd] at hod
    rw [hS.isAll_eq, hS.ops_eq, hcount]
    exact hc.unmet d hcond hod
  · intro d v' hcond hod
    rw [hS.isCond_eq] at hcond
    rw [hS.isAll_eq, hS.ops_eq, hnP]
    by_cases hd : d = c
    · rw [hd] at hcond ⊢; exact hc.met c v hcond ho
    · rw [hout d hd] at hod; exact hc.met d v' hcond hod
  · intro d x hcond hod
    have hd := hne_of_fail d x hod
    rw [hS.isCond_eq] at hcond
    rw [hout d hd] at hod
    obtain ⟨e, he, hp, hx, hdf⟩ := hc.failsrc d x hcond hod
    have hec : e ≠ c := fun h => by rw [h, ho] at hx; cases hx
    exact ⟨e, by rw [hS.ops_eq]; exact he, by rw [hproc]; exact hp, by rw [hout e hec]; exact hx, by rw [hdef]; exact hdf⟩

theorem CInv.bounded {rem : List Cb} {e0 : EvId} {s : KState ℚ σ} (hc : CInv rem e0 s) : Bounded s s := by
  intro d y L hL
  by_cases hg : Gone rem s d
  · rw [List.count_eq_zero.mpr (hc.chk_gone d hg y L hL)]; exact Nat.zero_le _
  · rw [hc.chk_att d hg y L hL]

theorem condBuild_eq (s : KState ℚ σ) (c : EvId) :
    condBuild s c =
      (match ((removeChecks (c + 1) c s).ev c).out with
       | some (.ok _) => (removeChecks (c + 1) c s).setOut c (.ok (.cv (populate (c + 1) (removeChecks (c + 1) c s) c)))
       | _ => removeChecks (c + 1) c s) := by
  unfold condBuild; rfl

/-- `_remove_check_callbacks` running as part of the `build` callback of `c` -/
theorem CInv.removeChecks_cb {rest : List Cb} {e0 c : EvId} {s : KState ℚ σ} (hc : CInv (.build c :: rest) e0 s) :
    CInv rest e0 (removeChecks (c + 1) c s) ∧ Rm (fun d => Under s d c) s (removeChecks (c + 1) c s) ∧
    (∀ d, Under s d c → Clean (removeChecks (c + 1) c s) d) ∧ Built rest (removeChecks (c + 1) c s) c := by
  have hr : Rm (fun d => Under s d c) s (removeChecks (c + 1) c s) := Rm.removeChecks s (c + 1) c s (Shape.refl s)
  have hclean : ∀ d, Under s d c → Clean (removeChecks (c + 1) c s) d :=
    removeChecks_clean s hc.older (c + 1) c s (Nat.lt_succ_self _) (Shape.refl s) hc.bounded
  generalize removeChecks (c + 1) c s = s1 at hr hclean
  obtain ⟨hce0, hopsne⟩ := hc.rem_bld_own c List.mem_cons_self
  have hcc : isCond s c = true := by
    cases h : isCond s c with
    | true => rfl
    | false => exact absurd (ops_nil_of_not_cond h) hopsne
  obtain ⟨he0lt, he0done⟩ := hc.e0_done (by simp)
  have hnb : Cb.build c ∉ rest := by
    apply not_mem_of_count_zero
    have := hc.rem_bld_cnt c
    rw [List.count_cons_self] at this
    omega
  have hS : Shape s s1 := hr.shape
  have hbuiltC : Built rest s1 c :=
    ⟨by rw [hS.isCond_eq]; exact hcc, (hr.cbsNone c).mpr (by rw [hce0]; exact he0done), hnb⟩
  have hgone : ∀ d, Gone rest s1 d ↔ (Gone (.build c :: rest) s d ∨ Under s d c) := by
    intro d
    constructor
    · rintro ⟨a, hu, h1, h2, h3⟩
      have hu' : Under s d a := hu.shape hS.symm
      by_cases ha : a = c
      · right; rw [← ha]; exact hu'
      · left
        refine ⟨a, hu', by rw [← hS.isCond_eq]; exact h1, (hr.cbsNone a).mp h2, ?_⟩
        intro hm
        rcases List.mem_cons.mp hm with hm | hm
        · cases hm; exact ha rfl
        · exact h3 hm
    · rintro (⟨a, hu, h1, h2, h3⟩ | hu)
      · exact ⟨a, hu.shape hS, by rw [hS.isCond_eq]; exact h1, (hr.cbsNone a).mpr h2,
          fun hm => h3 (List.mem_cons_of_mem _ hm)⟩
      · exact ⟨c, hu.shape hS, hbuiltC⟩
  have hlist : ∀ y L', (s1.ev y).cbs = some L' → ∃ L, (s.ev y).cbs = some L := by
    intro y L' hL'
    cases hL : (s.ev y).cbs with
    | none => rw [(hr.cbsNone y).mpr hL] at hL'; cases hL'
    | some L => exact ⟨L, rfl⟩
  have hproc : ∀ x, s1.processed x = s.processed x := hr.processed
  have hnP : ∀ d, nProcessed s1 d = nProcessed s d := fun d => nProcessed_congr (hS.ops_eq d) (fun x _ => hproc x)
  have hcntb : ∀ d, (Cb.build c :: rest).count (.check d) = rest.count (.check d) := by
    intro d; rw [List.count_cons]; simp
  have hmemb : ∀ d, Cb.check d ∈ Cb.build c :: rest ↔ Cb.check d ∈ rest := by
    intro d; rw [List.mem_cons]; simp
  refine ⟨⟨?_, ?_, ?_, ?_, ?_, ?_, ?_, ?_, ?_, ?_, ?_, ?_, ?_, ?_, ?_⟩, hr, hclean, hbuiltC⟩
  · intro d e he; rw [hS.ops_eq] at he; exact hc.older d e he
  · intro d hg y L' hL'
    obtain ⟨L, hL⟩ := hlist y L' hL'
    have hg1 : ¬ Gone (.build c :: rest) s d := fun hh => hg ((hgone d).mpr (Or.inl hh))
    have hg2 : ¬ Under s d c := fun hh => hg ((hgone d).mpr (Or.inr hh))
    rw [hr.same y L L' hL hL' (.check d) (fun d' hd' hu => by cases hd'; exact hg2 hu), hS.ops_eq]
    exact hc.chk_att d hg1 y L hL
  · intro d hg y L' hL'
    rcases (hgone d).mp hg with hgs | hu
    · obtain ⟨L, hL⟩ := hlist y L' hL'
      apply not_mem_of_count_zero
      have := hr.le y L L' hL hL' (.check d)
      rw [List.count_eq_zero.mpr (hc.chk_gone d hgs y L hL)] at this
      omega
    · exact hclean d hu y L' hL'
  · intro d hm; rw [hS.ops_eq]; exact hc.rem_att d (List.mem_cons_of_mem _ hm)
  · intro d hg hm
    rcases (hgone d).mp hg with hgs | hu
    · exact hc.rem_gone d hgs (List.mem_cons_of_mem _ hm)
    · -- a `_check d` pending for the condition `c` being processed would make `c` an operand of `d`
      have h1 := hc.rem_att d (List.mem_cons_of_mem _ hm)
      rw [← hce0] at h1
      have h2 := hc.older d c h1
      have h3 := hu.le hc.older
      exact absurd (Nat.lt_of_lt_of_le h2 h3) (Nat.lt_irrefl _)
  · intro y L' d hL' hm
    obtain ⟨L, hL⟩ := hlist y L' hL'
    rw [hS.ops_eq]
    refine hc.bld_own y L d hL ?_
    have := hr.same y L L' hL hL' (.build d) (fun d' hd' => by cases hd')
    have hpos := List.count_pos_iff.mpr hm
    exact List.count_pos_iff.mp (by omega)
  · intro d L' hL' hne
    obtain ⟨L, hL⟩ := hlist d L' hL'
    rw [hS.ops_eq] at hne
    rw [hr.same d L L' hL hL' (.build d) (fun d' hd' => by cases hd')]
    exact hc.bld_cnt d L hL hne
  · intro d hm; rw [hS.ops_eq]; exact hc.rem_bld_own d (List.mem_cons_of_mem _ hm)
  · intro d
    have := hc.rem_bld_cnt d
    rw [List.count_cons] at this
    omega
  · intro _
    exact ⟨by rw [hr.size]; exact he0lt, (hr.cbsNone e0).mpr he0done⟩
  · intro d hcond ho hg
    rw [hS.isCond_eq] at hcond
    rw [hr.out] at ho
    rw [hr.count, hnP, ← hcntb]
    exact hc.cnt d hcond ho (fun hh => hg ((hgone d).mpr (Or.inl hh)))
  · intro d hcond ho hg e he hp x hx
    rw [hS.isCond_eq] at hcond
    rw [hr.out] at ho hx
    rw [hS.ops_eq] at he
    rw [hproc] at hp
    obtain ⟨h1, h2⟩ := hc.nofail d hcond ho (fun hh => hg ((hgone d).mpr (Or.inl hh))) e he hp x hx
    exact ⟨h1, (hmemb d).mp h2⟩
  · intro d hcond ho
    rw [hS.isCond_eq] at hcond
    rw [hr.out] at ho
    rw [hS.isAll_eq, hS.ops_eq, hr.count]
    exact hc.unmet d hcond ho
  · intro d v hcond ho
    rw [hS.isCond_eq] at hcond
    rw [hr.out] at ho
    rw [hS.isAll_eq, hS.ops_eq, hnP]
    exact hc.met d v hcond ho
  · intro d x hcond ho
    rw [hS.isCond_eq] at hcond
    rw [hr.out] at ho
    obtain ⟨e, he, hp, hx, hdf⟩ := hc.failsrc d x hcond ho
    exact ⟨e, by rw [hS.ops_eq]; exact he, by rw [hproc]; exact hp, by rw [hr.out]; exact hx, by rw [hr.defused]; exact hdf⟩

theorem ev_setOut (s : KState ℚ σ) (c x : EvId) (o : Outcome) :
    (s.setOut c o).ev x = if x = c ∧ c < s.events.size then { s.ev c with out := some o } else s.ev x := by
  unfold KState.setOut; exact KState.ev_setEv s c x _

/-- **`_build_value` running as the callback of its own condition keeps the counting invariant**; afterwards the
condition is built, and nothing of it or of the conditions nested below it is left in any callback list -/
theorem CInv.condBuild_cb {rest : List Cb} {e0 c : EvId} {s : KState ℚ σ} (hc : CInv (.build c :: rest) e0 s) :
    CInv rest e0 (condBuild s c) ∧ Mono (.build c :: rest) s (condBuild s c) := by
  obtain ⟨h1, hr, _, _⟩ := hc.removeChecks_cb
  rw [condBuild_eq]
  generalize removeChecks (c + 1) c s = s1 at h1 hr
  split
  · rename_i v hv
    have hlt : c < s1.events.size := Once.lt_of_out s1 c (by rw [hv]; simp)
    have hev : ∀ x, (s1.setOut c (.ok (.cv (populate (c + 1) s1 c)))).ev x =
        if x = c then { s1.ev c with out := some (.ok (.cv (populate (c + 1) s1 c))) } else s1.ev x := by
      intro x; rw [ev_setOut]
      by_cases hx : x = c
      · rw [if_pos ⟨hx, hlt⟩, if_pos hx]
      · rw [if_neg (fun hh => hx hh.1), if_neg hx]
    have hfield : ∀ x, ((s1.setOut c (.ok (.cv (populate (c + 1) s1 c)))).ev x).kind = (s1.ev x).kind ∧
        ((s1.setOut c (.ok (.cv (populate (c + 1) s1 c)))).ev x).cbs = (s1.ev x).cbs ∧
        ((s1.setOut c (.ok (.cv (populate (c + 1) s1 c)))).ev x).count = (s1.ev x).count ∧
        ((s1.setOut c (.ok (.cv (populate (c + 1) s1 c)))).ev x).defused = (s1.ev x).defused := by
      intro x; rw [hev]; split
      · rename_i hx; rw [hx]; exact ⟨rfl, rfl, rfl, rfl⟩
      · exact ⟨rfl, rfl, rfl, rfl⟩
    have hout : ∀ x, x ≠ c → ((s1.setOut c (.ok (.cv (populate (c + 1) s1 c)))).ev x).out = (s1.ev x).out := by
      intro x hx; rw [hev, if_neg hx]
    have houtc : ((s1.setOut c (.ok (.cv (populate (c + 1) s1 c)))).ev c).out = some (.ok (.cv (populate (c + 1) s1 c))) := by
      rw [hev, if_pos rfl]
    constructor
    · exact h1.rewrite_ok c (by unfold KState.setOut; exact Once.size_setEv _ _ _) (fun x => (hfield x).1)
        (fun x => (hfield x).2.1) (fun x => (hfield x).2.2.1) (fun x => (hfield x).2.2.2) hout v _ hv houtc
    · refine ⟨?_, ?_, ?_, ?_⟩
      · intro x o ho
        by_cases hx : x = c
        · right
          rw [hx] at ho ⊢
          rw [← hr.out, hv] at ho
          cases ho
          exact ⟨List.mem_cons_self, v, _, rfl, houtc⟩
        · left; rw [hout x hx, hr.out]; exact ho
      · intro x ho
        by_cases hx : x = c
        · rw [hx, houtc]; simp
        · rw [hout x hx, hr.out]; exact ho
      · intro x _; rw [(hfield x).2.2.1, hr.count]
      · intro d _ ho _
        have hd : d ≠ c := fun h => by rw [h, ← hr.out, hv] at ho; cases ho
        rw [hout d hd, hr.out]; exact ho
  · exact ⟨h1, ⟨fun x o ho => Or.inl (by rw [hr.out]; exact ho), fun x ho => by rw [hr.out]; exact ho,
      fun x _ => hr.count x, fun d _ ho _ => by rw [hr.out]; exact ho⟩⟩

end Cond
