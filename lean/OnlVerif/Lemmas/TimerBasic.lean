import Mathlib.Tactic.Linarith
import Mathlib.Algebra.Order.Field.Rat
import OnlVerif.Util.Timer
/-!
# Timer LTS: scalar facts over `ℚ`, list look-ups, and the shape of each enabled action
-/

namespace Timer

theorem zero_eq : (Num.zero : ℚ) = 0 := by
  show ((0 : ℕ) : ℚ) = 0
  simp

theorem eqb_iff (a b : ℚ) : Num.eqb a b = true ↔ a = b := by
  unfold Num.eqb
  simp only [Bool.and_eq_true, Bool.not_eq_true', decide_eq_false_iff_not, not_lt]
  constructor
  · rintro ⟨h1, h2⟩; exact le_antisymm h2 h1
  · rintro rfl; exact ⟨le_refl _, le_refl _⟩

/-! ### look-ups in the process list -/

section lists
variable {β : Type}

theorem lt_of_get {l : List β} {i : Nat} {b : β} (h : l[i]? = some b) : i < l.length := by
  rcases List.getElem?_eq_some_iff.mp h with ⟨h1, _⟩
  exact h1

theorem get_set_self {l : List β} {i : Nat} {a b : β} (h : l[i]? = some b) : (l.set i a)[i]? = some a :=
  List.getElem?_set_self (lt_of_get h)

theorem get_set_ne {l : List β} {i j : Nat} {a : β} (h : i ≠ j) : (l.set i a)[j]? = l[j]? :=
  List.getElem?_set_ne h

/-- what a look-up in an updated list can return -/
theorem get_set_cases {l : List β} {i j : Nat} {a b : β} (h : (l.set i a)[j]? = some b) :
    (j = i ∧ b = a) ∨ (j ≠ i ∧ l[j]? = some b) := by
  by_cases hij : i = j
  · subst hij
    rw [List.getElem?_set] at h
    simp only [if_true] at h
    split at h
    · exact Or.inl ⟨rfl, (Option.some.inj h).symm⟩
    · cases h
  · rw [List.getElem?_set_ne hij] at h
    exact Or.inr ⟨fun e => hij e.symm, h⟩

theorem get_append_old {l : List β} {i : Nat} {b : β} (m : List β) (h : l[i]? = some b) : (l ++ m)[i]? = some b := by
  rw [List.getElem?_append_left (lt_of_get h)]; exact h

theorem get_concat_cases {l : List β} {i : Nat} {b x : β} (h : (l ++ [x])[i]? = some b) :
    l[i]? = some b ∨ (i = l.length ∧ b = x) := by
  rcases Nat.lt_trichotomy i l.length with h1 | h1 | h1
  · left; rwa [List.getElem?_append_left h1] at h
  · right; subst h1; simp at h; exact ⟨rfl, h.symm⟩
  · exfalso
    have : (l ++ [x])[i]? = none := by
      apply List.getElem?_eq_none; simp; omega
    rw [this] at h; cases h

end lists

/-! ### the shape of each enabled action -/

variable {s s' : State ℚ} {o : List (Out ℚ)}

theorem doInit_ok {pid : Nat} (h : doInit pid s = .ok s' o) :
    ∃ rest, s.uq = .init pid :: rest ∧ s.procs[pid]? = some .notStarted ∧
      s' = loopTest pid (popUq s rest) ∧ o = [] := by
  unfold doInit at h
  split at h
  · rename_i p rest huq
    split at h
    · rename_i hp
      subst hp
      split at h
      · rename_i hst
        cases h
        exact ⟨rest, huq, hst, rfl, rfl⟩
      · cases h
    · cases h
  · cases h

theorem doIntr_ok {pid : Nat} (h : doIntr pid s = .ok s' o) :
    ∃ rest, s.uq = .intr pid :: rest ∧ o = [] ∧
      ((s.procs[pid]? = some .finished ∧ s' = popUq s rest) ∨
       (∃ w, s.procs[pid]? = some (.sleeping w) ∧ s' = setStat (popUq s rest) pid .finished)) := by
  unfold doIntr at h
  split at h
  · rename_i p rest huq
    split at h
    · rename_i hp
      subst hp
      split at h
      · rename_i hst; cases h; exact ⟨rest, huq, rfl, Or.inl ⟨hst, rfl⟩⟩
      · rename_i w hst; cases h; exact ⟨rest, huq, rfl, Or.inr ⟨w, hst, rfl⟩⟩
      · cases h
      · cases h
    · cases h
  · cases h

theorem doIntr_raised {pid : Nat} {e : Err} (h : doIntr pid s = .raised e) :
    ∃ rest, s.uq = .intr pid :: rest ∧ s.procs[pid]? = some .notStarted := by
  unfold doIntr at h
  split at h
  · rename_i p rest huq
    split at h
    · rename_i hp
      subst hp
      split at h
      · cases h
      · cases h
      · rename_i hst; exact ⟨rest, huq, hst⟩
      · cases h
    · cases h
  · cases h

theorem wakeBody_ok {pid : Nat} {cb : List (CbOp ℚ)} (h : wakeBody pid cb s = .ok s' o) :
    (s.stopped = true ∧ cb = [] ∧ s' = loopTest pid s ∧ o = []) ∨
    (s.stopped = false ∧ ∃ s1, runCb pid cb s = .ok s1 ∧ s' = loopTest pid (autoRebase s1) ∧
      o = [.fire s.now s.args]) := by
  unfold wakeBody at h
  split at h
  · rename_i hst
    split at h
    · rename_i hc
      cases h
      exact Or.inl ⟨hst, List.isEmpty_iff.mp hc, rfl, rfl⟩
    · cases h
  · rename_i hst
    split at h
    · cases h
    · rename_i s1 hcb
      cases h
      exact Or.inr ⟨by simpa using hst, s1, hcb, rfl, rfl⟩

theorem doWake_ok {pid : Nat} {cb : List (CbOp ℚ)} (h : doWake pid cb s = .ok s' o) :
    s.uq = [] ∧ s.procs[pid]? = some (.sleeping s.now) ∧ wakeBody pid cb s = .ok s' o := by
  unfold doWake at h
  split at h
  · rename_i huq
    split at h
    · rename_i w hst
      split at h
      · rename_i hw
        rw [(eqb_iff _ _).mp hw] at hst
        exact ⟨huq, hst, h⟩
      · cases h
    · cases h
  · cases h

theorem doWake_raised {pid : Nat} {cb : List (CbOp ℚ)} {e : Err} (h : doWake pid cb s = .raised e) :
    s.uq = [] ∧ s.procs[pid]? = some (.sleeping s.now) ∧ s.stopped = false ∧ runCb pid cb s = .error e := by
  unfold doWake at h
  split at h
  · rename_i huq
    split at h
    · rename_i w hst
      split at h
      · rename_i hw
        rw [(eqb_iff _ _).mp hw] at hst
        unfold wakeBody at h
        split at h
        · split at h <;> cases h
        · rename_i hs
          split at h
          · rename_i e' hcb
            cases h
            exact ⟨huq, hst, by simpa using hs, hcb⟩
          · cases h
      · cases h
    · cases h
  · cases h

@[simp] theorem noneDueBefore_nil (t : ℚ) : noneDueBefore t [] = true := rfl
@[simp] theorem noneDueBefore_sleeping (t w : ℚ) (ps : List (PStat ℚ)) :
    noneDueBefore t (PStat.sleeping w :: ps) = (!decide (w < t) && noneDueBefore t ps) := rfl
@[simp] theorem noneDueBefore_finished (t : ℚ) (ps : List (PStat ℚ)) :
    noneDueBefore t (PStat.finished :: ps) = noneDueBefore t ps := rfl
@[simp] theorem noneDueBefore_notStarted (t : ℚ) (ps : List (PStat ℚ)) :
    noneDueBefore t (PStat.notStarted :: ps) = noneDueBefore t ps := rfl

theorem noneDueBefore_spec {t : ℚ} (ps : List (PStat ℚ)) (h : noneDueBefore t ps = true) :
    ∀ (pid : Nat) (w : ℚ), ps[pid]? = some (PStat.sleeping w) → t ≤ w := by
  induction ps with
  | nil => intro pid w hg; simp at hg
  | cons p ps ih =>
    intro pid w hg
    cases pid with
    | zero =>
      simp only [List.getElem?_cons_zero, Option.some.injEq] at hg
      subst hg
      simp only [noneDueBefore, Bool.and_eq_true, Bool.not_eq_true', decide_eq_false_iff_not, not_lt] at h
      exact h.1
    | succ n =>
      simp only [List.getElem?_cons_succ] at hg
      have h' : noneDueBefore t ps = true := by
        cases p with
        | sleeping w' => simp only [noneDueBefore, Bool.and_eq_true] at h; exact h.2
        | notStarted => simpa only [noneDueBefore] using h
        | finished => simpa only [noneDueBefore] using h
      exact ih h' n w hg

theorem doTick_ok {t : ℚ} (h : doTick t s = .ok s' o) :
    s.uq = [] ∧ s.now < t ∧ (∀ (pid : Nat) (w : ℚ), s.procs[pid]? = some (PStat.sleeping w) → t ≤ w) ∧
      s' = { s with now := t } ∧ o = [] := by
  unfold doTick at h
  split at h
  · rename_i huq
    split at h
    · rename_i hc
      simp only [Bool.and_eq_true, decide_eq_true_eq] at hc
      cases h
      exact ⟨huq, hc.1, noneDueBefore_spec _ hc.2, rfl, rfl⟩
    · cases h
  · cases h

/-! ### `run` -/

theorem run_nil (s : State ℚ) : run s [] = .ok s [] := rfl

theorem run_cons_ok {a : Action ℚ} {as : List (Action ℚ)} (h : run s (a :: as) = .ok s' o) :
    ∃ s1 o1 o2, step s a = .ok s1 o1 ∧ run s1 as = .ok s' o2 ∧ o = o1 ++ o2 := by
  rw [run] at h
  cases hs : step s a with
  | ok s1 o1 =>
    rw [hs] at h
    simp only at h
    cases hr : run s1 as with
    | ok s2 o2 =>
      rw [hr] at h
      simp only [Res.ok.injEq] at h
      exact ⟨s1, o1, o2, rfl, by rw [hr, h.1], h.2.symm⟩
    | raised e => rw [hr] at h; cases h
    | reject => rw [hr] at h; cases h
  | raised e => rw [hs] at h; cases h
  | reject => rw [hs] at h; cases h

theorem run_cons_of {a : Action ℚ} {as : List (Action ℚ)} {s1 : State ℚ} {o1 o2 : List (Out ℚ)}
    (h1 : step s a = .ok s1 o1) (h2 : run s1 as = .ok s' o2) : run s (a :: as) = .ok s' (o1 ++ o2) := by
  rw [run, h1]; simp only; rw [h2]

/-- a run over `pre ++ post` is a run over `pre` followed by a run over `post`; outputs concatenate -/
theorem run_append_ok : ∀ {pre : List (Action ℚ)} {post : List (Action ℚ)} {s s' : State ℚ} {o : List (Out ℚ)},
    run s (pre ++ post) = .ok s' o →
    ∃ s1 o1 o2, run s pre = .ok s1 o1 ∧ run s1 post = .ok s' o2 ∧ o = o1 ++ o2
  | [], post, s, s', o, h => ⟨s, [], o, rfl, h, rfl⟩
  | a :: pre, post, s, s', o, h => by
    obtain ⟨s1, o1, o2, hs, hr, ho⟩ := run_cons_ok (as := pre ++ post) h
    obtain ⟨s2, o3, o4, hr1, hr2, ho2⟩ := run_append_ok hr
    refine ⟨s2, o1 ++ o3, o4, run_cons_of hs hr1, hr2, ?_⟩
    rw [ho, ho2, List.append_assoc]

theorem run_raised_cons {a : Action ℚ} {as : List (Action ℚ)} {e : Err} (h : run s (a :: as) = .raised e) :
    step s a = .raised e ∨ ∃ s1 o1, step s a = .ok s1 o1 ∧ run s1 as = .raised e := by
  rw [run] at h
  cases hs : step s a with
  | ok s1 o1 =>
    rw [hs] at h
    simp only at h
    cases hr : run s1 as with
    | ok s2 o2 => rw [hr] at h; cases h
    | raised e' => rw [hr] at h; simp only at h; exact Or.inr ⟨s1, o1, rfl, by rw [hr]; exact h⟩
    | reject => rw [hr] at h; cases h
  | raised e' => rw [hs] at h; exact Or.inl h
  | reject => rw [hs] at h; cases h

end Timer
