import OnlVerif.Lemmas.TimerKStepTm
import OnlVerif.Lemmas.TimerKStepCtl
import OnlVerif.Lemmas.TimerKAbsStep
import OnlVerif.Lemmas.ResStep
/-!
# The Timer on the kernel model: every kernel step is a configuration step; whole runs
-/

set_option linter.unusedSimpArgs false

namespace TimerK
open TimerOnK QEntry
open Timer (CbOp PStat UEv)

variable {auto : Bool} {arg : Int} {cbs : List (Option Op)} {T : ℚ}
variable {s : KS} {a : A} {q : QEntry ℚ} {rest : List (QEntry ℚ)}

/-- what `popMin` returns is a minimal entry of the configuration -/
theorem isMin_of_pop (hk : KInv s a) (hp : popMin s.agenda = some (q, rest)) :
    IsMin a q ∧ a.entries.Perm (q :: rest) := by
  have sp := popMin_spec _ _ _ hp
  have hperm : a.entries.Perm (q :: rest) := hk.ag.symm.trans sp.1
  refine ⟨⟨hperm.symm.subset List.mem_cons_self, ?_⟩, hperm⟩
  intro x hx
  rcases List.mem_cons.mp (hperm.subset hx) with rfl | hx
  · exact KeyLt.irrefl _
  · exact sp.2 x hx

/-- **one kernel step = one configuration step** -/
theorem kstep (fuel : Nat) {hist : List (HEv ℚ)} (hk : KInv s a) (hi : AInv auto cbs T a s.now hist)
    (hp : popMin s.agenda = some (q, rest)) :
    ∃ s' a' new, step (body auto arg cbs) (fuel + 1) s = .ok s' ∧ KInv s' a' ∧ AStep auto cbs a q a' new ∧
      s'.now = q.time ∧ histOf s'.trace = histOf s.trace ++ new := by
  obtain ⟨hmin, hperm⟩ := isMin_of_pop hk hp
  have hq := hmin.1
  simp only [A.entries, List.mem_append] at hq
  rcases hq with hq | hq | hq | hq
  · -- an entry of `self.proc`
    have hpa := hi.ph
    cases hph : a.ph with
    | dead => simp [hph, TPhase.entries] at hq
    | init q0 =>
      simp only [hph, TPhase.entries, List.mem_singleton] at hq; subst hq
      rw [hph] at hpa
      have hold : a.old = none := by
        cases ho : a.old with
        | none => rfl
        | some o =>
          exfalso
          have h1 := hi.old o ho
          exact hi.not_eid_lt hmin (mem_old (by simp [ho, oldEntries, Old.entries])) h1.1 (h1.2.1.trans hpa.2.1.symm)
            (hpa.2.2.2 o ho)
      have hrest : rest.Perm (oldEntries a.old ++ (a.ctl.entries ++ a.noop)) := by
        simp only [A.entries, hph, TPhase.entries] at hperm
        perm_count hperm
      have hexp : q.time < a.expire := by rw [hpa.1]; exact hpa.2.2.1
      obtain ⟨s', h1, h2, h3, h4⟩ := kstep_tmInit (auto := auto) (arg := arg) (cbs := cbs) fuel hk hph hold hexp hp hrest
      exact ⟨s', _, [], h1, h2, AStep.tmInit a q _ _ hph hold, h3, by simpa using h4⟩
    | sleep t q0 =>
      simp only [hph, TPhase.entries, List.mem_singleton] at hq; subst hq
      rw [hph] at hpa
      have hold : a.old = none := hpa.2.2
      have hrest : rest.Perm (oldEntries a.old ++ (a.ctl.entries ++ a.noop)) := by
        simp only [A.entries, hph, TPhase.entries] at hperm
        perm_count hperm
      by_cases hcont : q.time < (wakeCells auto cbs q.time a).expire
      · obtain ⟨s', h1, h2, h3, h4⟩ :=
          kstep_wakeSleep (auto := auto) (arg := arg) (cbs := cbs) fuel hk hph hold hi.tpos hcont hp hrest
        exact ⟨s', _, _, h1, h2, AStep.wakeSleep a q _ _ t hph hold hcont, h3, h4⟩
      · obtain ⟨s', h1, h2, h3, h4⟩ :=
          kstep_wakeDead (auto := auto) (arg := arg) (cbs := cbs) fuel hk hph hold hi.tpos hcont hp hrest
        exact ⟨s', _, _, h1, h2, AStep.wakeDead a q _ t hph hold hcont, h3, h4⟩
  · -- the interrupt on its way to the previous process, or that process's timeout
    cases ho : a.old with
    | none => simp [ho, oldEntries] at hq
    | some o =>
      simp only [ho, oldEntries, Old.entries, List.mem_cons, List.not_mem_nil, or_false] at hq
      have h1 := hi.old o ho
      rcases hq with rfl | rfl
      · have hrest : rest.Perm (a.ph.entries ++ ([o.qt] ++ (a.ctl.entries ++ a.noop))) := by
          simp only [A.entries, ho, oldEntries, Old.entries] at hperm
          perm_count hperm
        obtain ⟨s', h1, h2, h3, h4⟩ := kstep_intr (auto := auto) (arg := arg) (cbs := cbs) fuel hk ho rfl hp hrest
        exact ⟨s', _, [], h1, h2, AStep.intr a _ _ o ho rfl, h3, by simpa using h4⟩
      · exfalso
        refine hi.not_prio_lt hmin (mem_old (x := o.qi) (by simp [ho, oldEntries, Old.entries])) h1.1 ?_
        rw [h1.2.1, h1.2.2]; decide
  · -- an entry of the controller
    have hca := hi.ctl
    have hcp := hi.cprio
    have hrest : rest.Perm (a.ph.entries ++ (oldEntries a.old ++ a.noop)) := by
      cases hctl : a.ctl with
      | done => simp [hctl, CPhase.entries] at hq
      | init q0 sc =>
        simp only [hctl, CPhase.entries, List.mem_singleton] at hq; subst hq
        simp only [A.entries, hctl, CPhase.entries] at hperm
        perm_count hperm
      | wait op sc q0 =>
        simp only [hctl, CPhase.entries, List.mem_singleton] at hq; subst hq
        simp only [A.entries, hctl, CPhase.entries] at hperm
        perm_count hperm
    cases hctl : a.ctl with
    | done => simp [hctl, CPhase.entries] at hq
    | init q0 sc =>
      simp only [hctl, CPhase.entries, List.mem_singleton] at hq; subst hq
      rw [hctl] at hca
      obtain ⟨s', h1, h2, h3, h4⟩ :=
        kstep_ctlInit (auto := auto) (arg := arg) (cbs := cbs) fuel hk hctl (fun x hx => (hca.2.2 x hx).1) hp hrest
      exact ⟨s', _, [], h1, h2, AStep.ctlInit a q _ _ sc hctl, h3, by simpa using h4⟩
    | wait op sc q0 =>
      simp only [hctl, CPhase.entries, List.mem_singleton] at hq; subst hq
      rw [hctl] at hca hcp
      have hg : ∀ x ∈ sc, 0 ≤ x.1 := fun x hx => (hca.2 x hx).1
      cases op with
      | stop =>
        obtain ⟨s', h1, h2, h3, h4⟩ := kstep_ctlStop (auto := auto) (arg := arg) (cbs := cbs) fuel hk hctl hg hp hrest
        exact ⟨s', _, _, h1, h2, AStep.ctlStop a q _ _ sc hctl, h3, h4⟩
      | restart tau =>
        have hpa := hi.ph
        cases hph : a.ph with
        | init q1 =>
          exfalso
          rw [hph] at hpa
          refine hi.not_prio_lt hmin (mem_ph (x := q1) (by simp [hph, TPhase.entries])) hpa.1 ?_
          rw [hpa.2.1, show q.prio = NORMAL from hcp]; decide
        | sleep t qt =>
          rw [hph] at hpa
          obtain ⟨s', h1, h2, h3, h4⟩ :=
            kstep_ctlRestartAlive (auto := auto) (arg := arg) (cbs := cbs) fuel hk hctl hph hpa.2.2 hg hp hrest
          exact ⟨s', _, _, h1, h2, AStep.ctlRestartAlive a q _ _ sc tau t qt hctl hph hpa.2.2, h3, h4⟩
        | dead =>
          obtain ⟨s', h1, h2, h3, h4⟩ :=
            kstep_ctlRestartDead (auto := auto) (arg := arg) (cbs := cbs) fuel hk hctl hph hg hp hrest
          exact ⟨s', _, _, h1, h2, AStep.ctlRestartDead a q _ _ sc tau hctl hph, h3, h4⟩
  · -- an entry with nothing left to do
    obtain ⟨l1, l2, hl⟩ := List.append_of_mem hq
    have hrest : rest.Perm (a.ph.entries ++ (oldEntries a.old ++ (a.ctl.entries ++ (l1 ++ l2)))) := by
      simp only [A.entries, hl] at hperm
      perm_count hperm
    obtain ⟨s', h1, h2, h3, h4⟩ := kstep_noop (auto := auto) (arg := arg) (cbs := cbs) fuel hk hl hp hrest
    exact ⟨s', _, [], h1, h2, AStep.noop a q l1 l2 hl, h3, by simpa using h4⟩

/-! ## the combined invariant -/

/-- the kernel state `s` of the run is the configuration `a`, and `a` is sound -/
structure Inv (auto : Bool) (cbs : List (Option Op)) (T : ℚ) (s : KS) (a : A) : Prop where
  k : KInv s a
  a : AInv auto cbs T a s.now (histOf s.trace)

/-- **one kernel step**: it is `.ok`, keeps the invariant, and is a sequence of actions the Timer LTS accepts from
`toT a` to `toT a'` whose callback invocations are the `fire` observations the step appended to the trace -/
theorem inv_step (hcbs : CbsOK cbs) (fuel : Nat) (h : Inv auto cbs T s a) (hp : popMin s.agenda = some (q, rest)) :
    ∃ s' a' new, step (body auto arg cbs) (fuel + 1) s = .ok s' ∧ Inv auto cbs T s' a' ∧
      histOf s'.trace = histOf s.trace ++ new ∧
      ∃ acts, Timer.run (toT auto arg a s.now) acts = .ok (toT auto arg a' s'.now) (outsOfH arg new) := by
  obtain ⟨s', a', new, h1, h2, h3, h4, h5⟩ := kstep (arg := arg) fuel h.k h.a hp
  obtain ⟨g1, g2⟩ := astep_sound (arg := arg) hcbs h.a (isMin_of_pop h.k hp).1 h3
  refine ⟨s', a', new, h1, ⟨h2, ?_⟩, h5, ?_⟩
  · rw [h4, h5]; exact g1
  · rw [h4]; exact g2

theorem popMin_none {l : List (QEntry ℚ)} (h : popMin l = none) : l = [] := by
  cases l with
  | nil => rfl
  | cons x xs =>
    unfold popMin at h
    cases hp : popMin xs with
    | none => rw [hp] at h; cases h
    | some mr => rw [hp] at h; simp only at h; split at h <;> cases h

/-! ## the initial state -/

/-- the configuration of the initial state: the timer and the controller have been created (in this order, or the
other way round), neither has started -/
def a0 (ctlFirst : Bool) (T : ℚ) (script : List (ℚ × Op)) : A :=
  if ctlFirst then
    { cp := 0, cur := 2, ph := .init ⟨0, URGENT, 1, 3⟩, old := none, dead := [], ctl := .init ⟨0, URGENT, 0, 1⟩ script,
      noop := [], stopped := false, expire := T, timeout := T, start := 0, fired := 0 }
  else
    { cp := 2, cur := 0, ph := .init ⟨0, URGENT, 0, 1⟩, old := none, dead := [], ctl := .init ⟨0, URGENT, 1, 3⟩ script,
      noop := [], stopped := false, expire := T, timeout := T, start := 0, fired := 0 }

/-- the state `Timer.__init__` builds, in the LTS -/
def lts0 (auto : Bool) (arg : Int) (T : ℚ) : Timer.State ℚ :=
  { now := 0, timeout := T, start := 0, expire := 0 + T, stopped := false, auto := auto, args := [arg],
    procs := [.notStarted], proc := 0, uq := [.init 0] }

theorem create_lts0 (auto : Bool) (arg : Int) (hT : 0 < T) :
    Timer.create (0 : ℚ) T auto (.scalar arg) = .ok (lts0 auto arg T) := by
  unfold Timer.create
  rw [Timer.zero_eq, if_neg (not_le.mpr hT)]
  rfl

theorem toT_a0 (ctlFirst : Bool) (script : List (ℚ × Op)) : toT auto arg (a0 ctlFirst T script) 0 = lts0 auto arg T := by
  cases ctlFirst <;> simp [toT, a0, lts0, oldStat, TPhase.stat, A.nprev]

theorem inv_init (ctlFirst : Bool) (script : List (ℚ × Op)) (hT : 0 < T) (hsc : ScriptOK script) :
    Inv auto cbs T (initState ctlFirst T script) (a0 ctlFirst T script) := by
  cases ctlFirst
  all_goals
    simp [-Array.getD_eq_getD_getElem?, initState, mkTimer, doCall, KState.newLabelled, KState.newEv, KState.setProc,
      KState.schedule, zero_eq', cStopped, cExpire, cTimeout, cStart, cProc, cFired, cStarted, a0]
    refine ⟨⟨⟨?_, ?_, ?_⟩, ?_, ?_, ?_, ?_, ?_, ?_, ?_, ?_, ?_, ?_, ?_, ?_, ?_⟩, ⟨?_, ?_, ?_, ?_, ?_, ?_, ?_, ?_⟩⟩
    · intro q hq; simp at hq; rcases hq with rfl | rfl <;> simp
    · intro q hq; simp at hq; rcases hq with rfl | rfl <;> simp
    · simp
    · simp only [A.entries, TPhase.entries, oldEntries, CPhase.entries, List.append_nil, List.nil_append, List.singleton_append]
      first | exact List.Perm.refl _ | exact List.Perm.swap _ _ _
    · refine ⟨rfl, ?_, ?_, ?_⟩
      · simp [EvIs, KState.ev]
      · simp [proc?_eq, plookup]
      · simp [EvIs, KState.ev]
    · intro o ho; cases ho
    · refine ⟨rfl, ?_, ?_, ?_⟩
      · simp [EvIs, KState.ev]
      · simp [proc?_eq, plookup]
      · simp [EvIs, KState.ev]
    · intro x hx; cases hx
    · simp [A.ids, TPhase.ids, oldIds, CPhase.ids, evs]
    · simp [lookup]
    · simp [lookup]
    · simp [lookup]
    · simp [lookup]
    · simp [lookup]
    · simp [lookup]
    · simp [lookup, oldStat]
    · exact ⟨rfl, rfl, hT, fun o ho => by cases ho⟩
    · intro o ho; cases ho
    · exact ⟨rfl, rfl, hsc⟩
    · trivial
    · intro x hx; cases hx
    · intro x hx
      simp [A.entries, TPhase.entries, oldEntries, CPhase.entries] at hx
      rcases hx with rfl | rfl <;> simp
    · exact hT
    · simp [histOf, orun, o0, oOf, zero_eq']

/-! ## every reachable state -/

/-- **every state reachable by kernel steps is a sound configuration, and the run so far is an admissible run of
the Timer LTS** from the state its constructor builds to the configuration's LTS state, with the same callback
invocations; the call/fire history passes the property's oracle -/
theorem reach_inv (hcbs : CbsOK cbs) (fuel : Nat) (ctlFirst : Bool) (script : List (ℚ × Op)) (hT : 0 < T)
    (hsc : ScriptOK script) {s : KS} (h : KReach (body auto arg cbs) (fuel + 1) (initState ctlFirst T script) s) :
    ∃ a acts, Inv auto cbs T s a ∧
      Timer.run (lts0 auto arg T) acts = .ok (toT auto arg a s.now) (outsOfH arg (histOf s.trace)) := by
  induction h with
  | init =>
    refine ⟨a0 ctlFirst T script, [], inv_init ctlFirst script hT hsc, ?_⟩
    have hn : (initState ctlFirst T script : KS).now = 0 := by
      cases ctlFirst <;> simp [initState, mkTimer, doCall, KState.newLabelled, KState.newEv, KState.setProc, KState.schedule, zero_eq']
    have ht : (initState ctlFirst T script : KS).trace = #[] := by
      cases ctlFirst <;> simp [initState, mkTimer, doCall, KState.newLabelled, KState.newEv, KState.setProc, KState.schedule]
    rw [hn, ht, toT_a0]
    rfl
  | @step s s' _ hs ih =>
    obtain ⟨a, acts, hi, hrun⟩ := ih
    cases hp : popMin s.agenda with
    | none => simp [step, hp, StepResult.state?] at hs
    | some qr =>
      obtain ⟨q, rest⟩ := qr
      obtain ⟨s'', a', new, h1, h2, h4, acts', h6⟩ := inv_step (arg := arg) hcbs fuel hi hp
      rw [h1] at hs
      simp only [StepResult.state?, Option.some.injEq] at hs
      subst hs
      refine ⟨a', acts ++ acts', h2, ?_⟩
      have := run_append_of hrun h6
      rw [this, h4]
      simp [outsOfH]

end TimerK
