import OnlVerif.Lemmas.VCKStepSrc
/-!
# The VirtualClock scheduler on the kernel model: every kernel step is a configuration step; the initial state
-/

set_option linter.unusedSimpArgs false

namespace VCK
open VCOnK QEntry
open TimerK (lookup plookup proc?_eq)

variable {N scale F : Nat} {flow size : Int → Nat} {cfg : VcCfg ℚ}
variable {s : KS} {a : A} {q : QEntry ℚ} {rest : List (QEntry ℚ)}

/-- what `popMin` returns is a minimal entry of the configuration -/
theorem isMin_of_pop (hk : KInv N scale F s a) (hp : popMin s.agenda = some (q, rest)) :
    IsMin a q ∧ a.entries.Perm (q :: rest) := by
  have sp := popMin_spec _ _ _ hp
  have hperm : a.entries.Perm (q :: rest) := hk.ag.symm.trans sp.1
  refine ⟨⟨hperm.symm.subset List.mem_cons_self, ?_⟩, hperm⟩
  intro x hx
  rcases List.mem_cons.mp (hperm.subset hx) with rfl | hx
  · exact KeyLt.irrefl _
  · exact sp.2 x hx

theorem perm_run (hr : a.run.entries = [q]) (hperm : a.entries.Perm (q :: rest)) :
    rest.Perm (a.src.entries ++ a.pend) := by
  simp only [A.entries, hr, List.singleton_append] at hperm
  exact hperm.cons_inv.symm

theorem perm_src (hr : a.src.entries = [q]) (hperm : a.entries.Perm (q :: rest)) :
    rest.Perm (a.run.entries ++ a.pend) := by
  have : (q :: (a.run.entries ++ a.pend)).Perm (q :: rest) := by
    refine List.Perm.trans ?_ hperm
    simp only [A.entries, hr, List.singleton_append]
    exact List.perm_middle.symm
  exact this.cons_inv.symm

theorem perm_pend {l1 l2 : List (QEntry ℚ)} (hpe : a.pend = l1 ++ q :: l2)
    (hperm : a.entries.Perm (q :: rest)) : rest.Perm (a.run.entries ++ (a.src.entries ++ (l1 ++ l2))) := by
  have : (q :: (a.run.entries ++ (a.src.entries ++ (l1 ++ l2)))).Perm (q :: rest) := by
    refine List.Perm.trans ?_ hperm
    simp only [A.entries, hpe]
    classical
    rw [List.perm_iff_count]
    intro z
    simp only [List.count_cons, List.count_append]
    omega
  exact this.cons_inv.symm

/-- `_trigger_get` of a pending `StorePut` that can serve nobody leaves the state alone -/
theorem triggerGet_noop (hk : KInv N scale F s a) {l1 l2 : List (QEntry ℚ)}
    (hpe : a.pend = l1 ++ q :: l2) (hno : ¬ (a.items ≠ [] ∧ ∃ g, a.run = .W g)) :
    triggerGet (openEvent s q rest) 0 = openEvent s q rest := by
  have hst := hk.st
  simp only [KState.res] at hst
  cases hrun : a.run with
  | W g =>
    have hit : a.items = [] := by
      by_contra hc
      exact hno ⟨hc, g, hrun⟩
    rw [hrun, hit] at hst
    simp only [RPhase.getQ, List.map_nil] at hst
    have hr := hk.run
    rw [hrun] at hr
    obtain ⟨nrun, nsrc, npend, drun, dsrc⟩ := (ids_nodup_iff a).mp hk.nd
    obtain ⟨hqmem, -⟩ := pend_split_facts hpe npend
    have hgq : g ≠ q.ev := by
      intro h
      have := (drun g (by simp [hrun, vcids])).2
      exact this (h ▸ hqmem)
    have hgo := hr.1.2.2
    simp only [KState.ev] at hgo
    exact triggerGet_empty _ 0 g hst (by ssimp [hgq, hgo])
  | init q0 => rw [hrun] at hst; exact triggerGet_none _ 0 _ hst
  | H g w q0 => rw [hrun] at hst; exact triggerGet_none _ 0 _ hst
  | S p id q0 => rw [hrun] at hst; exact triggerGet_none _ 0 _ hst
  | T p t id q0 => rw [hrun] at hst; exact triggerGet_none _ 0 _ hst
  | F p id q0 => rw [hrun] at hst; exact triggerGet_none _ 0 _ hst

/-! ## the integer of a `put` names its packet -/

/-- `item.item` of the integer of a `put` is its packet -/
theorem itemPkt_codeOf {w : PutRec} (h0 : 0 ≤ w.1) (hN : w.1 < N) : itemPkt N (codeOf N scale w) = w.1 := by
  unfold itemPkt codeOf stampItem
  rw [Int.add_comm, Int.add_mul_emod_self_right]
  exact Int.emod_eq_of_lt h0 hN

/-- ids are pairwise different along the `put`s -/
theorem eq_of_id_eq : ∀ {l : List PutRec}, l.Pairwise (fun x y => x.1 < y.1 ∧ x.2.1 ≤ y.2.1) →
    ∀ {x w : PutRec}, x ∈ l → w ∈ l → x.1 = w.1 → x = w
  | [], _, _, _, hx, _, _ => nomatch hx
  | c :: l, hp, x, w, hx, hw, h => by
    rw [List.pairwise_cons] at hp
    rcases List.mem_cons.mp hx with rfl | hx' <;> rcases List.mem_cons.mp hw with rfl | hw'
    · rfl
    · exact absurd h (ne_of_lt (hp.1 _ hw').1)
    · exact absurd h.symm (ne_of_lt (hp.1 _ hx').1)
    · exact eq_of_id_eq hp.2 hx' hw' h

variable {now : ℚ}

theorem AInv.dec (hi : AInv N scale F flow cfg a now) {w : PutRec} (hw : w ∈ a.puts) :
    itemPkt N (codeOf N scale w) = w.1 := by
  obtain ⟨-, h0, hN, -⟩ := hi.putOK w hw
  exact itemPkt_codeOf h0 hN

/-- the integers of the waiting packets are pairwise different -/
theorem AInv.inj (hi : AInv N scale F flow cfg a now) {w : PutRec} (hw : w ∈ a.items) :
    ∀ x ∈ a.items, codeOf N scale x = codeOf N scale w → x = w := by
  intro x hx h
  have hxp := hi.sub.subset hx
  have hwp := hi.sub.subset hw
  refine eq_of_id_eq hi.mono hxp hwp ?_
  rw [← hi.dec hxp, ← hi.dec hwp, h]

/-- **one kernel step = one configuration step** -/
theorem kstep (fuel : Nat) (hk : KInv N scale F s a) (hi0 : AInv N scale F flow cfg a s.now)
    (hp : popMin s.agenda = some (q, rest)) :
    ∃ s' a' new, step (prog flow size cfg N scale) (fuel + 1) s = .ok s' ∧ KInv N scale F s' a' ∧
      AStep N scale flow size cfg s.events.size s.eid a q a' new ∧ s'.now = q.time ∧
      histOf s'.trace = histOf s.trace ++ new := by
  obtain ⟨hmin, hperm⟩ := isMin_of_pop hk hp
  have hi := hi0.advance hmin
  have hq := hmin.1
  simp only [A.entries, List.mem_append] at hq
  rcases hq with hq | hq | hq
  · -- an entry of the server
    have hrun := hi.run
    cases hr : a.run with
    | W g => simp [hr, RPhase.entries] at hq
    | init q0 =>
      simp only [hr, RPhase.entries, List.mem_singleton] at hq; subst hq
      have hrest := perm_run (by simp [hr, RPhase.entries]) hperm
      rw [hr] at hrun
      obtain ⟨s', h1, h2, h3, h4⟩ := kstep_runInit (flow := flow) (size := size) (cfg := cfg) fuel hk hr hrun.2.2.2.1 hp hrest
      exact ⟨s', _, _, h1, h2, AStep.runInit a q hr, h3, h4⟩
    | H g w q0 =>
      simp only [hr, RPhase.entries, List.mem_singleton] at hq; subst hq
      have hrest := perm_run (by simp [hr, RPhase.entries]) hperm
      rw [hr] at hrun
      obtain ⟨s', h1, h2, h3, h4⟩ := kstep_pktResume (flow := flow) (size := size) (cfg := cfg) fuel hk hr
        (hi.dec hrun.2.2.2.1) hp hrest
      exact ⟨s', _, _, h1, h2, AStep.pktResume a q g w hr, h3, h4⟩
    | S p id q0 =>
      simp only [hr, RPhase.entries, List.mem_singleton] at hq; subst hq
      have hrest := perm_run (by simp [hr, RPhase.entries]) hperm
      obtain ⟨s', h1, h2, h3, h4⟩ := kstep_sendInit (flow := flow) (size := size) fuel hi.cfgOK.rate hk hr hp hrest
      exact ⟨s', _, [], h1, h2, AStep.sendInit a q p id hr, h3, by simpa using h4⟩
    | T p t id q0 =>
      simp only [hr, RPhase.entries, List.mem_singleton] at hq; subst hq
      have hrest := perm_run (by simp [hr, RPhase.entries]) hperm
      rw [hr] at hrun
      obtain ⟨s', h1, h2, h3, h4⟩ := kstep_sendFire (flow := flow) (size := size) (cfg := cfg) fuel hk hr hrun.2.2.1 hp hrest
      exact ⟨s', _, _, h1, h2, AStep.sendFire a q p t id hr, h3, h4⟩
    | F p id0 q0 =>
      simp only [hr, RPhase.entries, List.mem_singleton] at hq; subst hq
      have hrest := perm_run (by simp [hr, RPhase.entries]) hperm
      by_cases hit : a.items = []
      · obtain ⟨s', h1, h2, h3, h4⟩ := kstep_doneBlock (flow := flow) (size := size) (cfg := cfg) fuel hk hr hit hp hrest
        exact ⟨s', _, _, h1, h2, AStep.doneBlock a q p id0 hr hit, h3, h4⟩
      · obtain ⟨w, hw⟩ := exists_isLeast (N := N) (scale := scale) a.items hit
        obtain ⟨s', h1, h2, h3, h4⟩ := kstep_doneHit (flow := flow) (size := size) (cfg := cfg) fuel hk hr hw (hi.inj hw.1) hp hrest
        exact ⟨s', _, _, h1, h2, AStep.doneHit a q p id0 w hr hw, h3, h4⟩
  · -- an entry of the source
    have hsa := hi.src
    cases hsrc : a.src with
    | done => simp [hsrc, SPhase.entries] at hq
    | init q0 arr =>
      simp only [hsrc, SPhase.entries, List.mem_singleton] at hq; subst hq
      have hrest := perm_src (by simp [hsrc, SPhase.entries]) hperm
      rw [hsrc] at hsa
      obtain ⟨s', h1, h2, h3, h4⟩ := kstep_srcInit (flow := flow) (size := size) (cfg := cfg) fuel hk hsrc
        (fun x hx => (hsa.2.2.2.1.gap x hx).1) hp hrest
      exact ⟨s', _, [], h1, h2, AStep.srcInit a q arr hsrc, h3, by simpa using h4⟩
    | ending q0 =>
      simp only [hsrc, SPhase.entries, List.mem_singleton] at hq; subst hq
      have hrest := perm_src (by simp [hsrc, SPhase.entries]) hperm
      obtain ⟨s', h1, h2, h3, h4⟩ := kstep_srcEnd (flow := flow) (size := size) (cfg := cfg) fuel hk hsrc hp hrest
      exact ⟨s', _, [], h1, h2, AStep.srcEnd a q hsrc, h3, by simpa using h4⟩
    | wait id arr q0 =>
      simp only [hsrc, SPhase.entries, List.mem_singleton] at hq; subst hq
      have hrest := perm_src (by simp [hsrc, SPhase.entries]) hperm
      rw [hsrc] at hsa
      obtain ⟨-, hw, -⟩ := hsa
      have hfid : flow id < F := (hw.gap (0, id) (by simp)).2.1
      obtain ⟨vt, hvt, -⟩ := hi.cfgOK.vt _ hfid
      obtain ⟨s', h1, h2, h3, h4⟩ := kstep_srcPut (size := size) fuel hk hsrc hfid hvt
        (fun x hx => (hw.gap x (List.mem_cons_of_mem _ hx)).1) hp hrest
      exact ⟨s', _, _, h1, h2, AStep.srcPut a q id arr hsrc, h3, h4⟩
  · -- a pending `StorePut` event
    obtain ⟨l1, l2, hpe⟩ := List.append_of_mem hq
    have hrest := perm_pend hpe hperm
    by_cases hh : a.items ≠ [] ∧ ∃ g, a.run = .W g
    · obtain ⟨hit, g, hr⟩ := hh
      obtain ⟨w, hw⟩ := exists_isLeast (N := N) (scale := scale) a.items hit
      obtain ⟨s', h1, h2, h3, h4⟩ := kstep_pendHand (flow := flow) (size := size) (cfg := cfg) fuel hk hpe hr hw (hi.inj hw.1) hp hrest
      exact ⟨s', _, [], h1, h2, AStep.pendHand a q g w l1 l2 hpe hr hw, h3, by simpa using h4⟩
    · obtain ⟨s', h1, h2, h3, h4⟩ := kstep_pendNoop (flow := flow) (size := size) (cfg := cfg) fuel hk hpe
        (triggerGet_noop hk hpe hh) hp hrest
      exact ⟨s', _, [], h1, h2, AStep.pendNoop a q l1 l2 hpe hh, h3, by simpa using h4⟩

/-! ## the initial state -/

theorem lookup_flowCells (v : List (Nat × Val)) : ∀ (n f0 f : Nat), f0 ≤ f → f < f0 + n →
    lookup (flowCells f0 n ++ v) (cCount f) = .int 0 ∧ lookup (flowCells f0 n ++ v) (cBytes f) = .int 0
  | 0, f0, f, h1, h2 => by omega
  | n + 1, f0, f, h1, h2 => by
    simp only [flowCells, List.cons_append]
    by_cases hf : f = f0
    · subst hf
      ssimp [TimerK.lookup_cons]
    · have ih := lookup_flowCells v n (f0 + 1) f (by omega) (by omega)
      ssimp [TimerK.lookup_cons, hf, ih.1, ih.2]

/-- the counter cells are not the scalar cells -/
theorem lookup_flowCells_class (v : List (Nat × Val)) : ∀ (n f0 c : Nat),
    lookup (flowCells f0 n ++ v) (cVc c) = lookup v (cVc c) ∧ lookup (flowCells f0 n ++ v) (cAux c) = lookup v (cAux c)
  | 0, f0, c => by simp [flowCells]
  | n + 1, f0, c => by
    have ih := lookup_flowCells_class v n (f0 + 1) c
    simp only [flowCells, List.cons_append]
    ssimp [TimerK.lookup_cons, ih.1, ih.2]

/-- `for class_id in vticks.keys(): self.aux_vc[class_id] = 0; self.vc[class_id] = 0` -/
theorem lookup_classCells : ∀ (l : List (Nat × ℚ)) (c : Nat) (vt : ℚ), Stamp.lookup l c = some vt →
    lookup (classCells l) (cVc c) = TimeCell.enc (0 : ℚ) ∧ lookup (classCells l) (cAux c) = TimeCell.enc (0 : ℚ)
  | [], c, vt, h => by simp [Stamp.lookup] at h
  | (c', v) :: r, c, vt, h => by
    simp only [classCells, zero_eq']
    by_cases hc : c' = c
    · subst hc
      ssimp [TimerK.lookup_cons]
    · simp only [Stamp.lookup, hc, if_false] at h
      have ih := lookup_classCells r c vt h
      ssimp [TimerK.lookup_cons, hc, Ne.symm hc, ih.1, ih.2]

theorem getD_storeRes : (#[storeRes] : Array ResRec).getD 0 default = pstoreRec [] [] := by
  simp [storeRes, pstoreRec]

/-- the initial state is the configuration `a0` -/
theorem kinv_init (hc : CfgOK F cfg) (arrivals : List (ℚ × Int)) :
    KInv N scale F (initState F cfg arrivals) (a0 arrivals) ∧ (initState F cfg arrivals : KS).now = 0 ∧
      (initState F cfg arrivals : KS).trace = #[] := by
  refine ⟨?_, by simp [initState, List.foldl, doCall_spawn, zero_eq'], by simp [initState, List.foldl, doCall_spawn]⟩
  simp only [initState, List.foldl, doCall_spawn, zero_eq']
  refine ⟨⟨?_, ?_, ?_⟩, ?_, ?_, ?_, ?_, ?_, ?_, ?_, ?_, ?_, ?_, ?_, ?_, ?_⟩
  · intro q hq; simp at hq; rcases hq with rfl | rfl <;> simp
  · intro q hq; simp at hq; rcases hq with rfl | rfl <;> simp
  · simp
  · simp only [A.entries, a0, RPhase.entries, SPhase.entries, List.append_nil, List.singleton_append]
    exact List.Perm.swap _ _ _
  · simp
  · simp only [KState.res, a0, RPhase.getQ, List.map_nil]
    exact getD_storeRes
  · refine ⟨rfl, ?_, ?_, ?_⟩
    · simp [EvIs, KState.ev]
    · simp [proc?_eq, plookup]
    · simp [EvIs, KState.ev]
  · refine ⟨rfl, ?_, ?_, ?_⟩
    · simp [EvIs, KState.ev]
    · simp [proc?_eq, plookup]
    · simp [EvIs, KState.ev]
  · intro u hu; cases hu
  · simp [a0, vcids]
  · ssimp [a0, TimerK.lookup_cons]
  · ssimp [a0, TimerK.lookup_cons]
  · intro f hf
    have := (lookup_flowCells (classCells cfg.vticks) F 0 f (Nat.zero_le _) (by omega)).1
    ssimp [a0, TimerK.lookup_cons, this]
  · intro f hf
    have := (lookup_flowCells (classCells cfg.vticks) F 0 f (Nat.zero_le _) (by omega)).2
    ssimp [a0, TimerK.lookup_cons, this]
  · intro c hcF
    obtain ⟨vt, hvt, -⟩ := hc.vt c hcF
    have h1 := (lookup_flowCells_class (classCells cfg.vticks) F 0 c).1
    have h2 := (lookup_classCells cfg.vticks c vt hvt).1
    ssimp [a0, TimerK.lookup_cons, h1, h2]
  · intro c hcF
    obtain ⟨vt, hvt, -⟩ := hc.vt c hcF
    have h1 := (lookup_flowCells_class (classCells cfg.vticks) F 0 c).2
    have h2 := (lookup_classCells cfg.vticks c vt hvt).2
    ssimp [a0, TimerK.lookup_cons, h1, h2]

end VCK
