import Mathlib.Data.List.Flatten
import OnlVerif.Lemmas.NetworkLayer
import OnlVerif.Lemmas.Fifo
import OnlVerif.Lemmas.MultiQueueRun
import OnlVerif.Lemmas.StampInv
import OnlVerif.Lemmas.Route
/-!
# The element skeletons as nodes of a network (`Net.Node`)

* `fifoNode d`: a FifoServer device (`Fifo.step d`), packets identified by their ids (the FifoServer theorems speak of id lists);
* `mqNode sc cs`: a multi-queue scheduler (`MQ.step sc`) over `MPkt`, `cs` the list of its classes;
* `stampNode d`: a stamp scheduler (`Stamp.step d`) over `SPkt`;
* `acctNode π`: a dispatcher (demultiplexer, switch, splitter, hub): `put` forwards synchronously, the element itself holds a
  packet only between its `put` and its `out.put` — its state is the list of what it holds, where a packet goes is the wiring.

Each is shown to satisfy `NodeLaw` and `IdPreserving` from the skeleton's own step theorem.
-/

namespace Net

/-! ### the canonical node -/

theorem acctNode_law (π : Type) [DecidableEq π] : NodeLaw (acctNode π) where
  recv_acc := by intro s p s' _ h; exact ⟨trivial, by rw [show s' = s ++ [p] from h]; exact List.Perm.refl _⟩
  recv_ref := by intro s p r s' _ h; exact ⟨trivial, by rw [show s' = s from h]⟩
  emit := by
    intro s p s' _ h _
    obtain ⟨hm, rfl⟩ := (h : p ∈ s ∧ s' = s.erase p)
    exact ⟨trivial, List.perm_cons_erase hm⟩
  discard := by
    intro s p r s' _ h _
    obtain ⟨hm, rfl⟩ := (h : p ∈ s ∧ s' = s.erase p)
    exact ⟨trivial, List.perm_cons_erase hm⟩
  make := by
    intro s p c s' _ h
    obtain ⟨hm, rfl⟩ := (h : p ∈ s ∧ s' = s ++ [c])
    exact ⟨trivial, hm, List.Perm.refl _⟩
  tau := by intro s s' _ h; exact ⟨trivial, by rw [show s' = s from h]⟩
  drained := by intro s _ h; exact h

theorem acctNode_id (π : Type) [DecidableEq π] : IdPreserving (acctNode π) := by
  intro s p s' _ h
  rcases h with h | ⟨r, h⟩
  · exact (h : p ∈ s ∧ s' = s.erase p).1
  · exact (h : p ∈ s ∧ s' = s.erase p).1

/-! ### FifoServer devices (Port, Wire, TokenBucket, TwoRateTokenBucket) -/

section FifoNode
open Fifo
variable {δ : Type}

/-- a FifoServer device as a node; packets are identified by their ids (`Fifo.held` is a list of ids).  A local
transition is one accepted action of the LTS, labelled by what it did at the boundary. -/
def fifoNode (d : Dev ℚ δ) : Node Nat (FState ℚ δ) where
  step := fun s e s' =>
    match e with
    | .recv i .acc => ∃ pk : Pkt ℚ, pk.id = i ∧ Fifo.step d s (.put pk) = .ok (s', .accepted)
    | .recv i (.ref _) => ∃ pk : Pkt ℚ, pk.id = i ∧ Fifo.step d s (.put pk) = .ok (s', .dropped)
    | .emit i => ∃ (a : FAct ℚ) (pk : Pkt ℚ), pk.id = i ∧ Fifo.step d s a = .ok (s', .depart pk)
    | .discard i _ => ∃ (a : FAct ℚ) (pk : Pkt ℚ), pk.id = i ∧ Fifo.step d s a = .ok (s', .lost pk)
    | .make _ _ => False
    | .tau => ∃ a : FAct ℚ, Fifo.step d s a = .ok (s', .nothing)
  heldOf := Fifo.held
  Inv := Fifo.Shape
  Quiescent := Fifo.Quiescent

theorem entered_of_not_accepted (a : FAct ℚ) (o : FOut ℚ) (h : o ≠ .accepted) : entered a o = [] := by
  cases a <;> cases o <;> simp_all [entered]

theorem fifoNode_law (d : Dev ℚ δ) (hd : Fifo.IdPreserving d) : NodeLaw (fifoNode d) where
  recv_acc := by
    intro s i s' hs h
    obtain ⟨pk, rfl, h⟩ := h
    have := step_conserves d hd s s' _ _ hs h
    refine ⟨this.2, ?_⟩
    have e := this.1
    simp only [entered, left, List.nil_append] at e
    show (Fifo.held s').Perm (Fifo.held s ++ [pk.id])
    rw [e]
  recv_ref := by
    intro s i r s' hs h
    obtain ⟨pk, rfl, h⟩ := h
    have := step_conserves d hd s s' _ _ hs h
    refine ⟨this.2, ?_⟩
    have e := this.1
    simp only [entered, left, List.nil_append, List.append_nil] at e
    show (Fifo.held s').Perm (Fifo.held s)
    rw [e]
  emit := by
    intro s i s' hs h _
    obtain ⟨a, pk, rfl, h⟩ := h
    have := step_conserves d hd s s' _ _ hs h
    refine ⟨this.2, ?_⟩
    have e := this.1
    rw [entered_of_not_accepted _ _ (by simp), List.append_nil] at e
    show (Fifo.held s).Perm (pk.id :: Fifo.held s')
    rw [e]; rfl
  discard := by
    intro s i r s' hs h _
    obtain ⟨a, pk, rfl, h⟩ := h
    have := step_conserves d hd s s' _ _ hs h
    refine ⟨this.2, ?_⟩
    have e := this.1
    rw [entered_of_not_accepted _ _ (by simp), List.append_nil] at e
    show (Fifo.held s).Perm (pk.id :: Fifo.held s')
    rw [e]; rfl
  make := by intro s p c s' _ h; exact h.elim
  tau := by
    intro s s' hs h
    obtain ⟨a, h⟩ := h
    have := step_conserves d hd s s' _ _ hs h
    refine ⟨this.2, ?_⟩
    have e := this.1
    rw [entered_of_not_accepted _ _ (by simp), List.append_nil] at e
    show (Fifo.held s').Perm (Fifo.held s)
    rw [e]; rfl
  drained := fun s hs hq => quiescent_held_empty s hs hq

theorem fifoNode_id (d : Dev ℚ δ) (hd : Fifo.IdPreserving d) : Net.IdPreserving (fifoNode d) := by
  intro s i s' hs h
  rcases h with ⟨a, pk, rfl, h⟩ | ⟨r, a, pk, rfl, h⟩
  · have e := (step_conserves d hd s s' _ _ hs h).1
    rw [entered_of_not_accepted _ _ (by simp), List.append_nil] at e
    show pk.id ∈ Fifo.held s
    rw [e]; simp [left]
  · have e := (step_conserves d hd s s' _ _ hs h).1
    rw [entered_of_not_accepted _ _ (by simp), List.append_nil] at e
    show pk.id ∈ Fifo.held s
    rw [e]; simp [left]

end FifoNode

/-! ### stamp schedulers (WFQ, VirtualClock) -/

section StampNode
open Stamp
variable {σ : Type}

def stampNode (d : Sched ℚ σ) : Node SPkt (StState ℚ σ) where
  step := fun s e s' =>
    match e with
    | .recv p .acc => Stamp.step d s (.put p) = .ok (s', .accepted)
    | .recv _ (.ref _) => False
    | .emit p => ∃ a : StAct ℚ, Stamp.step d s a = .ok (s', .depart p)
    | .discard _ _ => False
    | .make _ _ => False
    | .tau => ∃ (a : StAct ℚ) (o : StOut), Stamp.step d s a = .ok (s', o) ∧ o ≠ .accepted ∧ ∀ p, o ≠ .depart p
  heldOf := Stamp.held
  Inv := Stamp.GInv
  Quiescent := fun s => s.tx = none ∧ ∃ t, TickOk s t

theorem stamp_entered_nil (a : StAct ℚ) (o : StOut) (h : o ≠ .accepted) : Stamp.entered a o = [] := by
  cases a <;> cases o <;> simp_all [Stamp.entered]

theorem stampNode_law (d : Sched ℚ σ) : NodeLaw (stampNode d) where
  recv_acc := by
    intro s p s' hs h
    have := step_ginv hs (step_trans d _ _ _ _ h)
    refine ⟨this.1, ?_⟩
    have e := this.2
    simp only [Stamp.entered, Stamp.left, List.nil_append] at e
    exact e.symm
  recv_ref := by intro s p r s' _ h; exact h.elim
  emit := by
    intro s p s' hs h _
    obtain ⟨a, h⟩ := h
    have := step_ginv hs (step_trans d _ _ _ _ h)
    refine ⟨this.1, ?_⟩
    have e := this.2
    rw [stamp_entered_nil _ _ (by simp), List.append_nil] at e
    exact e
  discard := by intro s p r s' _ h; exact h.elim
  make := by intro s p c s' _ h; exact h.elim
  tau := by
    intro s s' hs h
    obtain ⟨a, o, h, h1, h2⟩ := h
    have := step_ginv hs (step_trans d _ _ _ _ h)
    refine ⟨this.1, ?_⟩
    have e := this.2
    rw [stamp_entered_nil _ _ h1, List.append_nil] at e
    have hl : Stamp.left o = [] := by cases o <;> simp_all [Stamp.left]
    rw [hl, List.nil_append] at e
    exact e.symm
  drained := by
    intro s hs hq
    obtain ⟨htx, t, ht⟩ := hq
    exact (tick_idle_empty hs.shape ht htx).2.1

theorem stampNode_id (d : Sched ℚ σ) : Net.IdPreserving (stampNode d) := by
  intro s p s' hs h
  rcases h with ⟨a, h⟩ | ⟨r, h⟩
  · have e := (step_ginv hs (step_trans d _ _ _ _ h)).2
    rw [stamp_entered_nil _ _ (by simp), List.append_nil] at e
    exact e.mem_iff.mpr (by simp [Stamp.left])
  · exact h.elim

end StampNode

/-! ### multi-queue schedulers (SP, RR, WRR, DRR) -/

section MQNode
open MQ
variable {κ : Type}

/-- everything the scheduler holds, class by class (`cs`: its classes) -/
def mqHeld (sc : MQ.Sched ℚ κ) (cs : List Nat) (s : MQState ℚ κ) : List MPkt := cs.flatMap (heldC sc s)

/-- a multi-queue scheduler as a node.  `put` of a packet whose flow has no class raises (`KeyError`), so it is no
transition; the departure of a packet counts as `emit` for packets of configured flows (the domain of C12's
`mq_every_packet_once`). -/
def mqNode (sc : MQ.Sched ℚ κ) (cs : List Nat) : Node MPkt (MQState ℚ κ) where
  step := fun s e s' =>
    match e with
    | .recv p .acc => MQ.step sc s (.put p) = .ok (s', .accepted)
    | .recv _ (.ref _) => False
    | .emit p => (∃ a : MAct ℚ, MQ.step sc s a = .ok (s', .depart p)) ∧ (sc.classOf p.flow).isSome
    | .discard _ _ => False
    | .make _ _ => False
    | .tau => ∃ (a : MAct ℚ) (o : MOut ℚ), MQ.step sc s a = .ok (s', o) ∧ (∀ p, a ≠ .put p) ∧ ∀ p, o ≠ .depart p
  heldOf := mqHeld sc cs
  Inv := MQ.Inv sc
  Quiescent := fun s => (∀ p d, s.phase ≠ .sending p d) ∧ ∃ t s' o, MQ.step sc s (.tick t) = .ok (s', o)

theorem count_flatMap_sum (q : MPkt) (cs : List Nat) (f : Nat → List MPkt) :
    (cs.flatMap f).count q = (cs.map fun c => (f c).count q).sum := by
  induction cs with
  | nil => rfl
  | cons c cs ih => simp [List.flatMap_cons, List.count_append, ih]

theorem sum_map_zero (cs : List Nat) (f : Nat → Nat) (h : ∀ c ∈ cs, f c = 0) : (cs.map f).sum = 0 := by
  induction cs with
  | nil => rfl
  | cons c cs ih =>
    rw [List.map_cons, List.sum_cons, h c List.mem_cons_self, ih (fun c' hc' => h c' (List.mem_cons_of_mem _ hc'))]

/-- over a duplicate-free class list that contains `c0`, the singleton-at-`c0` family sums to the singleton -/
theorem sum_single (q p : MPkt) (c0 : Nat) (cs : List Nat) (hn : cs.Nodup) (hc : c0 ∈ cs) (cl : Option Nat)
    (hcl : cl = some c0) :
    (cs.map fun c => (if cl = some c then [p] else []).count q).sum = [p].count q := by
  subst hcl
  induction cs with
  | nil => cases hc
  | cons c cs ih =>
    rw [List.nodup_cons] at hn
    rw [List.map_cons, List.sum_cons]
    by_cases h : c0 = c
    · subst h
      rw [if_pos rfl, sum_map_zero]
      · rfl
      · intro c' hc'
        have : ¬ (some c0 = some c') := fun e => hn.1 (by cases e; exact hc')
        rw [if_neg this]; rfl
    · have hm : c0 ∈ cs := by
        rcases List.mem_cons.mp hc with e | e
        · exact absurd e h
        · exact e
      have : ¬ (some c0 = some c) := fun e => h (by cases e; rfl)
      rw [if_neg this, ih hn.2 hm]
      simp

theorem sum_none (q p : MPkt) (cs : List Nat) :
    (cs.map fun _ => (([] : List MPkt)).count q).sum = 0 :=
  sum_map_zero cs _ (fun _ _ => rfl)

theorem sum_add (cs : List Nat) (f g : Nat → Nat) :
    (cs.map fun c => f c + g c).sum = (cs.map f).sum + (cs.map g).sum := by
  induction cs with
  | nil => rfl
  | cons c cs ih => simp only [List.map_cons, List.sum_cons, ih]; omega

/-- summing the per-class conservation equations over the classes -/
theorem mq_sum (sc : MQ.Sched ℚ κ) (cs : List Nat) (s s' : MQState ℚ κ) (a : MAct ℚ) (o : MOut ℚ)
    (h : ∀ c, heldC sc s c ++ enteredC sc a c = leftC sc o c ++ heldC sc s' c) (q : MPkt) :
    (mqHeld sc cs s).count q + (cs.map fun c => (enteredC sc a c).count q).sum =
      (cs.map fun c => (leftC sc o c).count q).sum + (mqHeld sc cs s').count q := by
  unfold mqHeld
  rw [count_flatMap_sum, count_flatMap_sum, ← sum_add, ← sum_add]
  congr 1
  apply List.map_congr_left
  intro c _
  have := congrArg (List.count q) (h c)
  simpa [List.count_append] using this

theorem mem_heldC_class (sc : MQ.Sched ℚ κ) (s : MQState ℚ κ) (hi : MQ.Inv sc s) (c : Nat) (p : MPkt)
    (h : p ∈ heldC sc s c) : sc.classOf p.flow = some c := by
  simp only [heldC, List.mem_append, List.mem_filter, decide_eq_true_eq, Option.mem_toList] at h
  rcases h with (h | h) | h
  · exact h.2
  · exact hi.holClass c p h
  · exact hi.storeClass c p h

variable (sc : MQ.Sched ℚ κ) (L : Lawful sc) (cs : List Nat) (hn : cs.Nodup)
  (hcs : ∀ f c, sc.classOf f = some c → c ∈ cs)

include L hn hcs in
theorem mqNode_law : NodeLaw (mqNode sc cs) where
  recv_acc := by
    intro s p s' hs h
    have hst := MQ.step_inv sc L s s' _ _ hs h
    refine ⟨hst.1, ?_⟩
    -- the flow has a class: `put` was accepted
    have hcl : ∃ c0, sc.classOf p.flow = some c0 := by
      have ht := step_trans sc s s' _ _ h
      cases ht with
      | put q c k hc hk => exact ⟨c, hc⟩
    obtain ⟨c0, hc0⟩ := hcl
    show (mqHeld sc cs s').Perm (mqHeld sc cs s ++ [p])
    rw [List.perm_iff_count]
    intro q
    have e := mq_sum sc cs s s' _ _ hst.2 q
    have e1 : (cs.map fun c => (enteredC sc (.put p) c).count q).sum = [p].count q :=
      sum_single q p c0 cs hn (hcs _ _ hc0) (sc.classOf p.flow) hc0
    have e2 : (cs.map fun c => (leftC sc (MOut.accepted : MOut ℚ) c).count q).sum = 0 := sum_none q p cs
    rw [e1, e2] at e
    rw [List.count_append]; omega
  recv_ref := by intro s p r s' _ h; exact h.elim
  emit := by
    intro s p s' hs h _
    obtain ⟨⟨a, h⟩, hcl⟩ := h
    have hst := MQ.step_inv sc L s s' _ _ hs h
    refine ⟨hst.1, ?_⟩
    obtain ⟨c0, hc0⟩ := Option.isSome_iff_exists.mp hcl
    have ha : ∀ c, enteredC sc a c = [] := by
      intro c
      have ht := step_trans sc s s' _ _ h
      cases ht <;> rfl
    show (mqHeld sc cs s).Perm (p :: mqHeld sc cs s')
    rw [List.perm_iff_count]
    intro q
    have e := mq_sum sc cs s s' _ _ hst.2 q
    have e1 : (cs.map fun c => (enteredC sc a c).count q).sum = 0 := by
      simp only [ha]; exact sum_none q p cs
    have e2 : (cs.map fun c => (leftC sc (MOut.depart p : MOut ℚ) c).count q).sum = [p].count q :=
      sum_single q p c0 cs hn (hcs _ _ hc0) (sc.classOf p.flow) hc0
    rw [e1, e2] at e
    rw [List.count_cons]
    simp only [List.count_singleton] at e
    have : (if p == q then 1 else 0) = (if (p == q) = true then 1 else 0) := rfl
    omega
  discard := by intro s p r s' _ h; exact h.elim
  make := by intro s p c s' _ h; exact h.elim
  tau := by
    intro s s' hs h
    obtain ⟨a, o, h, ha, ho⟩ := h
    have hst := MQ.step_inv sc L s s' _ _ hs h
    refine ⟨hst.1, ?_⟩
    have hae : ∀ c, enteredC sc a c = [] := by
      intro c; cases a <;> first | rfl | exact absurd rfl (ha _)
    have hoe : ∀ c, leftC sc o c = [] := by
      intro c; cases o <;> first | rfl | exact absurd rfl (ho _)
    show (mqHeld sc cs s').Perm (mqHeld sc cs s)
    rw [List.perm_iff_count]
    intro q
    have e := mq_sum sc cs s s' _ _ hst.2 q
    have e1 : (cs.map fun c => (enteredC sc a c).count q).sum = 0 := by simp only [hae]; exact sum_none q q cs
    have e2 : (cs.map fun c => (leftC sc o c).count q).sum = 0 := by simp only [hoe]; exact sum_none q q cs
    omega
  drained := by
    intro s hs hq
    obtain ⟨hidle, t, s', o, htick⟩ := hq
    have hz : total s.queueCount = 0 := by
      rcases ((MQ.tick_ok_iff sc s t).mp ⟨s', o, htick⟩).2 with ⟨hw, h0⟩ | ⟨p, d, hp, _⟩
      · exact hs.wake hw h0
      · exact absurd hp (hidle p d)
    have hn' := nothing_held_of_total_zero s (by rw [← hs.tot]; exact hz)
    show mqHeld sc cs s = []
    unfold mqHeld
    rw [List.flatMap_eq_nil_iff]
    intro c _
    exact heldC_nil_of_nothing sc s hn'.1 hn'.2.1 hn'.2.2 c

include L hcs in
theorem mqNode_id : Net.IdPreserving (mqNode sc cs) := by
  intro s p s' hs h
  rcases h with ⟨⟨a, h⟩, hcl⟩ | ⟨r, h⟩
  · obtain ⟨c0, hc0⟩ := Option.isSome_iff_exists.mp hcl
    have hst := MQ.step_inv sc L s s' _ _ hs h
    have e := hst.2 c0
    have ha : enteredC sc a c0 = [] := by
      have ht := step_trans sc s s' _ _ h
      cases ht <;> rfl
    rw [ha, List.append_nil] at e
    show p ∈ mqHeld sc cs s
    unfold mqHeld
    rw [List.mem_flatMap]
    refine ⟨c0, hcs _ _ hc0, ?_⟩
    rw [e]; simp [leftC, hc0]
  · exact h.elim

end MQNode

/-! ### dispatchers: the wiring function is the element's dispatch rule -/

section Dispatch
variable {ι : Type}

/-- what `put` of the dispatch models reads of a network packet -/
def toRoute (p : NPkt) : Route.Pkt := { ref := ⟨p.id, p.copy⟩, flowId := (p.flow : Int), src := p.src }

/-- the wiring function of a `FlowDemux` node: the device `FlowDemux.put` hands the packet to (`dest` maps the
harness's device numbers to nodes and sinks; "nowhere" is a sink number of its own) -/
def demuxNext (c : Route.FlowDemuxCfg) (dest : Route.Dev → Dest ι) (nowhere : Nat) (p : NPkt) : Dest ι :=
  match Route.FlowDemux.put c (toRoute p) with
  | .ok [(d, _)] => dest d
  | _ => .sink nowhere

theorem flowDemux_put_eq (c : Route.FlowDemuxCfg) (p : NPkt) :
    Route.FlowDemux.put c (toRoute p) = .ok (match c.outs[p.flow]? with
      | some d => [(d, ⟨p.id, p.copy⟩)]
      | none => match c.default with
        | some d => [(d, ⟨p.id, p.copy⟩)]
        | none => []) := by
  unfold Route.FlowDemux.put toRoute
  simp only
  by_cases h : (p.flow : Int) < (c.outs.length : Int)
  · have hlt : p.flow < c.outs.length := by omega
    rw [if_pos h, Route.pyIndex_natCast, List.getElem?_eq_getElem hlt]
  · have hge : c.outs.length ≤ p.flow := by omega
    rw [if_neg h, List.getElem?_eq_none hge]
    cases c.default <;> rfl

end Dispatch

end Net
