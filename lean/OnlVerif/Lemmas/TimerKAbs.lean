import OnlVerif.Lemmas.TimerKDefs
/-!
# The Timer on the kernel model: configuration steps (no kernel terms here)

`AStep a q a' new`: processing the agenda entry `q` takes the configuration `a` to `a'` and appends `new` to the call/fire
history.  The clock can advance to the next entry without changing anything else (`AInv.advance`), and the Timer LTS
accepts that as a `tick` (`lts_tick`): no URGENT event is pending and no sleeping process is due earlier.
-/

set_option linter.unusedSimpArgs false

namespace TimerK
open TimerOnK QEntry
open Timer (CbOp PStat UEv)

variable (auto : Bool) (arg : Int) (cbs : List (Option Op)) (T : ℚ)

/-- **one kernel step, seen on configurations**: the agenda entry `q` is processed; `new` is appended to the history;
`eid`/`n` are the next free `eid` and event index of the kernel state -/
inductive AStep : A → QEntry ℚ → A → List (HEv ℚ) → Prop
  /-- `Timer.run` starts and sleeps until `expire_time` -/
  | tmInit (a : A) (q : QEntry ℚ) (eid n : Nat) (hph : a.ph = .init q) (hold : a.old = none) :
      AStep a q { a with ph := .sleep n ⟨a.expire, NORMAL, eid, n⟩ } []
  /-- the `Interruption` reaches the previous process: it ends -/
  | intr (a : A) (q : QEntry ℚ) (eid : Nat) (o : Old) (hold : a.old = some o) (hq : q = o.qi) :
      AStep a q { a with old := none, dead := a.dead ++ [o.p], noop := a.noop ++ [o.qt, ⟨q.time, NORMAL, eid, o.p⟩] } []
  /-- `self.proc` wakes up (the callback fires unless `stopped`) and sleeps again -/
  | wakeSleep (a : A) (q : QEntry ℚ) (eid n : Nat) (t : EvId) (hph : a.ph = .sleep t q) (hold : a.old = none)
      (hcont : q.time < (wakeCells auto cbs q.time a).expire) :
      AStep a q { wakeCells auto cbs q.time a with ph := .sleep n ⟨(wakeCells auto cbs q.time a).expire, NORMAL, eid, n⟩ }
        (wakeFires a q.time)
  /-- `self.proc` wakes up (the callback fires unless `stopped`) and the generator returns -/
  | wakeDead (a : A) (q : QEntry ℚ) (eid : Nat) (t : EvId) (hph : a.ph = .sleep t q) (hold : a.old = none)
      (hcont : ¬ q.time < (wakeCells auto cbs q.time a).expire) :
      AStep a q { wakeCells auto cbs q.time a with ph := .dead, noop := a.noop ++ [⟨q.time, NORMAL, eid, a.cur⟩] }
        (wakeFires a q.time)
  /-- an entry with nothing left to do -/
  | noop (a : A) (q : QEntry ℚ) (l1 l2 : List (QEntry ℚ)) (hq : a.noop = l1 ++ q :: l2) :
      AStep a q { a with noop := l1 ++ l2 } []
  /-- the controller starts -/
  | ctlInit (a : A) (q : QEntry ℚ) (eid n : Nat) (sc : List (ℚ × Op)) (hctl : a.ctl = .init q sc) :
      AStep a q (ctlNext q.time eid n a sc) []
  /-- the controller calls `stop()` -/
  | ctlStop (a : A) (q : QEntry ℚ) (eid n : Nat) (sc : List (ℚ × Op)) (hctl : a.ctl = .wait .stop sc q) :
      AStep a q (ctlNext q.time eid n { a with stopped := true, expire := q.time } sc) [.call q.time .stop]
  /-- the controller calls `restart(τ)`, `self.proc` has finished -/
  | ctlRestartDead (a : A) (q : QEntry ℚ) (eid n : Nat) (sc : List (ℚ × Op)) (tau : ℚ)
      (hctl : a.ctl = .wait (.restart tau) sc q) (hph : a.ph = .dead) :
      AStep a q (ctlNext q.time eid n { a with start := q.time, timeout := tau, expire := q.time + tau } sc)
        [.call q.time (.restart tau)]
  /-- the controller calls `restart(τ)`, `self.proc` sleeps: it is interrupted and replaced -/
  | ctlRestartAlive (a : A) (q : QEntry ℚ) (eid n : Nat) (sc : List (ℚ × Op)) (tau : ℚ) (t : EvId) (qt : QEntry ℚ)
      (hctl : a.ctl = .wait (.restart tau) sc q) (hph : a.ph = .sleep t qt) (hold : a.old = none) :
      AStep a q (ctlNext q.time (eid + 1 + 1) (n + 1 + 1 + 1)
        { a with start := q.time, timeout := tau, expire := q.time + tau,
                 old := some ⟨n, a.cur, t, ⟨q.time, URGENT, eid, n⟩, qt⟩,
                 cur := n + 1, ph := .init ⟨q.time, URGENT, eid + 1, n + 1 + 1⟩ } sc)
        [.call q.time (.restart tau)]

variable {auto arg cbs T}

/-! ## agenda entries of a configuration -/

theorem mem_ph {a : A} {x : QEntry ℚ} (h : x ∈ a.ph.entries) : x ∈ a.entries := by
  simp [A.entries, h]

theorem mem_old {a : A} {x : QEntry ℚ} (h : x ∈ oldEntries a.old) : x ∈ a.entries := by
  simp [A.entries, h]

theorem mem_ctl {a : A} {x : QEntry ℚ} (h : x ∈ a.ctl.entries) : x ∈ a.entries := by
  simp [A.entries, h]

theorem mem_noop {a : A} {x : QEntry ℚ} (h : x ∈ a.noop) : x ∈ a.entries := by
  simp [A.entries, h]

/-- an entry due now with a smaller priority number or an older `eid` goes first -/
theorem keyLt_of_now {x q : QEntry ℚ} {now : ℚ} (hx : x.time = now) (hq : now ≤ q.time)
    (h : now < q.time ∨ x.prio < q.prio ∨ (x.prio = q.prio ∧ x.eid < q.eid)) : KeyLt x q := by
  unfold KeyLt
  rcases lt_or_eq_of_le hq with h1 | h1
  · exact Or.inl (hx ▸ h1)
  · rcases h with h | h | h
    · exact Or.inl (hx ▸ h)
    · exact Or.inr ⟨hx.trans h1, Or.inl h⟩
    · exact Or.inr ⟨hx.trans h1, Or.inr h⟩

/-- `q` is a minimal entry of the configuration: what `popMin` returns -/
def IsMin (a : A) (q : QEntry ℚ) : Prop := q ∈ a.entries ∧ ∀ x ∈ a.entries, ¬ KeyLt x q

variable {a : A} {now : ℚ} {hist : List (HEv ℚ)} {q : QEntry ℚ}

theorem AInv.now_le (hi : AInv auto cbs T a now hist) (hq : IsMin a q) : now ≤ q.time := hi.due q hq.1

/-- an entry due now forces the minimal entry to be due now -/
theorem AInv.time_eq (hi : AInv auto cbs T a now hist) (hq : IsMin a q) {x : QEntry ℚ} (hx : x ∈ a.entries)
    (hxt : x.time = now) : q.time = now :=
  le_antisymm (hxt ▸ not_keyLt_time (hq.2 x hx)) (hi.due q hq.1)

/-- an entry due now precedes a minimal entry with a larger priority number: impossible -/
theorem AInv.not_prio_lt (hi : AInv auto cbs T a now hist) (hq : IsMin a q) {x : QEntry ℚ} (hx : x ∈ a.entries)
    (hxt : x.time = now) (hp : x.prio < q.prio) : False :=
  hq.2 x hx (keyLt_of_now hxt (hi.now_le hq) (Or.inr (Or.inl hp)))

theorem AInv.not_eid_lt (hi : AInv auto cbs T a now hist) (hq : IsMin a q) {x : QEntry ℚ} (hx : x ∈ a.entries)
    (hxt : x.time = now) (hp : x.prio = q.prio) (he : x.eid < q.eid) : False :=
  hq.2 x hx (keyLt_of_now hxt (hi.now_le hq) (Or.inr (Or.inr ⟨hp, he⟩)))

/-- when the clock can advance nothing URGENT is pending: `self.proc` has started and no interrupt is on its way -/
theorem AInv.quiet (hi : AInv auto cbs T a now hist) (hq : IsMin a q) (h : now < q.time) :
    a.old = none ∧ (∀ q0, a.ph ≠ .init q0) ∧ (∀ q0 sc, a.ctl ≠ .init q0 sc) := by
  have hne : ∀ x ∈ a.entries, x.time ≠ now := fun x hx hxt => absurd (hi.time_eq hq hx hxt) (ne_of_gt h)
  refine ⟨?_, ?_, ?_⟩
  · cases ho : a.old with
    | none => rfl
    | some o => exact absurd (hi.old o ho).1 (hne o.qi (mem_old (by simp [ho, oldEntries, Old.entries])))
  · intro q0 hph
    have := hi.ph
    rw [hph] at this
    exact hne q0 (mem_ph (by simp [hph, TPhase.entries])) this.1
  · intro q0 sc hc
    have := hi.ctl
    rw [hc] at this
    exact hne q0 (mem_ctl (by simp [hc, CPhase.entries])) this.1

/-- **letting the clock advance to the next entry changes nothing else** -/
theorem AInv.advance (hi : AInv auto cbs T a now hist) (hq : IsMin a q) : AInv auto cbs T a q.time hist := by
  rcases eq_or_lt_of_le (hi.now_le hq) with h | h
  · rw [← h]; exact hi
  obtain ⟨ho, hph, hctl⟩ := hi.quiet hq h
  refine ⟨?_, ?_, ?_, hi.cprio, hi.nprio, ?_, hi.tpos, hi.orc⟩
  · have hp := hi.ph
    cases hp' : a.ph with
    | init q0 => exact absurd hp' (hph q0)
    | sleep t q0 => rw [hp'] at hp; exact hp
    | dead => rw [hp'] at hp; exact hp
  · intro o ho'; rw [ho] at ho'; cases ho'
  · have hc := hi.ctl
    cases hc' : a.ctl with
    | init q0 sc => exact absurd hc' (hctl q0 sc)
    | wait op sc q0 => rw [hc'] at hc; exact hc
    | done => trivial
  · intro x hx; exact not_keyLt_time (hq.2 x hx)

/-! ## the LTS side -/

theorem noneDueBefore_finished (t : ℚ) (l : List EvId) :
    Timer.noneDueBefore t (l.map fun _ => (PStat.finished : PStat ℚ)) = true := by
  induction l with
  | nil => rfl
  | cons x xs ih => simpa [Timer.noneDueBefore] using ih

theorem noneDueBefore_append (t : ℚ) (l l' : List (PStat ℚ)) :
    Timer.noneDueBefore t (l ++ l') = (Timer.noneDueBefore t l && Timer.noneDueBefore t l') := by
  induction l with
  | nil => simp [Timer.noneDueBefore]
  | cons x xs ih =>
    cases x <;> simp [Timer.noneDueBefore, ih, Bool.and_assoc]

/-- the LTS accepts the clock advance to the next entry -/
theorem lts_tick (hi : AInv auto cbs T a now hist) (hq : IsMin a q) (h : now < q.time) :
    Timer.step (toT auto arg a now) (.tick q.time) = .ok (toT auto arg a q.time) [] := by
  obtain ⟨ho, hph, hctl⟩ := hi.quiet hq h
  have hnd : Timer.noneDueBefore q.time (toT auto arg a now).procs = true := by
    simp only [toT, ho, oldStat, List.nil_append, noneDueBefore_append, noneDueBefore_finished, Bool.true_and]
    cases hp' : a.ph with
    | init q0 => exact absurd hp' (hph q0)
    | sleep t q0 =>
      have : ¬ q0.time < q.time := not_lt.mpr (not_keyLt_time (hq.2 q0 (mem_ph (by simp [hp', TPhase.entries]))))
      simp [TPhase.stat, Timer.noneDueBefore, this]
    | dead => simp [TPhase.stat, Timer.noneDueBefore]
  have huq : (toT auto arg a now).uq = [] := by
    simp only [toT, ho]
    cases hp' : a.ph with
    | init q0 => exact absurd hp' (hph q0)
    | sleep t q0 => rfl
    | dead => rfl
  simp only [Timer.step, Timer.doTick, huq, hnd]
  have : (toT auto arg a now).now < q.time := h
  simp only [this, decide_true, Bool.and_self, if_true]
  rw [show toT auto arg a q.time = { toT auto arg a now with now := q.time } from rfl]
  simp [huq]

/-- accepted runs of the Timer LTS compose -/
theorem run_append_of {s s1 s2 : Timer.State ℚ} {o1 o2 : List (Timer.Out ℚ)} :
    ∀ {as bs : List (Timer.Action ℚ)}, Timer.run s as = .ok s1 o1 → Timer.run s1 bs = .ok s2 o2 →
      Timer.run s (as ++ bs) = .ok s2 (o1 ++ o2) := by
  intro as
  induction as generalizing s o1 with
  | nil =>
    intro bs h1 h2
    simp only [Timer.run, Timer.Res.ok.injEq] at h1
    obtain ⟨rfl, rfl⟩ := h1
    simpa using h2
  | cons x xs ih =>
    intro bs h1 h2
    obtain ⟨s', o, o', hs, hr, rfl⟩ := Timer.run_cons_ok h1
    rw [List.cons_append, List.append_assoc]
    exact Timer.run_cons_of hs (ih hr h2)

/-- zero or one `tick` brings the LTS to the instant of the next entry -/
theorem lts_advance (hi : AInv auto cbs T a now hist) (hq : IsMin a q) :
    ∃ acts, Timer.run (toT auto arg a now) acts = .ok (toT auto arg a q.time) [] := by
  rcases eq_or_lt_of_le (hi.now_le hq) with h | h
  · exact ⟨[], by rw [← h]; rfl⟩
  · exact ⟨[.tick q.time], Timer.run_cons_of (lts_tick hi hq h) rfl⟩

end TimerK
