import OnlVerif.Lemmas.REDKFrame
/-!
# Generator → REDPort → sink on the kernel model: kernel steps that run the generator (`REDPort.put`) and the store's own events
-/

set_option linter.unusedSimpArgs false

namespace REDK
open REDOnK

variable {c : Cfg ℚ} {sizes0 : List Nat}
variable {s : KS} {a : A} {q : QEntry ℚ} {rest : List (QEntry ℚ)}

/-- the process event of the finished generator is processed: nothing happens -/
theorem kstep_srcEnd (fuel : Nat) (hk : KInv s a) (hsrc : a.src = .ending q)
    (hp : popMin s.agenda = some (q, rest)) (hrest : rest.Perm (a.port.entries ++ a.pend.toList)) :
    ∃ s', step (body c sizes0) (fuel + 1) s = .ok s' ∧ KInv s' { a with src := .done } ∧
      s'.now = q.time ∧ viewsOf s'.trace = viewsOf s.trace := by
  have hsk := hk.src
  rw [hsrc] at hsk
  obtain ⟨hqe, ⟨hkind, hcbs, hout⟩⟩ := hsk
  have hcbs0 := hcbs
  have hgs : 2 < s.events.size := KState.lt_of_cbs hcbs
  have hres := hk.res
  have hrsz := hk.rsz
  have hwf := openEvent_wf s q rest hk.wf hp
  have hc0 := hk.c0; have hc1 := hk.c1; have hc2 := hk.c2; have hc3 := hk.c3; have hc4 := hk.c4
  have hc5 := hk.c5; have hc6 := hk.c6; have hc7 := hk.c7; have hc8 := hk.c8
  rw [step_eq _ _ _ _ _ _ hp (hqe ▸ hcbs)]
  simp only [KState.ev, KState.res] at hkind hcbs hout hres
  ksimp [hqe, hgs, hkind, hcbs, hout, hres, hrsz]
  have hfr : ∀ x < s.events.size, (∀ c, (s.ev x).cbs = some c → c ∉ [([] : List Cb)]) → x ≠ 2 := by
    intro x _ hc; rintro rfl; exact hc _ hcbs0 (by simp)
  refine ⟨wf_same hwf.1 rfl rfl rfl, ?_, hrsz, hres, ?_, trivial, ?_, hc0, hc1, hc2, hc3, hc4, hc5, hc6, hc7, hc8⟩
  · simpa [A.entries, SPhase.entries] using hrest
  · refine PortEv.frame hk.port (evFrame_of [[]] ?_) (by decide) (by decide) rfl
    frame_ev hfr
  · refine pend_frame hk.pend (evFrame_of [[]] ?_) (by decide)
    frame_ev hfr

/-- the `StorePut` event is processed (`_trigger_get`): nobody waits, or the waiting server finds the store empty -/
theorem kstep_putIdle (fuel : Nat) (hk : KInv s a) (hpe : a.pend = some q) (hw : a.port.getQ = [] ∨ a.items = [])
    (hp : popMin s.agenda = some (q, rest)) (hrest : rest.Perm (a.port.entries ++ a.src.entries)) :
    ∃ s', step (body c sizes0) (fuel + 1) s = .ok s' ∧ KInv s' { a with pend := none } ∧
      s'.now = q.time ∧ viewsOf s'.trace = viewsOf s.trace := by
  obtain ⟨hkind, hcbs, hout⟩ := hk.pend q hpe
  have hcbs0 := hcbs
  have hgs : q.ev < s.events.size := KState.lt_of_cbs hcbs
  have hres := hk.res
  have hrsz := hk.rsz
  have hwf := openEvent_wf s q rest hk.wf hp
  have hc0 := hk.c0; have hc1 := hk.c1; have hc2 := hk.c2; have hc3 := hk.c3; have hc4 := hk.c4
  have hc5 := hk.c5; have hc6 := hk.c6; have hc7 := hk.c7; have hc8 := hk.c8
  have htg : triggerGet (openEvent s q rest) 0 = openEvent s q rest := by
    cases hport : a.port with
    | W g =>
      have hpk := hk.port
      rw [hport] at hpk
      have hit : a.items = [] := by
        rcases hw with hw | hw
        · simp [hport, PPhase.getQ] at hw
        · exact hw
      have hne : g ≠ q.ev := by
        rintro rfl
        have := hpk.1.2.1
        rw [hcbs] at this
        cases this
      refine triggerGet_empty _ g ?_ ?_ ?_ ?_
      · show (s.res 0).kind = .store; rw [hres]; rfl
      · show (s.res 0).getQ = [g]; rw [hres, hport]; rfl
      · show (s.res 0).items = []; rw [hres, hit]; rfl
      · have := hpk.1.2.2
        simp only [KState.ev] at this
        ksimp [hne, this]
    | init q0 => exact triggerGet_none _ (by show (s.res 0).getQ = []; rw [hres, hport]; rfl)
    | H g i q0 => exact triggerGet_none _ (by show (s.res 0).getQ = []; rw [hres, hport]; rfl)
    | T t i q0 => exact triggerGet_none _ (by show (s.res 0).getQ = []; rw [hres, hport]; rfl)
  rw [step_eq _ _ _ _ _ _ hp hcbs]
  simp only [List.foldl, runCb]
  rw [htg]
  simp only [KState.ev, KState.res] at hkind hcbs hout hres
  ksimp [hgs, hkind, hcbs, hout, hres, hrsz]
  have hfr : ∀ x < s.events.size, (∀ c, (s.ev x).cbs = some c → c ∉ [[Cb.trigGet 0]]) → x ≠ q.ev := by
    intro x _ hc; rintro rfl; exact hc _ hcbs0 (by simp)
  refine ⟨wf_same hwf.1 rfl rfl rfl, ?_, hrsz, hres, ?_, ?_, ?_, hc0, hc1, hc2, hc3, hc4, hc5, hc6, hc7, hc8⟩
  · simpa [A.entries] using hrest
  · refine PortEv.frame hk.port (evFrame_of [[.trigGet 0]] ?_) (by decide) (by decide) rfl
    frame_ev hfr
  · refine SrcEv.frame hk.src (evFrame_of [[.trigGet 0]] ?_) (by decide) (by decide) rfl
    frame_ev hfr
  · intro u hu; cases hu

/-- the `StorePut` event is processed (`_trigger_get`): the head item is handed to the waiting server, whose
`StoreGet` event is triggered -/
theorem kstep_putHand (fuel : Nat) {g : EvId} {i : Int} {is : List Int} (hk : KInv s a) (hpe : a.pend = some q)
    (hport : a.port = .W g) (hit : a.items = i :: is)
    (hp : popMin s.agenda = some (q, rest)) (hrest : rest.Perm (a.port.entries ++ a.src.entries)) :
    ∃ s', step (body c sizes0) (fuel + 1) s = .ok s' ∧
      KInv s' { a with pend := none, port := .H g i ⟨q.time, NORMAL, s.eid, g⟩, items := is } ∧
      s'.now = q.time ∧ viewsOf s'.trace = viewsOf s.trace := by
  obtain ⟨hkind, hcbs, hout⟩ := hk.pend q hpe
  have hcbs0 := hcbs
  have hgs : q.ev < s.events.size := KState.lt_of_cbs hcbs
  have hres := hk.res
  have hrsz := hk.rsz
  have hwf := openEvent_wf s q rest hk.wf hp
  have hc0 := hk.c0; have hc1 := hk.c1; have hc2 := hk.c2; have hc3 := hk.c3; have hc4 := hk.c4
  have hc5 := hk.c5; have hc6 := hk.c6; have hc7 := hk.c7; have hc8 := hk.c8
  have hpk := hk.port
  rw [hport] at hpk
  obtain ⟨⟨hgk, hgc, hgo⟩, hproc⟩ := hpk
  have hgc0 := hgc
  have hgg : g < s.events.size := KState.lt_of_cbs hgc
  have hne : g ≠ q.ev := by
    rintro rfl
    rw [hcbs] at hgc
    cases hgc
  rw [step_eq _ _ _ _ _ _ hp hcbs]
  simp only [List.foldl, runCb]
  rw [triggerGet_hand (openEvent s q rest) g i is hrsz (by simpa [openEvent] using hgg)
    (by show (s.res 0).kind = .store; rw [hres]; rfl) (by show (s.res 0).getQ = [g]; rw [hres, hport]; rfl)
    (by show (s.res 0).items = i :: is; rw [hres, hit]; rfl)]
  simp only [KState.ev, KState.res] at hkind hcbs hout hres hgk hgc hgo
  ksimp [hgs, hgg, hkind, hcbs, hout, hres, hrsz, hne, Ne.symm hne, hgk, hgc, hgo]
  have hfr : ∀ x < s.events.size, (∀ c, (s.ev x).cbs = some c → c ∉ [[Cb.trigGet 0], [Cb.trigPut 0, Cb.resume 0]]) →
      x ≠ q.ev ∧ x ≠ g := by
    intro x _ hc
    refine ⟨?_, ?_⟩
    · rintro rfl; exact hc _ hcbs0 (by simp)
    · rintro rfl; exact hc _ hgc0 (by simp)
  refine ⟨?_, ?_, ?_, ?_, ?_, ?_, ?_, hc0, hc1, hc2, hc3, hc4, hc5, hc6, hc7, hc8⟩
  · exact wf_push1 hwf.1 _ rfl rfl rfl rfl (le_refl _)
  · rw [hport] at hrest
    simp only [A.entries, PPhase.entries, Option.toList, List.append_nil, List.nil_append, List.singleton_append] at hrest ⊢
    exact List.Perm.cons _ hrest
  · ksimp [hrsz]
  · ksimp [hrsz, hport, hit, PPhase.getQ]
  · refine ⟨rfl, ?_, hproc⟩
    ksimp [EvIs, hgg, hne, hgs, hgk, hgc]
  · refine SrcEv.frame hk.src (evFrame_of [[.trigGet 0], [.trigPut 0, .resume 0]] ?_) (by decide) (by decide) rfl
    intro x hx hc; ksimp [Nat.ne_of_lt hx, (hfr x hx hc).1, (hfr x hx hc).2]
  · intro u hu; cases hu

/-- the generator's `Initialize` event: it sleeps for the initial delay -/
theorem kstep_srcInit (fuel : Nat) {gaps : List ℚ} {sizes : List Nat} {us : List ℚ} (hk : KInv s a)
    (hsrc : a.src = .init q gaps sizes us) (hq0 : q.time = 0) (hd : 0 ≤ c.initialDelay)
    (hp : popMin s.agenda = some (q, rest)) (hrest : rest.Perm (a.port.entries ++ a.pend.toList)) :
    ∃ s', step (body c sizes0) (fuel + 1) s = .ok s' ∧
      KInv s' { a with src := .delay ⟨q.time + c.initialDelay, NORMAL, s.eid, s.events.size⟩ gaps sizes us } ∧
      s'.now = q.time ∧ viewsOf s'.trace = viewsOf s.trace := by
  have hsk := hk.src
  rw [hsrc] at hsk
  obtain ⟨hqe, ⟨hkind, hcbs, hout⟩, hproc, ⟨hpk, hpc, hpo⟩⟩ := hsk
  have hcbs0 := hcbs
  have hgs : 3 < s.events.size := KState.lt_of_cbs hcbs
  have hres := hk.res
  have hrsz := hk.rsz
  have hwf := openEvent_wf s q rest hk.wf hp
  have hc0 := hk.c0; have hc1 := hk.c1; have hc2 := hk.c2; have hc3 := hk.c3; have hc4 := hk.c4
  have hc5 := hk.c5; have hc6 := hk.c6; have hc7 := hk.c7; have hc8 := hk.c8
  rw [step_eq _ _ _ _ _ _ hp (hqe ▸ hcbs)]
  simp only [List.foldl, runCb]
  rw [resume_eq _ _ _ _ _ _ (show (openEvent s q rest).proc? 2 = _ from hproc)]
  simp only [KState.ev, KState.res] at hkind hcbs hout hres hpk hpc hpo
  ksimp [hqe, hgs, hkind, hcbs, hout, hres, hrsz, Nat.ne_of_lt hgs, hpk, hpc, hpo, hd]
  have hfr : ∀ x < s.events.size, (∀ c, (s.ev x).cbs = some c → c ∉ [[Cb.resume 2]]) → x ≠ 3 := by
    intro x _ hc; rintro rfl; exact hc _ hcbs0 (by simp)
  have h2 : (2 : ℕ) < s.events.size := by omega
  refine ⟨⟨?_, ?_, hrsz, hres, ?_, ?_, ?_, ?_, ?_, ?_, ?_, ?_, ?_, ?_, ?_, ?_⟩, ?_⟩
  · exact wf_push1 hwf.1 _ rfl rfl rfl rfl (by show q.time ≤ q.time + c.initialDelay; linarith)
  · refine (List.Perm.cons _ hrest).trans ?_
    simp only [A.entries, SPhase.entries, List.singleton_append]
    exact List.perm_middle.symm
  · refine PortEv.frame hk.port (evFrame_of [[.resume 2]] ?_) (by decide) (by decide) (by ksimp)
    frame_ev hfr
  · refine ⟨?_, ?_, ?_⟩
    · ksimp [EvIs]
    · ksimp [hq0]
    · ksimp [EvIs, Nat.ne_of_lt h2, hpk, hpc, hpo]
  · refine pend_frame hk.pend (evFrame_of [[.resume 2]] ?_) (by decide)
    frame_ev hfr
  · ksimp [hc0]
  · ksimp [hc1]
  · ksimp [hc2]
  · ksimp [hc3]
  · ksimp [hc4]
  · ksimp [hc5]
  · ksimp [hc6]
  · ksimp [hc7]
  · ksimp [hc8]
  · simp [viewsOf_push]

/-- the initial delay is over and the loop does not start: the generator returns, its process event is triggered -/
theorem kstep_srcDelayEnd (fuel : Nat) {gaps : List ℚ} {sizes : List Nat} {us : List ℚ} (hk : KInv s a)
    (hsrc : a.src = .delay q gaps sizes us) (hnx : genNext c q.time gaps sizes = none)
    (hp : popMin s.agenda = some (q, rest)) (hrest : rest.Perm (a.port.entries ++ a.pend.toList)) :
    ∃ s', step (body c sizes0) (fuel + 1) s = .ok s' ∧
      KInv s' { a with src := .ending ⟨q.time, NORMAL, s.eid, 2⟩ } ∧
      s'.now = q.time ∧ viewsOf s'.trace = viewsOf s.trace := by
  have hsk := hk.src
  rw [hsrc] at hsk
  obtain ⟨⟨hkind, hcbs, hout⟩, hproc, ⟨hpk, hpc, hpo⟩⟩ := hsk
  have hcbs0 := hcbs
  have hpc0 := hpc
  have hgs : q.ev < s.events.size := KState.lt_of_cbs hcbs
  have h2 : (2 : ℕ) < s.events.size := KState.lt_of_cbs hpc
  have hne2 : q.ev ≠ 2 := by rintro h; rw [h] at hkind; rw [hkind] at hpk; cases hpk
  have hres := hk.res
  have hrsz := hk.rsz
  have hwf := openEvent_wf s q rest hk.wf hp
  have hc0 := hk.c0; have hc1 := hk.c1; have hc2 := hk.c2; have hc3 := hk.c3; have hc4 := hk.c4
  have hc5 := hk.c5; have hc6 := hk.c6; have hc7 := hk.c7; have hc8 := hk.c8
  rw [step_eq _ _ _ _ _ _ hp hcbs]
  simp only [List.foldl, runCb]
  rw [resume_eq _ _ _ _ _ _ (show (openEvent s q rest).proc? 2 = _ from hproc)]
  simp only [KState.ev, KState.res] at hkind hcbs hout hres hpk hpc hpo
  ksimp [hgs, hkind, hcbs, hout, hres, hrsz, Nat.ne_of_lt hgs, Nat.ne_of_lt h2, hne2, Ne.symm hne2, hpk, hpc, hpo, h2, hnx]
  have hfr : ∀ x < s.events.size, (∀ c, (s.ev x).cbs = some c → c ∉ [[Cb.resume 2], []]) → x ≠ q.ev ∧ x ≠ 2 := by
    intro x _ hc
    refine ⟨?_, ?_⟩
    · rintro rfl; exact hc _ hcbs0 (by simp)
    · rintro rfl; exact hc _ hpc0 (by simp)
  refine ⟨⟨?_, ?_, hrsz, hres, ?_, ?_, ?_, ?_, ?_, ?_, ?_, ?_, ?_, ?_, ?_, ?_⟩, ?_⟩
  · exact wf_push1 hwf.1 _ rfl rfl rfl rfl (le_refl _)
  · refine (List.Perm.cons _ hrest).trans ?_
    simp only [A.entries, SPhase.entries, List.singleton_append]
    exact List.perm_middle.symm
  · refine PortEv.frame hk.port (evFrame_of [[.resume 2], []] ?_) (by decide) (by decide) (by ksimp)
    intro x hx hc; ksimp [Nat.ne_of_lt hx, (hfr x hx hc).1, (hfr x hx hc).2]
  · refine ⟨rfl, ?_⟩
    ksimp [EvIs, h2, hpk, hpc, Ne.symm hne2]
  · refine pend_frame hk.pend (evFrame_of [[.resume 2], []] ?_) (by decide)
    intro x hx hc; ksimp [Nat.ne_of_lt hx, (hfr x hx hc).1, (hfr x hx hc).2]
  · ksimp [hc0]
  · ksimp [hc1]
  · ksimp [hc2]
  · ksimp [hc3]
  · ksimp [hc4]
  · ksimp [hc5]
  · ksimp [hc6]
  · ksimp [hc7]
  · ksimp [hc8]
  · simp [viewsOf_push]

/-- the initial delay is over: the generator sleeps until the first arrival -/
theorem kstep_srcDelayWait (fuel : Nat) {gaps : List ℚ} {sizes : List Nat} {us : List ℚ} {gap : ℚ} {z : Nat}
    {gaps' : List ℚ} {sizes' : List Nat} (hk : KInv s a)
    (hsrc : a.src = .delay q gaps sizes us) (hnx : genNext c q.time gaps sizes = some (gap, z, gaps', sizes'))
    (hgap : 0 ≤ gap)
    (hp : popMin s.agenda = some (q, rest)) (hrest : rest.Perm (a.port.entries ++ a.pend.toList)) :
    ∃ s', step (body c sizes0) (fuel + 1) s = .ok s' ∧
      KInv s' { a with src := .wait 0 z gaps' sizes' us ⟨q.time + gap, NORMAL, s.eid, s.events.size⟩ } ∧
      s'.now = q.time ∧ viewsOf s'.trace = viewsOf s.trace := by
  have hsk := hk.src
  rw [hsrc] at hsk
  obtain ⟨⟨hkind, hcbs, hout⟩, hproc, ⟨hpk, hpc, hpo⟩⟩ := hsk
  have hcbs0 := hcbs
  have hgs : q.ev < s.events.size := KState.lt_of_cbs hcbs
  have h2 : (2 : ℕ) < s.events.size := KState.lt_of_cbs hpc
  have hne2 : q.ev ≠ 2 := by rintro h; rw [h] at hkind; rw [hkind] at hpk; cases hpk
  have hres := hk.res
  have hrsz := hk.rsz
  have hwf := openEvent_wf s q rest hk.wf hp
  have hc0 := hk.c0; have hc1 := hk.c1; have hc2 := hk.c2; have hc3 := hk.c3; have hc4 := hk.c4
  have hc5 := hk.c5; have hc6 := hk.c6; have hc7 := hk.c7; have hc8 := hk.c8
  rw [step_eq _ _ _ _ _ _ hp hcbs]
  simp only [List.foldl, runCb]
  rw [resume_eq _ _ _ _ _ _ (show (openEvent s q rest).proc? 2 = _ from hproc)]
  simp only [KState.ev, KState.res] at hkind hcbs hout hres hpk hpc hpo
  ksimp [hgs, hkind, hcbs, hout, hres, hrsz, Nat.ne_of_lt hgs, Nat.ne_of_lt h2, hne2, Ne.symm hne2, hpk, hpc, hpo, h2, hnx, hgap]
  have hfr : ∀ x < s.events.size, (∀ c, (s.ev x).cbs = some c → c ∉ [[Cb.resume 2]]) → x ≠ q.ev := by
    intro x _ hc; rintro rfl; exact hc _ hcbs0 (by simp)
  refine ⟨⟨?_, ?_, hrsz, hres, ?_, ?_, ?_, ?_, ?_, ?_, ?_, ?_, ?_, ?_, ?_, ?_⟩, ?_⟩
  · exact wf_push1 hwf.1 _ rfl rfl rfl rfl (by show q.time ≤ q.time + gap; linarith)
  · refine (List.Perm.cons _ hrest).trans ?_
    simp only [A.entries, SPhase.entries, List.singleton_append]
    exact List.perm_middle.symm
  · refine PortEv.frame hk.port (evFrame_of [[.resume 2]] ?_) (by decide) (by decide) (by ksimp)
    frame_ev hfr
  · refine ⟨?_, ?_, ?_⟩
    · ksimp [EvIs]
    · ksimp
    · ksimp [EvIs, Nat.ne_of_lt h2, Ne.symm hne2, hpk, hpc, hpo]
  · refine pend_frame hk.pend (evFrame_of [[.resume 2]] ?_) (by decide)
    frame_ev hfr
  · ksimp [hc0]
  · ksimp [hc1]
  · ksimp [hc2]
  · ksimp [hc3]
  · ksimp [hc4]
  · ksimp [hc5]
  · ksimp [hc6]
  · ksimp [hc7]
  · ksimp [hc8]
  · simp [viewsOf_push]

/-- the last arrival is refused: the timeout fires, `REDPort.put` counts a drop, the generator returns -/
theorem kstep_srcDropEnd (fuel : Nat) {n z : Nat} {gaps : List ℚ} {sizes : List Nat} {us : List ℚ} (hk : KInv s a)
    (hsrc : a.src = .wait n z gaps sizes us q)
    (hd : needsDraw c (avgNew c a) = true → us ≠ [])
    (hdrop : dropQ c (avgNew c a) (uAtt c (avgNew c a) us) = true)
    (hnx : genNext c q.time gaps sizes = none)
    (hp : popMin s.agenda = some (q, rest)) (hrest : rest.Perm (a.port.entries ++ a.pend.toList)) :
    ∃ s', step (body c sizes0) (fuel + 1) s = .ok s' ∧
      KInv s' { (a.arrive c (.ending ⟨q.time, NORMAL, s.eid, 2⟩)) with dropped := a.dropped + 1 } ∧
      s'.now = q.time ∧ viewsOf s'.trace = viewsOf s.trace ++ [.gen ((n : Int) + 1) q.time, .u (uAtt c (avgNew c a) us)] := by
  have hsk := hk.src
  rw [hsrc] at hsk
  obtain ⟨⟨hkind, hcbs, hout⟩, hproc, ⟨hpk, hpc, hpo⟩⟩ := hsk
  have hcbs0 := hcbs
  have hpc0 := hpc
  have hgs : q.ev < s.events.size := KState.lt_of_cbs hcbs
  have h2 : (2 : ℕ) < s.events.size := KState.lt_of_cbs hpc
  have hne2 : q.ev ≠ 2 := by rintro h; rw [h] at hkind; rw [hkind] at hpk; cases hpk
  have hres := hk.res
  have hrsz := hk.rsz
  have hwf := openEvent_wf s q rest hk.wf hp
  have hc0 := hk.c0; have hc1 := hk.c1; have hc2 := hk.c2; have hc3 := hk.c3; have hc4 := hk.c4
  have hc5 := hk.c5; have hc6 := hk.c6; have hc7 := hk.c7; have hc8 := hk.c8
  rw [step_eq _ _ _ _ _ _ hp hcbs]
  simp only [List.foldl, runCb]
  rw [resume_eq _ _ _ _ _ _ (show (openEvent s q rest).proc? 2 = _ from hproc)]
  simp only [KState.ev, KState.res] at hkind hcbs hout hres hpk hpc hpo
  have hfr : ∀ x < s.events.size, (∀ c, (s.ev x).cbs = some c → c ∉ [[Cb.resume 2], []]) → x ≠ q.ev ∧ x ≠ 2 := by
    intro x _ hc
    refine ⟨?_, ?_⟩
    · rintro rfl; exact hc _ hcbs0 (by simp)
    · rintro rfl; exact hc _ hpc0 (by simp)
  cases hlb : c.limitBytes <;> by_cases hnd : needsDraw c (avgNew c a) = true
  all_goals
    simp only [A.arrive, avgNew, curOf, hlb, Bool.false_eq_true, if_false, if_true] at hd hdrop hnd ⊢
    ksimp [hgs, hkind, hcbs, hout, hres, hrsz, Nat.ne_of_lt hgs, Nat.ne_of_lt h2, hne2, Ne.symm hne2, hpk, hpc, hpo, hc0, hc1, hc4, hc5, hc6, hlb,
      h2, redDecide_eq _ _ _ _ _ _ hd, hnd, hdrop, hnx]
    refine ⟨⟨?_, ?_, hrsz, hres, ?_, ?_, ?_, ?_, ?_, ?_, ?_, ?_, ?_, ?_, ?_, ?_⟩, ?_⟩
    · exact wf_push1 hwf.1 _ rfl rfl rfl rfl (le_refl _)
    · refine (List.Perm.cons _ hrest).trans ?_
      simp only [A.entries, SPhase.entries, List.singleton_append]
      exact List.perm_middle.symm
    · refine PortEv.frame hk.port (evFrame_of [[.resume 2], []] ?_) (by decide) (by decide) (by ksimp)
      intro x hx hc; ksimp [Nat.ne_of_lt hx, (hfr x hx hc).1, (hfr x hx hc).2]
    · refine ⟨rfl, ?_⟩
      ksimp [EvIs, h2, hpk, hpc, Ne.symm hne2]
    · refine pend_frame hk.pend (evFrame_of [[.resume 2], []] ?_) (by decide)
      intro x hx hc; ksimp [Nat.ne_of_lt hx, (hfr x hx hc).1, (hfr x hx hc).2]
    · ksimp [hc0]
    · ksimp
    · ksimp [hc2]
    · ksimp [hc3]
    · ksimp
    · ksimp
    · ksimp [hc6]
    · ksimp [hc7]
    · ksimp [hc8]
    · simp [viewsOf_push]
/-- an arrival is refused: the timeout fires, `REDPort.put` counts a drop, the generator sleeps until the next one -/
theorem kstep_srcDropWait (fuel : Nat) {n z : Nat} {gaps : List ℚ} {sizes : List Nat} {us : List ℚ} {gap : ℚ} {z' : Nat}
    {gaps' : List ℚ} {sizes' : List Nat} (hk : KInv s a)
    (hsrc : a.src = .wait n z gaps sizes us q)
    (hd : needsDraw c (avgNew c a) = true → us ≠ [])
    (hdrop : dropQ c (avgNew c a) (uAtt c (avgNew c a) us) = true)
    (hnx : genNext c q.time gaps sizes = some (gap, z', gaps', sizes')) (hgap : 0 ≤ gap)
    (hp : popMin s.agenda = some (q, rest)) (hrest : rest.Perm (a.port.entries ++ a.pend.toList)) :
    ∃ s', step (body c sizes0) (fuel + 1) s = .ok s' ∧
      KInv s' { (a.arrive c (.wait (n + 1) z' gaps' sizes' (usAfter c (avgNew c a) us) ⟨q.time + gap, NORMAL, s.eid, s.events.size⟩)) with dropped := a.dropped + 1 } ∧
      s'.now = q.time ∧ viewsOf s'.trace = viewsOf s.trace ++ [.gen ((n : Int) + 1) q.time, .u (uAtt c (avgNew c a) us)] := by
  have hsk := hk.src
  rw [hsrc] at hsk
  obtain ⟨⟨hkind, hcbs, hout⟩, hproc, ⟨hpk, hpc, hpo⟩⟩ := hsk
  have hcbs0 := hcbs
  have hgs : q.ev < s.events.size := KState.lt_of_cbs hcbs
  have h2 : (2 : ℕ) < s.events.size := KState.lt_of_cbs hpc
  have hne2 : q.ev ≠ 2 := by rintro h; rw [h] at hkind; rw [hkind] at hpk; cases hpk
  have hres := hk.res
  have hrsz := hk.rsz
  have hwf := openEvent_wf s q rest hk.wf hp
  have hc0 := hk.c0; have hc1 := hk.c1; have hc2 := hk.c2; have hc3 := hk.c3; have hc4 := hk.c4
  have hc5 := hk.c5; have hc6 := hk.c6; have hc7 := hk.c7; have hc8 := hk.c8
  rw [step_eq _ _ _ _ _ _ hp hcbs]
  simp only [List.foldl, runCb]
  rw [resume_eq _ _ _ _ _ _ (show (openEvent s q rest).proc? 2 = _ from hproc)]
  simp only [KState.ev, KState.res] at hkind hcbs hout hres hpk hpc hpo
  have hfr : ∀ x < s.events.size, (∀ c, (s.ev x).cbs = some c → c ∉ [[Cb.resume 2]]) → x ≠ q.ev := by
    intro x _ hc; rintro rfl; exact hc _ hcbs0 (by simp)
  cases hlb : c.limitBytes <;> by_cases hnd : needsDraw c (avgNew c a) = true
  all_goals
    simp only [A.arrive, avgNew, curOf, hlb, Bool.false_eq_true, if_false, if_true] at hd hdrop hnd ⊢
    ksimp [hgs, hkind, hcbs, hout, hres, hrsz, Nat.ne_of_lt hgs, Nat.ne_of_lt h2, hne2, Ne.symm hne2, hpk, hpc, hpo, hc0, hc1, hc4, hc5, hc6, hlb,
      h2, redDecide_eq _ _ _ _ _ _ hd, hnd, hdrop, hnx, hgap]
    refine ⟨⟨?_, ?_, hrsz, hres, ?_, ?_, ?_, ?_, ?_, ?_, ?_, ?_, ?_, ?_, ?_, ?_⟩, ?_⟩
    · exact wf_push1 hwf.1 _ rfl rfl rfl rfl (by show q.time ≤ q.time + gap; linarith)
    · refine (List.Perm.cons _ hrest).trans ?_
      simp only [A.entries, SPhase.entries, List.singleton_append]
      exact List.perm_middle.symm
    · refine PortEv.frame hk.port (evFrame_of [[.resume 2]] ?_) (by decide) (by decide) (by ksimp)
      frame_ev hfr
    · refine ⟨?_, ?_, ?_⟩
      · ksimp [EvIs]
      · ksimp
      · ksimp [EvIs, Nat.ne_of_lt h2, Ne.symm hne2, hpk, hpc, hpo]
    · refine pend_frame hk.pend (evFrame_of [[.resume 2]] ?_) (by decide)
      frame_ev hfr
    · ksimp [hc0]
    · ksimp
    · ksimp [hc2]
    · ksimp [hc3]
    · ksimp
    · ksimp
    · ksimp [hc6]
    · ksimp [hc7]
    · ksimp [hc8]
    · simp [viewsOf_push]
/-- the last arrival is accepted: the timeout fires, `REDPort.put` stores the packet, the generator returns -/
theorem kstep_srcAccEnd (fuel : Nat) {n z : Nat} {gaps : List ℚ} {sizes : List Nat} {us : List ℚ} (hk : KInv s a)
    (hsrc : a.src = .wait n z gaps sizes us q) (hn : a.pend = none)
    (hd : needsDraw c (avgNew c a) = true → us ≠ [])
    (hacc : dropQ c (avgNew c a) (uAtt c (avgNew c a) us) = false)
    (hnx : genNext c q.time gaps sizes = none)
    (hp : popMin s.agenda = some (q, rest)) (hrest : rest.Perm (a.port.entries ++ a.pend.toList)) :
    ∃ s', step (body c sizes0) (fuel + 1) s = .ok s' ∧
      KInv s' { (a.arrive c (.ending ⟨q.time, NORMAL, s.eid + 1, 2⟩)) with pend := some ⟨q.time, NORMAL, s.eid, s.events.size⟩, items := a.items ++ [(n : Int) + 1], bytes := a.bytes + (z : Int), len := a.len + 1, accIds := a.accIds ++ [(n : Int) + 1] } ∧
      s'.now = q.time ∧ viewsOf s'.trace = viewsOf s.trace ++ [.gen ((n : Int) + 1) q.time, .u (uAtt c (avgNew c a) us)] := by
  have hsk := hk.src
  rw [hsrc] at hsk
  obtain ⟨⟨hkind, hcbs, hout⟩, hproc, ⟨hpk, hpc, hpo⟩⟩ := hsk
  have hcbs0 := hcbs
  have hpc0 := hpc
  have hgs : q.ev < s.events.size := KState.lt_of_cbs hcbs
  have h2 : (2 : ℕ) < s.events.size := KState.lt_of_cbs hpc
  have hne2 : q.ev ≠ 2 := by rintro h; rw [h] at hkind; rw [hkind] at hpk; cases hpk
  have hres := hk.res
  have hrsz := hk.rsz
  have hwf := openEvent_wf s q rest hk.wf hp
  have hc0 := hk.c0; have hc1 := hk.c1; have hc2 := hk.c2; have hc3 := hk.c3; have hc4 := hk.c4
  have hc5 := hk.c5; have hc6 := hk.c6; have hc7 := hk.c7; have hc8 := hk.c8
  rw [step_eq _ _ _ _ _ _ hp hcbs]
  simp only [List.foldl, runCb]
  rw [resume_eq _ _ _ _ _ _ (show (openEvent s q rest).proc? 2 = _ from hproc)]
  simp only [KState.ev, KState.res] at hkind hcbs hout hres hpk hpc hpo
  have hfr : ∀ x < s.events.size, (∀ c, (s.ev x).cbs = some c → c ∉ [[Cb.resume 2], []]) → x ≠ q.ev ∧ x ≠ 2 := by
    intro x _ hc
    refine ⟨?_, ?_⟩
    · rintro rfl; exact hc _ hcbs0 (by simp)
    · rintro rfl; exact hc _ hpc0 (by simp)
  cases hlb : c.limitBytes <;> by_cases hnd : needsDraw c (avgNew c a) = true
  all_goals
    simp only [A.arrive, avgNew, curOf, hlb, Bool.false_eq_true, if_false, if_true] at hd hacc hnd ⊢
    ksimp [hgs, hkind, hcbs, hout, hres, hrsz, Nat.ne_of_lt hgs, Nat.ne_of_lt h2, hne2, Ne.symm hne2, hpk, hpc, hpo, hc0, hc1, hc4, hc5, hc6, hlb,
      h2, redDecide_eq _ _ _ _ _ _ hd, hnd, hacc, hnx]
    refine ⟨⟨?_, ?_, ?_, ?_, ?_, ?_, ?_, ?_, ?_, ?_, ?_, ?_, ?_, ?_, ?_, ?_⟩, ?_⟩
    · exact wf_push2 hwf.1 _ _ rfl rfl rfl rfl rfl (le_refl _) (le_refl _)
    · rw [hn] at hrest
      simp only [A.entries, SPhase.entries, Option.toList, List.append_nil] at hrest ⊢
      refine ((List.Perm.cons _ hrest).cons _).trans ?_
      exact (List.perm_append_comm (l₁ := [_, _]) (l₂ := a.port.entries))
    · ksimp [hrsz]
    · ksimp [hrsz]
    · refine PortEv.frame hk.port (evFrame_of [[.resume 2], []] ?_) (by decide) (by decide) (by ksimp)
      intro x hx hc; ksimp [Nat.ne_of_lt hx, (hfr x hx hc).1, (hfr x hx hc).2]
    · refine ⟨rfl, ?_⟩
      ksimp [EvIs, h2, Nat.lt_succ_of_lt h2, hpk, hpc, Nat.ne_of_lt h2, Ne.symm hne2]
    · intro u hu
      simp only [Option.some.injEq] at hu
      subst hu
      ksimp [EvIs, Nat.ne_of_gt h2]
    · ksimp
    · ksimp
    · ksimp [hc2]
    · ksimp [hc3]
    · ksimp [hc4]
    · ksimp
    · ksimp
    · ksimp [hc7]
    · ksimp [hc8]
    · simp [viewsOf_push]
/-- an arrival is accepted: the timeout fires, `REDPort.put` stores the packet, the generator sleeps until the next one -/
theorem kstep_srcAccWait (fuel : Nat) {n z : Nat} {gaps : List ℚ} {sizes : List Nat} {us : List ℚ} {gap : ℚ} {z' : Nat}
    {gaps' : List ℚ} {sizes' : List Nat} (hk : KInv s a)
    (hsrc : a.src = .wait n z gaps sizes us q) (hn : a.pend = none)
    (hd : needsDraw c (avgNew c a) = true → us ≠ [])
    (hacc : dropQ c (avgNew c a) (uAtt c (avgNew c a) us) = false)
    (hnx : genNext c q.time gaps sizes = some (gap, z', gaps', sizes')) (hgap : 0 ≤ gap)
    (hp : popMin s.agenda = some (q, rest)) (hrest : rest.Perm (a.port.entries ++ a.pend.toList)) :
    ∃ s', step (body c sizes0) (fuel + 1) s = .ok s' ∧
      KInv s' { (a.arrive c (.wait (n + 1) z' gaps' sizes' (usAfter c (avgNew c a) us) ⟨q.time + gap, NORMAL, s.eid + 1, s.events.size + 1⟩)) with pend := some ⟨q.time, NORMAL, s.eid, s.events.size⟩, items := a.items ++ [(n : Int) + 1], bytes := a.bytes + (z : Int), len := a.len + 1, accIds := a.accIds ++ [(n : Int) + 1] } ∧
      s'.now = q.time ∧ viewsOf s'.trace = viewsOf s.trace ++ [.gen ((n : Int) + 1) q.time, .u (uAtt c (avgNew c a) us)] := by
  have hsk := hk.src
  rw [hsrc] at hsk
  obtain ⟨⟨hkind, hcbs, hout⟩, hproc, ⟨hpk, hpc, hpo⟩⟩ := hsk
  have hcbs0 := hcbs
  have hgs : q.ev < s.events.size := KState.lt_of_cbs hcbs
  have h2 : (2 : ℕ) < s.events.size := KState.lt_of_cbs hpc
  have hne2 : q.ev ≠ 2 := by rintro h; rw [h] at hkind; rw [hkind] at hpk; cases hpk
  have hres := hk.res
  have hrsz := hk.rsz
  have hwf := openEvent_wf s q rest hk.wf hp
  have hc0 := hk.c0; have hc1 := hk.c1; have hc2 := hk.c2; have hc3 := hk.c3; have hc4 := hk.c4
  have hc5 := hk.c5; have hc6 := hk.c6; have hc7 := hk.c7; have hc8 := hk.c8
  rw [step_eq _ _ _ _ _ _ hp hcbs]
  simp only [List.foldl, runCb]
  rw [resume_eq _ _ _ _ _ _ (show (openEvent s q rest).proc? 2 = _ from hproc)]
  simp only [KState.ev, KState.res] at hkind hcbs hout hres hpk hpc hpo
  have hfr : ∀ x < s.events.size, (∀ c, (s.ev x).cbs = some c → c ∉ [[Cb.resume 2]]) → x ≠ q.ev := by
    intro x _ hc; rintro rfl; exact hc _ hcbs0 (by simp)
  cases hlb : c.limitBytes <;> by_cases hnd : needsDraw c (avgNew c a) = true
  all_goals
    simp only [A.arrive, avgNew, curOf, hlb, Bool.false_eq_true, if_false, if_true] at hd hacc hnd ⊢
    ksimp [hgs, hkind, hcbs, hout, hres, hrsz, Nat.ne_of_lt hgs, Nat.ne_of_lt h2, hne2, Ne.symm hne2, hpk, hpc, hpo, hc0, hc1, hc4, hc5, hc6, hlb,
      h2, redDecide_eq _ _ _ _ _ _ hd, hnd, hacc, hnx, hgap, Nat.ne_of_lt (Nat.lt_succ_of_lt hgs)]
    refine ⟨⟨?_, ?_, ?_, ?_, ?_, ?_, ?_, ?_, ?_, ?_, ?_, ?_, ?_, ?_, ?_, ?_⟩, ?_⟩
    · exact wf_push2 hwf.1 _ _ rfl rfl rfl rfl rfl (by show q.time ≤ q.time + gap; linarith) (le_refl _)
    · rw [hn] at hrest
      simp only [A.entries, SPhase.entries, Option.toList, List.append_nil] at hrest ⊢
      refine ((List.Perm.cons _ hrest).cons _).trans ?_
      exact (List.perm_append_comm (l₁ := [_, _]) (l₂ := a.port.entries))
    · ksimp [hrsz]
    · ksimp [hrsz]
    · refine PortEv.frame hk.port (evFrame_of [[.resume 2]] ?_) (by decide) (by decide) (by ksimp)
      frame_ev hfr
    · refine ⟨?_, ?_, ?_⟩
      · ksimp [EvIs]
      · ksimp
      · have h2' : (2 : ℕ) ≠ s.events.size + 1 := by omega
        ksimp [EvIs, Nat.ne_of_lt h2, h2', Ne.symm hne2, hpk, hpc, hpo]
    · intro u hu
      simp only [Option.some.injEq] at hu
      subst hu
      ksimp [EvIs]
    · ksimp
    · ksimp
    · ksimp [hc2]
    · ksimp [hc3]
    · ksimp [hc4]
    · ksimp
    · ksimp
    · ksimp [hc7]
    · ksimp [hc8]
    · simp [viewsOf_push]
end REDK
