import OnlVerif.Lemmas.StrandCalls
/-!
# The loop invariant along bursts, `_resume`, the callback loop and whole steps

`J s rem` is kept by every burst of every program (under the domain hypothesis), by every callback, and is
re-established by the pop of the next agenda entry; so `SInv` holds in every reachable state (`reach_sinv`), and at a
clock advance no rescan can be pending: all queue heads are blocked (`sinv_advance`).
-/

variable {σ : Type}

theorem runBurst_J (self : EvId) {rem : List Cb} : ∀ (b : Burst ℚ σ) (s : KState ℚ σ), J s rem → burstDom self b s →
    J (runBurst self b s).1 rem ∧ Fr s (runBurst self b s).1
  | .call c k, s, h, hd => by
    simp only [runBurst]
    obtain ⟨hd1, hd2⟩ := hd
    obtain ⟨j1, f1⟩ := doCall_J h self c hd1
    obtain ⟨j2, f2⟩ := noteErr_J self (doCall s self c) j1
    obtain ⟨j3, f3⟩ := runBurst_J self (k (doCall s self c).2) _ j2 hd2
    exact ⟨j3, (f1.trans f2).trans f3⟩
  | .yield _ _, s, h, _ => ⟨h, Fr.refl s⟩
  | .ret _, s, h, _ => ⟨h, Fr.refl s⟩
  | .raise _, s, h, _ => ⟨h, Fr.refl s⟩

theorem resume_J (body : σ → Resume → Burst ℚ σ) (p : EvId) {rem : List Cb} : ∀ (fuel : Nat) (e : EvId) (s : KState ℚ σ),
    J s rem → resumeDom body p fuel e s → J (resume body p fuel e s) rem ∧ Fr s (resume body p fuel e s)
  | 0, _, s, h, _ => ⟨h, Fr.refl s⟩
  | fuel + 1, e, s, h, hd => by
    unfold resume
    unfold resumeDom at hd
    cases hpr : s.proc? p with
    | none => exact ⟨h, Fr.refl s⟩
    | some pr =>
      simp only [hpr] at hd ⊢
      obtain ⟨hd1, hd2⟩ := hd
      have j0 := h.keeps (deliverSt_keeps h.pkg p e)
      have j1 := j0.1.keeps (ghost_keeps (s' := (deliver s p e).1.emit (.resumed p (deliver s p e).2 (deliver s p e).1.now))
        j0.1.pkg rfl rfl rfl rfl rfl)
      have f01 : Fr s ((deliver s p e).1.emit (.resumed p (deliver s p e).2 (deliver s p e).1.now)) := j0.2.trans j1.2
      obtain ⟨j2, f2⟩ := runBurst_J p (body pr.st (deliver s p e).2) _ j1.1 hd1
      generalize hbt : runBurst p (body pr.st (deliver s p e).2)
        ((deliver s p e).1.emit (.resumed p (deliver s p e).2 (deliver s p e).1.now)) = bt at j2 f2 hd2 ⊢
      obtain ⟨s1, t⟩ := bt
      have f02 : Fr s s1 := f01.trans f2
      have hk : (s1.ev p).kind = .proc := j2.pkg.procKind p (f02.procs p (by rw [hpr]; simp))
      cases t with
      | returned v =>
        obtain ⟨j3, f3⟩ := j2.keeps (finishProc_keeps j2.pkg p pr (.ok v) hk)
        exact ⟨j3, f02.trans f3⟩
      | raised x =>
        obtain ⟨j3, f3⟩ := j2.keeps (finishProc_keeps j2.pkg p pr (.fail x) hk)
        exact ⟨j3, f02.trans f3⟩
      | yielded e' st' =>
        simp only at hd2 ⊢
        obtain ⟨j3, f3⟩ := j2.keeps ⟨j2.pkg.setProc p { st := st', target := some e' } hk, NR.setProc s1 p _⟩
        cases hreg : register (s1.setProc p { st := st', target := some e' }) p e' with
        | some s3 =>
          obtain ⟨j4, f4⟩ := j3.keeps (register_keeps j3.pkg p e' hreg)
          exact ⟨j4, (f02.trans f3).trans f4⟩
        | none =>
          simp only [hreg] at hd2
          obtain ⟨j4, f4⟩ := resume_J body p fuel e' _ j3 hd2
          exact ⟨j4, (f02.trans f3).trans f4⟩

theorem deliverInterrupt_J (body : σ → Resume → Burst ℚ σ) (fuel : Nat) (iv p : EvId) {rem : List Cb} (s : KState ℚ σ)
    (h : J s rem) (hd : intrDom body fuel iv p s) :
    J (deliverInterrupt body fuel iv p s) rem ∧ Fr s (deliverInterrupt body fuel iv p s) := by
  unfold deliverInterrupt
  unfold intrDom at hd
  split
  · exact ⟨h, Fr.refl s⟩
  · rename_i htr
    simp only [htr, Bool.false_eq_true, if_false] at hd
    cases hpr : s.proc? p with
    | none => exact ⟨h, Fr.refl s⟩
    | some pr =>
      simp only [hpr] at hd ⊢
      cases htg : pr.target with
      | none =>
        simp only [htg] at hd ⊢
        exact resume_J body p fuel iv s h hd
      | some t =>
        simp only [htg] at hd ⊢
        obtain ⟨j1, f1⟩ := h.keeps (eraseCb_keeps h.pkg t (.resume p) rfl)
        obtain ⟨j2, f2⟩ := resume_J body p fuel iv _ j1 hd
        exact ⟨j2, f1.trans f2⟩

/-- one callback of the event being processed -/
theorem runCb_J (body : σ → Resume → Burst ℚ σ) (fuel : Nat) (e : EvId) (l : LoopSt ℚ σ) (cb : Cb) (rem : List Cb)
    (h : J l.s (cb :: rem)) (hd : cbDom body fuel e l.s cb) : J (runCb body fuel e l cb).s rem := by
  unfold runCb
  cases cb with
  | resume p => exact (resume_J body p fuel e l.s (h.tail rfl) hd).1
  | probe tag =>
    show J (l.s.emit _) rem
    refine ((h.tail rfl).keeps ?_).1
    exact ghost_keeps h.pkg rfl rfl rfl rfl rfl
  | stop => exact h.tail rfl
  | intr iv =>
    simp only
    unfold cbDom at hd
    split
    · rename_i p hk
      simp only [hk] at hd
      exact (deliverInterrupt_J body fuel iv p l.s (h.tail rfl) hd).1
    · exact h.tail rfl
  | check c => exact ((h.tail rfl).keeps (condCheck_keeps h.pkg c e (h.chk c List.mem_cons_self))).1
  | build c => exact ((h.tail rfl).keeps (condBuild_keeps h.pkg c)).1
  | trigPut r => exact h.cbTrigPut.1
  | trigGet r => exact h.cbTrigGet.1

/-- the whole callback loop of a step -/
theorem foldCbs_J (body : σ → Resume → Burst ℚ σ) (fuel : Nat) (e : EvId) : ∀ (cbs : List Cb) (l : LoopSt ℚ σ),
    J l.s cbs → loopDom body fuel e cbs l → J (cbs.foldl (runCb body fuel e) l).s []
  | [], _, h, _ => h
  | cb :: rest, l, h, hd => by
    obtain ⟨hd1, hd2⟩ := hd
    exact foldCbs_J body fuel e rest _ (runCb_J body fuel e l cb rest h hd1) hd2

/-! ## the pop -/

theorem openEvent_ev (s : KState ℚ σ) (q : QEntry ℚ) (rest : List (QEntry ℚ)) (x : EvId) :
    (openEvent s q rest).ev x = if x = q.ev ∧ q.ev < s.events.size then { s.ev q.ev with cbs := none } else s.ev x :=
  KState.ev_setEv s q.ev x _

theorem openEvent_ev_meta (s : KState ℚ σ) (q : QEntry ℚ) (rest : List (QEntry ℚ)) (x : EvId) :
    ((openEvent s q rest).ev x).kind = (s.ev x).kind ∧ ((openEvent s q rest).ev x).out = (s.ev x).out ∧
    ((openEvent s q rest).ev x).req = (s.ev x).req ∧
    (∀ l, ((openEvent s q rest).ev x).cbs = some l → (s.ev x).cbs = some l ∧ x ≠ q.ev) := by
  rw [openEvent_ev]
  split
  · rename_i hc
    rw [hc.1]
    exact ⟨rfl, rfl, rfl, fun l hl => by cases hl⟩
  · rename_i hc
    refine ⟨rfl, rfl, rfl, fun l hl => ⟨hl, ?_⟩⟩
    intro hx
    exact hc ⟨hx, hx ▸ KState.lt_of_cbs hl⟩

theorem openEvent_ev_ne (s : KState ℚ σ) (q : QEntry ℚ) (rest : List (QEntry ℚ)) (x : EvId) (hx : x ≠ q.ev) :
    (openEvent s q rest).ev x = s.ev x := by
  rw [openEvent_ev, if_neg (fun hc => hx hc.1)]

/-- popping the next entry re-establishes the loop invariant for the callbacks of the popped event -/
theorem openEvent_J {s : KState ℚ σ} (h : SInv s) (q : QEntry ℚ) (rest : List (QEntry ℚ))
    (hpop : popMin s.agenda = some (q, rest)) (l : List Cb)
    (hl : (s.ev q.ev).cbs = some l ∨ ((s.ev q.ev).cbs = none ∧ l = [])) : J (openEvent s q rest) l := by
  have sp := popMin_spec _ _ _ hpop
  have hqmem : q ∈ s.agenda := sp.1.symm.subset List.mem_cons_self
  have hsub : ∀ x ∈ rest, x ∈ s.agenda := fun x hx => sp.1.symm.subset (List.mem_cons_of_mem _ hx)
  have hqout : (s.ev q.ev).out ≠ none := h.j.pkg.agTrig q hqmem
  have hres : ∀ r, (openEvent s q rest).res r = s.res r := fun _ => rfl
  have hproc : ∀ p, (openEvent s q rest).proc? p = s.proc? p := fun _ => rfl
  have hsize : (openEvent s q rest).events.size = s.events.size := by simp [openEvent]
  have hcond : ∀ c, isCond (openEvent s q rest) c = isCond s c :=
    fun c => isCond_congr (openEvent_ev_meta s q rest c).1
  have hreq : ∀ x, reqOf (openEvent s q rest) x = reqOf s x := fun x => reqOf_congr (openEvent_ev_meta s q rest x).2.2.1
  -- a queued request is untriggered, hence not the popped event
  have hqne : ∀ x, (s.ev x).out = none → x ≠ q.ev := fun x hx hc => hqout (hc ▸ hx)
  refine ⟨⟨?_, ?_, ?_, ?_, ?_, h.j.pkg.nodupP, h.j.pkg.nodupG, ?_, h.j.pkg.usersLe⟩, ?_, ?_⟩
  · intro x hx
    rw [(openEvent_ev_meta s q rest x.ev).2.1]
    exact h.j.pkg.agTrig x (hsub x hx)
  · intro p hp
    rw [(openEvent_ev_meta s q rest p).1]
    exact h.j.pkg.procKind p hp
  · intro x l' c hl' hm
    rw [hcond]
    exact h.j.pkg.checkKind x l' c ((openEvent_ev_meta s q rest x).2.2.2 l' hl').1 hm
  · intro r e hm
    have := h.j.pkg.putQ r e hm
    have hne := hqne e (this.2.1.resolve_right (by simp))
    rw [openEvent_ev_ne s q rest e hne]; exact this
  · intro r e hm
    have := h.j.pkg.getQ r e hm
    have hne := hqne e (this.2.1.resolve_right (by simp))
    rw [openEvent_ev_ne s q rest e hne]; exact this
  · intro r w hw
    rw [hsize]; exact h.j.pkg.usersIn r w hw
  · -- `_check` callbacks of the popped event
    intro c hc
    rw [hcond]
    rcases hl with hl | ⟨_, hl⟩
    · exact h.j.pkg.checkKind q.ev l c hl hc
    · rw [hl] at hc; cases hc
  · -- the main clause
    have pend : ∀ cb, Pend s [] cb → Pend (openEvent s q rest) l cb := by
      intro cb hp
      rcases hp with hp | ⟨q0, hq0, ht0, l0, hl0, hm0⟩
      · cases hp
      · have hq0' : q0 ∈ q :: rest := sp.1.subset hq0
        have hnow : q.time = s.now := by
          have h1 : s.now ≤ q.time := h.wf.due q hqmem
          have h2 : q.time ≤ q0.time := by
            rcases List.mem_cons.mp hq0' with rfl | hr
            · exact le_refl _
            · exact not_keyLt_time (sp.2 q0 hr)
          rw [ht0] at h2
          exact le_antisymm h2 h1
        by_cases hev : q0.ev = q.ev
        · left
          rw [hev] at hl0
          rcases hl with hl | ⟨hl, _⟩
          · rw [hl] at hl0
            cases hl0; exact hm0
          · rw [hl] at hl0; cases hl0
        · right
          have hr : q0 ∈ rest := by
            rcases List.mem_cons.mp hq0' with rfl | hr
            · exact absurd rfl hev
            · exact hr
          refine ⟨q0, hr, ?_, l0, ?_, hm0⟩
          · show q0.time = q.time
            rw [hnow]; exact ht0
          · rw [openEvent_ev_ne s q rest q0.ev hev]; exact hl0
    intro r
    constructor
    · rcases (h.j.main r).1 with hb | hp
      · left
        intro e he
        have hm : e ∈ (s.res r).putQ := List.mem_of_mem_head? he
        rw [putOk_congr (s := s) (s' := openEvent s q rest) (SameContents.of_eq (hres r)) (by rw [hreq]) (fun w _ => by rw [hreq])]
        exact hb e he
      · exact Or.inr (pend _ hp)
    · rcases (h.j.main r).2 with hb | hp
      · left
        refine ⟨fun e he => ?_, fun hk e hm => ?_⟩
        · rw [getItem_congr (s := s) (s' := openEvent s q rest) (SameContents.of_eq (hres r)) (by rw [hreq])]
          exact hb.1 e he
        · rw [getItem_congr (s := s) (s' := openEvent s q rest) (SameContents.of_eq (hres r)) (by rw [hreq])]
          exact hb.2 hk e hm
      · exact Or.inr (pend _ hp)

/-! ## whole steps -/

/-- **one kernel step keeps the invariant** (however it ends), under the domain hypothesis for this step -/
theorem step_sinv (body : σ → Resume → Burst ℚ σ) (fuel : Nat) (s s' : KState ℚ σ) (h : SInv s)
    (hd : stepDom body fuel s) (hs : (step body fuel s).state? = some s') : SInv s' := by
  obtain ⟨q, rest, hq, hext⟩ := step_shape body fuel s s' hs
  have hwf : AgendaWF s' := (openEvent_wf s q rest h.wf hq).1.ext hext
  refine ⟨hwf, ?_⟩
  unfold step at hs
  unfold stepDom at hd
  simp only [hq] at hs hd
  cases hc : (s.ev q.ev).cbs with
  | none =>
    simp only [hc] at hs
    cases hs
    exact openEvent_J h q rest hq [] (Or.inr ⟨hc, rfl⟩)
  | some cbs =>
    simp only [hc] at hs hd
    rw [closeEvent_state] at hs
    cases hs
    exact foldCbs_J body fuel q.ev cbs _ (openEvent_J h q rest hq cbs (Or.inl hc)) hd

/-- **the invariant holds in every state any program can reach** (within the domain) -/
theorem reach_sinv (body : σ → Resume → Burst ℚ σ) (fuel : Nat) (s0 s : KState ℚ σ) (h0 : SInv s0)
    (hr : DReach body fuel s0 s) : SInv s := by
  induction hr with
  | init => exact h0
  | step _ hd hs ih => exact step_sinv body fuel _ _ ih hd hs

theorem DReach.toKReach {body : σ → Resume → Burst ℚ σ} {fuel : Nat} {s0 s : KState ℚ σ} (hr : DReach body fuel s0 s) :
    KReach body fuel s0 s := by
  induction hr with
  | init => exact KReach.init
  | step _ _ hs ih => exact KReach.step ih hs

/-- when the clock is about to advance nothing is due now, so no rescan is pending -/
theorem not_pend_of_advance {s : KState ℚ σ} (_hwf : AgendaWF s) (ha : AboutToAdvance s) (cb : Cb) : ¬ Pend s [] cb := by
  rintro (hp | ⟨q0, hq0, ht0, _⟩)
  · cases hp
  · cases hpop : popMin s.agenda with
    | none =>
      cases hag : s.agenda with
      | nil => rw [hag] at hq0; cases hq0
      | cons x xs =>
        rw [hag] at hpop
        unfold popMin at hpop
        cases h2 : popMin xs <;> rw [h2] at hpop
        · cases hpop
        · simp only at hpop; split at hpop <;> cases hpop
    | some qr =>
      obtain ⟨q, rest⟩ := qr
      have hlt := ha q rest hpop
      have sp := popMin_spec _ _ _ hpop
      have : q.time ≤ q0.time := by
        rcases List.mem_cons.mp (sp.1.subset hq0) with rfl | hr
        · exact le_refl _
        · exact not_keyLt_time (sp.2 q0 hr)
      rw [ht0] at this
      exact absurd hlt (not_lt.mpr this)

/-- **at a clock advance every queue head is blocked** -/
theorem sinv_advance {s : KState ℚ σ} (h : SInv s) (ha : AboutToAdvance s) (r : ResId) :
    PutBlocked s r ∧ GetBlocked s r :=
  ⟨(h.j.main r).1.resolve_right (not_pend_of_advance h.wf ha _), (h.j.main r).2.resolve_right (not_pend_of_advance h.wf ha _)⟩

/-! ## initial states, and the static sufficient condition for the domain hypothesis -/

/-- a fresh environment: nothing scheduled, no events, resources with empty queues and no users -/
theorem sinv_init (t0 : ℚ) (rs : Array ResRec)
    (h : ∀ r, (rs.getD r default).putQ = [] ∧ (rs.getD r default).getQ = [] ∧ (rs.getD r default).users = []) :
    SInv ({ now := t0, resources := rs } : KState ℚ σ) := by
  have hev : ∀ x, (({ now := t0, resources := rs } : KState ℚ σ).ev x) = default := by intro x; simp [KState.ev]
  have hres : ∀ r, (({ now := t0, resources := rs } : KState ℚ σ).res r) = rs.getD r default := fun _ => rfl
  refine ⟨⟨(by intro q hq; cases hq), (by intro q hq; cases hq), List.Pairwise.nil⟩, ⟨⟨?_, ?_, ?_, ?_, ?_, ?_, ?_, ?_, ?_⟩, ?_, ?_⟩⟩
  · intro q hq; cases hq
  · intro p hp; exact absurd rfl hp
  · intro x l c hl; rw [hev] at hl; cases hl
  · intro r e hm; rw [hres, (h r).1] at hm; cases hm
  · intro r e hm; rw [hres, (h r).2.1] at hm; cases hm
  · intro r; rw [hres, (h r).1]; exact List.nodup_nil
  · intro r; rw [hres, (h r).2.1]; exact List.nodup_nil
  · intro r w hm; rw [hres, (h r).2.2] at hm; cases hm
  · intro r c _ _; rw [hres, (h r).2.2]; simp
  · intro c hc; cases hc
  · intro r
    refine ⟨Or.inl ?_, Or.inl ⟨?_, ?_⟩⟩
    · intro e he; rw [hres, (h r).1] at he; cases he
    · intro e he; rw [hres, (h r).2.1] at he; cases he
    · intro _ e he; rw [hres, (h r).2.1] at he; cases he

/-- API calls made while setting up the environment (e.g. the initial `env.process(...)` calls) keep the invariant -/
theorem doCall_sinv {s : KState ℚ σ} (h : SInv s) (self : EvId) (c : Call ℚ σ) (hd : callDom s c) :
    SInv (doCall s self c).1 :=
  ⟨h.wf.ext (ext_doCall s self c), (doCall_J h.j self c hd).1⟩

theorem callDom_of_noTrig (s : KState ℚ σ) (c : Call ℚ σ) (h1 : ∀ e v, c ≠ .succeed e v) (h2 : ∀ e x, c ≠ .fail e x) :
    callDom s c := by
  cases c <;> first | trivial | exact absurd rfl (h1 _ _) | exact absurd rfl (h2 _ _)

theorem burstDom_of_noTrig (self : EvId) : ∀ (b : Burst ℚ σ) (s : KState ℚ σ), NoTrigCalls b → burstDom self b s
  | .call c k, s, h => by
    cases h with
    | call _ _ h1 h2 h3 => exact ⟨callDom_of_noTrig s c h1 h2, burstDom_of_noTrig self _ _ (h3 _)⟩
  | .yield _ _, _, _ => trivial
  | .ret _, _, _ => trivial
  | .raise _, _, _ => trivial

theorem resumeDom_of_noTrig (body : σ → Resume → Burst ℚ σ) (hb : ∀ st rs, NoTrigCalls (body st rs)) (p : EvId) :
    ∀ (fuel : Nat) (e : EvId) (s : KState ℚ σ), resumeDom body p fuel e s
  | 0, _, _ => trivial
  | fuel + 1, e, s => by
    unfold resumeDom
    cases hpr : s.proc? p with
    | none => trivial
    | some pr =>
      simp only
      refine ⟨burstDom_of_noTrig p _ _ (hb _ _), ?_⟩
      generalize runBurst p (body pr.st (deliver s p e).2)
        ((deliver s p e).1.emit (.resumed p (deliver s p e).2 (deliver s p e).1.now)) = bt
      obtain ⟨s1, t⟩ := bt
      cases t with
      | returned v => trivial
      | raised x => trivial
      | yielded e' st' =>
        simp only
        cases hreg : register (s1.setProc p { st := st', target := some e' }) p e' with
        | some s3 => trivial
        | none => exact resumeDom_of_noTrig body hb p fuel e' _

theorem cbDom_of_noTrig (body : σ → Resume → Burst ℚ σ) (hb : ∀ st rs, NoTrigCalls (body st rs)) (fuel : Nat) (e : EvId)
    (s : KState ℚ σ) (cb : Cb) : cbDom body fuel e s cb := by
  cases cb with
  | resume p => exact resumeDom_of_noTrig body hb p fuel e s
  | intr iv =>
    show (match (s.ev iv).kind with | .intr p => intrDom body fuel iv p s | _ => True)
    split
    · unfold intrDom
      split
      · trivial
      · split
        · trivial
        · split
          · exact resumeDom_of_noTrig body hb _ fuel iv _
          · exact resumeDom_of_noTrig body hb _ fuel iv _
    · trivial
  | _ => trivial

theorem loopDom_of_noTrig (body : σ → Resume → Burst ℚ σ) (hb : ∀ st rs, NoTrigCalls (body st rs)) (fuel : Nat) (e : EvId) :
    ∀ (cbs : List Cb) (l : LoopSt ℚ σ), loopDom body fuel e cbs l
  | [], _ => trivial
  | cb :: rest, l => ⟨cbDom_of_noTrig body hb fuel e l.s cb, loopDom_of_noTrig body hb fuel e rest _⟩

/-- a program that never calls `succeed()/fail()` satisfies the domain hypothesis in every step -/
theorem stepDom_of_noTrig (body : σ → Resume → Burst ℚ σ) (hb : ∀ st rs, NoTrigCalls (body st rs)) (fuel : Nat)
    (s : KState ℚ σ) : stepDom body fuel s := by
  unfold stepDom
  split
  · trivial
  · split
    · trivial
    · exact loopDom_of_noTrig body hb fuel _ _ _

theorem dreach_of_noTrig (body : σ → Resume → Burst ℚ σ) (hb : ∀ st rs, NoTrigCalls (body st rs)) (fuel : Nat)
    (s0 s : KState ℚ σ) (hr : KReach body fuel s0 s) : DReach body fuel s0 s := by
  induction hr with
  | init => exact DReach.init
  | step _ hs ih => exact DReach.step ih (stepDom_of_noTrig body hb fuel _) hs

/-! ## small facts used by the plain-words corollaries -/

theorem listMin_eq_none : ∀ (l : List Int), listMin l = none → l = []
  | [], _ => rfl
  | x :: xs, h => by
    unfold listMin at h
    cases h2 : listMin xs <;> rw [h2] at h
    · cases h
    · simp only at h; split at h <;> cases h

theorem beq_preemptive_of_container {k : ResKind} (h : k = .container) : k ≠ .preemptive := by
  rw [h]; simp

theorem not_preemptive_of_store {k : ResKind} (h : isStoreKind k = true) : k ≠ .preemptive := by
  intro hk; rw [hk] at h; exact absurd h (by decide)

/-! ## the prologues of `run(until=number)` / `run(until=event)` keep the invariant -/

theorem Pkg.scheduleAt {s : KState ℚ σ} {ex : Option EvId} (h : Pkg s ex) (x : EvId) (p : Nat) (t : ℚ)
    (hx : (s.ev x).out ≠ none) : Pkg (s.scheduleAt x p t) ex := by
  refine ⟨?_, h.procKind, h.checkKind, h.putQ, h.getQ, h.nodupP, h.nodupG, h.usersIn, h.usersLe⟩
  intro q hq
  rcases List.mem_cons.mp hq with rfl | hq
  · exact hx
  · exact h.agTrig q hq

theorem NR.scheduleAt (s : KState ℚ σ) (x : EvId) (p : Nat) (t : ℚ) : NR s (s.scheduleAt x p t) :=
  ⟨⟨rfl, ⟨[_], rfl⟩, Nat.le_refl _, fun _ _ => rfl, fun _ l hl => ⟨l, hl, fun _ _ hm => hm⟩, fun _ h => h,
    fun _ _ => rfl, fun _ h => h, fun _ => ⟨rfl, rfl⟩⟩, rfl⟩

theorem AgendaWF.scheduleAt {s : KState ℚ σ} (h : AgendaWF s) (x : EvId) (p : Nat) (t : ℚ) (ht : s.now ≤ t) :
    AgendaWF (s.scheduleAt x p t) := by
  refine ⟨?_, ?_, ?_⟩
  · intro q hq
    rcases List.mem_cons.mp hq with rfl | hq
    · exact ht
    · exact h.due q hq
  · intro q hq
    rcases List.mem_cons.mp hq with rfl | hq
    · exact Nat.lt_succ_self _
    · exact Nat.lt_succ_of_lt (h.eid_lt q hq)
  · refine List.pairwise_cons.mpr ⟨?_, h.distinct⟩
    intro q hq
    exact Nat.ne_of_gt (h.eid_lt q hq)

/-- the state in which `run(until=at_)` enters its step loop (`runUntilTime`) -/
theorem sinv_untilTime_start {s : KState ℚ σ} (h : SInv s) (at_ : ℚ) (hlt : s.now < at_) :
    SInv ((((s.newEv { kind := .sentinel, cbs := some [], out := some (.ok .none) }).1.scheduleAt s.events.size URGENT at_)).addCb
      s.events.size .stop) := by
  have hp := Pushed.newEv s { kind := .sentinel, cbs := some [], out := some (.ok .none) }
  have k1 : Keeps s (s.newEv { kind := .sentinel, cbs := some [], out := some (.ok .none) }).1 :=
    ⟨hp.pkg h.j.pkg (by intro l c hl hm; simp only [Option.some.injEq] at hl; subst hl; simp at hm), hp.nr⟩
  have k2 := k1.trans ⟨k1.1.scheduleAt s.events.size URGENT at_ (by rw [hp.ev_new]; simp), NR.scheduleAt _ _ _ _⟩
  have k3 := k2.trans (addCb_keeps k2.1 s.events.size .stop (by intro c hc; cases hc))
  have w1 : AgendaWF (s.newEv { kind := .sentinel, cbs := some [], out := some (.ok .none) }).1 :=
    ⟨h.wf.due, h.wf.eid_lt, h.wf.distinct⟩
  have w2 := w1.scheduleAt s.events.size URGENT at_ (le_of_lt hlt)
  exact ⟨⟨w2.due, w2.eid_lt, w2.distinct⟩, (h.j.keeps k3).1⟩

/-- the state in which `run(until=event)` enters its step loop (`runUntilEvent`) -/
theorem sinv_untilEvent_start {s : KState ℚ σ} (h : SInv s) (e : EvId) : SInv (s.addCb e .stop) :=
  ⟨⟨h.wf.due, h.wf.eid_lt, h.wf.distinct⟩, (h.j.keeps (addCb_keeps h.j.pkg e .stop (by intro c hc; cases hc))).1⟩
