import OnlVerif.Lemmas.MultiQueueRun
/-!
# SP: the priority table is sorted, a scan passes only empty stores, the loop always rescans from the top
-/

namespace SP
open MQ

/-! ### the sorted table -/

theorem mem_insertDesc (a x : Nat × Int) (l : List (Nat × Int)) : x ∈ insertDesc a l ↔ x = a ∨ x ∈ l := by
  induction l with
  | nil => simp [insertDesc]
  | cons b r ih =>
    simp only [insertDesc]
    split
    · simp only [List.mem_cons, ih]; tauto
    · simp only [List.mem_cons]

theorem mem_sortDesc (x : Nat × Int) (l : List (Nat × Int)) : x ∈ sortDesc l ↔ x ∈ l := by
  induction l with
  | nil => simp [sortDesc]
  | cons a r ih => simp only [sortDesc, mem_insertDesc, ih, List.mem_cons]

theorem pairwise_insertDesc (a : Nat × Int) (l : List (Nat × Int)) (h : l.Pairwise (fun x y => y.2 ≤ x.2)) :
    (insertDesc a l).Pairwise (fun x y => y.2 ≤ x.2) := by
  induction l with
  | nil => simp [insertDesc]
  | cons b r ih =>
    simp only [insertDesc]
    rw [List.pairwise_cons] at h
    split
    · rename_i hlt
      rw [List.pairwise_cons]
      refine ⟨fun x hx => ?_, ih h.2⟩
      rcases (mem_insertDesc a x r).mp hx with rfl | hx
      · exact le_of_lt hlt
      · exact h.1 x hx
    · rename_i hge
      rw [List.pairwise_cons, List.pairwise_cons]
      refine ⟨fun x hx => ?_, h⟩
      rcases List.mem_cons.mp hx with rfl | hx
      · exact not_lt.mp hge
      · exact le_trans (h.1 x hx) (not_lt.mp hge)

theorem pairwise_sortDesc (l : List (Nat × Int)) : (sortDesc l).Pairwise (fun x y => y.2 ≤ x.2) := by
  induction l with
  | nil => simp [sortDesc]
  | cons a r ih => exact pairwise_insertDesc a _ ih

/-- an entry with a strictly larger priority than entry `i` of the table stands before `i` -/
theorem higher_before (l : List (Nat × Int)) (i : Nat) (a b : Nat × Int) (hi : (sortDesc l)[i]? = some a)
    (hb : b ∈ l) (hlt : a.2 < b.2) : ∃ j, j < i ∧ (sortDesc l)[j]? = some b := by
  have hb' : b ∈ sortDesc l := (mem_sortDesc b l).mpr hb
  obtain ⟨j, hj, hjb⟩ := List.getElem_of_mem hb'
  have hil : i < (sortDesc l).length := by
    by_contra hc
    rw [List.getElem?_eq_none (not_lt.mp hc)] at hi; cases hi
  have hia : (sortDesc l)[i] = a := by
    rw [List.getElem?_eq_getElem hil] at hi; exact Option.some.inj hi
  refine ⟨j, ?_, by rw [List.getElem?_eq_getElem hj, hjb]⟩
  by_contra hc
  have hij : i ≤ j := not_lt.mp hc
  rcases Nat.lt_or_eq_of_le hij with hlt' | heq
  · have := (List.pairwise_iff_getElem.mp (pairwise_sortDesc l)) i j hil hj hlt'
    rw [hia, hjb] at this
    omega
  · subst heq
    rw [hia] at hjb; subst hjb; omega

/-! ### the scan -/

/-- every entry before index `i` with a positive priority has an empty store -/
def Scanned (cfg : Cfg ℚ) (i : Nat) (stores : List (Nat × List MPkt)) : Prop :=
  ∀ j, j < i → ∀ f pr, (table cfg)[j]? = some (f, pr) → 0 < pr → storeOf stores f = []

/-- where a burst of the SP loop, started at a scan position or at the end of a pass, can end -/
theorem settles_sp (cfg : Cfg ℚ) (s s' : MQState ℚ Pc) (hs : Settles (sched cfg) s s')
    (hP : (∃ i, s.ctl = .scan i ∧ Scanned cfg i s.stores) ∨ s.ctl = .endPass) :
    ((s'.phase = .waitToken ∨ s'.phase = .tokenHanded) → s'.ctl = .scan 0) ∧
    (∀ c p, s'.phase = .pktHanded c p → ∃ i π rest, s'.ctl = .got i ∧ (table cfg)[i]? = some (c, π) ∧ 0 < π ∧
        Scanned cfg i s.stores ∧ storeOf s.stores c = p :: rest ∧ s'.stores = setKey s.stores c rest) ∧
    (∀ p, s'.phase ≠ .spawned p) := by
  induction hs with
  | goto s k s' hm _ ih =>
    rw [touch_ctl] at hm
    have hP' : (∃ i, k = .scan i ∧ Scanned cfg i s.stores) ∨ k = .endPass := by
      rcases hP with ⟨i, hi, hsc⟩ | he
      · rw [hi] at hm
        simp only [sched, micro] at hm
        split at hm
        · simp only [Micro.goto.injEq] at hm; exact Or.inr hm.symm
        · rename_i f pr hf
          split at hm
          · rename_i hpos
            split at hm
            · rename_i hlen
              simp only [Micro.goto.injEq] at hm
              refine Or.inl ⟨i + 1, hm.symm, fun j hj f' pr' hf' hpos' => ?_⟩
              rcases Nat.lt_or_eq_of_le (Nat.le_of_lt_succ hj) with hlt | heq
              · exact hsc j hlt f' pr' hf' hpos'
              · subst heq
                rw [hf] at hf'; cases hf'
                simp only [view, touch_stores] at hlen
                exact List.length_eq_zero_iff.mp hlen
            · cases hm
          · rename_i hpos
            simp only [Micro.goto.injEq] at hm
            refine Or.inl ⟨i + 1, hm.symm, fun j hj f' pr' hf' hpos' => ?_⟩
            rcases Nat.lt_or_eq_of_le (Nat.le_of_lt_succ hj) with hlt | heq
            · exact hsc j hlt f' pr' hf' hpos'
            · subst heq
              rw [hf] at hf'; cases hf'
              exact absurd hpos' hpos
      · rw [he] at hm
        simp only [sched, micro] at hm
        split at hm
        · cases hm
        · simp only [Micro.goto.injEq] at hm
          exact Or.inl ⟨0, hm.symm, fun j hj => absurd hj (Nat.not_lt_zero j)⟩
    have := ih (by simpa [touch_stores] using hP')
    simpa [touch_stores] using this
  | get s c k s' hm hg =>
    rw [touch_ctl] at hm
    rcases hP with ⟨i, hi, hsc⟩ | he
    · rw [hi] at hm
      simp only [sched, micro] at hm
      split at hm
      · cases hm
      · rename_i f pr hf
        split at hm
        · rename_i hpos
          split at hm
          · cases hm
          · simp only [Micro.get.injEq] at hm
            obtain ⟨rfl, rfl⟩ := hm
            unfold issueGet at hg
            split at hg
            · rename_i p rest hst
              simp only [Except.ok.injEq] at hg
              subst hg
              refine ⟨fun h => ?_, fun c' p' h => ?_, fun p' h => (by cases h)⟩
              · rcases h with h | h <;> cases h
              · cases h
                exact ⟨i, pr, rest, rfl, hf, hpos, hsc, by simpa [touch_stores] using hst, by simp [touch_stores]⟩
            · cases hg
        · cases hm
    · rw [he] at hm
      simp only [sched, micro] at hm
      split at hm <;> cases hm
  | block s k hm =>
    rw [touch_ctl] at hm
    rcases hP with ⟨i, hi, hsc⟩ | he
    · rw [hi] at hm
      simp only [sched, micro] at hm
      split at hm
      · cases hm
      · split at hm
        · split at hm <;> cases hm
        · cases hm
    · rw [he] at hm
      simp only [sched, micro] at hm
      split at hm
      · simp only [Micro.block.injEq] at hm
        subst hm
        unfold blockOnToken
        split
        · exact ⟨fun _ => rfl, fun c p h => (by cases h), fun p h => (by cases h)⟩
        · exact ⟨fun _ => rfl, fun c p h => (by cases h), fun p h => (by cases h)⟩
      · cases hm
  | takeSend s c k p e k' hm hp hd =>
    exfalso
    rw [touch_ctl] at hm
    rcases hP with ⟨i, hi, hsc⟩ | he
    · rw [hi] at hm
      simp only [sched, micro] at hm
      split at hm
      · cases hm
      · split at hm
        · split at hm <;> cases hm
        · cases hm
    · rw [he] at hm
      simp only [sched, micro] at hm
      split at hm <;> cases hm
  | takePark s c k p k' s2 s' hm hp hd hpk _ ih =>
    exact absurd hd (SP.neverParks cfg _ _ _ _ _)

/-- whenever the loop is not started, blocked or just woken, it will scan from the top -/
def CtlOk (s : MQState ℚ Pc) : Prop :=
  (s.phase = .idle ∨ s.phase = .waitToken ∨ s.phase = .tokenHanded) → s.ctl = .scan 0

theorem resumeLoop_sp (cfg : Cfg ℚ) (s s' : MQState ℚ Pc) (hr : resumeLoop (sched cfg) s = .ok s')
    (hP : (∃ i, s.ctl = .scan i ∧ Scanned cfg i s.stores) ∨ s.ctl = .endPass) :
    CtlOk s' ∧
    (∀ c p, s'.phase = .pktHanded c p → ∃ i π rest, s'.ctl = .got i ∧ (table cfg)[i]? = some (c, π) ∧ 0 < π ∧
        Scanned cfg i s.stores ∧ storeOf s.stores c = p :: rest ∧ s'.stores = setKey s.stores c rest) := by
  have h := settles_sp cfg _ s' (resumeLoop_settles (sched cfg) s s' hr) hP
  refine ⟨fun hph => ?_, h.2.1⟩
  rcases hph with hph | hph | hph
  · rcases resumeLoop_end (sched cfg) s s' hr with ⟨c, p, h1⟩ | ⟨p, h1⟩ | h1 | h1 <;> rw [hph] at h1 <;> cases h1
  · exact h.1 (Or.inl hph)
  · exact h.1 (Or.inr hph)

/-- one step keeps `CtlOk`; a step that hands a packet to the loop has scanned all higher entries -/
theorem step_sp (cfg : Cfg ℚ) (s s' : MQState ℚ Pc) (a : MAct ℚ) (o : MOut ℚ) (hc : CtlOk s)
    (hs : step (sched cfg) s a = .ok (s', o)) :
    CtlOk s' ∧
    ((a = .init ∨ a = .wake ∨ a = .sendDone) → ∀ c p, s'.phase = .pktHanded c p →
      ∃ i π rest, (table cfg)[i]? = some (c, π) ∧ 0 < π ∧ Scanned cfg i s.stores ∧
        storeOf s.stores c = p :: rest ∧ s'.stores = setKey s.stores c rest) := by
  have ht := step_trans (sched cfg) s s' a o hs
  cases ht with
  | init _ hp hr =>
    have := resumeLoop_sp cfg s s' hr (Or.inl ⟨0, hc (Or.inl hp), fun j hj => absurd hj (Nat.not_lt_zero j)⟩)
    refine ⟨this.1, fun _ c p hph => ?_⟩
    obtain ⟨i, π, rest, _, h2⟩ := this.2 c p hph
    exact ⟨i, π, rest, h2⟩
  | put p c k hcl hk =>
    have hk' : k = s.ctl := by simp only [sched, Except.ok.injEq] at hk; exact hk.symm
    subst hk'
    have hph : (postToken ({ s with ctl := s.ctl } : MQState ℚ Pc)).phase = s.phase := by unfold postToken; split <;> rfl
    have hctl : (postToken ({ s with ctl := s.ctl } : MQState ℚ Pc)).ctl = s.ctl := by unfold postToken; split <;> rfl
    refine ⟨fun h => ?_, fun h => ?_⟩
    · simp only [enqueue, countIn, hph, hctl] at h ⊢
      exact hc h
    · rcases h with h | h | h <;> cases h
  | tokenHandoff n hp htk =>
    exact ⟨fun _ => hc (Or.inr (Or.inl hp)), fun h => by rcases h with h | h | h <;> cases h⟩
  | wake _ hp hr =>
    have := resumeLoop_sp cfg s s' hr (Or.inl ⟨0, hc (Or.inr (Or.inr hp)), fun j hj => absurd hj (Nat.not_lt_zero j)⟩)
    refine ⟨this.1, fun _ c p hph => ?_⟩
    obtain ⟨i, π, rest, _, h2⟩ := this.2 c p hph
    exact ⟨i, π, rest, h2⟩
  | resumeSend c p e k hp hd =>
    refine ⟨fun h => ?_, fun h => by rcases h with h | h | h <;> cases h⟩
    rcases h with h | h | h <;> cases h
  | resumePark c p k s2 _ hp hd hpk hr => exact absurd hd (SP.neverParks cfg _ _ _ _ _)
  | sendInit p hp =>
    refine ⟨fun h => ?_, fun h => by rcases h with h | h | h <;> cases h⟩
    rcases h with h | h | h <;> cases h
  | sendFire p due hp hnow =>
    refine ⟨fun h => ?_, fun h => by rcases h with h | h | h <;> cases h⟩
    rcases h with h | h | h <;> cases h
  | sendDone p k _ hp hk hr =>
    have hk' : k = .endPass := by
      simp only [sched, onDone] at hk
      split at hk
      · simp only [Except.ok.injEq] at hk; exact hk.symm
      · cases hk
    subst hk'
    have := resumeLoop_sp cfg { s with ctl := Pc.endPass } s' hr (Or.inr rfl)
    refine ⟨this.1, fun _ c q hph => ?_⟩
    obtain ⟨i, π, rest, _, h2⟩ := this.2 c q hph
    exact ⟨i, π, rest, h2⟩
  | tickIdle t h1 h2 h3 =>
    exact ⟨hc, fun h => by rcases h with h | h | h <;> cases h⟩
  | tickBusy t p due h1 h2 h3 =>
    exact ⟨hc, fun h => by rcases h with h | h | h <;> cases h⟩
  | sample inc => exact ⟨hc, fun h => by rcases h with h | h | h <;> cases h⟩

/-- `CtlOk` holds before every step of an admissible run from the initial state -/
theorem runLog_ctlOk (cfg : Cfg ℚ) (as : List (MAct ℚ)) (s : MQState ℚ Pc) (l : List (Entry Pc)) (hc : CtlOk s)
    (hr : runLog (sched cfg) s as = .ok l) (e : Entry Pc) (he : e ∈ l) :
    CtlOk e.pre ∧ step (sched cfg) e.pre e.act = .ok (e.post, e.out) := by
  induction as generalizing s l with
  | nil =>
    simp only [runLog, Except.ok.injEq] at hr
    subst hr; cases he
  | cons a as ih =>
    simp only [runLog] at hr
    split at hr
    · cases hr
    · rename_i s1 o h1
      split at hr
      · cases hr
      · rename_i l2 h2
        simp only [Except.ok.injEq] at hr
        subst hr
        rcases List.mem_cons.mp he with rfl | he
        · exact ⟨hc, h1⟩
        · exact ih s1 l2 (step_sp cfg s s1 a o hc h1).1 h2 he

end SP
