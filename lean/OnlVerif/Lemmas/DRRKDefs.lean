import OnlVerif.Lemmas.TimerKFrame
import OnlVerif.Lemmas.SchedDRRProps
import OnlVerif.Lemmas.DRRKAttr
import OnlVerif.Net.DRROnK
/-!
# The DRR scheduler on the kernel model: canonical configurations (definitions)

`A` is an abstract description of a kernel state of the program `DRROnK.prog`: where `DRR.run` (and the sender process it has
spawned) and the source are suspended, which agenda entries exist, what the stores hold, the attribute cells.  `KInv s a`
says that the kernel state `s` *is* the configuration `a`: it pins down every part of `s` that `Environment.step` and the
generators can read.  `AInv` is what holds of the configurations of a run.  `A.burst` is what a burst of `run` does to a
configuration: the nested loops of `DRR.run`, as a function.
-/

namespace DRRK
open DRROnK
open TimerK (lookup)

abbrev St := DrrSt ℚ
abbrev KS := KState ℚ St

/-- where `DRR.run` (with the sender it waits for) is -/
inductive RPhase where
  /-- not started: its `Initialize` entry `q` is in the agenda -/
  | init (q : QEntry ℚ)
  /-- blocked in `packets_available.get()` (event `g`) -/
  | W (g : EvId)
  /-- that `get` has been served with a token: entry `q` -/
  | K (g : EvId) (q : QEntry ℚ)
  /-- `stores[flow id].get()` (event `g`, issued at entry `m`) has been served with packet `id`: entry `q` -/
  | H (g : EvId) (m : Nat) (id : Int) (q : QEntry ℚ)
  /-- the sender process `p` of packet `id` (taken at entry `m`) has been created: its `Initialize` entry `q` -/
  | S (p : EvId) (m : Nat) (id : Int) (q : QEntry ℚ)
  /-- the sender `p` sleeps on timeout `t` (entry `q`, due at `q.time`) -/
  | T (p t : EvId) (m : Nat) (id : Int) (q : QEntry ℚ)
  /-- the sender's generator has returned: its process event `p` is triggered (entry `q`) -/
  | F (p : EvId) (m : Nat) (id : Int) (q : QEntry ℚ)

/-- where the source is -/
inductive SPhase where
  | init (q : QEntry ℚ) (arr : List (ℚ × Int))
  /-- sleeping on the timeout (entry `q`) after which it puts packet `id`; `rest` still to come -/
  | wait (id : Int) (rest : List (ℚ × Int)) (q : QEntry ℚ)
  /-- the generator has returned: the process event (entry `q`) is triggered -/
  | ending (q : QEntry ℚ)
  | done

/-- `g x := v` -/
def upd {β : Type} (g : Nat → β) (f : Nat) (v : β) : Nat → β := fun x => if x = f then v else g x

@[simp] theorem upd_same {β : Type} (g : Nat → β) (f : Nat) (v : β) : upd g f v f = v := by simp [upd]
theorem upd_ne {β : Type} (g : Nat → β) (f f' : Nat) (v : β) (h : f' ≠ f) : upd g f v f' = g f' := by simp [upd, h]
theorem upd_apply {β : Type} (g : Nat → β) (f f' : Nat) (v : β) : upd g f v f' = if f' = f then v else g f' := rfl

structure A where
  run : RPhase
  src : SPhase
  /-- the `StorePut` events that are triggered and not yet processed, with their store -/
  pend : List (QEntry ℚ × ResId)
  /-- `len(packets_available.items)` -/
  tokens : Nat
  /-- `stores[c].items` -/
  items : Nat → List Int
  /-- `queue_count[f]` -/
  cnt : Nat → Int
  /-- `queue_byte_size[f]` -/
  byt : Nat → Int
  /-- `packets_received` -/
  recv : Int
  /-- `current_packet` -/
  cur : Option Int
  /-- the keys of `queue_byte_size` and `stores`, in insertion order -/
  keys : List Nat
  /-- `class_count[c]` -/
  ccnt : Nat → Int
  /-- `deficit[c]` -/
  dfc : Nat → ℚ
  /-- `head_of_line.get(c)` -/
  hol : Nat → Option Int
  /-- ghost: the credit forgotten so far when class `c` emptied -/
  forf : Nat → ℚ

def RPhase.entries : RPhase → List (QEntry ℚ)
  | .init q => [q]
  | .W _ => []
  | .K _ q => [q]
  | .H _ _ _ q => [q]
  | .S _ _ _ q => [q]
  | .T _ _ _ _ q => [q]
  | .F _ _ _ q => [q]

def SPhase.entries : SPhase → List (QEntry ℚ)
  | .init q _ => [q]
  | .wait _ _ q => [q]
  | .ending q => [q]
  | .done => []

def pendEntries (l : List (QEntry ℚ × ResId)) : List (QEntry ℚ) := l.map (·.1)

def A.entries (a : A) : List (QEntry ℚ) := a.run.entries ++ (a.src.entries ++ pendEntries a.pend)

/-- the events a configuration talks about (pairwise different); the process event of `DRR.run` is 0, of the source 2 -/
def RPhase.ids : RPhase → List EvId
  | .init _ => [0, 1]
  | .W g => [0, g]
  | .K g _ => [0, g]
  | .H g _ _ _ => [0, g]
  | .S p _ _ _ => [0, p, p + 1]
  | .T p t _ _ _ => [0, p, t]
  | .F p _ _ _ => [0, p]

def SPhase.ids : SPhase → List EvId
  | .init _ _ => [2, 3]
  | .wait _ _ q => [2, q.ev]
  | .ending _ => [2]
  | .done => []

def pendIds (l : List (QEntry ℚ × ResId)) : List EvId := l.map (·.1.ev)

def A.ids (a : A) : List EvId := a.run.ids ++ (a.src.ids ++ pendIds a.pend)

/-- the `get_queue` of the wake-up store -/
def RPhase.getQ : RPhase → List EvId
  | .W g => [g]
  | _ => []

/-- the packet `run` holds or has in transmission (taken from its store or from `head_of_line`, not yet counted out) -/
def RPhase.held : RPhase → Option Int
  | .H _ _ id _ => some id
  | .S _ _ id _ => some id
  | .T _ _ _ id _ => some id
  | _ => none

/-- the packet whose transmission is over and not booked yet (`class_count` still counts it) -/
def RPhase.unbooked : RPhase → Option Int
  | .F _ _ id _ => some id
  | _ => none

/-- kind, callbacks and outcome of a live event -/
def EvIs (s : KS) (e : EvId) (k : Kind) (cbs : List Cb) (out : Option Outcome) : Prop :=
  (s.ev e).kind = k ∧ (s.ev e).cbs = some cbs ∧ (s.ev e).out = out

/-- the record of an unbounded `Store` -/
def storeRec (getQ : List EvId) (items : List Int) : ResRec :=
  { kind := .store, capacity := none, getQ := getQ, items := items }

/-! ## the kernel side of a configuration -/

variable (flow : Int → Nat)

def RunEv (s : KS) : RPhase → Prop
  | .init q => q.ev = 1 ∧ EvIs s 1 (.init 0) [.resume 0] (some (.ok .none)) ∧
      s.proc? 0 = some { st := .runStart, target := some 1 } ∧ EvIs s 0 .proc [] none
  | .W g => EvIs s g (.get 0) [.trigPut 0, .resume 0] none ∧
      s.proc? 0 = some { st := .runTok, target := some g } ∧ EvIs s 0 .proc [] none
  | .K g q => q.ev = g ∧ EvIs s g (.get 0) [.trigPut 0, .resume 0] (some (.ok (.int 1))) ∧
      s.proc? 0 = some { st := .runTok, target := some g } ∧ EvIs s 0 .proc [] none
  | .H g m id q => q.ev = g ∧
      EvIs s g (.get (flowStore (flow id))) [.trigPut (flowStore (flow id)), .resume 0] (some (.ok (.int id))) ∧
      s.proc? 0 = some { st := .runGet m, target := some g } ∧ EvIs s 0 .proc [] none
  | .S p m id q => q.ev = p + 1 ∧ EvIs s (p + 1) (.init p) [.resume p] (some (.ok .none)) ∧
      s.proc? p = some { st := .sendStart id, target := some (p + 1) } ∧ EvIs s p .proc [.resume 0] none ∧
      s.proc? 0 = some { st := .runSend id m, target := some p } ∧ EvIs s 0 .proc [] none
  | .T p t m id q => q.ev = t ∧ EvIs s t .timeout [.resume p] (some (.ok .none)) ∧
      s.proc? p = some { st := .sendTx id, target := some t } ∧ EvIs s p .proc [.resume 0] none ∧
      s.proc? 0 = some { st := .runSend id m, target := some p } ∧ EvIs s 0 .proc [] none
  | .F p m id q => q.ev = p ∧ EvIs s p .proc [.resume 0] (some (.ok .none)) ∧
      s.proc? 0 = some { st := .runSend id m, target := some p } ∧ EvIs s 0 .proc [] none

def SrcEv (s : KS) : SPhase → Prop
  | .init q arr => q.ev = 3 ∧ EvIs s 3 (.init 2) [.resume 2] (some (.ok .none)) ∧
      s.proc? 2 = some { st := .src none arr, target := some 3 } ∧ EvIs s 2 .proc [] none
  | .wait id rest q => EvIs s q.ev .timeout [.resume 2] (some (.ok .none)) ∧
      s.proc? 2 = some { st := .src (some id) rest, target := some q.ev } ∧ EvIs s 2 .proc [] none
  | .ending q => q.ev = 2 ∧ EvIs s 2 .proc [] (some (.ok .none))
  | .done => True

/-- the value of a cell that holds a packet id or `None` -/
def optVal : Option Int → Val
  | some id => .int id
  | none => .none

/-- the attribute cells of a configuration (`Q` = the quanta) -/
structure Cells (F : Nat) (Q : Nat → ℚ) (sh : List (Nat × Val)) (a : A) : Prop where
  c0 : lookup sh cRecv = .int a.recv
  c1 : lookup sh cCur = optVal a.cur
  cc : ∀ f, f < F → lookup sh (cCount f) = .int (a.cnt f)
  cb : ∀ f, f < F → lookup sh (cBytes f) = .int (a.byt f)
  cq : ∀ f, f < F → lookup sh (cCls f) = .int (a.ccnt f)
  cd : ∀ f, f < F → lookup sh (cDef f) = TimeCell.enc (a.dfc f)
  ch : ∀ f, f < F → lookup sh (cHol f) = optVal (a.hol f)
  cu : ∀ f, f < F → lookup sh (cQuant f) = TimeCell.enc (Q f)
  cf : ∀ f, f < F → lookup sh (cForf f) = TimeCell.enc (a.forf f)

/-- the kernel state `s` has the configuration `a` -/
structure KInv (F : Nat) (Q : Nat → ℚ) (s : KS) (a : A) : Prop where
  wf : AgendaWF s
  ag : s.agenda.Perm a.entries
  rsz : s.resources.size = F + 1
  tok : s.res 0 = storeRec a.run.getQ (List.replicate a.tokens 1)
  st : ∀ f, f < F → s.res (flowStore f) = storeRec [] (a.items f)
  run : RunEv flow s a.run
  src : SrcEv s a.src
  pend : ∀ u ∈ a.pend, EvIs s u.1.ev (.put u.2) [.trigGet u.2] (some (.ok .none)) ∧ u.2 < F + 1
  nd : a.ids.Nodup
  cells : Cells F Q s.shared a

/-! ## the abstract side: the nested loops of `DRR.run` as a function -/

/-- `sum(queue_count.values())` over flows `f, …, f + n - 1` -/
def sumFrom (c : Nat → Int) : Nat → Nat → Int
  | _, 0 => 0
  | f, n + 1 => c f + sumFrom c (f + 1) n

/-- `total_packets` of a configuration -/
def A.total (F : Nat) (a : A) : Int := sumFrom a.cnt 0 F

/-- what a burst of the loops changes: the credits; and what it lets observe -/
structure LS where
  dfc : Nat → ℚ
  evs : List (HEv ℚ)

/-- how a burst of `DRR.run` ends -/
inductive LoopEnd where
  /-- it calls `stores[c].get()` at entry `m` -/
  | get (m c : Nat)
  /-- it sends packet `id` of class `c` at entry `m`; `pk`: the packet was the parked head of the class -/
  | send (m c : Nat) (id : Int) (pk : Bool)
  /-- `total_packets == 0`: it waits for the wake-up token -/
  | idle
  /-- more than the allowed number of passes without a `yield` -/
  | hang
deriving DecidableEq

section loop
variable (Q : Nat → ℚ) (size : Int → Nat) (ccnt : Nat → Int) (hol : Nat → Option Int) (t : ℚ)

/-- `if count > 0: self.deficit[class_id] += self.quantum[class_id]` -/
def visitAdd (c : Nat) (L : LS) : LS :=
  if 0 < ccnt c then { dfc := upd L.dfc c (L.dfc c + Q c), evs := L.evs ++ [.visit c t] } else L

/-- the inner `while` of entry `m` (class `c`) at its test; `none`: the visit is over, the `for` loop goes on -/
def innerAt (m c : Nat) (L : LS) : LS × Option LoopEnd :=
  if Num.zero < L.dfc c ∧ 0 < ccnt c then
    match hol c with
    | some id =>
      if (Num.ofNat (size id) : ℚ) ≤ L.dfc c then (L, some (.send m c id true))
      else ({ L with evs := L.evs ++ [.park id t] }, none)
    | none => (L, some (.get m c))
  else (L, none)

/-- the `for` loop from entry `m` on (`ws` = the entries still to visit); `none`: it has run to its end -/
def visitFrom : Nat → List (Nat × Nat) → LS → LS × Option LoopEnd
  | _, [], L => (L, none)
  | m, (c, _) :: rest, L =>
    match innerAt size ccnt hol t m c (visitAdd Q ccnt t c L) with
    | (L', some e) => (L', some e)
    | (L', none) => visitFrom (m + 1) rest L'

/-- `run` at `while self.total_packets > 0` with `k` passes allowed -/
def passes (total : Int) (ws : List (Nat × Nat)) : Nat → LS → LS × LoopEnd
  | 0, L => (L, .hang)
  | k + 1, L =>
    if 0 < total then
      match visitFrom Q size ccnt hol t 0 ws L with
      | (L', some e) => (L', e)
      | (L', none) => passes total ws k L'
    else if total = 0 then (L, .idle) else (L, .hang)

/-- the rest of the burst after a piece of the `for` loop -/
def thenPasses (total : Int) (ws : List (Nat × Nat)) (P : Nat) : LS × Option LoopEnd → LS × LoopEnd
  | (L', some e) => (L', e)
  | (L', none) => passes Q size ccnt hol t total ws P L'

end loop

/-- where a burst of `run` starts -/
inductive Entry where
  /-- at `while self.total_packets > 0` (first burst, wake-up) -/
  | top
  /-- with packet `id` taken from the store of entry `m` -/
  | got (m : Nat) (id : Int)
  /-- after the transmission of packet `id` taken at entry `m` -/
  | done (m : Nat) (id : Int)

/-- `self.class_count[c] -= 1; self.deficit[c] -= packet.size; if self.class_count[c] == 0: self.deficit[c] = 0.0` (with the
ghost `forfeited`) -/
def A.book (size : Int → Nat) (a : A) (c : Nat) (id : Int) : A :=
  if a.ccnt c + -1 = 0 then
    { a with ccnt := upd a.ccnt c (a.ccnt c + -1), dfc := upd a.dfc c 0,
             forf := upd a.forf c (a.forf c + (a.dfc c - Num.ofNat (size id))) }
  else { a with ccnt := upd a.ccnt c (a.ccnt c + -1), dfc := upd a.dfc c (a.dfc c - Num.ofNat (size id)) }

/-- the observations of that bookkeeping -/
def bookEvs (a : A) (c : Nat) (id : Int) (t : ℚ) : List (HEv ℚ) :=
  if a.ccnt c + -1 = 0 then [.done id t, .reset c t] else [.done id t]

/-- the result of a burst of `run`: the configuration cells after it, what it lets observe, how it ends -/
structure BurstRes where
  a : A
  evs : List (HEv ℚ)
  fin : LoopEnd

/-- a parked head that is sent leaves `head_of_line` -/
def holAfter (hol : Nat → Option Int) : Option LoopEnd → Nat → Option Int
  | some (.send _ c _ true) => upd hol c none
  | _ => hol

/-- put the result of a piece of the loops back into the configuration: the credits, `head_of_line` -/
def finA (a : A) (L : LS) (oe : Option LoopEnd) : A := { a with dfc := L.dfc, hol := holAfter a.hol oe }

/-- the result of the loops as the result of the burst (`e0` = what the burst lets observe before it enters the loops) -/
def finish (a : A) (e0 : List (HEv ℚ)) (r : LS × LoopEnd) : BurstRes :=
  { a := finA a r.1 (some r.2), evs := e0 ++ r.1.evs, fin := r.2 }

/-- **what a burst of `DRR.run` does to a configuration** (`ws` = `class_count.items()`, `P` = the passes allowed, `t` = now) -/
def A.burst (F : Nat) (Q : Nat → ℚ) (size : Int → Nat) (ws : List (Nat × Nat)) (P : Nat) (t : ℚ) (a : A) : Entry → BurstRes
  | .top => finish a [] (passes Q size a.ccnt a.hol t (a.total F) ws P ⟨a.dfc, []⟩)
  | .got m id =>
    match ws.drop m with
    | (c, _) :: rest =>
      if (Num.ofNat (size id) : ℚ) ≤ a.dfc c then { a := a, evs := [], fin := .send m c id false }
      else
        let a1 : A := { a with hol := upd a.hol c (some id) }
        finish a1 [.park id t] (thenPasses Q size a1.ccnt a1.hol t (a1.total F) ws P
          (visitFrom Q size a1.ccnt a1.hol t (m + 1) rest ⟨a1.dfc, []⟩))
    | [] => { a := a, evs := [], fin := .hang }
  | .done m id =>
    match ws.drop m with
    | (c, _) :: rest =>
      let a1 := a.book size c id
      finish a1 (bookEvs a c id t) (thenPasses Q size a1.ccnt a1.hol t (a1.total F) ws P
        (match innerAt size a1.ccnt a1.hol t m c ⟨a1.dfc, []⟩ with
          | (L', some e) => (L', some e)
          | (L', none) => visitFrom Q size a1.ccnt a1.hol t (m + 1) rest L'))
    | [] => { a := a, evs := [], fin := .hang }

variable (F : Nat) (size : Int → Nat) (cfg : DRR.Cfg ℚ) (Lmax P : Nat)

/-- the quantum of a class (`MIN_QUANTUM` for a class that is not declared: it has none) -/
def qOf (c : Nat) : ℚ := (DRR.quantum cfg c).getD 1500

/-- a packet of the workload: its flow is one of the `F` classes, it has at most `Lmax` bytes -/
def PktOK (id : Int) : Prop := flow id < F ∧ size id ≤ Lmax

/-- gaps are not negative, packets are as above -/
def WorkOK (l : List (ℚ × Int)) : Prop := ∀ x ∈ l, 0 ≤ x.1 ∧ PktOK flow F size Lmax x.2

/-- `weights` names exactly the classes `0 … F-1`, each once, in any order, with positive weights; `flow2class` is the
identity -/
def FlowsOK : Prop := (cfg.weights.map (·.1)).Perm (List.range F) ∧ (∀ e ∈ cfg.weights, 0 < e.2) ∧ cfg.flowMap = none

/-- what the phase of `run` says about the configuration -/
def RunA (a : A) (now : ℚ) : RPhase → Prop
  | .init q => q.time = now ∧ q.prio = URGENT ∧ a.tokens = 0 ∧ a.pend = [] ∧ (∀ f, a.items f = []) ∧ (∀ f, a.cnt f = 0) ∧
      a.cur = none ∧ a.recv = 0 ∧ (∀ f, a.hol f = none)
  | .W _ => (a.tokens = 0 → ∀ f, f < F → a.items f = []) ∧ (a.tokens ≠ 0 → ∃ u, (u, 0) ∈ a.pend) ∧ a.cur = none ∧
      (∀ f, f < F → a.hol f = none)
  | .K _ q => q.time = now ∧ q.prio = NORMAL ∧ a.cur = none ∧ (∀ f, f < F → a.hol f = none)
  | .H _ m id q => q.time = now ∧ q.prio = NORMAL ∧ a.cur = none ∧ PktOK flow F size Lmax id ∧
      (∃ w, cfg.weights[m]? = some (flow id, w)) ∧ a.hol (flow id) = none ∧ 0 < a.dfc (flow id)
  | .S _ m id q => q.time = now ∧ q.prio = URGENT ∧ a.cur = some id ∧ PktOK flow F size Lmax id ∧
      (∃ w, cfg.weights[m]? = some (flow id, w)) ∧ a.hol (flow id) = none ∧ (size id : ℚ) ≤ a.dfc (flow id)
  | .T _ _ m id q => q.prio = NORMAL ∧ a.cur = some id ∧ PktOK flow F size Lmax id ∧
      (∃ w, cfg.weights[m]? = some (flow id, w)) ∧ a.hol (flow id) = none ∧ (size id : ℚ) ≤ a.dfc (flow id)
  | .F _ m id q => q.time = now ∧ q.prio = NORMAL ∧ a.cur = none ∧ PktOK flow F size Lmax id ∧
      (∃ w, cfg.weights[m]? = some (flow id, w)) ∧ a.hol (flow id) = none ∧ (size id : ℚ) ≤ a.dfc (flow id)

def SrcA (now : ℚ) : SPhase → Prop
  | .init q arr => q.time = now ∧ q.prio = URGENT ∧ WorkOK flow F size Lmax arr
  | .wait id rest q => q.prio = NORMAL ∧ PktOK flow F size Lmax id ∧ WorkOK flow F size Lmax rest
  | .ending q => q.time = now ∧ q.prio = NORMAL
  | .done => True

/-- the number of packets of class `f` the server holds (taken from the store, not yet counted out) -/
def heldCnt (a : A) (f : Nat) : Int :=
  match a.run.held with
  | some id => if flow id = f then 1 else 0
  | none => 0

/-- the number of packets of class `f` that have left and are not booked yet -/
def unbookedCnt (a : A) (f : Nat) : Int :=
  match a.run.unbooked with
  | some id => if flow id = f then 1 else 0
  | none => 0

/-- the parked head of class `f` counts as one packet -/
def holCnt (a : A) (f : Nat) : Int := if (a.hol f).isSome then 1 else 0

/-- what holds of a configuration at instant `now` -/
structure AInv (a : A) (now : ℚ) : Prop where
  run : RunA flow F size cfg Lmax a now a.run
  src : SrcA flow F size Lmax now a.src
  pend : ∀ u ∈ a.pend, u.1.time = now ∧ u.1.prio = NORMAL
  due : ∀ x ∈ a.entries, now ≤ x.time
  /-- the counters are exact -/
  cntOK : ∀ f, f < F → a.cnt f = ((a.items f).length : Nat) + holCnt a f + heldCnt flow a f
  ccntOK : ∀ f, f < F → a.ccnt f = a.cnt f + unbookedCnt flow a f
  /-- the packets in `stores[f]` and the parked head of class `f` are packets of flow `f` of at most `Lmax` bytes -/
  flowOK : ∀ f, f < F → ∀ i ∈ a.items f, flow i = f ∧ size i ≤ Lmax
  holOK : ∀ f, f < F → ∀ i, a.hol f = some i → flow i = f ∧ size i ≤ Lmax
  /-- the dict keys are flows; a flow that is not a key yet has empty records -/
  keysOK : (∀ f ∈ a.keys, f < F) ∧ ∀ f, f < F → f ∉ a.keys → a.items f = [] ∧ a.cnt f = 0 ∧ a.byt f = 0
  /-- the credits are not negative -/
  dfcOK : ∀ f, f < F → 0 ≤ a.dfc f
  table : FlowsOK F cfg
  rate : 0 < cfg.rate
  /-- the passes allowed in one burst suffice for packets of `Lmax` bytes -/
  pass : ∃ k, P = k + 1 ∧ Lmax ≤ 1500 * k

/-- number of kernel steps a configuration still needs (an upper bound) -/
def RPhase.mu : RPhase → Nat
  | .init _ => 1
  | .W _ => 0
  | .K _ _ => 1
  | .H _ _ _ _ => 4
  | .S _ _ _ _ => 3
  | .T _ _ _ _ _ => 2
  | .F _ _ _ _ => 1

def SPhase.mu : SPhase → Nat
  | .init _ arr => 10 * arr.length + 2
  | .wait _ rest _ => 10 * rest.length + 11
  | .ending _ => 1
  | .done => 0

/-- the packets waiting in the stores (4 steps each) and parked (3 steps each) of classes `f, …, f + n - 1` -/
def waitingFrom (items : Nat → List Int) (hol : Nat → Option Int) : Nat → Nat → Nat
  | _, 0 => 0
  | f, n + 1 => 4 * (items f).length + (if (hol f).isSome then 3 else 0) + waitingFrom items hol (f + 1) n

def A.mu (F : Nat) (a : A) : Nat := a.run.mu + a.src.mu + a.pend.length + 2 * a.tokens + waitingFrom a.items a.hol 0 F

end DRRK
