import OnlVerif.Lemmas.WireKLts
/-!
# The Wire on the kernel model: every reachable kernel state is the image of an admissible run of the wire's LTS
-/

set_option linter.unusedSimpArgs false

namespace WireK
open WireOnK QEntry
open TimerK (lookup dec_enc)

variable {cfg : WireCfg ℚ} {losses delays : List ℚ} {arrivals : List ℚ}
variable {s : KS} {a : A} {q : QEntry ℚ} {rest : List (QEntry ℚ)}

/-- **one kernel step**: it is `.ok`, keeps the invariant, reports the packets that left, and is a sequence of actions the
wire's LTS accepts from `toF a` to `toF a'`, whatever the ghost values -/
theorem inv_step_lts (fuel : Nat) (h : Inv cfg losses delays arrivals s a) (hp : popMin s.agenda = some (q, rest)) :
    ∃ s' a' new lf ins, step (body cfg losses delays) (fuel + 1) s = .ok s' ∧ Inv cfg losses delays arrivals s' a' ∧
      outsOf s'.trace = outsOf s.trace ++ new ∧ leftsOf s'.trace = leftsOf s.trace ++ lf ∧
      List.range a'.cts.length = List.range a.cts.length ++ ins ∧
      ∀ gh, ∃ gh' acts, Fifo.runActs (Wire.dev cfg) (toF a s.now gh) acts = .ok (toF a' s'.now gh', ins, lf.map Int.toNat) := by
  obtain ⟨s', a', new, lf, h1, h2, h3, h4, h5, h6⟩ := kstep fuel h.k h.a hp
  have hmin := (isMin_of_pop h.k hp).1
  obtain ⟨g1, -⟩ := astep_sound h.a hmin h3
  obtain ⟨ins, g3, g4⟩ := lts_step (h.a.advance hmin) hmin h3
  refine ⟨s', a', new, lf, ins, h1, ⟨h2, by rw [h4, h5]; exact g1⟩, h5, h6, g4, ?_⟩
  intro gh
  obtain ⟨acts0, h0⟩ := lts_advance h.a hmin gh
  obtain ⟨gh', acts, h7⟩ := g3 gh
  refine ⟨gh', acts0 ++ acts, ?_⟩
  rw [h4]
  have := PortK.runActs_append _ _ _ _ _ _ _ _ _ _ h0 h7
  simpa using this

theorem toF_a0 (arrivals : List ℚ) : toF (a0 arrivals) 0 (Wire.st0 0) = Fifo.init (Wire.st0 0) 0 := rfl

/-- **every state reachable by kernel steps is a sound configuration, and the run so far is an admissible run of the
wire's LTS** from its initial state to the configuration's LTS state (with some ghost values), in which the packets that
entered are `0 … packets_rec - 1` and the packets that left are those the trace reports, in order -/
theorem reach_inv (fuel : Nat) (hg : GapsOK arrivals) {s : KS}
    (h : KReach (body cfg losses delays) (fuel + 1) (initState arrivals) s) :
    ∃ a acts gh, Inv cfg losses delays arrivals s a ∧
      Fifo.runActs (Wire.dev cfg) (Fifo.init (Wire.st0 0) 0) acts =
        .ok (toF a s.now gh, List.range a.cts.length, (leftsOf s.trace).map Int.toNat) := by
  induction h with
  | init =>
    refine ⟨a0 arrivals, [], Wire.st0 0, inv_init arrivals hg, ?_⟩
    have hn : (initState arrivals : KS).now = 0 := by
      simp [initState, doCall, KState.newLabelled, KState.newEv, KState.setProc, KState.schedule, zero_eq']
    have ht : (initState arrivals : KS).trace = #[] := by
      simp [initState, doCall, KState.newLabelled, KState.newEv, KState.setProc, KState.schedule]
    rw [hn, ht, toF_a0]
    rfl
  | @step s s' _ hs ih =>
    obtain ⟨a, acts, gh, hi, hrun⟩ := ih
    cases hp : popMin s.agenda with
    | none => simp [step, hp, StepResult.state?] at hs
    | some qr =>
      obtain ⟨q, rest⟩ := qr
      obtain ⟨s'', a', new, lf, ins, h1, h2, -, h4, h5, h6⟩ := inv_step_lts fuel hi hp
      rw [h1] at hs
      simp only [StepResult.state?, Option.some.injEq] at hs
      subst hs
      obtain ⟨gh', acts', h7⟩ := h6 gh
      refine ⟨a', acts ++ acts', gh', h2, ?_⟩
      have := PortK.runActs_append _ _ _ _ _ _ _ _ _ _ hrun h7
      rw [this, h5, h4]
      simp

/-! ## the abstraction function -/

theorem cellVal_eq (k : Nat) : cellVal s k = lookup s.shared k := rfl

/-- **the abstraction function reads the configuration's LTS state off the kernel state** (up to the ghost fields) -/
theorem absWire_eq (h : Inv cfg losses delays arrivals s a) (gh : WireSt ℚ) : setGhost (absWire s) gh = toF a s.now gh := by
  have hk := h.k
  have hrec : recCell s = a.cts.length := by
    unfold recCell
    rw [cellVal_eq, show cRec = 0 from rfl, hk.c0]
    exact Int.toNat_natCast _
  have hct : ∀ id : Int, id.toNat < a.cts.length → ctCell s id = a.ctOf id := by
    intro id hid
    unfold ctCell
    rw [cellVal_eq, show cPkt id = 10 + id.toNat from rfl, hk.ct _ hid, dec_enc]
    rfl
  have hitems : ((s.res storeId).items.map fun i => pktOf (ctCell s i) i) = a.items.map a.pkt := by
    have : (s.res storeId).items = a.items := by show (s.res 0).items = a.items; rw [hk.res]; rfl
    rw [this]
    apply List.map_congr_left
    intro i hi
    unfold A.pkt
    rw [hct i (h.a.its i hi).2.1]
  have hpk := hk.wire
  have hpa := h.a.wire
  unfold absWire setGhost toF
  cases hwire : a.wire with
  | init q0 =>
    rw [hwire] at hpk
    simp [wireProc, hpk.2.2, hrec, hitems]
  | W g t0 nl nd =>
    rw [hwire] at hpk
    simp [wireProc, hpk.2, hpk.1.2.2, hrec, hitems]
  | H g id q0 t0 nl nd =>
    rw [hwire] at hpk hpa
    simp [wireProc, hpk.2.2, hpk.2.1.2.2, hrec, hitems, A.pkt, hct id hpa.2.2.2.2]
  | T t id q0 nl nd =>
    rw [hwire] at hpk hpa
    simp [wireProc, hpk.2.2, hrec, hitems, A.pkt, hct id hpa.2.2]

end WireK
