import OnlVerif.Lemmas.OnceRun
/-!
# Condition events, globally: definitions

* `ops`, `isAll`: operand list and kind (`all_of` / `any_of`) of a condition event.
* `Under s d c`: `d` is `c` itself or nested below it (operand of an operand …).
* `Built rem s c`: `Condition._build_value` of `c` has run (`c` is processed and its `build` callback is not among the
  callbacks still to run); `Gone rem s d`: `d` lies under a built condition — `_remove_check_callbacks` has detached it.
* `CInv rem e0 s`: the counting invariant, parametrised by the ghost of the "exactly once" engine (`Once.Ghost`): the
  callbacks `rem` of the event `e0` being processed that have not run yet.
* `Fr s s'`: the frame — what every transformer of the model that is not condition code does to the data the
  invariant looks at; `Mono rem s s'`: what *every* transformer guarantees (outcomes frozen, detached stays pending).
* `DomCall … DomRun`: the additional domain hypothesis (DESIGN §3): user code does not `succeed()/fail()` a pending
  condition event, and the operands handed to a condition exist.  Together with `Once.SafeRun` this is `Cond.SafeRun`.
-/

namespace Cond
variable {σ : Type}

/-- the operand list of a condition (`[]` for any other event) -/
def ops (s : KState ℚ σ) (c : EvId) : List EvId := (condOps s c).2
/-- `true` for `all_of`, `false` for `any_of` -/
def isAll (s : KState ℚ σ) (c : EvId) : Bool := (condOps s c).1

/-- `d` is `c` or nested below `c` -/
inductive Under (s : KState ℚ σ) : EvId → EvId → Prop
  | self (d : EvId) : Under s d d
  | nest {d e c : EvId} : e ∈ ops s c → Under s d e → Under s d c

/-- `_build_value` of condition `c` has run -/
def Built (rem : List Cb) (s : KState ℚ σ) (c : EvId) : Prop :=
  isCond s c = true ∧ (s.ev c).cbs = none ∧ Cb.build c ∉ rem

/-- `d` has been detached: it lies under a condition whose value has been built -/
def Gone (rem : List Cb) (s : KState ℚ σ) (d : EvId) : Prop := ∃ a, Under s d a ∧ Built rem s a

/-- number of operand positions whose event is processed -/
def nProcessed (s : KState ℚ σ) (c : EvId) : Nat := (ops s c).countP (fun e => s.processed e)

/-- **the counting invariant** (ghost: the callbacks `rem` of the event `e0` being processed are still to run) -/
structure CInv (rem : List Cb) (e0 : EvId) (s : KState ℚ σ) : Prop where
  /-- operands are older than their condition -/
  older : ∀ c e, e ∈ ops s c → e < c
  /-- `_check` of an attached condition sits in the callbacks of every unprocessed event once per operand position -/
  chk_att : ∀ c, ¬ Gone rem s c → ∀ e L, (s.ev e).cbs = some L → L.count (.check c) = (ops s c).count e
  /-- nothing of a detached condition is left anywhere -/
  chk_gone : ∀ c, Gone rem s c → ∀ e L, (s.ev e).cbs = some L → Cb.check c ∉ L
  rem_att : ∀ c, Cb.check c ∈ rem → e0 ∈ ops s c
  rem_gone : ∀ c, Gone rem s c → Cb.check c ∉ rem
  bld_own : ∀ e L c, (s.ev e).cbs = some L → Cb.build c ∈ L → e = c ∧ ops s c ≠ []
  bld_cnt : ∀ c L, (s.ev c).cbs = some L → ops s c ≠ [] → L.count (.build c) = 1
  rem_bld_own : ∀ c, Cb.build c ∈ rem → c = e0 ∧ ops s c ≠ []
  rem_bld_cnt : ∀ c, rem.count (.build c) ≤ 1
  /-- the event whose callbacks are running exists and is processed -/
  e0_done : rem ≠ [] → e0 < s.events.size ∧ (s.ev e0).cbs = none
  /-- `_count` plus the checks still to run = number of processed operand positions -/
  cnt : ∀ c, isCond s c = true → (s.ev c).out = none → ¬ Gone rem s c →
    (s.ev c).count + rem.count (.check c) = nProcessed s c
  /-- no processed operand of a pending condition has failed (except the one whose check is about to run) -/
  nofail : ∀ c, isCond s c = true → (s.ev c).out = none → ¬ Gone rem s c →
    ∀ e ∈ ops s c, s.processed e = true → ∀ x, (s.ev e).out = some (.fail x) → e = e0 ∧ Cb.check c ∈ rem
  /-- the predicate of a pending condition is false on its count -/
  unmet : ∀ c, isCond s c = true → (s.ev c).out = none → evaluate (isAll s c) (ops s c).length (s.ev c).count = false
  /-- a condition that succeeded: its predicate holds over the processed operands -/
  met : ∀ c v, isCond s c = true → (s.ev c).out = some (.ok v) →
    evaluate (isAll s c) (ops s c).length (nProcessed s c) = true
  /-- a condition that failed: one of its processed operands failed with that exception and has been defused -/
  failsrc : ∀ c x, isCond s c = true → (s.ev c).out = some (.fail x) →
    ∃ e ∈ ops s c, s.processed e = true ∧ (s.ev e).out = some (.fail x) ∧ (s.ev e).defused = true

/-- a callback that is not condition bookkeeping -/
def plainCb : Cb → Bool
  | .check _ => false
  | .build _ => false
  | _ => true

/-- **the frame**: what code other than `Condition.__init__/_check/_build_value` does -/
structure Fr (s s' : KState ℚ σ) : Prop where
  size_le : s.events.size ≤ s'.events.size
  kind : ∀ e, e < s.events.size → (s'.ev e).kind = (s.ev e).kind
  cbsNone : ∀ e, e < s.events.size → ((s'.ev e).cbs = none ↔ (s.ev e).cbs = none)
  cbsCount : ∀ e L L', e < s.events.size → (s.ev e).cbs = some L → (s'.ev e).cbs = some L' →
    ∀ cb, plainCb cb = false → L'.count cb = L.count cb
  out : ∀ e o, (s.ev e).out = some o → (s'.ev e).out = some o
  outC : ∀ c, isCond s c = true → (s'.ev c).out = (s.ev c).out
  count : ∀ e, e < s.events.size → (s'.ev e).count = (s.ev e).count
  defused : ∀ e, e < s.events.size → (s.ev e).defused = true → (s'.ev e).defused = true
  fresh : ∀ e, s.events.size ≤ e → e < s'.events.size →
    isCond s' e = false ∧ ∃ L, (s'.ev e).cbs = some L ∧ ∀ cb ∈ L, plainCb cb = true

/-- what every transformer guarantees, condition code included -/
structure Mono (rem : List Cb) (s s' : KState ℚ σ) : Prop where
  /-- an outcome, once set, stays — except that `_build_value` replaces the value of its own condition -/
  out : ∀ e o, (s.ev e).out = some o → (s'.ev e).out = some o ∨
    (Cb.build e ∈ rem ∧ ∃ v w, o = .ok v ∧ (s'.ev e).out = some (.ok w))
  /-- …and never disappears -/
  keep : ∀ e, (s.ev e).out ≠ none → (s'.ev e).out ≠ none
  /-- `_count` of a triggered event does not move any more -/
  count : ∀ e, (s.ev e).out ≠ none → (s'.ev e).count = (s.ev e).count
  /-- a detached pending condition stays pending -/
  frozen : ∀ c, isCond s c = true → (s.ev c).out = none → Gone rem s c → (s'.ev c).out = none

/-! ## the domain hypothesis -/

/-- user code does not trigger a pending condition by hand, and hands only existing events to a condition -/
def DomCall (s : KState ℚ σ) : Call ℚ σ → Prop
  | .succeed e _ => s.triggered e = true ∨ isCond s e = false
  | .fail e _ => s.triggered e = true ∨ isCond s e = false
  | .cond _ l => ∀ e ∈ l, e < s.events.size
  | _ => True

def DomBurst (self : EvId) : Burst ℚ σ → KState ℚ σ → Prop
  | .call c k, s => DomCall s c ∧ DomBurst self (k (doCall s self c).2) (noteErr self (doCall s self c))
  | .yield _ _, _ => True
  | .ret _, _ => True
  | .raise _, _ => True

/-- mirrors `resume` -/
def DomResume (body : σ → Resume → Burst ℚ σ) (p : EvId) : Nat → EvId → KState ℚ σ → Prop
  | 0, _, _ => True
  | fuel + 1, e, s =>
    match s.proc? p with
    | none => True
    | some pr =>
      DomBurst p (body pr.st (deliver s p e).2) ((deliver s p e).1.emit (.resumed p (deliver s p e).2 (deliver s p e).1.now)) ∧
      match (runBurst p (body pr.st (deliver s p e).2)
          ((deliver s p e).1.emit (.resumed p (deliver s p e).2 (deliver s p e).1.now))).2 with
      | .yielded e' st' =>
        match register ((runBurst p (body pr.st (deliver s p e).2)
            ((deliver s p e).1.emit (.resumed p (deliver s p e).2 (deliver s p e).1.now))).1.setProc p
              { st := st', target := some e' }) p e' with
        | some _ => True
        | none => DomResume body p fuel e' ((runBurst p (body pr.st (deliver s p e).2)
            ((deliver s p e).1.emit (.resumed p (deliver s p e).2 (deliver s p e).1.now))).1.setProc p
              { st := st', target := some e' })
      | _ => True

/-- mirrors `deliverInterrupt` -/
def DomIntr (body : σ → Resume → Burst ℚ σ) (fuel : Nat) (iv p : EvId) (s : KState ℚ σ) : Prop :=
  if s.triggered p then True else
  match s.proc? p with
  | none => True
  | some pr =>
    match pr.target with
    | some t => DomResume body p fuel iv (s.eraseCb t (.resume p))
    | none => DomResume body p fuel iv s

/-- mirrors `runCb` -/
def DomCb (body : σ → Resume → Burst ℚ σ) (fuel : Nat) (e : EvId) (s : KState ℚ σ) : Cb → Prop
  | .resume p => DomResume body p fuel e s
  | .intr iv =>
    match (s.ev iv).kind with
    | .intr p => DomIntr body fuel iv p s
    | _ => True
  | _ => True

def DomCbs (body : σ → Resume → Burst ℚ σ) (fuel : Nat) (e : EvId) : List Cb → LoopSt ℚ σ → Prop
  | [], _ => True
  | cb :: cbs, l => DomCb body fuel e l.s cb ∧ DomCbs body fuel e cbs (runCb body fuel e l cb)

def DomStep (body : σ → Resume → Burst ℚ σ) (fuel : Nat) (s : KState ℚ σ) : Prop :=
  match popMin s.agenda with
  | none => True
  | some (q, rest) =>
    match (s.ev q.ev).cbs with
    | none => True
    | some cbs => DomCbs body fuel q.ev cbs { s := openEvent s q rest }

def DomRun (body : σ → Resume → Burst ℚ σ) (fuel : Nat) (s0 : KState ℚ σ) : Prop :=
  ∀ s, KReach body fuel s0 s → DomStep body fuel s

/-- **the domain of the global condition theorems**: the run executes only safe `succeed/fail/yield`
(`Once.SafeRun`), never triggers a pending condition by hand, and builds conditions over existing events -/
def SafeRun (body : σ → Resume → Burst ℚ σ) (fuel : Nat) (s0 : KState ℚ σ) : Prop :=
  Once.SafeRun body fuel s0 ∧ DomRun body fuel s0

/-- a sufficient condition on the program text -/
def DomProg (body : σ → Resume → Burst ℚ σ) : Prop :=
  ∀ (p : EvId) (st : σ) (r : Resume) (s : KState ℚ σ), DomBurst p (body st r) s

/-- the invariant between two steps -/
def Inv0 (s : KState ℚ σ) : Prop := CInv [] 0 s

end Cond
