import OnlVerif.Lemmas.TcpLiveTMeasure
/-!
# Every step over paths with delay decreases the measure `tmu` (C16)
-/

open TcpScalar TcpSender TcpSink TcpLoop Sender

namespace TcpLive

variable {n : Nat} {L L' : TLoop ℚ}

/-- stage and target depend only on the two paths, the timers and `last_ack` -/
theorem target_congr (ha : L'.l.acks = L.l.acks) (haT : L'.aT = L.aT) (hd : L'.l.data = L.l.data) (hdT : L'.dT = L.dT)
    (hT : L'.l.snd.timers = L.l.snd.timers) (hP : L'.l.snd.last_ack = L.l.snd.last_ack) :
    target L' = target L ∧ (NewAck L' ↔ NewAck L) ∧ (DataP L' ↔ DataP L) := by
  have hN : NewAck L' ↔ NewAck L := by unfold NewAck; rw [ha, hP]
  have hD : DataP L' ↔ DataP L := by unfold DataP; rw [hd, hP]
  refine ⟨?_, hN, hD⟩
  by_cases h1 : NewAck L
  · rw [target_new h1, target_new (hN.mpr h1), ha, haT, hP]
  · have h1' : ¬ NewAck L' := fun c => h1 (hN.mp c)
    by_cases h2 : DataP L
    · rw [target_data h1 h2, target_data h1' (hD.mpr h2), hd, hdT, hP]
    · have h2' : ¬ DataP L' := fun c => h2 (hD.mp c)
      rw [target_none h1 h2, target_none h1' h2', hT, hP]

/-- nothing relevant changed except the pending work of `run` -/
theorem tdecr_quiet (hA : muA n L'.l = muA n L.l) (hW : muW L'.l < muW L.l)
    (ha : L'.l.acks = L.l.acks) (haT : L'.aT = L.aT) (hd : L'.l.data = L.l.data) (hdT : L'.dT = L.dT)
    (hT : L'.l.snd.timers = L.l.snd.timers) (hP : L'.l.snd.last_ack = L.l.snd.last_ack)
    (hn : L'.l.snd.now = L.l.snd.now) (hr : L'.l.snd.est.rto = L.l.snd.est.rto) : Lt5 (tmu n L') (tmu n L) := by
  obtain ⟨hτ, hN, hD⟩ := target_congr ha haT hd hdT hT hP
  obtain ⟨e2, e3⟩ := tGV_congr hN (fun _ => hD) hτ hT hP hn hr
  rw [lt5_iff]
  simp only [tmu]
  omega

theorem ts_nil {dT ts : List ℚ} {k : Nat} (h1 : dT.length + ts.length = k) (h2 : dT.length = k) : ts = [] := by
  apply List.eq_nil_of_length_eq_zero
  omega

/-! ## `run` resumes; a token is handed over -/

theorem tdecr_wake {fuel : Nat} {l' : Loop ℚ} {ts : List ℚ} (h : TInv n L)
    (hs : L.l.step (.own (.wake fuel)) = some l') (hlen : L.dT.length + ts.length = l'.data.length) :
    Lt5 (tmu n { l := l', dT := L.dT ++ ts, aT := L.aT }) (tmu n L) := by
  obtain ⟨s', outs, _, hst, f1, f2, f3, f4⟩ := own_step hs
  obtain ⟨hp, w⟩ := wake_spec h.inv.s hst
  by_cases ho : outs = []
  · subst ho
    rw [List.append_nil] at f3
    have hts : ts = [] := ts_nil hlen (by rw [f3]; exact h.dlen)
    subst hts
    have hns : s'.next_seq = L.l.snd.next_seq := by simpa using w.next_seq
    apply tdecr_quiet
    · show muA n l' = _
      unfold muA
      rw [f1, f2, w.last_ack, hns]
    · show muW l' < _
      unfold muW
      rw [f1, f3, f4, w.last_ack]
      have := w.procm hp
      unfold pm
      rw [hp]
      simp only [if_true]
      omega
    · exact f4
    · rfl
    · exact f3
    · exact List.append_nil _
    · show l'.snd.timers = _
      rw [f1]; exact w.quiet rfl
    · show l'.snd.last_ack = _
      rw [f1]; exact w.last_ack
    · show l'.snd.now = _
      rw [f1]; exact w.now
    · show l'.snd.est.rto = _
      rw [f1, w.est]
  · rw [lt5_iff]
    left
    have hlen' : 0 < outs.length * L.l.snd.mss := Nat.mul_pos (List.length_pos_iff.mpr ho) h.inv.s.mpos
    have := w.sinv.ns_le
    have := w.next_seq
    simp only [tmu]
    unfold muA
    rw [f1, f2, w.last_ack]
    omega

theorem tdecr_handoff {l' : Loop ℚ} {ts : List ℚ} (h : TInv n L)
    (hs : L.l.step (.own .handoff) = some l') (hlen : L.dT.length + ts.length = l'.data.length) :
    Lt5 (tmu n { l := l', dT := L.dT ++ ts, aT := L.aT }) (tmu n L) := by
  obtain ⟨s', outs, _, hst, f1, f2, f3, f4⟩ := own_step hs
  obtain ⟨hb, htok, rfl, rfl⟩ := handoff_spec hst
  rw [List.append_nil] at f3
  have hts : ts = [] := ts_nil hlen (by rw [f3]; exact h.dlen)
  subst hts
  apply tdecr_quiet
  · show muA n l' = _
    unfold muA
    rw [f1, f2]
  · show muW l' < _
    unfold muW
    rw [f1, f3, f4]
    unfold pm
    show _ + (2 * (L.l.snd.tokens - 1) + if Proc.runnable = Proc.runnable then 1 else 0) < _
    rw [hb]
    simp
    omega
  · exact f4
  · rfl
  · exact f3
  · exact List.append_nil _
  · show l'.snd.timers = _
    rw [f1]
  · show l'.snd.last_ack = _
    rw [f1]
  · show l'.snd.now = _
    rw [f1]
  · show l'.snd.est.rto = _
    rw [f1]

/-! ## a retransmission timer expires (possibly while packets are in flight) -/

theorem tdecr_fire {q : Nat} {l' : Loop ℚ} {ts : List ℚ} (h : TInv n L)
    (hs : L.l.step (.own (.fire q)) = some l') (hlen : L.dT.length + ts.length = l'.data.length) :
    Lt5 (tmu n { l := l', dT := L.dT ++ ts, aT := L.aT }) (tmu n L) := by
  obtain ⟨s', outs, _, hst, f1, f2, f3, f4⟩ := own_step hs
  obtain ⟨tr, S, ht, _, hwake, _, _, rfl, rfl⟩ := fire_spec h.inv.s.inv hst
  obtain ⟨nt, hnt⟩ : ∃ nt : TimerRec ℚ, nt =
      { expiry := L.l.snd.now + L.l.snd.est.rto * 2, wake := L.l.snd.now + L.l.snd.est.rto * 2, live := true } := ⟨_, rfl⟩
  have hntw : nt.wake = L.l.snd.now + L.l.snd.est.rto * 2 := by rw [hnt]
  rw [← hnt] at f1
  clear hst hnt
  have hrto := h.inv.s.inv.rto_pos
  obtain ⟨t0, rfl⟩ : ∃ t0, ts = [t0] := by
    apply List.length_eq_one_iff.mp
    rw [f3, List.length_append, ← h.dlen] at hlen
    simpa using hlen
  have hA : muA n l' = muA n L.l := by
    unfold muA
    rw [f1, f2]
  have hP' : l'.snd.last_ack = L.l.snd.last_ack := by rw [f1]
  have hN : NewAck { l := l', dT := L.dT ++ [t0], aT := L.aT } ↔ NewAck L := by
    unfold NewAck
    show (∃ a ∈ l'.acks, l'.snd.last_ack < a.ackno) ↔ _
    rw [f4, hP']
  rw [lt5_iff]
  by_cases h1 : NewAck L
  · have h1' := hN.mpr h1
    have hτ : target { l := l', dT := L.dT ++ [t0], aT := L.aT } = target L := by
      rw [target_new h1, target_new h1']
      show firstT (fun a : AckIn ℚ => l'.snd.last_ack < a.ackno) l'.acks L.aT = _
      rw [f4, hP']
    have hnow := now_le_target h (Or.inr (Or.inl h1))
    have hV : tV { l := l', dT := L.dT ++ [t0], aT := L.aT } < tV L := by
      unfold tV
      rw [hτ, if_pos (Or.inl h1), if_pos (Or.inl h1')]
      show need (target L) l'.snd.now l'.snd.est.rto + cntAll l'.snd.timers (target L) < _
      rw [f1]
      exact fire_V_all ht hwake hnow hntw hrto
    have := tG_zero h1
    have := tG_zero h1'
    simp only [tmu]
    omega
  · have h1' : ¬ NewAck { l := l', dT := L.dT ++ [t0], aT := L.aT } := fun c => h1 (hN.mp c)
    by_cases h2 : DataP L
    · have h2' : DataP { l := l', dT := L.dT ++ [t0], aT := L.aT } := by
        obtain ⟨tx, htx, e⟩ := h2
        exact ⟨tx, by show tx ∈ l'.data; rw [f3]; exact List.mem_append_left _ htx, by show tx.seq = l'.snd.last_ack; rw [hP']; exact e⟩
      have hτ : target { l := l', dT := L.dT ++ [t0], aT := L.aT } = target L := by
        rw [target_data h1 h2, target_data h1' h2']
        show firstT (fun tx : Tx ℚ => tx.seq = l'.snd.last_ack) l'.data (L.dT ++ [t0]) = _
        rw [f3, hP']
        exact firstT_append _ _ _ h.dlen h2
      have hnow := now_le_target h (Or.inr (Or.inr h2))
      have hV : tV { l := l', dT := L.dT ++ [t0], aT := L.aT } < tV L := by
        unfold tV
        rw [hτ, if_pos (Or.inr h2), if_pos (Or.inr h2')]
        show need (target L) l'.snd.now l'.snd.est.rto + cntAll l'.snd.timers (target L) < _
        rw [f1]
        exact fire_V_all ht hwake hnow hntw hrto
      have := tG_one h1 h2
      have := tG_one h1' h2'
      simp only [tmu]
      omega
    · by_cases hq : q = L.l.snd.last_ack
      · have h2' : DataP { l := l', dT := L.dT ++ [t0], aT := L.aT } := by
          refine ⟨{ seq := q, size := L.l.snd.mss, stamp := L.l.snd.now, kind := .resend }, ?_, ?_⟩
          · show _ ∈ l'.data
            rw [f3]
            exact List.mem_append_right _ (List.mem_singleton.mpr rfl)
          · show q = l'.snd.last_ack
            rw [hP']; exact hq
        have := tG_two h1 h2
        have := tG_one h1' h2'
        simp only [tmu]
        omega
      · have h2' : ¬ DataP { l := l', dT := L.dT ++ [t0], aT := L.aT } := by
          rintro ⟨tx, htx, e⟩
          have htx' : tx ∈ l'.data := htx
          have e' : tx.seq = l'.snd.last_ack := e
          rw [f3] at htx'
          rw [hP'] at e'
          rcases List.mem_append.mp htx' with c | c
          · exact h2 ⟨tx, c, e'⟩
          · simp only [List.mem_singleton] at c
            subst c
            exact hq e'
        have hqk : q ∈ AL.keys L.l.snd.timers := AL.mem_of_get?_some ht
        have hPk : L.l.snd.last_ack ∈ AL.keys L.l.snd.timers := by
          apply h.inv.s.tm
          have := h.inv.s.tge q hqk
          have := (h.inv.s.tk q hqk).2
          omega
        have hτ : target { l := l', dT := L.dT ++ [t0], aT := L.aT } = target L := by
          rw [target_none h1 h2, target_none h1' h2']
          show wakeOf l'.snd.timers l'.snd.last_ack = _
          rw [f1]
          show wakeOf (AL.set q nt L.l.snd.timers) L.l.snd.last_ack = _
          unfold wakeOf
          rw [AL.get?_set_ne _ _ (Ne.symm hq)]
        have hnow := now_le_target h (Or.inl hPk)
        have hV : tV { l := l', dT := L.dT ++ [t0], aT := L.aT } < tV L := by
          unfold tV
          rw [hτ, if_neg (not_or.mpr ⟨h1, h2⟩), if_neg (not_or.mpr ⟨h1', h2'⟩)]
          show need (target L) l'.snd.now l'.snd.est.rto + cnt l'.snd.timers l'.snd.last_ack (target L) < _
          rw [f1]
          exact fire_V_P ht hq hwake hnow hntw hrto
        have := tG_two h1 h2
        have := tG_two h1' h2'
        simp only [tmu]
        omega

/-! ## the clock advances to the next event instant -/

theorem tG_congr (hN : NewAck L' ↔ NewAck L) (hD : DataP L' ↔ DataP L) : tG L' = tG L := by
  unfold tG
  by_cases h1 : NewAck L
  · rw [if_pos h1, if_pos (hN.mpr h1)]
  · rw [if_neg h1, if_neg (fun c => h1 (hN.mp c))]
    by_cases h2 : DataP L
    · rw [if_pos h2, if_pos (hD.mpr h2)]
    · rw [if_neg h2, if_neg (fun c => h2 (hD.mp c))]

theorem dueL_zero {ds : List ℚ} {now t : ℚ} (hlt : now < t) (hd : ∀ d ∈ ds, t ≤ d) : dueL ds now = 0 := by
  unfold dueL
  rw [List.countP_eq_zero]
  intro d hdm
  have := hd d hdm
  simp only [decide_eq_true_eq, not_le]
  linarith

theorem tdecr_tick {t : ℚ} {l' : Loop ℚ} (h : TInv n L) (hs : L.l.step (.own (.tick t)) = some l')
    (hlt : L.l.snd.now < t) (hd : ∀ d ∈ L.dT, t ≤ d) (ha : ∀ d ∈ L.aT, t ≤ d) (hev : L.EventAt t) :
    Lt5 (tmu n { l := l', dT := L.dT, aT := L.aT }) (tmu n L) := by
  obtain ⟨s', outs, _, hst, f1, f2, f3, f4⟩ := own_step hs
  obtain ⟨_, _, _, hov, rfl, rfl⟩ := tick_spec hst
  rw [List.append_nil] at f3
  have hrto := h.inv.s.inv.rto_pos
  have hA : muA n l' = muA n L.l := by
    unfold muA
    rw [f1, f2]
  obtain ⟨hτ, hN, hD⟩ := target_congr (L' := { l := l', dT := L.dT, aT := L.aT }) (L := L) f4 rfl f3 rfl
    (by show l'.snd.timers = _; rw [f1]) (by show l'.snd.last_ack = _; rw [f1])
  have hG := tG_congr hN hD
  have hV : tV { l := l', dT := L.dT, aT := L.aT } ≤ tV L := by
    unfold tV
    rw [hτ]
    have hm := need_mono_now (target L) L.l.snd.now t L.l.snd.est.rto hrto hlt.le
    by_cases hc : NewAck L ∨ DataP L
    · have hc' : NewAck { l := l', dT := L.dT, aT := L.aT } ∨ DataP { l := l', dT := L.dT, aT := L.aT } :=
        hc.imp hN.mpr hD.mpr
      rw [if_pos hc, if_pos hc']
      show need (target L) l'.snd.now l'.snd.est.rto + cntAll l'.snd.timers (target L) ≤ _
      rw [f1]
      dsimp only
      omega
    · have hc' : ¬ (NewAck { l := l', dT := L.dT, aT := L.aT } ∨ DataP { l := l', dT := L.dT, aT := L.aT }) :=
        fun c => hc (c.imp hN.mp hD.mp)
      rw [if_neg hc, if_neg hc']
      show need (target L) l'.snd.now l'.snd.est.rto + cnt l'.snd.timers l'.snd.last_ack (target L) ≤ _
      rw [f1]
      dsimp only
      omega
  have hW : muW l' = muW L.l := by
    unfold muW
    rw [f1, f3, f4]
    rfl
  have hge : ∀ kv ∈ L.l.snd.timers, t ≤ kv.2.wake := by
    intro kv hkv
    have a := (h.inv.s.live kv hkv).1
    unfold Sender.overdue at hov
    have := (List.any_eq_false.mp hov) kv hkv
    simp only [a, Bool.true_and, decide_eq_true_eq] at this
    exact not_lt.mp this
  have hC : tC { l := l', dT := L.dT, aT := L.aT } < tC L := by
    unfold tC
    show 2 * (fut l'.snd.timers l'.snd.now + futL L.dT l'.snd.now + futL L.aT l'.snd.now) +
      (due l'.snd.timers l'.snd.now + dueL L.dT l'.snd.now + dueL L.aT l'.snd.now) < _
    rw [f1]
    dsimp only
    have a1 := fut_add_due L.l.snd.timers L.l.snd.now
    have a2 := fut_add_due L.l.snd.timers t
    have b1 := futL_add_dueL L.dT L.l.snd.now
    have b2 := futL_add_dueL L.dT t
    have c1 := futL_add_dueL L.aT L.l.snd.now
    have c2 := futL_add_dueL L.aT t
    have d0 : due L.l.snd.timers L.l.snd.now = 0 := by
      unfold due
      rw [List.countP_eq_zero]
      intro kv hkv
      have := hge kv hkv
      simp only [decide_eq_true_eq, not_le]
      linarith
    have d1 := dueL_zero hlt hd
    have d2 := dueL_zero hlt ha
    have pos : 0 < due L.l.snd.timers t + dueL L.dT t + dueL L.aT t := by
      rcases hev with ⟨kv, hkv, _, he⟩ | ⟨d, hdm, he⟩ | ⟨d, hdm, he⟩
      · have : 0 < due L.l.snd.timers t := by
          unfold due
          rw [List.countP_pos_iff]
          exact ⟨kv, hkv, by simp [(eqb_iff _ _).mp he]⟩
        omega
      · have : 0 < dueL L.dT t := by
          unfold dueL
          rw [List.countP_pos_iff]
          exact ⟨d, hdm, by simp [(eqb_iff _ _).mp he]⟩
        omega
      · have : 0 < dueL L.aT t := by
          unfold dueL
          rw [List.countP_pos_iff]
          exact ⟨d, hdm, by simp [(eqb_iff _ _).mp he]⟩
        omega
    omega
  rw [lt5_iff]
  simp only [tmu]
  omega

/-! ## the head of the data path reaches the sink -/

theorem tG_pos (h1 : ¬ NewAck L) : 0 < tG L := by
  unfold tG
  rw [if_neg h1]
  split_ifs <;> omega

theorem tdecr_deliver {t : ℚ} {l' : Loop ℚ} (h : TInv n L) (hs : L.l.step .deliver = some l') :
    Lt5 (tmu n { l := l', dT := L.dT.tail, aT := L.aT ++ [t] }) (tmu n L) := by
  have h' := LInv_step h.inv hs
  obtain ⟨tx, rest, p, hd, hp, f1, f2, f3, f4⟩ := deliver_step h.inv hs
  obtain ⟨hsep', hcov'⟩ := packetArrived_spec L.l.sink tx.seq tx.size h.inv.sink
  obtain ⟨m1, m2, m3⟩ := marks n h.inv
  obtain ⟨m1', m2', m3'⟩ := marks n h'
  have hpp : pfx l'.sink = p := by rw [f2]; exact isPrefix_unique (pfx_isPrefix hsep') hp
  have hmono : pfx L.l.sink ≤ p := isPrefix_mono (pfx_isPrefix h.inv.sink) hp (fun b hb => (hcov' b).mpr (Or.inl hb))
  rw [hpp, f1] at m2'
  rw [lt5_iff]
  by_cases hgain : pfx L.l.sink < p
  · left
    simp only [tmu]
    unfold muA
    rw [hpp, f1]
    omega
  · have hpe : p = pfx L.l.sink := by omega
    have e1 : muA n l' = muA n L.l := by
      unfold muA
      rw [hpp, f1, hpe]
    obtain ⟨t1, _, _, _⟩ := h.inv.data tx (by rw [hd]; exact List.mem_cons_self)
    have hself : Covers (packetArrived L.l.sink tx.seq tx.size) tx.seq :=
      (hcov' _).mpr (Or.inr ⟨Nat.le_refl _, by rw [t1]; have := h.inv.s.mpos; omega⟩)
    have key : tx.seq = L.l.snd.last_ack → L.l.snd.last_ack < p := by
      intro e
      rcases Nat.lt_or_ge L.l.snd.last_ack p with c | c
      · exact c
      · exfalso
        have e2 : p = tx.seq := by omega
        exact hp.2 (e2 ▸ hself)
    have hackno : (Loop.ackFor tx p).ackno = p := rfl
    have e5 : muW l' < muW L.l := by
      unfold muW
      rw [f1, f3, f4, hd, wa_append]
      unfold wd wa
      simp only [List.map_cons, List.sum_cons, List.map_nil, List.sum_nil, hackno]
      by_cases e : tx.seq = L.l.snd.last_ack
      · have := key e
        have e' : ¬ p = L.l.snd.last_ack := by omega
        rw [if_pos e, if_neg e']
        omega
      · rw [if_neg e]
        split_ifs <;> omega
    obtain ⟨d0, dT', hdT⟩ : ∃ d0 dT', L.dT = d0 :: dT' := by
      cases hdd : L.dT with
      | nil => have := h.dlen; rw [hdd, hd] at this; simp at this
      | cons d0 dT' => exact ⟨d0, dT', rfl⟩
    have hP' : l'.snd.last_ack = L.l.snd.last_ack := by rw [f1]
    by_cases h1 : NewAck L
    · have h1' : NewAck { l := l', dT := L.dT.tail, aT := L.aT ++ [t] } := by
        obtain ⟨a, ha, e⟩ := h1
        exact ⟨a, by show a ∈ l'.acks; rw [f4]; exact List.mem_append_left _ ha, by show l'.snd.last_ack < _; rw [hP']; exact e⟩
      have hτ : target { l := l', dT := L.dT.tail, aT := L.aT ++ [t] } = target L := by
        rw [target_new h1, target_new h1']
        show firstT (fun a : AckIn ℚ => l'.snd.last_ack < a.ackno) l'.acks (L.aT ++ [t]) = _
        rw [f4, hP']
        exact firstT_append _ _ _ h.alen h1
      obtain ⟨g2, g3⟩ := tGV_congr (L' := { l := l', dT := L.dT.tail, aT := L.aT ++ [t] }) (L := L)
        (iff_of_true h1' h1) (fun c => absurd h1 c) hτ (by show l'.snd.timers = _; rw [f1]) hP'
        (by show l'.snd.now = _; rw [f1]) (by show l'.snd.est.rto = _; rw [f1])
      simp only [tmu]
      omega
    · by_cases hnew : L.l.snd.last_ack < p
      · have h1' : NewAck { l := l', dT := L.dT.tail, aT := L.aT ++ [t] } :=
          ⟨Loop.ackFor tx p, by show _ ∈ l'.acks; rw [f4]; simp, by show l'.snd.last_ack < p; rw [hP']; exact hnew⟩
        have := tG_zero h1'
        have := tG_pos h1
        simp only [tmu]
        omega
      · have hne : ¬ tx.seq = L.l.snd.last_ack := fun e => hnew (key e)
        have h1' : ¬ NewAck { l := l', dT := L.dT.tail, aT := L.aT ++ [t] } := by
          rintro ⟨a, ha, e⟩
          have ha' : a ∈ l'.acks := ha
          have e' : l'.snd.last_ack < a.ackno := e
          rw [f4] at ha'
          rw [hP'] at e'
          rcases List.mem_append.mp ha' with c | c
          · exact h1 ⟨a, c, e'⟩
          · simp only [List.mem_singleton] at c
            subst c
            exact hnew e'
        have hD : DataP { l := l', dT := L.dT.tail, aT := L.aT ++ [t] } ↔ DataP L := by
          unfold DataP
          show (∃ y ∈ l'.data, y.seq = l'.snd.last_ack) ↔ _
          rw [f3, hP', hd]
          constructor
          · rintro ⟨y, hy, e⟩
            exact ⟨y, List.mem_cons_of_mem _ hy, e⟩
          · rintro ⟨y, hy, e⟩
            rcases List.mem_cons.mp hy with c | c
            · subst c; exact absurd e hne
            · exact ⟨y, c, e⟩
        have hτ : target { l := l', dT := L.dT.tail, aT := L.aT ++ [t] } = target L := by
          by_cases h2 : DataP L
          · rw [target_data h1 h2, target_data h1' (hD.mpr h2)]
            show firstT (fun y : Tx ℚ => y.seq = l'.snd.last_ack) l'.data L.dT.tail = _
            rw [f3, hP', hd, hdT]
            show _ = firstT (fun y : Tx ℚ => y.seq = L.l.snd.last_ack) (tx :: rest) (d0 :: dT')
            rw [firstT_cons_neg (fun y : Tx ℚ => y.seq = L.l.snd.last_ack) hne]
            rfl
          · rw [target_none h1 h2, target_none h1' (fun c => h2 (hD.mp c))]
            show wakeOf l'.snd.timers l'.snd.last_ack = _
            rw [f1]
        obtain ⟨g2, g3⟩ := tGV_congr (L' := { l := l', dT := L.dT.tail, aT := L.aT ++ [t] }) (L := L)
          ⟨fun c => absurd c h1', fun c => absurd c h1⟩ (fun _ => hD) hτ (by show l'.snd.timers = _; rw [f1]) hP'
          (by show l'.snd.now = _; rw [f1]) (by show l'.snd.est.rto = _; rw [f1])
        simp only [tmu]
        omega

/-! ## the head of the ACK path reaches the sender -/

theorem ack_dup_facts {s s' : Sender ℚ} {x : AckIn ℚ} {outs : List (Tx ℚ)} (hc : AckCase s x s' outs)
    (hdup : x.ackno = s.last_ack) :
    s'.timers = s.timers ∧ s'.last_ack = s.last_ack ∧ s'.now = s.now ∧ s'.est = s.est ∧ pm s' = pm s ∧
    s'.next_seq = s.next_seq ∧
    (outs = [] ∨ outs = [{ seq := s.last_ack, size := s.mss, stamp := s.now, kind := .resend }]) := by
  cases hc with
  | stale hlt _ _ => omega
  | early _ _ e1 e2 => subst e1; exact ⟨rfl, rfl, rfl, rfl, rfl, rfl, Or.inl e2⟩
  | dup c S _ _ _ _ _ e1 e2 _ =>
    subst e1
    exact ⟨rfl, rfl, rfl, rfl, rfl, rfl, e2.imp id (fun e => e.2)⟩
  | new T S hne _ _ _ _ => exact absurd hdup hne

theorem tdecr_ack {l' : Loop ℚ} {ts : List ℚ} (h : TInv n L) (hs : L.l.step .ackArrive = some l')
    (hlen : L.dT.length + ts.length = l'.data.length) :
    Lt5 (tmu n { l := l', dT := L.dT ++ ts, aT := L.aT.tail }) (tmu n L) := by
  obtain ⟨x, rest, s', outs, hd, hst, f1, f2, f3, f4⟩ := ack_step hs
  have ox := h.inv.acks x (by rw [hd]; exact List.mem_cons_self)
  have g := ox.good h.inv
  obtain ⟨m1, m2, m3⟩ := marks n h.inv
  have hcase := ack_cases h.inv.s.inv g.ok hst
  rw [lt5_iff]
  by_cases hdup : x.ackno = L.l.snd.last_ack
  swap
  · -- a new ACK
    left
    have hla : s'.last_ack = x.ackno ∧ s'.next_seq = L.l.snd.next_seq := by
      cases hcase with
      | stale hlt _ _ => exact absurd hlt (Nat.not_lt.mpr g.ge)
      | early e _ _ _ => exact absurd e hdup
      | dup _ _ e _ _ _ _ _ _ _ => exact absurd e hdup
      | new T S _ e1 _ _ _ => subst e1; exact ⟨rfl, rfl⟩
    simp only [tmu]
    unfold muA
    rw [f1, f2, hla.1, hla.2]
    have := g.ge
    have := g.le
    omega
  · obtain ⟨k1, k2, k3, k4, k5, k6, k7⟩ := ack_dup_facts hcase hdup
    obtain ⟨a0, aT', haT⟩ : ∃ a0 aT', L.aT = a0 :: aT' := by
      cases hdd : L.aT with
      | nil => have := h.alen; rw [hdd, hd] at this; simp at this
      | cons a0 aT' => exact ⟨a0, aT', rfl⟩
    have hP' : l'.snd.last_ack = L.l.snd.last_ack := by rw [f1, k2]
    have hxn : ¬ L.l.snd.last_ack < x.ackno := by omega
    have e1 : muA n l' = muA n L.l := by
      unfold muA
      rw [f1, f2, k2, k6]
    have hN : NewAck { l := l', dT := L.dT ++ ts, aT := L.aT.tail } ↔ NewAck L := by
      unfold NewAck
      show (∃ a ∈ l'.acks, l'.snd.last_ack < a.ackno) ↔ _
      rw [f4, hP', hd]
      constructor
      · rintro ⟨a, ha, e⟩
        exact ⟨a, List.mem_cons_of_mem _ ha, e⟩
      · rintro ⟨a, ha, e⟩
        rcases List.mem_cons.mp ha with c | c
        · subst c; exact absurd e hxn
        · exact ⟨a, c, e⟩
    have hτN : NewAck L → target { l := l', dT := L.dT ++ ts, aT := L.aT.tail } = target L := by
      intro h1
      rw [target_new h1, target_new (hN.mpr h1)]
      show firstT (fun a : AckIn ℚ => l'.snd.last_ack < a.ackno) l'.acks L.aT.tail = _
      rw [f4, hP', hd, haT]
      show _ = firstT (fun a : AckIn ℚ => L.l.snd.last_ack < a.ackno) (x :: rest) (a0 :: aT')
      rw [firstT_cons_neg (fun a : AckIn ℚ => L.l.snd.last_ack < a.ackno) hxn]
      rfl
    have hwo : wd L.l.snd.last_ack outs ≤ 1 := by
      rcases k7 with e | e <;> subst e <;> simp [wd]
    have e5 : muW l' < muW L.l := by
      unfold muW
      rw [f1, f3, f4, hd, wd_append, k2, k5]
      unfold wa
      simp only [List.map_cons, List.sum_cons, hdup, if_true]
      omega
    have frameT : l'.snd.timers = L.l.snd.timers := by rw [f1, k1]
    have frameN : l'.snd.now = L.l.snd.now := by rw [f1, k3]
    have frameR : l'.snd.est.rto = L.l.snd.est.rto := by rw [f1, k4]
    by_cases h1 : NewAck L
    · obtain ⟨g2, g3⟩ := tGV_congr (L' := { l := l', dT := L.dT ++ ts, aT := L.aT.tail }) (L := L)
        hN (fun c => absurd h1 c) (hτN h1) frameT hP' frameN frameR
      simp only [tmu]
      omega
    · have h1' : ¬ NewAck { l := l', dT := L.dT ++ ts, aT := L.aT.tail } := fun c => h1 (hN.mp c)
      by_cases h2 : DataP L
      · have h2' : DataP { l := l', dT := L.dT ++ ts, aT := L.aT.tail } := by
          obtain ⟨y, hy, e⟩ := h2
          exact ⟨y, by show y ∈ l'.data; rw [f3]; exact List.mem_append_left _ hy, by show y.seq = l'.snd.last_ack; rw [hP']; exact e⟩
        have hτ : target { l := l', dT := L.dT ++ ts, aT := L.aT.tail } = target L := by
          rw [target_data h1 h2, target_data h1' h2']
          show firstT (fun y : Tx ℚ => y.seq = l'.snd.last_ack) l'.data (L.dT ++ ts) = _
          rw [f3, hP']
          exact firstT_append _ _ _ h.dlen h2
        obtain ⟨g2, g3⟩ := tGV_congr (L' := { l := l', dT := L.dT ++ ts, aT := L.aT.tail }) (L := L)
          hN (fun _ => iff_of_true h2' h2) hτ frameT hP' frameN frameR
        simp only [tmu]
        omega
      · rcases k7 with e | e
        · -- nothing is retransmitted
          subst e
          rw [List.append_nil] at f3
          have hts : ts = [] := ts_nil hlen (by rw [f3]; exact h.dlen)
          subst hts
          have h2' : ¬ DataP { l := l', dT := L.dT ++ [], aT := L.aT.tail } := by
            rintro ⟨y, hy, e⟩
            have hy' : y ∈ l'.data := hy
            have e' : y.seq = l'.snd.last_ack := e
            rw [f3] at hy'
            rw [hP'] at e'
            exact h2 ⟨y, hy', e'⟩
          have hτ : target { l := l', dT := L.dT ++ [], aT := L.aT.tail } = target L := by
            rw [target_none h1 h2, target_none h1' h2']
            show wakeOf l'.snd.timers l'.snd.last_ack = _
            rw [frameT, hP']
          obtain ⟨g2, g3⟩ := tGV_congr (L' := { l := l', dT := L.dT ++ [], aT := L.aT.tail }) (L := L)
            hN (fun _ => ⟨fun c => absurd c h2', fun c => absurd c h2⟩) hτ frameT hP' frameN frameR
          simp only [tmu]
          omega
        · -- fast retransmit of the segment at `last_ack`
          subst e
          have h2' : DataP { l := l', dT := L.dT ++ ts, aT := L.aT.tail } := by
            refine ⟨{ seq := L.l.snd.last_ack, size := L.l.snd.mss, stamp := L.l.snd.now, kind := .resend }, ?_, ?_⟩
            · show _ ∈ l'.data
              rw [f3]
              exact List.mem_append_right _ (List.mem_singleton.mpr rfl)
            · show L.l.snd.last_ack = l'.snd.last_ack
              rw [hP']
          have := tG_two h1 h2
          have := tG_one h1' h2'
          simp only [tmu]
          omega

/-- **every step over timed paths decreases the measure** -/
theorem tstep_decreases (h : TInv n L) (hs : TLoop.TStep L L') : Lt5 (tmu n L') (tmu n L) := by
  cases hs with
  | burst a ts hnt hst hlen _ =>
    cases a with
    | wake fuel => exact tdecr_wake h hst hlen
    | handoff => exact tdecr_handoff h hst hlen
    | fire q => exact tdecr_fire h hst hlen
    | tick t => exact absurd rfl (hnt t)
    | ack x =>
      exfalso
      unfold Loop.step at hst
      simp [Loop.isAck] at hst
  | tick t hst hlt hd ha hev => exact tdecr_tick h hst hlt hd ha hev
  | deliver t hst _ => exact tdecr_deliver h hst
  | ackArrive ts hst hlen _ => exact tdecr_ack h hst hlen

end TcpLive
