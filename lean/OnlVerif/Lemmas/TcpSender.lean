import Mathlib.Data.List.Nodup
import OnlVerif.Lemmas.TcpCC
/-!
# Lemmas about the sender LTS (`OnlVerif/Tcp/CC.lean`) at `ℚ`

* finite-map facts (`AL`);
* the invariant `Inv` (congestion-control invariant, `timers` and `sent_packets` have the same distinct keys,
  `rto > 0`, `rtt_estimate > 0`, `est_deviation ≥ 0`, `next_seq ≤ send_buffer`) and its preservation by every
  accepted action; under it no action yields a Python exception;
* the closed form of the timer wake-up instant in exact arithmetic;
* facts about the sending loop used by C16 (`no_spurious_retransmit`) and C17 (`send_in_window`).
-/

open TcpScalar TcpSpec TcpCC

namespace AL
variable {β γ : Type}

theorem keys_set (k : Nat) (v : β) (l : List (Nat × β)) :
    keys (set k v l) = if k ∈ keys l then keys l else keys l ++ [k] := by
  induction l with
  | nil => simp [set, keys]
  | cons p rest ih =>
    obtain ⟨k', v'⟩ := p
    unfold set
    by_cases h : k' = k
    · subst h; simp [keys]
    · have h' : ¬ k = k' := fun e => h e.symm
      simp only [h, if_false]
      show k' :: keys (set k v rest) = _
      rw [ih]
      have hm : k ∈ keys ((k', v') :: rest) ↔ k ∈ keys rest := by
        simp only [keys, List.map_cons, List.mem_cons, h', false_or]
      by_cases hk : k ∈ keys rest
      · rw [if_pos hk, if_pos (hm.mpr hk)]; rfl
      · rw [if_neg hk, if_neg (fun x => hk (hm.mp x))]; rfl

theorem keys_set_congr (k : Nat) (v : β) (w : γ) {l₁ : List (Nat × β)} {l₂ : List (Nat × γ)}
    (h : keys l₁ = keys l₂) : keys (set k v l₁) = keys (set k w l₂) := by
  rw [keys_set, keys_set, h]

theorem keys_set_of_mem (k : Nat) (v : β) (l : List (Nat × β)) (h : k ∈ keys l) : keys (set k v l) = keys l := by
  rw [keys_set, if_pos h]

theorem nodup_keys_set (k : Nat) (v : β) (l : List (Nat × β)) (h : (keys l).Nodup) : (keys (set k v l)).Nodup := by
  rw [keys_set]
  split_ifs with hk
  · exact h
  · exact List.Nodup.append h (List.nodup_singleton k) (by
      intro a ha hb; simp at hb; subst hb; exact hk ha)

theorem keys_del (k : Nat) (l : List (Nat × β)) : keys (del k l) = (keys l).erase k := by
  induction l with
  | nil => simp [del, keys]
  | cons p rest ih =>
    obtain ⟨k', v'⟩ := p
    unfold del
    by_cases h : k' = k
    · subst h; simp [keys]
    · simp only [h, if_false]
      show k' :: keys (del k rest) = _
      rw [ih]
      simp [keys, List.erase_cons, h]

theorem get?_eq_none_iff (k : Nat) (l : List (Nat × β)) : get? k l = none ↔ k ∉ keys l := by
  induction l with
  | nil => simp [get?, keys]
  | cons p rest ih =>
    obtain ⟨k', v'⟩ := p
    unfold get?
    by_cases h : k' = k
    · subst h; simp [keys]
    · have h' : ¬ k = k' := fun e => h e.symm
      simp only [h, if_false, ih, keys, List.map_cons, List.mem_cons, h', false_or]

theorem get?_isSome_of_mem {k : Nat} {l : List (Nat × β)} (h : k ∈ keys l) : ∃ v, get? k l = some v := by
  cases hg : get? k l with
  | none => exact absurd h ((get?_eq_none_iff k l).mp hg)
  | some v => exact ⟨v, rfl⟩

theorem mem_of_get?_some {k : Nat} {l : List (Nat × β)} {v : β} (h : get? k l = some v) : k ∈ keys l := by
  by_contra hn
  rw [(get?_eq_none_iff k l).mpr hn] at h
  cases h

theorem pair_mem_of_get?_some {k : Nat} {v : β} : ∀ {l : List (Nat × β)}, get? k l = some v → (k, v) ∈ l := by
  intro l
  induction l with
  | nil => intro ht; simp [get?] at ht
  | cons p rest ih =>
    intro ht
    obtain ⟨k', v'⟩ := p
    unfold get? at ht
    by_cases hk : k' = k
    · simp only [hk, if_true] at ht; injection ht with ht; subst ht; subst hk; exact List.mem_cons_self
    · simp only [hk, if_false] at ht; exact List.mem_cons_of_mem _ (ih ht)

/-- the value stored by `set` -/
theorem get?_set_self (k : Nat) (v : β) (l : List (Nat × β)) : get? k (set k v l) = some v := by
  induction l with
  | nil => simp [set, get?]
  | cons p rest ih =>
    obtain ⟨k', v'⟩ := p
    unfold set
    by_cases h : k' = k
    · subst h; simp [get?]
    · simp only [h, if_false]; unfold get?; simp only [h, if_false]; exact ih

theorem mem_set {k : Nat} {v : β} {l : List (Nat × β)} {x : Nat × β} (h : x ∈ set k v l) : x = (k, v) ∨ x ∈ l := by
  induction l with
  | nil => simp [set] at h; exact Or.inl h
  | cons p rest ih =>
    obtain ⟨k', v'⟩ := p
    unfold set at h
    by_cases hk : k' = k
    · simp only [hk, if_true, List.mem_cons] at h
      rcases h with h | h
      · exact Or.inl h
      · exact Or.inr (List.mem_cons_of_mem _ h)
    · simp only [hk, if_false, List.mem_cons] at h
      rcases h with h | h
      · exact Or.inr (h ▸ List.mem_cons_self)
      · rcases ih h with h | h
        · exact Or.inl h
        · exact Or.inr (List.mem_cons_of_mem _ h)

theorem mem_of_mem_del {k : Nat} {l : List (Nat × β)} {x : Nat × β} (h : x ∈ del k l) : x ∈ l := by
  induction l with
  | nil => simp [del] at h
  | cons p rest ih =>
    obtain ⟨k', v'⟩ := p
    unfold del at h
    by_cases hk : k' = k
    · simp only [hk, if_true] at h; exact List.mem_cons_of_mem _ h
    · simp only [hk, if_false, List.mem_cons] at h
      rcases h with h | h
      · exact h ▸ List.mem_cons_self
      · exact List.mem_cons_of_mem _ (ih h)

end AL

namespace TcpSender
open Sender

/-! ## timers in exact arithmetic -/

/-- in exact arithmetic the timer process wakes exactly at its expiry -/
theorem wakeAt_eq (n : Nat) (now τ : ℚ) (h : 0 < τ) : wakeAt (n + 2) now (now + τ) = now + τ := by
  have h1 : now < now + τ := by linarith
  have h2 : now + (now + τ - now) = now + τ := by ring
  have h3 : ¬ now + τ < now + τ := lt_irrefl _
  show (if now < now + τ then wakeAt (n + 1) (now + (now + τ - now)) (now + τ) else now) = now + τ
  rw [if_pos h1, h2]
  show (if now + τ < now + τ then _ else now + τ) = now + τ
  rw [if_neg h3]

theorem arm_eq (now τ : ℚ) (h : 0 < τ) : arm now τ = { expiry := now + τ, wake := now + τ, live := true } := by
  unfold arm
  rw [wakeAt_eq 6 now τ h]
  have h1 : now < now + τ := by linarith
  simp [h1]

/-! ## the invariant -/

structure Inv (s : Sender ℚ) : Prop where
  cc : CCInv s.kind s.cc
  keys : AL.keys s.timers = AL.keys s.sent
  nodup : (AL.keys s.timers).Nodup
  rto_pos : 0 < s.est.rto
  srtt_pos : 0 < s.est.rtt_estimate
  dev_nonneg : 0 ≤ s.est.est_deviation
  buf : s.next_seq ≤ s.send_buffer

/-- `Inv` only looks at these components -/
theorem Inv.transfer {s s' : Sender ℚ} (h : Inv s) (hk : s'.kind = s.kind) (hc : s'.cc = s.cc) (ht : s'.timers = s.timers)
    (hs : s'.sent = s.sent) (he : s'.est = s.est) (hb : s'.next_seq ≤ s'.send_buffer) : Inv s' :=
  ⟨by rw [hk, hc]; exact h.cc, by rw [ht, hs]; exact h.keys, by rw [ht]; exact h.nodup, by rw [he]; exact h.rto_pos,
   by rw [he]; exact h.srtt_pos, by rw [he]; exact h.dev_nonneg, hb⟩

/-- a freshly constructed sender satisfies the invariant -/
theorem inv_init (kind : CCKind) (cc : CCState ℚ) (rtt : ℚ) (mss : Nat) (size : Option Nat) (now : ℚ)
    (hcc : CCInv kind cc) (hr : 0 < rtt) : Inv (Sender.init kind cc rtt mss size now) := by
  refine ⟨hcc, rfl, List.nodup_nil, ?_, hr, ?_, Nat.le_refl _⟩
  · show 0 < (TCPPacketGenerator.init_rto _).rto
    unfold TCPPacketGenerator.init_rto
    simp only [ofNat_eq, Nat.cast_ofNat]
    show 0 < rtt * 2
    linarith
  · show 0 ≤ (TCPPacketGenerator.init_rto _).est_deviation
    unfold TCPPacketGenerator.init_rto
    simp

/-! ## the sending loop -/

/-- the generated send guard in exact arithmetic is the window condition of the specification -/
theorem guard_iff (s : Sender ℚ) :
    s.guard = true ↔ InWindow s.next_seq s.mss s.send_buffer s.last_ack s.cc.cwnd := by
  unfold Sender.guard TCPPacketGenerator.run_send_guard InWindow
  simp only [decide_eq_true_eq, pymin_eq, ofNat_eq]

theorem refill_frame (s : Sender ℚ) :
    (s.refill).kind = s.kind ∧ (s.refill).cc = s.cc ∧ (s.refill).timers = s.timers ∧ (s.refill).sent = s.sent ∧
    (s.refill).est = s.est ∧ (s.refill).next_seq = s.next_seq ∧ (s.refill).last_ack = s.last_ack ∧
    (s.refill).mss = s.mss ∧ (s.refill).now = s.now ∧ (s.refill).dupack = s.dupack ∧ s.send_buffer ≤ (s.refill).send_buffer := by
  unfold Sender.refill
  split_ifs <;> simp

theorem inv_refill {s : Sender ℚ} (h : Inv s) : Inv s.refill := by
  obtain ⟨a, b, c, d, e, f, _, _, _, _, g⟩ := refill_frame s
  exact h.transfer a b c d e (by rw [f]; exact Nat.le_trans h.buf g)

theorem emit_ok {s : Sender ℚ} (h : 0 < s.est.rto) :
    s.emit = .ok ({ s with sent := AL.set s.next_seq s.now s.sent, next_seq := s.next_seq + s.mss,
                           timers := AL.set s.next_seq (arm s.now s.est.rto) s.timers },
                  { seq := s.next_seq, size := s.mss, stamp := s.now, kind := .new }) := by
  unfold Sender.emit
  have : ¬ s.est.rto ≤ (Num.zero : ℚ) := by rw [zero_eq]; exact not_le.mpr h
  simp only [this, if_false]

/-- one loop iteration never raises and keeps the invariant -/
theorem sendStep_spec {s : Sender ℚ} (h : Inv s) :
    (∀ e, s.sendStep ≠ .error e) ∧
    (∀ s' tx, s.sendStep = .sent s' tx →
        Inv s' ∧ tx = { seq := s.next_seq, size := s.mss, stamp := s.now, kind := .new } ∧
        s'.next_seq = s.next_seq + s.mss ∧ s'.last_ack = s.last_ack ∧ s'.cc = s.cc ∧ s'.mss = s.mss ∧ s'.now = s.now ∧
        s'.dupack = s.dupack ∧ s'.est = s.est ∧ s'.kind = s.kind ∧
        s'.timers = AL.set s.next_seq (arm s.now s.est.rto) s.timers ∧
        InWindow s.next_seq s.mss s.refill.send_buffer s.last_ack s.cc.cwnd) ∧
    (∀ s', s.sendStep = .yielded s' ∨ s.sendStep = .done s' →
        Inv s' ∧ s'.timers = s.timers ∧ s'.now = s.now ∧ s'.dupack = s.dupack ∧ s'.next_seq = s.next_seq ∧
        s'.mss = s.mss) := by
  obtain ⟨fa, fb, fc, fd, fe, ff, fg, fh, fi, fj, fk⟩ := refill_frame s
  have hr := inv_refill h
  have hemit := emit_ok (s := s.refill) (by rw [fe]; exact h.rto_pos)
  unfold Sender.sendStep
  by_cases hd : s.flowDone = true
  · simp only [hd, if_true]
    refine ⟨fun e he => (by cases he), fun s' tx he => (by cases he), ?_⟩
    intro s' he
    rcases he with he | he
    · cases he
    · injection he with he; subst he
      exact ⟨h.transfer rfl rfl rfl rfl rfl h.buf, rfl, rfl, rfl, rfl, rfl⟩
  · simp only [hd]
    by_cases hg : s.refill.guard = true
    · simp only [hg, if_true, hemit]
      refine ⟨fun e he => (by cases he), ?_, fun s' he => by rcases he with he | he <;> cases he⟩
      intro s' tx he
      injection he with he1 he2
      subst he1 he2
      have hw := (guard_iff s.refill).mp hg
      refine ⟨?_, by rw [ff, fh, fi], by show s.refill.next_seq + s.refill.mss = _; rw [ff, fh], fg, fb, fh, fi, fj, fe, fa,
        by show AL.set s.refill.next_seq (arm s.refill.now s.refill.est.rto) s.refill.timers = _; rw [ff, fi, fe, fc],
        by rw [ff, fh, fg, fb] at hw; exact hw⟩
      refine ⟨hr.cc, AL.keys_set_congr _ _ _ hr.keys, AL.nodup_keys_set _ _ _ hr.nodup, hr.rto_pos, hr.srtt_pos,
        hr.dev_nonneg, ?_⟩
      show s.refill.next_seq + s.refill.mss ≤ s.refill.send_buffer
      unfold InWindow at hw
      have := le_trans hw (min_le_left _ _)
      exact_mod_cast this
    · simp only [hg]
      refine ⟨fun e he => (by cases he), fun s' tx he => (by cases he), ?_⟩
      intro s' he
      rcases he with he | he
      · injection he with he; subst he
        unfold Sender.getToken
        split_ifs
        · exact ⟨hr.transfer rfl rfl rfl rfl rfl hr.buf, fc, fi, fj, ff, fh⟩
        · exact ⟨hr.transfer rfl rfl rfl rfl rfl hr.buf, fc, fi, fj, ff, fh⟩
      · cases he

/-- the segments emitted by one resumption of `run`, as a chain of loop iterations -/
inductive Emits : Sender ℚ → List (Tx ℚ) → Sender ℚ → Prop
  | stop {s s'} : (s.sendStep = .yielded s' ∨ s.sendStep = .done s') → Emits s [] s'
  | send {s s1 s' tx rest} : s.sendStep = .sent s1 tx → Emits s1 rest s' → Emits s (tx :: rest) s'

theorem runLoop_spec (n : Nat) : ∀ (s : Sender ℚ) (outs : List (Tx ℚ)), Inv s →
    (∀ e, runLoop n s outs ≠ .error e) ∧
    ∀ s' outs', runLoop n s outs = .ok s' outs' → ∃ new, outs' = outs ++ new ∧ Emits s new s' := by
  induction n with
  | zero => intro s outs _; exact ⟨fun e he => (by cases he), fun s' o he => (by cases he)⟩
  | succ n ih =>
    intro s outs h
    obtain ⟨h1, h2, h3⟩ := sendStep_spec h
    unfold runLoop
    cases hs : s.sendStep with
    | sent s1 tx =>
      obtain ⟨hi, _⟩ := h2 s1 tx hs
      obtain ⟨i1, i2⟩ := ih s1 (outs ++ [tx]) hi
      refine ⟨i1, fun s' o he => ?_⟩
      obtain ⟨new, e1, e2⟩ := i2 s' o he
      exact ⟨tx :: new, by rw [e1]; simp, Emits.send hs e2⟩
    | yielded s1 =>
      refine ⟨fun e he => (by cases he), fun s' o he => ?_⟩
      injection he with he1 he2; subst he1 he2
      exact ⟨[], by simp, Emits.stop (Or.inl hs)⟩
    | done s1 =>
      refine ⟨fun e he => (by cases he), fun s' o he => ?_⟩
      injection he with he1 he2; subst he1 he2
      exact ⟨[], by simp, Emits.stop (Or.inr hs)⟩
    | error e => exact absurd hs (h1 e)

theorem emits_inv {s s' : Sender ℚ} {outs : List (Tx ℚ)} (he : Emits s outs s') (h : Inv s) : Inv s' := by
  induction he with
  | stop hs => exact ((sendStep_spec h).2.2 _ hs).1
  | send hs _ ih => exact ih ((sendStep_spec h).2.1 _ _ hs).1

/-- sending only adds timers -/
theorem emits_keeps_timers {s s' : Sender ℚ} {outs : List (Tx ℚ)} (he : Emits s outs s') (h : Inv s) :
    ∀ q ∈ AL.keys s.timers, q ∈ AL.keys s'.timers := by
  induction he with
  | stop hst => intro q hq; obtain ⟨_, ht, _⟩ := (sendStep_spec h).2.2 _ hst; rw [ht]; exact hq
  | @send s s1 s' tx rest hst _ ih =>
    obtain ⟨hi1, _, _, _, _, _, _, _, _, _, ht, _⟩ := (sendStep_spec h).2.1 _ _ hst
    intro q hq
    apply ih hi1
    rw [ht, AL.keys_set]; split_ifs
    · exact hq
    · exact List.mem_append_left _ hq

/-- every segment a resumption of `run` emits is under a timer afterwards -/
theorem emits_new_timed {s s' : Sender ℚ} {outs : List (Tx ℚ)} (he : Emits s outs s') (h : Inv s) :
    ∀ tx ∈ outs, tx.seq ∈ AL.keys s'.timers := by
  induction he with
  | stop _ => intro tx htx; simp at htx
  | @send s s1 s' tx1 rest hst hrest ih =>
    obtain ⟨hi1, htx1, _, _, _, _, _, _, _, _, ht, _⟩ := (sendStep_spec h).2.1 _ _ hst
    intro tx htx
    rcases List.mem_cons.mp htx with e | e
    · subst e
      apply emits_keeps_timers hrest hi1
      rw [ht, htx1]
      exact AL.mem_of_get?_some (AL.get?_set_self _ _ _)
    · exact ih hi1 tx e

/-! ## `resend_packet`, timer cancellation -/

theorem resend_spec (s : Sender ℚ) (seq : Nat) :
    (seq ∈ AL.keys s.sent → s.resend seq = ({ s with sent := AL.set seq s.now s.sent },
        [{ seq := seq, size := s.mss, stamp := s.now, kind := .resend }])) ∧
    (seq ∉ AL.keys s.sent → s.resend seq = (s, [])) := by
  unfold Sender.resend
  constructor
  · intro h
    obtain ⟨v, hv⟩ := AL.get?_isSome_of_mem h
    rw [hv]
  · intro h
    rw [(AL.get?_eq_none_iff seq s.sent).mpr h]

/-- `resend` changes at most the stamp of an outstanding segment -/
theorem resend_frame (s : Sender ℚ) (seq : Nat) :
    ∃ S, (s.resend seq).1 = { s with sent := S } ∧ AL.keys S = AL.keys s.sent := by
  by_cases h : seq ∈ AL.keys s.sent
  · rw [(resend_spec s seq).1 h]; exact ⟨_, rfl, AL.keys_set_of_mem _ _ _ h⟩
  · rw [(resend_spec s seq).2 h]; exact ⟨s.sent, rfl, rfl⟩

/-- what `resend_packet` hands to `out` -/
theorem resend_out (s : Sender ℚ) (seq : Nat) :
    (s.resend seq).2 =
      if seq ∈ AL.keys s.sent then [{ seq := seq, size := s.mss, stamp := s.now, kind := .resend }] else [] := by
  by_cases h : seq ∈ AL.keys s.sent
  · rw [(resend_spec s seq).1 h, if_pos h]
  · rw [(resend_spec s seq).2 h, if_neg h]

theorem dropSegs_spec (qs : List Nat) : ∀ (s : Sender ℚ), AL.keys s.timers = AL.keys s.sent → (AL.keys s.timers).Nodup →
    (∀ q ∈ qs, q ∈ AL.keys s.timers) → qs.Nodup →
    ∃ T S, dropSegs s qs = .ok { s with timers := T, sent := S } ∧ AL.keys T = AL.keys S ∧ (AL.keys T).Nodup ∧
      (∀ q, q ∈ AL.keys T ↔ q ∈ AL.keys s.timers ∧ q ∉ qs) ∧ (∀ x ∈ T, x ∈ s.timers) := by
  induction qs with
  | nil =>
    intro s hk hn _ _
    exact ⟨s.timers, s.sent, rfl, hk, hn, fun q => by simp, fun x hx => hx⟩
  | cons q rest ih =>
    intro s hk hn hmem hnd
    have hq : q ∈ AL.keys s.timers := hmem q List.mem_cons_self
    obtain ⟨v, hv⟩ := AL.get?_isSome_of_mem hq
    obtain ⟨w, hw⟩ := AL.get?_isSome_of_mem (hk ▸ hq)
    have hnd' := List.nodup_cons.mp hnd
    have hstep : dropSeg s q = .ok { s with timers := AL.del q s.timers, sent := AL.del q s.sent } := by
      unfold dropSeg; rw [hv, hw]
    have hk' : AL.keys (AL.del q s.timers) = AL.keys (AL.del q s.sent) := by rw [AL.keys_del, AL.keys_del, hk]
    have hn' : (AL.keys (AL.del q s.timers)).Nodup := by rw [AL.keys_del]; exact hn.erase q
    have hmem' : ∀ x ∈ rest, x ∈ AL.keys (AL.del q s.timers) := by
      intro x hx
      rw [AL.keys_del]
      have hne : x ≠ q := fun e => hnd'.1 (e ▸ hx)
      exact (List.mem_erase_of_ne hne).mpr (hmem x (List.mem_cons_of_mem _ hx))
    obtain ⟨T, S, e1, e2, e3, e4, e5⟩ :=
      ih { s with timers := AL.del q s.timers, sent := AL.del q s.sent } hk' hn' hmem' hnd'.2
    refine ⟨T, S, ?_, e2, e3, ?_, fun x hx => AL.mem_of_mem_del (e5 x hx)⟩
    · rw [dropSegs, hstep]; exact e1
    · intro x
      rw [e4 x]
      show x ∈ AL.keys (AL.del q s.timers) ∧ x ∉ rest ↔ _
      rw [AL.keys_del]
      constructor
      · rintro ⟨h1, h2⟩
        have hne : x ≠ q := fun e => by subst e; exact (List.Nodup.not_mem_erase hn) h1
        exact ⟨(List.mem_erase_of_ne hne).mp h1, by simp [hne, h2]⟩
      · rintro ⟨h1, h2⟩
        simp only [List.mem_cons, not_or] at h2
        exact ⟨(List.mem_erase_of_ne h2.1).mpr h1, h2.2⟩

/-! ## the RTT estimator -/

theorem estimator_spec (e : RttEst ℚ) (now pt : ℚ) :
    TCPPacketGenerator.put_estimator e now pt =
      { rtt_estimate := srttNext e.rtt_estimate (now - pt),
        est_deviation := varNext e.rtt_estimate e.est_deviation (now - pt),
        rto := rtoOf (srttNext e.rtt_estimate (now - pt)) (varNext e.rtt_estimate e.est_deviation (now - pt)) } := by
  unfold TCPPacketGenerator.put_estimator srttNext varNext rtoOf
  simp only [ofNat_eq, Nat.cast_ofNat, Nat.cast_one, pyabs_eq]
  congr 1 <;> ring

theorem estimator_pos (e : RttEst ℚ) (now pt : ℚ) (hs : 0 < e.rtt_estimate) (hd : 0 ≤ e.est_deviation) (hp : pt ≤ now) :
    0 < (TCPPacketGenerator.put_estimator e now pt).rto ∧ 0 < (TCPPacketGenerator.put_estimator e now pt).rtt_estimate ∧
    0 ≤ (TCPPacketGenerator.put_estimator e now pt).est_deviation := by
  rw [estimator_spec]
  have h1 : 0 < srttNext e.rtt_estimate (now - pt) := by unfold srttNext; linarith
  have h2 : 0 ≤ varNext e.rtt_estimate e.est_deviation (now - pt) := by
    unfold varNext
    have := abs_nonneg (now - pt - e.rtt_estimate)
    linarith
  exact ⟨by show 0 < rtoOf _ _; unfold rtoOf; linarith, h1, h2⟩

/-! ## `put(ack)` case by case -/

/-- a well-formed ACK for the model: the `assert` holds and it is not stamped in the future -/
def AckOk (s : Sender ℚ) (a : AckIn ℚ) : Prop := 10000 ≤ a.fid ∧ a.ptime ≤ s.now

/-- **an overtaken ACK** (`ackno < last_ack`): the early return of `put` - the state is unchanged, nothing is sent -/
theorem ackStep_stale (s : Sender ℚ) (a : AckIn ℚ) (h : AckOk s a) (hs : a.ackno < s.last_ack) :
    s.ackStep a = .ok s [] := by
  unfold Sender.ackStep
  have h1 : ¬ a.fid < 10000 := Nat.not_lt.mpr h.1
  have h2 : ¬ s.now < a.ptime := not_lt.mpr h.2
  simp only [h1, h2, hs, if_true, if_false]

/-- an ACK that passes the three guards of `put` is handled by `ackCore` -/
theorem ackStep_core (s : Sender ℚ) (a : AckIn ℚ) (h : AckOk s a) (hns : ¬ a.ackno < s.last_ack) :
    s.ackStep a = s.ackCore a := by
  unfold Sender.ackStep
  have h1 : ¬ a.fid < 10000 := Nat.not_lt.mpr h.1
  have h2 : ¬ s.now < a.ptime := not_lt.mpr h.2
  simp only [h1, h2, hns, if_false]

theorem ackStep_unfold (s : Sender ℚ) (a : AckIn ℚ) (h : AckOk s a) (hns : ¬ a.ackno < s.last_ack) :
    s.ackStep a =
      (if (s.countDup a.ackno).dupack = 3 then .ok ((s.countDup a.ackno).thirdDup a.ackno).1 ((s.countDup a.ackno).thirdDup a.ackno).2
       else if (s.countDup a.ackno).dupack > 3 then .ok ((s.countDup a.ackno).moreDup a.ackno).1 ((s.countDup a.ackno).moreDup a.ackno).2
       else if (s.countDup a.ackno).dupack = 0 then (s.countDup a.ackno).newAck a
       else .ok (s.countDup a.ackno) []) := by
  rw [ackStep_core s a h hns]
  rfl

/-- a repeated ACK number is counted -/
theorem countDup_dup (s : Sender ℚ) (ackno : Nat) (h : ackno = s.last_ack) :
    s.countDup ackno = { s with dupack := s.dupack + 1 } := by
  unfold Sender.countDup; rw [if_pos h]

/-- another ACK number ends a run of duplicates -/
theorem countDup_new (s : Sender ℚ) (ackno : Nat) (h : ackno ≠ s.last_ack) :
    s.countDup ackno = if s.dupack > 0 then s.leaveDups else s := by
  unfold Sender.countDup; rw [if_neg h]

/-- **third duplicate ACK** -/
theorem ackStep_third (s : Sender ℚ) (a : AckIn ℚ) (h : AckOk s a) (hd : a.ackno = s.last_ack) (h2 : s.dupack = 2) :
    s.ackStep a = .ok ((({ s with dupack := 3 } : Sender ℚ).thirdDup a.ackno).1)
                      ((({ s with dupack := 3 } : Sender ℚ).thirdDup a.ackno).2) := by
  rw [ackStep_unfold s a h (by omega), countDup_dup s _ hd]
  simp only [h2]
  rfl

/-- **further duplicate ACKs** -/
theorem ackStep_more (s : Sender ℚ) (a : AckIn ℚ) (h : AckOk s a) (hd : a.ackno = s.last_ack) (h3 : 3 ≤ s.dupack) :
    s.ackStep a = .ok ((({ s with dupack := s.dupack + 1 } : Sender ℚ).moreDup a.ackno).1)
                      ((({ s with dupack := s.dupack + 1 } : Sender ℚ).moreDup a.ackno).2) := by
  rw [ackStep_unfold s a h (by omega), countDup_dup s _ hd]
  have e1 : ¬ s.dupack + 1 = 3 := by omega
  have e2 : s.dupack + 1 > 3 := by omega
  simp only [e1, e2, if_true, if_false]

/-- the first two duplicates only count -/
theorem ackStep_early (s : Sender ℚ) (a : AckIn ℚ) (h : AckOk s a) (hd : a.ackno = s.last_ack) (h1 : s.dupack < 2) :
    s.ackStep a = .ok { s with dupack := s.dupack + 1 } [] := by
  rw [ackStep_unfold s a h (by omega), countDup_dup s _ hd]
  have e1 : ¬ s.dupack + 1 = 3 := by omega
  have e2 : ¬ s.dupack + 1 > 3 := by omega
  have e3 : ¬ s.dupack + 1 = 0 := by omega
  simp only [e1, e2, e3, if_false]

/-- the new-ACK block on a state whose maps are consistent: estimator, `last_ack`, window growth, cancellation of the
covered timers, one wake-up token; no exception -/
theorem newAck_spec (s : Sender ℚ) (a : AckIn ℚ) (hcc : CCWeak s.kind s.cc)
    (hk : AL.keys s.timers = AL.keys s.sent) (hn : (AL.keys s.timers).Nodup) :
    ∃ T S, s.newAck a = .ok { s with
        est := TCPPacketGenerator.put_estimator s.est s.now a.ptime, last_ack := a.ackno,
        cc := CC.ackReceived s.kind s.cc (TCPPacketGenerator.put_sample_rtt s.now a.ptime) s.now,
        timers := T, sent := S, tokens := s.tokens + 1 } [] ∧
      AL.keys T = AL.keys S ∧ (AL.keys T).Nodup ∧
      (∀ q, q ∈ AL.keys T ↔ q ∈ AL.keys s.timers ∧ ¬ (q < a.ackno ∨ q = a.pid)) ∧ (∀ x ∈ T, x ∈ s.timers) := by
  obtain ⟨hsafe, _⟩ := inv_ack hcc (TCPPacketGenerator.put_sample_rtt s.now a.ptime) s.now
  let s1 : Sender ℚ := (s.noteAck a).growWindow (TCPPacketGenerator.put_sample_rtt s.now a.ptime)
  have hcov : ∀ q ∈ s1.covered a.ackno a.pid, q ∈ AL.keys s1.timers := by
    intro q hq; unfold Sender.covered at hq; exact (List.mem_filter.mp hq).1
  have hcnd : (s1.covered a.ackno a.pid).Nodup := by unfold Sender.covered; exact hn.filter _
  obtain ⟨T, S, e1, e2, e3, e4, e5⟩ := dropSegs_spec (s1.covered a.ackno a.pid) s1 hk hn hcov hcnd
  refine ⟨T, S, ?_, e2, e3, ?_, e5⟩
  · unfold Sender.newAck
    simp only [hsafe, if_true]
    show Sender.finishAck s1 a = _
    unfold Sender.finishAck
    rw [e1]
    rfl
  · intro q
    rw [e4 q]
    show q ∈ AL.keys s.timers ∧ q ∉ s1.covered a.ackno a.pid ↔ _
    unfold Sender.covered
    show q ∈ AL.keys s.timers ∧ q ∉ (AL.keys s.timers).filter _ ↔ _
    simp only [List.mem_filter, Bool.or_eq_true, decide_eq_true_eq, beq_iff_eq, not_and]
    constructor
    · rintro ⟨h1, h2⟩; exact ⟨h1, h2 h1⟩
    · rintro ⟨h1, h2⟩; exact ⟨h1, fun _ => h2⟩

/-- the window on which a new ACK is counted: deflated to `ssthresh` (generated `dupack_over`) exactly when fast
recovery had been entered (`dupack ≥ 3`), untouched otherwise -/
def ccBeforeNew (s : Sender ℚ) : CCState ℚ := if 3 ≤ s.dupack then CongestionControl.dupack_over s.cc else s.cc

/-- **a new ACK**: end the run of duplicates (`leaveDups`), then the new-ACK block -/
theorem ackStep_new (s : Sender ℚ) (a : AckIn ℚ) (h : AckOk s a) (hd : s.last_ack < a.ackno) :
    s.ackStep a = ({ s with cc := ccBeforeNew s, dupack := 0 } : Sender ℚ).newAck a := by
  rw [ackStep_unfold s a h (by omega), countDup_new s _ (by omega)]
  unfold ccBeforeNew
  by_cases h0 : s.dupack > 0
  · simp only [h0, if_true]
    unfold Sender.leaveDups
    by_cases h3 : 3 ≤ s.dupack
    · have h3' : s.dupack ≥ 3 := h3
      simp only [h3, h3', if_true]
      rfl
    · have h3' : ¬ s.dupack ≥ 3 := h3
      simp only [h3, h3', if_false]
      rfl
  · have hz : s.dupack = 0 := by omega
    have h3 : ¬ 3 ≤ s.dupack := by omega
    have hs : ({ s with cc := s.cc, dupack := 0 } : Sender ℚ) = s := by
      cases s; simp only at hz; subst hz; rfl
    simp only [h0, h3, if_false, hs]
    simp [hz]

theorem weak_ccBeforeNew (s : Sender ℚ) (h : CCInv s.kind s.cc) : CCWeak s.kind (ccBeforeNew s) := by
  unfold ccBeforeNew
  split_ifs
  · exact weak_dupack_over h
  · exact h.weak

/-- **a new ACK, in full**: `dupack` returns to 0, the estimator is updated, `last_ack` moves, the window grows from
`ccBeforeNew`, the covered timers are cancelled, one wake-up token is added; no exception -/
theorem ackStep_new_spec (s : Sender ℚ) (a : AckIn ℚ) (h : CCInv s.kind s.cc) (hk : AL.keys s.timers = AL.keys s.sent)
    (hn : (AL.keys s.timers).Nodup) (hok : AckOk s a) (hd : s.last_ack < a.ackno) :
    ∃ T S, s.ackStep a = .ok { s with
        dupack := 0, est := TCPPacketGenerator.put_estimator s.est s.now a.ptime, last_ack := a.ackno,
        cc := CC.ackReceived s.kind (ccBeforeNew s) (TCPPacketGenerator.put_sample_rtt s.now a.ptime) s.now,
        timers := T, sent := S, tokens := s.tokens + 1 } [] ∧
      AL.keys T = AL.keys S ∧ (AL.keys T).Nodup ∧
      (∀ q, q ∈ AL.keys T ↔ q ∈ AL.keys s.timers ∧ ¬ (q < a.ackno ∨ q = a.pid)) ∧ (∀ x ∈ T, x ∈ s.timers) := by
  obtain ⟨T, S, r, r2⟩ := newAck_spec ({ s with cc := ccBeforeNew s, dupack := 0 } : Sender ℚ) a (weak_ccBeforeNew s h) hk hn
  exact ⟨T, S, by rw [ackStep_new s a hok hd, r], r2⟩

/-! ## `timeout_callback` -/

theorem backoff_eq (e : RttEst ℚ) : TCPPacketGenerator.timeout_backoff e = { e with rto := e.rto * 2 } := by
  unfold TCPPacketGenerator.timeout_backoff
  simp only [ofNat_eq, Nat.cast_ofNat]

/-- a due timer fires: window collapse, retransmission, RTO back-off, re-arming - and no exception -/
theorem fireStep_spec (s : Sender ℚ) (seq : Nat) (tr : TimerRec ℚ) (ht : AL.get? seq s.timers = some tr)
    (hdue : tr.live = true ∧ tr.wake = s.now ∧ ¬ s.now < tr.expiry) :
    ∃ S, s.fireStep seq = .ok { s with cc := CC.timerExpired s.kind s.cc, sent := S,
                                        est := TCPPacketGenerator.timeout_backoff s.est,
                                        timers := AL.set seq (arm s.now (TCPPacketGenerator.timeout_backoff s.est).rto) s.timers }
                                ((({ s with cc := CC.timerExpired s.kind s.cc } : Sender ℚ).resend seq).2) ∧
      AL.keys S = AL.keys s.sent ∧
      (({ s with cc := CC.timerExpired s.kind s.cc } : Sender ℚ).resend seq).1 =
        { s with cc := CC.timerExpired s.kind s.cc, sent := S } := by
  obtain ⟨S, hS, hk⟩ := resend_frame ({ s with cc := CC.timerExpired s.kind s.cc } : Sender ℚ) seq
  refine ⟨S, ?_, hk, hS⟩
  unfold Sender.fireStep
  rw [ht]
  have hd : (!tr.live || !Num.eqb tr.wake s.now || decide (s.now < tr.expiry)) = false := by
    rw [hdue.1, (eqb_iff _ _).mpr hdue.2.1]
    simp [hdue.2.2]
  simp only [hd, Bool.false_eq_true, if_false]
  rw [hS]
  simp only [ht]

/-! ## every accepted action keeps the invariant; no action raises -/

/-- ACK packets carry `flow_id ≥ 10000` (the sink builds them as `flow_id + 10000`) -/
def ActOk : Act ℚ → Prop
  | .ack a => 10000 ≤ a.fid
  | _ => True

theorem inv_resend {s : Sender ℚ} (h : Inv s) (seq : Nat) : Inv (s.resend seq).1 := by
  obtain ⟨S, hS, hk⟩ := resend_frame s seq
  rw [hS]
  exact ⟨h.cc, by show AL.keys s.timers = AL.keys S; rw [hk]; exact h.keys, h.nodup, h.rto_pos, h.srtt_pos,
    h.dev_nonneg, h.buf⟩

theorem ackStep_safe {s : Sender ℚ} (h : Inv s) (a : AckIn ℚ) (hf : 10000 ≤ a.fid) :
    (∀ e, s.ackStep a ≠ .error e) ∧ ∀ s' outs, s.ackStep a = .ok s' outs → Inv s' := by
  by_cases hp : s.now < a.ptime
  · have : s.ackStep a = .reject .fromFuture := by
      unfold Sender.ackStep
      simp only [Nat.not_lt.mpr hf, hp, if_true, if_false]
    rw [this]
    exact ⟨fun e he => (by cases he), fun s' o he => (by cases he)⟩
  have hok : AckOk s a := ⟨hf, not_lt.mp hp⟩
  rcases Nat.lt_trichotomy a.ackno s.last_ack with hst | hd | hd
  · rw [ackStep_stale s a hok hst]
    refine ⟨fun e he => (by cases he), fun s' o he => ?_⟩
    injection he with he; subst he
    exact h
  · rcases Nat.lt_trichotomy s.dupack 2 with h2 | h2 | h2
    · rw [ackStep_early s a hok hd h2]
      refine ⟨fun e he => (by cases he), fun s' o he => ?_⟩
      injection he with he; subst he
      exact h.transfer rfl rfl rfl rfl rfl h.buf
    · rw [ackStep_third s a hok hd h2]
      refine ⟨fun e he => (by cases he), fun s' o he => ?_⟩
      injection he with he; subst he
      unfold Sender.thirdDup
      apply inv_resend
      exact ⟨inv_third h.cc, h.keys, h.nodup, h.rto_pos, h.srtt_pos, h.dev_nonneg, h.buf⟩
    · rw [ackStep_more s a hok hd (by omega)]
      refine ⟨fun e he => (by cases he), fun s' o he => ?_⟩
      injection he with he; subst he
      have hi : Inv ({ s with dupack := s.dupack + 1, cc := CongestionControl.more_dupacks_received s.cc } : Sender ℚ) :=
        ⟨inv_more h.cc, h.keys, h.nodup, h.rto_pos, h.srtt_pos, h.dev_nonneg, h.buf⟩
      unfold Sender.moreDup
      simp only
      split_ifs
      · exact inv_resend hi _
      · exact hi
  · obtain ⟨T, S, r1, r2, r3, _, _⟩ := ackStep_new_spec s a h.cc h.keys h.nodup hok hd
    rw [r1]
    refine ⟨fun e he => (by cases he), fun s' o he => ?_⟩
    injection he with he; subst he
    obtain ⟨p1, p2, p3⟩ := estimator_pos s.est s.now a.ptime h.srtt_pos h.dev_nonneg (not_lt.mp hp)
    exact ⟨(inv_ack (weak_ccBeforeNew s h.cc) _ _).2, r2, r3, p1, p2, p3, h.buf⟩

theorem fireStep_safe {s : Sender ℚ} (h : Inv s) (seq : Nat) :
    (∀ e, s.fireStep seq ≠ .error e) ∧ ∀ s' outs, s.fireStep seq = .ok s' outs → Inv s' := by
  cases ht : AL.get? seq s.timers with
  | none =>
    have : s.fireStep seq = .reject .noTimer := by unfold Sender.fireStep; rw [ht]
    rw [this]; exact ⟨fun e he => (by cases he), fun s' o he => (by cases he)⟩
  | some tr =>
    by_cases hdue : tr.live = true ∧ tr.wake = s.now ∧ ¬ s.now < tr.expiry
    · obtain ⟨S, r1, r2, _⟩ := fireStep_spec s seq tr ht hdue
      rw [r1]
      refine ⟨fun e he => (by cases he), fun s' o he => ?_⟩
      injection he with he; subst he
      refine ⟨inv_timer h.cc, ?_, ?_, ?_, ?_, ?_, h.buf⟩
      · show AL.keys (AL.set seq _ s.timers) = AL.keys S
        rw [AL.keys_set_of_mem _ _ _ (AL.mem_of_get?_some ht), r2]; exact h.keys
      · show (AL.keys (AL.set seq _ s.timers)).Nodup
        exact AL.nodup_keys_set _ _ _ h.nodup
      · rw [backoff_eq]; show 0 < s.est.rto * 2; have := h.rto_pos; linarith
      · rw [backoff_eq]; exact h.srtt_pos
      · rw [backoff_eq]; exact h.dev_nonneg
    · have : s.fireStep seq = .reject .notDue := by
        unfold Sender.fireStep
        rw [ht]
        have hd : (!tr.live || !Num.eqb tr.wake s.now || decide (s.now < tr.expiry)) = true := by
          by_contra hc
          apply hdue
          simp only [Bool.or_eq_true, Bool.not_eq_true', decide_eq_true_eq, not_or, Bool.not_eq_false] at hc
          exact ⟨hc.1.1, (eqb_iff _ _).mp hc.1.2, hc.2⟩
        simp only [hd, if_true]
      rw [this]; exact ⟨fun e he => (by cases he), fun s' o he => (by cases he)⟩

/-- **no action of the sender LTS raises, and every accepted action keeps the invariant** -/
theorem step_safe {s : Sender ℚ} (h : Inv s) (a : Act ℚ) (ha : ActOk a) :
    (∀ e, s.step a ≠ .error e) ∧ ∀ s' outs, s.step a = .ok s' outs → Inv s' := by
  cases a with
  | wake fuel =>
    show (∀ e, s.wakeStep fuel ≠ .error e) ∧ ∀ s' outs, s.wakeStep fuel = .ok s' outs → Inv s'
    unfold Sender.wakeStep
    split_ifs
    · obtain ⟨h1, h2⟩ := runLoop_spec fuel s [] h
      refine ⟨h1, fun s' o he => ?_⟩
      obtain ⟨new, _, hem⟩ := h2 s' o he
      exact emits_inv hem h
    · exact ⟨fun e he => (by cases he), fun s' o he => (by cases he)⟩
  | handoff =>
    show (∀ e, s.handoffStep ≠ .error e) ∧ ∀ s' outs, s.handoffStep = .ok s' outs → Inv s'
    unfold Sender.handoffStep
    split_ifs
    · refine ⟨fun e he => (by cases he), fun s' o he => ?_⟩
      injection he with he; subst he
      exact h.transfer rfl rfl rfl rfl rfl h.buf
    · exact ⟨fun e he => (by cases he), fun s' o he => (by cases he)⟩
  | ack x => exact ackStep_safe h x ha
  | fire seq => exact fireStep_safe h seq
  | tick t =>
    show (∀ e, s.tickStep t ≠ .error e) ∧ ∀ s' outs, s.tickStep t = .ok s' outs → Inv s'
    unfold Sender.tickStep
    split_ifs
    · exact ⟨fun e he => (by cases he), fun s' o he => (by cases he)⟩
    · exact ⟨fun e he => (by cases he), fun s' o he => (by cases he)⟩
    · exact ⟨fun e he => (by cases he), fun s' o he => (by cases he)⟩
    · exact ⟨fun e he => (by cases he), fun s' o he => (by cases he)⟩
    · refine ⟨fun e he => (by cases he), fun s' o he => ?_⟩
      injection he with he; subst he
      exact h.transfer rfl rfl rfl rfl rfl h.buf

/-- a timer is cancelled only by a new ACK that covers (`q < ackno`) or answers (`q = packet_id`) its segment -/
theorem timer_cancel_only_by_ack (s s' : Sender ℚ) (a : Act ℚ) (outs : List (Tx ℚ)) (h : Inv s) (ha : ActOk a)
    (hs : s.step a = .ok s' outs) (q : Nat) (hq : q ∈ AL.keys s.timers) (hq' : q ∉ AL.keys s'.timers) :
    ∃ x, a = .ack x ∧ s.last_ack < x.ackno ∧ (q < x.ackno ∨ q = x.pid) := by
  cases a with
  | wake fuel =>
    exfalso
    have hs' : s.wakeStep fuel = .ok s' outs := hs
    unfold Sender.wakeStep at hs'
    split_ifs at hs'
    obtain ⟨new, _, hem⟩ := (runLoop_spec fuel s [] h).2 s' outs hs'
    exact hq' (emits_keeps_timers hem h q hq)
  | handoff =>
    exfalso
    have hs' : s.handoffStep = .ok s' outs := hs
    unfold Sender.handoffStep at hs'
    split_ifs at hs'
    injection hs' with e1; subst e1; exact hq' hq
  | tick t =>
    exfalso
    have hs' : s.tickStep t = .ok s' outs := hs
    unfold Sender.tickStep at hs'
    split_ifs at hs'
    injection hs' with e1; subst e1; exact hq' hq
  | fire seq =>
    exfalso
    cases ht : AL.get? seq s.timers with
    | none =>
      have : s.step (.fire seq) = .reject .noTimer := by show s.fireStep seq = _; unfold Sender.fireStep; rw [ht]
      rw [this] at hs; cases hs
    | some tr =>
      by_cases hdue : tr.live = true ∧ tr.wake = s.now ∧ ¬ s.now < tr.expiry
      · obtain ⟨S, r, _, _⟩ := fireStep_spec s seq tr ht hdue
        have hs' : s.fireStep seq = .ok s' outs := hs
        rw [r] at hs'; injection hs' with e1; subst e1
        apply hq'
        show q ∈ AL.keys (AL.set seq _ s.timers)
        rw [AL.keys_set_of_mem _ _ _ (AL.mem_of_get?_some ht)]; exact hq
      · have hs' : s.fireStep seq = .ok s' outs := hs
        unfold Sender.fireStep at hs'
        rw [ht] at hs'
        have hd : (!tr.live || !Num.eqb tr.wake s.now || decide (s.now < tr.expiry)) = true := by
          by_contra hc
          apply hdue
          simp only [Bool.or_eq_true, Bool.not_eq_true', decide_eq_true_eq, not_or, Bool.not_eq_false] at hc
          exact ⟨hc.1.1, (eqb_iff _ _).mp hc.1.2, hc.2⟩
        simp only [hd, if_true] at hs'
        cases hs'
  | ack x =>
    have hs' : s.ackStep x = .ok s' outs := hs
    have hf : 10000 ≤ x.fid := ha
    by_cases hp : s.now < x.ptime
    · unfold Sender.ackStep at hs'
      simp only [Nat.not_lt.mpr hf, hp, if_true, if_false] at hs'
      cases hs'
    have hok : AckOk s x := ⟨hf, not_lt.mp hp⟩
    rcases Nat.lt_trichotomy x.ackno s.last_ack with hst | hd | hd
    · exfalso
      rw [ackStep_stale s x hok hst] at hs'
      injection hs' with e1; subst e1; exact hq' hq
    · exfalso
      rcases Nat.lt_trichotomy s.dupack 2 with h2 | h2 | h2
      · rw [ackStep_early s x hok hd h2] at hs'
        injection hs' with e1; subst e1; exact hq' hq
      · rw [ackStep_third s x hok hd h2] at hs'
        injection hs' with e1; subst e1
        obtain ⟨S, hS, _⟩ := resend_frame
          ({ s with dupack := 3, cc := CongestionControl.consecutive_dupacks_received s.cc } : Sender ℚ) x.ackno
        unfold Sender.thirdDup at hq'
        rw [hS] at hq'; exact hq' hq
      · rw [ackStep_more s x hok hd (by omega)] at hs'
        injection hs' with e1; subst e1
        obtain ⟨S, hS, _⟩ := resend_frame
          ({ s with dupack := s.dupack + 1, cc := CongestionControl.more_dupacks_received s.cc } : Sender ℚ) x.ackno
        unfold Sender.moreDup at hq'
        simp only at hq'
        split_ifs at hq'
        · rw [hS] at hq'; exact hq' hq
        · exact hq' hq
    · refine ⟨x, rfl, hd, ?_⟩
      by_contra hnot
      obtain ⟨T, S, r, _, _, hT, _⟩ := ackStep_new_spec s x h.cc h.keys h.nodup hok hd
      rw [r] at hs'; injection hs' with e1; subst e1
      exact hq' ((hT q).mpr ⟨hq, hnot⟩)

/-! ## all runs -/

/-- states reachable from `s0` by accepted actions (`ActOk`: ACKs carry `flow_id ≥ 10000`) -/
inductive Reach (s0 : Sender ℚ) : Sender ℚ → Prop
  | init : Reach s0 s0
  | step {s s' : Sender ℚ} {a : Act ℚ} {outs : List (Tx ℚ)} : Reach s0 s → ActOk a → s.step a = .ok s' outs → Reach s0 s'

theorem reach_inv {s0 s : Sender ℚ} (h0 : Inv s0) (hr : Reach s0 s) : Inv s := by
  induction hr with
  | init => exact h0
  | step _ ha hs ih => exact (step_safe ih _ ha).2 _ _ hs

/-- what one resumption of `run` emits: consecutive MSS-sized new segments, each inside the window -/
theorem emits_window {s s' : Sender ℚ} {outs : List (Tx ℚ)} (he : Emits s outs s') (h : Inv s) :
    ∀ i (hi : i < outs.length), (outs[i]).seq = s.next_seq + i * s.mss ∧ (outs[i]).size = s.mss ∧
      (outs[i]).kind = .new ∧ (outs[i]).stamp = s.now ∧
      (((outs[i]).seq : ℚ) + s.mss ≤ s.last_ack + s.cc.cwnd) := by
  induction he with
  | stop _ => intro i hi; simp at hi
  | @send s s1 s' tx rest hs _ ih =>
    obtain ⟨hi1, htx, hn, hl, hc, hm, hnow, _, _, _, _, hw⟩ := (sendStep_spec h).2.1 _ _ hs
    intro i hi
    cases i with
    | zero =>
      simp only [List.getElem_cons_zero, htx, Nat.zero_mul, Nat.add_zero, true_and]
      unfold InWindow at hw
      exact le_trans hw (min_le_right _ _)
    | succ i =>
      have hi' : i < rest.length := by simpa using hi
      obtain ⟨a1, a2, a3, a4, a5⟩ := ih hi1 i hi'
      simp only [List.getElem_cons_succ]
      refine ⟨?_, by rw [a2, hm], a3, by rw [a4, hnow], ?_⟩
      · rw [a1, hn, hm]; ring
      · rw [hl, hc, hm] at a5; exact a5

/-! ## loss-free, timely runs -/

/-- nothing is being retransmitted or about to be: no duplicate ACKs are being counted and no pending timer has
reached its wake-up instant -/
structure Calm (s : Sender ℚ) : Prop where
  nodup : s.dupack = 0
  early : ∀ kv ∈ s.timers, s.now < kv.2.wake

/-- what a loss-free, order-preserving path with RTT below the RTO presents to the sender: every ACK acknowledges
exactly the next unacknowledged segment (`ackno = last_ack + MSS`, echoing `packet_id = last_ack` - the sink's
answer to in-order arrivals, `C16.sink_in_order`), and the clock never reaches the wake-up instant of a pending timer
(the ACK of a segment is back before that segment's RTO expires) -/
def TimelyAct (s : Sender ℚ) : Act ℚ → Prop
  | .ack a => 10000 ≤ a.fid ∧ a.ackno = s.last_ack + s.mss ∧ a.pid = s.last_ack
  | .tick t => ∀ kv ∈ s.timers, t < kv.2.wake
  | _ => True

theorem emits_next {s s' : Sender ℚ} {outs : List (Tx ℚ)} (he : Emits s outs s') (h : Inv s) :
    s'.next_seq = s.next_seq + outs.length * s.mss ∧ s'.mss = s.mss := by
  induction he with
  | @stop s s' hs =>
    obtain ⟨_, _, _, _, hn, hmss⟩ := (sendStep_spec h).2.2 _ hs
    exact ⟨by simp [hn], hmss⟩
  | @send s s1 s' tx rest hs _ ih =>
    obtain ⟨hi1, _, hn, _, _, hm, _⟩ := (sendStep_spec h).2.1 _ _ hs
    obtain ⟨a, b⟩ := ih hi1
    refine ⟨?_, by rw [b, hm]⟩
    rw [a, hn, hm]; simp only [List.length_cons]; ring

theorem emits_calm {s s' : Sender ℚ} {outs : List (Tx ℚ)} (he : Emits s outs s') (h : Inv s) (hc : Calm s) :
    Calm s' ∧ s'.now = s.now := by
  induction he with
  | stop hs =>
    obtain ⟨_, ht, hn, hd, _, _⟩ := (sendStep_spec h).2.2 _ hs
    exact ⟨⟨by rw [hd]; exact hc.nodup, by rw [ht, hn]; exact hc.early⟩, hn⟩
  | @send s s1 s' tx rest hs _ ih =>
    obtain ⟨hi1, _, _, _, _, _, hnow, hd, _, _, ht, _⟩ := (sendStep_spec h).2.1 _ _ hs
    have hc1 : Calm s1 := by
      refine ⟨by rw [hd]; exact hc.nodup, ?_⟩
      intro kv hkv
      rw [ht] at hkv
      rw [hnow]
      rcases AL.mem_set hkv with e | hm
      · rw [e, arm_eq _ _ h.rto_pos]
        show s.now < s.now + s.est.rto
        have := h.rto_pos; linarith
      · exact hc.early kv hm
    obtain ⟨a, b⟩ := ih hi1 hc1
    exact ⟨a, by rw [b, hnow]⟩

/-- in a calm state no timer can fire -/
theorem calm_no_fire {s : Sender ℚ} (hc : Calm s) (seq : Nat) :
    s.step (.fire seq) = .reject .noTimer ∨ s.step (.fire seq) = .reject .notDue := by
  show s.fireStep seq = _ ∨ s.fireStep seq = _
  unfold Sender.fireStep
  cases ht : AL.get? seq s.timers with
  | none => exact Or.inl rfl
  | some tr =>
    right
    have hmem : (seq, tr) ∈ s.timers := AL.pair_mem_of_get?_some ht
    have hlt := hc.early _ hmem
    have : Num.eqb tr.wake s.now = false := (eqb_false_iff _ _).mpr (ne_of_gt hlt)
    simp [this]

/-- one timely action in a calm state: it stays calm, nothing is retransmitted, new segments carry the next
sequence numbers -/
theorem calm_step {s s' : Sender ℚ} {a : Act ℚ} {outs : List (Tx ℚ)} (h : Inv s) (hc : Calm s) (hm : 0 < s.mss)
    (ha : TimelyAct s a) (hs : s.step a = .ok s' outs) :
    Calm s' ∧ s'.mss = s.mss ∧ s.next_seq ≤ s'.next_seq ∧
    (∀ i (hi : i < outs.length), (outs[i]).kind = .new ∧ (outs[i]).seq = s.next_seq + i * s.mss) ∧
    s'.next_seq = s.next_seq + outs.length * s.mss := by
  cases a with
  | wake fuel =>
    have hs' : s.wakeStep fuel = .ok s' outs := hs
    unfold Sender.wakeStep at hs'
    split_ifs at hs'
    obtain ⟨new, e, hem⟩ := (runLoop_spec fuel s [] h).2 s' outs hs'
    simp only [List.nil_append] at e
    subst e
    obtain ⟨n1, n2⟩ := emits_next hem h
    refine ⟨(emits_calm hem h hc).1, n2, by rw [n1]; exact Nat.le_add_right _ _, ?_, n1⟩
    intro i hi
    obtain ⟨a1, _, a3, _, _⟩ := emits_window hem h i hi
    exact ⟨a3, a1⟩
  | handoff =>
    have hs' : s.handoffStep = .ok s' outs := hs
    unfold Sender.handoffStep at hs'
    split_ifs at hs'
    injection hs' with e1 e2; subst e1 e2
    exact ⟨⟨hc.nodup, hc.early⟩, rfl, Nat.le_refl _, fun i hi => by simp at hi, by simp⟩
  | ack x =>
    obtain ⟨hf, hno, _⟩ := ha
    have hs' : s.ackStep x = .ok s' outs := hs
    by_cases hp : s.now < x.ptime
    · unfold Sender.ackStep at hs'
      simp only [Nat.not_lt.mpr hf, hp, if_true, if_false] at hs'
      cases hs'
    have hok : AckOk s x := ⟨hf, not_lt.mp hp⟩
    have hnew : s.last_ack < x.ackno := by omega
    obtain ⟨T, S, r, _, _, _, hsub⟩ := ackStep_new_spec s x h.cc h.keys h.nodup hok hnew
    rw [r] at hs'
    injection hs' with e1 e2; subst e1 e2
    exact ⟨⟨rfl, fun kv hkv => hc.early kv (hsub kv hkv)⟩, rfl, Nat.le_refl _, fun i hi => by simp at hi, by simp⟩
  | fire seq =>
    rcases calm_no_fire hc seq with e | e <;> (rw [e] at hs; cases hs)
  | tick t =>
    have hs' : s.tickStep t = .ok s' outs := hs
    unfold Sender.tickStep at hs'
    split_ifs at hs'
    injection hs' with e1 e2; subst e1 e2
    exact ⟨⟨hc.nodup, ha⟩, rfl, Nat.le_refl _, fun i hi => by simp at hi, by simp⟩

/-- a run in which every action is timely for the state it meets -/
inductive TimelyRun : Sender ℚ → List (Act ℚ) → Sender ℚ → List (Tx ℚ) → Prop
  | nil (s : Sender ℚ) : TimelyRun s [] s []
  | cons {s s1 s2 : Sender ℚ} {a : Act ℚ} {rest : List (Act ℚ)} {o1 o2 : List (Tx ℚ)} :
      TimelyAct s a → s.step a = .ok s1 o1 → TimelyRun s1 rest s2 o2 → TimelyRun s (a :: rest) s2 (o1 ++ o2)

theorem timelyRun_spec {s s' : Sender ℚ} {acts : List (Act ℚ)} {outs : List (Tx ℚ)} (hr : TimelyRun s acts s' outs)
    (h : Inv s) (hc : Calm s) (hm : 0 < s.mss) :
    Inv s' ∧ Calm s' ∧ s'.mss = s.mss ∧ s.next_seq ≤ s'.next_seq ∧
    (∀ tx ∈ outs, tx.kind = .new ∧ s.next_seq ≤ tx.seq ∧ tx.seq < s'.next_seq) ∧
    outs.Pairwise (fun x y => x.seq < y.seq) ∧ (∀ seq, Act.fire seq ∉ acts) := by
  induction hr with
  | nil s => exact ⟨h, hc, rfl, Nat.le_refl _, fun tx htx => by simp at htx, List.Pairwise.nil, fun seq => by simp⟩
  | @cons s s1 s2 a rest o1 o2 ha hs _ ih =>
    have haok : ActOk a := by
      cases a with
      | ack x => exact ha.1
      | _ => trivial
    have hi1 := (step_safe h a haok).2 _ _ hs
    obtain ⟨c1, m1, n1, f1, l1⟩ := calm_step h hc hm ha hs
    obtain ⟨i2, c2, m2, n2, f2, p2, nf2⟩ := ih hi1 c1 (by rw [m1]; exact hm)
    have ho1 : ∀ tx ∈ o1, tx.kind = .new ∧ s.next_seq ≤ tx.seq ∧ tx.seq < s1.next_seq := by
      intro tx htx
      obtain ⟨i, hi, rfl⟩ := List.getElem_of_mem htx
      obtain ⟨k1, k2⟩ := f1 i hi
      refine ⟨k1, by rw [k2]; exact Nat.le_add_right _ _, ?_⟩
      rw [k2, l1]
      have : i * s.mss < o1.length * s.mss := Nat.mul_lt_mul_of_pos_right hi hm
      omega
    have hp1 : o1.Pairwise (fun x y => x.seq < y.seq) := by
      rw [List.pairwise_iff_getElem]
      intro i j hi hj hij
      rw [(f1 i hi).2, (f1 j hj).2]
      have : i * s.mss < j * s.mss := Nat.mul_lt_mul_of_pos_right hij hm
      omega
    refine ⟨i2, c2, by rw [m2, m1], Nat.le_trans n1 n2, ?_, ?_, ?_⟩
    · intro tx htx
      rcases List.mem_append.mp htx with h1 | h1
      · obtain ⟨a1, a2, a3⟩ := ho1 tx h1
        exact ⟨a1, a2, Nat.lt_of_lt_of_le a3 n2⟩
      · obtain ⟨a1, a2, a3⟩ := f2 tx h1
        exact ⟨a1, Nat.le_trans n1 a2, a3⟩
    · rw [List.pairwise_append]
      refine ⟨hp1, p2, ?_⟩
      intro x hx y hy
      exact Nat.lt_of_lt_of_le (ho1 x hx).2.2 (f2 y hy).2.1
    · intro seq hmem
      rcases List.mem_cons.mp hmem with e | e
      · subst e
        rcases calm_no_fire hc seq with e | e <;> (rw [e] at hs; cases hs)
      · exact nf2 seq e

end TcpSender
