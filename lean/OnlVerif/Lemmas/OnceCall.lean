import OnlVerif.Lemmas.OnceRes
/-! # The invariant through conditions, every API call, and whole bursts -/

namespace Once
variable {σ : Type}

theorem out_none_of_not_triggered (s : KState ℚ σ) (e : EvId) (h : ¬ s.triggered e = true) : (s.ev e).out = none := by
  unfold KState.triggered at h
  cases ho : (s.ev e).out with
  | none => rfl
  | some o => rw [ho] at h; exact absurd rfl h

/-! ## conditions -/

theorem Inv.condCheck {g : Ghost} {s : KState ℚ σ} (hi : Inv g s) (c e : EvId) (hc : isCond s c = true) :
    Inv g (_root_.condCheck s c e) := by
  unfold _root_.condCheck
  split
  · exact hi
  · rename_i hnt
    have hout := out_none_of_not_triggered s c hnt
    have hlt := lt_of_isCond s c hc
    have hb : SameC s (s.bumpCount c) := SameC.of_setEv s c _ rfl rfl rfl
    split
    · have hd : SameC (s.bumpCount c) ((s.bumpCount c).defuse e) := SameC.of_setEv _ e _ rfl rfl rfl
      refine ((hi.bumpCount c).defuse e).trigger c _ ?_ ?_ ?_
      · rw [hd.size, hb.size]; exact hlt
      · rw [hd.out, hb.out]; exact hout
      · right; rw [isCond_congr (hd.kind c), isCond_congr (hb.kind c)]; exact hc
    · split
      · refine (hi.bumpCount c).trigger c _ ?_ ?_ ?_
        · rw [hb.size]; exact hlt
        · rw [hb.out]; exact hout
        · right; rw [isCond_congr (hb.kind c)]; exact hc
      · exact hi.bumpCount c

theorem Inv.eraseCheck {g : Ghost} {s : KState ℚ σ} (hi : Inv g s) (c e : EvId) : Inv g (_root_.eraseCheck s c e) := by
  unfold _root_.eraseCheck
  split
  · split
    · exact hi.eraseCb_other _ _ (fun p h => by cases h)
    · exact hi
  · exact hi

theorem Inv.foldl {g : Ghost} {α : Type} (f : KState ℚ σ → α → KState ℚ σ) (hf : ∀ s a, Inv g s → Inv g (f s a)) :
    ∀ (l : List α) (s : KState ℚ σ), Inv g s → Inv g (l.foldl f s)
  | [], _, hi => hi
  | a :: l, s, hi => Inv.foldl f hf l (f s a) (hf s a hi)

theorem Inv.removeChecks {g : Ghost} : ∀ (fuel : Nat) (c : EvId) (s : KState ℚ σ), Inv g s →
    Inv g (_root_.removeChecks fuel c s)
  | 0, _, _, hi => hi
  | n + 1, c, s, hi => by
    unfold _root_.removeChecks
    apply Inv.foldl _ _ _ _ hi
    intro s e hs
    split
    · exact Inv.removeChecks n e _ (hs.eraseCheck c e)
    · exact hs.eraseCheck c e

theorem Inv.condBuild {g : Ghost} {s : KState ℚ σ} (hi : Inv g s) (c : EvId) : Inv g (_root_.condBuild s c) := by
  unfold _root_.condBuild
  simp only
  split
  · rename_i v hv
    exact (Inv.removeChecks _ _ s hi).setOut_triggered c _ (by rw [hv]; simp)
  · exact Inv.removeChecks _ _ s hi

theorem mkCond_eq (s : KState ℚ σ) (all : Bool) (ops : List EvId) :
    (_root_.mkCond s all ops).1 =
      if ops.isEmpty then (s.newLabelled { kind := .cond all ops, cbs := some [], out := none }).1.trigger s.events.size (.ok (.cv []))
      else (ops.foldl (fun x e => if x.processed e then _root_.condCheck x s.events.size e
          else x.addCb e (.check s.events.size))
        (s.newLabelled { kind := .cond all ops, cbs := some [], out := none }).1).addCb s.events.size (.build s.events.size) := by
  unfold _root_.mkCond
  simp only
  split <;> rfl

theorem Inv.mkCond {g : Ghost} {s : KState ℚ σ} (hi : Inv g s) (all : Bool) (ops : List EvId) :
    Inv g (_root_.mkCond s all ops).1 := by
  rw [mkCond_eq]
  have h1 : Inv g (s.newLabelled { kind := .cond all ops, cbs := some [], out := none }).1 :=
    hi.newLabelled_pending _ [] rfl (fun p hm => by simp at hm) (fun iv hm => by simp at hm) (fun c hm => by simp at hm) rfl
  have hev : (s.newLabelled { kind := .cond all ops, cbs := some [], out := none }).1.ev s.events.size =
      { kind := .cond all ops, cbs := some [], out := none, label := s.nlabel + 1 } := by
    rw [KState.ev_newLabelled, if_pos rfl]
  have hc1 : isCond (s.newLabelled { kind := .cond all ops, cbs := some [], out := none }).1 s.events.size = true := by
    unfold isCond; rw [hev]
  have hsz : s.events.size < (s.newLabelled { kind := .cond all ops, cbs := some [], out := none }).1.events.size := by
    simp [KState.newLabelled]
  generalize (s.newLabelled { kind := .cond all ops, cbs := some [], out := none }).1 = s1 at h1 hev hc1 hsz
  generalize s.events.size = c at hev hc1 hsz
  split
  · exact h1.trigger _ _ hsz (by rw [hev]) (Or.inr hc1)
  · -- the operands are subscribed or checked one by one; the condition stays a condition
    have hfold : ∀ (l : List EvId) (x : KState ℚ σ), Inv g x → isCond x c = true →
        Inv g (l.foldl (fun x e => if x.processed e then _root_.condCheck x c e else x.addCb e (.check c)) x) ∧
        isCond (l.foldl (fun x e => if x.processed e then _root_.condCheck x c e else x.addCb e (.check c)) x) c = true := by
      intro l
      induction l with
      | nil => intro x hx hcx; exact ⟨hx, hcx⟩
      | cons a l ih =>
        intro x hx hcx
        simp only [List.foldl_cons]
        apply ih
        · split
          · exact hx.condCheck _ _ hcx
          · exact hx.addCb _ (.check c) (fun p h => by cases h) (fun iv h => by cases h) (fun c' h => by cases h; exact hcx)
        · have hlt := lt_of_isCond x _ hcx
          split
          · rw [isCond_congr ((EvMono.krel.condCheck x _ a).kind _ hlt)]; exact hcx
          · have : ((x.addCb a (.check c)).ev c).kind = (x.ev c).kind := kind_setEv x a c _ rfl
            rw [isCond_congr this]; exact hcx
    obtain ⟨h2, _⟩ := hfold ops s1 h1 hc1
    exact h2.addCb _ (.build c) (fun p h => by cases h) (fun iv h => by cases h) (fun c' h => by cases h)

/-! ## `env.process(...)` -/

theorem Inv.spawn {g : Ghost} {s : KState ℚ σ} (hi : Inv g s) (self : EvId) (st : σ) :
    Inv g (doCall s self (.spawn st)).1 := by
  simp only [_root_.doCall]
  -- the process event
  have h1 : Inv g (s.newLabelled { kind := .proc, cbs := some [], out := none }).1 :=
    hi.newLabelled_pending _ [] rfl (fun p hm => by simp at hm) (fun iv hm => by simp at hm) (fun c hm => by simp at hm) rfl
  have hev1 : ∀ e, (s.newLabelled { kind := .proc, cbs := some [], out := none }).1.ev e =
      if e = s.events.size then { kind := .proc, cbs := some [], out := none, label := s.nlabel + 1 } else s.ev e :=
    fun e => KState.ev_newLabelled s _ e
  have hsz1 : (s.newLabelled { kind := .proc, cbs := some [], out := none }).1.events.size = s.events.size + 1 := by
    simp [KState.newLabelled]
  have hp1 : ∀ p, (s.newLabelled { kind := .proc, cbs := some [], out := none }).1.proc? p = s.proc? p := fun _ => rfl
  have hr1 : ∀ r, (s.newLabelled { kind := .proc, cbs := some [], out := none }).1.res r = s.res r := fun _ => rfl
  have ha1 : (s.newLabelled { kind := .proc, cbs := some [], out := none }).1.agenda = s.agenda := rfl
  generalize (s.newLabelled { kind := .proc, cbs := some [], out := none }).1 = s1 at h1 hev1 hsz1 hp1 hr1 ha1
  -- no record, registration or ghost mentions the new process yet
  have hnoproc : s.proc? s.events.size = none := by
    cases h : s.proc? s.events.size with
    | none => rfl
    | some pr => exact absurd (lt_of_proc s _ (hi.c.procs _ pr h)) (Nat.lt_irrefl _)
  have hkp : (s1.ev s.events.size).kind = .proc := by rw [hev1, if_pos rfl]
  have hop : (s1.ev s.events.size).out = none := by rw [hev1, if_pos rfl]
  have hunreg : Unreg s1 s.events.size := by
    intro e L hL hm
    obtain ⟨_, ⟨pr, h2, _⟩, _⟩ := h1.c.reg e L _ hL hm
    rw [hp1, hnoproc] at h2; cases h2
  -- the process record
  have h2c : InvC g (s1.setProc s.events.size { st := st, target := some (s.events.size + 1) }) :=
    h1.c.setProc _ _ hkp (fun e L hL hm => absurd hm (hunreg e L hL))
  have hp2 : ∀ p, (s1.setProc s.events.size { st := st, target := some (s.events.size + 1) }).proc? p =
      if p = s.events.size then some { st := st, target := some (s.events.size + 1) } else s.proc? p := by
    intro p; rw [proc?_setProc]; split
    · rfl
    · exact hp1 p
  generalize hs2 : s1.setProc s.events.size { st := st, target := some (s.events.size + 1) } = s2 at h2c hp2
  have hev2 : ∀ e, s2.ev e = s1.ev e := fun e => by rw [← hs2]; rfl
  have hsz2 : s2.events.size = s.events.size + 1 := by rw [← hs2]; exact hsz1
  have hr2 : ∀ r, s2.res r = s.res r := fun r => by rw [← hs2]; exact hr1 r
  have ha2 : s2.agenda = s.agenda := by rw [← hs2]; exact ha1
  -- the Initialize event
  have hnotrem : Cb.resume s.events.size ∉ g.rem ∧ g.run ≠ some s.events.size := by
    constructor
    · intro h
      exact absurd (lt_of_proc s _ (hi.c.pend _ (Or.inl h)).2.1) (Nat.lt_irrefl _)
    · intro h
      exact absurd (lt_of_proc s _ (hi.c.pend _ (Or.inr h)).2.1) (Nat.lt_irrefl _)
  have h3c : InvC g (s2.newEv { kind := .init s.events.size, cbs := some [.resume s.events.size], out := some (.ok .none) }).1 := by
    refine h2c.newEv _ [.resume s.events.size] rfl ?_ (fun iv hm => by simp at hm) (fun c hm => by simp at hm)
    intro p hm
    have hpe : p = s.events.size := by simpa using hm
    subst hpe
    refine ⟨by rw [hev2]; exact hop, ⟨_, by rw [hp2, if_pos rfl], by rw [hsz2]⟩, by simp, by simp, hnotrem.1, hnotrem.2⟩
  have hev3 : ∀ e, (s2.newEv { kind := .init s.events.size, cbs := some [.resume s.events.size], out := some (.ok .none) }).1.ev e =
      if e = s.events.size + 1 then { kind := .init s.events.size, cbs := some [.resume s.events.size], out := some (.ok .none) }
      else s1.ev e := by
    intro e; rw [KState.ev_newEv, hsz2]; split
    · rfl
    · exact hev2 e
  have hsz3 : (s2.newEv { kind := .init s.events.size, cbs := some [.resume s.events.size], out := some (.ok .none) }).1.events.size
      = s.events.size + 2 := by simp [KState.newEv, hsz2]
  have hp3 : ∀ p, (s2.newEv { kind := .init s.events.size, cbs := some [.resume s.events.size], out := some (.ok .none) }).1.proc? p =
      if p = s.events.size then some { st := st, target := some (s.events.size + 1) } else s.proc? p := hp2
  have hr3 : ∀ r, (s2.newEv { kind := .init s.events.size, cbs := some [.resume s.events.size], out := some (.ok .none) }).1.res r
      = s.res r := hr2
  have ha3 : (s2.newEv { kind := .init s.events.size, cbs := some [.resume s.events.size], out := some (.ok .none) }).1.agenda
      = s.agenda := ha2
  generalize (s2.newEv { kind := .init s.events.size, cbs := some [.resume s.events.size], out := some (.ok .none) }).1 = s3
    at h3c hev3 hsz3 hp3 hr3 ha3
  have hold : ∀ e, e < s.events.size → s3.ev e = s.ev e := by
    intro e he
    rw [hev3, if_neg (Nat.ne_of_lt (Nat.lt_succ_of_lt he)), hev1, if_neg (Nat.ne_of_lt he)]
  have h3 : InvX (s.events.size + 1) g s3 := by
    refine ⟨h3c, hi.q.keep (fun r => by rw [hr3]) (fun r => by rw [hr3]) ?_, ⟨?_⟩, ?_⟩
    rotate_right
    · refine (hi.s.toX _).transfer (fun q hq => by rw [ha3]; exact hq) ?_
      intro e he h1' h2'
      rw [hev3, if_neg he, hev1] at h1' h2'
      split at h1'
      · cases h1' rfl
      · rename_i hne
        rw [if_neg hne] at h2'
        exact Or.inl ⟨h1', h2'⟩
    · intro e ho hk
      have hlt : e < s.events.size := by
        apply lt_of_kind
        rcases hk with ⟨r, hr⟩ | ⟨r, hr⟩ <;> rw [hr] <;> simp
      rw [hold e hlt]; exact ⟨rfl, ho⟩
    · intro hlv p pr hpp hout hrun
      rw [hp3] at hpp
      split at hpp
      · rename_i hpe
        cases hpp
        refine ⟨s.events.size + 1, rfl, by rw [hsz3]; exact Nat.lt_succ_self _,
          Or.inr (Or.inl ⟨[.resume s.events.size], ?_, by simp [hpe]⟩)⟩
        rw [hev3, if_pos rfl]
      · have hout' : (s.ev p).out = none := by
          by_cases h : p < s.events.size
          · rw [hold p h] at hout; exact hout
          · rw [ev_default s p h]; rfl
        obtain ⟨t, h1', h2', h3'⟩ := hi.l.live hlv p pr hpp hout' hrun
        refine ⟨t, h1', by rw [hsz3]; exact Nat.lt_add_right 2 h2', ?_⟩
        unfold Held at h3' ⊢
        rw [hold t h2']; exact h3'
  -- and its URGENT agenda entry
  refine h3.schedule _ _ ?_ ?_ ?_
  · rw [hev3, if_pos rfl]; simp
  · rw [hev3, if_pos rfl]; simp
  · intro b hb
    rw [ha3] at hb
    exact Nat.ne_of_lt (Nat.lt_succ_of_lt (hi.c.agenda_lt b hb))

/-! ## every API call -/

theorem Inv.doCall {g : Ghost} {s : KState ℚ σ} (hi : Inv g s) (self : EvId) (c : Call ℚ σ) (hs : SafeCall s c) :
    Inv g (_root_.doCall s self c).1 := by
  cases c
  case spawn st => exact hi.spawn self st
  all_goals simp only [_root_.doCall]
  case timeout d v =>
    split
    · exact hi
    · refine InvX.schedule (hi.newLabelled _ [] rfl (fun p hm => by simp at hm) (fun iv hm => by simp at hm)
        (fun c hm => by simp at hm)) _ _ ?_ ?_ ?_
      · show ((s.newLabelled _).1.ev s.events.size).out ≠ none
        rw [KState.ev_newLabelled, if_pos rfl]; simp
      · show ((s.newLabelled _).1.ev s.events.size).cbs ≠ none
        rw [KState.ev_newLabelled, if_pos rfl]; simp
      · intro b hb
        exact Nat.ne_of_lt (hi.c.agenda_lt b hb)
  case event =>
    exact hi.newLabelled_pending _ [] rfl (fun p hm => by simp at hm) (fun iv hm => by simp at hm)
      (fun c hm => by simp at hm) rfl
  case succeed e v =>
    split
    · exact hi
    · rename_i hnt
      rcases hs with h | ⟨hlt, hk⟩
      · exact absurd h hnt
      · exact hi.trigger e _ hlt (out_none_of_not_triggered s e hnt) hk
  case fail e x =>
    split
    · exact hi
    · rename_i hnt
      rcases hs with h | ⟨hlt, hk⟩
      · exact absurd h hnt
      · exact hi.trigger e _ hlt (out_none_of_not_triggered s e hnt) hk
  case interrupt p cause =>
    split
    · exact hi
    · have := hi.mkInterrupt p cause
      generalize _root_.mkInterrupt s p cause = r at this ⊢
      obtain ⟨s1, o⟩ := r
      cases o <;> exact this
  case probe e tag =>
    split
    · exact hi
    · exact hi.addCb _ _ (fun p h => by cases h) (fun iv h => by cases h) (fun c h => by cases h)
  case cond all ops => exact hi.mkCond all ops
  case request r prio pre =>
    split
    · exact hi
    · exact hi.mkPut r _
  case release r req =>
    split
    · exact hi
    · exact hi.mkGet r _
  case cancel e =>
    have := hi.cancelReq e
    generalize _root_.cancelReq s e = r at this ⊢
    obtain ⟨s1, o⟩ := r
    cases o <;> exact this
  case cput r a =>
    split
    · exact hi
    · split
      · exact hi
      · exact hi.mkPut r _
  case cget r a =>
    split
    · exact hi
    · split
      · exact hi
      · exact hi.mkGet r _
  case sput r it =>
    split
    · exact hi
    · exact hi.mkPut r _
  case sget r f =>
    split
    · exact hi
    · exact hi.mkGet r _
  case log what v => exact hi.emit _
  case load k => exact hi
  case store k v => exact hi.shared _

theorem Inv.noteErr {g : Ghost} (self : EvId) (sr : KState ℚ σ × Reply) (hi : Inv g sr.1) :
    Inv g (_root_.noteErr self sr) := by
  unfold _root_.noteErr
  split
  · exact hi.emit _
  · exact hi

/-- **a whole burst keeps the invariant**, for every program -/
theorem Inv.runBurst {g : Ghost} (self : EvId) : ∀ (b : Burst ℚ σ) (s : KState ℚ σ), Inv g s → SafeBurst self b s →
    Inv g (_root_.runBurst self b s).1
  | .call c k, s, hi, hs => by
    simp only [_root_.runBurst]
    exact Inv.runBurst self (k _) _ (Inv.noteErr self _ (hi.doCall self c hs.1)) hs.2
  | .yield _ _, _, hi, _ => hi
  | .ret _, _, hi, _ => hi
  | .raise _, _, hi, _ => hi

/-- the event a safe burst ends on exists and is not an `Interruption` of the yielding process -/
theorem SafeBurst.yielded (self : EvId) : ∀ (b : Burst ℚ σ) (s : KState ℚ σ), SafeBurst self b s →
    ∀ e st, (_root_.runBurst self b s).2 = .yielded e st → SafeYield (_root_.runBurst self b s).1 self e
  | .call c k, s, hs, e, st, h => by
    simp only [_root_.runBurst] at h ⊢
    exact SafeBurst.yielded self (k _) _ hs.2 e st h
  | .yield e' _, s, hs, e, st, h => by
    simp only [_root_.runBurst] at h ⊢
    cases h
    exact hs
  | .ret _, _, _, _, _, h => by simp [_root_.runBurst] at h
  | .raise _, _, _, _, _, h => by simp [_root_.runBurst] at h

end Once
