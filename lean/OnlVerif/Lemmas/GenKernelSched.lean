import OnlVerif.Lemmas.GenKernelDefs
import OnlVerif.Lemmas.KAccess
/-!
# Bridge lemmas: generated scheduling logic (`Generated/KernelSched.lean`) = agenda / API-call functions of model `K`
-/

namespace GenKernel
variable {τ σ : Type} [Num τ]

/-! ## constants, queue entries -/

theorem urgent_eq : Gen.URGENT = URGENT := rfl
theorem normal_eq : Gen.NORMAL = NORMAL := rfl

/-- `Environment.schedule` pushes the generated tuple -/
theorem schedule_eq (s : KState τ σ) (e : EvId) (prio : Nat) (delay : τ) :
    s.schedule e prio delay = pushEntry s (Gen.Environment.schedule_entry s.now delay prio s.eid e) := rfl

/-- the stop event of `run(until=<number>)` is pushed as the generated tuple -/
theorem scheduleAt_eq (s : KState τ σ) (e : EvId) (t : τ) :
    s.scheduleAt e URGENT t = pushEntry s (Gen.Environment.run_sentinel_entry t s.eid e) := rfl

/-- the model's order on agenda entries is Python's order on the queue tuples -/
theorem entry_lt_eq (a b : τ × Nat × Nat × Nat) : QEntry.lt (toEntry a) (toEntry b) = Py.entryLt a b := by
  unfold QEntry.lt Py.entryLt toEntry
  simp [Bool.beq_eq_decide_eq]

/-! ## `Timeout.__init__` -/

theorem timeout_init (s : KState τ σ) (self : EvId) (d : τ) (v : Val) :
    doCall s self (.timeout d v) =
      (if (Gen.Timeout.init (evObj (τ := τ)) d).raised = 2 then (s, .err (valueErr "Negative delay"))
       else match buildEvent (fun _ => Cb.stop) (Gen.Timeout.init (evObj (τ := τ)) d).eff {} with
         | some o =>
           (schedAll (s.newLabelled (o.toRec .timeout v default)).1 (s.newLabelled (o.toRec (τ := τ) .timeout v default)).2
              (schedOf (Gen.Timeout.init (evObj (τ := τ)) d).eff),
            .ev (s.newLabelled (o.toRec (τ := τ) .timeout v default)).2)
         | none => (s, .unit)) := by
  unfold Gen.Timeout.init
  simp only [doCall]
  by_cases h : d < Num.zero
  · rw [if_pos h, if_pos h]; rfl
  · rw [if_neg h, if_neg h]; rfl

/-! ## `Event.succeed` / `Event.fail`, the end of `Process._resume` -/

theorem succeed_call (s : KState τ σ) (self e : EvId) (v : Val) :
    doCall s self (.succeed e v) =
      (if (Gen.Event.succeed (evObj (τ := τ)) (s.triggered e)).raised = 5 then (s, .err (runtimeErr "already triggered"))
       else match applyTrig s e (Gen.Event.succeed (evObj (τ := τ)) (s.triggered e)).eff v default with
         | some s' => (s', .unit)
         | none => (s, .unit)) := by
  unfold Gen.Event.succeed
  simp only [doCall]
  by_cases h : s.triggered e = true
  · rw [if_pos h, if_pos h]; rfl
  · rw [if_neg h, if_neg h]; rfl

theorem fail_call (s : KState τ σ) (self e : EvId) (x : Exc) :
    doCall s self (.fail e x) =
      (if (Gen.Event.fail (evObj (τ := τ)) (s.triggered e) false).raised = 5 then (s, .err (runtimeErr "already triggered"))
       else match applyTrig s e (Gen.Event.fail (evObj (τ := τ)) (s.triggered e) false).eff .none x with
         | some s' => (s', .unit)
         | none => (s, .unit)) := by
  unfold Gen.Event.fail
  simp only [doCall]
  by_cases h : s.triggered e = true
  · rw [if_pos h, if_pos h]; rfl
  · rw [if_neg h, if_neg h]; rfl

/-- `Event.fail` refuses an argument that is not an exception with `ValueError` (the model's `Exc` is always one) -/
theorem fail_not_exception (t : Bool) :
    (Gen.Event.fail (evObj (τ := τ)) t true).raised = (if t then 5 else 2) := by
  unfold Gen.Event.fail
  cases t <;> rfl

/-- the generator returned: the process event is triggered as the `StopIteration` handler says -/
theorem trigger_ok (s : KState τ σ) (p : EvId) (v : Val) (x : Exc) :
    applyTrig s p (Gen.Process.resume_returned (evObj (τ := τ))).eff v x = some (s.trigger p (.ok v)) := rfl

/-- the generator raised: the process event is triggered as the `BaseException` handler says -/
theorem trigger_fail (s : KState τ σ) (p : EvId) (v : Val) (x : Exc) :
    applyTrig s p (Gen.Process.resume_raised (evObj (τ := τ))).eff v x = some (s.trigger p (.fail x)) := rfl

/-! ## `Initialize.__init__` (`Process.__init__`) -/

theorem spawn_call (s : KState τ σ) (self : EvId) (st : σ) :
    doCall s self (.spawn st) =
      (match buildEvent (fun _ => Cb.resume s.events.size) (Gen.Initialize.init (evObj (τ := τ))).eff {} with
       | some o =>
         let p := s.events.size
         let s1 := (s.newLabelled { kind := .proc, cbs := some [], out := none }).1
         let s2 := s1.setProc p { st, target := some (p + 1) }
         (schedAll (s2.newEv (o.toRec (.init p) .none default)).1 (p + 1) (schedOf (Gen.Initialize.init (evObj (τ := τ))).eff), .ev p)
       | none => (s, .unit)) := rfl

/-! ## `Interruption.__init__` (`Process.interrupt`) -/

theorem interrupt_init (s : KState τ σ) (p : EvId) (cause : Val) :
    mkInterrupt s p cause =
      (if (Gen.Interruption.init (evObj (τ := τ)) (s.triggered p) (s.active == some p)).raised = 5 then
         (s, some (if (Gen.Interruption.init (evObj (τ := τ)) (s.triggered p) (s.active == some p)).raise_site = 1
                   then runtimeErr "terminated" else runtimeErr "self"))
       else match buildEvent (fun _ => Cb.intr s.events.size)
           (Gen.Interruption.init (evObj (τ := τ)) (s.triggered p) (s.active == some p)).eff {} with
         | some o =>
           (schedAll (s.newEv (o.toRec (.intr p) .none ⟨"Interrupt", [cause]⟩)).1 s.events.size
              (schedOf (Gen.Interruption.init (evObj (τ := τ)) (s.triggered p) (s.active == some p)).eff), none)
         | none => (s, none)) := by
  unfold Gen.Interruption.init mkInterrupt
  by_cases h : s.triggered p = true
  · simp only [h, if_true]
  · simp only [h, Bool.false_eq_true, if_false]
    by_cases h2 : (s.active == some p) = true
    · simp only [h2, if_true]; rfl
    · simp only [h2, Bool.false_eq_true, if_false]; rfl

/-! ## `Environment.run(until=<number>)`, `Environment.step` -/

theorem run_until (body : σ → Resume → Burst τ σ) (fuel n : Nat) (at_ : τ) (s : KState τ σ) :
    runUntilTime body fuel n at_ s =
      (if Gen.Environment.run_refuse at_ s.now = true then
         .raised (valueErr "until must be > the current simulation time") s
       else
         let u := s.events.size
         let s1 := (s.newEv { kind := .sentinel, cbs := some [], out := some (.ok .none) }).1
         runLoop body fuel (some u) n ((pushEntry s1 (Gen.Environment.run_sentinel_entry at_ s1.eid u)).addCb u .stop)) := by
  unfold runUntilTime Gen.Environment.run_refuse
  by_cases h : at_ ≤ s.now
  · simp only [h, decide_true, if_true]
  · simp only [h, decide_false, Bool.false_eq_true, if_false]; rfl

omit [Num τ] in
/-- after the callbacks of an event have run, `step` re-raises its exception exactly when the generated test says so -/
theorem close_event (s : KState τ σ) (e : EvId) :
    closeEvent { s := s, stop := none } e =
      (match (s.ev e).out with
       | some (.fail x) => if Gen.Environment.step_crashes false (s.ev e).defused = true then .crash x s else .ok s
       | _ => .ok s) := by
  unfold closeEvent Gen.Environment.step_crashes
  dsimp only
  cases ho : (s.ev e).out with
  | none => rfl
  | some o =>
    cases o with
    | ok v => rfl
    | fail x => cases hd : (s.ev e).defused <;> simp

theorem step_crashes_ok (d : Bool) : Gen.Environment.step_crashes true d = false := by
  unfold Gen.Environment.step_crashes; simp

end GenKernel
