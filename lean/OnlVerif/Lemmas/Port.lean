import OnlVerif.Lemmas.FifoTrans
import OnlVerif.Net.Port
/-! # Invariants of the Port model -/

namespace Port
open Fifo

def sizeSum (l : List (Pkt ℚ)) : Int := (l.map (fun p => (p.size : Int))).sum

@[simp] theorem sizeSum_nil : sizeSum [] = 0 := rfl
@[simp] theorem sizeSum_cons (p : Pkt ℚ) (l : List (Pkt ℚ)) : sizeSum (p :: l) = p.size + sizeSum l := by
  simp [sizeSum]
@[simp] theorem sizeSum_append (l1 l2 : List (Pkt ℚ)) : sizeSum (l1 ++ l2) = sizeSum l1 + sizeSum l2 := by
  simp [sizeSum]
theorem sizeSum_nonneg (l : List (Pkt ℚ)) : 0 ≤ sizeSum l := by
  induction l with
  | nil => simp
  | cons p l ih => simp; omega

/-- bytes of the packets the port holds: waiting, handed over, in transmission -/
def heldBytes (s : FState ℚ (PortSt ℚ)) : Int :=
  sizeSum s.items + (match s.handed with | some p => (p.size : Int) | none => 0) +
    (match s.tx with | some (p, _, _) => (p.size : Int) | none => 0)

/-- a plain (non-RED) port configuration -/
def Plain (c : PortCfg ℚ) : Prop := c.red = none

structure Inv (c : PortCfg ℚ) (s : FState ℚ (PortSt ℚ)) : Prop where
  shape : Shape s
  bytes : s.dev.byteSize = heldBytes s
  busy : (∃ p due k, s.tx = some (p, due, k) ∧ s.dev.busy = true ∧ s.dev.busySize = p.size) ∨
         (s.tx = none ∧ s.dev.busy = false ∧ s.dev.busySize = 0)
  limB : ∀ q, Plain c → c.limitBytes = true → c.qlimit = some q → 0 ≤ q → s.dev.byteSize ≤ q
  limP : ∀ q, Plain c → c.limitBytes = false → c.qlimit = some q → (s.items.length : Int) ≤ max (q - 1) 0

theorem choice_pkt (b : Prop) [Decidable b] (d : PortSt ℚ) (p : Pkt ℚ) :
    (if b then refuse d p else accept d p).2.2 = p := by split <;> rfl

theorem choice_acc (b : Prop) [Decidable b] (d : PortSt ℚ) (p : Pkt ℚ) :
    (if b then refuse d p else accept d p).2.1 = !decide b := by split <;> simp [refuse, accept, *]

theorem choice_dev (b : Prop) [Decidable b] (d : PortSt ℚ) (p : Pkt ℚ) :
    (if b then refuse d p else accept d p).1 =
      if b then { d with dropped := d.dropped + 1 } else { d with byteSize := d.byteSize + p.size } := by
  split <;> rfl

theorem admit_pkt (c : PortCfg ℚ) (d : PortSt ℚ) (now : ℚ) (w : Nat) (p : Pkt ℚ) : (admitPkt c d now w p).2.2 = p := by
  simp only [admitPkt]
  split
  · simp only [admitPlain, choice_pkt]
  · simp only [admitRed, choice_pkt]

theorem idPreserving (c : PortCfg ℚ) : IdPreserving (Port.dev c) := by
  refine ⟨?_, ?_, ?_⟩
  · intro s now w p
    show (admitPkt c s now w p).2.2.id = p.id
    rw [admit_pkt]
  · intro s now x y p
    simp only [dev, onResume]; split <;> rfl
  · intro s now k p; rfl

theorem admit_acc_bytes (c : PortCfg ℚ) (d : PortSt ℚ) (now : ℚ) (w : Nat) (p : Pkt ℚ)
    (h : (admitPkt c d now w p).2.1 = true) :
    (admitPkt c d now w p).1.byteSize = d.byteSize + p.size ∧ (admitPkt c d now w p).1.busy = d.busy ∧
    (admitPkt c d now w p).1.busySize = d.busySize := by
  simp only [admitPkt] at h ⊢
  split at h
  · simp only [admitPlain, choice_acc, choice_dev] at h ⊢
    split
    · rename_i hb; simp [hb] at h
    · exact ⟨rfl, rfl, rfl⟩
  · simp only [admitRed, choice_acc, choice_dev] at h ⊢
    split
    · rename_i hb; simp [hb] at h
    · exact ⟨rfl, rfl, rfl⟩

theorem admit_drop_bytes (c : PortCfg ℚ) (d : PortSt ℚ) (now : ℚ) (w : Nat) (p : Pkt ℚ)
    (h : (admitPkt c d now w p).2.1 = false) :
    (admitPkt c d now w p).1.byteSize = d.byteSize ∧ (admitPkt c d now w p).1.busy = d.busy ∧
    (admitPkt c d now w p).1.busySize = d.busySize := by
  simp only [admitPkt] at h ⊢
  split at h
  · simp only [admitPlain, choice_acc, choice_dev] at h ⊢
    split
    · exact ⟨rfl, rfl, rfl⟩
    · rename_i hb; simp [hb] at h
  · simp only [admitRed, choice_acc, choice_dev] at h ⊢
    split
    · exact ⟨rfl, rfl, rfl⟩
    · rename_i hb; simp [hb] at h

/-- the tail-drop rule of a plain port, as seen through `admitPkt` -/
theorem admit_plain_iff (c : PortCfg ℚ) (hc : Plain c) (d : PortSt ℚ) (now : ℚ) (w : Nat) (p : Pkt ℚ) :
    (admitPkt c d now w p).2.1 = false ↔ tailDrop c d.byteSize w p.size = true := by
  have : c.red = none := hc
  simp only [admitPkt, this, admitPlain, choice_acc]
  simp

end Port

namespace Port
open Fifo

theorem init_inv (c : PortCfg ℚ) (t0 : ℚ) : Inv c (Fifo.init ({ avg := 0 } : PortSt ℚ) t0) := by
  refine ⟨Fifo.init_shape _ _, by simp [Fifo.init, heldBytes], Or.inr ⟨rfl, rfl, rfl⟩, ?_, ?_⟩
  · intro q _ _ _ hq; simpa [Fifo.init] using hq
  · intro q _ _ _; simp [Fifo.init]

theorem issueGet_heldBytes (s : FState ℚ (PortSt ℚ)) (hh : s.handed = none) :
    heldBytes (issueGet s) = heldBytes s := by
  unfold issueGet
  cases hi : s.items with
  | nil => simp [heldBytes, hi, hh]
  | cons p rest => simp [heldBytes, hi, hh]; omega

theorem issueGet_dev (s : FState ℚ (PortSt ℚ)) : (issueGet s).dev = s.dev := by
  unfold issueGet; split <;> rfl

theorem issueGet_tx (s : FState ℚ (PortSt ℚ)) : (issueGet s).tx = s.tx := by
  unfold issueGet; split <;> rfl

theorem issueGet_items_le (s : FState ℚ (PortSt ℚ)) : (issueGet s).items.length ≤ s.items.length := by
  unfold issueGet; split <;> simp_all

theorem onResume_facts (c : PortCfg ℚ) (d : PortSt ℚ) (now x y : ℚ) (p : Pkt ℚ) :
    (onResume c d now x y p).2.1 = p ∧ (onResume c d now x y p).1.byteSize = d.byteSize ∧
    (onResume c d now x y p).1.busy = true ∧ (onResume c d now x y p).1.busySize = p.size := by
  simp only [onResume]; split <;> exact ⟨rfl, rfl, rfl, rfl⟩

@[simp] theorem dev_admit (c : PortCfg ℚ) : (dev c).admitPkt = admitPkt c := rfl
@[simp] theorem dev_onResume (c : PortCfg ℚ) : (dev c).onResume = onResume c := rfl
@[simp] theorem dev_onFire (c : PortCfg ℚ) : (dev c).onFire = onFire c := rfl
@[simp] theorem dev_onDone (c : PortCfg ℚ) : (dev c).onDone = onDone := rfl

/-- every accepted step keeps the port invariant -/
theorem step_inv (c : PortCfg ℚ) (s s' : FState ℚ (PortSt ℚ)) (a : FAct ℚ) (o : FOut ℚ)
    (hi : Inv c s) (hstep : step (Port.dev c) s a = .ok (s', o)) : Inv c s' := by
  have hshape : Shape s' := (step_conserves (Port.dev c) (idPreserving c) s s' a o hi.shape hstep).2
  have ht := step_trans (Port.dev c) s s' a o hstep
  clear hstep
  cases ht with
  | init h =>
    have h0 := hi.shape.1 h
    refine ⟨hshape, ?_, ?_, ?_, ?_⟩
    · rw [issueGet_dev, issueGet_heldBytes { s with started := true } h0.2.1]; exact hi.bytes
    · rw [issueGet_dev, issueGet_tx]; exact hi.busy
    · intro q h1 h2 h3 h4; rw [issueGet_dev]; exact hi.limB q h1 h2 h3 h4
    · intro q h1 h2 h3
      exact le_trans (by exact_mod_cast issueGet_items_le _) (hi.limP q h1 h2 h3)
  | putAcc p h =>
    simp only [dev_admit] at h hshape ⊢
    have hb := admit_acc_bytes c s.dev s.now s.items.length p h
    have hp := admit_pkt c s.dev s.now s.items.length p
    have hnd : ∀ (_q : Int), Plain c → tailDrop c s.dev.byteSize s.items.length p.size = false := by
      intro _ h1
      by_contra hd
      have := (admit_plain_iff c h1 s.dev s.now s.items.length p).mpr (by simpa using hd)
      rw [h] at this; cases this
    refine ⟨hshape, ?_, ?_, ?_, ?_⟩
    · dsimp only [heldBytes]
      rw [hb.1, hi.bytes, hp]
      simp only [heldBytes, sizeSum_append, sizeSum_cons, sizeSum_nil]
      omega
    · dsimp only
      rw [hb.2.1, hb.2.2]; exact hi.busy
    · intro q h1 h2 h3 h4
      dsimp only
      rw [hb.1]
      have := hnd q h1
      simp only [tailDrop, h3, h2, if_true, decide_eq_false_iff_not, not_lt] at this
      exact this
    · intro q h1 h2 h3
      have := hnd q h1
      simp only [tailDrop, h3, h2, Bool.false_eq_true, if_false, decide_eq_false_iff_not, not_le] at this
      dsimp only
      simp only [List.length_append, List.length_singleton, Nat.cast_add, Nat.cast_one]
      have h5 : (s.items.length : Int) + 1 ≤ q - 1 := by omega
      exact le_trans h5 (le_max_left _ _)
  | putDrop p h =>
    simp only [dev_admit] at h hshape ⊢
    have hb := admit_drop_bytes c s.dev s.now s.items.length p h
    refine ⟨hshape, ?_, ?_, ?_, ?_⟩
    · dsimp only [heldBytes]
      rw [hb.1]; exact hi.bytes
    · dsimp only
      rw [hb.2.1, hb.2.2]; exact hi.busy
    · intro q h1 h2 h3 h4
      dsimp only
      rw [hb.1]; exact hi.limB q h1 h2 h3 h4
    · intro q h1 h2 h3; exact hi.limP q h1 h2 h3
  | handoff p rest hg hit =>
    have hst : s.started = true := by
      by_contra hc; have := hi.shape.1 (by simpa using hc); rw [this.1] at hg; cases hg
    have h1 : s.handed = none ∧ s.tx = none := by
      rcases hi.shape.2 hst with h1 | h1 | h1
      · exact h1.2
      · rw [h1.1] at hg; cases hg
      · rw [h1.1] at hg; cases hg
    refine ⟨hshape, ?_, ?_, ?_, ?_⟩
    · dsimp only [heldBytes]
      rw [hi.bytes]; simp [heldBytes, hit, h1.1, h1.2]; omega
    · exact hi.busy
    · exact hi.limB
    · intro q ha hb hc
      have := hi.limP q ha hb hc
      rw [hit] at this
      simp only [List.length_cons, Nat.cast_add, Nat.cast_one] at this
      dsimp only
      omega
  | resumeEmit x y p hp hn =>
    simp only [dev_onResume, dev_onDone] at hn hshape ⊢
    have hf := onResume_facts c s.dev s.now x y p
    have htx : s.tx = none := by
      have hst : s.started = true := by
        by_contra hc; have := hi.shape.1 (by simpa using hc); rw [this.2.1] at hp; cases hp
      rcases hi.shape.2 hst with h1 | h1 | h1
      · rw [h1.2.1] at hp; cases hp
      · exact h1.2.2
      · rw [h1.2.1] at hp; cases hp
    refine ⟨hshape, ?_, ?_, ?_, ?_⟩
    · rw [issueGet_dev, issueGet_heldBytes _ rfl]
      simp only [onDone, hf.1, hf.2.1, hi.bytes, heldBytes, hp, htx]
      omega
    · rw [issueGet_dev, issueGet_tx]; exact Or.inr ⟨rfl, rfl, rfl⟩
    · intro q h1 h2 h3 h4
      rw [issueGet_dev]
      simp only [onDone, hf.1, hf.2.1]
      have := hi.limB q h1 h2 h3 h4
      omega
    · intro q h1 h2 h3
      exact le_trans (by exact_mod_cast issueGet_items_le _) (hi.limP q h1 h2 h3)
  | resumeLose x y p hp hn =>
    exfalso
    simp only [dev_onResume, onResume] at hn
    split at hn <;> cases hn
  | resumeWait x y p dt hp hn =>
    simp only [dev_onResume] at hn hshape ⊢
    have hf := onResume_facts c s.dev s.now x y p
    have htx : s.tx = none := by
      have hst : s.started = true := by
        by_contra hc; have := hi.shape.1 (by simpa using hc); rw [this.2.1] at hp; cases hp
      rcases hi.shape.2 hst with h1 | h1 | h1
      · rw [h1.2.1] at hp; cases hp
      · exact h1.2.2
      · rw [h1.2.1] at hp; cases hp
    refine ⟨hshape, ?_, ?_, ?_, ?_⟩
    · dsimp only [heldBytes]
      rw [hf.2.1, hi.bytes, hf.1]
      simp [heldBytes, hp, htx]
    · refine Or.inl ⟨(onResume c s.dev s.now x y p).2.1, s.now + dt, 0, rfl, hf.2.2.1, ?_⟩
      dsimp only
      rw [hf.2.2.2, hf.1]
    · intro q h1 h2 h3 h4
      dsimp only
      rw [hf.2.1]; exact hi.limB q h1 h2 h3 h4
    · exact hi.limP
  | fireEmit p due k htx hnow hn =>
    simp only [dev_onFire, dev_onDone, onFire] at hn hshape ⊢
    have hh : s.handed = none := by
      have hst : s.started = true := by
        by_contra hc; have := hi.shape.1 (by simpa using hc); rw [this.2.2] at htx; cases htx
      rcases hi.shape.2 hst with h1 | h1 | h1
      · rw [h1.2.2] at htx; cases htx
      · rw [h1.2.2] at htx; cases htx
      · exact h1.2.1
    refine ⟨hshape, ?_, ?_, ?_, ?_⟩
    · rw [issueGet_dev, issueGet_heldBytes { s with tx := none, dev := onDone s.dev p } hh]
      simp only [onDone, hi.bytes, heldBytes, htx, hh]
      omega
    · rw [issueGet_dev, issueGet_tx]; exact Or.inr ⟨rfl, rfl, rfl⟩
    · intro q h1 h2 h3 h4
      rw [issueGet_dev]
      simp only [onDone]
      have := hi.limB q h1 h2 h3 h4
      omega
    · intro q h1 h2 h3
      exact le_trans (by exact_mod_cast issueGet_items_le _) (hi.limP q h1 h2 h3)
  | fireLose p due k htx hnow hn => exfalso; simp [dev, onFire] at hn
  | fireWait p due k dt htx hnow hn => exfalso; simp [dev, onFire] at hn
  | tick t _ _ _ _ _ => exact ⟨hshape, hi.bytes, hi.busy, hi.limB, hi.limP⟩

end Port

namespace Port
open Fifo

/-- the invariant holds after every accepted action sequence -/
theorem run_inv (c : PortCfg ℚ) (as : List (FAct ℚ)) (s s' : FState ℚ (PortSt ℚ)) (ins outs : List Nat)
    (hi : Inv c s) (h : runActs (Port.dev c) s as = .ok (s', ins, outs)) : Inv c s' := by
  induction as generalizing s ins outs with
  | nil =>
    simp only [runActs, Except.ok.injEq, Prod.mk.injEq] at h
    obtain ⟨rfl, _, _⟩ := h
    exact hi
  | cons a as ih =>
    simp only [runActs] at h
    split at h
    · cases h
    · rename_i s1 o h1
      split at h
      · cases h
      · rename_i s2 ins2 outs2 h2
        simp only [Except.ok.injEq, Prod.mk.injEq] at h
        obtain ⟨rfl, _, _⟩ := h
        exact ih s1 ins2 outs2 (step_inv c s s1 a o hi h1) h2

/-- a `put` is refused iff `admitPkt` says so -/
theorem put_dropped_iff (c : PortCfg ℚ) (s : FState ℚ (PortSt ℚ)) (p : Pkt ℚ) :
    (∃ s', step (Port.dev c) s (.put p) = .ok (s', .dropped)) ↔ (admitPkt c s.dev s.now s.items.length p).2.1 = false := by
  constructor
  · rintro ⟨s', h⟩
    have ht := step_trans _ _ _ _ _ h
    cases ht with
    | putDrop p' hd => exact hd
  · intro h
    have h' : ((Port.dev c).admitPkt s.dev s.now s.items.length p).2.1 = false := h
    refine ⟨{ s with dev := ((Port.dev c).admitPkt s.dev s.now s.items.length p).1 }, ?_⟩
    simp only [step]
    rw [if_neg (by rw [h']; simp)]

theorem put_accepted_iff (c : PortCfg ℚ) (s : FState ℚ (PortSt ℚ)) (p : Pkt ℚ) :
    (∃ s', step (Port.dev c) s (.put p) = .ok (s', .accepted)) ↔ (admitPkt c s.dev s.now s.items.length p).2.1 = true := by
  constructor
  · rintro ⟨s', h⟩
    have ht := step_trans _ _ _ _ _ h
    cases ht with
    | putAcc p' hd => exact hd
  · intro h
    have h' : ((Port.dev c).admitPkt s.dev s.now s.items.length p).2.1 = true := h
    refine ⟨{ s with dev := ((Port.dev c).admitPkt s.dev s.now s.items.length p).1,
                     items := s.items ++ [((Port.dev c).admitPkt s.dev s.now s.items.length p).2.2] }, ?_⟩
    simp only [step]
    rw [if_pos h']

end Port
