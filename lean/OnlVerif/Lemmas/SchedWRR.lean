import OnlVerif.Lemmas.MultiQueueRun
/-!
# WRR: cyclic visits in declaration order, classes that are not backlogged (or have weight 0) are skipped, at most
`weight` packets per visit
-/

namespace WRR
open MQ

/-- entry `l` of `weights` cannot be served: weight 0 or not backlogged -/
def Skips (cfg : Cfg ℚ) (cn : Nat → Int) (l : Nat) : Prop :=
  ∀ f w, cfg.weights[l]? = some (f, w) → ¬ (0 < w ∧ 0 < cn f)

/-- the visit of entry `i` that has sent `j` packets is over: allowance used up or not backlogged -/
def Exhausted (cfg : Cfg ℚ) (cn : Nat → Int) (i j : Nat) : Prop :=
  ∀ f w, cfg.weights[i]? = some (f, w) → ¬ (j < w ∧ 0 < cn f)

def Vis (cfg : Cfg ℚ) (cn : Nat → Int) (i m : Nat) (w : Bool) : Prop :=
  if w then (∀ l, i ≤ l → Skips cfg cn l) ∧ ∀ l, l < m → Skips cfg cn l
  else i ≤ m ∧ ∀ l, i ≤ l → l < m → Skips cfg cn l

def CyclicSkips (cfg : Cfg ℚ) (cn : Nat → Int) (i j : Nat) : Prop :=
  (i ≤ j ∧ ∀ l, i ≤ l → l < j → Skips cfg cn l) ∨
  (j < i ∧ (∀ l, i ≤ l → Skips cfg cn l) ∧ ∀ l, l < j → Skips cfg cn l)

theorem vis_succ (cfg : Cfg ℚ) (cn : Nat → Int) (i m : Nat) (w : Bool) (h : Vis cfg cn i m w) (hs : Skips cfg cn m) :
    Vis cfg cn i (m + 1) w := by
  cases w with
  | true =>
    simp only [Vis, if_true] at h ⊢
    refine ⟨h.1, fun l hl => ?_⟩
    rcases Nat.lt_or_eq_of_le (Nat.le_of_lt_succ hl) with h1 | h1
    · exact h.2 l h1
    · subst h1; exact hs
  | false =>
    simp only [Vis, Bool.false_eq_true, if_false] at h ⊢
    refine ⟨Nat.le_succ_of_le h.1, fun l hil hl => ?_⟩
    rcases Nat.lt_or_eq_of_le (Nat.le_of_lt_succ hl) with h1 | h1
    · exact h.2 l hil h1
    · subst h1; exact hs

theorem vis_wrap (cfg : Cfg ℚ) (cn : Nat → Int) (i m : Nat) (w : Bool) (h : Vis cfg cn i m w)
    (hm : cfg.weights.length ≤ m) : Vis cfg cn i 0 true := by
  simp only [Vis, if_true]
  refine ⟨fun l hil => ?_, fun l hl => absurd hl (Nat.not_lt_zero l)⟩
  cases w with
  | true => simp only [Vis, if_true] at h; exact h.1 l hil
  | false =>
    simp only [Vis, Bool.false_eq_true, if_false] at h
    by_cases hl : l < m
    · exact h.2 l hil hl
    · intro f wt hf
      have : cfg.weights[l]? = none := List.getElem?_eq_none (le_trans hm (not_lt.mp hl))
      rw [this] at hf; cases hf

theorem vis_cyclic (cfg : Cfg ℚ) (cn : Nat → Int) (i m : Nat) (w : Bool) (h : Vis cfg cn i m w) (f wt : Nat)
    (hf : cfg.weights[m]? = some (f, wt)) (hw : 0 < wt) (hpos : 0 < cn f) : CyclicSkips cfg cn i m := by
  cases w with
  | false => simp only [Vis, Bool.false_eq_true, if_false] at h; exact Or.inl h
  | true =>
    simp only [Vis, if_true] at h
    by_cases him : i ≤ m
    · exact absurd ⟨hw, hpos⟩ (h.1 m him f wt hf)
    · exact Or.inr ⟨not_le.mp him, h.1, h.2⟩

/-- the scan that started at entry `i0` with `j0` packets sent: still there, or moved on -/
def Scan (cfg : Cfg ℚ) (cn : Nat → Int) (i0 j0 : Nat) (k : Pc) : Prop :=
  k = .at i0 j0 ∨
  (Exhausted cfg cn i0 j0 ∧ ∃ w m, (k = .at m 0 ∨ (k = .endPass ∧ cfg.weights.length ≤ m)) ∧ Vis cfg cn (i0 + 1) m w)

theorem scan_fresh (cfg : Cfg ℚ) (cn : Nat → Int) (i0 j0 : Nat) (h : Exhausted cfg cn i0 j0) :
    Scan cfg cn i0 j0 (.at (i0 + 1) 0) :=
  Or.inr ⟨h, false, i0 + 1, Or.inl rfl, by
    simp only [Vis, Bool.false_eq_true, if_false]; exact ⟨le_refl _, fun l h1 h2 => absurd h2 (not_lt.mpr h1)⟩⟩

/-- where a burst of the WRR loop can end -/
theorem settles_wrr (cfg : Cfg ℚ) (cn : Nat → Int) (i0 j0 : Nat) (s s' : MQState ℚ Pc) (hs : Settles (sched cfg) s s')
    (hcn : ∀ f, cnt s.queueCount f = cn f) (hP : Scan cfg cn i0 j0 s.ctl) :
    ((s'.phase = .waitToken ∨ s'.phase = .tokenHanded) → s'.ctl = .at 0 0) ∧
    (∀ c p, s'.phase = .pktHanded c p → ∃ m jj wt rest, s'.ctl = .got m jj ∧ cfg.weights[m]? = some (c, wt) ∧ jj < wt ∧
        0 < cn c ∧ ((m = i0 ∧ jj = j0) ∨ (jj = 0 ∧ Exhausted cfg cn i0 j0 ∧ CyclicSkips cfg cn (i0 + 1) m)) ∧
        storeOf s.stores c = p :: rest ∧ s'.stores = setKey s.stores c rest) := by
  induction hs with
  | goto s k s' hm _ ih =>
    rw [touch_ctl] at hm
    have hcn' : ∀ f, cnt ({ touch (sched cfg) s with ctl := k } : MQState ℚ Pc).queueCount f = cn f :=
      fun f => by show cnt (touch (sched cfg) s).queueCount f = cn f; rw [touch_cnt]; exact hcn f
    have hP' : Scan cfg cn i0 j0 k := by
      rcases hP with hctl | ⟨hex, w, m, hctl, hv⟩
      · rw [hctl] at hm
        simp only [sched, micro] at hm
        split at hm
        · rename_i hnone
          simp only [Micro.goto.injEq] at hm
          have hlen : cfg.weights.length ≤ i0 := by
            by_contra hc
            rw [List.getElem?_eq_getElem (not_le.mp hc)] at hnone; cases hnone
          refine Or.inr ⟨fun f wt hf => ?_, false, i0 + 1, Or.inr ⟨hm.symm, Nat.le_succ_of_le hlen⟩, ?_⟩
          · rw [hnone] at hf; cases hf
          · simp only [Vis, Bool.false_eq_true, if_false]; exact ⟨le_refl _, fun l h1 h2 => absurd h2 (not_lt.mpr h1)⟩
        · rename_i f wt hf
          split at hm
          · rename_i hj
            split at hm
            · split at hm <;> cases hm
            · rename_i hz
              simp only [Micro.goto.injEq] at hm
              rw [← hm]
              apply scan_fresh
              intro f' wt' hf'
              rw [hf] at hf'; cases hf'
              simp only [view, touch_cnt, hcn] at hz
              exact fun h => hz h.2
          · rename_i hj
            simp only [Micro.goto.injEq] at hm
            rw [← hm]
            apply scan_fresh
            intro f' wt' hf'
            rw [hf] at hf'; cases hf'
            exact fun h => hj h.1
      · rcases hctl with hctl | ⟨hctl, hlen⟩
        · rw [hctl] at hm
          simp only [sched, micro] at hm
          split at hm
          · rename_i hnone
            simp only [Micro.goto.injEq] at hm
            have hlen : cfg.weights.length ≤ m := by
              by_contra hc
              rw [List.getElem?_eq_getElem (not_le.mp hc)] at hnone; cases hnone
            exact Or.inr ⟨hex, w, m, Or.inr ⟨hm.symm, hlen⟩, hv⟩
          · rename_i f wt hf
            split at hm
            · rename_i hj
              split at hm
              · split at hm <;> cases hm
              · rename_i hz
                simp only [Micro.goto.injEq] at hm
                refine Or.inr ⟨hex, w, m + 1, Or.inl hm.symm, vis_succ cfg cn _ m w hv ?_⟩
                intro f' wt' hf'
                rw [hf] at hf'; cases hf'
                simp only [view, touch_cnt, hcn] at hz
                exact fun h => hz h.2
            · rename_i hj
              simp only [Micro.goto.injEq] at hm
              refine Or.inr ⟨hex, w, m + 1, Or.inl hm.symm, vis_succ cfg cn _ m w hv ?_⟩
              intro f' wt' hf'
              rw [hf] at hf'; cases hf'
              exact fun h => hj h.1
        · rw [hctl] at hm
          simp only [sched, micro] at hm
          split at hm
          · cases hm
          · simp only [Micro.goto.injEq] at hm
            exact Or.inr ⟨hex, true, 0, Or.inl hm.symm, vis_wrap cfg cn _ m w hv hlen⟩
    have := ih hcn' hP'
    simpa [touch_stores] using this
  | get s c k s' hm hg =>
    rw [touch_ctl] at hm
    have key : ∀ m jj, s.ctl = .at m jj →
        ((m = i0 ∧ jj = j0) ∨ (jj = 0 ∧ Exhausted cfg cn i0 j0 ∧ ∃ w, Vis cfg cn (i0 + 1) m w)) →
        ((s'.phase = .waitToken ∨ s'.phase = .tokenHanded) → s'.ctl = .at 0 0) ∧
        (∀ c p, s'.phase = .pktHanded c p → ∃ m jj wt rest, s'.ctl = .got m jj ∧ cfg.weights[m]? = some (c, wt) ∧ jj < wt ∧
          0 < cn c ∧ ((m = i0 ∧ jj = j0) ∨ (jj = 0 ∧ Exhausted cfg cn i0 j0 ∧ CyclicSkips cfg cn (i0 + 1) m)) ∧
          storeOf s.stores c = p :: rest ∧ s'.stores = setKey s.stores c rest) := by
      intro m jj hctl hwhere
      rw [hctl] at hm
      simp only [sched, micro] at hm
      split at hm
      · cases hm
      · rename_i f wt hf
        split at hm
        · rename_i hj
          split at hm
          · rename_i hpos
            split at hm
            · simp only [Micro.get.injEq] at hm
              obtain ⟨rfl, rfl⟩ := hm
              simp only [view, touch_cnt, hcn] at hpos
              unfold issueGet at hg
              split at hg
              · rename_i p rest hst
                simp only [Except.ok.injEq] at hg
                subst hg
                refine ⟨fun h => ?_, fun c' p' h => ?_⟩
                · rcases h with h | h <;> cases h
                · cases h
                  refine ⟨m, jj, wt, rest, rfl, hf, hj, hpos, ?_, by simpa [touch_stores] using hst, by simp [touch_stores]⟩
                  rcases hwhere with h1 | ⟨h1, h2, w, h3⟩
                  · exact Or.inl h1
                  · subst h1
                    exact Or.inr ⟨rfl, h2, vis_cyclic cfg cn _ m w h3 f wt hf hj hpos⟩
              · cases hg
            · cases hm
          · cases hm
        · cases hm
    rcases hP with hctl | ⟨hex, w, m, hctl, hv⟩
    · exact key i0 j0 hctl (Or.inl ⟨rfl, rfl⟩)
    · rcases hctl with hctl | ⟨hctl, hlen⟩
      · exact key m 0 hctl (Or.inr ⟨rfl, hex, w, hv⟩)
      · rw [hctl] at hm
        simp only [sched, micro] at hm
        split at hm <;> cases hm
  | block s k hm =>
    rw [touch_ctl] at hm
    have key : ∀ m jj, s.ctl = .at m jj → False := by
      intro m jj hctl
      rw [hctl] at hm
      simp only [sched, micro] at hm
      split at hm
      · cases hm
      · split at hm
        · split at hm
          · split at hm <;> cases hm
          · cases hm
        · cases hm
    rcases hP with hctl | ⟨hex, w, m, hctl, hv⟩
    · exact absurd (key _ _ hctl) id
    · rcases hctl with hctl | ⟨hctl, hlen⟩
      · exact absurd (key _ _ hctl) id
      · rw [hctl] at hm
        simp only [sched, micro] at hm
        split at hm
        · simp only [Micro.block.injEq] at hm
          subst hm
          unfold blockOnToken
          split
          · exact ⟨fun _ => rfl, fun c p h => (by cases h)⟩
          · exact ⟨fun _ => rfl, fun c p h => (by cases h)⟩
        · cases hm
  | takeSend s c k p e k' hm hp hd =>
    exfalso
    rw [touch_ctl] at hm
    have key : ∀ m jj, s.ctl = .at m jj → False := by
      intro m jj hctl
      rw [hctl] at hm
      simp only [sched, micro] at hm
      split at hm
      · cases hm
      · split at hm
        · split at hm
          · split at hm <;> cases hm
          · cases hm
        · cases hm
    rcases hP with hctl | ⟨hex, w, m, hctl, hv⟩
    · exact key _ _ hctl
    · rcases hctl with hctl | ⟨hctl, hlen⟩
      · exact key _ _ hctl
      · rw [hctl] at hm
        simp only [sched, micro] at hm
        split at hm <;> cases hm
  | takePark s c k p k' s2 s' hm hp hd hpk _ ih =>
    exact absurd hd (WRR.neverParks cfg _ _ _ _ _)

def CtlOk (s : MQState ℚ Pc) : Prop :=
  (s.phase = .idle ∨ s.phase = .waitToken ∨ s.phase = .tokenHanded) → s.ctl = .at 0 0

/-- entry and packets-already-sent at which the scan of a decision burst starts -/
def resumePoint (s : MQState ℚ Pc) : Nat × Nat :=
  match s.ctl with
  | .sent i j => (i, j + 1)
  | _ => (0, 0)

theorem resumeLoop_wrr (cfg : Cfg ℚ) (i0 j0 : Nat) (s s' : MQState ℚ Pc) (hr : resumeLoop (sched cfg) s = .ok s')
    (hctl : s.ctl = .at i0 j0) :
    CtlOk s' ∧
    (∀ c p, s'.phase = .pktHanded c p → ∃ m jj wt rest, s'.ctl = .got m jj ∧ cfg.weights[m]? = some (c, wt) ∧ jj < wt ∧
        0 < cnt s.queueCount c ∧
        ((m = i0 ∧ jj = j0) ∨ (jj = 0 ∧ Exhausted cfg (cnt s.queueCount) i0 j0 ∧ CyclicSkips cfg (cnt s.queueCount) (i0 + 1) m)) ∧
        storeOf s.stores c = p :: rest ∧ s'.stores = setKey s.stores c rest) := by
  have h := settles_wrr cfg (cnt s.queueCount) i0 j0 _ s' (resumeLoop_settles (sched cfg) s s' hr) (fun _ => rfl)
    (Or.inl hctl)
  refine ⟨fun hph => ?_, h.2⟩
  rcases hph with hph | hph | hph
  · rcases resumeLoop_end (sched cfg) s s' hr with ⟨c, p, h1⟩ | ⟨p, h1⟩ | h1 | h1 <;> rw [hph] at h1 <;> cases h1
  · exact h.1 (Or.inl hph)
  · exact h.1 (Or.inr hph)

theorem step_wrr (cfg : Cfg ℚ) (s s' : MQState ℚ Pc) (a : MAct ℚ) (o : MOut ℚ) (hc : CtlOk s)
    (hs : step (sched cfg) s a = .ok (s', o)) :
    CtlOk s' ∧
    ((a = .init ∨ a = .wake ∨ a = .sendDone) → ∀ c p, s'.phase = .pktHanded c p →
      ∃ m jj wt rest, s'.ctl = .got m jj ∧ cfg.weights[m]? = some (c, wt) ∧ jj < wt ∧ 0 < cnt s.queueCount c ∧
        ((m = (resumePoint s).1 ∧ jj = (resumePoint s).2) ∨
         (jj = 0 ∧ Exhausted cfg (cnt s.queueCount) (resumePoint s).1 (resumePoint s).2 ∧
            CyclicSkips cfg (cnt s.queueCount) ((resumePoint s).1 + 1) m)) ∧
        storeOf s.stores c = p :: rest ∧ s'.stores = setKey s.stores c rest) := by
  have ht := step_trans (sched cfg) s s' a o hs
  cases ht with
  | init _ hp hr =>
    have hctl := hc (Or.inl hp)
    have := resumeLoop_wrr cfg 0 0 s s' hr hctl
    refine ⟨this.1, fun _ c p hph => ?_⟩
    simpa [resumePoint, hctl] using this.2 c p hph
  | put p c k hcl hk =>
    have hk' : k = s.ctl := by simp only [sched, Except.ok.injEq] at hk; exact hk.symm
    subst hk'
    have hph : (postToken ({ s with ctl := s.ctl } : MQState ℚ Pc)).phase = s.phase := by unfold postToken; split <;> rfl
    have hctl : (postToken ({ s with ctl := s.ctl } : MQState ℚ Pc)).ctl = s.ctl := by unfold postToken; split <;> rfl
    refine ⟨fun h => ?_, fun h => ?_⟩
    · simp only [enqueue, countIn, hph, hctl] at h ⊢
      exact hc h
    · rcases h with h | h | h <;> cases h
  | tokenHandoff n hp htk =>
    exact ⟨fun _ => hc (Or.inr (Or.inl hp)), fun h => by rcases h with h | h | h <;> cases h⟩
  | wake _ hp hr =>
    have hctl := hc (Or.inr (Or.inr hp))
    have := resumeLoop_wrr cfg 0 0 s s' hr hctl
    refine ⟨this.1, fun _ c p hph => ?_⟩
    simpa [resumePoint, hctl] using this.2 c p hph
  | resumeSend c p e k hp hd =>
    refine ⟨fun h => ?_, fun h => by rcases h with h | h | h <;> cases h⟩
    rcases h with h | h | h <;> cases h
  | resumePark c p k s2 _ hp hd hpk hr => exact absurd hd (WRR.neverParks cfg _ _ _ _ _)
  | sendInit p hp =>
    refine ⟨fun h => ?_, fun h => by rcases h with h | h | h <;> cases h⟩
    rcases h with h | h | h <;> cases h
  | sendFire p due hp hnow =>
    refine ⟨fun h => ?_, fun h => by rcases h with h | h | h <;> cases h⟩
    rcases h with h | h | h <;> cases h
  | sendDone p k _ hp hk hr =>
    simp only [sched, onDone] at hk
    split at hk
    · rename_i i j hj
      simp only [Except.ok.injEq] at hk
      subst hk
      have := resumeLoop_wrr cfg i (j + 1) { s with ctl := Pc.at i (j + 1) } s' hr rfl
      refine ⟨this.1, fun _ c q hph => ?_⟩
      simpa [resumePoint, hj] using this.2 c q hph
    · cases hk
  | tickIdle t h1 h2 h3 =>
    exact ⟨hc, fun h => by rcases h with h | h | h <;> cases h⟩
  | tickBusy t p due h1 h2 h3 =>
    exact ⟨hc, fun h => by rcases h with h | h | h <;> cases h⟩
  | sample inc => exact ⟨hc, fun h => by rcases h with h | h | h <;> cases h⟩

/-- with the `jj`-th packet of the visit of entry `m` in hand the loop sends it and will resume the same visit
with `jj + 1` packets sent -/
theorem pktResume_wrr (cfg : Cfg ℚ) (s s' : MQState ℚ Pc) (o : MOut ℚ) (m jj : Nat) (hctl : s.ctl = .got m jj)
    (hs : step (sched cfg) s .pktResume = .ok (s', o)) :
    ∃ c p, s.phase = .pktHanded c p ∧ s'.phase = .spawned p ∧ s'.ctl = .sent m jj ∧ resumePoint s' = (m, jj + 1) := by
  have ht := step_trans (sched cfg) s s' _ o hs
  cases ht with
  | resumeSend c p e k hp hd =>
    simp only [sched, onPkt, hctl] at hd
    simp only [PktDec.send.injEq] at hd
    obtain ⟨_, rfl⟩ := hd
    exact ⟨c, p, hp, rfl, rfl, rfl⟩
  | resumePark c p k s2 _ hp hd hpk hr => exact absurd hd (WRR.neverParks cfg _ _ _ _ _)

end WRR
