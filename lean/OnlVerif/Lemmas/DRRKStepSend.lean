import OnlVerif.Lemmas.DRRKStepRun
/-!
# The DRR scheduler on the kernel model: kernel steps of a transmission

the sender starts (`current_packet`, timeout); the timeout fires (counters,
`out.put`, the generator returns).
-/

set_option linter.unusedSimpArgs false

namespace DRRK
open DRROnK
open TimerK (lookup plookup afterBurst resume_eq step_eq)

variable {F : Nat} {Q : Nat → ℚ} {flow size : Int → Nat} {rate : ℚ} {ws : List (Nat × Nat)} {P : Nat}
variable {s : KS} {a : A} {q : QEntry ℚ} {rest : List (QEntry ℚ)}

/-- the `Initialize` event of the sender: `current_packet = packet`, then it sleeps for `8·size/rate` -/
theorem kstep_sendInit (fuel : Nat) (hrate : 0 < rate) (hk : KInv flow F Q s a) {p : EvId} {i : Nat} {id : Int} (hph : a.run = .S p i id q)
    (hp : popMin s.agenda = some (q, rest)) (hrest : rest.Perm (a.src.entries ++ pendEntries a.pend)) :
    ∃ s', step (body F flow size rate ws P) (fuel + 1) s = .ok s' ∧
      KInv flow F Q s' { a with run := .T p s.events.size i id ⟨q.time + txTime size rate id, NORMAL, s.eid, s.events.size⟩,
                                cur := some id } ∧
      s'.now = q.time ∧ histOf s'.trace = histOf s.trace := by
  have hr := hk.run
  rw [hph] at hr
  obtain ⟨hqe, ⟨hkind, hcbs, hout⟩, hproc, ⟨hpk, hpc, hpo⟩, hproc0, hp0⟩ := hr
  have hgs : p + 1 < s.events.size := KState.lt_of_cbs hcbs
  have hwf := openEvent_wf s q rest hk.wf hp
  have hlt := hk.idlt
  have hd := txTime_nonneg (size := size) hrate id
  rw [step_eq _ _ _ _ _ _ hp (hqe ▸ hcbs)]
  simp only [List.foldl, runCb]
  rw [resume_eq _ _ _ _ _ _ (show (openEvent s q rest).proc? p = _ from hproc)]
  simp only [KState.ev] at hkind hcbs hout hpk hpc hpo
  ksimp [hqe, hgs, hkind, hcbs, hout, Nat.ne_of_lt hgs, hd]
  obtain ⟨nrun, nsrc, npend, drun, dsrc⟩ := (ids_nodup_iff a).mp hk.nd
  simp only [hph, drrids] at nrun drun hlt
  obtain ⟨⟨h0p, h0p1⟩, hpp1⟩ := nrun
  obtain ⟨d0, dp, dp1⟩ := drun
  refine ⟨⟨?_, ?_, ?_, ?_, ?_, ?_, ?_, ?_, ?_, ?_⟩, ?_⟩
  · exact wf_push1 hwf.1 _ rfl rfl rfl rfl (by show q.time ≤ q.time + txTime size rate id; linarith)
  · simp only [A.entries, RPhase.entries, List.singleton_append]
    exact List.Perm.cons _ hrest
  · exact hk.rsz
  · have := hk.tok; rw [hph] at this; exact this
  · exact hk.st
  · refine ⟨rfl, ?_, ?_, ?_, ?_, ?_⟩
    · ksimp [EvIs]
    · ksimp
    · ksimp [EvIs, hpk, hpc, hpo, Nat.ne_of_lt (Nat.lt_of_succ_lt hgs)]
    · ksimp [h0p]
      exact hproc0
    · exact hp0.keep (X := [p + 1]) (by d_evkeep) (by simpa using h0p1)
  · refine (hk.keep_src_pend [p + 1] (by d_evkeep) ?_ ?_).1
    · intro e he; simp only [List.mem_singleton]; rintro rfl; exact he.elim dp1.1 dp1.2
    · intro e he
      have : e ≠ p := by rintro rfl; exact dp.1 he
      ksimp [this]
  · refine (hk.keep_src_pend [p + 1] (by d_evkeep) ?_ ?_).2
    · intro e he; simp only [List.mem_singleton]; rintro rfl; exact he.elim dp1.1 dp1.2
    · intro e he
      have : e ≠ p := by rintro rfl; exact dp.1 he
      ksimp [this]
  · have hnd := hk.nd
    simp only [drrids, hph] at hnd ⊢
    grind
  · exact (hk.cells.setCur (some id)).congr rfl rfl rfl rfl rfl rfl rfl rfl
  · simp [histOf_push]

/-- the sender's timeout: the counters go down, `out.put(packet)`, `current_packet = None`; the generator returns and its
process event is triggered -/
theorem kstep_sendFire (fuel : Nat) (hk : KInv flow F Q s a) {p t : EvId} {i : Nat} {id : Int} (hph : a.run = .T p t i id q)
    (hfid : flow id < F)
    (hp : popMin s.agenda = some (q, rest)) (hrest : rest.Perm (a.src.entries ++ pendEntries a.pend)) :
    ∃ s', step (body F flow size rate ws P) (fuel + 1) s = .ok s' ∧
      KInv flow F Q s' { a with run := .F p i id ⟨q.time, NORMAL, s.eid, p⟩,
                                cnt := upd a.cnt (flow id) (a.cnt (flow id) + -1),
                                byt := upd a.byt (flow id) (a.byt (flow id) + -(size id : Int)), cur := none } ∧
      s'.now = q.time ∧ histOf s'.trace = histOf s.trace ++ [.out id q.time] := by
  have hr := hk.run
  rw [hph] at hr
  obtain ⟨hqe, ⟨hkind, hcbs, hout⟩, hproc, ⟨hpk, hpc, hpo⟩, hproc0, hp0⟩ := hr
  have hgs : t < s.events.size := KState.lt_of_cbs hcbs
  have hgp : p < s.events.size := KState.lt_of_cbs hpc
  have hwf := openEvent_wf s q rest hk.wf hp
  have hlt := hk.idlt
  have hcc := hk.cells.cc (flow id) hfid
  have hcb := hk.cells.cb (flow id) hfid
  rw [step_eq _ _ _ _ _ _ hp (hqe ▸ hcbs)]
  simp only [List.foldl, runCb]
  rw [resume_eq _ _ _ _ _ _ (show (openEvent s q rest).proc? p = _ from hproc)]
  simp only [KState.ev] at hkind hcbs hout hpk hpc hpo
  obtain ⟨nrun, nsrc, npend, drun, dsrc⟩ := (ids_nodup_iff a).mp hk.nd
  simp only [hph, drrids] at nrun drun hlt
  obtain ⟨⟨h0p, h0t⟩, hpt⟩ := nrun
  obtain ⟨d0, dp, dt⟩ := drun
  ksimp [hqe, hgs, hgp, hkind, hcbs, hout, hpk, hpc, hpo, Nat.ne_of_lt hgs, Nat.ne_of_lt hgp, hcc, hcb, hpt, Ne.symm hpt]
  refine ⟨⟨?_, ?_, ?_, ?_, ?_, ?_, ?_, ?_, ?_, ?_⟩, ?_⟩
  · exact wf_push1 hwf.1 _ rfl rfl rfl rfl (le_refl _)
  · simp only [A.entries, RPhase.entries, List.singleton_append]
    exact List.Perm.cons _ hrest
  · exact hk.rsz
  · have := hk.tok; rw [hph] at this; exact this
  · exact hk.st
  · refine ⟨rfl, ?_, ?_, ?_⟩
    · ksimp [EvIs, hgs, hgp, hpk, hpc, hpt, Ne.symm hpt]
    · ksimp [h0p]
      exact hproc0
    · exact hp0.keep (X := [t, p]) (by d_evkeep) (by simp; exact ⟨h0t, h0p⟩)
  · refine (hk.keep_src_pend [t, p] (by d_evkeep) ?_ ?_).1
    · intro e he; simp only [List.mem_cons, List.not_mem_nil, or_false, not_or]
      exact ⟨by rintro rfl; exact he.elim dt.1 dt.2, by rintro rfl; exact he.elim dp.1 dp.2⟩
    · intro e he
      have : e ≠ p := by rintro rfl; exact dp.1 he
      ksimp [this]
  · refine (hk.keep_src_pend [t, p] (by d_evkeep) ?_ ?_).2
    · intro e he; simp only [List.mem_cons, List.not_mem_nil, or_false, not_or]
      exact ⟨by rintro rfl; exact he.elim dt.1 dt.2, by rintro rfl; exact he.elim dp.1 dp.2⟩
    · intro e he
      have : e ≠ p := by rintro rfl; exact dp.1 he
      ksimp [this]
  · have hnd := hk.nd
    simp only [drrids, hph] at hnd ⊢
    grind
  · refine Cells.of_lookup ((((hk.cells.setCount (flow id) (a.cnt (flow id) + -1)).setBytes (flow id)
      (a.byt (flow id) + -(size id : Int))).setCur none).congr rfl rfl rfl rfl rfl rfl rfl rfl) ?_
    same_lookups
  · simp [histOf_push]

end DRRK
