import OnlVerif.Lemmas.WFQKAbs
import OnlVerif.Lemmas.WFQKAttr
/-!
# The WFQ scheduler on the kernel model: what each kernel operation of the program does

Every lemma rewrites an operation applied to an arbitrary state `s` into `{ s with … }` with explicit fields, under
the local facts the operation reads (the store record, the attribute cell).  The generic part (association lists,
`resume`/`step` without duplicated sub-terms) is shared with the Timer (`TimerKBasic.lean`).
-/

set_option linter.unusedSimpArgs false

namespace WFQK
open WFQOnK
open TimerK (lookup plookup afterBurst resume_eq step_eq)

theorem getD_set_same (a : Array ResRec) (r : Nat) (x : ResRec) (h : r < a.size) :
    (a.setIfInBounds r x).getD r default = x := by
  rw [getD_setIfInBounds]; simp [h]

@[simp] theorem isStoreKind_pstore : isStoreKind .pstore = true := rfl
@[simp] theorem isPrioKind_pstore : isPrioKind .pstore = false := rfl
@[simp] theorem pstore_beq_preemptive : (ResKind.pstore == ResKind.preemptive) = false := rfl
@[simp] theorem pstore_beq_fstore : (ResKind.pstore == ResKind.fstore) = false := rfl

theorem doCall_load (s : KS) (self : EvId) (k : Nat) : doCall s self (.load k) = (s, .val (lookup s.shared k)) := rfl

theorem doCall_store (s : KS) (self : EvId) (k : Nat) (v : Val) :
    doCall s self (.store k v) = ({ s with shared := (k, v) :: s.shared.filter (·.1 != k) }, .unit) := rfl

theorem doCall_log (s : KS) (self : EvId) (what : String) (i : Int) :
    doCall s self (.log what (.int i)) = ({ s with trace := s.trace.push (.log self what (.int i) s.now) }, .unit) := rfl

theorem doCall_log_none (s : KS) (self : EvId) (what : String) :
    doCall s self (.log what .none) = ({ s with trace := s.trace.push (.log self what .none s.now) }, .unit) := rfl

theorem doCall_log_enc (s : KS) (self : EvId) (what : String) (x : ℚ) :
    doCall s self (.log what (TimeCell.enc x)) =
      ({ s with trace := s.trace.push (.log self what (TimeCell.enc x) s.now) }, .unit) := rfl

theorem doCall_timeout (s : KS) (self : EvId) (d : ℚ) (v : Val) (hd : 0 ≤ d) :
    doCall s self (.timeout d v) =
      ({ s with
          events := s.events.push { kind := .timeout, cbs := some [], out := some (.ok v), label := s.nlabel + 1 }
          nlabel := s.nlabel + 1
          agenda := { time := s.now + d, prio := NORMAL, eid := s.eid, ev := s.events.size } :: s.agenda
          eid := s.eid + 1 }, .ev s.events.size) := by
  have : ¬ d < Num.zero := by rw [zero_eq']; exact not_lt.mpr hd
  simp [doCall, this, KState.newLabelled, KState.schedule]

/-- `env.process(generator)` -/
theorem doCall_spawn (s : KS) (self : EvId) (st : St) :
    doCall s self (.spawn st) =
      ({ s with
          events := (s.events.push { kind := .proc, cbs := some [], out := none, label := s.nlabel + 1 }).push
                      { kind := .init s.events.size, cbs := some [.resume s.events.size], out := some (.ok .none) }
          nlabel := s.nlabel + 1
          procs := (s.events.size, { st := st, target := some (s.events.size + 1) }) :: s.procs.filter (·.1 != s.events.size)
          agenda := { time := s.now, prio := URGENT, eid := s.eid, ev := s.events.size + 1 } :: s.agenda
          eid := s.eid + 1 }, .ev s.events.size) := by
  simp [doCall, KState.newLabelled, KState.newEv, KState.setProc, KState.schedule, zero_eq']

/-- `store.put(item)` on an unbounded `PriorityStore` nobody has a pending `put` on: the item is appended, the `StorePut`
event is triggered at once (the hand-off to a waiting `get` happens when that event is processed) -/
theorem doCall_sput (s : KS) (self : EvId) (r : ResId) (item : Int) (gq : List EvId) (its : List Int)
    (hsz : r < s.resources.size) (hr : s.resources.getD r default = pstoreRec gq its) :
    doCall s self (.sput r item) =
      ({ s with
          events := s.events.push { kind := .put r, cbs := some [.trigGet r], out := some (.ok .none), label := s.nlabel + 1,
                                     req := some { res := r, item := item, time := s.now, proc := s.active } }
          nlabel := s.nlabel + 1
          resources := s.resources.setIfInBounds r (pstoreRec gq (its ++ [item]))
          agenda := { time := s.now, prio := NORMAL, eid := s.eid, ev := s.events.size } :: s.agenda
          eid := s.eid + 1 }, .ev s.events.size) := by
  simp [doCall, hr, pstoreRec, mkPut, KState.newLabelled, enqPut, KState.setPutQ, KState.setRes, KState.res,
    triggerPut, scanPut, doPut, prePut, canPut, hasRoom, applyPut, KState.setItems, KState.trigger, KState.setOut, KState.schedule,
    KState.setEv, KState.ev, reqOf, KState.triggered, dropPutQ, getD_set_same, hsz, getD_push, getD_setIfInBounds, zero_eq',
    TimerK.push_setIfInBounds_size]

/-- `store.get()` on an empty `PriorityStore` nobody waits on: the `StoreGet` event is queued -/
theorem doCall_sget_miss (s : KS) (self : EvId) (r : ResId) (hsz : r < s.resources.size)
    (hr : s.resources.getD r default = pstoreRec [] []) :
    doCall s self (.sget r 0) =
      ({ s with
          events := s.events.push { kind := .get r, cbs := some [.trigPut r], out := none, label := s.nlabel + 1,
                                     req := some { res := r, time := s.now, proc := s.active } }
          nlabel := s.nlabel + 1
          resources := s.resources.setIfInBounds r (pstoreRec [s.events.size] []) }, .ev s.events.size) := by
  simp [doCall, hr, pstoreRec, mkGet, KState.newLabelled, enqGet, KState.setGetQ, KState.setRes, KState.res,
    triggerGet, scanGet, doGet, getItem, listMin, KState.triggered, KState.ev, getD_set_same, hsz, getD_push]

/-- `store.get()` on a non-empty `PriorityStore`: the least item is handed out at once -/
theorem doCall_sget_hit (s : KS) (self : EvId) (r : ResId) (m : Int) (its : List Int) (hsz : r < s.resources.size)
    (hr : s.resources.getD r default = pstoreRec [] its) (hm : listMin its = some m) :
    doCall s self (.sget r 0) =
      ({ s with
          events := s.events.push { kind := .get r, cbs := some [.trigPut r], out := some (.ok (.int m)),
                                     label := s.nlabel + 1, req := some { res := r, time := s.now, proc := s.active } }
          nlabel := s.nlabel + 1
          resources := s.resources.setIfInBounds r (pstoreRec [] (its.erase m))
          agenda := { time := s.now, prio := NORMAL, eid := s.eid, ev := s.events.size } :: s.agenda
          eid := s.eid + 1 }, .ev s.events.size) := by
  simp [doCall, hr, pstoreRec, mkGet, KState.newLabelled, enqGet, KState.setGetQ, KState.setRes, KState.res,
    triggerGet, scanGet, doGet, getItem, hm, takeOut, KState.setItems, KState.trigger, KState.setOut, KState.schedule,
    KState.setEv, KState.triggered, KState.ev, dropGetQ, getD_set_same, hsz, getD_push, getD_setIfInBounds, zero_eq',
    TimerK.push_setIfInBounds_size]

theorem triggerPut_none (s : KS) (r : ResId) (gq : List EvId) (its : List Int)
    (hr : s.resources.getD r default = pstoreRec gq its) : triggerPut s r = s := by
  simp [triggerPut, KState.res, hr, pstoreRec, scanPut]

theorem triggerGet_none (s : KS) (r : ResId) (its : List Int)
    (hr : s.resources.getD r default = pstoreRec [] its) : triggerGet s r = s := by
  simp [triggerGet, KState.res, hr, pstoreRec, scanGet]

/-- `_trigger_get` with a waiting `get` and an empty store: nothing happens -/
theorem triggerGet_empty (s : KS) (r : ResId) (g : EvId) (hr : s.resources.getD r default = pstoreRec [g] [])
    (hg : (s.events.getD g default).out = none) : triggerGet s r = s := by
  simp [-Array.getD_eq_getD_getElem?, triggerGet, KState.res, hr, pstoreRec, scanGet, doGet, getItem, listMin,
    KState.triggered, KState.ev, hg]

/-- `_trigger_get` with a waiting `get` and an item: the least item is handed over, the `StoreGet` event is triggered -/
theorem triggerGet_hand (s : KS) (r : ResId) (g : EvId) (m : Int) (its : List Int) (hsz : r < s.resources.size)
    (hgs : g < s.events.size) (hr : s.resources.getD r default = pstoreRec [g] its) (hm : listMin its = some m) :
    triggerGet s r =
      { s with
          events := s.events.setIfInBounds g { s.events.getD g default with out := some (.ok (.int m)) }
          resources := s.resources.setIfInBounds r (pstoreRec [] (its.erase m))
          agenda := { time := s.now, prio := NORMAL, eid := s.eid, ev := g } :: s.agenda
          eid := s.eid + 1 } := by
  simp [-Array.getD_eq_getD_getElem?, hr, pstoreRec, KState.setGetQ, KState.setRes, KState.res,
    triggerGet, scanGet, doGet, getItem, hm, takeOut, KState.setItems, KState.trigger, KState.setOut, KState.schedule,
    KState.setEv, KState.triggered, KState.ev, dropGetQ, getD_set_same, hsz, hgs, getD_push, getD_setIfInBounds, zero_eq',
    TimerK.push_setIfInBounds_size]

/-! ## what the `PriorityStore` of `K` hands out -/

theorem listMin_spec : ∀ l : List Int, l ≠ [] → ∃ m, listMin l = some m ∧ m ∈ l ∧ ∀ x ∈ l, m ≤ x
  | [], h => absurd rfl h
  | [x], _ => ⟨x, by simp [listMin], by simp, by simp⟩
  | x :: y :: ys, _ => by
    obtain ⟨m, h1, h2, h3⟩ := listMin_spec (y :: ys) (by simp)
    by_cases hlt : m < x
    · refine ⟨m, by rw [listMin, h1]; simp [hlt], List.mem_cons_of_mem _ h2, ?_⟩
      intro z hz
      rcases List.mem_cons.mp hz with rfl | hz
      · exact le_of_lt hlt
      · exact h3 z hz
    · refine ⟨x, by rw [listMin, h1]; simp [hlt], List.mem_cons_self, ?_⟩
      intro z hz
      rcases List.mem_cons.mp hz with rfl | hz
      · exact le_refl _
      · exact le_trans (not_lt.mp hlt) (h3 z hz)

/-- the least element of a list is what `listMin` returns -/
theorem listMin_of_least {l : List Int} {m : Int} (hm : m ∈ l) (hle : ∀ x ∈ l, m ≤ x) : listMin l = some m := by
  obtain ⟨m', h1, h2, h3⟩ := listMin_spec l (List.ne_nil_of_mem hm)
  rw [h1, le_antisymm (h3 m hm) (hle m' h2)]

variable {N scale : Nat}

/-- the store hands out the integer of a least waiting packet -/
theorem listMin_codes {l : List PutRec} {w : PutRec} (hw : IsLeast N scale l w) :
    listMin (l.map (codeOf N scale)) = some (codeOf N scale w) := by
  refine listMin_of_least (List.mem_map.mpr ⟨w, hw.1, rfl⟩) ?_
  intro x hx
  obtain ⟨y, hy, rfl⟩ := List.mem_map.mp hx
  exact hw.2 y hy

/-- taking that integer out is taking the packet out (the codes of the waiting packets are pairwise different at `w`) -/
theorem erase_codes {l : List PutRec} {w : PutRec} (hinj : ∀ x ∈ l, codeOf N scale x = codeOf N scale w → x = w) :
    (l.map (codeOf N scale)).erase (codeOf N scale w) = (l.erase w).map (codeOf N scale) := by
  induction l with
  | nil => rfl
  | cons x xs ih =>
    by_cases hx : x = w
    · subst hx; simp
    · have hc : codeOf N scale x ≠ codeOf N scale w := fun h => hx (hinj x List.mem_cons_self h)
      rw [List.map_cons, List.erase_cons_tail (by simpa using hc), List.erase_cons_tail (by simpa using hx), List.map_cons,
        ih (fun y hy => hinj y (List.mem_cons_of_mem _ hy))]

/-- a non-empty store has a least packet -/
theorem exists_isLeast : ∀ l : List PutRec, l ≠ [] → ∃ w, IsLeast N scale l w := by
  intro l hl
  obtain ⟨m, _, h2, h3⟩ := listMin_spec (l.map (codeOf N scale)) (by simpa using hl)
  obtain ⟨w, hw, rfl⟩ := List.mem_map.mp h2
  exact ⟨w, hw, fun x hx => h3 _ (List.mem_map.mpr ⟨x, hx, rfl⟩)⟩

/-! ## the attribute cells are pairwise different -/

@[wfqk] theorem cRecv_ne_cCur : (cRecv = cCur) = False := by
  simp only [cRecv, cCur, eq_iff_iff, iff_false]; omega
@[wfqk] theorem cRecv_ne_cVtime : (cRecv = cVtime) = False := by
  simp only [cRecv, cVtime, eq_iff_iff, iff_false]; omega
@[wfqk] theorem cRecv_ne_cLast : (cRecv = cLast) = False := by
  simp only [cRecv, cLast, eq_iff_iff, iff_false]; omega
@[wfqk] theorem cRecv_ne_cCount (f' : Nat) : (cRecv = cCount f') = False := by
  simp only [cRecv, cCount, eq_iff_iff, iff_false]; omega
@[wfqk] theorem cRecv_ne_cBytes (f' : Nat) : (cRecv = cBytes f') = False := by
  simp only [cRecv, cBytes, eq_iff_iff, iff_false]; omega
@[wfqk] theorem cRecv_ne_cFin (f' : Nat) : (cRecv = cFin f') = False := by
  simp only [cRecv, cFin, eq_iff_iff, iff_false]; omega
@[wfqk] theorem cRecv_ne_cCls (f' : Nat) : (cRecv = cCls f') = False := by
  simp only [cRecv, cCls, eq_iff_iff, iff_false]; omega
@[wfqk] theorem cRecv_ne_cAct (f' : Nat) : (cRecv = cAct f') = False := by
  simp only [cRecv, cAct, eq_iff_iff, iff_false]; omega
@[wfqk] theorem cCur_ne_cRecv : (cCur = cRecv) = False := by
  simp only [cCur, cRecv, eq_iff_iff, iff_false]; omega
@[wfqk] theorem cCur_ne_cVtime : (cCur = cVtime) = False := by
  simp only [cCur, cVtime, eq_iff_iff, iff_false]; omega
@[wfqk] theorem cCur_ne_cLast : (cCur = cLast) = False := by
  simp only [cCur, cLast, eq_iff_iff, iff_false]; omega
@[wfqk] theorem cCur_ne_cCount (f' : Nat) : (cCur = cCount f') = False := by
  simp only [cCur, cCount, eq_iff_iff, iff_false]; omega
@[wfqk] theorem cCur_ne_cBytes (f' : Nat) : (cCur = cBytes f') = False := by
  simp only [cCur, cBytes, eq_iff_iff, iff_false]; omega
@[wfqk] theorem cCur_ne_cFin (f' : Nat) : (cCur = cFin f') = False := by
  simp only [cCur, cFin, eq_iff_iff, iff_false]; omega
@[wfqk] theorem cCur_ne_cCls (f' : Nat) : (cCur = cCls f') = False := by
  simp only [cCur, cCls, eq_iff_iff, iff_false]; omega
@[wfqk] theorem cCur_ne_cAct (f' : Nat) : (cCur = cAct f') = False := by
  simp only [cCur, cAct, eq_iff_iff, iff_false]; omega
@[wfqk] theorem cVtime_ne_cRecv : (cVtime = cRecv) = False := by
  simp only [cVtime, cRecv, eq_iff_iff, iff_false]; omega
@[wfqk] theorem cVtime_ne_cCur : (cVtime = cCur) = False := by
  simp only [cVtime, cCur, eq_iff_iff, iff_false]; omega
@[wfqk] theorem cVtime_ne_cLast : (cVtime = cLast) = False := by
  simp only [cVtime, cLast, eq_iff_iff, iff_false]; omega
@[wfqk] theorem cVtime_ne_cCount (f' : Nat) : (cVtime = cCount f') = False := by
  simp only [cVtime, cCount, eq_iff_iff, iff_false]; omega
@[wfqk] theorem cVtime_ne_cBytes (f' : Nat) : (cVtime = cBytes f') = False := by
  simp only [cVtime, cBytes, eq_iff_iff, iff_false]; omega
@[wfqk] theorem cVtime_ne_cFin (f' : Nat) : (cVtime = cFin f') = False := by
  simp only [cVtime, cFin, eq_iff_iff, iff_false]; omega
@[wfqk] theorem cVtime_ne_cCls (f' : Nat) : (cVtime = cCls f') = False := by
  simp only [cVtime, cCls, eq_iff_iff, iff_false]; omega
@[wfqk] theorem cVtime_ne_cAct (f' : Nat) : (cVtime = cAct f') = False := by
  simp only [cVtime, cAct, eq_iff_iff, iff_false]; omega
@[wfqk] theorem cLast_ne_cRecv : (cLast = cRecv) = False := by
  simp only [cLast, cRecv, eq_iff_iff, iff_false]; omega
@[wfqk] theorem cLast_ne_cCur : (cLast = cCur) = False := by
  simp only [cLast, cCur, eq_iff_iff, iff_false]; omega
@[wfqk] theorem cLast_ne_cVtime : (cLast = cVtime) = False := by
  simp only [cLast, cVtime, eq_iff_iff, iff_false]; omega
@[wfqk] theorem cLast_ne_cCount (f' : Nat) : (cLast = cCount f') = False := by
  simp only [cLast, cCount, eq_iff_iff, iff_false]; omega
@[wfqk] theorem cLast_ne_cBytes (f' : Nat) : (cLast = cBytes f') = False := by
  simp only [cLast, cBytes, eq_iff_iff, iff_false]; omega
@[wfqk] theorem cLast_ne_cFin (f' : Nat) : (cLast = cFin f') = False := by
  simp only [cLast, cFin, eq_iff_iff, iff_false]; omega
@[wfqk] theorem cLast_ne_cCls (f' : Nat) : (cLast = cCls f') = False := by
  simp only [cLast, cCls, eq_iff_iff, iff_false]; omega
@[wfqk] theorem cLast_ne_cAct (f' : Nat) : (cLast = cAct f') = False := by
  simp only [cLast, cAct, eq_iff_iff, iff_false]; omega
@[wfqk] theorem cCount_ne_cRecv (f : Nat) : (cCount f = cRecv) = False := by
  simp only [cCount, cRecv, eq_iff_iff, iff_false]; omega
@[wfqk] theorem cCount_ne_cCur (f : Nat) : (cCount f = cCur) = False := by
  simp only [cCount, cCur, eq_iff_iff, iff_false]; omega
@[wfqk] theorem cCount_ne_cVtime (f : Nat) : (cCount f = cVtime) = False := by
  simp only [cCount, cVtime, eq_iff_iff, iff_false]; omega
@[wfqk] theorem cCount_ne_cLast (f : Nat) : (cCount f = cLast) = False := by
  simp only [cCount, cLast, eq_iff_iff, iff_false]; omega
@[wfqk] theorem cCount_inj (f f' : Nat) : (cCount f = cCount f') = (f = f') := by
  simp only [cCount, eq_iff_iff]; omega
@[wfqk] theorem cCount_ne_cBytes (f : Nat) (f' : Nat) : (cCount f = cBytes f') = False := by
  simp only [cCount, cBytes, eq_iff_iff, iff_false]; omega
@[wfqk] theorem cCount_ne_cFin (f : Nat) (f' : Nat) : (cCount f = cFin f') = False := by
  simp only [cCount, cFin, eq_iff_iff, iff_false]; omega
@[wfqk] theorem cCount_ne_cCls (f : Nat) (f' : Nat) : (cCount f = cCls f') = False := by
  simp only [cCount, cCls, eq_iff_iff, iff_false]; omega
@[wfqk] theorem cCount_ne_cAct (f : Nat) (f' : Nat) : (cCount f = cAct f') = False := by
  simp only [cCount, cAct, eq_iff_iff, iff_false]; omega
@[wfqk] theorem cBytes_ne_cRecv (f : Nat) : (cBytes f = cRecv) = False := by
  simp only [cBytes, cRecv, eq_iff_iff, iff_false]; omega
@[wfqk] theorem cBytes_ne_cCur (f : Nat) : (cBytes f = cCur) = False := by
  simp only [cBytes, cCur, eq_iff_iff, iff_false]; omega
@[wfqk] theorem cBytes_ne_cVtime (f : Nat) : (cBytes f = cVtime) = False := by
  simp only [cBytes, cVtime, eq_iff_iff, iff_false]; omega
@[wfqk] theorem cBytes_ne_cLast (f : Nat) : (cBytes f = cLast) = False := by
  simp only [cBytes, cLast, eq_iff_iff, iff_false]; omega
@[wfqk] theorem cBytes_ne_cCount (f : Nat) (f' : Nat) : (cBytes f = cCount f') = False := by
  simp only [cBytes, cCount, eq_iff_iff, iff_false]; omega
@[wfqk] theorem cBytes_inj (f f' : Nat) : (cBytes f = cBytes f') = (f = f') := by
  simp only [cBytes, eq_iff_iff]; omega
@[wfqk] theorem cBytes_ne_cFin (f : Nat) (f' : Nat) : (cBytes f = cFin f') = False := by
  simp only [cBytes, cFin, eq_iff_iff, iff_false]; omega
@[wfqk] theorem cBytes_ne_cCls (f : Nat) (f' : Nat) : (cBytes f = cCls f') = False := by
  simp only [cBytes, cCls, eq_iff_iff, iff_false]; omega
@[wfqk] theorem cBytes_ne_cAct (f : Nat) (f' : Nat) : (cBytes f = cAct f') = False := by
  simp only [cBytes, cAct, eq_iff_iff, iff_false]; omega
@[wfqk] theorem cFin_ne_cRecv (f : Nat) : (cFin f = cRecv) = False := by
  simp only [cFin, cRecv, eq_iff_iff, iff_false]; omega
@[wfqk] theorem cFin_ne_cCur (f : Nat) : (cFin f = cCur) = False := by
  simp only [cFin, cCur, eq_iff_iff, iff_false]; omega
@[wfqk] theorem cFin_ne_cVtime (f : Nat) : (cFin f = cVtime) = False := by
  simp only [cFin, cVtime, eq_iff_iff, iff_false]; omega
@[wfqk] theorem cFin_ne_cLast (f : Nat) : (cFin f = cLast) = False := by
  simp only [cFin, cLast, eq_iff_iff, iff_false]; omega
@[wfqk] theorem cFin_ne_cCount (f : Nat) (f' : Nat) : (cFin f = cCount f') = False := by
  simp only [cFin, cCount, eq_iff_iff, iff_false]; omega
@[wfqk] theorem cFin_ne_cBytes (f : Nat) (f' : Nat) : (cFin f = cBytes f') = False := by
  simp only [cFin, cBytes, eq_iff_iff, iff_false]; omega
@[wfqk] theorem cFin_inj (f f' : Nat) : (cFin f = cFin f') = (f = f') := by
  simp only [cFin, eq_iff_iff]; omega
@[wfqk] theorem cFin_ne_cCls (f : Nat) (f' : Nat) : (cFin f = cCls f') = False := by
  simp only [cFin, cCls, eq_iff_iff, iff_false]; omega
@[wfqk] theorem cFin_ne_cAct (f : Nat) (f' : Nat) : (cFin f = cAct f') = False := by
  simp only [cFin, cAct, eq_iff_iff, iff_false]; omega
@[wfqk] theorem cCls_ne_cRecv (f : Nat) : (cCls f = cRecv) = False := by
  simp only [cCls, cRecv, eq_iff_iff, iff_false]; omega
@[wfqk] theorem cCls_ne_cCur (f : Nat) : (cCls f = cCur) = False := by
  simp only [cCls, cCur, eq_iff_iff, iff_false]; omega
@[wfqk] theorem cCls_ne_cVtime (f : Nat) : (cCls f = cVtime) = False := by
  simp only [cCls, cVtime, eq_iff_iff, iff_false]; omega
@[wfqk] theorem cCls_ne_cLast (f : Nat) : (cCls f = cLast) = False := by
  simp only [cCls, cLast, eq_iff_iff, iff_false]; omega
@[wfqk] theorem cCls_ne_cCount (f : Nat) (f' : Nat) : (cCls f = cCount f') = False := by
  simp only [cCls, cCount, eq_iff_iff, iff_false]; omega
@[wfqk] theorem cCls_ne_cBytes (f : Nat) (f' : Nat) : (cCls f = cBytes f') = False := by
  simp only [cCls, cBytes, eq_iff_iff, iff_false]; omega
@[wfqk] theorem cCls_ne_cFin (f : Nat) (f' : Nat) : (cCls f = cFin f') = False := by
  simp only [cCls, cFin, eq_iff_iff, iff_false]; omega
@[wfqk] theorem cCls_inj (f f' : Nat) : (cCls f = cCls f') = (f = f') := by
  simp only [cCls, eq_iff_iff]; omega
@[wfqk] theorem cCls_ne_cAct (f : Nat) (f' : Nat) : (cCls f = cAct f') = False := by
  simp only [cCls, cAct, eq_iff_iff, iff_false]; omega
@[wfqk] theorem cAct_ne_cRecv (f : Nat) : (cAct f = cRecv) = False := by
  simp only [cAct, cRecv, eq_iff_iff, iff_false]; omega
@[wfqk] theorem cAct_ne_cCur (f : Nat) : (cAct f = cCur) = False := by
  simp only [cAct, cCur, eq_iff_iff, iff_false]; omega
@[wfqk] theorem cAct_ne_cVtime (f : Nat) : (cAct f = cVtime) = False := by
  simp only [cAct, cVtime, eq_iff_iff, iff_false]; omega
@[wfqk] theorem cAct_ne_cLast (f : Nat) : (cAct f = cLast) = False := by
  simp only [cAct, cLast, eq_iff_iff, iff_false]; omega
@[wfqk] theorem cAct_ne_cCount (f : Nat) (f' : Nat) : (cAct f = cCount f') = False := by
  simp only [cAct, cCount, eq_iff_iff, iff_false]; omega
@[wfqk] theorem cAct_ne_cBytes (f : Nat) (f' : Nat) : (cAct f = cBytes f') = False := by
  simp only [cAct, cBytes, eq_iff_iff, iff_false]; omega
@[wfqk] theorem cAct_ne_cFin (f : Nat) (f' : Nat) : (cAct f = cFin f') = False := by
  simp only [cAct, cFin, eq_iff_iff, iff_false]; omega
@[wfqk] theorem cAct_ne_cCls (f : Nat) (f' : Nat) : (cAct f = cCls f') = False := by
  simp only [cAct, cCls, eq_iff_iff, iff_false]; omega
@[wfqk] theorem cAct_inj (f f' : Nat) : (cAct f = cAct f') = (f = f') := by
  simp only [cAct, eq_iff_iff]; omega
@[wfqk] theorem pst_eq : pst = 0 := rfl

/-! ## bursts: reading attributes does not change the state -/

theorem runBurst_call (p : EvId) (c : Call ℚ St) (k : Reply → Burst ℚ St) (S : KS) :
    runBurst p (.call c k) S = runBurst p (k (doCall S p c).2) (noteErr p (doCall S p c)) := rfl

theorem runBurst_loadInt (p : EvId) (k : Nat) (n : Int) (cont : Int → Burst ℚ St) (S : KS)
    (h : lookup S.shared k = .int n) : runBurst p (loadInt k cont) S = runBurst p (cont n) S := by
  simp [loadInt, runBurst_call, doCall_load, noteErr, h]

theorem runBurst_addInt (p : EvId) (k : Nat) (n d : Int) (cont : Burst ℚ St) (S : KS)
    (h : lookup S.shared k = .int n) :
    runBurst p (addInt k d cont) S =
      runBurst p cont { S with shared := (k, .int (n + d)) :: S.shared.filter (·.1 != k) } := by
  simp [addInt, loadInt, runBurst_call, doCall_load, doCall_store, noteErr, h]

/-- `d[class_id]` on a dict of scalars whose cell holds `x` -/
theorem runBurst_loadKey (p : EvId) (k : Nat) (x : ℚ) (cont : ℚ → Burst ℚ St) (S : KS)
    (h : lookup S.shared k = TimeCell.enc x) : runBurst p (loadKey k cont) S = runBurst p (cont x) S := by
  simp [loadKey, runBurst_call, doCall_load, noteErr, h, TimerK.dec_enc]

/-- `d.get(class_id)` on a dict of integers -/
theorem runBurst_loadIntKey (p : EvId) (k : Nat) (o : Option Int) (cont : Option Int → Burst ℚ St) (S : KS)
    (h : lookup S.shared k = clsVal o) : runBurst p (loadIntKey k cont) S = runBurst p (cont o) S := by
  cases o <;> simp [loadIntKey, runBurst_call, doCall_load, noteErr, h, clsVal]

theorem runBurst_store (p : EvId) (k : Nat) (v : Val) (cont : Burst ℚ St) (S : KS) :
    runBurst p (.call (.store k v) fun _ => cont) S =
      runBurst p cont { S with shared := (k, v) :: S.shared.filter (·.1 != k) } := by
  simp [runBurst_call, doCall_store, noteErr]

/-! ## the loops: they only read (or only store) attribute cells -/

variable {F : Nat} {cfg : WfqCfg ℚ}

/-- `sum(self.queue_count.values())` reads the counters -/
theorem runBurst_sumCounts (p : EvId) (c : Nat → Int) (S : KS) (k : Int → Burst ℚ St) :
    ∀ (n f : Nat) (acc : Int), (∀ j, f ≤ j → j < f + n → lookup S.shared (cCount j) = .int (c j)) →
      runBurst p (sumCounts f n acc k) S = runBurst p (k (acc + sumFrom c f n)) S
  | 0, f, acc, _ => by simp [sumCounts, sumFrom]
  | n + 1, f, acc, h => by
    rw [sumCounts, runBurst_loadInt p _ (c f) _ S (h f (Nat.le_refl _) (by omega)),
      runBurst_sumCounts p c S k n (f + 1) (acc + c f) (fun j h1 h2 => h j (by omega) (by omega))]
    simp [sumFrom, Int.add_assoc]

/-- `self.total_packets` reads the `F` counters -/
theorem runBurst_total (p : EvId) (F : Nat) (c : Nat → Int) (S : KS) (k : Int → Burst ℚ St)
    (h : ∀ f, f < F → lookup S.shared (cCount f) = .int (c f)) :
    runBurst p (totalPackets F k) S = runBurst p (k (sumFrom c 0 F)) S := by
  rw [totalPackets, runBurst_sumCounts p c S k F 0 0 (fun j _ h2 => h j (by omega))]
  simp

/-- `for i in self.active_set: weight_sum += self.weights[i]` reads the membership cells -/
theorem runBurst_sumWeights (p : EvId) (act : Nat → Bool) (S : KS) (k : ℚ → Burst ℚ St) :
    ∀ (n c : Nat) (acc : ℚ),
      (∀ j, c ≤ j → j < c + n → lookup S.shared (cAct j) = .int (if act j then 1 else 0)) →
      (∀ j, c ≤ j → j < c + n → Stamp.lookup cfg.weights j = some (wOf cfg j)) →
      runBurst p (sumWeights cfg c n acc k) S = runBurst p (k (wsum cfg act c n acc)) S
  | 0, c, acc, _, _ => by simp [sumWeights, wsum]
  | n + 1, c, acc, h, hw => by
    have ih := fun acc' => runBurst_sumWeights p act S k n (c + 1) acc' (fun j h1 h2 => h j (by omega) (by omega))
      (fun j h1 h2 => hw j (by omega) (by omega))
    rw [sumWeights, runBurst_loadInt p _ _ _ S (h c (Nat.le_refl _) (by omega))]
    cases hc : act c
    · simp only [wsum, hc, Bool.false_eq_true, if_false]
      first | rw [ih] | rw [if_neg (by decide), ih]
    · simp only [wsum, hc, if_true]
      rw [hw c (Nat.le_refl _) (by omega)]
      exact ih _

/-- `len(self.active_set)` reads the membership cells -/
theorem runBurst_sumActive (p : EvId) (act : Nat → Bool) (S : KS) (k : Int → Burst ℚ St) :
    ∀ (n c : Nat) (acc : Int),
      (∀ j, c ≤ j → j < c + n → lookup S.shared (cAct j) = .int (if act j then 1 else 0)) →
      runBurst p (sumActive c n acc k) S = runBurst p (k (nAct act c n acc)) S
  | 0, c, acc, _ => by simp [sumActive, nAct]
  | n + 1, c, acc, h => by
    rw [sumActive, runBurst_loadInt p _ _ _ S (h c (Nat.le_refl _) (by omega)),
      runBurst_sumActive p act S k n (c + 1) _ (fun j h1 h2 => h j (by omega) (by omega))]
    rfl

/-- `for class_id in self.weights.keys(): self.finish_times[class_id] = 0.0` stores `0.0` into the cells of the keys and
leaves every other cell (and everything else) alone -/
theorem runBurst_zeroFinish (p : EvId) (cont : Burst ℚ St) :
    ∀ (l : List (Nat × ℚ)) (S : KS), ∃ sh,
      runBurst p (zeroFinish l cont) S = runBurst p cont { S with shared := sh } ∧
      (∀ k, (∀ kv ∈ l, k ≠ cFin kv.1) → lookup sh k = lookup S.shared k) ∧
      (∀ kv ∈ l, lookup sh (cFin kv.1) = TimeCell.enc (0 : ℚ))
  | [], S => ⟨S.shared, rfl, fun _ _ => rfl, fun _ h => nomatch h⟩
  | (c, w) :: r, S => by
    obtain ⟨sh, h1, h2, h3⟩ := runBurst_zeroFinish p cont r
      { S with shared := (cFin c, TimeCell.enc (0 : ℚ)) :: S.shared.filter (·.1 != cFin c) }
    refine ⟨sh, ?_, ?_, ?_⟩
    · rw [zeroFinish, zero_eq', runBurst_store, h1]
    · intro k hk
      rw [h2 k (fun kv hkv => hk kv (List.mem_cons_of_mem _ hkv)), TimerK.lookup_store,
        if_neg (hk (c, w) List.mem_cons_self)]
    · intro kv hkv
      by_cases hin : ∃ kv' ∈ r, kv'.1 = kv.1
      · obtain ⟨kv', hkv', he⟩ := hin
        rw [← he]; exact h3 kv' hkv'
      · rcases List.mem_cons.mp hkv with rfl | hkv
        · rw [h2 _ (fun kv' hkv' hc => hin ⟨kv', hkv', ((cFin_inj _ _).mp hc).symm⟩), TimerK.lookup_store, if_pos rfl]
        · exact absurd ⟨kv, hkv, rfl⟩ hin

end WFQK
