import OnlVerif.Lemmas.WFQKDefs
/-!
# The WFQ scheduler on the kernel model: minimal agenda entries of a configuration, the clock advance
-/

set_option linter.unusedSimpArgs false

namespace WFQK
open WFQOnK QEntry

variable {N scale F : Nat} {flow size : Int → Nat} {cfg : WfqCfg ℚ} {d1 L : Nat}

theorem mem_run {a : A} {x : QEntry ℚ} (h : x ∈ a.run.entries) : x ∈ a.entries := by
  simp [A.entries, h]

theorem mem_src {a : A} {x : QEntry ℚ} (h : x ∈ a.src.entries) : x ∈ a.entries := by
  simp [A.entries, h]

theorem mem_pend {a : A} {u : QEntry ℚ} (h : u ∈ a.pend) : u ∈ a.entries := by
  simp [A.entries, h]

/-- an entry due now with a smaller priority number or an older `eid` goes first -/
theorem keyLt_of_now {x q : QEntry ℚ} {now : ℚ} (hx : x.time = now) (hq : now ≤ q.time)
    (h : now < q.time ∨ x.prio < q.prio ∨ (x.prio = q.prio ∧ x.eid < q.eid)) : KeyLt x q := by
  unfold KeyLt
  rcases lt_or_eq_of_le hq with h1 | h1
  · exact Or.inl (hx ▸ h1)
  · rcases h with h | h | h
    · exact Or.inl (hx ▸ h)
    · exact Or.inr ⟨hx.trans h1, Or.inl h⟩
    · exact Or.inr ⟨hx.trans h1, Or.inr h⟩

/-- `q` is a minimal entry of the configuration: what `popMin` returns -/
def IsMin (a : A) (q : QEntry ℚ) : Prop := q ∈ a.entries ∧ ∀ x ∈ a.entries, ¬ KeyLt x q

variable {a : A} {now : ℚ} {q : QEntry ℚ}

theorem AInv.now_le (hi : AInv N scale size F flow cfg d1 L a now) (hq : IsMin a q) : now ≤ q.time := hi.due q hq.1

theorem AInv.time_eq (hi : AInv N scale size F flow cfg d1 L a now) (hq : IsMin a q) {x : QEntry ℚ} (hx : x ∈ a.entries)
    (hxt : x.time = now) : q.time = now :=
  le_antisymm (hxt ▸ not_keyLt_time (hq.2 x hx)) (hi.due q hq.1)

theorem AInv.not_prio_lt (hi : AInv N scale size F flow cfg d1 L a now) (hq : IsMin a q) {x : QEntry ℚ} (hx : x ∈ a.entries)
    (hxt : x.time = now) (hp : x.prio < q.prio) : False :=
  hq.2 x hx (keyLt_of_now hxt (hi.now_le hq) (Or.inr (Or.inl hp)))

/-- **letting the clock advance to the next entry changes nothing else** -/
theorem AInv.advance (hi : AInv N scale size F flow cfg d1 L a now) (hq : IsMin a q) : AInv N scale size F flow cfg d1 L a q.time := by
  rcases eq_or_lt_of_le (hi.now_le hq) with h | h
  · rw [← h]; exact hi
  have hne : ∀ x ∈ a.entries, x.time ≠ now := fun x hx hxt => absurd (hi.time_eq hq hx hxt) (ne_of_gt h)
  refine ⟨?_, ?_, ?_, ?_, hi.sub, hi.mono, ?_, hi.keysOK, hi.cntOK, hi.clsOK, hi.actOK, hi.fsetOK, ?_, hi.lastG, le_trans hi.lastLe (le_of_lt h),
    hi.vtG, hi.finG, hi.entG, hi.cfgOK, hi.grid⟩
  · have hp := hi.run
    cases hr : a.run with
    | init q0 => rw [hr] at hp; exact absurd hp.1 (hne q0 (mem_run (by simp [hr, RPhase.entries])))
    | W g => rw [hr] at hp; exact hp
    | H g w q0 => rw [hr] at hp; exact absurd hp.1 (hne q0 (mem_run (by simp [hr, RPhase.entries])))
    | S p id q0 => rw [hr] at hp; exact absurd hp.1 (hne q0 (mem_run (by simp [hr, RPhase.entries])))
    | T p t id q0 => rw [hr] at hp; exact hp
    | F p id q0 => rw [hr] at hp; exact absurd hp.1 (hne q0 (mem_run (by simp [hr, RPhase.entries])))
  · have hs := hi.src
    cases hsrc : a.src with
    | init q0 arr => rw [hsrc] at hs; exact absurd hs.1 (hne q0 (mem_src (by simp [hsrc, SPhase.entries])))
    | wait id rest q0 => rw [hsrc] at hs; exact hs
    | ending q0 => rw [hsrc] at hs; exact absurd hs.1 (hne q0 (mem_src (by simp [hsrc, SPhase.entries])))
    | done => trivial
  · intro u hu
    exact absurd (hi.pend u hu).1 (hne u (mem_pend hu))
  · intro x hx; exact not_keyLt_time (hq.2 x hx)
  · intro w hw
    obtain ⟨h1, h2, h3, h4, h5, h6⟩ := hi.putOK w hw
    exact ⟨h1, h2, h3, le_trans h4 (le_of_lt h), h5, h6⟩
  · intro hpe
    obtain ⟨u, hu⟩ := List.exists_mem_of_ne_nil _ hpe
    exact absurd (hi.pend u hu).1 (hne u (mem_pend hu))

end WFQK
