import OnlVerif.Lemmas.VCKAbs
import Mathlib.Tactic.Linarith
import Mathlib.Tactic.Ring
/-!
# The VirtualClock scheduler on the kernel model: the grid `ℤ / scale` is closed under what `put` computes
-/

set_option linter.unusedSimpArgs false

namespace VCK
open VCOnK

variable {scale : Nat}

theorem onGrid_zero : OnGrid scale 0 := ⟨0, by simp⟩

theorem onGrid_add {x y : ℚ} (hx : OnGrid scale x) (hy : OnGrid scale y) : OnGrid scale (x + y) := by
  obtain ⟨k, rfl⟩ := hx
  obtain ⟨l, rfl⟩ := hy
  exact ⟨k + l, by push_cast; rw [add_div]⟩

theorem onGrid_max {x y : ℚ} (hx : OnGrid scale x) (hy : OnGrid scale y) : OnGrid scale (max x y) := by
  rcases max_choice x y with h | h <;> rw [h] <;> assumption

theorem onGrid_pymax {x y : ℚ} (hx : OnGrid scale x) (hy : OnGrid scale y) : OnGrid scale (Num.pymax x y) := by
  unfold Num.pymax
  split <;> assumption

/-- the stamp of a `put` lies on the grid -/
theorem onGrid_auxOf {now a vt : ℚ} (hn : OnGrid scale now) (ha : OnGrid scale a) (hv : OnGrid scale vt) :
    OnGrid scale (VC.auxOf now a vt) := by
  rw [VC.auxOf_eq]
  exact onGrid_add (onGrid_max hn ha) hv

theorem lookup_mem {β : Type} : ∀ (l : List (Nat × β)) (k : Nat) (v : β), Stamp.lookup l k = some v → (k, v) ∈ l
  | [], _, _, h => by cases h
  | (k', v') :: r, k, v, h => by
    simp only [Stamp.lookup] at h
    split at h
    · rename_i hk
      cases h; subst hk
      exact List.mem_cons_self
    · exact List.mem_cons_of_mem _ (lookup_mem r k v h)

/-- the looked-up vtick lies on the grid -/
theorem onGrid_vtOf {cfg : VcCfg ℚ} (hg : ∀ kv ∈ cfg.vticks, OnGrid scale kv.2) (c : Nat) : OnGrid scale (vtOf cfg c) := by
  unfold vtOf
  cases h : Stamp.lookup cfg.vticks c with
  | none => exact onGrid_zero
  | some vt => exact hg (c, vt) (lookup_mem _ _ _ h)

end VCK
