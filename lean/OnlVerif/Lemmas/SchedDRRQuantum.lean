import Mathlib.Tactic.FieldSimp
import OnlVerif.Lemmas.SchedDRRWindow
/-! # DRR: the quantum `1500·w/min w` -/

namespace DRR
open MQ

theorem minWeight_mem (l : List (Nat × Nat)) (h : l ≠ []) : ∃ e ∈ l, minWeight l = e.2 := by
  induction l with
  | nil => exact absurd rfl h
  | cons a r ih =>
    obtain ⟨c, w⟩ := a
    cases r with
    | nil => exact ⟨(c, w), by simp, rfl⟩
    | cons b r' =>
      obtain ⟨e, he, hm⟩ := ih (by simp)
      simp only [minWeight]
      split
      · exact ⟨e, List.mem_cons_of_mem _ he, hm⟩
      · exact ⟨(c, w), by simp, rfl⟩

theorem minWeight_le (l : List (Nat × Nat)) (e : Nat × Nat) (he : e ∈ l) : minWeight l ≤ e.2 := by
  induction l with
  | nil => cases he
  | cons a r ih =>
    obtain ⟨c, w⟩ := a
    cases r with
    | nil =>
      simp only [List.mem_singleton] at he; subst he; simp [minWeight]
    | cons b r' =>
      simp only [minWeight]
      rcases List.mem_cons.mp he with rfl | he'
      · split
        · rename_i hlt; exact Nat.le_of_lt hlt
        · exact Nat.le_refl _
      · have := ih he'
        split
        · exact this
        · rename_i hge; exact Nat.le_trans (Nat.le_of_not_lt hge) this

theorem mem_of_lookup {β : Type} (m : List (Nat × β)) (c : Nat) (v : β) (h : lookup m c = some v) : (c, v) ∈ m := by
  induction m with
  | nil => simp [lookup] at h
  | cons a r ih =>
    obtain ⟨k1, v1⟩ := a
    by_cases hk : k1 = c
    · simp only [lookup, hk, if_true, Option.some.injEq] at h; subst h; subst hk; simp
    · simp only [lookup, hk, if_false] at h
      exact List.mem_cons_of_mem _ (ih h)

/-- with positive weights every quantum is at least `MIN_QUANTUM = 1500` -/
theorem quantum_ge (cfg : Cfg ℚ) (hpos : ∀ e ∈ cfg.weights, 0 < e.2) (cls : Nat) (q : ℚ)
    (h : quantum cfg cls = some q) : 1500 ≤ q := by
  simp only [quantum, Option.map_eq_some_iff] at h
  obtain ⟨w, hw, rfl⟩ := h
  have hmem := mem_of_lookup _ _ _ hw
  have hne : cfg.weights ≠ [] := List.ne_nil_of_mem hmem
  obtain ⟨e, he, hm⟩ := minWeight_mem cfg.weights hne
  have hmpos : 0 < minWeight cfg.weights := hm ▸ hpos e he
  have hle : minWeight cfg.weights ≤ w := minWeight_le cfg.weights (cls, w) hmem
  simp only [quantumW, Num.ofNat]
  rw [le_div_iff₀ (by exact_mod_cast hmpos)]
  have : (minWeight cfg.weights : ℚ) ≤ (w : ℚ) := by exact_mod_cast hle
  push_cast
  linarith

end DRR
