import OnlVerif.Lemmas.GenKernelCap
import OnlVerif.Generated.KernelRes6
/-!
# Bridge lemmas (C06): generated `Resource` / `PriorityRequest` / `PreemptiveResource` methods (`Generated/KernelRes6.lean`) = the
resource functions of model `K` (`Kernel/Ops.lean`)

For every scalar type (no arithmetic identity is needed): the guards are compared as decision procedures, the effects
through `GenKernel.runEff`.  The first section says how each translated method is run on a model state (external quantities
such as `len(self._users)` are read from the state).
-/

namespace GenKernel
variable {τ σ : Type} [Num τ]

/-! ## running the translated methods on a model state -/

/-- `request.key` -/
def keyOf (rq : ReqData τ) : Int × τ × Bool := Gen.PriorityRequest.key rq.prio rq.time rq.preempt

/-- `Resource._do_put(event)` -/
def runResourcePut (cx : Cx) (s : KState τ σ) : Option (KState τ σ × Bool) :=
  let g := Gen.Resource.do_put (resObj (s.res cx.r)) (s.res cx.r).users.length
  finish cx s g.eff g.ret

/-- `Resource._do_get(event)` -/
def runResourceGet (cx : Cx) (s : KState τ σ) : Option (KState τ σ × Bool) :=
  let g := Gen.Resource.do_get (resObj (s.res cx.r))
  finish cx s g.eff g.ret

/-- the statement of `PreemptiveResource._do_put` before `return super()._do_put(event)` -/
def runPreemptStep (cx : Cx) (s : KState τ σ) : Option (KState τ σ) :=
  runEff cx (Gen.PreemptiveResource.pre_put (resObj (s.res cx.r)) (s.res cx.r).users.length (reqOf s cx.e).preempt
    (keyOf (reqOf s cx.e)) (keyOf (reqOf s cx.w))).eff s

/-- `PreemptiveResource._do_put(event)`: the eviction step, then `Resource._do_put` -/
def runPreemptivePut (cx : Cx) (s : KState τ σ) : Option (KState τ σ × Bool) :=
  (runPreemptStep cx s).bind (runResourcePut cx)

/-! ## `Resource._do_put` / `_do_get` -/

/-- the free-slot test of `Resource._do_put` is `hasRoom` -/
theorem resource_guard (rr : ResRec) (n : Nat) :
    (Gen.Resource.do_put (resObj (τ := τ) rr) (n : Int)).ret = hasRoom rr.capacity n := by
  unfold Gen.Resource.do_put
  by_cases h : hasRoom rr.capacity n = true
  · have h' : ExtInt.fin (n : Int) < (resObj (τ := τ) rr).capacity := (fin_lt_capOf _ _).2 h
    rw [if_pos h', h]
  · have h' : ¬ ExtInt.fin (n : Int) < (resObj (τ := τ) rr).capacity := mt (fin_lt_capOf _ _).1 h
    rw [if_neg h']
    simpa using h

theorem resource_do_put (s : KState τ σ) (r : ResId) (e : EvId)
    (hk : (s.res r).kind = .resource ∨ (s.res r).kind = .priority) :
    runEff { r := r, e := e } (Gen.Resource.do_put (resObj (s.res r)) (s.res r).users.length).eff s = some (doPut s r e).1 ∧
    (Gen.Resource.do_put (resObj (τ := τ) (s.res r)) (s.res r).users.length).ret = (doPut s r e).2 := by
  have hp : prePut s r e = s := by
    unfold prePut; rcases hk with h | h <;> rw [h] <;> rfl
  have hc : canPut s r e = hasRoom (s.res r).capacity (s.res r).users.length := by
    unfold canPut; rcases hk with h | h <;> simp [h]
  unfold doPut
  rw [hp, hc]
  unfold Gen.Resource.do_put
  by_cases h : hasRoom (s.res r).capacity (s.res r).users.length = true
  · have h' : ExtInt.fin ((s.res r).users.length : Int) < (resObj (τ := τ) (s.res r)).capacity := (fin_lt_capOf _ _).2 h
    rw [if_pos h', if_pos h]
    refine ⟨?_, rfl⟩
    unfold applyPut
    rcases hk with hk | hk <;> simp [runEff, applyEff, hk, resObj]
  · have h' : ¬ ExtInt.fin ((s.res r).users.length : Int) < (resObj (τ := τ) (s.res r)).capacity := mt (fin_lt_capOf _ _).1 h
    rw [if_neg h', if_neg h]
    exact ⟨rfl, rfl⟩

theorem resource_do_get (s : KState τ σ) (r : ResId) (e : EvId)
    (hk : (s.res r).kind = .resource ∨ (s.res r).kind = .priority ∨ (s.res r).kind = .preemptive) :
    runEff { r := r, e := e } (Gen.Resource.do_get (resObj (s.res r))).eff s = some (doGet s r e).1 ∧
    (Gen.Resource.do_get (resObj (τ := τ) (s.res r))).ret = (doGet s r e).2 := by
  have hg : getItem s r e = some .none := by
    unfold getItem; dsimp only; rcases hk with h | h | h <;> rw [h]
  have ht : takeOut s r e .none = s.setUsers r ((s.res r).users.erase (reqOf s e).releaseOf) := by
    unfold takeOut; dsimp only; rcases hk with h | h | h <;> rw [h]
  unfold doGet
  rw [hg]
  simp only [ht]
  exact ⟨rfl, rfl⟩

/-! ## `PriorityRequest.key`, `PreemptiveResource._do_put` -/

theorem keyLt_eq (a b : ReqData τ) : keyLt a b = Py.keyLt (keyOf a) (keyOf b) := by
  unfold keyLt Py.keyLt keyOf Gen.PriorityRequest.key
  cases a.preempt <;> cases b.preempt <;> simp [Bool.beq_eq_decide_eq]

theorem worstUser_none (s : KState τ σ) : ∀ l : List EvId, worstUser s l = none → l = []
  | [], _ => rfl
  | u :: us, h => by
    unfold worstUser at h
    split at h
    · cases h
    · split at h <;> cases h

theorem mkInterrupt_res (s : KState τ σ) (p : EvId) (c : Val) (r : ResId) : (mkInterrupt s p c).1.res r = s.res r := by
  unfold mkInterrupt
  split
  · rfl
  · split <;> rfl

omit [Num τ] in
theorem setUsers_kind (s : KState τ σ) (r : ResId) (l : List EvId) (r' : ResId) :
    ((s.setUsers r l).res r').kind = (s.res r').kind ∧ ((s.setUsers r l).res r').capacity = (s.res r').capacity := by
  unfold KState.setUsers
  rw [KState.res_setRes]
  split
  · rename_i h; rw [h.1]; exact ⟨rfl, rfl⟩
  · exact ⟨rfl, rfl⟩

theorem preemptStep_kind (s : KState τ σ) (r : ResId) (e : EvId) :
    ((preemptStep s r e).res r).kind = (s.res r).kind ∧ ((preemptStep s r e).res r).capacity = (s.res r).capacity := by
  unfold preemptStep
  dsimp only
  split
  · split
    · exact ⟨rfl, rfl⟩
    · split
      · split
        · rw [mkInterrupt_res]; exact setUsers_kind s r _ r
        · exact setUsers_kind s r _ r
      · exact ⟨rfl, rfl⟩
  · exact ⟨rfl, rfl⟩

/-- the eviction step; `w` is the victim whenever there is a user, and the capacity is not 0 (`Resource.__init__` refuses it) -/
theorem preemptive_pre_put (s : KState τ σ) (r : ResId) (e w : EvId)
    (hw : ∀ w', worstUser s (s.res r).users = some w' → w' = w) (hcap : (s.res r).capacity ≠ some 0) :
    runEff { r := r, e := e, w := w }
      (Gen.PreemptiveResource.pre_put (resObj (s.res r)) (s.res r).users.length (reqOf s e).preempt
        (keyOf (reqOf s e)) (keyOf (reqOf s w))).eff s = some (preemptStep s r e) := by
  unfold preemptStep Gen.PreemptiveResource.pre_put
  dsimp only
  by_cases hg : ((s.res r).capacity.any (fun c => decide (c ≤ (s.res r).users.length)) && (reqOf s e).preempt) = true
  · rw [if_pos hg]
    have hg' : (resObj (τ := τ) (s.res r)).capacity ≤ ExtInt.fin ((s.res r).users.length : Int) ∧ (reqOf s e).preempt = true := by
      rw [Bool.and_eq_true] at hg
      exact ⟨(capOf_le_fin _ _).2 hg.1, hg.2⟩
    rw [if_pos hg']
    cases hwu : worstUser s (s.res r).users with
    | none =>
      -- no user: the capacity would have to be 0
      exfalso
      have hl := worstUser_none s _ hwu
      rw [Bool.and_eq_true] at hg
      rw [hl] at hg
      cases hc : (s.res r).capacity with
      | none => rw [hc] at hg; simp at hg
      | some c =>
        rw [hc] at hg hcap
        simp at hg
        exact hcap (by rw [hg.1])
    | some w' =>
      have := hw w' hwu
      subst this
      dsimp only
      rw [← keyLt_eq]
      by_cases hk : keyLt (reqOf s e) (reqOf s w') = true
      · rw [if_pos hk, if_pos hk]
        simp only [resObj, runEff, applyEff, List.nil_append, List.cons_append, Option.bind_some, reqOf, KState.ev_setRes, KState.setUsers]
        cases (reqOf s w').proc <;> rfl
      · rw [if_neg hk, if_neg hk]
        rfl
  · rw [if_neg hg]
    have hg' : ¬ ((resObj (τ := τ) (s.res r)).capacity ≤ ExtInt.fin ((s.res r).users.length : Int) ∧ (reqOf s e).preempt = true) := by
      intro h
      apply hg
      rw [Bool.and_eq_true]
      exact ⟨(capOf_le_fin _ _).1 h.1, h.2⟩
    rw [if_neg hg']
    rfl

/-- `Resource._do_put` in any state of a resource of the three classes -/
theorem resource_do_put_at (s : KState τ σ) (r : ResId) (e w : EvId)
    (hk : (s.res r).kind = .resource ∨ (s.res r).kind = .priority ∨ (s.res r).kind = .preemptive) :
    runEff { r := r, e := e, w := w } (Gen.Resource.do_put (resObj (s.res r)) (s.res r).users.length).eff s =
      some (if canPut s r e = true then applyPut s r e else s) ∧
    (Gen.Resource.do_put (resObj (τ := τ) (s.res r)) (s.res r).users.length).ret = canPut s r e := by
  have hc : canPut s r e = hasRoom (s.res r).capacity (s.res r).users.length := by
    unfold canPut; rcases hk with h | h | h <;> simp [h]
  rw [hc]
  unfold Gen.Resource.do_put
  by_cases h : hasRoom (s.res r).capacity (s.res r).users.length = true
  · have h' : ExtInt.fin ((s.res r).users.length : Int) < (resObj (τ := τ) (s.res r)).capacity := (fin_lt_capOf _ _).2 h
    rw [if_pos h', if_pos h]
    refine ⟨?_, h.symm⟩
    unfold applyPut
    rcases hk with hk | hk | hk <;> simp [runEff, applyEff, hk, resObj]
  · have h' : ¬ ExtInt.fin ((s.res r).users.length : Int) < (resObj (τ := τ) (s.res r)).capacity := mt (fin_lt_capOf _ _).1 h
    rw [if_neg h', if_neg h]
    refine ⟨rfl, ?_⟩
    simpa using h

/-- `PreemptiveResource._do_put` = eviction step, then `Resource._do_put` -/
theorem preemptive_do_put (s : KState τ σ) (r : ResId) (e w : EvId) (hk : (s.res r).kind = .preemptive)
    (hw : ∀ w', worstUser s (s.res r).users = some w' → w' = w) (hcap : (s.res r).capacity ≠ some 0) :
    runPreemptivePut { r := r, e := e, w := w } s = some (doPut s r e) := by
  unfold runPreemptivePut runPreemptStep
  rw [preemptive_pre_put s r e w hw hcap]
  have hk1 : ((preemptStep s r e).res r).kind = .preemptive := by rw [(preemptStep_kind s r e).1, hk]
  have h := resource_do_put_at (preemptStep s r e) r e w (Or.inr (Or.inr hk1))
  simp only [Option.bind_some, runResourcePut, finish]
  rw [h.1, h.2]
  have hp : prePut s r e = preemptStep s r e := by unfold prePut; rw [hk]; rfl
  unfold doPut
  rw [hp]
  by_cases hc : canPut (preemptStep s r e) r e = true
  · rw [if_pos hc, if_pos hc, hc]; rfl
  · rw [if_neg hc, if_neg hc]
    have : canPut (preemptStep s r e) r e = false := by simpa using hc
    rw [this]; rfl

theorem resource_put_run (s : KState τ σ) (r : ResId) (e : EvId)
    (hk : (s.res r).kind = .resource ∨ (s.res r).kind = .priority) :
    runResourcePut { r := r, e := e } s = some (doPut s r e) := by
  have h := resource_do_put s r e hk
  simp only [runResourcePut, finish]
  rw [h.1, h.2]; rfl

theorem resource_get_run (s : KState τ σ) (r : ResId) (e : EvId)
    (hk : (s.res r).kind = .resource ∨ (s.res r).kind = .priority ∨ (s.res r).kind = .preemptive) :
    runResourceGet { r := r, e := e } s = some (doGet s r e) := by
  have h := resource_do_get s r e hk
  simp only [runResourceGet, finish]
  rw [h.1, h.2]; rfl

end GenKernel
