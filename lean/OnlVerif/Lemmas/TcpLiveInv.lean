import OnlVerif.Lemmas.TcpLiveSender
import OnlVerif.Lemmas.TcpLiveSink
import OnlVerif.Lemmas.TcpLoop
import OnlVerif.Tcp.LoopLive
/-!
# The closed loop of a finite flow: the invariant behind `C16.quiescent_implies_complete`

`LInv n l` strengthens the safety invariant `TcpLoop.J`:

* the sender invariant `SInv n` (`TcpLiveSender.lean`);
* the sink holds only bytes below `next_seq`, whole MSS blocks, in non-empty ranges; every segment below `next_seq`
  is at the sink or under a timer; everything below `last_ack` is at the sink;
* packets in flight are aligned MSS-sized segments below `next_seq`, stamped in the past;
* the ACK path is sorted by ACK number, all numbers `≥ last_ack`, aligned; **the segment at the number of an ACK in
  flight is still under its timer**, and no ACK queued before it (nor itself) answers that segment - so a cumulative
  cancellation never removes the timer that the next ACK relies on.
-/

open TcpScalar TcpSender TcpSink TcpLoop

namespace TcpLive

/-- what holds of an ACK in flight -/
structure AckInv (l : Loop ℚ) (a : AckIn ℚ) : Prop where
  fid : 10000 ≤ a.fid
  below : ∀ b, b < a.ackno → Covers l.sink b
  pid : Covers l.sink a.pid
  ne : a.pid ≠ a.ackno
  ge : l.snd.last_ack ≤ a.ackno
  al : l.snd.mss ∣ a.ackno
  ptime : a.ptime ≤ l.snd.now
  timed : a.ackno < l.snd.next_seq → a.ackno ∈ AL.keys l.snd.timers

theorem AckInv.transfer {l l' : Loop ℚ} {a : AckIn ℚ} (h : AckInv l a) (hs : l'.snd = l.snd) (hk : l'.sink = l.sink) :
    AckInv l' a :=
  ⟨h.fid, by rw [hk]; exact h.below, by rw [hk]; exact h.pid, h.ne, by rw [hs]; exact h.ge, by rw [hs]; exact h.al,
   by rw [hs]; exact h.ptime, by rw [hs]; exact h.timed⟩

structure LInv (n : Nat) (l : Loop ℚ) : Prop where
  s : SInv n l.snd
  sink : Sep l.sink
  sinkne : ∀ r ∈ l.sink, r.1 < r.2
  sinkb : ∀ b, Covers l.sink b → b < l.snd.next_seq
  sinkal : ∀ b, Covers l.sink b ↔ Covers l.sink (l.snd.mss * (b / l.snd.mss))
  seg : ∀ q, l.snd.mss ∣ q → q < l.snd.next_seq → Covers l.sink q ∨ q ∈ AL.keys l.snd.timers
  lap : ∀ b, b < l.snd.last_ack → Covers l.sink b
  data : ∀ tx ∈ l.data, tx.size = l.snd.mss ∧ l.snd.mss ∣ tx.seq ∧ tx.seq < l.snd.next_seq ∧ tx.stamp ≤ l.snd.now
  acks : ∀ a ∈ l.acks, AckInv l a
  ackord : l.acks.Pairwise (fun y a => y.ackno ≤ a.ackno ∧ y.pid ≠ a.ackno)

variable {n : Nat}

/-- an ACK number never exceeds `next_seq` -/
theorem AckInv.le {l : Loop ℚ} {a : AckIn ℚ} (h : LInv n l) (ha : AckInv l a) : a.ackno ≤ l.snd.next_seq := by
  by_contra hc
  have := h.sinkb _ (ha.below l.snd.next_seq (Nat.lt_of_not_le hc))
  omega

theorem AckInv.good {l : Loop ℚ} {a : AckIn ℚ} (h : LInv n l) (ha : AckInv l a) : GoodAck l.snd a :=
  ⟨ha.fid, ha.ptime, ha.ge, ha.le h, ha.ne, ha.timed⟩

/-- a freshly constructed sender of a finite flow -/
structure Fresh (n : Nat) (s : Sender ℚ) : Prop where
  inv : Inv s
  size : s.size = some n
  npos : 0 < n
  mpos : 0 < s.mss
  dvd : s.mss ∣ n
  ccmss : (s.mss : ℚ) ≤ s.cc.mss
  next_seq : s.next_seq = 0
  send_buffer : s.send_buffer = 0
  last_ack : s.last_ack = 0
  timers : s.timers = []
  proc : s.proc = .runnable

theorem fresh_init (kind : CCKind) (cc : CCState ℚ) (rtt : ℚ) (mss n : Nat) (now : ℚ) (hcc : TcpCC.CCInv kind cc)
    (hr : 0 < rtt) (hn : 0 < n) (hm : 0 < mss) (hd : mss ∣ n) (hc : (mss : ℚ) ≤ cc.mss) :
    Fresh n (Sender.init kind cc rtt mss (some n) now) :=
  ⟨inv_init _ _ _ _ _ _ hcc hr, rfl, hn, hm, hd, hc, rfl, rfl, rfl, rfl, rfl⟩

theorem SInv_fresh {s : Sender ℚ} (f : Fresh n s) : SInv n s := by
  refine ⟨f.inv, f.size, f.npos, f.mpos, f.dvd, f.ccmss, ?_, ?_, ?_, ?_, ?_, ?_, ?_, ?_, ?_, ?_⟩
  · rw [f.next_seq]; exact Nat.dvd_zero _
  · rw [f.next_seq]; exact Nat.zero_le _
  · left; rw [f.next_seq, f.send_buffer]
  · rw [f.next_seq, f.last_ack]
  · intro e; rw [f.next_seq] at e; omega
  · intro e; rw [f.proc] at e; cases e
  · intro e; rw [f.proc] at e; cases e
  · intro kv hkv; rw [f.timers] at hkv; simp at hkv
  · intro q hq; rw [f.timers] at hq; simp [AL.keys] at hq
  · intro q hq; rw [f.timers] at hq; simp [AL.keys] at hq

theorem LInv_init {s : Sender ℚ} (f : Fresh n s) : LInv n (Loop.init s) := by
  have hs := SInv_fresh f
  refine ⟨hs, sep_nil, fun r hr => by simp [Loop.init] at hr, fun b hb => absurd hb (covers_nil b), ?_, ?_, ?_,
    fun tx htx => by simp [Loop.init] at htx, fun a ha => by simp [Loop.init] at ha, by simp [Loop.init]⟩
  · intro b
    exact ⟨fun hb => absurd hb (covers_nil b), fun hb => absurd hb (covers_nil _)⟩
  · intro q _ hq
    have : (Loop.init s).snd.next_seq = 0 := f.next_seq
    omega
  · intro b hb
    have : (Loop.init s).snd.last_ack = 0 := f.last_ack
    omega

/-- **every accepted action of the closed loop keeps `LInv`** -/
theorem LInv_step {l l' : Loop ℚ} {a : LAct ℚ} (h : LInv n l) (hs : l.step a = some l') : LInv n l' := by
  have hm := h.s.mpos
  cases a with
  | own act =>
    unfold Loop.step at hs
    simp only at hs
    split_ifs at hs with hack
    cases hst : l.snd.step act with
    | reject w => rw [hst] at hs; cases hs
    | error e => rw [hst] at hs; cases hs
    | ok s' outs =>
      rw [hst] at hs
      injection hs with hs; subst hs
      have hna : ∀ x, act ≠ .ack x := by
        intro x e; subst e; simp [Loop.isAck] at hack
      have e := step_eff h.s (fun x ex => absurd ex (hna x)) hst
      have hla : s'.last_ack = l.snd.last_ack := by
        rcases e.la with e1 | ⟨x, ex, _⟩
        · exact e1
        · exact absurd ex (hna x)
      have hkeep : ∀ q ∈ AL.keys l.snd.timers, q ∈ AL.keys s'.timers := by
        intro q hq
        rcases e.keep q hq with e1 | ⟨x, ex, _⟩
        · exact e1
        · exact absurd ex (hna x)
      have htimed : ∀ q, l.snd.mss ∣ q → q < s'.next_seq → (q < l.snd.next_seq → q ∈ AL.keys l.snd.timers) →
          q ∈ AL.keys s'.timers := by
        intro q hq h1 h2
        by_cases hlt : q < l.snd.next_seq
        · exact hkeep q (h2 hlt)
        · exact e.fresh q hq (Nat.le_of_not_lt hlt) h1
      refine ⟨e.sinv, h.sink, h.sinkne, fun b hb => Nat.lt_of_lt_of_le (h.sinkb b hb) e.ns, ?_, ?_, ?_, ?_, ?_, h.ackord⟩
      · show ∀ b, Covers l.sink b ↔ Covers l.sink (s'.mss * (b / s'.mss))
        rw [e.mss]; exact h.sinkal
      · intro q hq h1
        have hq' : l.snd.mss ∣ q := e.mss ▸ hq
        by_cases hlt : q < l.snd.next_seq
        · rcases h.seg q hq' hlt with c | c
          · exact Or.inl c
          · exact Or.inr (hkeep q c)
        · exact Or.inr (e.fresh q hq' (Nat.le_of_not_lt hlt) h1)
      · intro b hb
        exact h.lap b (hla ▸ hb)
      · intro tx htx
        show tx.size = s'.mss ∧ s'.mss ∣ tx.seq ∧ tx.seq < s'.next_seq ∧ tx.stamp ≤ s'.now
        rw [e.mss]
        rcases List.mem_append.mp htx with h1 | h1
        · obtain ⟨a1, a2, a3, a4⟩ := h.data tx h1
          exact ⟨a1, a2, Nat.lt_of_lt_of_le a3 e.ns, le_trans a4 e.now⟩
        · exact e.outs tx h1
      · intro a ha
        have o := h.acks a ha
        exact ⟨o.fid, o.below, o.pid, o.ne, by show s'.last_ack ≤ _; rw [hla]; exact o.ge,
          by show s'.mss ∣ _; rw [e.mss]; exact o.al, le_trans o.ptime e.now,
          fun hlt => htimed _ o.al hlt o.timed⟩
  | deliver =>
    unfold Loop.step at hs
    simp only at hs
    cases hd : l.data with
    | nil => rw [hd] at hs; cases hs
    | cons tx rest =>
      rw [hd] at hs
      simp only at hs
      obtain ⟨hsep', hcov'⟩ := packetArrived_spec l.sink tx.seq tx.size h.sink
      obtain ⟨p, hn, hp⟩ := ackOf_isPrefix _ hsep' (packetArrived_ne_nil l.sink tx.seq tx.size)
      have hput : TcpSink.put l.sink tx.seq tx.size = (packetArrived l.sink tx.seq tx.size, .ok p) := by
        unfold TcpSink.put; simp only [hn]
      rw [hput] at hs
      injection hs with hs; subst hs
      obtain ⟨t1, t2, t3, t4⟩ := h.data tx (by rw [hd]; exact List.mem_cons_self)
      have hmono : ∀ b, Covers l.sink b → Covers (packetArrived l.sink tx.seq tx.size) b :=
        fun b hb => (hcov' b).mpr (Or.inl hb)
      have hself : Covers (packetArrived l.sink tx.seq tx.size) tx.seq :=
        (hcov' _).mpr (Or.inr ⟨Nat.le_refl _, by rw [t1]; omega⟩)
      obtain ⟨k, hk⟩ := t2
      have hcovk : ∀ b, Covers (packetArrived l.sink tx.seq tx.size) b ↔
          Covers l.sink b ∨ (l.snd.mss * k ≤ b ∧ b < l.snd.mss * k + l.snd.mss) := by
        intro b; rw [hcov' b, t1, hk]
      have hal' := block_const_arrival hm l.sink _ k h.sinkal hcovk
      have hpal : l.snd.mss ∣ p := prefix_aligned hm _ hal' p hp
      have hpge : l.snd.last_ack ≤ p := by
        by_contra hc
        exact hp.2 (hmono _ (h.lap p (Nat.lt_of_not_le hc)))
      refine ⟨h.s, hsep', packetArrived_nonempty _ _ _ h.sinkne (by rw [t1]; exact hm), ?_, hal', ?_,
        fun b hb => hmono b (h.lap b hb), fun t ht => h.data t (by rw [hd]; exact List.mem_cons_of_mem _ ht), ?_, ?_⟩
      · intro b hb
        rcases (hcov' b).mp hb with c | ⟨_, c2⟩
        · exact h.sinkb b c
        · have := al_succ ⟨k, hk⟩ h.s.ns_al t3
          rw [t1] at c2
          show b < l.snd.next_seq
          omega
      · intro q hq h1
        rcases h.seg q hq h1 with c | c
        · exact Or.inl (hmono q c)
        · exact Or.inr c
      · intro a ha
        rcases List.mem_append.mp ha with e | e
        · have o := h.acks a e
          exact ⟨o.fid, fun b hb => hmono b (o.below b hb), hmono _ o.pid, o.ne, o.ge, o.al, o.ptime, o.timed⟩
        · simp only [List.mem_singleton] at e
          subst e
          refine ⟨Nat.le_refl _, hp.1, hself, ?_, hpge, hpal, t4, ?_⟩
          · intro e
            have e' : tx.seq = p := e
            exact hp.2 (e' ▸ hself)
          · intro hlt
            have hlt' : p < l.snd.next_seq := hlt
            rcases h.seg p hpal hlt' with c | c
            · exact absurd (hmono p c) hp.2
            · exact c
      · show (l.acks ++ [Loop.ackFor tx p]).Pairwise _
        rw [List.pairwise_append]
        refine ⟨h.ackord, List.pairwise_singleton _ _, ?_⟩
        intro y hy z hz
        simp only [List.mem_singleton] at hz
        subst hz
        have o := h.acks y hy
        constructor
        · show y.ackno ≤ p
          by_contra hc
          exact hp.2 (hmono _ (o.below p (Nat.lt_of_not_le hc)))
        · show y.pid ≠ p
          intro e
          exact hp.2 (e ▸ hmono _ o.pid)
  | ackArrive =>
    unfold Loop.step at hs
    simp only at hs
    cases hd : l.acks with
    | nil => rw [hd] at hs; cases hs
    | cons x rest =>
      rw [hd] at hs
      simp only at hs
      cases hst : l.snd.step (.ack x) with
      | reject w => rw [hst] at hs; cases hs
      | error e => rw [hst] at hs; cases hs
      | ok s' outs =>
        rw [hst] at hs
        injection hs with hs; subst hs
        have ox := h.acks x (by rw [hd]; exact List.mem_cons_self)
        have e := step_eff h.s (fun y ey => by injection ey with ey; subst ey; exact ox.good h) hst
        have hns : s'.next_seq = l.snd.next_seq := e.ns_ack x rfl
        have hord := List.pairwise_cons.mp (hd ▸ h.ackord)
        refine ⟨e.sinv, h.sink, h.sinkne, fun b hb => by rw [hns]; exact h.sinkb b hb, ?_, ?_, ?_, ?_, ?_, hord.2⟩
        · show ∀ b, Covers l.sink b ↔ Covers l.sink (s'.mss * (b / s'.mss))
          rw [e.mss]; exact h.sinkal
        · intro q hq h1
          have hq' : l.snd.mss ∣ q := e.mss ▸ hq
          rcases h.seg q hq' (hns ▸ h1) with c | c
          · exact Or.inl c
          · rcases e.keep q c with k | ⟨y, ey, k⟩
            · exact Or.inr k
            · injection ey with ey; subst ey
              rcases k with k | k
              · exact Or.inl (ox.below q k)
              · exact Or.inl (k ▸ ox.pid)
        · intro b hb
          rcases e.la with e1 | ⟨y, ey, e1⟩
          · exact h.lap b (e1 ▸ hb)
          · injection ey with ey; subst ey
            exact ox.below b (e1 ▸ hb)
        · intro tx htx
          show tx.size = s'.mss ∧ s'.mss ∣ tx.seq ∧ tx.seq < s'.next_seq ∧ tx.stamp ≤ s'.now
          rw [e.mss]
          rcases List.mem_append.mp htx with h1 | h1
          · obtain ⟨a1, a2, a3, a4⟩ := h.data tx h1
            exact ⟨a1, a2, Nat.lt_of_lt_of_le a3 e.ns, le_trans a4 e.now⟩
          · exact e.outs tx h1
        · intro a ha
          have o := h.acks a (by rw [hd]; exact List.mem_cons_of_mem _ ha)
          obtain ⟨r1, r2⟩ := hord.1 a ha
          refine ⟨o.fid, o.below, o.pid, o.ne, ?_, by show s'.mss ∣ _; rw [e.mss]; exact o.al, le_trans o.ptime e.now, ?_⟩
          · show s'.last_ack ≤ a.ackno
            rcases e.la with e1 | ⟨y, ey, e1⟩
            · rw [e1]; exact o.ge
            · injection ey with ey; subst ey
              rw [e1]; exact r1
          · intro hlt
            have hlt' : a.ackno < l.snd.next_seq := hns ▸ hlt
            rcases e.keep _ (o.timed hlt') with k | ⟨y, ey, k⟩
            · exact k
            · injection ey with ey; subst ey
              rcases k with k | k
              · omega
              · exact absurd k.symm r2
  | dropData i =>
    unfold Loop.step at hs
    simp only at hs
    split_ifs at hs
    injection hs with hs; subst hs
    exact ⟨h.s, h.sink, h.sinkne, h.sinkb, h.sinkal, h.seg, h.lap,
      fun tx htx => h.data tx (List.mem_of_mem_eraseIdx htx), fun a ha => (h.acks a ha).transfer rfl rfl, h.ackord⟩
  | dropAck i =>
    unfold Loop.step at hs
    simp only at hs
    split_ifs at hs
    injection hs with hs; subst hs
    exact ⟨h.s, h.sink, h.sinkne, h.sinkb, h.sinkal, h.seg, h.lap, h.data,
      fun a ha => (h.acks a (List.mem_of_mem_eraseIdx ha)).transfer rfl rfl,
      h.ackord.sublist (List.eraseIdx_sublist _ _)⟩

/-- the generator's segment size is a constant -/
theorem step_mss {l l' : Loop ℚ} {a : LAct ℚ} (h : LInv n l) (hs : l.step a = some l') : l'.snd.mss = l.snd.mss := by
  cases a with
  | own act =>
    unfold Loop.step at hs
    simp only at hs
    split_ifs at hs with hack
    cases hst : l.snd.step act with
    | reject w => rw [hst] at hs; cases hs
    | error e => rw [hst] at hs; cases hs
    | ok s' outs =>
      rw [hst] at hs
      injection hs with hs; subst hs
      have hna : ∀ x, act ≠ .ack x := by
        intro x e; subst e; simp [Loop.isAck] at hack
      exact (step_eff h.s (fun x ex => absurd ex (hna x)) hst).mss
  | deliver =>
    unfold Loop.step at hs
    simp only at hs
    split at hs
    · cases hs
    · split at hs
      · injection hs with hs; subst hs; rfl
      · cases hs
  | ackArrive =>
    unfold Loop.step at hs
    simp only at hs
    cases hd : l.acks with
    | nil => rw [hd] at hs; cases hs
    | cons x rest =>
      rw [hd] at hs
      simp only at hs
      cases hst : l.snd.step (.ack x) with
      | reject w => rw [hst] at hs; cases hs
      | error e => rw [hst] at hs; cases hs
      | ok s' outs =>
        rw [hst] at hs
        injection hs with hs; subst hs
        have ox := h.acks x (by rw [hd]; exact List.mem_cons_self)
        exact (step_eff h.s (fun y ey => by injection ey with ey; subst ey; exact ox.good h) hst).mss
  | dropData i =>
    unfold Loop.step at hs
    simp only at hs
    split_ifs at hs
    injection hs with hs; subst hs; rfl
  | dropAck i =>
    unfold Loop.step at hs
    simp only at hs
    split_ifs at hs
    injection hs with hs; subst hs; rfl

theorem reach_mss {l0 l : Loop ℚ} (h0 : LInv n l0) (hr : LReach l0 l) : LInv n l ∧ l.snd.mss = l0.snd.mss := by
  induction hr with
  | init => exact ⟨h0, rfl⟩
  | step _ hs ih => exact ⟨LInv_step ih.1 hs, (step_mss ih.1 hs).trans ih.2⟩

theorem reach_LInv {l0 l : Loop ℚ} (h0 : LInv n l0) (hr : LReach l0 l) : LInv n l := by
  induction hr with
  | init => exact h0
  | step _ hs ih => exact LInv_step ih hs

end TcpLive
