import OnlVerif.Lemmas.SndKLts
/-!
# The TCP sender on the kernel model: the wake-up of a `Timer` process (`fire`, or the silent end of a stopped timer)
-/

set_option linter.unusedSimpArgs false

namespace SndK
open SenderOnK TcpSender

/-- the sleep timeout of the `Timer` process of `seq` is processed -/
theorem kstep_tmWake {cfg : Cfg} (fuel : Nat) {s : KS} {a : A} {q : QEntry ℚ} {rest : List (QEntry ℚ)} {seq : Nat} {t : EvId}
    (hk : KI none s a) (hiT : AInv cfg (aTick a q.time)) (hp : popMin s.agenda = some (q, rest)) (hs : seq ∈ a.tks)
    (hph : a.tph seq = .sleep t q) : StepGoal cfg fuel s (aTick a q.time).S a.txs := by
  have htm := hk.k.tm seq hs
  simp only [kernOf, hph, TmEv] at htm
  obtain ⟨hqe, hev, hpr, hpe⟩ := htm
  have hev' : EvIs s q.ev .timeout [.resume (a.tmp seq)] okNone := hqe ▸ hev
  have ow : Owned s q.ev (a.tmp seq) := Or.inr (Or.inl ⟨hev'.1, hev'.2.1⟩)
  have harg : argOf s (a.tmp seq) q.ev .none = .value .none := by unfold argOf; rw [hev'.1]; simp
  have h1 := tm_start hk hp hs (by rw [hph]; rfl) hev' ow hpe (.value .none)
  have hstep := step_resume (body cfg) fuel hp hev'.2.1 hev'.2.2 hpr
  rw [harg] at hstep
  have hcur : a.cur = none := hiT.cur
  have ht := hiT.tm seq hs
  have hphT : (aTick a q.time).tph seq = .sleep t q := hph
  have hst1 := h1.c.stopped seq hs
  cases hg : AL.get? seq (aTick a q.time).S.timers with
  | none =>
    -- a stopped timer: the callback is suppressed and `Timer.run` returns
    obtain ⟨d1, d2, d3⟩ := ht.dead hg
    have hb : runBurst (a.tmp seq) (tmWake cfg seq q.time) (startSt s q rest (a.tmp seq) (.value .none)) =
        runBurst (a.tmp seq) (tmLoop seq q.time) (startSt s q rest (a.tmp seq) (.value .none)) := by
      unfold tmWake
      rw [rb_loadBit (b := (a.tmc seq).stopped) hst1]
      have : (a.tmc seq).stopped = true := d1
      simp [this]
    obtain ⟨S, ph', e1, e2, ⟨v, e3⟩, e4⟩ := tm_loop_end (body cfg) fuel (a := aTmRun a seq q)
      (pr := { st := .tmSleep seq q.time, target := some t }) (e := q.ev) h1 hs (upd_same _ _ _) rfl rfl
    have hS : step (body cfg) (fuel + 1) s = .ok S := by
      have e1' : TimerK.afterBurst (body cfg) (a.tmp seq) fuel { st := .tmSleep seq q.time, target := some t }
          (runBurst (a.tmp seq) (body cfg (.tmSleep seq q.time) (.value .none))
            (startSt s q rest (a.tmp seq) (.value .none))) = S := by
        show TimerK.afterBurst (body cfg) (a.tmp seq) fuel { st := .tmSleep seq q.time, target := some t }
          (runBurst (a.tmp seq) (tmWake cfg seq q.time) (startSt s q rest (a.tmp seq) (.value .none))) = S
        rw [hb]; exact e1
      rw [hstep, e1']
      exact closeEvent_ok e3
    refine ⟨S, { aTick a q.time with tph := upd a.tph seq ph' }, [], [], hS, ?_, ?_, rfl, by simp [aTick], fun x hx => by cases hx⟩
    · refine e2.congr ?_
      simp only [aTmRun, aTick, upd_upd, hcur]
    · refine hiT.set_tph seq ph' (fun _ => ?_)
      refine TmA.of_dead hg ⟨d1, d2, ?_⟩
      rcases e4 with ⟨hl, _⟩ | ⟨_, rfl⟩
      · exact absurd hl (not_lt.mpr d2)
      · show (match upd a.tph seq _ seq with | .init q => _ | .sleep _ q => _ | .ending q => _ | .gone => True | .running => False)
        rw [upd_same]
  | some r =>
    -- a live timer: `timeout_callback` runs, the timer is re-armed and the process sleeps again
    obtain ⟨l1, l2, l3⟩ := ht.live hg
    rw [hphT] at l3
    have hin : (AL.get? seq (aTmRun a seq q).S.timers).isSome = true := by
      show (AL.get? seq (aTick a q.time).S.timers).isSome = true
      rw [hg]; rfl
    obtain ⟨s2, r2, h2⟩ := frag_timeout (cfg := cfg) (a := aTmRun a seq q) h1 hs rfl (upd_same _ _ _) hiT.kind hin
    have hnow2 : s2.now = q.time := by
      have := h2.k.now
      rw [this]
      exact (sFire_fields _ seq).2.2.2.2.2.2.2.2.2.1
    have hb : runBurst (a.tmp seq) (tmWake cfg seq q.time) (startSt s q rest (a.tmp seq) (.value .none)) =
        runBurst (a.tmp seq) (tmLoop seq s2.now) s2 := by
      unfold tmWake
      rw [rb_loadBit (b := (a.tmc seq).stopped) hst1]
      have : (a.tmc seq).stopped = false := l1
      simp only [this, Bool.false_eq_true, if_false, if_true]
      rw [hnow2]
      exact r2 _
    obtain ⟨S, ph', e1, e2, ⟨v, e3⟩, e4⟩ := tm_loop_end (body cfg) fuel (a := aFire (aTmRun a seq q) seq)
      (pr := { st := .tmSleep seq q.time, target := some t }) (e := q.ev) h2 hs (upd_same _ _ _) rfl rfl
    have hS : step (body cfg) (fuel + 1) s = .ok S := by
      have e1' : TimerK.afterBurst (body cfg) (a.tmp seq) fuel { st := .tmSleep seq q.time, target := some t }
          (runBurst (a.tmp seq) (body cfg (.tmSleep seq q.time) (.value .none))
            (startSt s q rest (a.tmp seq) (.value .none))) = S := by
        show TimerK.afterBurst (body cfg) (a.tmp seq) fuel { st := .tmSleep seq q.time, target := some t }
          (runBurst (a.tmp seq) (tmWake cfg seq q.time) (startSt s q rest (a.tmp seq) (.value .none))) = S
        rw [hb]; exact e1
      rw [hstep, e1']
      exact closeEvent_ok e3
    -- the LTS side
    have hfire : (aTick a q.time).S.fireStep seq = .ok (sFire (aTick a q.time).S seq) (oFire (aTick a q.time).S seq) :=
      fireStep_eq _ seq _ (l2 ▸ hg) l3.1.symm
    obtain ⟨f1, f2, f3, f4, f5, f6, f7, f8, f9, f10, f11, f12⟩ := sFire_fields (aTick a q.time).S seq
    have hinv := (fireStep_safe hiT.inv seq).2 _ _ hfire
    have hrto : 0 < (sFire (aTick a q.time).S seq).est.rto := hinv.rto_pos
    have harm : Sender.arm q.time (TCPPacketGenerator.timeout_backoff (aTick a q.time).S.est).rto =
        ⟨q.time + (sFire (aTick a q.time).S seq).est.rto, q.time + (sFire (aTick a q.time).S seq).est.rto, true⟩ := by
      rw [f11]
      exact arm_eq _ _ (by rw [f11] at hrto; exact hrto)
    refine ⟨S, { aTick a q.time with
        S := sFire (aTick a q.time).S seq, txs := a.txs ++ (oFire (aTick a q.time).S seq).map txPair,
        tmc := upd a.tmc seq { a.tmc seq with start := q.time, timeout := (sFire (aTick a q.time).S seq).est.rto,
                                              expire := q.time + (sFire (aTick a q.time).S seq).est.rto },
        tph := upd a.tph seq ph' }, [.fire seq], oFire (aTick a q.time).S seq, hS, ?_, ?_, runLts_one hfire, rfl,
        fun x hx => by simp only [List.mem_singleton] at hx; subst hx; trivial⟩
    · refine e2.congr ?_
      simp only [aFire, aTmRun, aTick, upd_upd, hcur]
    · have hlt : s2.now < ((aFire (aTmRun a seq q) seq).tmc seq).expire := by
        rw [hnow2]
        show q.time < (upd a.tmc seq _ seq).expire
        rw [upd_same]
        show q.time < q.time + (sFire (aTick a q.time).S seq).est.rto
        linarith
      have hph' : ph' = .sleep s2.events.size
          ⟨s2.now + (((aFire (aTmRun a seq q) seq).tmc seq).expire - s2.now), NORMAL, s2.eid, s2.events.size⟩ := by
        rcases e4 with ⟨_, h⟩ | ⟨hn, _⟩
        · exact h
        · exact absurd hlt hn
      refine ⟨hinv, f1.trans hiT.kind, f2.trans hiT.mss, f3.trans hiT.size, hiT.mpos, hiT.spos, hiT.dvd,
        by show a.tks = segKeys cfg.mss (sFire _ seq).next_seq; rw [f4]; exact hiT.tks,
        by show cfg.mss ∣ (sFire _ seq).next_seq; rw [f4]; exact hiT.nmul,
        by show (sFire _ seq).send_buffer ≤ cfg.size; rw [f5]; exact hiT.bufle, ?_, hiT.cur,
        hiT.run.congr f10 f9 f8 rfl rfl, hiT.scr.congr f10, fun u hu => by
          show u.time = (sFire _ seq).now ∧ _
          rw [f10]; exact hiT.pend u hu, ?_, by show a.putAt ≤ (sFire _ seq).now; rw [f10]; exact hiT.putAt⟩
      · show (AL.keys (sFire _ seq).timers).Sublist a.tks
        rw [f12, AL.keys_set_of_mem _ _ _ (AL.mem_of_get?_some hg)]
        exact hiT.tkeys
      · intro seq' hs'
        by_cases he : seq' = seq
        · subst he
          have hg' : AL.get? seq' (sFire (aTick a q.time).S seq').timers =
              some ⟨q.time + (sFire (aTick a q.time).S seq').est.rto, q.time + (sFire (aTick a q.time).S seq').est.rto, true⟩ := by
            rw [f12, AL_get?_set, if_pos rfl]
            exact congrArg some harm
          refine TmA.of_live hg' ⟨?_, ?_, ?_⟩
          · show (upd a.tmc seq' _ seq').stopped = false
            rw [upd_same]; exact l1
          · show _ = (⟨(upd a.tmc seq' _ seq').expire, (upd a.tmc seq' _ seq').expire, true⟩ : TimerRec ℚ)
            rw [upd_same]
          · show (match upd a.tph seq' ph' seq' with | .init q => _ | .sleep _ q => _ | _ => False)
            rw [upd_same, hph']
            refine ⟨?_, rfl⟩
            show s2.now + (((aFire (aTmRun a seq' q) seq').tmc seq').expire - s2.now) = (upd a.tmc seq' _ seq').expire
            rw [upd_same]
            show s2.now + ((upd a.tmc seq' _ seq').expire - s2.now) = _
            rw [upd_same]
            show s2.now + (q.time + (sFire (aTick a q.time).S seq').est.rto - s2.now) = q.time + _
            ring
        · refine (hiT.tm seq' hs').congr ?_ (upd_ne _ _ _ _ he) (upd_ne _ _ _ _ he) f10
          show AL.get? seq' (sFire _ seq).timers = _
          rw [f12, AL_get?_set, if_neg he]

end SndK
