import OnlVerif.Lemmas.SplitWFDefs
/-!
# A run-level replacement for `BodySim` (C03, stage 3)

`BodySim ρ rσ body` constrains the whole interaction tree of every resumption of the program (every reply the kernel
*could* give).  The sentinel transformation only needs it along the replies the kernel *does* give.  `SimBurst` says that
for one burst, started in a state `s` of the uninterrupted run; `SimStep c body fuel s` says it for every burst the step
from `s` executes (the mirror predicates `SplitWF.StepAll` of `Lemmas/SplitWFDefs.lean`); `SimAlong` for the whole
continuation.  It is implied by `BodySim` (`simStep_of_bodySim`) and refers to concrete data only: for a concrete run it is
a finite conjunction of equations between calls, values and local states.

The walk of `Lemmas/SplitSentStep.lean` / `SplitTime.lean` is redone here with `SimStep` in place of `BodySim`
(`step_T_false_run`, `step_T_true_run`, `runUntilTime_transparent_run`).
-/

variable {σ : Type}

/-- burst `b'` does, along the replies the kernel gives from state `s` on, what burst `b` does, with ids renamed -/
def SimBurst (ρ : EvId → EvId) (rσ : σ → σ) (self : EvId) : Burst ℚ σ → Burst ℚ σ → KState ℚ σ → Prop
  | .call c k, b', s =>
    match b' with
    | .call c' k' => c' = rnCall ρ rσ c ∧
        SimBurst ρ rσ self (k (doCall s self c).2) (k' (rnReply ρ (doCall s self c).2)) (noteErr self (doCall s self c))
    | _ => False
  | .yield e st, b', _ =>
    match b' with
    | .yield e' st' => e' = ρ e ∧ st' = rσ st
    | _ => False
  | .ret v, b', _ =>
    match b' with
    | .ret v' => v' = rnVal ρ v
    | _ => False
  | .raise x, b', _ =>
    match b' with
    | .raise x' => x' = rnExc ρ x
    | _ => False

theorem simBurst_of_burstSim {ρ : EvId → EvId} {rσ : σ → σ} (self : EvId) {b b' : Burst ℚ σ} (h : BurstSim ρ rσ b b') :
    ∀ s : KState ℚ σ, SimBurst ρ rσ self b b' s := by
  induction h with
  | call c k k' _ ih => intro s; exact ⟨rfl, ih _ _⟩
  | yield e st => intro s; exact ⟨rfl, rfl⟩
  | ret v => intro s; rfl
  | raise x => intro s; rfl

namespace SplitWF

/-- a predicate that holds of every resumption holds of every resumption a step executes -/
theorem ResumeAll.of_forall {P : EvId → σ → Resume → KState ℚ σ → Prop} (hP : ∀ p st r s, P p st r s)
    (body : σ → Resume → Burst ℚ σ) (p : EvId) : ∀ (fuel : Nat) (e : EvId) (s : KState ℚ σ), ResumeAll P body p fuel e s
  | 0, _, _ => trivial
  | fuel + 1, e, s => by
    unfold ResumeAll
    split
    · trivial
    · refine ⟨hP _ _ _ _, ?_⟩
      split
      · split
        · trivial
        · exact ResumeAll.of_forall hP body p fuel _ _
      · trivial

theorem StepAll.of_forall {P : EvId → σ → Resume → KState ℚ σ → Prop} (hP : ∀ p st r s, P p st r s)
    (body : σ → Resume → Burst ℚ σ) (fuel : Nat) (s : KState ℚ σ) : StepAll P body fuel s := by
  have hcb : ∀ e s cb, CbAll P body fuel e s cb := by
    intro e s cb
    cases cb <;> simp only [CbAll]
    case resume p => exact ResumeAll.of_forall hP body p fuel e s
    case intr iv =>
      split
      · unfold IntrAll
        split
        · trivial
        · split
          · trivial
          · split <;> exact ResumeAll.of_forall hP body _ fuel _ _
      · trivial
  have hcbs : ∀ e (cbs : List Cb) (l : LoopSt ℚ σ), CbsAll P body fuel e cbs l := by
    intro e cbs
    induction cbs with
    | nil => intro l; trivial
    | cons cb cbs ih => intro l; exact ⟨hcb e l.s cb, ih _⟩
  unfold StepAll
  split
  · trivial
  · split
    · trivial
    · exact hcbs _ _ _

end SplitWF

namespace SplitCfg
open SplitWF
variable (c : SplitCfg σ)

/-- the run-level hypothesis as the parameter of the mirror predicates -/
abbrev simP (body : σ → Resume → Burst ℚ σ) : EvId → σ → Resume → KState ℚ σ → Prop :=
  fun p st r s => SimBurst c.ρ c.rσ p (body st r) (body (c.rσ st) (rnResume c.ρ r)) s

/-- **run-level id-opacity of one step**: every burst the step from `s` executes is matched, call by call along the
replies actually given, by the burst the program runs on the renamed local state and resume value -/
def SimStep (body : σ → Resume → Burst ℚ σ) (fuel : Nat) (s : KState ℚ σ) : Prop := StepAll (c.simP body) body fuel s

/-- … of every step of the continuation of the uninterrupted run from `s` -/
def SimAlong (body : σ → Resume → Burst ℚ σ) (fuel : Nat) (s : KState ℚ σ) : Prop :=
  ∀ j sj, stepN body fuel j s = .ok sj → c.SimStep body fuel sj

theorem simStep_of_bodySim (body : σ → Resume → Burst ℚ σ) (hB : BodySim c.ρ c.rσ body) (fuel : Nat) (s : KState ℚ σ) :
    c.SimStep body fuel s :=
  StepAll.of_forall (fun p st r s => simBurst_of_burstSim p (hB st r) s) body fuel s

theorem simAlong_of_bodySim (body : σ → Resume → Burst ℚ σ) (hB : BodySim c.ρ c.rσ body) (fuel : Nat) (s : KState ℚ σ) :
    c.SimAlong body fuel s := fun _ sj _ => c.simStep_of_bodySim body hB fuel sj

theorem SimAlong.tail {body : σ → Resume → Burst ℚ σ} {fuel : Nat} {s s1 : KState ℚ σ}
    (hf : c.SimAlong body fuel s) (h : step body fuel s = .ok s1) : c.SimAlong body fuel s1 := by
  intro j sj hj
  apply hf (j + 1) sj
  rw [Nat.add_comm, stepN_add, stepN_one, h]
  exact hj

variable (q : Bool)

/-- **bursts**, along the replies actually given -/
theorem T_runBurst_run (self : Nat) : ∀ (b b' : Burst ℚ σ) (s : KState ℚ σ), SimBurst c.ρ c.rσ self b b' s → c.Inv s →
    runBurst (c.ρ self) b' (c.T q s) = (c.T q (runBurst self b s).1, rnTerm c.ρ c.rσ (runBurst self b s).2) := by
  intro b
  induction b with
  | call cl k ih =>
    intro b' s hb h
    cases b' with
    | call cl' k' =>
      obtain ⟨rfl, hrest⟩ := hb
      simp only [runBurst]
      rw [c.T_doCall q s h, c.T_noteErr]
      exact ih _ _ _ hrest ((h.doCall self cl).noteErr self _)
    | yield e st => exact hb.elim
    | ret v => exact hb.elim
    | raise x => exact hb.elim
  | yield e st =>
    intro b' s hb _
    cases b' with
    | yield e' st' => obtain ⟨rfl, rfl⟩ := hb; rfl
    | call cl' k' => exact hb.elim
    | ret v => exact hb.elim
    | raise x => exact hb.elim
  | ret v =>
    intro b' s hb _
    cases b' with
    | ret v' => have : v' = rnVal c.ρ v := hb; subst this; rfl
    | call cl' k' => exact hb.elim
    | yield e st => exact hb.elim
    | raise x => exact hb.elim
  | raise x =>
    intro b' s hb _
    cases b' with
    | raise x' => have : x' = rnExc c.ρ x := hb; subst this; rfl
    | call cl' k' => exact hb.elim
    | yield e st => exact hb.elim
    | ret v => exact hb.elim

/-- **`Process._resume`** -/
theorem T_resume_run (body : σ → Resume → Burst ℚ σ) (p : Nat) : ∀ (fuel : Nat) (e : Nat) (s : KState ℚ σ), c.Inv s →
    ResumeAll (c.simP body) body p fuel e s →
    resume body (c.ρ p) fuel (c.ρ e) (c.T q s) = c.T q (resume body p fuel e s)
  | 0, _, _, _, _ => rfl
  | n + 1, e, s, h, hR => by
    unfold resume
    unfold ResumeAll at hR
    rw [c.r_proc?]
    cases hp : s.proc? p with
    | none => rfl
    | some pr =>
      rw [hp] at hR
      simp only [Option.map_some, deliver] at hR ⊢
      obtain ⟨hb, hrest⟩ := hR
      rw [c.T_deliverSt q s h, c.r_resumeArg q s h]
      have hd : c.Inv (deliverSt s p e) := h.deliverSt p e
      have he : (c.T q (deliverSt s p e)).emit (Obs.resumed (c.ρ p) (rnResume c.ρ (resumeArg s p e)) (c.T q (deliverSt s p e)).now) =
          c.T q ((deliverSt s p e).emit (Obs.resumed p (resumeArg s p e) (deliverSt s p e).now)) := by
        rw [c.i_emit]; rfl
      rw [he, rnProc_st, c.T_runBurst_run q p _ _ _ hb (hd.emit _)]
      have hbi : c.Inv (runBurst p (body pr.st (resumeArg s p e))
          ((deliverSt s p e).emit (Obs.resumed p (resumeArg s p e) (deliverSt s p e).now))).1 := (hd.emit _).runBurst p _
      generalize runBurst p (body pr.st (resumeArg s p e))
          ((deliverSt s p e).emit (Obs.resumed p (resumeArg s p e) (deliverSt s p e).now)) = bt at hbi hrest
      obtain ⟨s1, tm⟩ := bt
      cases tm with
      | returned v => exact c.T_finishProc q s1 hbi p pr (.ok v)
      | raised x => exact c.T_finishProc q s1 hbi p pr (.fail x)
      | yielded e' st' =>
        simp only [rnTerm] at hrest ⊢
        have hs2 : (c.T q s1).setProc (c.ρ p) { st := c.rσ st', target := some (c.ρ e') } =
            c.T q (s1.setProc p { st := st', target := some e' }) := by
          rw [c.i_setProc]; rfl
        rw [hs2, c.T_register q _ (hbi.setProc _ _)]
        cases hreg : register (s1.setProc p { st := st', target := some e' }) p e' with
        | some s3 => rfl
        | none =>
          rw [hreg] at hrest
          exact T_resume_run body p n e' _ (hbi.setProc _ _) hrest

theorem T_deliverInterrupt_run (body : σ → Resume → Burst ℚ σ) (s : KState ℚ σ) (h : c.Inv s) (fuel iv p : Nat)
    (hA : IntrAll (c.simP body) body fuel iv p s) :
    deliverInterrupt body fuel (c.ρ iv) (c.ρ p) (c.T q s) = c.T q (deliverInterrupt body fuel iv p s) := by
  unfold deliverInterrupt
  unfold IntrAll at hA
  rw [c.r_triggered q s h, c.r_proc?]
  split
  · rfl
  · rename_i ht
    rw [if_neg ht] at hA
    cases hp : s.proc? p with
    | none => rfl
    | some pr =>
      rw [hp] at hA
      simp only [Option.map_some, rnProc_target] at hA ⊢
      cases ht : pr.target with
      | none =>
        rw [ht] at hA
        exact c.T_resume_run q body p fuel iv s h hA
      | some t =>
        rw [ht] at hA
        simp only [Option.map_some] at hA ⊢
        have := c.i_eraseCb q s h t (.resume p)
        simp only [rnCb_resume] at this
        rw [← this]
        exact c.T_resume_run q body p fuel iv _ (h.eraseCb _ _) hA

theorem T_runCb_run (body : σ → Resume → Burst ℚ σ) (fuel : Nat) (e : Nat) (l : LoopSt ℚ σ)
    (h : c.Inv l.s) (cb : Cb) (hf : c.cbFuelOK l.s cb) (hA : CbAll (c.simP body) body fuel e l.s cb) :
    runCb body fuel (c.ρ e) (c.rnLoop q l) (rnCb c.ρ cb) = c.rnLoop q (runCb body fuel e l cb) := by
  unfold runCb rnLoop
  cases cb with
  | resume p => simp only [rnCb]; rw [c.T_resume_run q body p fuel e l.s h hA]
  | probe tag =>
    simp only [rnCb]
    rw [c.out_T q l.s h]
    congr 1
    rw [c.i_emit]
    congr 2
    cases ho : (l.s.ev e).out with
    | none => rfl
    | some o =>
      cases o with
      | fail x => rfl
      | ok v => simp only [Option.map_some, rnOutcome_ok, c.r_freezeVal q l.s h]
  | stop =>
    simp only [rnCb]
    rw [c.out_T q l.s h]
    congr 1
    cases (l.s.ev e).out <;> rfl
  | intr iv =>
    simp only [rnCb]
    simp only [CbAll] at hA
    rw [c.kind_T q l.s h]
    cases hk : (l.s.ev iv).kind <;> simp only [rnKind]
    case intr p =>
      rw [hk] at hA
      rw [c.T_deliverInterrupt_run q body l.s h fuel iv p hA]
  | check cd => simp only [rnCb]; rw [c.T_condCheck q l.s h]
  | build cd => simp only [rnCb]; rw [c.T_condBuild q l.s h cd hf]
  | trigPut r => simp only [rnCb]; rw [c.T_triggerPut q l.s h]
  | trigGet r => simp only [rnCb]; rw [c.T_triggerGet q l.s h]

theorem T_foldCbs_run (body : σ → Resume → Burst ℚ σ) (fuel : Nat) (e : Nat) (cbs : List Cb)
    (l : LoopSt ℚ σ) (h : c.Inv l.s) (hf : c.loopFuelOK body fuel e cbs l) (hA : CbsAll (c.simP body) body fuel e cbs l) :
    (cbs.map (rnCb c.ρ)).foldl (runCb body fuel (c.ρ e)) (c.rnLoop q l) = c.rnLoop q (cbs.foldl (runCb body fuel e) l) := by
  induction cbs generalizing l with
  | nil => rfl
  | cons cb cs ih =>
    simp only [List.map_cons, List.foldl_cons]
    rw [c.T_runCb_run q body fuel e l h cb hf.1 hA.1]
    exact ih _ (h.mono (SplitCfg.grow_runCb body fuel e l cb)) hf.2 hA.2

theorem step_of_pop_run (body : σ → Resume → Burst ℚ σ) (fuel : Nat) (s : KState ℚ σ) (h : c.Inv s)
    (m : QEntry ℚ) (rest : List (QEntry ℚ)) (hp : popMin s.agenda = some (m, rest))
    (hp' : popMin (c.T q s).agenda = some (c.rnEntry m, c.agT q rest)) (hf : c.stepFuelOK body fuel s)
    (hS : c.SimStep body fuel s) :
    step body fuel (c.T q s) = c.mapT q (step body fuel s) := by
  unfold step
  rw [hp, hp']
  simp only
  unfold stepFuelOK at hf
  unfold SimStep StepAll at hS
  rw [hp] at hf hS
  simp only at hf hS
  have hev : (c.rnEntry m).ev = c.ρ m.ev := rfl
  rw [hev, c.cbs_T q s h]
  cases hc : (s.ev m.ev).cbs with
  | none =>
    simp only [Option.map_none]
    rw [c.T_openEvent q s h]
    rfl
  | some cbs =>
    rw [hc] at hf hS
    simp only [Option.map_some] at hS ⊢
    rw [c.T_openEvent q s h]
    have := c.T_foldCbs_run q body fuel m.ev cbs { s := openEvent s m rest } (h.openEvent m rest) hf hS
    unfold rnLoop at this
    simp only [Option.map_none] at this
    rw [this]
    exact c.closeEvent_T q _ m.ev (h.mono (Grow.krel.trans ⟨Nat.le_of_eq (SplitCfg.grow_openEvent s m rest).2.symm,
      (SplitCfg.grow_openEvent s m rest).1⟩ (Grow.krel.foldCbs body fuel m.ev cbs { s := openEvent s m rest })))

/-- **after the sentinel has been popped**, run-level -/
theorem step_T_false_run (body : σ → Resume → Burst ℚ σ) (fuel : Nat) (s : KState ℚ σ) (h : c.Inv s)
    (hf : c.stepFuelOK body fuel s) (hS : c.SimStep body fuel s) :
    step body fuel (c.T false s) = c.mapT false (step body fuel s) := by
  cases hp : popMin s.agenda with
  | none =>
    have ha : (c.T false s).agenda = s.agenda.map c.rnEntry := rfl
    unfold step
    rw [hp, ha, c.popMin_map, hp]
    rfl
  | some mr =>
    obtain ⟨m, rest⟩ := mr
    refine c.step_of_pop_run false body fuel s h m rest hp ?_ hf hS
    show popMin (s.agenda.map c.rnEntry) = _
    rw [c.popMin_map, hp]
    rfl

/-- **while the sentinel is queued**, run-level -/
theorem step_T_true_run (body : σ → Resume → Burst ℚ σ) (fuel : Nat) (s : KState ℚ σ) (h : c.Inv s)
    (hs : SortedAg s) (hf : c.stepFuelOK body fuel s) (hS : c.SimStep body fuel s) :
    step body fuel (c.T true s) =
      match popMin s.agenda with
      | none => .stopped (.ok .none) (c.afterSentinel s)
      | some (m, _) =>
        if (c.rnEntry m).lt c.sentEntry then c.mapT true (step body fuel s)
        else .stopped (.ok .none) (c.afterSentinel s) := by
  have ha : (c.T true s).agenda = c.insSent s.agenda := rfl
  have hpop := c.popMin_insSent s.agenda hs.sorted
  cases hp : popMin s.agenda with
  | none =>
    rw [hp] at hpop
    have : s.agenda = [] := (popMin_none_iff _).mp hp
    simp only
    refine c.step_sentinel s body fuel h ?_
    rw [ha, hpop, this]
    rfl
  | some mr =>
    obtain ⟨m, rest⟩ := mr
    rw [hp] at hpop
    simp only at hpop ⊢
    by_cases hlt : (c.rnEntry m).lt c.sentEntry = true
    · rw [if_pos hlt] at hpop ⊢
      exact c.step_of_pop_run true body fuel s h m rest hp (by rw [ha, hpop]; rfl) hf hS
    · rw [if_neg hlt] at hpop ⊢
      exact c.step_sentinel s body fuel h (by rw [ha, hpop])

end SplitCfg
