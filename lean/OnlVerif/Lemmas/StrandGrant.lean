import OnlVerif.Lemmas.StrandBlocked
/-!
# Granting one request: `_do_put` / `_do_get` followed by the removal from the queue

The micro-steps of the queue scans keep the structural invariant, leave the other resources alone, and leave a
rescan of the opposite queue pending (the granted request event is scheduled for the current instant and carries the
`_trigger_get` / `_trigger_put` callback).
-/

variable {σ : Type}

/-- a step that works on resource `r` only -/
structure RStep (r : ResId) (s s' : KState ℚ σ) : Prop where
  fr : Fr s s'
  other : ∀ r', r' ≠ r → s'.res r' = s.res r'

namespace RStep
theorem refl (r : ResId) (s : KState ℚ σ) : RStep r s s := ⟨Fr.refl s, fun _ _ => rfl⟩
theorem trans {r : ResId} {s1 s2 s3 : KState ℚ σ} (a : RStep r s1 s2) (b : RStep r s2 s3) : RStep r s1 s3 :=
  ⟨a.fr.trans b.fr, fun r' h => (b.other r' h).trans (a.other r' h)⟩
theorem of_nr {r : ResId} {s s' : KState ℚ σ} (n : NR s s') : RStep r s s' := ⟨n.fr, fun r' _ => n.res_eq r'⟩
end RStep

/-! ## `trigger`, `Interruption.__init__`, `usage_since` -/

theorem KState.setOut_eq (s : KState ℚ σ) (x : EvId) (o : Outcome) :
    s.setOut x o = s.setEv x { s.ev x with out := some o } := rfl

theorem Pkg.setOut {s : KState ℚ σ} {ex : Option EvId} (h : Pkg s ex) (x : EvId) (o : Outcome)
    (hq : (s.ev x).out = none → NoQ s x ∨ ex = some x) : Pkg (s.setOut x o) ex :=
  h.setEv x _ rfl (fun l hl => ⟨l, hl, fun _ _ hm => hm⟩) (fun l' c hl hm => Or.inl ⟨l', hl, hm⟩) (fun _ => by simp)
    (fun h1 _ => hq h1)

theorem NR.setOut (s : KState ℚ σ) (x : EvId) (o : Outcome) : NR s (s.setOut x o) :=
  NR.setEv s x _ rfl (fun l hl => ⟨l, hl, fun _ _ hm => hm⟩) (fun _ => by simp) rfl

theorem KState.out_setOut (s : KState ℚ σ) (x : EvId) (o : Outcome) (hx : x < s.events.size) :
    ((s.setOut x o).ev x).out = some o := by
  rw [KState.setOut_eq, KState.ev_setEv, if_pos ⟨rfl, hx⟩]

theorem Pkg.trigger {s : KState ℚ σ} {ex : Option EvId} (h : Pkg s ex) (x : EvId) (o : Outcome) (hx : x < s.events.size)
    (hq : (s.ev x).out = none → NoQ s x ∨ ex = some x) : Pkg (s.trigger x o) ex := by
  unfold KState.trigger
  exact (h.setOut x o hq).schedule x _ _ (by rw [KState.out_setOut s x o hx]; simp)

theorem NR.trigger (s : KState ℚ σ) (x : EvId) (o : Outcome) : NR s (s.trigger x o) := by
  unfold KState.trigger
  exact (NR.setOut s x o).trans (NR.schedule _ _ _ _)

/-- a freshly triggered event leaves its rescan callback pending -/
theorem Pend.of_trigger (s : KState ℚ σ) (x : EvId) (o : Outcome) (rem : List Cb) (cb : Cb) (l : List Cb)
    (hl : (s.ev x).cbs = some l) (hm : cb ∈ l) : Pend (s.trigger x o) rem cb := by
  refine Or.inr ⟨{ time := s.now + Num.zero, prio := NORMAL, eid := s.eid, ev := x }, List.mem_cons_self, ?_, l, ?_, hm⟩
  · show s.now + (Num.zero : ℚ) = s.now
    rw [zero_eq']; simp
  · show ((s.setOut x o).ev x).cbs = some l
    rw [KState.setOut_eq, KState.ev_setEv]
    split
    · exact hl
    · exact hl

theorem Pkg.mkInterrupt {s : KState ℚ σ} {ex : Option EvId} (h : Pkg s ex) (p : EvId) (c : Val) :
    Pkg (mkInterrupt s p c).1 ex := by
  unfold _root_.mkInterrupt
  split
  · exact h
  · split
    · exact h
    · show Pkg ((s.newEv _).1.schedule _ _ _) ex
      refine ((Pushed.newEv s _).pkg h ?_).schedule _ _ _ ?_
      · intro l cc hl hm
        simp only [Option.some.injEq] at hl
        subst hl
        simp at hm
      · rw [(Pushed.newEv s _).ev_new]; simp

theorem NR.mkInterrupt (s : KState ℚ σ) (p : EvId) (c : Val) : NR s (mkInterrupt s p c).1 := by
  unfold _root_.mkInterrupt
  split
  · exact NR.refl s
  · split
    · exact NR.refl s
    · exact (Pushed.newEv s _).nr.trans (NR.schedule _ _ _ _)

theorem KState.setUsage_eq (s : KState ℚ σ) (e : EvId) :
    s.setUsage e = s.setEv e { s.ev e with req := (s.ev e).req.map fun rq => { rq with usageSince := some s.now } } := rfl

theorem KState.size_setUsage (s : KState ℚ σ) (e : EvId) : (s.setUsage e).events.size = s.events.size := by
  simp [KState.setUsage, KState.setEv]

theorem Pkg.setUsage {s : KState ℚ σ} {ex : Option EvId} (h : Pkg s ex) (e : EvId) : Pkg (s.setUsage e) ex :=
  h.setEv e _ rfl (fun l hl => ⟨l, hl, fun _ _ hm => hm⟩) (fun l' _ hl hm => Or.inl ⟨l', hl, hm⟩) (fun h1 => h1)
    (fun h1 h2 => absurd h1 h2)

theorem NR.setUsage (s : KState ℚ σ) (e : EvId) : NR s (s.setUsage e) := by
  refine NR.setEv s e _ rfl (fun l hl => ⟨l, hl, fun _ _ hm => hm⟩) (fun h1 => h1) ?_
  unfold reqOf
  cases (s.ev e).req with
  | none => rfl
  | some rq => rfl

/-! ## rewriting the contents of a resource record -/

/-- the queues of every resource are untouched -/
def QSame (s s' : KState ℚ σ) : Prop := ∀ r, (s'.res r).putQ = (s.res r).putQ ∧ (s'.res r).getQ = (s.res r).getQ

theorem QSame.refl (s : KState ℚ σ) : QSame s s := fun _ => ⟨rfl, rfl⟩
theorem QSame.trans {s1 s2 s3 : KState ℚ σ} (a : QSame s1 s2) (b : QSame s2 s3) : QSame s1 s3 :=
  fun r => ⟨(b r).1.trans (a r).1, (b r).2.trans (a r).2⟩
theorem QSame.of_nr {s s' : KState ℚ σ} (n : NR s s') : QSame s s' := fun r => by rw [n.res_eq r]; exact ⟨rfl, rfl⟩

/-- rewrite the contents (users / level / items) of `r`, keeping kind, capacity and both queues -/
theorem Pkg.setContents {s : KState ℚ σ} {ex : Option EvId} (h : Pkg s ex) (r : ResId) (x : ResRec)
    (hk : x.kind = (s.res r).kind) (hc : x.capacity = (s.res r).capacity)
    (hp : x.putQ = (s.res r).putQ) (hg : x.getQ = (s.res r).getQ)
    (hu : ∀ w ∈ x.users, w < s.events.size)
    (hle : ∀ c, isResKind x.kind = true → x.capacity = some c → x.users.length ≤ c) :
    Pkg (s.setRes r x) ex ∧ RStep r s (s.setRes r x) ∧ QSame s (s.setRes r x) := by
  refine ⟨h.setRes r x hk hc (fun e he => Or.inl (hp ▸ he)) (hp ▸ h.nodupP r) (fun e he => Or.inl (hg ▸ he))
    (hg ▸ h.nodupG r) hu hle, ⟨Fr.setRes s r x hk hc, ?_⟩, ?_⟩
  · intro r' hne
    rw [KState.res_setRes, if_neg (fun hc => hne hc.1)]
  · intro r'
    rw [KState.res_setRes]
    split
    · rename_i hcx; rw [hcx.1]; exact ⟨hp, hg⟩
    · exact ⟨rfl, rfl⟩

theorem isResKind_preemptive : isResKind ResKind.preemptive = true := by decide

/-! ## the eviction step -/

theorem preemptStep_pkg {s : KState ℚ σ} {ex : Option EvId} (h : Pkg s ex) (r : ResId) (e : EvId) :
    Pkg (preemptStep s r e) ex ∧ RStep r s (preemptStep s r e) ∧ QSame s (preemptStep s r e) := by
  have hrefl : Pkg s ex ∧ RStep r s s ∧ QSame s s := ⟨h, RStep.refl r s, QSame.refl s⟩
  have herase : ∀ w, Pkg (s.setUsers r ((s.res r).users.erase w)) ex ∧ RStep r s (s.setUsers r ((s.res r).users.erase w)) ∧
      QSame s (s.setUsers r ((s.res r).users.erase w)) := by
    intro w
    unfold KState.setUsers
    refine h.setContents r _ rfl rfl rfl rfl ?_ ?_
    · intro w' hw'
      exact h.usersIn r w' (List.mem_of_mem_erase hw')
    · intro c hk hc
      exact Nat.le_trans (List.length_erase_le' _ _) (h.usersLe r c hk hc)
  unfold preemptStep
  simp only
  split
  · split
    · exact hrefl
    · split
      · split
        · exact ⟨(herase _).1.mkInterrupt _ _, (herase _).2.1.trans (RStep.of_nr (NR.mkInterrupt _ _ _)),
            (herase _).2.2.trans (QSame.of_nr (NR.mkInterrupt _ _ _))⟩
        · exact herase _
      · exact hrefl
  · exact hrefl

theorem prePut_pkg {s : KState ℚ σ} {ex : Option EvId} (h : Pkg s ex) (r : ResId) (e : EvId) :
    Pkg (prePut s r e) ex ∧ RStep r s (prePut s r e) ∧ QSame s (prePut s r e) := by
  unfold prePut
  split
  · exact preemptStep_pkg h r e
  · exact ⟨h, RStep.refl r s, QSame.refl s⟩

theorem hasRoom_some (c n : Nat) : hasRoom (some c) n = decide (n < c) := rfl

/-- a refused `_do_put` changes nothing (an eviction always makes room) -/
theorem prePut_eq_of_blocked {s : KState ℚ σ} {ex : Option EvId} (h : Pkg s ex) (r : ResId) (e : EvId)
    (hb : putOk s r e = false) : prePut s r e = s := by
  by_cases hk : (s.res r).kind = .preemptive
  · have hin : r < s.resources.size := res_lt_of_kind (by rw [hk]; simp)
    rw [putOk_preemptive s r e hk hin] at hb
    rw [prePut_of_eq s r e hk]
    unfold evictUsers at hb
    unfold preemptStep
    simp only
    by_cases hcnd : ((s.res r).capacity.any (fun c => decide (c ≤ (s.res r).users.length)) && (reqOf s e).preempt) = true
    · simp only [hcnd, if_true] at hb ⊢
      cases hw : worstUser s (s.res r).users with
      | none => rfl
      | some w =>
        simp only [hw] at hb ⊢
        by_cases hlt : keyLt (reqOf s e) (reqOf s w) = true
        · exfalso
          simp only [hlt, if_true] at hb
          have hmem := worstUser_mem s _ w hw
          rw [Bool.and_eq_true] at hcnd
          cases hcap : (s.res r).capacity with
          | none => rw [hcap] at hcnd; simp at hcnd
          | some c =>
            have hle := h.usersLe r c (by rw [hk]; exact isResKind_preemptive) hcap
            rw [hcap, hasRoom_some, List.length_erase_of_mem hmem] at hb
            have hpos : 0 < (s.res r).users.length := List.length_pos_of_mem hmem
            simp only [decide_eq_false_iff_not, not_lt] at hb
            omega
        · simp only [hlt]; rfl
    · simp only [hcnd]; rfl
  · exact prePut_of_ne s r e hk

/-! ## a granted `_do_put` -/

theorem canPut_room {s : KState ℚ σ} {r : ResId} {e : EvId} (hk : isResKind (s.res r).kind = true)
    (h : canPut s r e = true) : hasRoom (s.res r).capacity (s.res r).users.length = true := by
  unfold canPut at h
  unfold isResKind at hk
  cases hkk : (s.res r).kind <;> simp only [hkk] at h hk <;> first | exact h | exact absurd hk (by decide)

theorem users_append_le {s : KState ℚ σ} {r : ResId} (e : EvId)
    (hroom : hasRoom (s.res r).capacity (s.res r).users.length = true) (c : Nat) (hc : (s.res r).capacity = some c) :
    ((s.res r).users ++ [e]).length ≤ c := by
  rw [hc, hasRoom_some] at hroom
  simp only [decide_eq_true_eq] at hroom
  simp only [List.length_append, List.length_singleton]
  omega

/-- the effect of a granted `_do_put` on the structural invariant; `e` is the (exempted) request -/
theorem applyPut_pkg {s : KState ℚ σ} (r : ResId) (e : EvId) (h : Pkg s (some e)) (hin : e < s.events.size)
    (hcan : canPut s r e = true) :
    Pkg (applyPut s r e) (some e) ∧ RStep r s (applyPut s r e) ∧ QSame s (applyPut s r e) := by
  have husers : isResKind (s.res r).kind = true →
      Pkg (((s.setUsers r ((s.res r).users ++ [e])).setUsage e).trigger e (.ok .none)) (some e) ∧
      RStep r s (((s.setUsers r ((s.res r).users ++ [e])).setUsage e).trigger e (.ok .none)) ∧
      QSame s (((s.setUsers r ((s.res r).users ++ [e])).setUsage e).trigger e (.ok .none)) := by
    intro hk
    have hroom := canPut_room hk hcan
    obtain ⟨h1, h2, h3⟩ := h.setContents r { s.res r with users := (s.res r).users ++ [e] } rfl rfl rfl rfl
      (by
        intro w hw
        rcases List.mem_append.mp hw with hw | hw
        · exact h.usersIn r w hw
        · rw [List.mem_singleton.mp hw]; exact hin)
      (fun c _ hc => users_append_le e hroom c hc)
    have h4 := h1.setUsage e
    refine ⟨h4.trigger e _ (by rw [KState.size_setUsage]; exact hin) (fun _ => Or.inr rfl), ?_, ?_⟩
    · exact h2.trans (RStep.of_nr ((NR.setUsage _ e).trans (NR.trigger _ e _)))
    · exact h3.trans (QSame.of_nr ((NR.setUsage _ e).trans (NR.trigger _ e _)))
  have hother : ∀ x : ResRec, x.kind = (s.res r).kind → x.capacity = (s.res r).capacity → x.putQ = (s.res r).putQ →
      x.getQ = (s.res r).getQ → x.users = (s.res r).users →
      Pkg ((s.setRes r x).trigger e (.ok .none)) (some e) ∧ RStep r s ((s.setRes r x).trigger e (.ok .none)) ∧
      QSame s ((s.setRes r x).trigger e (.ok .none)) := by
    intro x hk hc hp hg hu
    obtain ⟨h1, h2, h3⟩ := h.setContents r x hk hc hp hg (fun w hw => h.usersIn r w (hu ▸ hw))
      (fun c hkk hcc => by rw [hu]; exact h.usersLe r c (hk ▸ hkk) (hc ▸ hcc))
    exact ⟨h1.trigger e _ hin (fun _ => Or.inr rfl), h2.trans (RStep.of_nr (NR.trigger _ e _)),
      h3.trans (QSame.of_nr (NR.trigger _ e _))⟩
  unfold applyPut
  simp only
  split
  · rename_i hkk; exact husers (by unfold isResKind; rw [hkk]; decide)
  · rename_i hkk; exact husers (by unfold isResKind; rw [hkk]; decide)
  · rename_i hkk; exact husers (by unfold isResKind; rw [hkk]; decide)
  · exact hother _ rfl rfl rfl rfl rfl
  · exact hother _ rfl rfl rfl rfl rfl
  · exact hother _ rfl rfl rfl rfl rfl
  · exact hother _ rfl rfl rfl rfl rfl

/-- after a granted `_do_put` the request is triggered and a rescan of the get queue is pending -/
theorem applyPut_after (s : KState ℚ σ) (r : ResId) (e : EvId) (hin : e < s.events.size) (rem : List Cb) (cb : Cb)
    (l : List Cb) (hl : (s.ev e).cbs = some l) (hm : cb ∈ l) :
    (applyPut s r e).triggered e = true ∧ Pend (applyPut s r e) rem cb := by
  have key : ∀ s1 : KState ℚ σ, s1.events.size = s.events.size → (s1.ev e).cbs = some l →
      (s1.trigger e (.ok .none)).triggered e = true ∧ Pend (s1.trigger e (.ok .none)) rem cb := by
    intro s1 hsz hl1
    refine ⟨?_, Pend.of_trigger s1 e _ rem cb l hl1 hm⟩
    show (((s1.setOut e (.ok .none)).ev e).out).isSome = true
    rw [KState.out_setOut s1 e _ (hsz ▸ hin)]; rfl
  unfold applyPut
  simp only
  split
  · refine key _ (KState.size_setUsage _ _) ?_
    rw [KState.setUsage_eq, KState.ev_setEv]; split <;> exact hl
  · refine key _ (KState.size_setUsage _ _) ?_
    rw [KState.setUsage_eq, KState.ev_setEv]; split <;> exact hl
  · refine key _ (KState.size_setUsage _ _) ?_
    rw [KState.setUsage_eq, KState.ev_setEv]; split <;> exact hl
  · exact key _ rfl hl
  · exact key _ rfl hl
  · exact key _ rfl hl
  · exact key _ rfl hl

/-! ## a served `_do_get` -/

theorem takeOut_pkg {s : KState ℚ σ} {ex : Option EvId} (h : Pkg s ex) (r : ResId) (e : EvId) (v : Val) :
    Pkg (takeOut s r e v) ex ∧ RStep r s (takeOut s r e v) ∧ QSame s (takeOut s r e v) := by
  have hrefl : Pkg s ex ∧ RStep r s s ∧ QSame s s := ⟨h, RStep.refl r s, QSame.refl s⟩
  have herase : ∀ w, Pkg (s.setUsers r ((s.res r).users.erase w)) ex ∧ RStep r s (s.setUsers r ((s.res r).users.erase w)) ∧
      QSame s (s.setUsers r ((s.res r).users.erase w)) := by
    intro w
    unfold KState.setUsers
    refine h.setContents r _ rfl rfl rfl rfl ?_ ?_
    · intro w' hw'
      exact h.usersIn r w' (List.mem_of_mem_erase hw')
    · intro c hk hc
      exact Nat.le_trans (List.length_erase_le' _ _) (h.usersLe r c hk hc)
  have hother : ∀ x : ResRec, x.kind = (s.res r).kind → x.capacity = (s.res r).capacity → x.putQ = (s.res r).putQ →
      x.getQ = (s.res r).getQ → x.users = (s.res r).users →
      Pkg (s.setRes r x) ex ∧ RStep r s (s.setRes r x) ∧ QSame s (s.setRes r x) := by
    intro x hk hc hp hg hu
    exact h.setContents r x hk hc hp hg (fun w hw => h.usersIn r w (hu ▸ hw))
      (fun c hkk hcc => by rw [hu]; exact h.usersLe r c (hk ▸ hkk) (hc ▸ hcc))
  unfold takeOut
  simp only
  split
  · exact herase _
  · exact herase _
  · exact herase _
  · exact hother _ rfl rfl rfl rfl rfl
  · exact hother _ rfl rfl rfl rfl rfl
  · split
    · exact hother _ rfl rfl rfl rfl rfl
    · exact hrefl
  · split
    · exact hother _ rfl rfl rfl rfl rfl
    · exact hrefl

/-! ## leaving the queue -/

theorem dropPutQ_pkg {s : KState ℚ σ} {ex : Option EvId} (h : Pkg s ex) (r : ResId) (e : EvId) :
    Pkg (dropPutQ s r e) ex ∧ RStep r s (dropPutQ s r e) := by
  unfold dropPutQ KState.setPutQ
  refine ⟨h.setRes r _ rfl rfl (fun x hx => Or.inl (List.mem_of_mem_erase hx)) ((h.nodupP r).erase e)
    (fun x hx => Or.inl hx) (h.nodupG r) (h.usersIn r) (h.usersLe r), ⟨Fr.setRes s r _ rfl rfl, ?_⟩⟩
  intro r' hne
  rw [KState.res_setRes, if_neg (fun hc => hne hc.1)]

theorem dropGetQ_pkg {s : KState ℚ σ} {ex : Option EvId} (h : Pkg s ex) (r : ResId) (e : EvId) :
    Pkg (dropGetQ s r e) ex ∧ RStep r s (dropGetQ s r e) := by
  unfold dropGetQ KState.setGetQ
  refine ⟨h.setRes r _ rfl rfl (fun x hx => Or.inl hx) (h.nodupP r)
    (fun x hx => Or.inl (List.mem_of_mem_erase hx)) ((h.nodupG r).erase e) (h.usersIn r) (h.usersLe r),
    ⟨Fr.setRes s r _ rfl rfl, ?_⟩⟩
  intro r' hne
  rw [KState.res_setRes, if_neg (fun hc => hne hc.1)]

theorem res_dropPutQ (s : KState ℚ σ) (r : ResId) (e : EvId) (hin : r < s.resources.size) :
    (dropPutQ s r e).res r = { s.res r with putQ := (s.res r).putQ.erase e } := by
  unfold dropPutQ KState.setPutQ
  rw [KState.res_setRes, if_pos ⟨rfl, hin⟩]

theorem res_dropGetQ (s : KState ℚ σ) (r : ResId) (e : EvId) (hin : r < s.resources.size) :
    (dropGetQ s r e).res r = { s.res r with getQ := (s.res r).getQ.erase e } := by
  unfold dropGetQ KState.setGetQ
  rw [KState.res_setRes, if_pos ⟨rfl, hin⟩]

/-- a put request that is in no put queue is in no queue at all -/
theorem noQ_of_put {s : KState ℚ σ} {ex : Option EvId} (h : Pkg s ex) (r : ResId) (e : EvId)
    (hk : (s.ev e).kind = .put r) (hn : e ∉ (s.res r).putQ) : NoQ s e := by
  intro r'
  constructor
  · intro hm
    have := (h.putQ r' e hm).1
    rw [hk] at this
    injection this with hrr
    subst hrr; exact hn hm
  · intro hm
    have := (h.getQ r' e hm).1
    rw [hk] at this
    cases this

theorem noQ_of_get {s : KState ℚ σ} {ex : Option EvId} (h : Pkg s ex) (r : ResId) (e : EvId)
    (hk : (s.ev e).kind = .get r) (hn : e ∉ (s.res r).getQ) : NoQ s e := by
  intro r'
  constructor
  · intro hm
    have := (h.putQ r' e hm).1
    rw [hk] at this
    cases this
  · intro hm
    have := (h.getQ r' e hm).1
    rw [hk] at this
    injection this with hrr
    subst hrr; exact hn hm
