import OnlVerif.Lemmas.CondStep
import OnlVerif.Lemmas.OnceDec
/-!
# The counting invariant along whole runs; what holds between an earlier and a later state of a run
-/

namespace Cond
variable {σ : Type}

open Once (lt_of_isCond isCond_congr lt_of_cbs_some ev_default)

/-- **between an earlier and a later state of a run**: outcomes are frozen (except that `_build_value` replaces the
value of its own condition in the step that processes it), counts of triggered events are frozen, detached pending
conditions stay pending, detached stays detached -/
structure Later (s s' : KState ℚ σ) : Prop where
  ev : EvMono s s'
  out : ∀ e o, (s.ev e).out = some o → (s'.ev e).out = some o ∨
    (isCond s e = true ∧ (s.ev e).cbs ≠ none ∧ (s'.ev e).cbs = none ∧ ∃ v w, o = .ok v ∧ (s'.ev e).out = some (.ok w))
  keep : ∀ e, (s.ev e).out ≠ none → (s'.ev e).out ≠ none
  count : ∀ e, (s.ev e).out ≠ none → (s'.ev e).count = (s.ev e).count
  frozen : ∀ c, isCond s c = true → (s.ev c).out = none → Gone [] s c → (s'.ev c).out = none
  gone : ∀ d, Gone [] s d → Gone [] s' d

theorem Later.refl (s : KState ℚ σ) : Later s s :=
  ⟨EvMono.refl s, fun _ _ h => Or.inl h, fun _ h => h, fun _ _ => rfl, fun _ _ h _ => h, fun _ h => h⟩

theorem Later.trans {s1 s2 s3 : KState ℚ σ} (h12 : Later s1 s2) (h23 : Later s2 s3) : Later s1 s3 := by
  refine ⟨h12.ev.trans h23.ev, ?_, fun e h => h23.keep e (h12.keep e h), ?_, ?_, fun d h => h23.gone d (h12.gone d h)⟩
  · intro e o ho
    have hlt : e < s1.events.size := Once.lt_of_out s1 e (by rw [ho]; simp)
    have hlt2 : e < s2.events.size := Nat.lt_of_lt_of_le hlt h12.ev.size_le
    rcases h12.out e o ho with h | ⟨h1, h2, h3, v, w, hv, hw⟩
    · rcases h23.out e o h with h' | ⟨k1, k2, k3, hvw⟩
      · exact Or.inl h'
      · right
        refine ⟨by rw [← isCond_congr (h12.ev.kind e hlt)]; exact k1, ?_, k3, hvw⟩
        intro hn; exact k2 (h12.ev.processed e hlt hn)
    · rcases h23.out e _ hw with h' | ⟨_, k2, _⟩
      · exact Or.inr ⟨h1, h2, h23.ev.processed e hlt2 h3, v, w, hv, h'⟩
      · exact absurd h3 k2
  · intro e ho
    rw [h23.count e (h12.keep e ho), h12.count e ho]
  · intro c hc ho hg
    have hlt := lt_of_isCond s1 c hc
    exact h23.frozen c (by rw [isCond_congr (h12.ev.kind c hlt)]; exact hc) (h12.frozen c hc ho hg) (h12.gone c hg)

/-! ## the pop, once more: detached stays detached -/

theorem gone_openEvent {x0 : EvId} {s : KState ℚ σ} (hc : CInv [] x0 s) (q : QEntry ℚ) (rest : List (QEntry ℚ)) (L : List Cb)
    (hL : (s.ev q.ev).cbs = some L) {d : EvId} (h : Gone [] s d) : Gone L (_root_.openEvent s q rest) d := by
  have hkind : ∀ e, ((_root_.openEvent s q rest).ev e).kind = (s.ev e).kind := by
    intro e; rw [ev_openEvent]; split
    · rename_i h; rw [h.1]
    · rfl
  have hcbs : ∀ e, (s.ev e).cbs = none → ((_root_.openEvent s q rest).ev e).cbs = none := by
    intro e he; rw [ev_openEvent]; split
    · rfl
    · exact he
  refine Gone.transfer (Shape.of_kind hkind) ?_ h
  rintro a ⟨h1, h2, _⟩
  refine ⟨by rw [isCond_congr (hkind a)]; exact h1, hcbs a h2, ?_⟩
  intro hm
  have := (hc.bld_own q.ev L a hL hm).1
  rw [← this, hL] at h2; cases h2

/-! ## the callback loop, stopped after a prefix -/

/-- **mid-step**: after any prefix `pre` of the callbacks of the event being processed, both invariants hold with the
rest `post` as the callbacks still to run -/
theorem CInv.foldCbs_prefix (body : σ → Resume → Burst ℚ σ) (fuel : Nat) : ∀ (pre post : List Cb) (g : Once.Ghost)
    (l : LoopSt ℚ σ), g.rem = pre ++ post → g.run = none → g.lv = false → g.strict = false → Once.Inv g l.s →
    CInv g.rem g.e0 l.s → Once.SafeCbs body fuel g.e0 (pre ++ post) l → DomCbs body fuel g.e0 (pre ++ post) l →
    Once.Inv { g with rem := post } (pre.foldl (_root_.runCb body fuel g.e0) l).s ∧
    CInv post g.e0 (pre.foldl (_root_.runCb body fuel g.e0) l).s ∧
    Mono (pre ++ post) l.s (pre.foldl (_root_.runCb body fuel g.e0) l).s
  | [], post, g, l, hrem, _, _, _, hi, hc, _, _ => by
    simp only [List.nil_append] at hrem
    have : ({ g with rem := post } : Once.Ghost) = g := by cases g; simp only at hrem; subst hrem; rfl
    rw [this]
    rw [hrem] at hc
    exact ⟨hi, hc, Mono.refl _ _⟩
  | cb :: pre, post, g, l, hrem, hg, hlv, hst, hi, hc, hs, hd => by
    simp only [List.foldl_cons]
    simp only [List.cons_append] at hrem hs hd
    obtain ⟨h1, m1⟩ := CInv.runCb body fuel l cb (pre ++ post) hrem hg hi hc hs.1 hd.1
    have hi1 := Once.Inv.runCb body fuel l cb (pre ++ post) hrem hg (fun h => by rw [hlv] at h; cases h) hi hs.1
      (fun h => by rw [hst] at h; cases h)
    obtain ⟨i2, h2, m2⟩ :=
      CInv.foldCbs_prefix body fuel pre post { g with rem := pre ++ post } _ rfl hg hlv hst hi1 h1 hs.2 hd.2
    exact ⟨i2, h2, m1.seq m2 (fun c h => List.mem_cons_of_mem _ h) (EvMono.krel.runCb body fuel g.e0 l cb)⟩

/-- the hypotheses on a callback list split along `++` -/
theorem safeCbs_append (body : σ → Resume → Burst ℚ σ) (fuel : Nat) (e : EvId) : ∀ (a b : List Cb) (l : LoopSt ℚ σ),
    Once.SafeCbs body fuel e (a ++ b) l → Once.SafeCbs body fuel e b (a.foldl (_root_.runCb body fuel e) l)
  | [], _, _, h => h
  | _ :: a, b, _, h => safeCbs_append body fuel e a b _ h.2

theorem domCbs_append (body : σ → Resume → Burst ℚ σ) (fuel : Nat) (e : EvId) : ∀ (a b : List Cb) (l : LoopSt ℚ σ),
    DomCbs body fuel e (a ++ b) l → DomCbs body fuel e b (a.foldl (_root_.runCb body fuel e) l)
  | [], _, _, h => h
  | _ :: a, b, _, h => domCbs_append body fuel e a b _ h.2

/-- within a step nothing becomes processed: an event with a callback list keeps one -/
def Unproc (s s' : KState ℚ σ) : Prop := ∀ e, (s.ev e).cbs ≠ none → (s'.ev e).cbs ≠ none

theorem Unproc.of_setEv (s : KState ℚ σ) (e : EvId) (x : EvRec ℚ) (h : (s.ev e).cbs ≠ none → x.cbs ≠ none) :
    Unproc s (s.setEv e x) := by
  intro e' he'
  rw [KState.ev_setEv]; split
  · rename_i hc; rw [hc.1] at he'; exact h he'
  · exact he'

theorem Unproc.of_push (s s' : KState ℚ σ) (x : EvRec ℚ) (h : s'.events = s.events.push x) : Unproc s s' := by
  intro e he
  have hlt := Once.lt_of_cbs s e he
  have : s'.ev e = s.ev e := by simp only [KState.ev, h, getD_push]; rw [if_neg (Nat.ne_of_lt hlt)]
  rw [this]; exact he

theorem Unproc.of_events {s s' : KState ℚ σ} (h : s'.events = s.events) : Unproc s s' := by
  intro e he
  have : s'.ev e = s.ev e := by simp [KState.ev, h]
  rw [this]; exact he

theorem Unproc.krel : KRel (Unproc (σ := σ)) where
  refl := fun _ _ h => h
  trans := fun h12 h23 e h => h23 e (h12 e h)
  emit _ _ := of_events rfl
  active _ _ := of_events rfl
  shared _ _ := of_events rfl
  setProc _ _ _ := of_events rfl
  schedule _ _ _ _ _ _ := of_events rfl
  newEv s r _ := of_push s _ r rfl
  newLabelled s r _ := of_push s _ _ rfl
  newReq s r _ _ _ := of_push s _ _ rfl
  setOut s e o := of_setEv s e _ (fun h => h)
  defuse s e := of_setEv s e _ (fun h => h)
  bumpCount s e := of_setEv s e _ (fun h => h)
  setUsage s e := of_setEv s e _ (fun h => h)
  eraseCb s e cb := of_setEv s e _ (fun h => by
    cases hc : (s.ev e).cbs with
    | none => exact absurd hc h
    | some L => simp)
  addCb s e cb _ := by
    unfold KState.addCb
    exact of_setEv s e _ (fun h => by
      cases hc : (s.ev e).cbs with
      | none => exact absurd hc h
      | some L => simp)
  eraseUser _ _ _ := of_events rfl
  addUser _ _ _ _ _ := of_events rfl
  addLevel _ _ _ _ _ := of_events rfl
  subLevel _ _ _ _ _ := of_events rfl
  addItem _ _ _ _ _ := of_events rfl
  tailItems _ _ := of_events rfl
  eraseItem _ _ _ := of_events rfl
  dropPutQ _ _ _ := of_events rfl
  dropGetQ _ _ _ := of_events rfl
  enqPut _ _ _ _ := of_events rfl
  enqGet _ _ _ _ := of_events rfl

/-! ## one step, whole runs -/

/-- **one kernel step keeps the counting invariant**, however it ends -/
theorem Inv0.step (body : σ → Resume → Burst ℚ σ) (fuel : Nat) {s s' : KState ℚ σ} (hi : Once.Inv0 false s) (hc : Inv0 s)
    (hsafe : Once.SafeStep body fuel s) (hdom : DomStep body fuel s) (hs : (step body fuel s).state? = some s') :
    Inv0 s' ∧ Later s s' := by
  have hev := Once.step_evMono body fuel s s' hs
  have hs0 := hs
  unfold _root_.step at hs
  unfold Once.SafeStep at hsafe
  unfold DomStep at hdom
  split at hs
  · cases hs
  · rename_i q rest hq
    rw [hq] at hsafe hdom
    simp only at hsafe hdom
    split at hs
    · rename_i hnone
      exact absurd hnone (hi.pop_unprocessed q rest hq)
    · rename_i L hL
      rw [hL] at hsafe hdom
      simp only at hsafe hdom
      rw [closeEvent_state] at hs
      cases hs
      have hlt : q.ev < s.events.size := lt_of_cbs_some s _ L hL
      have h1 := Once.Inv.openEvent hi q rest hq L hL
      have c1 : CInv L q.ev (_root_.openEvent s q rest) := CInv.openEvent hc hi q rest L hL
      obtain ⟨c2, m2⟩ := CInv.foldCbs body fuel L { rem := L, e0 := q.ev, run := none, lv := false, strict := false }
        { s := _root_.openEvent s q rest } rfl rfl rfl rfl h1 c1 hsafe hdom
      have m1 := mono_openEvent s q rest ([] : List Cb)
      have hopenEv : EvMono s (_root_.openEvent s q rest) := by
        have := EvMono.of_setEv s q.ev { s.ev q.ev with cbs := none } rfl (fun _ => rfl)
        exact ⟨this.size_le, this.kind, this.processed⟩
      have hfoldEv := EvMono.krel.foldCbs body fuel q.ev L { s := _root_.openEvent s q rest }
      have hopenOut : ∀ e, ((_root_.openEvent s q rest).ev e).out = (s.ev e).out := by
        intro e; rw [ev_openEvent]; split
        · rename_i h; rw [h.1]
        · rfl
      have hopenCount : ∀ e, ((_root_.openEvent s q rest).ev e).count = (s.ev e).count := by
        intro e; rw [ev_openEvent]; split
        · rename_i h; rw [h.1]
        · rfl
      refine ⟨c2.e0_irrel 0, hev, ?_, ?_, ?_, ?_, ?_⟩
      · intro e o ho
        rcases m2.out e o (by rw [hopenOut]; exact ho) with h | ⟨hm, hvw⟩
        · exact Or.inl h
        · right
          obtain ⟨he, hne⟩ := hc.bld_own q.ev L e hL hm
          have hcc : isCond s e = true := by
            cases h : isCond s e with
            | true => rfl
            | false => exact absurd (ops_nil_of_not_cond h) hne
          refine ⟨hcc, by rw [← he, hL]; simp, ?_, hvw⟩
          rw [← he]
          exact (Once.step_processes body fuel s _ q rest hq hlt hs0).1
      · intro e ho; exact m2.keep e (by rw [hopenOut]; exact ho)
      · intro e ho; rw [m2.count e (by rw [hopenOut]; exact ho), hopenCount]
      · intro c hcc ho hg
        refine m2.frozen c ?_ (by rw [hopenOut]; exact ho) (gone_openEvent hc q rest L hL hg)
        rw [isCond_congr (hopenEv.kind c (lt_of_isCond s c hcc))]; exact hcc
      · intro d hg
        exact (gone_openEvent hc q rest L hL hg).evMono hfoldEv (fun c h => by cases h)

/-- **the counting invariant holds in every state of every safe run** -/
theorem Inv0.reach (body : σ → Resume → Burst ℚ σ) (fuel : Nat) {s0 s : KState ℚ σ} (h0 : Once.Inv0 false s0) (c0 : Inv0 s0)
    (hsafe : SafeRun body fuel s0) (hr : KReach body fuel s0 s) : Once.Inv0 false s ∧ Inv0 s ∧ Later s0 s := by
  induction hr with
  | init => exact ⟨h0, c0, Later.refl _⟩
  | step hr' hs ih =>
    obtain ⟨i1, c1, l1⟩ := ih
    obtain ⟨c2, l2⟩ := Inv0.step body fuel i1 c1 (hsafe.1 _ hr') (hsafe.2 _ hr') hs
    exact ⟨i1.step body fuel (fun h => by cases h) (hsafe.1 _ hr') (fun h => by cases h) hs, c2, l1.trans l2⟩

/-- a later state of the same run -/
theorem later_of_reach (body : σ → Resume → Burst ℚ σ) (fuel : Nat) {s0 s s' : KState ℚ σ} (h0 : Once.Inv0 false s0)
    (c0 : Inv0 s0) (hsafe : SafeRun body fuel s0) (hr : KReach body fuel s0 s) (hr2 : KReach body fuel s s') : Later s s' := by
  induction hr2 with
  | init => exact Later.refl _
  | step hr' hs ih =>
    have hreach := Once.KReach.trans hr hr'
    obtain ⟨i1, c1, _⟩ := Inv0.reach body fuel h0 c0 hsafe hreach
    exact ih.trans (Inv0.step body fuel i1 c1 (hsafe.1 _ hreach) (hsafe.2 _ hreach) hs).2

/-! ## initial states -/

/-- the empty environment satisfies the counting invariant -/
theorem Inv0.init (t0 : ℚ) (rs : Array ResRec) : Inv0 ({ now := t0, resources := rs } : KState ℚ σ) := by
  have hev : ∀ e, ({ now := t0, resources := rs } : KState ℚ σ).ev e = default := fun e => by simp [KState.ev]
  have hops : ∀ c, ops ({ now := t0, resources := rs } : KState ℚ σ) c = [] := fun c => by
    unfold ops condOps; rw [hev]; rfl
  have hcond : ∀ c, isCond ({ now := t0, resources := rs } : KState ℚ σ) c = false := fun c => by
    unfold isCond; rw [hev]; rfl
  refine ⟨?_, ?_, ?_, ?_, ?_, ?_, ?_, ?_, ?_, ?_, ?_, ?_, ?_, ?_, ?_⟩
  · intro c e he; rw [hops] at he; cases he
  · intro c _ e L hL; rw [hev] at hL; cases hL
  · intro c _ e L hL; rw [hev] at hL; cases hL
  · intro c h; cases h
  · intro c _ h; cases h
  · intro e L c hL; rw [hev] at hL; cases hL
  · intro c L hL; rw [hev] at hL; cases hL
  · intro c h; cases h
  · intro c; simp
  · intro h; exact absurd rfl h
  · intro c h; rw [hcond] at h; cases h
  · intro c h; rw [hcond] at h; cases h
  · intro c h; rw [hcond] at h; cases h
  · intro c v h; rw [hcond] at h; cases h
  · intro c x h; rw [hcond] at h; cases h

/-- an API call made from outside a process (the main program starting processes, creating events and conditions)
keeps both invariants -/
theorem Inv0.outside {s : KState ℚ σ} (hi : Once.Inv0 false s) (hc : Inv0 s) (self : EvId) (c : Call ℚ σ)
    (hs : Once.SafeCall s c) (hd : DomCall s c) :
    Once.Inv0 false (doCall s self c).1 ∧ Inv0 (doCall s self c).1 :=
  ⟨Once.Inv.doCall hi self c hs, (CInv.doCall (g := Once.g0 false false) hi hc self c hs hd).1⟩

/-- `run(until=event)` subscribes `StopSimulation.callback`: the counting invariant is kept -/
theorem Inv0.until_event {s : KState ℚ σ} (hi : Once.Inv0 false s) (hc : Inv0 s) (e : EvId) : Inv0 (s.addCb e .stop) :=
  (CInv.frame' (g := Once.g0 false false) hi hc (Fr.addCb s e .stop rfl)).1

/-- `run(until=number)`: the sentinel is a fresh event that is not a condition -/
theorem Inv0.until_time {s : KState ℚ σ} (hi : Once.Inv0 false s) (hc : Inv0 s) (at_ : ℚ) :
    Inv0 (((s.newEv { kind := .sentinel, cbs := some [], out := some (.ok .none) }).1.scheduleAt s.events.size URGENT at_).addCb
      s.events.size .stop) := by
  have f1 : Fr s (s.newEv { kind := .sentinel, cbs := some [], out := some (.ok .none) }).1 :=
    Fr.newEv s _ [] (fun _ _ h => by cases h) rfl (fun cb h => by cases h)
  have f2 : Fr (s.newEv { kind := .sentinel, cbs := some [], out := some (.ok .none) }).1
      ((s.newEv { kind := .sentinel, cbs := some [], out := some (.ok .none) }).1.scheduleAt s.events.size URGENT at_) :=
    Fr.of_events rfl
  exact (CInv.frame' (g := Once.g0 false false) hi hc ((f1.trans f2).trans (Fr.addCb _ _ .stop rfl))).1

end Cond
