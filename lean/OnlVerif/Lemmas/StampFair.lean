import Mathlib.Tactic.FieldSimp
import OnlVerif.Lemmas.StampWfqOrd
/-!
# WFQ with a static backlog: stamps are cumulative normalised service, service is fair

List-level lemmas.  `Chain c k w S l`: walking through the waiting items `l` in order of arrival, the stamps of
the class-`k` items are exactly the cumulative normalised service of class `k`, starting from `S` bits already
taken: `stamp · rate · w = S + (bits of the class-k items up to and including this one)`.
-/

namespace WFQ
open Stamp

/-- bits of the class-`k` packets of a list -/
def bitsOf (c : WfqCfg ℚ) (k : Nat) (l : List SPkt) : ℚ :=
  (l.map fun p => if clsOf c p.flow = some k then 8 * (p.size : ℚ) else 0).sum

@[simp] theorem bitsOf_nil (c : WfqCfg ℚ) (k : Nat) : bitsOf c k [] = 0 := rfl
@[simp] theorem bitsOf_cons (c : WfqCfg ℚ) (k : Nat) (p : SPkt) (l : List SPkt) :
    bitsOf c k (p :: l) = (if clsOf c p.flow = some k then 8 * (p.size : ℚ) else 0) + bitsOf c k l := by
  simp [bitsOf]
@[simp] theorem bitsOf_append (c : WfqCfg ℚ) (k : Nat) (l1 l2 : List SPkt) :
    bitsOf c k (l1 ++ l2) = bitsOf c k l1 + bitsOf c k l2 := by
  simp [bitsOf]

theorem bitsOf_nonneg (c : WfqCfg ℚ) (k : Nat) (l : List SPkt) : 0 ≤ bitsOf c k l := by
  induction l with
  | nil => simp
  | cons p l ih =>
    rw [bitsOf_cons]
    have : (0 : ℚ) ≤ p.size := by exact_mod_cast Nat.zero_le _
    split <;> linarith

theorem bitsOf_eq_zero (c : WfqCfg ℚ) (k : Nat) (l : List SPkt) (h : ∀ p ∈ l, clsOf c p.flow ≠ some k) :
    bitsOf c k l = 0 := by
  induction l with
  | nil => simp
  | cons p l ih =>
    rw [bitsOf_cons, if_neg (h p (by simp)), ih (fun q hq => h q (List.mem_cons_of_mem _ hq))]
    simp

def Chain (c : WfqCfg ℚ) (k : Nat) (w : ℚ) : ℚ → List (Item ℚ) → Prop
  | _, [] => True
  | S, y :: l =>
    if clsOf c y.pkt.flow = some k then
      y.stamp * c.rate * w = S + 8 * (y.pkt.size : ℚ) ∧ Chain c k w (S + 8 * (y.pkt.size : ℚ)) l
    else Chain c k w S l

theorem chain_append (c : WfqCfg ℚ) (k : Nat) (w S : ℚ) (l1 l2 : List (Item ℚ)) :
    Chain c k w S (l1 ++ l2) ↔ Chain c k w S l1 ∧ Chain c k w (S + bitsOf c k (l1.map (·.pkt))) l2 := by
  induction l1 generalizing S with
  | nil => simp [Chain]
  | cons y l ih =>
    simp only [List.cons_append, Chain, List.map_cons, bitsOf_cons]
    by_cases h : clsOf c y.pkt.flow = some k
    · simp only [h, if_true, ih, and_assoc, add_assoc]
    · simp only [h, if_false, ih, zero_add]

/-- along a chain every class-`k` stamp lies between "what was taken before plus itself" and the total -/
theorem chain_bounds (c : WfqCfg ℚ) (k : Nat) (w S : ℚ) (l : List (Item ℚ)) (h : Chain c k w S l) (y : Item ℚ)
    (hy : y ∈ l) (hk : clsOf c y.pkt.flow = some k) :
    S + 8 * (y.pkt.size : ℚ) ≤ y.stamp * c.rate * w ∧ y.stamp * c.rate * w ≤ S + bitsOf c k (l.map (·.pkt)) := by
  induction l generalizing S with
  | nil => simp at hy
  | cons x l ih =>
    simp only [Chain] at h
    simp only [List.map_cons, bitsOf_cons]
    have hx0 : (0 : ℚ) ≤ x.pkt.size := by exact_mod_cast Nat.zero_le _
    have hb := bitsOf_nonneg c k (l.map (·.pkt))
    rcases List.mem_cons.mp hy with rfl | hy
    · rw [if_pos hk] at h ⊢
      constructor <;> linarith [h.1]
    · by_cases hx : clsOf c x.pkt.flow = some k
      · rw [if_pos hx] at h ⊢
        have := ih _ h.2 hy
        constructor <;> linarith [this.1, this.2]
      · rw [if_neg hx] at h ⊢
        have := ih _ h hy
        constructor <;> linarith [this.1, this.2]

theorem chain_of_no_k (c : WfqCfg ℚ) (k : Nat) (w S : ℚ) (l : List (Item ℚ))
    (h : ∀ y ∈ l, clsOf c y.pkt.flow ≠ some k) : Chain c k w S l := by
  induction l generalizing S with
  | nil => trivial
  | cons x l ih =>
    simp only [Chain]
    rw [if_neg (h x (by simp))]
    exact ih _ (fun y hy => h y (List.mem_cons_of_mem _ hy))

/-- the oldest waiting packet of a backlogged class carries exactly "service taken so far + its own bits" -/
theorem chain_head (c : WfqCfg ℚ) (k : Nat) (w S : ℚ) (l : List (Item ℚ)) (h : Chain c k w S l)
    (hex : ∃ y ∈ l, clsOf c y.pkt.flow = some k) :
    ∃ y ∈ l, clsOf c y.pkt.flow = some k ∧ y.stamp * c.rate * w = S + 8 * (y.pkt.size : ℚ) := by
  induction l generalizing S with
  | nil => obtain ⟨y, hy, _⟩ := hex; simp at hy
  | cons x l ih =>
    simp only [Chain] at h
    by_cases hx : clsOf c x.pkt.flow = some k
    · rw [if_pos hx] at h
      exact ⟨x, by simp, hx, h.1⟩
    · rw [if_neg hx] at h
      obtain ⟨y, hy, hk⟩ := hex
      rcases List.mem_cons.mp hy with rfl | hy
      · exact absurd hk hx
      · obtain ⟨z, hz, hzk, hze⟩ := ih _ h ⟨y, hy, hk⟩
        exact ⟨z, List.mem_cons_of_mem _ hz, hzk, hze⟩

/-- **Removing an item of minimal stamp keeps the chain**: if it is of class `k` it is the oldest class-`k` item,
its stamp is exactly the service taken so far plus its own bits, and the rest continues from there. -/
theorem chain_remove (c : WfqCfg ℚ) (k : Nat) (w S : ℚ) (hrw : 0 < c.rate * w) (pre post : List (Item ℚ)) (m : Item ℚ)
    (h : Chain c k w S (pre ++ m :: post)) (hmin : ∀ x ∈ pre, m.stamp ≤ x.stamp) (hsz : 0 < m.pkt.size) :
    (clsOf c m.pkt.flow = some k →
        m.stamp * c.rate * w = S + 8 * (m.pkt.size : ℚ) ∧ Chain c k w (S + 8 * (m.pkt.size : ℚ)) (pre ++ post)) ∧
    (clsOf c m.pkt.flow ≠ some k → Chain c k w S (pre ++ post)) := by
  obtain ⟨h1, h2⟩ := (chain_append c k w S pre (m :: post)).mp h
  constructor
  · intro hk
    simp only [Chain, if_pos hk] at h2
    have hno : ∀ y ∈ pre, clsOf c y.pkt.flow ≠ some k := by
      intro y hy hyk
      have hb := (chain_bounds c k w S pre h1 y hy hyk).2
      have hm : (0 : ℚ) < m.pkt.size := by exact_mod_cast hsz
      have hlt : y.stamp * c.rate * w < m.stamp * c.rate * w := by linarith [h2.1]
      have hle := hmin y hy
      have : m.stamp * (c.rate * w) ≤ y.stamp * (c.rate * w) := mul_le_mul_of_nonneg_right hle (le_of_lt hrw)
      linarith [mul_assoc y.stamp c.rate w, mul_assoc m.stamp c.rate w]
    have hz : bitsOf c k (pre.map (·.pkt)) = 0 :=
      bitsOf_eq_zero c k _ (by
        intro p hp
        obtain ⟨y, hy, rfl⟩ := List.mem_map.mp hp
        exact hno y hy)
    rw [hz, add_zero] at h2
    refine ⟨h2.1, (chain_append c k w _ pre post).mpr ⟨chain_of_no_k c k w _ pre hno, ?_⟩⟩
    rw [hz, add_zero]
    exact h2.2
  · intro hk
    simp only [Chain, if_neg hk] at h2
    exact (chain_append c k w S pre post).mpr ⟨h1, h2⟩

/-- what the fairness argument needs to know about the waiting items, relative to the packets `R` already taken
out of the store (`L` bounds the packet sizes) -/
structure FairL (c : WfqCfg ℚ) (L : Nat) (R : List SPkt) (items : List (Item ℚ)) : Prop where
  conf : ∀ it ∈ items, ∃ k w, clsOf c it.pkt.flow = some k ∧ lookup c.weights k = some w
  size : ∀ it ∈ items, 0 < it.pkt.size ∧ it.pkt.size ≤ L
  /-- stamps are the cumulative normalised service of the class -/
  chain : ∀ k w, lookup c.weights k = some w → Chain c k w (bitsOf c k R) items
  /-- nothing taken so far had a stamp above any waiting stamp -/
  low : ∀ k w, lookup c.weights k = some w → ∀ y ∈ items, bitsOf c k R ≤ y.stamp * c.rate * w

/-- taking a minimal item out keeps `FairL`, and the class of that item now leads in normalised service -/
theorem fairL_pick {c : WfqCfg ℚ} (hp : Pos c) {L : Nat} {R : List SPkt} {pre post : List (Item ℚ)} {m : Item ℚ}
    (h : FairL c L R (pre ++ m :: post)) (hmin : IsMin m (pre ++ m :: post)) :
    FairL c L (R ++ [m.pkt]) (pre ++ post) ∧
    (∀ km wm, clsOf c m.pkt.flow = some km → lookup c.weights km = some wm → ∀ k w, lookup c.weights k = some w →
      bitsOf c k (R ++ [m.pkt]) / w ≤ bitsOf c km (R ++ [m.pkt]) / wm) := by
  have hmem : m ∈ pre ++ m :: post := by simp
  have hsub : ∀ x ∈ pre ++ post, x ∈ pre ++ m :: post := by
    intro x hx
    rcases List.mem_append.mp hx with hx | hx
    · exact List.mem_append_left _ hx
    · exact List.mem_append_right _ (List.mem_cons_of_mem _ hx)
  have hmsz := (h.size m hmem).1
  have hminpre : ∀ x ∈ pre, m.stamp ≤ x.stamp := fun x hx => hmin.stamp_le (List.mem_append_left _ hx)
  -- the new "taken" figure of every class is at most `stamp(m) · rate · w`
  have hnew : ∀ k w, lookup c.weights k = some w → bitsOf c k (R ++ [m.pkt]) ≤ m.stamp * c.rate * w := by
    intro k w hw
    have hrw := mul_pos hp.rate (hp.w k w hw)
    have hr := chain_remove c k w _ hrw pre post m (h.chain k w hw) hminpre hmsz
    simp only [bitsOf_append, bitsOf_cons, bitsOf_nil, add_zero]
    by_cases hk : clsOf c m.pkt.flow = some k
    · rw [if_pos hk]; exact le_of_eq (hr.1 hk).1.symm
    · rw [if_neg hk, add_zero]; exact h.low k w hw m hmem
  refine ⟨⟨fun it hit => h.conf it (hsub it hit), fun it hit => h.size it (hsub it hit), ?_, ?_⟩, ?_⟩
  · intro k w hw
    have hrw := mul_pos hp.rate (hp.w k w hw)
    have hr := chain_remove c k w _ hrw pre post m (h.chain k w hw) hminpre hmsz
    simp only [bitsOf_append, bitsOf_cons, bitsOf_nil, add_zero]
    by_cases hk : clsOf c m.pkt.flow = some k
    · rw [if_pos hk]; exact (hr.1 hk).2
    · rw [if_neg hk, add_zero]; exact hr.2 hk
  · intro k w hw y hy
    have hrw := mul_pos hp.rate (hp.w k w hw)
    have h1 := hnew k w hw
    have h2 : m.stamp ≤ y.stamp := hmin.stamp_le (hsub y hy)
    have : m.stamp * (c.rate * w) ≤ y.stamp * (c.rate * w) := mul_le_mul_of_nonneg_right h2 (le_of_lt hrw)
    linarith [mul_assoc y.stamp c.rate w, mul_assoc m.stamp c.rate w]
  · intro km wm hkm hwm k w hw
    have hwpos := hp.w k w hw
    have hwmpos := hp.w km wm hwm
    have hrwm := mul_pos hp.rate hwmpos
    have hr := chain_remove c km wm _ hrwm pre post m (h.chain km wm hwm) hminpre hmsz
    have heq : bitsOf c km (R ++ [m.pkt]) = m.stamp * c.rate * wm := by
      simp only [bitsOf_append, bitsOf_cons, bitsOf_nil, add_zero, if_pos hkm]
      exact (hr.1 hkm).1.symm
    have h1 := hnew k w hw
    rw [heq, div_le_div_iff₀ hwpos hwmpos]
    have : bitsOf c k (R ++ [m.pkt]) * wm ≤ m.stamp * c.rate * w * wm := mul_le_mul_of_nonneg_right h1 (le_of_lt hwmpos)
    linarith [mul_comm (m.stamp * c.rate * w) wm, mul_assoc (m.stamp * c.rate) wm w, mul_assoc (m.stamp * c.rate) w wm,
      mul_comm w wm]

end WFQ
