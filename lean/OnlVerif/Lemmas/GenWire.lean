import Mathlib.Tactic.SplitIfs
import OnlVerif.Lemmas.GenScalar
import OnlVerif.Net.Wire
import OnlVerif.Generated.Wire
/-!
# Bridge between the *generated* `Wire` code and the hand-written model (`Net/Wire.lean`)

`Generated/Wire.lean` is rewritten from `onl/netdev/wire.py` on every `./check C10`: `put`, and one round of the server
generator `run` split at its `yield env.timeout(delay - queued_time)` (`run_resume`, `run_after_1`).  The loss draw
`random.uniform(0, 1)` and the delay `self.delay_dist()` are the parameters `x`, `y` (each consumed at most once per round,
the draw only when `loss_rate` is truthy — the translator keeps Python's short-circuit).  `GenWire.wireObj` encodes a model
state as the Python object; the model's ghost fields (`lastDone`, `curD`, `log`) have no counterpart.  Over exact rationals.
-/

namespace GenWire

def wireObj (c : WireCfg ℚ) (d : WireSt ℚ) (puts outs stamps ra ya : Nat) (ydt : ℚ) : Gen.WireObj ℚ :=
  { loss_rate := c.lossRate, out := true, packets_rec := d.packetsRec, eff_store_put := puts, eff_out_put := outs,
    eff_stamp := stamps, raised := ra, yield_at := ya, yield_dt := ydt }

/-- the object `g` is what a burst of the model's server leaves: asleep in the yield for the model's timeout; or the round
complete with one more `out.put` (forwarded); or the round complete without `out.put` (the packet is discarded) -/
def WireAgrees (c : WireCfg ℚ) (g : Gen.WireObj ℚ) (r : WireSt ℚ × Pkt ℚ × Next ℚ) (puts outs stamps : Nat) : Prop :=
  match r.2.2 with
  | .wait dt => g = wireObj c r.1 puts outs stamps 0 1 dt
  | .emit => g = wireObj c (Wire.onDone r.1 r.2.1) puts (outs + 1) stamps 0 0 0
  | .lose => g = wireObj c (Wire.onDone r.1 r.2.1) puts outs stamps 0 0 0
  | .fail _ => False

theorem wire_put_eq (c : WireCfg ℚ) (d : WireSt ℚ) (puts outs stamps ra ya : Nat) (ydt now : ℚ) (w : Nat) (p : Pkt ℚ) :
    Gen.Wire.put (wireObj c d puts outs stamps ra ya ydt) =
      wireObj c (Wire.admitPkt d now w p).1 (puts + 1) outs (stamps + 1) ra ya ydt := by
  unfold Gen.Wire.put Wire.admitPkt wireObj
  simp

theorem wire_resume_agrees (c : WireCfg ℚ) (d : WireSt ℚ) (puts outs stamps ya : Nat) (ydt now x y : ℚ) (p : Pkt ℚ) :
    WireAgrees c (Gen.Wire.run_resume (wireObj c d puts outs stamps 0 ya ydt) now p.ctime x y)
      (Wire.onResume c d now x y p) puts outs stamps := by
  unfold WireAgrees Gen.Wire.run_resume Wire.onResume Wire.lostNow Wire.lossOn Wire.queued Wire.logLost Wire.logOut Wire.setD
    Wire.onDone wireObj
  cases hl : Num.optOn c.lossRate with
  | none => simp only [hl]; split_ifs <;> simp_all
  | some r =>
    simp only [hl, decide_eq_true_eq]
    by_cases hx : x < r
    · have : ¬ r ≤ x := not_le.mpr hx
      simp [hx, this]
    · have : r ≤ x := not_lt.mp hx
      simp only [hx, this, if_true, if_false]
      split_ifs <;> simp_all

theorem wire_after_wait_agrees (c : WireCfg ℚ) (d : WireSt ℚ) (puts outs stamps ya : Nat) (ydt now x y : ℚ) (k : Nat)
    (p : Pkt ℚ) :
    WireAgrees c (Gen.Wire.run_after_1 (wireObj c d puts outs stamps 0 ya ydt) now p.ctime x y)
      (Wire.onFire d now k p) puts outs stamps := by
  unfold WireAgrees Gen.Wire.run_after_1 Wire.onFire Wire.logOut Wire.onDone wireObj
  simp

end GenWire
