import OnlVerif.Lemmas.NetworkThm
/-!
# Networks of local transition systems refine the network of accounts

`Corr`: every node's invariant holds and the packets it holds locally are (a permutation of) the `held` list of its account.
`lstep_legal`: under `NodeLaw` and `IdPreserving`, every global step of the network of local transition systems is a *legal*
step of the account network and keeps `Corr`; hence (`lreach_run`) every run projects to an accepted run of `Net.run`.
-/

namespace Net
variable {ι π κ σ : Type} [DecidableEq ι] [DecidableEq π] [DecidableEq κ]

def Corr (nd : ι → Node π σ) (L : LState ι π σ) : Prop :=
  ∀ a, (nd a).Inv (L.loc a) ∧ ((nd a).heldOf (L.loc a)).Perm (L.g.recs (.held a))

theorem corr_upd (nd : ι → Node π σ) (loc : ι → σ) (g g' : GState ι π) (a : ι) (s' : σ) (hc : Corr nd ⟨loc, g⟩)
    (hsame : ∀ a', a' ≠ a → g'.recs (.held a') = g.recs (.held a'))
    (hinv : (nd a).Inv s') (hperm : ((nd a).heldOf s').Perm (g'.recs (.held a))) : Corr nd ⟨upd loc a s', g'⟩ := by
  intro a'
  by_cases h : a' = a
  · subst h; simp only [upd, if_true]; exact ⟨hinv, hperm⟩
  · simp only [upd, if_neg h]; rw [hsame a' h]; exact hc a'

theorem corr_same (nd : ι → Node π σ) (loc : ι → σ) (g g' : GState ι π) (hc : Corr nd ⟨loc, g⟩)
    (hsame : ∀ a', g'.recs (.held a') = g.recs (.held a')) : Corr nd ⟨loc, g'⟩ := by
  intro a'; rw [hsame a']; exact hc a'

theorem recs_arrive_held (g : GState ι π) (d : Dest ι) (p : π) (o : Outcome) (a' : ι) :
    (g.arrive d p o).recs (.held a') =
      if d = .node a' ∧ o = .acc then g.recs (.held a') ++ [p] else g.recs (.held a') := by
  cases d <;> cases o <;>
    simp only [GState.arrive, recs_app, reduceCtorEq, if_false, Slot.held.injEq, Dest.node.injEq, and_true, and_false,
      false_and]
  rename_i b
  by_cases h : a' = b
  · subst h; simp
  · have : ¬ b = a' := fun e => h e.symm
    simp [h, this]

theorem corr_arrive (nd : ι → Node π σ) (law : ∀ a, NodeLaw (nd a)) (loc loc' : ι → σ) (g : GState ι π) (d : Dest ι)
    (p : π) (o : Outcome) (hc : Corr nd ⟨loc, g⟩) (ha : Arrives nd loc d p o loc') : Corr nd ⟨loc', g.arrive d p o⟩ := by
  cases d with
  | sink k =>
    rw [ha.2]
    exact corr_same nd loc g _ hc (fun a' => by rw [recs_arrive_held]; simp)
  | node b =>
    obtain ⟨s', hs, rfl⟩ := ha
    cases o with
    | acc =>
      have hl := (law b).recv_acc _ _ _ (hc b).1 hs
      refine corr_upd nd loc g _ b s' hc (fun a' hne => ?_) hl.1 ?_
      · rw [recs_arrive_held]
        have : ¬ (Dest.node b = Dest.node a' ∧ Outcome.acc = Outcome.acc) := fun e => hne (Dest.node.inj e.1).symm
        rw [if_neg this]
      · rw [recs_arrive_held, if_pos ⟨rfl, rfl⟩]
        exact hl.2.trans ((hc b).2.append_right _)
    | ref r =>
      have hl := (law b).recv_ref _ _ _ _ (hc b).1 hs
      refine corr_upd nd loc g _ b s' hc (fun a' _ => ?_) hl.1 ?_
      · rw [recs_arrive_held]; simp
      · rw [recs_arrive_held]; simp only [reduceCtorEq, and_false, if_false]
        exact hl.2.trans (hc b).2

/-- the sending half of a hand-over (or a discard): the packet is one the account holds, and afterwards the node holds
what the account holds with `p` erased -/
theorem corr_release (nd : ι → Node π σ) (loc : ι → σ) (g g1 : GState ι π) (a : ι) (p : π) (s1 : σ)
    (hc : Corr nd ⟨loc, g⟩) (hmem : p ∈ (nd a).heldOf (loc a)) (hinv : (nd a).Inv s1)
    (hperm : ((nd a).heldOf (loc a)).Perm (p :: (nd a).heldOf s1))
    (hg1 : ∀ a', g1.recs (.held a') = (g.del a p).recs (.held a')) :
    p ∈ (g.acct a).held ∧ Corr nd ⟨upd loc a s1, g1⟩ := by
  have hp : p ∈ (g.acct a).held := ((hc a).2.mem_iff).mp hmem
  refine ⟨hp, corr_upd nd loc g g1 a s1 hc (fun a' hne => ?_) hinv ?_⟩
  · rw [hg1, recs_del]
    have : ¬ (Slot.held a' = Slot.held a) := fun e => hne (Slot.held.inj e)
    rw [if_neg this]
  · rw [hg1, recs_del, if_pos rfl]
    have h1 : (p :: (nd a).heldOf s1).Perm (p :: (g.recs (.held a)).erase p) :=
      hperm.symm.trans ((hc a).2.trans (List.perm_cons_erase hp))
    exact (List.perm_cons p).mp h1

/-- **every global step of a network of lawful, id-preserving nodes is a legal step of the account network** -/
theorem lstep_legal (n : Wiring ι π κ) (nd : ι → Node π σ) (law : ∀ a, NodeLaw (nd a)) (hid : ∀ a, IdPreserving (nd a))
    (L L' : LState ι π σ) (e : GEv ι π) (hc : Corr nd L) (hs : LStep n nd L e L') :
    step n L.g e = .ok L'.g ∧ Corr nd L' := by
  cases hs with
  | inject a p o s' fresh h =>
    refine ⟨by simp [step, illegal, fresh], ?_⟩
    simp only [apply]
    have hc0 : Corr nd ⟨L.loc, ({ L.g with injected := L.g.injected ++ [p] } : GState ι π)⟩ :=
      corr_same nd L.loc L.g _ hc (fun a' => recs_with_injected _ _ _)
    exact corr_arrive nd law L.loc _ _ (.node a) p o hc0 ⟨s', h, rfl⟩
  | fwd a p o s1 loc' h h2 =>
    have hmem := hid a _ _ _ (hc a).1 (Or.inl h)
    have hl := (law a).emit _ _ _ (hc a).1 h hmem
    obtain ⟨hp, hc1⟩ := corr_release nd L.loc L.g ((L.g.del a p).app (.out a) p) a p s1 hc hmem hl.1 hl.2
      (fun a' => by rw [recs_app]; simp)
    have hleg : illegal n L.g (.fwd a p o) = none := by
      simp only [illegal, hp, not_true_eq_false, if_false]
      cases hd : n.next a p with
      | node b => rfl
      | sink k =>
        rw [hd] at h2
        obtain ⟨rfl, _⟩ := h2
        rfl
    refine ⟨by simp [step, hleg], ?_⟩
    simp only [apply]
    exact corr_arrive nd law _ _ _ _ p o hc1 h2
  | drop a p r s' h =>
    have hmem := hid a _ _ _ (hc a).1 (Or.inr ⟨r, h⟩)
    have hl := (law a).discard _ _ _ _ (hc a).1 h hmem
    obtain ⟨hp, hc1⟩ := corr_release nd L.loc L.g ((L.g.del a p).app (.dropped a) p r) a p s' hc hmem hl.1 hl.2
      (fun a' => by rw [recs_app]; simp)
    exact ⟨by simp [step, illegal, hp], hc1⟩
  | copy a p c s' hsp hcp fresh h =>
    have hl := (law a).make _ _ _ _ (hc a).1 h
    have hp : p ∈ (L.g.acct a).held := ((hc a).2.mem_iff).mp hl.2.1
    refine ⟨by simp [step, illegal, hsp, hp, hcp, fresh], ?_⟩
    simp only [apply]
    refine corr_upd nd L.loc L.g _ a s' hc (fun a' hne => ?_) hl.1 ?_
    · rw [recs_app, recs_app, recs_with_copies]
      have : ¬ (Slot.held a' = Slot.held a) := fun e => hne (Slot.held.inj e)
      simp [this]
    · rw [recs_app, recs_app, recs_with_copies]
      simp only [reduceCtorEq, if_false, if_true]
      exact hl.2.2.trans ((hc a).2.append_right _)
  | tau a s' h =>
    have hl := (law a).tau _ _ (hc a).1 h
    exact ⟨by simp [step, illegal, apply], corr_upd nd L.loc L.g L.g a s' hc (fun _ _ => rfl) hl.1 (hl.2.trans (hc a).2)⟩

/-- **every run of a network of local transition systems is an accepted run of the account network**, and the accounts
tell what every node holds -/
theorem lreach_run (n : Wiring ι π κ) (nd : ι → Node π σ) (law : ∀ a, NodeLaw (nd a)) (hid : ∀ a, IdPreserving (nd a))
    (loc0 : ι → σ) (h0 : ∀ a, (nd a).Inv (loc0 a) ∧ (nd a).heldOf (loc0 a) = [])
    (L : LState ι π σ) (es : List (GEv ι π)) (h : LReach n nd loc0 L es) :
    run n {} es = .ok L.g ∧ Corr nd L := by
  induction h with
  | init =>
    refine ⟨rfl, fun a => ⟨(h0 a).1, ?_⟩⟩
    rw [(h0 a).2]; exact List.Perm.refl _
  | snoc L L' es e _ hs ih =>
    have := lstep_legal n nd law hid L L' e ih.2 hs
    exact ⟨run_snoc n es e {} L.g L'.g ih.1 this.1, this.2⟩

end Net
