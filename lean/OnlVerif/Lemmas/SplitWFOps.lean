import OnlVerif.Lemmas.SplitWFLeaf
/-!
# Well-scopedness is kept by every operation of `Kernel/Ops.lean` (C03, stage 3)

For every state transformer `f` of the model: `WS I s → (the ids passed to f exist) → WS I (f s …)`; ids read back from a
well-scoped state exist.  The bound only grows (`Grow`), so guards established in `s` stay valid in every later state.
-/

variable {σ : Type}

namespace SplitWF
variable {I : IdSt σ} {s : KState ℚ σ}

theorem size_le_of_grow {s s' : KState ℚ σ} (g : Grow s s') : s.events.size ≤ s'.events.size := g.2

/-! ## interrupts -/

theorem ws_mkInterrupt (h : WS I s) (p : EvId) (c : Val) (hp : p < s.events.size) (hc : valBelow s.events.size c) :
    WS I (mkInterrupt s p c).1 := by
  unfold mkInterrupt
  split
  · exact h
  · split
    · exact h
    · have h1 : SB I (s.events.size + 1) s := SB.mono h (Nat.le_succ _)
      refine WS.of_le ((h1.newEv _ ?_).schedule _ _ _ (Nat.lt_succ_self _)) (by simp [KState.newEv, KState.schedule])
      refine ⟨Nat.lt_succ_of_lt hp, ?_, ?_, fun rq hrq => by cases hrq⟩
      · intro l hl cb hcb
        simp only [Option.some.injEq] at hl
        subst hl
        rw [List.mem_singleton] at hcb
        subst hcb
        exact Nat.lt_succ_self _
      · intro o ho
        simp only [Option.some.injEq] at ho
        subst ho
        intro v hv
        rw [List.mem_singleton] at hv
        subst hv
        exact hc.mono (Nat.le_succ _)

/-! ## resources -/

theorem worstUser_mem (s : KState ℚ σ) : ∀ (l : List EvId) (w : EvId), worstUser s l = some w → w ∈ l
  | [], w, h => by simp [worstUser] at h
  | u :: us, w, h => by
    unfold worstUser at h
    cases hw : worstUser s us with
    | none =>
      rw [hw] at h
      simp only [Option.some.injEq] at h
      subst h
      exact List.mem_cons_self
    | some w' =>
      rw [hw] at h
      simp only at h
      split at h
      · simp only [Option.some.injEq] at h
        subst h
        exact List.mem_cons_self
      · simp only [Option.some.injEq] at h
        subst h
        exact List.mem_cons_of_mem _ (worstUser_mem s us w' hw)

theorem mem_insertSorted (s : KState ℚ σ) (e : EvId) : ∀ (l : List EvId) (x : EvId), x ∈ insertSorted s e l → x = e ∨ x ∈ l
  | [], x, h => by
    simp only [insertSorted, List.mem_singleton] at h
    exact Or.inl h
  | y :: ys, x, h => by
    unfold insertSorted at h
    split at h
    · rcases List.mem_cons.mp h with h | h
      · exact Or.inl h
      · exact Or.inr h
    · rcases List.mem_cons.mp h with h | h
      · exact Or.inr (h ▸ List.mem_cons_self)
      · rcases mem_insertSorted s e ys x h with h | h
        · exact Or.inl h
        · exact Or.inr (List.mem_cons_of_mem _ h)

theorem ws_preemptStep (h : WS I s) (r : ResId) (e : EvId) (he : e < s.events.size) : WS I (preemptStep s r e) := by
  unfold preemptStep
  simp only
  have hpos : 0 < s.events.size := Nat.lt_of_le_of_lt (Nat.zero_le _) he
  split
  · split
    · exact h
    · rename_i w hw
      have hwm := worstUser_mem s _ w hw
      have hwlt : w < s.events.size := (h.resources r).users w hwm
      have herase : ∀ x ∈ (s.res r).users.erase w, x < s.events.size :=
        fun x hx => (h.resources r).users x (List.mem_of_mem_erase hx)
      split
      · split
        · rename_i vp hvp
          have hvp' : vp < s.events.size := (SB.reqOf h w hpos).1 vp hvp
          have h1 : WS I (s.setUsers r ((s.res r).users.erase w)) := SB.setUsers h r _ herase
          exact ws_mkInterrupt h1 vp _ hvp' ⟨(SB.reqOf h e hpos).1, hwlt⟩
        · exact SB.setUsers h r _ herase
      · exact h
  · exact h

theorem ws_prePut (h : WS I s) (r : ResId) (e : EvId) (he : e < s.events.size) : WS I (prePut s r e) := by
  unfold prePut
  split
  · exact ws_preemptStep h r e he
  · exact h

theorem ws_applyPut (h : WS I s) (r : ResId) (e : EvId) (he : e < s.events.size) : WS I (applyPut s r e) := by
  unfold applyPut
  simp only
  have hu : ∀ x ∈ (s.res r).users ++ [e], x < s.events.size := by
    intro x hx
    rcases List.mem_append.mp hx with hx | hx
    · exact (h.resources r).users x hx
    · rw [List.mem_singleton] at hx; subst hx; exact he
  have hsz : ∀ s' : KState ℚ σ, s'.events.size = s.events.size → ∀ o, s.events.size ≤ (s'.trigger e o).events.size := by
    intro s' hs' o
    simp [KState.trigger, KState.schedule, KState.setOut, KState.setEv, hs']
  split
  · exact WS.of_le (((SB.setUsers h r _ hu).setUsage e).trigger e _ he trivial)
      (hsz _ (by simp [KState.setUsage, KState.setEv, KState.setUsers, KState.setRes]) _)
  · exact WS.of_le (((SB.setUsers h r _ hu).setUsage e).trigger e _ he trivial)
      (hsz _ (by simp [KState.setUsage, KState.setEv, KState.setUsers, KState.setRes]) _)
  · exact WS.of_le (((SB.setUsers h r _ hu).setUsage e).trigger e _ he trivial)
      (hsz _ (by simp [KState.setUsage, KState.setEv, KState.setUsers, KState.setRes]) _)
  · exact WS.of_le ((SB.setLevel h r _).trigger e _ he trivial) (hsz _ rfl _)
  · exact WS.of_le ((SB.setItems h r _).trigger e _ he trivial) (hsz _ rfl _)
  · exact WS.of_le ((SB.setItems h r _).trigger e _ he trivial) (hsz _ rfl _)
  · exact WS.of_le ((SB.setItems h r _).trigger e _ he trivial) (hsz _ rfl _)

theorem ws_doPut (h : WS I s) (r : ResId) (e : EvId) (he : e < s.events.size) : WS I (doPut s r e).1 := by
  unfold doPut
  have h1 := ws_prePut h r e he
  have hg : s.events.size ≤ (prePut s r e).events.size := (Grow.krel.prePut s r e).2
  split
  · exact ws_applyPut h1 r e (Nat.lt_of_lt_of_le he hg)
  · exact h1

theorem getItem_below (s : KState ℚ σ) (r : ResId) (e : EvId) (v : Val) (n : Nat) (hv : getItem s r e = some v) :
    valBelow n v := by
  unfold getItem at hv
  simp only at hv
  split at hv
  · cases hv; trivial
  · cases hv; trivial
  · cases hv; trivial
  · split at hv <;> cases hv; trivial
  · cases hh : (s.res r).items.head? <;> rw [hh] at hv <;> cases hv; trivial
  · cases hh : listMin (s.res r).items <;> rw [hh] at hv <;> cases hv; trivial
  · cases hh : (s.res r).items.find? (filterOk (reqOf s e).filter) <;> rw [hh] at hv <;> cases hv; trivial

theorem sb_takeOut {n : Nat} (h : SB I n s) (r : ResId) (e : EvId) (v : Val) : SB I n (takeOut s r e v) := by
  unfold takeOut
  simp only
  have herase : ∀ w, ∀ x ∈ (s.res r).users.erase w, x < n :=
    fun w x hx => (h.resources r).users x (List.mem_of_mem_erase hx)
  split
  · exact h.setUsers r _ (herase _)
  · exact h.setUsers r _ (herase _)
  · exact h.setUsers r _ (herase _)
  · exact h.setLevel r _
  · exact h.setItems r _
  · split
    · exact h.setItems r _
    · exact h
  · split
    · exact h.setItems r _
    · exact h

theorem ws_doGet (h : WS I s) (r : ResId) (e : EvId) (he : e < s.events.size) : WS I (doGet s r e).1 := by
  unfold doGet
  split
  · rename_i v hv
    refine WS.of_le ((sb_takeOut h r e v).trigger e _ he (getItem_below s r e v _ hv)) ?_
    exact (Grow.krel.doGet s r e |> fun g => by
      have := g.2
      unfold doGet at this
      rw [hv] at this
      exact this)
  · exact h

theorem sb_dropPutQ {n : Nat} (h : SB I n s) (r : ResId) (e : EvId) : SB I n (dropPutQ s r e) :=
  h.setPutQ r _ (fun x hx => (h.resources r).putQ x (List.mem_of_mem_erase hx))

theorem sb_dropGetQ {n : Nat} (h : SB I n s) (r : ResId) (e : EvId) : SB I n (dropGetQ s r e) :=
  h.setGetQ r _ (fun x hx => (h.resources r).getQ x (List.mem_of_mem_erase hx))

theorem ws_scanPut (r : ResId) : ∀ (l : List EvId) (s : KState ℚ σ), WS I s → (∀ e ∈ l, e < s.events.size) →
    WS I (scanPut r l s)
  | [], s, h, _ => h
  | e :: rest, s, h, hl => by
    unfold scanPut
    simp only
    have he := hl e List.mem_cons_self
    have h1 := ws_doPut h r e he
    have hg : s.events.size ≤ (doPut s r e).1.events.size := (Grow.krel.doPut s r e).2
    have h2 : WS I (if (doPut s r e).1.triggered e then dropPutQ (doPut s r e).1 r e else (doPut s r e).1) := by
      split
      · exact sb_dropPutQ h1 r e
      · exact h1
    have hg2 : s.events.size ≤ (if (doPut s r e).1.triggered e then dropPutQ (doPut s r e).1 r e
        else (doPut s r e).1).events.size := by
      split
      · exact hg
      · exact hg
    split
    · exact ws_scanPut r rest _ h2 (fun x hx => Nat.lt_of_lt_of_le (hl x (List.mem_cons_of_mem _ hx)) hg2)
    · exact h2

theorem ws_scanGet (r : ResId) : ∀ (l : List EvId) (s : KState ℚ σ), WS I s → (∀ e ∈ l, e < s.events.size) →
    WS I (scanGet r l s)
  | [], s, h, _ => h
  | e :: rest, s, h, hl => by
    unfold scanGet
    simp only
    have he := hl e List.mem_cons_self
    have h1 := ws_doGet h r e he
    have hg : s.events.size ≤ (doGet s r e).1.events.size := (Grow.krel.doGet s r e).2
    have h2 : WS I (if (doGet s r e).1.triggered e then dropGetQ (doGet s r e).1 r e else (doGet s r e).1) := by
      split
      · exact sb_dropGetQ h1 r e
      · exact h1
    have hg2 : s.events.size ≤ (if (doGet s r e).1.triggered e then dropGetQ (doGet s r e).1 r e
        else (doGet s r e).1).events.size := by
      split
      · exact hg
      · exact hg
    split
    · exact ws_scanGet r rest _ h2 (fun x hx => Nat.lt_of_lt_of_le (hl x (List.mem_cons_of_mem _ hx)) hg2)
    · exact h2

theorem ws_triggerPut (h : WS I s) (r : ResId) : WS I (triggerPut s r) :=
  ws_scanPut r _ s h (h.resources r).putQ

theorem ws_triggerGet (h : WS I s) (r : ResId) : WS I (triggerGet s r) :=
  ws_scanGet r _ s h (h.resources r).getQ

theorem sb_enqPut {n : Nat} (h : SB I n s) (r : ResId) (e : EvId) (he : e < n) : SB I n (enqPut s r e) := by
  unfold enqPut
  refine h.setPutQ r _ ?_
  intro x hx
  split at hx
  · rcases mem_insertSorted s e _ x hx with hx | hx
    · rw [hx]; exact he
    · exact (h.resources r).putQ x hx
  · rcases List.mem_append.mp hx with hx | hx
    · exact (h.resources r).putQ x hx
    · rw [List.mem_singleton] at hx; rw [hx]; exact he

theorem sb_enqGet {n : Nat} (h : SB I n s) (r : ResId) (e : EvId) (he : e < n) : SB I n (enqGet s r e) := by
  unfold enqGet
  refine h.setGetQ r _ ?_
  intro x hx
  rcases List.mem_append.mp hx with hx | hx
  · exact (h.resources r).getQ x hx
  · rw [List.mem_singleton] at hx; rw [hx]; exact he

/-- a fresh request record -/
theorem recBelow_req (n i : Nat) (k : Kind) (hk : kindBelow n i k) (cb : Cb) (hcb : cbBelow n cb) (rq : ReqData ℚ)
    (hrq : reqBelow n rq) : recBelow n i { kind := k, cbs := some [cb], out := none, req := some rq } := by
  refine ⟨hk, ?_, fun o ho => (by cases ho), ?_⟩
  · intro l hl cb' hcb'
    simp only [Option.some.injEq] at hl
    subst hl
    rw [List.mem_singleton] at hcb'
    subst hcb'
    exact hcb
  · intro rq' hrq'
    simp only [Option.some.injEq] at hrq'
    subst hrq'
    exact hrq

theorem ws_mkPut (h : WS I s) (r : ResId) (rq : ReqData ℚ) (hrq : reqBelow (s.events.size + 1) rq) : WS I (mkPut s r rq).1 := by
  unfold mkPut
  simp only
  have h1 : SB I (s.events.size + 1) s := SB.mono h (Nat.le_succ _)
  have h2 : WS I (enqPut (s.newLabelled { kind := .put r, cbs := some [.trigGet r], out := none, req := some rq }).1 r
      s.events.size) := by
    refine WS.of_le (sb_enqPut (h1.newLabelled _ (recBelow_req (s.events.size + 1) s.events.size (.put r) trivial (.trigGet r) trivial rq hrq)) r _ (Nat.lt_succ_self _)) ?_
    simp [enqPut, KState.setPutQ, KState.setRes, KState.newLabelled]
  exact ws_triggerPut h2 r

theorem ws_mkGet (h : WS I s) (r : ResId) (rq : ReqData ℚ) (hrq : reqBelow (s.events.size + 1) rq) : WS I (mkGet s r rq).1 := by
  unfold mkGet
  simp only
  have h1 : SB I (s.events.size + 1) s := SB.mono h (Nat.le_succ _)
  have h2 : WS I (enqGet (s.newLabelled { kind := .get r, cbs := some [.trigPut r], out := none, req := some rq }).1 r
      s.events.size) := by
    refine WS.of_le (sb_enqGet (h1.newLabelled _ (recBelow_req (s.events.size + 1) s.events.size (.get r) trivial (.trigPut r) trivial rq hrq)) r _ (Nat.lt_succ_self _)) ?_
    simp [enqGet, KState.setGetQ, KState.setRes, KState.newLabelled]
  exact ws_triggerGet h2 r

theorem size_mkPut (s : KState ℚ σ) (r : ResId) (rq : ReqData ℚ) :
    (mkPut s r rq).2 = s.events.size ∧ s.events.size + 1 ≤ (mkPut s r rq).1.events.size := by
  unfold mkPut
  simp only
  refine ⟨trivial, ?_⟩
  refine Nat.le_trans ?_ (Grow.krel.triggerPut _ r).2
  simp [enqPut, KState.setPutQ, KState.setRes, KState.newLabelled]

theorem size_mkGet (s : KState ℚ σ) (r : ResId) (rq : ReqData ℚ) :
    (mkGet s r rq).2 = s.events.size ∧ s.events.size + 1 ≤ (mkGet s r rq).1.events.size := by
  unfold mkGet
  simp only
  refine ⟨trivial, ?_⟩
  refine Nat.le_trans ?_ (Grow.krel.triggerGet _ r).2
  simp [enqGet, KState.setGetQ, KState.setRes, KState.newLabelled]

theorem ws_cancelReq (h : WS I s) (e : EvId) : WS I (cancelReq s e).1 := by
  unfold cancelReq
  split
  · exact h
  · split
    · split
      · rename_i r _ _
        exact ws_triggerPut (show WS I (dropPutQ s r e) from sb_dropPutQ h r e) r
      · exact h
    · split
      · rename_i r _ _
        exact ws_triggerGet (show WS I (dropGetQ s r e) from sb_dropGetQ h r e) r
      · exact h
    · exact h

theorem cancelReq_err_below (s : KState ℚ σ) (e : EvId) (x : Exc) (n : Nat) (hx : (cancelReq s e).2 = some x) : excBelow n x := by
  unfold cancelReq at hx
  repeat' split at hx
  all_goals first | (cases hx; exact excBelow_valueErr _ _) | cases hx

theorem mkInterrupt_err_below (s : KState ℚ σ) (p : EvId) (c : Val) (x : Exc) (n : Nat) (hx : (mkInterrupt s p c).2 = some x) :
    excBelow n x := by
  unfold mkInterrupt at hx
  split at hx
  · cases hx; exact excBelow_runtimeErr _ _
  · split at hx
    · cases hx; exact excBelow_runtimeErr _ _
    · cases hx

/-! ## conditions -/

theorem sb_condCheck {n : Nat} (h : SB I n s) (c e : EvId) (hc : c < n) : SB I n (condCheck s c e) := by
  unfold condCheck
  split
  · exact h
  · split
    · rename_i x hx
      exact ((h.bumpCount c).defuse e).trigger c _ hc (h.out_below e _ hx)
    · split
      · exact (h.bumpCount c).trigger c _ hc trivial
      · exact h.bumpCount c

theorem sb_eraseCheck {n : Nat} (h : SB I n s) (c e : EvId) : SB I n (eraseCheck s c e) := by
  unfold eraseCheck
  split
  · split
    · exact h.eraseCb e _
    · exact h
  · exact h

theorem sb_foldl {α : Type} {n : Nat} (f : KState ℚ σ → α → KState ℚ σ) (hf : ∀ s a, SB I n s → SB I n (f s a)) (l : List α)
    (s : KState ℚ σ) (h : SB I n s) : SB I n (l.foldl f s) := by
  induction l generalizing s with
  | nil => exact h
  | cons a l ih => exact ih _ (hf s a h)

theorem sb_removeChecks {n : Nat} (fuel : Nat) (c : EvId) (s : KState ℚ σ) (h : SB I n s) : SB I n (removeChecks fuel c s) := by
  induction fuel generalizing c s with
  | zero => exact h
  | succ k ih =>
    unfold removeChecks
    apply sb_foldl
    · intro s e hs
      split
      · exact ih _ _ (sb_eraseCheck hs c e)
      · exact sb_eraseCheck hs c e
    · exact h

/-- the operands of an allocated condition are allocated (and older) -/
theorem condOps_below (h : WS I s) (c : EvId) : ∀ o ∈ (condOps s c).2, o < s.events.size := by
  unfold condOps
  cases hk : (s.ev c).kind with
  | cond all ops =>
    intro o ho
    have h1 : @LT.lt Nat _ o c := by
      have := (h.events c).kind
      rw [hk] at this
      exact this o ho
    have h2 : c < s.events.size := Once.lt_of_kind s c (by rw [hk]; simp)
    exact Nat.lt_trans h1 h2
  | _ => intro o ho; cases ho

theorem populate_below (h : WS I s) (fuel : Nat) (c : EvId) : ∀ k ∈ populate fuel s c, k < s.events.size := by
  induction fuel generalizing c with
  | zero => intro k hk; cases hk
  | succ f ih =>
    intro k hk
    unfold populate at hk
    rw [List.mem_flatMap] at hk
    obtain ⟨e, he, hke⟩ := hk
    split at hke
    · exact ih e k hke
    · split at hke
      · rw [List.mem_singleton] at hke
        rw [hke]
        exact condOps_below h c e he
      · cases hke

theorem ws_condBuild (h : WS I s) (c : EvId) : WS I (condBuild s c) := by
  unfold condBuild
  simp only
  have h1 : WS I (removeChecks (c + 1) c s) :=
    WS.of_le (sb_removeChecks (c + 1) c s h) (Grow.krel.removeChecks (c + 1) c s).2
  split
  · refine WS.of_le (SB.setOut h1 c _ (populate_below h1 (c + 1) c)) ?_
    simp [KState.setOut, KState.setEv]
  · exact h1

/-- the state `mkCond` builds in the non-empty case, with its size -/
theorem size_mkCond_aux (s : KState ℚ σ) (all : Bool) (ops : List EvId) :
    True ∧ s.events.size + 1 ≤ ((ops.foldl (fun st e => if st.processed e then condCheck st s.events.size e
      else st.addCb e (.check s.events.size)) (s.newLabelled { kind := .cond all ops, cbs := some [], out := none }).1).addCb
        s.events.size (.build s.events.size)).events.size := by
  refine ⟨trivial, ?_⟩
  have hge : s.events.size + 1 ≤ (s.newLabelled { kind := .cond all ops, cbs := some [], out := none }).1.events.size := by
    simp [KState.newLabelled]
  have hf := (Grow.krel.foldl (σ := σ) (fun st e => if st.processed e then condCheck st s.events.size e
      else st.addCb e (.check s.events.size)) (fun st e => by
        show Grow st (if st.processed e then condCheck st s.events.size e else st.addCb e (.check s.events.size))
        split
        · exact Grow.krel.condCheck _ _ _
        · exact Grow.krel.addCb _ _ _ (by simp)) ops
      (s.newLabelled { kind := .cond all ops, cbs := some [], out := none }).1).2
  refine Nat.le_trans hge (Nat.le_trans hf ?_)
  simp [KState.addCb, KState.setEv]

theorem size_mkCond (s : KState ℚ σ) (all : Bool) (ops : List EvId) :
    (mkCond s all ops).2 = s.events.size ∧ s.events.size + 1 ≤ (mkCond s all ops).1.events.size := by
  unfold mkCond
  simp only
  split
  · refine ⟨rfl, ?_⟩
    simp [KState.trigger, KState.schedule, KState.setOut, KState.setEv, KState.newLabelled]
  · exact ⟨rfl, (size_mkCond_aux s all ops).2⟩

theorem ws_mkCond (h : WS I s) (all : Bool) (ops : List EvId) (hops : ∀ o ∈ ops, o < s.events.size) :
    WS I (mkCond s all ops).1 := by
  unfold mkCond
  simp only
  have h1 : SB I (s.events.size + 1) s := SB.mono h (Nat.le_succ _)
  have h2 : SB I (s.events.size + 1) (s.newLabelled { kind := .cond all ops, cbs := some [], out := none }).1 := by
    refine h1.newLabelled _ ⟨hops, ?_, fun o ho => (by cases ho), fun rq hrq => (by cases hrq)⟩
    intro l hl cb hcb
    simp only [Option.some.injEq] at hl
    subst hl
    cases hcb
  have hc : (s.newLabelled { kind := .cond all ops, cbs := some [], out := none }).2 = s.events.size := rfl
  rw [hc]
  split
  · refine WS.of_le (h2.trigger _ _ (Nat.lt_succ_self _) (fun k hk => by cases hk)) ?_
    simp [KState.trigger, KState.schedule, KState.setOut, KState.setEv, KState.newLabelled]
  · have h3 := sb_foldl (I := I) (n := s.events.size + 1)
      (fun st e => if st.processed e then condCheck st s.events.size e else st.addCb e (.check s.events.size))
      (by
        intro st e hst
        split
        · exact sb_condCheck hst _ _ (Nat.lt_succ_self _)
        · exact hst.addCb _ _ (Nat.lt_succ_self _)) ops _ h2
    refine WS.of_le (h3.addCb _ _ (Nat.lt_succ_self _)) ?_
    exact (size_mkCond_aux s all ops).2

end SplitWF
