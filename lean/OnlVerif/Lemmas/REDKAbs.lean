import OnlVerif.Lemmas.REDKDefs
import Mathlib.Tactic.Linarith
/-!
# Generator → REDPort → sink on the kernel model: configurations are well-behaved (no kernel terms here)

Letting the clock advance to the next agenda entry keeps the abstract invariant and is a `tick` the LTS accepts.
-/

set_option linter.unusedSimpArgs false

namespace REDK
open REDOnK QEntry

variable {c : Cfg ℚ} {sizes0 : List Nat}

/-! ## agenda entries of a configuration -/

theorem mem_port {a : A} {x : QEntry ℚ} (h : x ∈ a.port.entries) : x ∈ a.entries := by
  simp [A.entries, h]

theorem mem_src {a : A} {x : QEntry ℚ} (h : x ∈ a.src.entries) : x ∈ a.entries := by
  simp [A.entries, h]

theorem mem_pend {a : A} {x : QEntry ℚ} (h : a.pend = some x) : x ∈ a.entries := by
  simp [A.entries, h]

/-- an entry due now with a smaller priority number or an older `eid` goes first -/
theorem keyLt_of_now {x q : QEntry ℚ} {now : ℚ} (hx : x.time = now) (hq : now ≤ q.time)
    (h : now < q.time ∨ x.prio < q.prio ∨ (x.prio = q.prio ∧ x.eid < q.eid)) : KeyLt x q := by
  unfold KeyLt
  rcases lt_or_eq_of_le hq with h1 | h1
  · exact Or.inl (hx ▸ h1)
  · rcases h with h | h | h
    · exact Or.inl (hx ▸ h)
    · exact Or.inr ⟨hx.trans h1, Or.inl h⟩
    · exact Or.inr ⟨hx.trans h1, Or.inr h⟩

/-- `q` is a minimal entry of the configuration: what `popMin` returns -/
def IsMin (a : A) (q : QEntry ℚ) : Prop := q ∈ a.entries ∧ ∀ x ∈ a.entries, ¬ KeyLt x q

variable {gaps0 : List ℚ} {a : A} {now : ℚ} {vs : List (View ℚ)} {q : QEntry ℚ}

theorem AInv.now_le (hi : AInv c sizes0 gaps0 a now vs) (hq : IsMin a q) : now ≤ q.time := hi.due q hq.1

/-- an entry due now forces the minimal entry to be due now -/
theorem AInv.time_eq (hi : AInv c sizes0 gaps0 a now vs) (hq : IsMin a q) {x : QEntry ℚ} (hx : x ∈ a.entries)
    (hxt : x.time = now) : q.time = now :=
  le_antisymm (hxt ▸ not_keyLt_time (hq.2 x hx)) (hi.due q hq.1)

/-- an entry due now precedes a minimal entry with a larger priority number: impossible -/
theorem AInv.not_prio_lt (hi : AInv c sizes0 gaps0 a now vs) (hq : IsMin a q) {x : QEntry ℚ} (hx : x ∈ a.entries)
    (hxt : x.time = now) (hp : x.prio < q.prio) : False :=
  hq.2 x hx (keyLt_of_now hxt (hi.now_le hq) (Or.inr (Or.inl hp)))

theorem AInv.not_eid_lt (hi : AInv c sizes0 gaps0 a now vs) (hq : IsMin a q) {x : QEntry ℚ} (hx : x ∈ a.entries)
    (hxt : x.time = now) (hp : x.prio = q.prio) (he : x.eid < q.eid) : False :=
  hq.2 x hx (keyLt_of_now hxt (hi.now_le hq) (Or.inr (Or.inr ⟨hp, he⟩)))

/-- **letting the clock advance to the next entry changes nothing else** -/
theorem AInv.advance (hi : AInv c sizes0 gaps0 a now vs) (hq : IsMin a q) :
    AInv c sizes0 gaps0 a q.time vs := by
  rcases eq_or_lt_of_le (hi.now_le hq) with h | h
  · rw [← h]; exact hi
  have hne : ∀ x ∈ a.entries, x.time ≠ now := fun x hx hxt => absurd (hi.time_eq hq hx hxt) (ne_of_gt h)
  refine ⟨?_, ?_, ?_, hi.idle, ?_, hi.len, hi.held, hi.ulen, hi.gen, hi.sink, hi.nacc⟩
  · have hp := hi.port
    cases hport : a.port with
    | init q0 => rw [hport] at hp; exact absurd hp.1 (hne q0 (mem_port (by simp [hport, PPhase.entries])))
    | W g => trivial
    | H g id q0 => rw [hport] at hp; exact absurd hp.1 (hne q0 (mem_port (by simp [hport, PPhase.entries])))
    | T t id q0 => rw [hport] at hp; exact hp
  · have hs := hi.src
    cases hsrc : a.src with
    | init q0 g z u => rw [hsrc] at hs; exact absurd hs.1 (hne q0 (mem_src (by simp [hsrc, SPhase.entries])))
    | delay q0 g z u => rw [hsrc] at hs; exact hs
    | wait n z g zs u q0 => rw [hsrc] at hs; exact hs
    | ending q0 => rw [hsrc] at hs; exact absurd hs.1 (hne q0 (mem_src (by simp [hsrc, SPhase.entries])))
    | done => trivial
  · intro u hu; exact absurd (hi.pend u hu).1 (hne u (mem_pend hu))
  · intro x hx; exact not_keyLt_time (hq.2 x hx)

/-! ## the LTS side -/

open Fifo in
/-- the LTS accepts the clock advance to the next entry -/
theorem lts_tick (ulog : List ℚ) (hi : AInv c sizes0 gaps0 a now vs) (hq : IsMin a q) (h : now < q.time) :
    Fifo.step (Port.dev (cfg c)) (toF c sizes0 a now ulog) (.tick q.time) = .ok (toF c sizes0 a q.time ulog, .nothing) := by
  have hne : ∀ x ∈ a.entries, x.time ≠ now := fun x hx hxt => absurd (hi.time_eq hq hx hxt) (ne_of_gt h)
  have hp := hi.port
  cases hport : a.port with
  | init q0 => rw [hport] at hp; exact absurd hp.1 (hne q0 (mem_port (by simp [hport, PPhase.entries])))
  | H g id q0 => rw [hport] at hp; exact absurd hp.1 (hne q0 (mem_port (by simp [hport, PPhase.entries])))
  | T t id q0 =>
    have h2 : ¬ q0.time < q.time := not_lt.mpr (not_keyLt_time (hq.2 q0 (mem_port (by simp [hport, PPhase.entries]))))
    simp [Fifo.step, toF, hport, not_lt.mpr (le_of_lt h), h2]
  | W g =>
    have hit : a.items = [] := by
      by_contra hc
      have := hi.idle (by simp [hport, PPhase.idle]) hc
      obtain ⟨u, hu⟩ := Option.isSome_iff_exists.mp this
      exact absurd (hi.pend u hu).1 (hne u (mem_pend hu))
    simp [Fifo.step, toF, hport, not_lt.mpr (le_of_lt h), hit]

/-- zero or one `tick` brings the LTS to the instant of the next entry -/
theorem lts_advance (ulog : List ℚ) (hi : AInv c sizes0 gaps0 a now vs) (hq : IsMin a q) :
    ∃ acts, Fifo.runActs (Port.dev (cfg c)) (toF c sizes0 a now ulog) acts = .ok (toF c sizes0 a q.time ulog, [], []) := by
  rcases eq_or_lt_of_le (hi.now_le hq) with h | h
  · exact ⟨[], by rw [← h]; rfl⟩
  · refine ⟨[.tick q.time], ?_⟩
    simp [Fifo.runActs, lts_tick ulog hi hq h, Fifo.entered, Fifo.left]

end REDK
