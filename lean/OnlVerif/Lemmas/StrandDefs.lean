import OnlVerif.Lemmas.ResStep
/-!
# "Never strand a request": the invariant behind the global theorems of C06 / C07

Definitions only.

* `Pend s rem cb` — a rescan `cb` (`.trigPut r` or `.trigGet r`) is *pending*: it is among the callbacks still to be
  invoked for the event being processed (`rem`), or it sits in the callback list of an unprocessed event that has an
  agenda entry due at the current instant.
* `PutBlocked s r` / `GetBlocked s r` — the head of the put queue cannot be granted (`_do_put` would refuse it, also
  after the eviction attempt of a `PreemptiveResource`); the head of the get queue cannot be served (for a
  `FilterStore`: no queued get can be served).
* `Main s rem` — every resource: put head blocked or a put rescan pending; get head blocked or a get rescan pending.
* `Pkg s ex` — the structural facts that make `Main` inductive.
* `stepDom …` — the domain hypothesis (trace hypothesis of a step): no `succeed()/fail()` call of a process body
  targets a non-existent event or a request that is still waiting in a queue.
-/

variable {σ : Type}

/-- is the callback a queue rescan (`_trigger_put` / `_trigger_get`)? -/
def Cb.isTrig : Cb → Bool
  | .trigPut _ => true
  | .trigGet _ => true
  | _ => false

/-- the rescan `cb` is pending in state `s`, `rem` being the callbacks of the current event that are still to run -/
def Pend (s : KState ℚ σ) (rem : List Cb) (cb : Cb) : Prop :=
  cb ∈ rem ∨ ∃ q ∈ s.agenda, q.time = s.now ∧ ∃ l, (s.ev q.ev).cbs = some l ∧ cb ∈ l

/-- would `_do_put` grant request `e` now (for a `PreemptiveResource`: after its eviction attempt)? -/
def putOk (s : KState ℚ σ) (r : ResId) (e : EvId) : Bool := canPut (prePut s r e) r e

/-- the oldest pending put of `r` (if any) cannot be granted -/
def PutBlocked (s : KState ℚ σ) (r : ResId) : Prop :=
  ∀ e, (s.res r).putQ.head? = some e → putOk s r e = false

/-- the oldest pending get of `r` (if any) cannot be served; for a `FilterStore` no pending get can be served -/
def GetBlocked (s : KState ℚ σ) (r : ResId) : Prop :=
  (∀ e, (s.res r).getQ.head? = some e → getItem s r e = none) ∧
  ((s.res r).kind = .fstore → ∀ e ∈ (s.res r).getQ, getItem s r e = none)

def MainP (s : KState ℚ σ) (rem : List Cb) (r : ResId) : Prop := PutBlocked s r ∨ Pend s rem (.trigPut r)
def MainG (s : KState ℚ σ) (rem : List Cb) (r : ResId) : Prop := GetBlocked s r ∨ Pend s rem (.trigGet r)

/-- event `x` is in no resource queue -/
def NoQ (s : KState ℚ σ) (x : EvId) : Prop := ∀ r, x ∉ (s.res r).putQ ∧ x ∉ (s.res r).getQ

/-- a request record without its `usage_since` stamp (the only field ever rewritten) -/
def ReqData.strip (a : ReqData ℚ) : ReqData ℚ := { a with usageSince := none }

/-- structural invariant; `ex` exempts the request that is being granted right now (triggered, not yet dequeued) -/
structure Pkg (s : KState ℚ σ) (ex : Option EvId) : Prop where
  /-- every event in the agenda is triggered -/
  agTrig : ∀ q ∈ s.agenda, (s.ev q.ev).out ≠ none
  /-- process records belong to process events -/
  procKind : ∀ p, s.proc? p ≠ none → (s.ev p).kind = .proc
  /-- `Condition._check` callbacks belong to conditions -/
  checkKind : ∀ x l c, (s.ev x).cbs = some l → Cb.check c ∈ l → isCond s c = true
  /-- queued puts are untriggered `Put` events of this resource, unprocessed, carrying `_trigger_get` -/
  putQ : ∀ r e, e ∈ (s.res r).putQ → (s.ev e).kind = .put r ∧ ((s.ev e).out = none ∨ ex = some e) ∧
    ∃ l, (s.ev e).cbs = some l ∧ Cb.trigGet r ∈ l
  getQ : ∀ r e, e ∈ (s.res r).getQ → (s.ev e).kind = .get r ∧ ((s.ev e).out = none ∨ ex = some e) ∧
    ∃ l, (s.ev e).cbs = some l ∧ Cb.trigPut r ∈ l
  nodupP : ∀ r, (s.res r).putQ.Nodup
  nodupG : ∀ r, (s.res r).getQ.Nodup
  usersIn : ∀ r w, w ∈ (s.res r).users → w < s.events.size
  usersLe : ∀ r c, isResKind (s.res r).kind = true → (s.res r).capacity = some c → (s.res r).users.length ≤ c

/-- frame relation between a state and a later state of the same kernel step -/
structure Fr (s s' : KState ℚ σ) : Prop where
  now_eq : s'.now = s.now
  agenda : ∃ new, s'.agenda = new ++ s.agenda
  size_le : s.events.size ≤ s'.events.size
  kind : ∀ x, x < s.events.size → (s'.ev x).kind = (s.ev x).kind
  cbs : ∀ x l, (s.ev x).cbs = some l → ∃ l', (s'.ev x).cbs = some l' ∧ ∀ cb, cb.isTrig = true → cb ∈ l → cb ∈ l'
  out : ∀ x, (s.ev x).out ≠ none → (s'.ev x).out ≠ none
  req : ∀ x, x < s.events.size → (reqOf s' x).strip = (reqOf s x).strip
  procs : ∀ p, s.proc? p ≠ none → s'.proc? p ≠ none
  resKind : ∀ r, (s'.res r).kind = (s.res r).kind ∧ (s'.res r).capacity = (s.res r).capacity

/-- a frame step that leaves every resource record alone -/
structure NR (s s' : KState ℚ σ) : Prop where
  fr : Fr s s'
  res : s'.resources = s.resources

/-- `Condition._check` callbacks still to run belong to conditions -/
def ChkRem (s : KState ℚ σ) (rem : List Cb) : Prop := ∀ c, Cb.check c ∈ rem → isCond s c = true

def Main (s : KState ℚ σ) (rem : List Cb) : Prop := ∀ r, MainP s rem r ∧ MainG s rem r

/-- the invariant inside the callback loop of a step (`rem` = callbacks still to run) -/
structure J (s : KState ℚ σ) (rem : List Cb) : Prop where
  pkg : Pkg s none
  chk : ChkRem s rem
  main : Main s rem

/-- the invariant at step boundaries -/
structure SInv (s : KState ℚ σ) : Prop where
  wf : AgendaWF s
  j : J s []

/-! ## The domain hypothesis, as a predicate on one step -/

/-- `succeed()/fail()` must target an existing event that is not waiting in a resource queue -/
def callDom (s : KState ℚ σ) : Call ℚ σ → Prop
  | .succeed e _ => e < s.events.size ∧ NoQ s e
  | .fail e _ => e < s.events.size ∧ NoQ s e
  | _ => True

def burstDom (self : EvId) : Burst ℚ σ → KState ℚ σ → Prop
  | .call c k, s => callDom s c ∧ burstDom self (k (doCall s self c).2) (noteErr self (doCall s self c))
  | .yield _ _, _ => True
  | .ret _, _ => True
  | .raise _, _ => True

def resumeDom (body : σ → Resume → Burst ℚ σ) (p : EvId) : Nat → EvId → KState ℚ σ → Prop
  | 0, _, _ => True
  | fuel + 1, e, s =>
    match s.proc? p with
    | none => True
    | some pr =>
      burstDom p (body pr.st (deliver s p e).2) ((deliver s p e).1.emit (.resumed p (deliver s p e).2 (deliver s p e).1.now)) ∧
      match (runBurst p (body pr.st (deliver s p e).2)
          ((deliver s p e).1.emit (.resumed p (deliver s p e).2 (deliver s p e).1.now))) with
      | (s1, .yielded e' st') =>
        (match register (s1.setProc p { st := st', target := some e' }) p e' with
         | some _ => True
         | none => resumeDom body p fuel e' (s1.setProc p { st := st', target := some e' }))
      | _ => True

def intrDom (body : σ → Resume → Burst ℚ σ) (fuel : Nat) (iv p : EvId) (s : KState ℚ σ) : Prop :=
  if s.triggered p then True else
  match s.proc? p with
  | none => True
  | some pr =>
    match pr.target with
    | some t => resumeDom body p fuel iv (s.eraseCb t (.resume p))
    | none => resumeDom body p fuel iv s

def cbDom (body : σ → Resume → Burst ℚ σ) (fuel : Nat) (e : EvId) (s : KState ℚ σ) : Cb → Prop
  | .resume p => resumeDom body p fuel e s
  | .intr iv =>
    match (s.ev iv).kind with
    | .intr p => intrDom body fuel iv p s
    | _ => True
  | _ => True

def loopDom (body : σ → Resume → Burst ℚ σ) (fuel : Nat) (e : EvId) : List Cb → LoopSt ℚ σ → Prop
  | [], _ => True
  | cb :: rest, l => cbDom body fuel e l.s cb ∧ loopDom body fuel e rest (runCb body fuel e l cb)

/-- **domain hypothesis for one kernel step**: while the callbacks of the popped event run, no process body calls
`succeed()/fail()` on a non-existent event or on a request that is still waiting in a queue -/
def stepDom (body : σ → Resume → Burst ℚ σ) (fuel : Nat) (s : KState ℚ σ) : Prop :=
  match popMin s.agenda with
  | none => True
  | some (q, rest) =>
    match (s.ev q.ev).cbs with
    | none => True
    | some cbs => loopDom body fuel q.ev cbs { s := openEvent s q rest }

/-- states reachable by kernel steps each of which satisfies the domain hypothesis -/
inductive DReach (body : σ → Resume → Burst ℚ σ) (fuel : Nat) (s0 : KState ℚ σ) : KState ℚ σ → Prop
  | init : DReach body fuel s0 s0
  | step {s s'} : DReach body fuel s0 s → stepDom body fuel s → (step body fuel s).state? = some s' →
      DReach body fuel s0 s'

/-- a static sufficient condition: the program never calls `succeed()` / `fail()` at all -/
inductive NoTrigCalls : Burst ℚ σ → Prop
  | call (c : Call ℚ σ) (k : Reply → Burst ℚ σ) :
      (∀ e v, c ≠ .succeed e v) → (∀ e x, c ≠ .fail e x) → (∀ rp, NoTrigCalls (k rp)) → NoTrigCalls (.call c k)
  | yield (e : EvId) (st : σ) : NoTrigCalls (.yield e st)
  | ret (v : Val) : NoTrigCalls (.ret v)
  | raise (x : Exc) : NoTrigCalls (.raise x)

/-- the clock is about to advance: the agenda is empty or its next entry is due strictly later than now -/
def AboutToAdvance (s : KState ℚ σ) : Prop :=
  ∀ q rest, popMin s.agenda = some (q, rest) → s.now < q.time
