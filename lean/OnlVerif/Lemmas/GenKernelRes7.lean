import OnlVerif.Lemmas.GenKernelCap
import OnlVerif.Generated.KernelRes7
/-!
# Bridge lemmas (C07): generated `Container` / `Store` / `PriorityStore` / `FilterStore` methods (`Generated/KernelRes7.lean`) = the
resource functions of model `K` (`Kernel/Ops.lean`)
-/

namespace GenKernel
variable {τ σ : Type} [Num τ]

/-! ## running the translated methods on a model state -/

/-- `Container._do_put(event)` -/
def runContainerPut (cx : Cx) (s : KState τ σ) : Option (KState τ σ × Bool) :=
  let g := Gen.Container.do_put (contObj (s.res cx.r)) (reqOf s cx.e).amount
  finish cx s g.eff g.ret

/-- `Container._do_get(event)` -/
def runContainerGet (cx : Cx) (s : KState τ σ) : Option (KState τ σ × Bool) :=
  let g := Gen.Container.do_get (contObj (s.res cx.r)) (reqOf s cx.e).amount
  finish cx s g.eff g.ret

/-- `Store._do_put(event)` (also `FilterStore`, which inherits it) -/
def runStorePut (cx : Cx) (s : KState τ σ) : Option (KState τ σ × Bool) :=
  let g := Gen.Store.do_put (resObj (s.res cx.r)) (s.res cx.r).items.length
  finish cx s g.eff g.ret

/-- `Store._do_get(event)` -/
def runStoreGet (cx : Cx) (s : KState τ σ) : Option (KState τ σ × Bool) :=
  let g := Gen.Store.do_get (resObj (s.res cx.r)) (!(s.res cx.r).items.isEmpty)
  finish cx s g.eff g.ret

/-- `PriorityStore._do_put(event)` -/
def runPStorePut (cx : Cx) (s : KState τ σ) : Option (KState τ σ × Bool) :=
  let g := Gen.PriorityStore.do_put (resObj (s.res cx.r)) (s.res cx.r).items.length
  finish cx s g.eff g.ret

/-- `PriorityStore._do_get(event)` -/
def runPStoreGet (cx : Cx) (s : KState τ σ) : Option (KState τ σ × Bool) :=
  let g := Gen.PriorityStore.do_get (resObj (s.res cx.r)) (!(s.res cx.r).items.isEmpty)
  finish cx s g.eff g.ret

/-- `FilterStore._do_get(event)`; `cx.m` must be the first item that passes the filter -/
def runFStoreGet (cx : Cx) (s : KState τ σ) : Option (KState τ σ × Bool) :=
  let g := Gen.FilterStore.do_get (resObj (s.res cx.r)) cx.m.isSome
  finish cx s g.eff g.ret

/-! ## `Container` -/

theorem container_put_run (s : KState τ σ) (r : ResId) (e : EvId) (hk : (s.res r).kind = .container) :
    runContainerPut { r := r, e := e } s = some (doPut s r e) := by
  have hp : prePut s r e = s := by unfold prePut; rw [hk]; rfl
  have hc : canPut s r e = (match (s.res r).capacity with
      | none => true | some c => decide ((reqOf s e).amount ≤ (c : Int) - (s.res r).level)) := by
    unfold canPut; dsimp only; rw [hk]; rfl
  unfold doPut
  rw [hp, hc]
  unfold runContainerPut Gen.Container.do_put
  dsimp only
  by_cases h : (match (s.res r).capacity with
      | none => true | some c => decide ((reqOf s e).amount ≤ (c : Int) - (s.res r).level)) = true
  · have h' : ExtInt.fin (reqOf s e).amount ≤ ExtInt.subInt (contObj (τ := τ) (s.res r)).capacity (contObj (τ := τ) (s.res r)).level :=
      (fin_le_sub_capOf _ _ _).2 h
    rw [if_pos h', if_pos h]
    unfold applyPut
    simp [finish, runEff, applyEff, hk, contObj]
  · have h' : ¬ ExtInt.fin (reqOf s e).amount ≤ ExtInt.subInt (contObj (τ := τ) (s.res r)).capacity (contObj (τ := τ) (s.res r)).level :=
      mt (fin_le_sub_capOf _ _ _).1 h
    rw [if_neg h', if_neg h]
    rfl

theorem container_get_run (s : KState τ σ) (r : ResId) (e : EvId) (hk : (s.res r).kind = .container) :
    runContainerGet { r := r, e := e } s = some (doGet s r e) := by
  unfold doGet getItem runContainerGet Gen.Container.do_get
  dsimp only
  rw [hk]
  dsimp only
  by_cases h : (reqOf s e).amount ≤ (s.res r).level
  · have h' : (reqOf s e).amount ≤ (contObj (τ := τ) (s.res r)).level := h
    rw [if_pos h', if_pos h]
    unfold takeOut
    simp [finish, runEff, applyEff, hk, contObj]
  · have h' : ¬ (reqOf s e).amount ≤ (contObj (τ := τ) (s.res r)).level := h
    rw [if_neg h', if_neg h]
    rfl

/-- the `amount <= 0` refusal of `ContainerPut.__init__` is the guard of the model's `cput` call -/
theorem container_put_init (s : KState τ σ) (self : EvId) (r : ResId) (amount : Int) (hk : (s.res r).kind = .container) :
    doCall s self (.cput r amount) =
      (if (Gen.ContainerPut.init (reqObj (τ := τ)) amount).raised = 2 then (s, .err (valueErr "amount must be > 0"))
       else match initAmount (Gen.ContainerPut.init (reqObj (τ := τ)) amount).eff with
         | some a => ((mkPut s r { res := r, amount := a, time := s.now, proc := s.active }).1,
                      .ev (mkPut s r { res := r, amount := a, time := s.now, proc := s.active }).2)
         | none => (s, .unit)) := by
  unfold Gen.ContainerPut.init
  simp only [doCall, hk]
  by_cases h : amount ≤ 0
  · rw [if_pos h, if_pos h]; rfl
  · rw [if_neg h, if_neg h]; rfl

theorem container_get_init (s : KState τ σ) (self : EvId) (r : ResId) (amount : Int) (hk : (s.res r).kind = .container) :
    doCall s self (.cget r amount) =
      (if (Gen.ContainerGet.init (reqObj (τ := τ)) amount).raised = 2 then (s, .err (valueErr "amount must be > 0"))
       else match initAmount (Gen.ContainerGet.init (reqObj (τ := τ)) amount).eff with
         | some a => ((mkGet s r { res := r, amount := a, time := s.now, proc := s.active }).1,
                      .ev (mkGet s r { res := r, amount := a, time := s.now, proc := s.active }).2)
         | none => (s, .unit)) := by
  unfold Gen.ContainerGet.init
  simp only [doCall, hk]
  by_cases h : amount ≤ 0
  · rw [if_pos h, if_pos h]; rfl
  · rw [if_neg h, if_neg h]; rfl

/-! ## `Store`, `PriorityStore`, `FilterStore` -/

theorem store_put_run (s : KState τ σ) (r : ResId) (e : EvId) (hk : (s.res r).kind = .store ∨ (s.res r).kind = .fstore) :
    runStorePut { r := r, e := e } s = some (doPut s r e) := by
  have hp : prePut s r e = s := by unfold prePut; rcases hk with h | h <;> rw [h] <;> rfl
  have hc : canPut s r e = hasRoom (s.res r).capacity (s.res r).items.length := by
    unfold canPut; dsimp only; rcases hk with h | h <;> rw [h] <;> rfl
  unfold doPut
  rw [hp, hc]
  unfold runStorePut Gen.Store.do_put
  dsimp only
  by_cases h : hasRoom (s.res r).capacity (s.res r).items.length = true
  · have h' : ExtInt.fin ((s.res r).items.length : Int) < (resObj (τ := τ) (s.res r)).capacity := (fin_lt_capOf _ _).2 h
    rw [if_pos h', if_pos h]
    unfold applyPut
    rcases hk with hk | hk <;> simp [finish, runEff, applyEff, hk, resObj]
  · have h' : ¬ ExtInt.fin ((s.res r).items.length : Int) < (resObj (τ := τ) (s.res r)).capacity := mt (fin_lt_capOf _ _).1 h
    rw [if_neg h', if_neg h]
    rfl

theorem pstore_put_run (s : KState τ σ) (r : ResId) (e : EvId) (hk : (s.res r).kind = .pstore) :
    runPStorePut { r := r, e := e } s = some (doPut s r e) := by
  have hp : prePut s r e = s := by unfold prePut; rw [hk]; rfl
  have hc : canPut s r e = hasRoom (s.res r).capacity (s.res r).items.length := by
    unfold canPut; dsimp only; rw [hk]
  unfold doPut
  rw [hp, hc]
  unfold runPStorePut Gen.PriorityStore.do_put
  dsimp only
  by_cases h : hasRoom (s.res r).capacity (s.res r).items.length = true
  · have h' : ExtInt.fin ((s.res r).items.length : Int) < (resObj (τ := τ) (s.res r)).capacity := (fin_lt_capOf _ _).2 h
    rw [if_pos h', if_pos h]
    unfold applyPut
    simp [finish, runEff, applyEff, hk, resObj]
  · have h' : ¬ ExtInt.fin ((s.res r).items.length : Int) < (resObj (τ := τ) (s.res r)).capacity := mt (fin_lt_capOf _ _).1 h
    rw [if_neg h', if_neg h]
    rfl

theorem store_get_run (s : KState τ σ) (r : ResId) (e : EvId) (hk : (s.res r).kind = .store) :
    runStoreGet { r := r, e := e } s = some (doGet s r e) := by
  unfold doGet getItem runStoreGet Gen.Store.do_get
  dsimp only
  rw [hk]
  dsimp only
  cases hi : (s.res r).items with
  | nil => rfl
  | cons x rest => simp [finish, runEff, applyEff, takeOut, hk, hi, resObj]

theorem listMin_none : ∀ l : List Int, listMin l = none → l = []
  | [], _ => rfl
  | x :: xs, h => by
    unfold listMin at h
    split at h
    · cases h
    · split at h <;> cases h

theorem pstore_get_run (s : KState τ σ) (r : ResId) (e : EvId) (hk : (s.res r).kind = .pstore) :
    runPStoreGet { r := r, e := e } s = some (doGet s r e) := by
  unfold doGet getItem runPStoreGet Gen.PriorityStore.do_get
  dsimp only
  rw [hk]
  dsimp only
  cases hm : listMin (s.res r).items with
  | none =>
    have := listMin_none _ hm
    rw [this]; rfl
  | some x =>
    have hne : (s.res r).items ≠ [] := by
      intro h; rw [h] at hm; cases hm
    simp [finish, runEff, applyEff, takeOut, hk, hm, hne, resObj]

theorem fstore_get_run (s : KState τ σ) (r : ResId) (e : EvId) (hk : (s.res r).kind = .fstore) :
    runFStoreGet { r := r, e := e, m := (s.res r).items.find? (filterOk (reqOf s e).filter) } s = some (doGet s r e) := by
  unfold doGet getItem runFStoreGet Gen.FilterStore.do_get
  dsimp only
  rw [hk]
  dsimp only
  cases hm : (s.res r).items.find? (filterOk (reqOf s e).filter) with
  | none => rfl
  | some x => simp [finish, runEff, applyEff, takeOut, hk, resObj]

/-! ## the put guards are `canPut` -/

theorem container_put_guard (s : KState τ σ) (r : ResId) (e : EvId) (hk : (s.res r).kind = .container) :
    (Gen.Container.do_put (contObj (τ := τ) (s.res r)) (reqOf s e).amount).ret = canPut s r e := by
  have h := container_put_run s r e hk
  have hp : prePut s r e = s := by unfold prePut; rw [hk]; rfl
  simp only [runContainerPut] at h
  rw [finish_ret h, doPut_snd, hp]

theorem store_put_guard (s : KState τ σ) (r : ResId) (e : EvId) (hk : (s.res r).kind = .store ∨ (s.res r).kind = .fstore) :
    (Gen.Store.do_put (resObj (τ := τ) (s.res r)) (s.res r).items.length).ret = canPut s r e := by
  have h := store_put_run s r e hk
  have hp : prePut s r e = s := by unfold prePut; rcases hk with h | h <;> rw [h] <;> rfl
  simp only [runStorePut] at h
  rw [finish_ret h, doPut_snd, hp]

theorem pstore_put_guard (s : KState τ σ) (r : ResId) (e : EvId) (hk : (s.res r).kind = .pstore) :
    (Gen.PriorityStore.do_put (resObj (τ := τ) (s.res r)) (s.res r).items.length).ret = canPut s r e := by
  have h := pstore_put_run s r e hk
  have hp : prePut s r e = s := by unfold prePut; rw [hk]; rfl
  simp only [runPStorePut] at h
  rw [finish_ret h, doPut_snd, hp]

end GenKernel
