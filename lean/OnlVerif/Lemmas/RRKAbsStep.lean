import OnlVerif.Lemmas.RRKAbs
/-!
# The RR scheduler on the kernel model: every configuration step keeps `AInv` and lowers the step bound
-/

set_option linter.unusedSimpArgs false

namespace RRK
open RROnK QEntry

/-! ## sums over the flows -/

theorem sumFrom_nonneg (c : Nat → Int) : ∀ (n f : Nat), (∀ j, f ≤ j → j < f + n → 0 ≤ c j) → 0 ≤ sumFrom c f n
  | 0, _, _ => le_refl _
  | n + 1, f, h => by
    have h1 := h f (Nat.le_refl _) (by omega)
    have h2 := sumFrom_nonneg c n (f + 1) (fun j a b => h j (by omega) (by omega))
    simp only [sumFrom]; omega

theorem sumFrom_zero (c : Nat → Int) : ∀ (n f : Nat), (∀ j, f ≤ j → j < f + n → 0 ≤ c j) → sumFrom c f n = 0 →
    ∀ j, f ≤ j → j < f + n → c j = 0
  | 0, _, _, _ => fun j a b => by omega
  | n + 1, f, h, hz => by
    have h1 := h f (Nat.le_refl _) (by omega)
    have h2 := sumFrom_nonneg c n (f + 1) (fun j a b => h j (by omega) (by omega))
    simp only [sumFrom] at hz
    intro j a b
    by_cases hj : j = f
    · subst hj; omega
    · exact sumFrom_zero c n (f + 1) (fun j a b => h j (by omega) (by omega)) (by omega) j (by omega) (by omega)

theorem sumFrom_all_zero (c : Nat → Int) : ∀ (n f : Nat), (∀ j, f ≤ j → j < f + n → c j = 0) → sumFrom c f n = 0
  | 0, _, _ => rfl
  | n + 1, f, h => by
    simp only [sumFrom, h f (Nat.le_refl _) (by omega),
      sumFrom_all_zero c n (f + 1) (fun j a b => h j (by omega) (by omega))]
    rfl

theorem waitingFrom_upd (items : Nat → List Int) (f : Nat) (l : List Int) : ∀ (n f0 : Nat), f0 ≤ f → f < f0 + n →
    waitingFrom (upd items f l) f0 n + (items f).length = waitingFrom items f0 n + l.length
  | 0, f0, h1, h2 => by omega
  | n + 1, f0, h1, h2 => by
    simp only [waitingFrom]
    by_cases hf : f0 = f
    · subst hf
      have : ∀ m g, f0 < g → waitingFrom (upd items f0 l) g m = waitingFrom items g m := by
        intro m
        induction m with
        | zero => intro g _; rfl
        | succ m ih => intro g hg; simp only [waitingFrom, upd_ne _ _ _ _ (Nat.ne_of_gt hg), ih (g + 1) (by omega)]
      rw [this n (f0 + 1) (by omega), upd_same]; omega
    · have := waitingFrom_upd items f l n (f0 + 1) (by omega) (by omega)
      rw [upd_ne _ _ _ _ hf]; omega

theorem waitingFrom_zero (items : Nat → List Int) : ∀ (n f0 : Nat), (∀ j, f0 ≤ j → j < f0 + n → items j = []) →
    waitingFrom items f0 n = 0
  | 0, _, _ => rfl
  | n + 1, f0, h => by
    simp only [waitingFrom, h f0 (Nat.le_refl _) (by omega),
      waitingFrom_zero items n (f0 + 1) (fun j a b => h j (by omega) (by omega)), List.length_nil]

/-! ## the scan -/

theorem firstHit_none (c : Nat → Int) : ∀ (fl : List Nat) (i : Nat), firstHit c i fl = none → ∀ f ∈ fl, ¬ 0 < c f
  | [], _, _ => fun f hf => by simp at hf
  | f0 :: rest, i, h => by
    intro f hf
    simp only [firstHit] at h
    by_cases hpos : 0 < c f0
    · simp [hpos] at h
    · simp only [hpos, if_false] at h
      rcases List.mem_cons.mp hf with rfl | hf
      · exact hpos
      · exact firstHit_none c rest (i + 1) h f hf

theorem firstHit_spec (c : Nat → Int) : ∀ (fl : List Nat) (i j f : Nat), firstHit c i fl = some (j, f) →
    i ≤ j ∧ fl[j - i]? = some f ∧ 0 < c f ∧ ∀ k, k < j - i → ∀ f', fl[k]? = some f' → ¬ 0 < c f'
  | [], _, _, _, h => by simp [firstHit] at h
  | f0 :: rest, i, j, f, h => by
    simp only [firstHit] at h
    by_cases hpos : 0 < c f0
    · simp only [hpos, if_true, Option.some.injEq, Prod.mk.injEq] at h
      obtain ⟨rfl, rfl⟩ := h
      refine ⟨le_refl _, by simp, hpos, ?_⟩
      intro k hk; omega
    · simp only [hpos, if_false] at h
      obtain ⟨hle, h1, h2, h3⟩ := firstHit_spec c rest (i + 1) j f h
      have hji : j - i = (j - (i + 1)) + 1 := by omega
      refine ⟨by omega, by rw [hji, List.getElem?_cons_succ]; exact h1, h2, ?_⟩
      intro k hk f' hk'
      cases k with
      | zero =>
        simp only [List.getElem?_cons_zero, Option.some.injEq] at hk'
        subst hk'
        exact hpos
      | succ k =>
        rw [List.getElem?_cons_succ] at hk'
        exact h3 k (by omega) f' hk'

theorem firstHit_isSome (c : Nat → Int) : ∀ (fl : List Nat) (i : Nat), (∃ f ∈ fl, 0 < c f) → firstHit c i fl ≠ none := by
  intro fl i ⟨f, hf, hpos⟩ hn
  exact firstHit_none c fl i hn f hf hpos

/-- a burst of `run` that goes idle has found `total_packets == 0` -/
theorem loop_idle_total {F : Nat} {a : A} {flows : List Nat} {i : Nat} (h : a.loop F flows i = .idle) : a.total F = 0 := by
  unfold A.loop at h
  cases h1 : firstHit a.cnt i (flows.drop i) with
  | some jf => rw [h1] at h; cases h
  | none =>
    rw [h1] at h
    simp only at h
    by_cases ht : a.total F = 0
    · exact ht
    · rw [if_neg ht] at h
      cases h2 : firstHit a.cnt 0 flows with
      | some jf => rw [h2] at h; cases h
      | none => rw [h2] at h; cases h

/-- a burst of `run` that takes a packet takes it from a backlogged entry of `flows` -/
theorem loop_hit_spec {F : Nat} {a : A} {flows : List Nat} {i j f : Nat} (h : a.loop F flows i = .hit j f) :
    flows[j]? = some f ∧ 0 < a.cnt f := by
  unfold A.loop at h
  cases h1 : firstHit a.cnt i (flows.drop i) with
  | some jf =>
    rw [h1] at h
    obtain ⟨j', f'⟩ := jf
    simp only [LoopEnd.hit.injEq] at h
    obtain ⟨rfl, rfl⟩ := h
    obtain ⟨hle, g1, g2, -⟩ := firstHit_spec _ _ _ _ _ h1
    rw [List.getElem?_drop] at g1
    exact ⟨by rw [← g1]; congr 1; omega, g2⟩
  | none =>
    rw [h1] at h
    simp only at h
    by_cases ht : a.total F = 0
    · rw [if_pos ht] at h; cases h
    · rw [if_neg ht] at h
      cases h2 : firstHit a.cnt 0 flows with
      | none => rw [h2] at h; cases h
      | some jf =>
        rw [h2] at h
        obtain ⟨j', f'⟩ := jf
        simp only [LoopEnd.hit.injEq] at h
        obtain ⟨rfl, rfl⟩ := h
        obtain ⟨-, g1, g2, -⟩ := firstHit_spec _ _ _ _ _ h2
        exact ⟨by simpa using g1, g2⟩

variable {F : Nat} {flow size : Int → Nat} {cfg : RR.Cfg ℚ}
variable {a : A} {now : ℚ} {q : QEntry ℚ}

/-- nothing held and nothing stored means `total_packets == 0` -/
theorem total_zero_of_empty (hi : AInv flow F cfg a now) (hh : a.run.held = none) (he : ∀ f, f < F → a.items f = []) :
    a.total F = 0 := by
  unfold A.total
  apply sumFrom_all_zero
  intro j _ hj
  rw [hi.cntOK j (by omega), he j (by omega)]
  simp [heldCnt, hh]

/-- `total_packets == 0` with nothing held means that every store is empty -/
theorem empty_of_total_zero (hi : AInv flow F cfg a now) (hh : a.run.held = none) (ht : a.total F = 0) :
    ∀ f, f < F → a.items f = [] := by
  intro f hf
  have hnn : ∀ j, 0 ≤ j → j < 0 + F → 0 ≤ a.cnt j := by
    intro j _ hj
    rw [hi.cntOK j (by omega)]
    simp only [heldCnt, hh]
    omega
  have := sumFrom_zero a.cnt F 0 hnn ht f (Nat.zero_le _) (by omega)
  rw [hi.cntOK f hf] at this
  simp only [heldCnt, hh] at this
  exact List.eq_nil_of_length_eq_zero (by omega)

/-- `total_packets` is positive while a packet is held -/
theorem total_pos_of_held (hi : AInv flow F cfg a now) {id : Int} (hh : a.run.held = some id) (hf : flow id < F) :
    a.total F ≠ 0 := by
  intro ht
  have hnn : ∀ j, 0 ≤ j → j < 0 + F → 0 ≤ a.cnt j := by
    intro j _ hj
    rw [hi.cntOK j (by omega)]
    simp only [heldCnt, hh]
    split <;> omega
  have := sumFrom_zero a.cnt F 0 hnn ht (flow id) (Nat.zero_le _) (by omega)
  rw [hi.cntOK _ hf] at this
  simp only [heldCnt, hh, if_true] at this
  omega

/-- the counters are not negative -/
theorem cnt_nonneg (hi : AInv flow F cfg a now) {f : Nat} (hf : f < F) : 0 ≤ a.cnt f := by
  rw [hi.cntOK f hf]
  unfold heldCnt
  split
  · split <;> omega
  · omega

/-- a declared flow is one of the `F` flows and conversely -/
theorem mem_flows (hi : AInv flow F cfg a now) (f : Nat) : f ∈ cfg.flows ↔ f < F := by
  rw [hi.table.mem_iff, List.mem_range]

/-- with every flow of the workload declared a pass that serves nothing means `total_packets == 0`: `run` never spins -/
theorem loop_not_hang (hi : AInv flow F cfg a now) (i : Nat) : a.loop F cfg.flows i ≠ .hang := by
  intro h
  unfold A.loop at h
  cases h1 : firstHit a.cnt i (cfg.flows.drop i) with
  | some jf => rw [h1] at h; cases h
  | none =>
    rw [h1] at h
    simp only at h
    by_cases ht : a.total F = 0
    · rw [if_pos ht] at h; cases h
    · rw [if_neg ht] at h
      cases h2 : firstHit a.cnt 0 cfg.flows with
      | some jf => rw [h2] at h; cases h
      | none =>
        apply ht
        unfold A.total
        apply sumFrom_all_zero
        intro j _ hj
        have hjF : j < F := by omega
        have := firstHit_none _ _ _ h2 j ((mem_flows hi j).mpr hjF)
        have := cnt_nonneg hi hjF
        omega

/-- a backlogged flow has been put: `stores` has its key (`assert store` holds) -/
theorem key_of_cnt (hi : AInv flow F cfg a now) : ∀ f, f < F → 0 < a.cnt f → f ∈ a.keys := by
  intro f hf hpos
  by_contra hk
  have := (hi.keysOK.2 f hf hk).2.1
  omega

/-- the store of a backlogged flow is not empty while `run` holds no packet -/
theorem items_of_cnt (hi : AInv flow F cfg a now) (hh : a.run.held = none) {f : Nat} (hf : f < F) (hpos : 0 < a.cnt f) :
    ∃ id is, a.items f = id :: is := by
  have := hi.cntOK f hf
  simp only [heldCnt, hh] at this
  cases hit : a.items f with
  | nil => rw [hit] at this; simp at this; omega
  | cons id is => exact ⟨id, is, rfl⟩

/-! ## entries of the new configuration -/

theorem due_of_run (hi : AInv flow F cfg a q.time) (a' : A) (hsrc : a'.src = a.src) (hpend : a'.pend = a.pend)
    (hrun : ∀ x ∈ a'.run.entries, q.time ≤ x.time) : ∀ x ∈ a'.entries, q.time ≤ x.time := by
  intro x hx
  simp only [A.entries, List.mem_append] at hx
  rcases hx with hx | hx | hx
  · exact hrun x hx
  · exact hi.due x (mem_src (hsrc ▸ hx))
  · rw [hpend] at hx
    exact hi.due x (by simp [A.entries, hx])

theorem heldCnt_congr {a a' : A} (h : a'.run.held = a.run.held) (f : Nat) : heldCnt flow a' f = heldCnt flow a f := by
  simp [heldCnt, h]

/-- a step of the server that changes neither the stores nor the counters nor the packet it holds -/
theorem ainv_run_only (hi : AInv flow F cfg a q.time) (r : RPhase) (c : Option Int)
    (hr : RunA flow F cfg { a with run := r, cur := c } q.time r) (hh : r.held = a.run.held)
    (hdue : ∀ x ∈ r.entries, q.time ≤ x.time) :
    AInv flow F cfg { a with run := r, cur := c } q.time :=
  ⟨hr, hi.src, hi.pend, due_of_run hi _ rfl rfl hdue,
   fun f hf => by rw [heldCnt_congr (flow := flow) (a' := { a with run := r, cur := c }) (a := a) hh]; exact hi.cntOK f hf,
   hi.flowOK, hi.keysOK, hi.table, hi.rate⟩

variable {n e : Nat} {arr : List (ℚ × Int)}

/-- where the source goes next: the invariant of the new phase and its entry -/
theorem srcNext_ok (hw : WorkOK flow F arr) (t : ℚ) (eid ev : Nat) :
    SrcA flow F t (srcNext t eid ev arr) ∧ (∀ x ∈ (srcNext t eid ev arr).entries, t ≤ x.time) ∧
    (srcNext t eid ev arr).mu ≤ 10 * arr.length + 1 := by
  cases arr with
  | nil => exact ⟨⟨rfl, rfl⟩, by simp [srcNext, SPhase.entries], by simp [srcNext, SPhase.mu]⟩
  | cons x r =>
    obtain ⟨gap, id⟩ := x
    have h1 := hw (gap, id) (by simp)
    refine ⟨⟨rfl, h1.2, fun y hy => hw y (List.mem_cons_of_mem _ hy)⟩, ?_, by simp [srcNext, SPhase.mu]; omega⟩
    simp only [srcNext, SPhase.entries, List.mem_singleton]
    rintro y rfl
    show t ≤ t + gap
    linarith [h1.1]

theorem due_of_src (hi : AInv flow F cfg a q.time) (a' : A) (hrun : a'.run = a.run)
    (hsrc : ∀ x ∈ a'.src.entries, q.time ≤ x.time)
    (hpend : ∀ u ∈ a'.pend, u ∈ a.pend ∨ u.1.time = q.time) : ∀ x ∈ a'.entries, q.time ≤ x.time := by
  intro x hx
  simp only [A.entries, List.mem_append, pendEntries, List.mem_map] at hx
  rcases hx with hx | hx | ⟨u, hu, rfl⟩
  · exact hi.due x (mem_run (hrun ▸ hx))
  · exact hsrc x hx
  · rcases hpend u hu with h | h
    · exact hi.due _ (mem_pend h)
    · rw [h]

/-- the invariant after a `put` (`tk` = a wake-up token was posted) -/
theorem ainv_put (hi : AInv flow F cfg a q.time) (hq : IsMin a q) {id : Int} {arr : List (ℚ × Int)}
    (h : a.src = .wait id arr q) (tk : Bool) (htk : tk = true ↔ a.total F = 0) (src' : SPhase)
    (hsrc' : SrcA flow F q.time src' ∧ ∀ x ∈ src'.entries, q.time ≤ x.time)
    (new : List (QEntry ℚ × ResId)) (hnew : ∀ u ∈ new, u.1.time = q.time ∧ u.1.prio = NORMAL)
    (hnewt : tk = true → ∃ u, (u, 0) ∈ new) :
    AInv flow F cfg { a with
        src := src'
        pend := a.pend ++ new
        tokens := a.tokens + (if tk then 1 else 0)
        items := upd a.items (flow id) (a.items (flow id) ++ [id])
        cnt := upd a.cnt (flow id) (a.cnt (flow id) + 1)
        byt := upd a.byt (flow id) (a.byt (flow id) + (size id : Int))
        recv := a.recv + 1
        keys := addKey a.keys (flow id) } q.time := by
  have hs := hi.src
  rw [h] at hs
  obtain ⟨hqp, hfid, hw⟩ := hs
  have hrun := hi.run
  refine ⟨?_, hsrc'.1, ?_, due_of_src hi _ rfl hsrc'.2 ?_, ?_, ?_, ?_, hi.table, hi.rate⟩
  · cases hr : a.run with
    | init q0 =>
      rw [hr] at hrun
      exact (hi.not_prio_lt hq (mem_run (by simp [hr, RPhase.entries])) hrun.1 (by rw [hrun.2.1, hqp]; decide)).elim
    | W g =>
      rw [hr] at hrun
      refine ⟨?_, ?_, hrun.2.2⟩
      · intro h0
        dsimp only at h0
        have htk0 : a.tokens = 0 := by omega
        have hall := hrun.1 htk0
        have : a.total F = 0 := total_zero_of_empty hi (by simp [hr, RPhase.held]) hall
        have : tk = true := htk.mpr this
        simp [this] at h0
      · intro h0
        dsimp only at h0 ⊢
        by_cases hk : tk = true
        · obtain ⟨u, hu⟩ := hnewt hk
          exact ⟨u, List.mem_append_right _ hu⟩
        · have : a.tokens ≠ 0 := by simpa [hk] using h0
          obtain ⟨u, hu⟩ := hrun.2.1 this
          exact ⟨u, List.mem_append_left _ hu⟩
    | K g q0 => rw [hr] at hrun; exact hrun
    | H g i id0 q0 => rw [hr] at hrun; exact hrun
    | S p i0 id0 q0 => rw [hr] at hrun; exact hrun
    | T p t i0 id0 q0 => rw [hr] at hrun; exact hrun
    | F p i0 id0 q0 => rw [hr] at hrun; exact hrun
  · intro u hu
    rcases List.mem_append.mp hu with hu | hu
    · exact hi.pend u hu
    · exact hnew u hu
  · intro u hu
    rcases List.mem_append.mp hu with hu | hu
    · exact Or.inl hu
    · exact Or.inr (hnew u hu).1
  · intro f hf
    have := hi.cntOK f hf
    show upd a.cnt (flow id) (a.cnt (flow id) + 1) f = ((upd a.items (flow id) (a.items (flow id) ++ [id]) f).length : Nat) + heldCnt flow a f
    by_cases hff : f = flow id
    · subst hff
      rw [upd_same, upd_same, this]
      simp only [List.length_append, List.length_singleton]; push_cast; ring
    · rw [upd_ne _ _ _ _ hff, upd_ne _ _ _ _ hff, this]
  · intro f hf x hx
    dsimp only at hx
    by_cases hff : f = flow id
    · subst hff
      rw [upd_same] at hx
      rcases List.mem_append.mp hx with hx | hx
      · exact hi.flowOK _ hf x hx
      · simp only [List.mem_singleton] at hx; rw [hx]
    · rw [upd_ne _ _ _ _ hff] at hx
      exact hi.flowOK f hf x hx
  · refine ⟨?_, ?_⟩
    · intro f hf
      rcases (mem_addKey _ _ _).mp hf with hf | rfl
      · exact hi.keysOK.1 f hf
      · exact hfid
    · intro f hf hk
      dsimp only at hk ⊢
      have hk' : f ∉ a.keys ∧ f ≠ flow id := by
        constructor
        · intro h1; exact hk ((mem_addKey _ _ _).mpr (Or.inl h1))
        · intro h1; exact hk ((mem_addKey _ _ _).mpr (Or.inr h1))
      obtain ⟨h1, h2, h3⟩ := hi.keysOK.2 f hf hk'.1
      rw [upd_ne _ _ _ _ hk'.2, upd_ne _ _ _ _ hk'.2, upd_ne _ _ _ _ hk'.2]
      exact ⟨h1, h2, h3⟩


/-- the server takes the head of `stores[f]` (after a wake-up or after a transmission) -/
theorem ainv_hit (hi : AInv flow F cfg a q.time) {i f : Nat} {id : Int} {is : List Int} (hh : a.run.held = none)
    (hcur : a.cur = none) (hf : f < F) (hit : a.items f = id :: is) (hpos : cfg.flows[i]? = some f) :
    AInv flow F cfg { a with run := .H n i id ⟨q.time, NORMAL, e, n⟩, items := upd a.items f is } q.time := by
  have hfl : flow id = f := hi.flowOK f hf id (by rw [hit]; simp)
  refine ⟨⟨rfl, rfl, hcur, hfl ▸ hf, hfl ▸ hpos⟩, hi.src, hi.pend, due_of_run hi _ rfl rfl ?_, ?_, ?_, ?_, hi.table, hi.rate⟩
  · intro x hx
    simp only [RPhase.entries, List.mem_singleton] at hx
    rw [hx]
  · intro f' hf'
    have := hi.cntOK f' hf'
    simp only [heldCnt, hh] at this
    simp only [heldCnt, RPhase.held, hfl]
    by_cases hff : f' = f
    · subst hff
      simp only [upd_same, if_true]
      rw [this, hit]
      simp only [List.length_cons]; push_cast; ring
    · rw [upd_ne _ _ _ _ hff, if_neg (Ne.symm hff), this]
  · intro f' hf' x hx
    dsimp only at hx
    by_cases hff : f' = f
    · subst hff
      rw [upd_same] at hx
      exact hi.flowOK f' hf' x (by rw [hit]; exact List.mem_cons_of_mem _ hx)
    · rw [upd_ne _ _ _ _ hff] at hx
      exact hi.flowOK f' hf' x hx
  · refine ⟨hi.keysOK.1, ?_⟩
    intro f' hf' hk
    obtain ⟨h1, h2, h3⟩ := hi.keysOK.2 f' hf' hk
    have hff : f' ≠ f := by rintro rfl; rw [hit] at h1; cases h1
    exact ⟨by dsimp only; rw [upd_ne _ _ _ _ hff]; exact h1, h2, h3⟩

theorem mu_hit {i f : Nat} {id : Int} {is : List Int} (hf : f < F) (hit : a.items f = id :: is) (r : RPhase)
    (hr : r.mu = 1) (hrun : a.run = r) :
    ({ a with run := RPhase.H n i id ⟨q.time, NORMAL, e, n⟩, items := upd a.items f is } : A).mu F + 1 ≤ a.mu F := by
  have := waitingFrom_upd a.items f is F 0 (Nat.zero_le _) (by omega)
  rw [hit, List.length_cons] at this
  rw [← hrun] at hr
  have h4 : (RPhase.H n i id ⟨q.time, NORMAL, e, n⟩).mu = 4 := rfl
  simp only [A.mu, h4, hr]
  omega

/-- **every configuration step is sound**: it keeps `AInv` and lowers the bound on the steps still to come -/
theorem astep_sound {a' : A} {new : List (HEv ℚ)} (hi0 : AInv flow F cfg a now) (hq : IsMin a q)
    (hs : AStep F flow size cfg n e a q a' new) : AInv flow F cfg a' q.time ∧ a'.mu F + 1 ≤ a.mu F := by
  have hi := hi0.advance hq
  have hrun := hi.run
  cases hs with
  | runInit h =>
    rw [h] at hrun
    obtain ⟨-, -, htk, hpe, hit, hcn, hcur, -⟩ := hrun
    refine ⟨ainv_run_only (c := a.cur) hi (.W n) ⟨fun _ f _ => hit f, fun h0 => absurd htk h0, hcur⟩ (by simp [RPhase.held, h])
      (by simp [RPhase.entries]), ?_⟩
    simp only [A.mu, RPhase.mu, h]; omega
  | wakeHit g j f id is h hs hf hit =>
    rw [h] at hrun
    exact ⟨ainv_hit hi (by simp [h, RPhase.held]) hrun.2.2 hf hit (loop_hit_spec hs).1, mu_hit hf hit _ rfl h⟩
  | wakeBlock g h hs htk =>
    rw [h] at hrun
    refine ⟨ainv_run_only (c := a.cur) hi (.W n)
      ⟨fun _ f hf => empty_of_total_zero (a := a) hi (by simp [h, RPhase.held]) (loop_idle_total hs) f hf,
        fun h0 => absurd htk h0, hrun.2.2⟩
      (by simp [RPhase.held, h]) (by simp [RPhase.entries]), ?_⟩
    simp only [A.mu, RPhase.mu, h]; omega
  | wakeTok g t h hs htk =>
    rw [h] at hrun
    have hi' : AInv flow F cfg { a with run := .K n ⟨q.time, NORMAL, e, n⟩, cur := a.cur } q.time :=
      ainv_run_only (c := a.cur) hi (.K n ⟨q.time, NORMAL, e, n⟩) ⟨rfl, rfl, hrun.2.2⟩ (by simp [RPhase.held, h])
        (by simp [RPhase.entries])
    refine ⟨⟨hi'.run, hi'.src, hi'.pend, hi'.due, hi'.cntOK, hi'.flowOK, hi'.keysOK, hi'.table, hi'.rate⟩, ?_⟩
    simp only [A.mu, RPhase.mu, h, htk]; omega
  | pktResume g i id h =>
    rw [h] at hrun
    refine ⟨ainv_run_only (c := a.cur) hi (.S n i id ⟨q.time, URGENT, e, n + 1⟩) ⟨rfl, rfl, hrun.2.2.1, hrun.2.2.2.1⟩
      (by simp [RPhase.held, h]) (by simp [RPhase.entries]), ?_⟩
    simp only [A.mu, RPhase.mu, h]; omega
  | sendInit p i id h =>
    rw [h] at hrun
    have hd := txTime_nonneg (size := size) hi.rate id
    refine ⟨ainv_run_only hi (.T p n i id ⟨q.time + txTime size cfg.rate id, NORMAL, e, n⟩) (some id) ⟨rfl, rfl, hrun.2.2.2⟩
      (by simp [RPhase.held, h]) (by simp only [RPhase.entries, List.mem_singleton]; rintro x rfl; show q.time ≤ q.time + _; linarith), ?_⟩
    simp only [A.mu, RPhase.mu, h]; omega
  | sendFire p t i id h =>
    rw [h] at hrun
    obtain ⟨-, hcur, hfid⟩ := hrun
    have hheld : a.run.held = some id := by simp [h, RPhase.held]
    refine ⟨⟨⟨rfl, rfl, rfl⟩, hi.src, hi.pend, due_of_run hi _ rfl rfl (by simp [RPhase.entries]), ?_, hi.flowOK, ?_,
      hi.table, hi.rate⟩, ?_⟩
    · intro f hf
      have := hi.cntOK f hf
      simp only [heldCnt, hheld] at this
      simp only [heldCnt, RPhase.held]
      by_cases hff : f = flow id
      · subst hff
        rw [upd_same, this]; simp
      · rw [upd_ne _ _ _ _ hff, this, if_neg (Ne.symm hff)]
    · refine ⟨hi.keysOK.1, ?_⟩
      intro f hf hk
      obtain ⟨h1, h2, h3⟩ := hi.keysOK.2 f hf hk
      have hff : f ≠ flow id := by
        rintro rfl
        have := hi.cntOK _ hf
        simp only [heldCnt, hheld, if_true] at this
        omega
      exact ⟨h1, by dsimp only; rw [upd_ne _ _ _ _ hff]; exact h2, by dsimp only; rw [upd_ne _ _ _ _ hff]; exact h3⟩
    · simp only [A.mu, RPhase.mu, h]; omega
  | doneHit p i id0 j f id is h hs hf hit =>
    rw [h] at hrun
    exact ⟨ainv_hit hi (by simp [h, RPhase.held]) hrun.2.2 hf hit (loop_hit_spec hs).1, mu_hit hf hit _ rfl h⟩
  | doneBlock p i id0 h hs htk =>
    rw [h] at hrun
    refine ⟨ainv_run_only (c := a.cur) hi (.W n)
      ⟨fun _ f hf => empty_of_total_zero (a := a) hi (by simp [h, RPhase.held]) (loop_idle_total hs) f hf,
        fun h0 => absurd htk h0, hrun.2.2⟩
      (by simp [RPhase.held, h]) (by simp [RPhase.entries]), ?_⟩
    simp only [A.mu, RPhase.mu, h]; omega
  | doneTok p i id0 t h hs htk =>
    rw [h] at hrun
    have hi' : AInv flow F cfg { a with run := .K n ⟨q.time, NORMAL, e, n⟩, cur := a.cur } q.time :=
      ainv_run_only (c := a.cur) hi (.K n ⟨q.time, NORMAL, e, n⟩) ⟨rfl, rfl, hrun.2.2⟩ (by simp [RPhase.held, h])
        (by simp [RPhase.entries])
    refine ⟨⟨hi'.run, hi'.src, hi'.pend, hi'.due, hi'.cntOK, hi'.flowOK, hi'.keysOK, hi'.table, hi'.rate⟩, ?_⟩
    simp only [A.mu, RPhase.mu, h, htk]; omega
  | srcInit arr h =>
    have hs := hi.src
    rw [h] at hs
    obtain ⟨h1, h2, h3⟩ := srcNext_ok hs.2.2 q.time e n
    refine ⟨⟨hi.run, h1, hi.pend, due_of_src hi _ rfl h2 (fun u hu => Or.inl hu), hi.cntOK, hi.flowOK, hi.keysOK,
      hi.table, hi.rate⟩, ?_⟩
    have hm : (SPhase.init q arr).mu = 10 * arr.length + 2 := rfl
    simp only [A.mu, h, hm]
    omega
  | srcPutTok id arr h htot =>
    have hs := hi.src
    rw [h] at hs
    obtain ⟨h1, h2, h3⟩ := srcNext_ok hs.2.2 q.time (e + 1 + 1) (n + 1 + 1)
    have := ainv_put (size := size) hi hq h true (by simp [htot]) _ ⟨h1, h2⟩
      [(⟨q.time, NORMAL, e, n⟩, 0), (⟨q.time, NORMAL, e + 1, n + 1⟩, flowStore (flow id))]
      (by intro u hu; simp only [List.mem_cons, List.not_mem_nil, or_false] at hu; rcases hu with rfl | rfl <;> exact ⟨rfl, rfl⟩)
      (fun _ => ⟨_, List.mem_cons_self⟩)
    refine ⟨this, ?_⟩
    have hw := waitingFrom_upd a.items (flow id) (a.items (flow id) ++ [id]) F 0 (Nat.zero_le _) (by have := hs.2.1; unfold PktOK at this; omega)
    simp only [List.length_append, List.length_singleton] at hw
    have hm : (SPhase.wait id arr q).mu = 10 * arr.length + 11 := rfl
    simp only [A.mu, h, hm, List.length_append, List.length_cons, List.length_nil]
    omega
  | srcPutPlain id arr h htot =>
    have hs := hi.src
    rw [h] at hs
    obtain ⟨h1, h2, h3⟩ := srcNext_ok hs.2.2 q.time (e + 1) (n + 1)
    have := ainv_put (size := size) hi hq h false (by simp [htot]) _ ⟨h1, h2⟩
      [(⟨q.time, NORMAL, e, n⟩, flowStore (flow id))]
      (by intro u hu; simp only [List.mem_cons, List.not_mem_nil, or_false] at hu; rw [hu]; exact ⟨rfl, rfl⟩)
      (fun h0 => by cases h0)
    simp only [Bool.false_eq_true, if_false, Nat.add_zero] at this
    refine ⟨this, ?_⟩
    have hw := waitingFrom_upd a.items (flow id) (a.items (flow id) ++ [id]) F 0 (Nat.zero_le _) (by have := hs.2.1; unfold PktOK at this; omega)
    simp only [List.length_append, List.length_singleton] at hw
    have hm : (SPhase.wait id arr q).mu = 10 * arr.length + 11 := rfl
    simp only [A.mu, h, hm, List.length_append, List.length_cons, List.length_nil]
    omega
  | srcEnd h =>
    refine ⟨⟨hi.run, trivial, hi.pend, due_of_src hi _ rfl (by simp [SPhase.entries]) (fun u hu => Or.inl hu), hi.cntOK,
      hi.flowOK, hi.keysOK, hi.table, hi.rate⟩, ?_⟩
    have hm : (SPhase.ending q).mu = 1 := rfl
    have hm' : SPhase.done.mu = 0 := rfl
    simp only [A.mu, h, hm, hm']
    omega
  | pendNoop r l1 l2 hpe hno =>
    have hsub : ∀ u ∈ l1 ++ l2, u ∈ a.pend := by
      intro u hu
      rw [hpe]
      rcases List.mem_append.mp hu with h | h
      · exact List.mem_append_left _ h
      · exact List.mem_append_right _ (List.mem_cons_of_mem _ h)
    refine ⟨⟨?_, hi.src, fun u hu => hi.pend u (hsub u hu),
      due_of_src hi _ rfl (fun x hx => hi.due x (mem_src hx)) (fun u hu => Or.inl (hsub u hu)), hi.cntOK, hi.flowOK,
      hi.keysOK, hi.table, hi.rate⟩, ?_⟩
    · cases hr : a.run with
      | init q0 =>
        rw [hr] at hrun
        rw [hrun.2.2.2.1] at hpe
        simp at hpe
      | W g =>
        rw [hr] at hrun
        refine ⟨hrun.1, ?_, hrun.2.2⟩
        intro h0
        obtain ⟨u, hu⟩ := hrun.2.1 h0
        rw [hpe] at hu
        rcases List.mem_append.mp hu with h1 | h1
        · exact ⟨u, List.mem_append_left _ h1⟩
        · rcases List.mem_cons.mp h1 with h1 | h1
          · exfalso
            have : r = 0 := by cases h1; rfl
            exact hno ⟨this, h0, g, hr⟩
          · exact ⟨u, List.mem_append_right _ h1⟩
      | K g q0 => rw [hr] at hrun; exact hrun
      | H g i id0 q0 => rw [hr] at hrun; exact hrun
      | S p i0 id0 q0 => rw [hr] at hrun; exact hrun
      | T p t i0 id0 q0 => rw [hr] at hrun; exact hrun
      | F p i0 id0 q0 => rw [hr] at hrun; exact hrun
    · simp only [A.mu, hpe, List.length_append, List.length_cons]
      omega
  | pendHand g t l1 l2 hpe h htk =>
    have hsub : ∀ u ∈ l1 ++ l2, u ∈ a.pend := by
      intro u hu
      rw [hpe]
      rcases List.mem_append.mp hu with h | h
      · exact List.mem_append_left _ h
      · exact List.mem_append_right _ (List.mem_cons_of_mem _ h)
    rw [h] at hrun
    refine ⟨⟨⟨rfl, rfl, hrun.2.2⟩, hi.src, fun u hu => hi.pend u (hsub u hu), ?_, ?_, hi.flowOK,
      hi.keysOK, hi.table, hi.rate⟩, ?_⟩
    · intro x hx
      simp only [A.entries, List.mem_append, pendEntries, List.mem_map, RPhase.entries, List.mem_singleton] at hx
      rcases hx with rfl | hx | ⟨u, hu, rfl⟩
      · exact le_refl _
      · exact hi.due x (mem_src hx)
      · exact hi.due _ (mem_pend (hsub u (List.mem_append.mpr hu)))
    · intro f hf
      have := hi.cntOK f hf
      simp only [heldCnt, h, RPhase.held] at this ⊢
      exact this
    · simp only [A.mu, h, hpe, htk, RPhase.mu, List.length_append, List.length_cons]
      omega

end RRK
