import Mathlib.Tactic.Linarith
import Mathlib.Data.List.Basic
import OnlVerif.Tcp.Sink
/-!
# Lemmas about the TCPSink receive buffer

Specification vocabulary (independent of sorting and merging): a byte `b` is *covered* by a list of ranges if
some range contains it; `n` is the *length of the contiguous prefix* if every byte below `n` is covered and
byte `n` is not.  The buffer invariant `Sep`: every range is well-formed (`start ≤ end`) and for any two ranges
in list order the earlier one ends strictly before the later one starts (sorted and non-touching).
-/

namespace TcpSink

/-- byte `b` lies in some range of `rs` -/
def Covers (rs : List Range) (b : Nat) : Prop := ∃ r ∈ rs, r.1 ≤ b ∧ b < r.2

/-- `n` is the length of the contiguous prefix `[0, n)` of the union of `rs` (the greatest `n` with every byte below
it covered: bytes `< n` are covered and byte `n` is not) -/
def IsPrefix (rs : List Range) (n : Nat) : Prop := (∀ b, b < n → Covers rs b) ∧ ¬ Covers rs n

/-- sorted, pairwise non-touching, well-formed -/
def Sep (l : List Range) : Prop := (∀ r ∈ l, r.1 ≤ r.2) ∧ l.Pairwise (fun a b => a.2 < b.1)

/-- the byte ranges of a sequence of `(seq, size)` arrivals -/
def rangesOf (arr : List (Nat × Nat)) : List Range := arr.map fun p => (p.1, p.1 + p.2)

theorem covers_nil (b : Nat) : ¬ Covers [] b := by rintro ⟨r, hr, _⟩; simp at hr

theorem covers_cons (r : Range) (l : List Range) (b : Nat) :
    Covers (r :: l) b ↔ (r.1 ≤ b ∧ b < r.2) ∨ Covers l b := by
  unfold Covers; simp

theorem covers_append (l₁ l₂ : List Range) (b : Nat) : Covers (l₁ ++ l₂) b ↔ Covers l₁ b ∨ Covers l₂ b := by
  unfold Covers
  constructor
  · rintro ⟨r, hr, h⟩
    rcases List.mem_append.mp hr with h1 | h1
    · exact Or.inl ⟨r, h1, h⟩
    · exact Or.inr ⟨r, h1, h⟩
  · rintro (⟨r, hr, h⟩ | ⟨r, hr, h⟩)
    · exact ⟨r, List.mem_append.mpr (Or.inl hr), h⟩
    · exact ⟨r, List.mem_append.mpr (Or.inr hr), h⟩

/-- coverage depends on membership only -/
theorem covers_of_mem_iff {l₁ l₂ : List Range} (h : ∀ x, x ∈ l₁ ↔ x ∈ l₂) (b : Nat) : Covers l₁ b ↔ Covers l₂ b := by
  unfold Covers
  constructor <;> rintro ⟨r, hr, hb⟩
  · exact ⟨r, (h r).mp hr, hb⟩
  · exact ⟨r, (h r).mpr hr, hb⟩

theorem isPrefix_congr {l₁ l₂ : List Range} (h : ∀ b, Covers l₁ b ↔ Covers l₂ b) (n : Nat) :
    IsPrefix l₁ n ↔ IsPrefix l₂ n := by
  unfold IsPrefix
  constructor
  · rintro ⟨h1, h2⟩; exact ⟨fun b hb => (h b).mp (h1 b hb), fun hc => h2 ((h n).mpr hc)⟩
  · rintro ⟨h1, h2⟩; exact ⟨fun b hb => (h b).mpr (h1 b hb), fun hc => h2 ((h n).mp hc)⟩

/-- the prefix length is unique -/
theorem isPrefix_unique {l : List Range} {n m : Nat} (hn : IsPrefix l n) (hm : IsPrefix l m) : n = m := by
  rcases Nat.lt_trichotomy n m with h | h | h
  · exact absurd (hm.1 n h) hn.2
  · exact h
  · exact absurd (hn.1 m h) hm.2

/-- more coverage, longer (or equal) prefix -/
theorem isPrefix_mono {l₁ l₂ : List Range} {n m : Nat} (hn : IsPrefix l₁ n) (hm : IsPrefix l₂ m)
    (h : ∀ b, Covers l₁ b → Covers l₂ b) : n ≤ m := by
  by_contra hlt
  exact hm.2 (h m (hn.1 m (Nat.lt_of_not_le hlt)))

/-! ## sorting -/

theorem mem_insertR (r x : Range) (l : List Range) : x ∈ insertR r l ↔ x = r ∨ x ∈ l := by
  induction l with
  | nil => simp [insertR]
  | cons y ys ih =>
    unfold insertR
    split
    · simp
    · simp only [List.mem_cons, ih]
      constructor
      · rintro (h | h | h)
        · exact Or.inr (Or.inl h)
        · exact Or.inl h
        · exact Or.inr (Or.inr h)
      · rintro (h | h | h)
        · exact Or.inr (Or.inl h)
        · exact Or.inl h
        · exact Or.inr (Or.inr h)

theorem mem_sortR (x : Range) (l : List Range) : x ∈ sortR l ↔ x ∈ l := by
  induction l with
  | nil => simp [sortR]
  | cons y ys ih =>
    show x ∈ insertR y (sortR ys) ↔ _
    rw [mem_insertR, ih]; simp

theorem leR_start {a b : Range} (h : leR a b = true) : a.1 ≤ b.1 := by
  unfold leR at h
  simp only [Bool.or_eq_true, Bool.and_eq_true, decide_eq_true_eq, beq_iff_eq] at h
  rcases h with h | ⟨h, _⟩
  · exact Nat.le_of_lt h
  · exact Nat.le_of_eq h

theorem not_leR_start {a b : Range} (h : ¬ leR a b = true) : b.1 ≤ a.1 := by
  unfold leR at h
  simp only [Bool.or_eq_true, Bool.and_eq_true, decide_eq_true_eq, beq_iff_eq, not_or, not_and, not_lt] at h
  exact h.1

/-- sorted by start -/
def StartSorted (l : List Range) : Prop := l.Pairwise (fun a b => a.1 ≤ b.1)

theorem insertR_sorted (r : Range) (l : List Range) (h : StartSorted l) : StartSorted (insertR r l) := by
  induction l with
  | nil => simp [insertR, StartSorted]
  | cons y ys ih =>
    unfold StartSorted at h ⊢
    have hy := List.pairwise_cons.mp h
    unfold insertR
    split
    · rename_i hle
      refine List.pairwise_cons.mpr ⟨?_, h⟩
      intro x hx
      rcases List.mem_cons.mp hx with rfl | hx
      · exact leR_start hle
      · exact Nat.le_trans (leR_start hle) (hy.1 x hx)
    · rename_i hle
      refine List.pairwise_cons.mpr ⟨?_, ih hy.2⟩
      intro x hx
      rcases (mem_insertR r x ys).mp hx with rfl | hx
      · exact not_leR_start hle
      · exact hy.1 x hx

theorem sortR_sorted (l : List Range) : StartSorted (sortR l) := by
  induction l with
  | nil => simp [sortR, StartSorted]
  | cons y ys ih => exact insertR_sorted y _ ih

/-! ## merging -/

theorem mergeFrom_spec (rest : List Range) : ∀ (cur : Range), cur.1 ≤ cur.2 → (∀ r ∈ rest, r.1 ≤ r.2) →
    (∀ r ∈ rest, cur.1 ≤ r.1) → StartSorted rest →
    (∀ b, Covers (mergeFrom cur rest) b ↔ (cur.1 ≤ b ∧ b < cur.2) ∨ Covers rest b) ∧
    Sep (mergeFrom cur rest) ∧ (∀ x ∈ mergeFrom cur rest, cur.1 ≤ x.1) := by
  induction rest with
  | nil =>
    intro cur h1 _ _ _
    refine ⟨fun b => ?_, ⟨?_, ?_⟩, ?_⟩
    · simp [mergeFrom, covers_cons, covers_nil]
    · intro r hr; simp [mergeFrom] at hr; subst hr; exact h1
    · simp [mergeFrom]
    · intro x hx; simp [mergeFrom] at hx; subst hx; exact Nat.le_refl _
  | cons r rest ih =>
    intro cur h1 h2 h3 h4
    have hs := List.pairwise_cons.mp h4
    have hr12 : r.1 ≤ r.2 := h2 r List.mem_cons_self
    have hcr : cur.1 ≤ r.1 := h3 r List.mem_cons_self
    unfold mergeFrom
    split
    · rename_i htouch
      have := ih (cur.1, max cur.2 r.2) (Nat.le_trans h1 (Nat.le_max_left _ _))
        (fun x hx => h2 x (List.mem_cons_of_mem _ hx)) (fun x hx => h3 x (List.mem_cons_of_mem _ hx)) hs.2
      obtain ⟨c, s, m⟩ := this
      refine ⟨fun b => ?_, s, m⟩
      rw [c b, covers_cons]
      simp only
      constructor
      · rintro (⟨ha, hb⟩ | h)
        · by_cases hb2 : b < cur.2
          · exact Or.inl ⟨ha, hb2⟩
          · have : b < r.2 := by
              rcases Nat.lt_or_ge b r.2 with h | h
              · exact h
              · exact absurd (Nat.max_le.mpr ⟨Nat.le_of_not_lt hb2, h⟩) (Nat.not_le_of_lt hb)
            exact Or.inr (Or.inl ⟨Nat.le_trans htouch (Nat.le_of_not_lt hb2), this⟩)
        · exact Or.inr (Or.inr h)
      · rintro (⟨ha, hb⟩ | ⟨ha, hb⟩ | h)
        · exact Or.inl ⟨ha, Nat.lt_of_lt_of_le hb (Nat.le_max_left _ _)⟩
        · exact Or.inl ⟨Nat.le_trans hcr ha, Nat.lt_of_lt_of_le hb (Nat.le_max_right _ _)⟩
        · exact Or.inr h
    · rename_i hgap
      have hgap' : cur.2 < r.1 := Nat.lt_of_not_le hgap
      obtain ⟨c, s, m⟩ := ih r hr12 (fun x hx => h2 x (List.mem_cons_of_mem _ hx)) hs.1 hs.2
      refine ⟨fun b => ?_, ⟨?_, ?_⟩, ?_⟩
      · rw [covers_cons, c b, covers_cons]
      · intro x hx
        rcases List.mem_cons.mp hx with rfl | hx
        · exact h1
        · exact s.1 x hx
      · refine List.pairwise_cons.mpr ⟨?_, s.2⟩
        intro x hx
        exact Nat.lt_of_lt_of_le hgap' (m x hx)
      · intro x hx
        rcases List.mem_cons.mp hx with rfl | hx
        · exact Nat.le_refl _
        · exact Nat.le_trans hcr (m x hx)

theorem mergeAll_spec (l : List Range) (hwf : ∀ r ∈ l, r.1 ≤ r.2) (hs : StartSorted l) :
    (∀ b, Covers (mergeAll l) b ↔ Covers l b) ∧ Sep (mergeAll l) := by
  cases l with
  | nil => exact ⟨fun b => Iff.rfl, ⟨fun r hr => by simp [mergeAll] at hr, by simp [mergeAll]⟩⟩
  | cons r rest =>
    have hp := List.pairwise_cons.mp hs
    obtain ⟨c, s, _⟩ := mergeFrom_spec rest r (hwf r List.mem_cons_self)
      (fun x hx => hwf x (List.mem_cons_of_mem _ hx)) hp.1 hp.2
    exact ⟨fun b => by rw [show mergeAll (r :: rest) = mergeFrom r rest from rfl, c b, covers_cons], s⟩

/-- **`packet_arrived` keeps the buffer sorted and non-touching and adds exactly the bytes of the packet.** -/
theorem packetArrived_spec (buf : List Range) (seq size : Nat) (h : Sep buf) :
    Sep (packetArrived buf seq size) ∧
    ∀ b, Covers (packetArrived buf seq size) b ↔ Covers buf b ∨ (seq ≤ b ∧ b < seq + size) := by
  have hwf : ∀ r ∈ sortR (buf ++ [(seq, seq + size)]), r.1 ≤ r.2 := by
    intro r hr
    rcases List.mem_append.mp ((mem_sortR r _).mp hr) with h1 | h1
    · exact h.1 r h1
    · simp at h1; subst h1; exact Nat.le_add_right _ _
  obtain ⟨c, s⟩ := mergeAll_spec _ hwf (sortR_sorted _)
  refine ⟨s, fun b => ?_⟩
  unfold packetArrived
  rw [c b, covers_of_mem_iff (mem_sortR · _) b, covers_append, covers_cons]
  simp [covers_nil]

theorem mergeFrom_ne_nil (l : List Range) : ∀ c : Range, mergeFrom c l ≠ [] := by
  induction l with
  | nil => intro c; simp [mergeFrom]
  | cons y ys ih =>
    intro c; unfold mergeFrom; split
    · exact ih _
    · simp

theorem packetArrived_ne_nil (buf : List Range) (seq size : Nat) : packetArrived buf seq size ≠ [] := by
  unfold packetArrived
  have hm : (seq, seq + size) ∈ sortR (buf ++ [(seq, seq + size)]) := (mem_sortR _ _).mpr (by simp)
  cases hl : sortR (buf ++ [(seq, seq + size)]) with
  | nil => rw [hl] at hm; simp at hm
  | cons r rest => exact mergeFrom_ne_nil rest r

/-- **On a sorted, non-touching, non-empty buffer the ACK computed by `put` is the length of the contiguous
prefix.** -/
theorem ackOf_isPrefix (buf : List Range) (h : Sep buf) (hne : buf ≠ []) :
    ∃ n, ackOf buf = .ok n ∧ IsPrefix buf n := by
  cases buf with
  | nil => exact absurd rfl hne
  | cons r rest =>
    have hp := List.pairwise_cons.mp h.2
    have hr : r.1 ≤ r.2 := h.1 r List.mem_cons_self
    refine ⟨_, rfl, ?_⟩
    by_cases h0 : r.1 = 0
    · simp only [h0, beq_self_eq_true, if_true]
      refine ⟨fun b hb => ⟨r, List.mem_cons_self, by omega, hb⟩, ?_⟩
      rintro ⟨x, hx, hx1, hx2⟩
      rcases List.mem_cons.mp hx with rfl | hx
      · exact Nat.lt_irrefl _ hx2
      · have := hp.1 x hx; omega
    · have hb : (r.1 == 0) = false := by simpa using h0
      simp only [hb, Bool.false_eq_true, ↓reduceIte]
      refine ⟨fun b hb => absurd hb (Nat.not_lt_zero _), ?_⟩
      rintro ⟨x, hx, hx1, hx2⟩
      rcases List.mem_cons.mp hx with rfl | hx
      · omega
      · have := hp.1 x hx; omega

theorem sep_nil : Sep [] := ⟨fun r hr => by simp at hr, List.Pairwise.nil⟩

/-- the run-level invariant: starting from a buffer `buf` that is sorted/non-touching and covers exactly what the
ranges `rs` cover, after the first `k+1` arrivals of `arr` the ACK is the prefix length of `rs` plus those arrivals,
and the buffer is again sorted/non-touching with exactly that coverage -/
theorem run_spec (arr : List (Nat × Nat)) : ∀ (buf rs : List Range), Sep buf → (∀ b, Covers buf b ↔ Covers rs b) →
    ∀ k, k < arr.length →
    (∃ n, (acks buf arr)[k]? = some (.ok n) ∧ IsPrefix (rs ++ rangesOf (arr.take (k + 1))) n) ∧
    (∃ B, (buffers buf arr)[k]? = some B ∧ Sep B ∧ B ≠ [] ∧
      ∀ b, Covers B b ↔ Covers (rs ++ rangesOf (arr.take (k + 1))) b) := by
  induction arr with
  | nil => intro _ _ _ _ k hk; simp at hk
  | cons p rest ih =>
    intro buf rs hsep hcov k hk
    obtain ⟨seq, size⟩ := p
    obtain ⟨hsep', hcov'⟩ := packetArrived_spec buf seq size hsep
    have hc1 : ∀ b, Covers (packetArrived buf seq size) b ↔ Covers (rs ++ [(seq, seq + size)]) b := by
      intro b
      rw [hcov' b, covers_append, hcov b, covers_cons]
      simp [covers_nil]
    cases k with
    | zero =>
      obtain ⟨n, hn, hp⟩ := ackOf_isPrefix _ hsep' (packetArrived_ne_nil buf seq size)
      refine ⟨⟨n, ?_, ?_⟩, ⟨packetArrived buf seq size, ?_, hsep', packetArrived_ne_nil buf seq size, ?_⟩⟩
      · simp only [acks, put, List.getElem?_cons_zero, hn]
      · exact (isPrefix_congr (by simpa [rangesOf] using hc1) n).mp hp
      · simp only [buffers, put, List.getElem?_cons_zero]
      · simpa [rangesOf] using hc1
    | succ k =>
      have hk' : k < rest.length := by simpa using hk
      obtain ⟨⟨n, hn, hp⟩, ⟨B, hB, hBs, hBne, hBc⟩⟩ := ih (packetArrived buf seq size) (rs ++ [(seq, seq + size)]) hsep' hc1 k hk'
      have e : rs ++ rangesOf (((seq, size) :: rest).take (k + 1 + 1)) =
          (rs ++ [(seq, seq + size)]) ++ rangesOf (rest.take (k + 1)) := by
        simp [rangesOf]
      refine ⟨⟨n, ?_, ?_⟩, ⟨B, ?_, hBs, hBne, ?_⟩⟩
      · simpa only [acks, put, List.getElem?_cons_succ] using hn
      · rw [e]; exact hp
      · simpa only [buffers, put, List.getElem?_cons_succ] using hB
      · rw [e]; exact hBc

end TcpSink
