import OnlVerif.Lemmas.MultiQueueRun
/-!
# RR: the loop visits `flows` cyclically in declaration order, skips the classes that are not backlogged and sends
one packet per visit
-/

namespace RR
open MQ

/-- entry `l` of `flows` is not backlogged under the counters `cn` -/
def Skips (cfg : Cfg ℚ) (cn : Nat → Int) (l : Nat) : Prop := ∀ f, cfg.flows[l]? = some f → ¬ 0 < cn f

/-- the scan started at index `i` and stands at `m`; `w`: it has wrapped round -/
def Vis (cfg : Cfg ℚ) (cn : Nat → Int) (i m : Nat) (w : Bool) : Prop :=
  if w then (∀ l, i ≤ l → Skips cfg cn l) ∧ ∀ l, l < m → Skips cfg cn l
  else i ≤ m ∧ ∀ l, i ≤ l → l < m → Skips cfg cn l

/-- every index cyclically from `i` (inclusive) to `j` (exclusive) is skipped -/
def CyclicSkips (cfg : Cfg ℚ) (cn : Nat → Int) (i j : Nat) : Prop :=
  (i ≤ j ∧ ∀ l, i ≤ l → l < j → Skips cfg cn l) ∨
  (j < i ∧ (∀ l, i ≤ l → Skips cfg cn l) ∧ ∀ l, l < j → Skips cfg cn l)

theorem vis_succ (cfg : Cfg ℚ) (cn : Nat → Int) (i m : Nat) (w : Bool) (h : Vis cfg cn i m w) (hs : Skips cfg cn m) :
    Vis cfg cn i (m + 1) w := by
  cases w with
  | true =>
    simp only [Vis, if_true] at h ⊢
    refine ⟨h.1, fun l hl => ?_⟩
    rcases Nat.lt_or_eq_of_le (Nat.le_of_lt_succ hl) with h1 | h1
    · exact h.2 l h1
    · subst h1; exact hs
  | false =>
    simp only [Vis, Bool.false_eq_true, if_false] at h ⊢
    refine ⟨Nat.le_succ_of_le h.1, fun l hil hl => ?_⟩
    rcases Nat.lt_or_eq_of_le (Nat.le_of_lt_succ hl) with h1 | h1
    · exact h.2 l hil h1
    · subst h1; exact hs

theorem vis_wrap (cfg : Cfg ℚ) (cn : Nat → Int) (i m : Nat) (w : Bool) (h : Vis cfg cn i m w)
    (hm : cfg.flows.length ≤ m) : Vis cfg cn i 0 true := by
  simp only [Vis, if_true]
  refine ⟨fun l hil => ?_, fun l hl => absurd hl (Nat.not_lt_zero l)⟩
  cases w with
  | true => simp only [Vis, if_true] at h; exact h.1 l hil
  | false =>
    simp only [Vis, Bool.false_eq_true, if_false] at h
    by_cases hl : l < m
    · exact h.2 l hil hl
    · intro f hf
      have : cfg.flows[l]? = none := List.getElem?_eq_none (le_trans hm (not_lt.mp hl))
      rw [this] at hf; cases hf

theorem vis_cyclic (cfg : Cfg ℚ) (cn : Nat → Int) (i m : Nat) (w : Bool) (h : Vis cfg cn i m w) (f : Nat)
    (hf : cfg.flows[m]? = some f) (hpos : 0 < cn f) : CyclicSkips cfg cn i m := by
  cases w with
  | false => simp only [Vis, Bool.false_eq_true, if_false] at h; exact Or.inl h
  | true =>
    simp only [Vis, if_true] at h
    by_cases him : i ≤ m
    · exact absurd hpos (h.1 m him f hf)
    · exact Or.inr ⟨not_le.mp him, h.1, h.2⟩

/-- where a burst of the RR loop can end -/
theorem settles_rr (cfg : Cfg ℚ) (cn : Nat → Int) (i : Nat) (s s' : MQState ℚ Pc) (hs : Settles (sched cfg) s s')
    (hcn : ∀ f, cnt s.queueCount f = cn f)
    (hP : ∃ w m, (s.ctl = .at m ∨ (s.ctl = .endPass ∧ cfg.flows.length ≤ m)) ∧ Vis cfg cn i m w) :
    ((s'.phase = .waitToken ∨ s'.phase = .tokenHanded) → s'.ctl = .at 0) ∧
    (∀ c p, s'.phase = .pktHanded c p → ∃ j rest, s'.ctl = .got j ∧ cfg.flows[j]? = some c ∧ 0 < cn c ∧
        CyclicSkips cfg cn i j ∧ storeOf s.stores c = p :: rest ∧ s'.stores = setKey s.stores c rest) := by
  induction hs with
  | goto s k s' hm _ ih =>
    rw [touch_ctl] at hm
    have hcn' : ∀ f, cnt ({ touch (sched cfg) s with ctl := k } : MQState ℚ Pc).queueCount f = cn f :=
      fun f => by show cnt (touch (sched cfg) s).queueCount f = cn f; rw [touch_cnt]; exact hcn f
    have hP' : ∃ w m, (k = .at m ∨ (k = .endPass ∧ cfg.flows.length ≤ m)) ∧ Vis cfg cn i m w := by
      obtain ⟨w, m, hctl, hv⟩ := hP
      rcases hctl with hctl | ⟨hctl, hlen⟩
      · rw [hctl] at hm
        simp only [sched, micro] at hm
        split at hm
        · rename_i hnone
          simp only [Micro.goto.injEq] at hm
          have : cfg.flows.length ≤ m := by
            by_contra hc
            rw [List.getElem?_eq_getElem (not_le.mp hc)] at hnone; cases hnone
          exact ⟨w, m, Or.inr ⟨hm.symm, this⟩, hv⟩
        · rename_i f hf
          split at hm
          · split at hm <;> cases hm
          · rename_i hz
            simp only [Micro.goto.injEq] at hm
            refine ⟨w, m + 1, Or.inl hm.symm, vis_succ cfg cn i m w hv ?_⟩
            intro f' hf'
            rw [hf] at hf'; cases hf'
            simp only [view, touch_cnt, hcn] at hz
            exact hz
      · rw [hctl] at hm
        simp only [sched, micro] at hm
        split at hm
        · cases hm
        · simp only [Micro.goto.injEq] at hm
          exact ⟨true, 0, Or.inl hm.symm, vis_wrap cfg cn i m w hv hlen⟩
    have := ih hcn' hP'
    simpa [touch_stores] using this
  | get s c k s' hm hg =>
    rw [touch_ctl] at hm
    obtain ⟨w, m, hctl, hv⟩ := hP
    rcases hctl with hctl | ⟨hctl, hlen⟩
    · rw [hctl] at hm
      simp only [sched, micro] at hm
      split at hm
      · cases hm
      · rename_i f hf
        split at hm
        · rename_i hpos
          split at hm
          · simp only [Micro.get.injEq] at hm
            obtain ⟨rfl, rfl⟩ := hm
            simp only [view, touch_cnt, hcn] at hpos
            unfold issueGet at hg
            split at hg
            · rename_i p rest hst
              simp only [Except.ok.injEq] at hg
              subst hg
              refine ⟨fun h => ?_, fun c' p' h => ?_⟩
              · rcases h with h | h <;> cases h
              · cases h
                exact ⟨m, rest, rfl, hf, hpos, vis_cyclic cfg cn i m w hv f hf hpos,
                  by simpa [touch_stores] using hst, by simp [touch_stores]⟩
            · cases hg
          · cases hm
        · cases hm
    · rw [hctl] at hm
      simp only [sched, micro] at hm
      split at hm <;> cases hm
  | block s k hm =>
    rw [touch_ctl] at hm
    obtain ⟨w, m, hctl, hv⟩ := hP
    rcases hctl with hctl | ⟨hctl, hlen⟩
    · rw [hctl] at hm
      simp only [sched, micro] at hm
      split at hm
      · cases hm
      · split at hm
        · split at hm <;> cases hm
        · cases hm
    · rw [hctl] at hm
      simp only [sched, micro] at hm
      split at hm
      · simp only [Micro.block.injEq] at hm
        subst hm
        unfold blockOnToken
        split
        · exact ⟨fun _ => rfl, fun c p h => (by cases h)⟩
        · exact ⟨fun _ => rfl, fun c p h => (by cases h)⟩
      · cases hm
  | takeSend s c k p e k' hm hp hd =>
    exfalso
    rw [touch_ctl] at hm
    obtain ⟨w, m, hctl, hv⟩ := hP
    rcases hctl with hctl | ⟨hctl, hlen⟩
    · rw [hctl] at hm
      simp only [sched, micro] at hm
      split at hm
      · cases hm
      · split at hm
        · split at hm <;> cases hm
        · cases hm
    · rw [hctl] at hm
      simp only [sched, micro] at hm
      split at hm <;> cases hm
  | takePark s c k p k' s2 s' hm hp hd hpk _ ih =>
    exact absurd hd (RR.neverParks cfg _ _ _ _ _)

/-- whenever the loop is not started, blocked or just woken, it resumes at the first flow -/
def CtlOk (s : MQState ℚ Pc) : Prop :=
  (s.phase = .idle ∨ s.phase = .waitToken ∨ s.phase = .tokenHanded) → s.ctl = .at 0

/-- the index at which the scan of a decision burst starts -/
def resumeIndex (s : MQState ℚ Pc) : Nat :=
  match s.ctl with
  | .sent j => j + 1
  | _ => 0

theorem resumeLoop_rr (cfg : Cfg ℚ) (i : Nat) (s s' : MQState ℚ Pc) (hr : resumeLoop (sched cfg) s = .ok s')
    (hctl : s.ctl = .at i) :
    CtlOk s' ∧
    (∀ c p, s'.phase = .pktHanded c p → ∃ j rest, s'.ctl = .got j ∧ cfg.flows[j]? = some c ∧ 0 < cnt s.queueCount c ∧
        CyclicSkips cfg (cnt s.queueCount) i j ∧ storeOf s.stores c = p :: rest ∧ s'.stores = setKey s.stores c rest) := by
  have h := settles_rr cfg (cnt s.queueCount) i _ s' (resumeLoop_settles (sched cfg) s s' hr) (fun _ => rfl)
    ⟨false, i, Or.inl hctl, by simp only [Vis, Bool.false_eq_true, if_false]; exact ⟨le_refl i, fun l h1 h2 => absurd h2 (not_lt.mpr h1)⟩⟩
  refine ⟨fun hph => ?_, h.2⟩
  rcases hph with hph | hph | hph
  · rcases resumeLoop_end (sched cfg) s s' hr with ⟨c, p, h1⟩ | ⟨p, h1⟩ | h1 | h1 <;> rw [hph] at h1 <;> cases h1
  · exact h.1 (Or.inl hph)
  · exact h.1 (Or.inr hph)

/-- one step keeps `CtlOk`; a decision burst serves the first backlogged flow cyclically from its resume index -/
theorem step_rr (cfg : Cfg ℚ) (s s' : MQState ℚ Pc) (a : MAct ℚ) (o : MOut ℚ) (hc : CtlOk s)
    (hs : step (sched cfg) s a = .ok (s', o)) :
    CtlOk s' ∧
    ((a = .init ∨ a = .wake ∨ a = .sendDone) → ∀ c p, s'.phase = .pktHanded c p →
      ∃ j rest, s'.ctl = .got j ∧ cfg.flows[j]? = some c ∧ 0 < cnt s.queueCount c ∧
        CyclicSkips cfg (cnt s.queueCount) (resumeIndex s) j ∧
        storeOf s.stores c = p :: rest ∧ s'.stores = setKey s.stores c rest) := by
  have ht := step_trans (sched cfg) s s' a o hs
  cases ht with
  | init _ hp hr =>
    have hctl := hc (Or.inl hp)
    have := resumeLoop_rr cfg 0 s s' hr hctl
    refine ⟨this.1, fun _ c p hph => ?_⟩
    simpa [resumeIndex, hctl] using this.2 c p hph
  | put p c k hcl hk =>
    have hk' : k = s.ctl := by simp only [sched, Except.ok.injEq] at hk; exact hk.symm
    subst hk'
    have hph : (postToken ({ s with ctl := s.ctl } : MQState ℚ Pc)).phase = s.phase := by unfold postToken; split <;> rfl
    have hctl : (postToken ({ s with ctl := s.ctl } : MQState ℚ Pc)).ctl = s.ctl := by unfold postToken; split <;> rfl
    refine ⟨fun h => ?_, fun h => ?_⟩
    · simp only [enqueue, countIn, hph, hctl] at h ⊢
      exact hc h
    · rcases h with h | h | h <;> cases h
  | tokenHandoff n hp htk =>
    exact ⟨fun _ => hc (Or.inr (Or.inl hp)), fun h => by rcases h with h | h | h <;> cases h⟩
  | wake _ hp hr =>
    have hctl := hc (Or.inr (Or.inr hp))
    have := resumeLoop_rr cfg 0 s s' hr hctl
    refine ⟨this.1, fun _ c p hph => ?_⟩
    simpa [resumeIndex, hctl] using this.2 c p hph
  | resumeSend c p e k hp hd =>
    refine ⟨fun h => ?_, fun h => by rcases h with h | h | h <;> cases h⟩
    rcases h with h | h | h <;> cases h
  | resumePark c p k s2 _ hp hd hpk hr => exact absurd hd (RR.neverParks cfg _ _ _ _ _)
  | sendInit p hp =>
    refine ⟨fun h => ?_, fun h => by rcases h with h | h | h <;> cases h⟩
    rcases h with h | h | h <;> cases h
  | sendFire p due hp hnow =>
    refine ⟨fun h => ?_, fun h => by rcases h with h | h | h <;> cases h⟩
    rcases h with h | h | h <;> cases h
  | sendDone p k _ hp hk hr =>
    simp only [sched, onDone] at hk
    split at hk
    · rename_i j hj
      simp only [Except.ok.injEq] at hk
      subst hk
      have := resumeLoop_rr cfg (j + 1) { s with ctl := Pc.at (j + 1) } s' hr rfl
      refine ⟨this.1, fun _ c q hph => ?_⟩
      simpa [resumeIndex, hj] using this.2 c q hph
    · cases hk
  | tickIdle t h1 h2 h3 =>
    exact ⟨hc, fun h => by rcases h with h | h | h <;> cases h⟩
  | tickBusy t p due h1 h2 h3 =>
    exact ⟨hc, fun h => by rcases h with h | h | h <;> cases h⟩
  | sample inc => exact ⟨hc, fun h => by rcases h with h | h | h <;> cases h⟩

/-- one packet per visit: with the packet of entry `j` in hand the loop sends it and will resume at entry `j + 1` -/
theorem pktResume_rr (cfg : Cfg ℚ) (s s' : MQState ℚ Pc) (o : MOut ℚ) (j : Nat) (hctl : s.ctl = .got j)
    (hs : step (sched cfg) s .pktResume = .ok (s', o)) :
    ∃ c p, s.phase = .pktHanded c p ∧ s'.phase = .spawned p ∧ s'.ctl = .sent j ∧ resumeIndex s' = j + 1 := by
  have ht := step_trans (sched cfg) s s' _ o hs
  cases ht with
  | resumeSend c p e k hp hd =>
    simp only [sched, onPkt, hctl] at hd
    simp only [PktDec.send.injEq] at hd
    obtain ⟨_, rfl⟩ := hd
    exact ⟨c, p, hp, rfl, rfl, rfl⟩
  | resumePark c p k s2 _ hp hd hpk hr => exact absurd hd (RR.neverParks cfg _ _ _ _ _)

end RR
