import OnlVerif.Lemmas.SplitDemo
import OnlVerif.Lemmas.SplitTime
/-!
# The concrete split run, continued: `run(until=6)` (non-vacuity of the stage-3 theorem)

The state `SplitDemo.s5` (after `step(); step(); run(until=ev)`) is well-scoped, its agenda is sorted, it carries no stop;
the program of `SplitDemo` treats event ids as opaque tokens (`BodySim`); no condition is ever built.  So
`runUntilTime_transparent` applies to `run(until=6)` from `s5`.
-/

deriving instance DecidableEq for ReqData
deriving instance DecidableEq for EvRec
deriving instance DecidableEq for QEntry
deriving instance DecidableEq for ResKind
deriving instance DecidableEq for ResRec
deriving instance DecidableEq for ProcRec

namespace SplitDemo

theorem s5_size_pos : 0 < s5.events.size := by decide +kernel

/-- the split `run(until=6)` made in state `s5`; a local state `(pc, e)` keeps one event id -/
def cfg : SplitCfg St := SplitCfg.at s5 s5_size_pos 6 (fun st => (st.1, shAt s5.events.size st.2))

theorem s5_closed : cfg.Closed s5 :=
  ⟨by decide +kernel, by decide +kernel, by decide +kernel, by decide +kernel, by decide +kernel, by decide +kernel,
    by decide +kernel⟩

theorem s5_sorted : SortedAg s5 := ⟨by decide +kernel, by decide +kernel⟩

theorem s5_stopFree : AllStopFree s5 :=
  let ⟨_, _, _, h⟩ := runUntilEvent_transparent body 3 20 ev s2 s5 (.int 7) s2_stopFree ev_pending r5_returned
  h

theorem s5_now : s5.now < cfg.t := by decide +kernel

theorem r6_returned : runUntilTime body 3 20 cfg.t s5 = .returned .none s6 :=
  returned_of_val r6 .none (by decide +kernel)

theorem prog_other (pc : Nat) (e : EvId) (r : Resume) (h : pc ≠ 0 ∧ pc ≠ 1 ∧ pc ≠ 2 ∧ pc ≠ 10 ∧ pc ≠ 11 ∧ pc ≠ 12 ∧ pc ≠ 13) :
    prog pc e r = .ret .none := by
  unfold prog
  split <;> first | rfl | (exfalso; omega)

/-- the demo program treats event ids as opaque tokens, for every renaming -/
theorem body_sim (ρ : EvId → EvId) (h0 : ρ 0 = 0) : BodySim ρ (fun st : St => (st.1, ρ st.2)) body := by
  have hy : ∀ (t : EvId) (pc : Nat), BurstSim (τ := ℚ) ρ (fun st : St => (st.1, ρ st.2)) (.yield t (pc, 0)) (.yield (ρ t) (pc, 0)) := by
    intro t pc
    have := BurstSim.yield (τ := ℚ) (ρ := ρ) (rσ := fun st : St => (st.1, ρ st.2)) t (pc, 0)
    simp only [h0] at this
    exact this
  intro st r
  obtain ⟨pc, e⟩ := st
  show BurstSim ρ _ (prog pc e r) (prog pc (ρ e) (rnResume ρ r))
  have hcases : pc = 0 ∨ pc = 1 ∨ pc = 2 ∨ pc = 10 ∨ pc = 11 ∨ pc = 12 ∨ pc = 13 ∨
      (pc ≠ 0 ∧ pc ≠ 1 ∧ pc ≠ 2 ∧ pc ≠ 10 ∧ pc ≠ 11 ∧ pc ≠ 12 ∧ pc ≠ 13) := by omega
  rcases hcases with h | h | h | h | h | h | h | h
  · subst h
    refine BurstSim.call .event _ _ ?_
    intro rp
    cases rp with
    | ev ev' =>
      refine BurstSim.call (.store 0 (.ev ev')) _ _ ?_
      intro _
      refine BurstSim.call (.timeout 2 .none) _ _ ?_
      intro rp2
      cases rp2 with
      | ev t => exact BurstSim.yield t (1, ev')
      | unit => exact BurstSim.ret .none
      | err x => exact BurstSim.ret .none
      | val v => exact BurstSim.ret .none
    | unit => exact BurstSim.ret .none
    | err x => exact BurstSim.ret .none
    | val v => exact BurstSim.ret .none
  · subst h
    refine BurstSim.call (.succeed e (.int 7)) _ _ ?_
    intro _
    refine BurstSim.call (.timeout 1 .none) _ _ ?_
    intro rp
    cases rp with
    | ev t => exact BurstSim.yield t (2, e)
    | unit => exact BurstSim.ret .none
    | err x => exact BurstSim.ret .none
    | val v => exact BurstSim.ret .none
  · subst h
    refine BurstSim.call (.log "A-done" .none) _ _ ?_
    intro _
    exact BurstSim.ret .none
  · subst h
    refine BurstSim.call (.timeout 1 .none) _ _ ?_
    intro rp
    cases rp with
    | ev t => exact hy t 11
    | unit => exact BurstSim.ret .none
    | err x => exact BurstSim.ret .none
    | val v => exact BurstSim.ret .none
  · subst h
    refine BurstSim.call (.load 0) _ _ ?_
    intro rp
    cases rp with
    | val v =>
      cases v with
      | ev ev' =>
        refine BurstSim.call (.log "B-wait" (.ev ev')) _ _ ?_
        intro _
        exact BurstSim.yield ev' (12, ev')
      | none => exact BurstSim.ret .none
      | int i => exact BurstSim.ret .none
      | str s => exact BurstSim.ret .none
      | cv l => exact BurstSim.ret .none
      | preempted a b c => exact BurstSim.ret .none
      | frozen s => exact BurstSim.ret .none
    | unit => exact BurstSim.ret .none
    | err x => exact BurstSim.ret .none
    | ev t => exact BurstSim.ret .none
  · subst h
    have cont : ∀ w : Val, BurstSim ρ (fun st : St => (st.1, ρ st.2)) (prog 12 e (.value w)) (prog 12 (ρ e) (.value (rnVal ρ w))) := by
      intro w
      refine BurstSim.call (.log "B-got" w) _ _ ?_
      intro _
      refine BurstSim.call (.timeout 5 .none) _ _ ?_
      intro rp
      cases rp with
      | ev t => exact hy t 13
      | unit => exact BurstSim.ret .none
      | err x => exact BurstSim.ret .none
      | val v => exact BurstSim.ret .none
    cases r with
    | value w => exact cont w
    | start => exact cont .none
    | exc x => exact cont .none
  · subst h
    refine BurstSim.call (.log "B-done" .none) _ _ ?_
    intro _
    exact BurstSim.ret .none
  · rw [prog_other pc e r h, prog_other pc (ρ e) _ h]
    exact BurstSim.ret .none

theorem cfg_body_sim : BodySim cfg.ρ cfg.rσ body := body_sim (shAt s5.events.size) (shAt_of_lt s5_size_pos)

/-- the run from `s5` ends (empty agenda) after 5 steps -/
theorem s5_run_ends : ∀ s', stepN body 3 5 s5 ≠ .ok s' := by
  have h : (match stepN body 3 5 s5 with | .ok _ => false | _ => true) = true := by decide +kernel
  intro s' hc
  rw [hc] at h
  cases h

theorem s5_noBuild : ∀ j, j < 5 → SplitCfg.noBuildNext (stOf (stepN body 3 j s5) s5) = true := by decide +kernel

/-- no `Condition._build_value` ever runs in the rest of the run: the fuel hypothesis holds -/
theorem s5_fuel : cfg.FuelAlong body 3 s5 := by
  intro j sj hj
  by_cases hlt : j < 5
  · have := s5_noBuild j hlt
    rw [hj] at this
    exact cfg.stepFuelOK_of_noBuild body 3 sj this
  · exfalso
    have h5 : j = 5 + (j - 5) := by omega
    rw [h5, stepN_add] at hj
    cases h : stepN body 3 5 s5 with
    | ok s' => exact s5_run_ends s' h
    | stopped o s' => rw [h] at hj; cases hj
    | crash x s' => rw [h] at hj; cases hj
    | empty => rw [h] at hj; cases hj

/-- computed: `run(until=6)` returned in the state of 2 uninterrupted steps, its trace (10 observations) is that state's
trace with the ids renamed -/
theorem s6_trace : s6.trace = (stOf (stepN body 3 2 s5) s5).trace.map (rnObs cfg.ρ) ∧ s6.trace.size = 10 := by
  decide +kernel

end SplitDemo
