import OnlVerif.Lemmas.VCKStepRun
/-!
# The VirtualClock scheduler on the kernel model: kernel steps of the source and of the pending `StorePut` events
-/

set_option linter.unusedSimpArgs false

namespace VCK
open VCOnK
open TimerK (lookup plookup afterBurst resume_eq step_eq)

variable {N scale F : Nat} {flow size : Int → Nat} {cfg : VcCfg ℚ}
variable {s : KS} {a : A} {q : QEntry ℚ} {rest : List (QEntry ℚ)}

/-- the `Initialize` event of the source: it sleeps until the first arrival, or returns at once -/
theorem kstep_srcInit (fuel : Nat) (hk : KInv N scale F s a) {arr : List (ℚ × Int)} (hph : a.src = .init q arr)
    (hgap : ∀ x ∈ arr, 0 ≤ x.1)
    (hp : popMin s.agenda = some (q, rest)) (hrest : rest.Perm (a.run.entries ++ a.pend)) :
    ∃ s', step (prog flow size cfg N scale) (fuel + 1) s = .ok s' ∧
      KInv N scale F s' { a with src := srcNext q.time s.eid s.events.size arr } ∧
      s'.now = q.time ∧ histOf s'.trace = histOf s.trace := by
  have hr := hk.src
  rw [hph] at hr
  obtain ⟨hqe, ⟨hkind, hcbs, hout⟩, hproc, ⟨hpk, hpc, hpo⟩⟩ := hr
  have hgs : 3 < s.events.size := KState.lt_of_cbs hcbs
  have hwf := openEvent_wf s q rest hk.wf hp
  have hlt := hk.idlt
  rw [step_eq _ _ _ _ _ _ hp (hqe ▸ hcbs)]
  simp only [List.foldl, runCb]
  rw [resume_eq _ _ _ _ _ _ (show (openEvent s q rest).proc? 2 = _ from hproc)]
  simp only [KState.ev] at hkind hcbs hout hpk hpc hpo
  obtain ⟨nrun, nsrc, npend, drun, dsrc⟩ := (ids_nodup_iff a).mp hk.nd
  simp only [hph, vcids] at nsrc drun dsrc hlt
  have hrun2 : ∀ e ∈ a.run.ids, e ≠ 2 ∧ e ≠ 3 := fun e he => ⟨fun h => (drun e he).1.1 h, fun h => (drun e he).1.2 h⟩
  have hpend2 : ∀ e ∈ pendIds a.pend, e ≠ 2 ∧ e ≠ 3 := fun e he => ⟨fun h => dsrc.1 (h ▸ he), fun h => dsrc.2 (h ▸ he)⟩
  have h2lt : 2 < s.events.size := by omega
  rcases arr with _ | ⟨⟨gap, id⟩, r⟩
  · ssimp [hqe, hgs, h2lt, hkind, hcbs, hout, hpk, hpc, hpo, Nat.ne_of_lt hgs, Nat.ne_of_lt h2lt, srcNext]
    refine ⟨⟨?_, ?_, ?_, ?_, ?_, ?_, ?_, ?_, ?_, ?_, ?_, ?_, ?_, ?_⟩, ?_⟩
    · exact wf_push1 hwf.1 _ rfl rfl rfl rfl (le_refl _)
    · simp only [A.entries, SPhase.entries, List.singleton_append]
      exact (List.Perm.cons _ hrest).trans List.perm_middle.symm
    · exact hk.rsz
    · exact hk.st
    · refine (hk.keep_run_pend [3, 2] (by evkeep) ?_ ?_).1
      · intro e he; simp only [List.mem_cons, List.not_mem_nil, or_false, not_or]
        exact he.elim (fun h => ⟨(hrun2 e h).2, (hrun2 e h).1⟩) (fun h => ⟨(hpend2 e h).2, (hpend2 e h).1⟩)
      · intro e he
        ssimp [(hrun2 e he).1]
    · refine ⟨rfl, ?_⟩
      ssimp [EvIs, hgs, h2lt, hpk, hpc]
    · refine (hk.keep_run_pend [3, 2] (by evkeep) ?_ ?_).2
      · intro e he; simp only [List.mem_cons, List.not_mem_nil, or_false, not_or]
        exact he.elim (fun h => ⟨(hrun2 e h).2, (hrun2 e h).1⟩) (fun h => ⟨(hpend2 e h).2, (hpend2 e h).1⟩)
      · intro e he
        ssimp [(hrun2 e he).1]
    · have hnd := hk.nd
      simp only [vcids, hph] at hnd ⊢
      grind
    · ssimp [hk.c0]
    · ssimp [hk.c1]
    · intro f hf; ssimp [hk.cc f hf]
    · intro f hf; ssimp [hk.cb f hf]
    · intro f hf; ssimp [hk.cv f hf]
    · intro f hf; ssimp [hk.ca f hf]
    · simp [histOf_push]
  · have hg : 0 ≤ gap := hgap (gap, id) (by simp)
    ssimp [hqe, hgs, h2lt, hkind, hcbs, hout, hpk, hpc, hpo, Nat.ne_of_lt hgs, Nat.ne_of_lt h2lt, srcNext, hg]
    refine ⟨⟨?_, ?_, ?_, ?_, ?_, ?_, ?_, ?_, ?_, ?_, ?_, ?_, ?_, ?_⟩, ?_⟩
    · exact wf_push1 hwf.1 _ rfl rfl rfl rfl (by show q.time ≤ q.time + gap; linarith)
    · simp only [A.entries, SPhase.entries, List.singleton_append]
      exact (List.Perm.cons _ hrest).trans List.perm_middle.symm
    · exact hk.rsz
    · exact hk.st
    · refine (hk.keep_run_pend [3] (by evkeep) ?_ ?_).1
      · intro e he; simp only [List.mem_singleton]
        exact he.elim (fun h => (hrun2 e h).2) (fun h => (hpend2 e h).2)
      · intro e he
        ssimp [(hrun2 e he).1]
    · refine ⟨?_, ?_, ?_⟩
      · ssimp [EvIs]
      · ssimp
      · ssimp [EvIs, hgs, h2lt, hpk, hpc, hpo, Nat.ne_of_lt h2lt]
    · refine (hk.keep_run_pend [3] (by evkeep) ?_ ?_).2
      · intro e he; simp only [List.mem_singleton]
        exact he.elim (fun h => (hrun2 e h).2) (fun h => (hpend2 e h).2)
      · intro e he
        ssimp [(hrun2 e he).1]
    · have hnd := hk.nd
      simp only [vcids, hph] at hnd ⊢
      grind
    · ssimp [hk.c0]
    · ssimp [hk.c1]
    · intro f hf; ssimp [hk.cc f hf]
    · intro f hf; ssimp [hk.cb f hf]
    · intro f hf; ssimp [hk.cv f hf]
    · intro f hf; ssimp [hk.ca f hf]
    · simp [histOf_push]

/-- the process event of the finished source: nobody waits for it -/
theorem kstep_srcEnd (fuel : Nat) (hk : KInv N scale F s a) (hph : a.src = .ending q)
    (hp : popMin s.agenda = some (q, rest)) (hrest : rest.Perm (a.run.entries ++ a.pend)) :
    ∃ s', step (prog flow size cfg N scale) (fuel + 1) s = .ok s' ∧
      KInv N scale F s' { a with src := .done } ∧
      s'.now = q.time ∧ histOf s'.trace = histOf s.trace := by
  have hr := hk.src
  rw [hph] at hr
  obtain ⟨hqe, ⟨hkind, hcbs, hout⟩⟩ := hr
  have hgs : 2 < s.events.size := KState.lt_of_cbs hcbs
  have hwf := openEvent_wf s q rest hk.wf hp
  have hlt := hk.idlt
  rw [step_eq _ _ _ _ _ _ hp (hqe ▸ hcbs)]
  simp only [List.foldl]
  simp only [KState.ev] at hkind hcbs hout
  obtain ⟨nrun, nsrc, npend, drun, dsrc⟩ := (ids_nodup_iff a).mp hk.nd
  simp only [hph, vcids] at nsrc drun dsrc hlt
  ssimp [hqe, hgs, hkind, hcbs, hout]
  refine ⟨?_, ?_, ?_, ?_, ?_, ?_, ?_, ?_, ?_, ?_, ?_, ?_, ?_, ?_⟩
  · exact wf_same hwf.1 rfl rfl rfl
  · simp only [A.entries, SPhase.entries, List.nil_append]
    exact hrest
  · exact hk.rsz
  · exact hk.st
  · refine (hk.keep_run_pend [2] (by evkeep) ?_ ?_).1
    · intro e he; simp only [List.mem_singleton]
      exact he.elim (fun h h2 => (drun e h).1 h2) (fun h h2 => dsrc (h2 ▸ h))
    · intro e he; rfl
  · trivial
  · refine (hk.keep_run_pend [2] (by evkeep) ?_ ?_).2
    · intro e he; simp only [List.mem_singleton]
      exact he.elim (fun h h2 => (drun e h).1 h2) (fun h h2 => dsrc (h2 ▸ h))
    · intro e he; rfl
  · have hnd := hk.nd
    simp only [vcids, hph] at hnd ⊢
    grind
  · exact hk.c0
  · exact hk.c1
  · exact hk.cc
  · exact hk.cb
  · exact hk.cv
  · exact hk.ca

set_option hygiene false in
/-- `KInv` after a `put`; `X` = the events the step has touched -/
macro "leaf_put" X:term : tactic => `(tactic| (
    have hXrun : ∀ e, e ∈ a.run.ids ∨ e ∈ pendIds a.pend → e ∉ $X := by
      intro e he
      simp only [List.mem_cons, List.mem_singleton, List.not_mem_nil, or_false, not_or]
      rcases he with h | h
      · simp [hrun2 e h, hrunp e h]
      · simp [hpend2 e h, hpendp e h]
    refine ⟨⟨?_, ?_, ?_, ?_, ?_, ?_, ?_, ?_, ?_, ?_, ?_, ?_, ?_, ?_⟩, ?_⟩
    · first
        | exact wf_push2 hwf.1 _ _ rfl rfl rfl rfl rfl (by first | exact le_refl _ | (show q.time ≤ q.time + _; linarith)) (le_refl _)
    · simp only [A.entries, SPhase.entries, vcids, List.singleton_append]
      perm_count hrest
    · ssimp [hrsz]
    · ssimp [KState.res, getD_setIfInBounds, hsz0, hst, codeOf, putRec, hvt']
    · refine (hk.keep_run_pend $X (by evkeep) hXrun ?_).1
      intro e he
      ssimp [hrunp e he]
    · first
        | exact ⟨rfl, by ssimp [EvIs, hgs, h2lt, hpk, hpc, Nat.ne_of_lt h2lt, TimerK.ne_fresh h2lt, h2q, Ne.symm h2q, hne0]⟩
        | exact ⟨by ssimp [EvIs, hne0], by ssimp [hne0], by ssimp [EvIs, hgs, h2lt, hpk, hpc, hpo, Nat.ne_of_lt h2lt, TimerK.ne_fresh h2lt, h2q, Ne.symm h2q, hne0]⟩
    · intro u hu
      rcases List.mem_append.mp hu with hu | hu
      · refine (hk.keep_run_pend $X (by evkeep) hXrun ?_).2 u hu
        intro e he
        ssimp [hrunp e he]
      · simp only [List.mem_cons, List.not_mem_nil, or_false] at hu
        subst hu
        ssimp [EvIs, hne0, TimerK.ne_fresh h2lt, TimerK.ne_fresh hgs]
    · have hnd := hk.nd
      simp only [vcids, hph] at hnd ⊢
      have hl3 : ∀ e ∈ a.run.ids, e < s.events.size := fun e he => hlt e (Or.inl he)
      have hl4 : ∀ e ∈ pendIds a.pend, e < s.events.size := fun e he => hlt e (Or.inr (Or.inr (Or.inr he)))
      grind
    · ssimp [hc0]
    · ssimp [hk.c1]
    · intro f' hf'
      by_cases hff : f' = flow id
      · subst hff; ssimp
      · ssimp [hff, Ne.symm hff, upd_ne, hk.cc f' hf']
    · intro f' hf'
      by_cases hff : f' = flow id
      · subst hff; ssimp
      · ssimp [hff, Ne.symm hff, upd_ne, hk.cb f' hf']
    · intro f' hf'
      by_cases hff : f' = flow id
      · subst hff; ssimp [hvt']
      · ssimp [hff, Ne.symm hff, upd_ne, hk.cv f' hf']
    · intro f' hf'
      by_cases hff : f' = flow id
      · subst hff; ssimp [putRec, hvt']
      · ssimp [hff, Ne.symm hff, upd_ne, hk.ca f' hf']
    · simp [histOf_push, putRec, hvt']))

/-- the source's timeout: `put(packet)` stamps the packet, counts it and puts it into the store (the `StorePut` event is
triggered); then the source sleeps until the next arrival or returns -/
theorem kstep_srcPut (fuel : Nat) (hk : KInv N scale F s a) {id : Int} {arr : List (ℚ × Int)} (hph : a.src = .wait id arr q)
    (hfid : flow id < F) {vt : ℚ} (hvt : Stamp.lookup cfg.vticks (flow id) = some vt) (hgap : ∀ x ∈ arr, 0 ≤ x.1)
    (hp : popMin s.agenda = some (q, rest)) (hrest : rest.Perm (a.run.entries ++ a.pend)) :
    ∃ s', step (prog flow size cfg N scale) (fuel + 1) s = .ok s' ∧
      KInv N scale F s' { a with
        src := srcNext q.time (s.eid + 1) (s.events.size + 1) arr
        pend := a.pend ++ [⟨q.time, NORMAL, s.eid, s.events.size⟩]
        items := a.items ++ [putRec flow cfg a q.time id]
        cnt := upd a.cnt (flow id) (a.cnt (flow id) + 1)
        byt := upd a.byt (flow id) (a.byt (flow id) + (size id : Int))
        recv := a.recv + 1
        vc := upd a.vc (flow id) (VC.vcOf (a.vc (flow id)) q.time (vtOf cfg (flow id)) (size id))
        aux := upd a.aux (flow id) (putRec flow cfg a q.time id).2.2
        puts := a.puts ++ [putRec flow cfg a q.time id] } ∧
      s'.now = q.time ∧
      histOf s'.trace = histOf s.trace ++ [.put id q.time, .stamp (putRec flow cfg a q.time id).2.2] := by
  have hr := hk.src
  rw [hph] at hr
  obtain ⟨⟨hkind, hcbs, hout⟩, hproc, ⟨hpk, hpc, hpo⟩⟩ := hr
  have hgs : q.ev < s.events.size := KState.lt_of_cbs hcbs
  have h2lt : 2 < s.events.size := KState.lt_of_cbs hpc
  have hwf := openEvent_wf s q rest hk.wf hp
  have hlt := hk.idlt
  have hst := hk.st
  have hrsz := hk.rsz
  have hc0 := hk.c0
  have hcc := hk.cc (flow id) hfid
  have hcb := hk.cb (flow id) hfid
  have hcv := hk.cv (flow id) hfid
  have hca := hk.ca (flow id) hfid
  have hvt' : vtOf cfg (flow id) = vt := by simp [vtOf, hvt]
  simp only [KState.res] at hst
  rw [step_eq _ _ _ _ _ _ hp hcbs]
  simp only [List.foldl, runCb]
  rw [resume_eq _ _ _ _ _ _ (show (openEvent s q rest).proc? 2 = _ from hproc)]
  simp only [KState.ev] at hkind hcbs hout hpk hpc hpo
  obtain ⟨nrun, nsrc, npend, drun, dsrc⟩ := (ids_nodup_iff a).mp hk.nd
  simp only [hph, vcids] at nsrc drun dsrc hlt
  have h2q : ¬ 2 = q.ev := nsrc
  have hrun2 : ∀ e ∈ a.run.ids, e ≠ q.ev := fun e he h => (drun e he).1.2 h
  have hrunp : ∀ e ∈ a.run.ids, e ≠ 2 := fun e he h => (drun e he).1.1 h
  have hpend2 : ∀ e ∈ pendIds a.pend, e ≠ q.ev := fun e he h => dsrc.2 (h ▸ he)
  have hpendp : ∀ e ∈ pendIds a.pend, e ≠ 2 := fun e he h => dsrc.1 (h ▸ he)
  have hne0 : ¬ s.events = #[] := by intro h; rw [h] at h2lt; simp at h2lt
  have hsz0 : 0 < s.resources.size := by rw [hrsz]; omega
  rcases arr with _ | ⟨⟨gap, id'⟩, r⟩
  · ssimp [hgs, h2lt, hkind, hcbs, hout, hpk, hpc, hpo, Nat.ne_of_lt hgs, Nat.ne_of_lt h2lt, srcNext, h2q, Ne.symm h2q,
      doCall_sput (r := 0) (gq := a.run.getQ) (its := a.items.map (codeOf N scale)),
      hst, hsz0, hc0, hcc, hcb, hcv, hca, hvt, TimerK.ne_fresh hgs, TimerK.ne_fresh h2lt]
    leaf_put [q.ev, 2]
  · have hg : 0 ≤ gap := hgap (gap, id') (by simp)
    ssimp [hgs, h2lt, hkind, hcbs, hout, hpk, hpc, hpo, Nat.ne_of_lt hgs, Nat.ne_of_lt h2lt, srcNext, h2q, Ne.symm h2q,
      doCall_sput (r := 0) (gq := a.run.getQ) (its := a.items.map (codeOf N scale)),
      hst, hsz0, hc0, hcc, hcb, hcv, hca, hvt, TimerK.ne_fresh hgs, TimerK.ne_fresh h2lt, hg]
    leaf_put [q.ev]

/-! ## the pending `StorePut` events -/

theorem pendIds_split (l1 l2 : List (QEntry ℚ)) (u : QEntry ℚ) :
    pendIds (l1 ++ u :: l2) = pendIds l1 ++ u.ev :: pendIds l2 := by simp [pendIds]

/-- what the `Nodup` of a configuration gives when one pending entry is taken out -/
theorem pend_split_facts {a : A} {q : QEntry ℚ} {l1 l2 : List (QEntry ℚ)}
    (hpe : a.pend = l1 ++ q :: l2) (npend : (pendIds a.pend).Nodup) :
    q.ev ∈ pendIds a.pend ∧ (∀ x, x ∈ pendIds (l1 ++ l2) → x ∈ pendIds a.pend) ∧
    (∀ u ∈ l1 ++ l2, u.ev ≠ q.ev) ∧ (pendIds (l1 ++ l2)).Nodup ∧ (∀ u ∈ l1 ++ l2, u ∈ a.pend) := by
  have hsub : ∀ x, x ∈ pendIds (l1 ++ l2) → x ∈ pendIds a.pend := by
    intro x h
    rw [hpe, pendIds_split]
    rw [pendIds_append] at h
    rcases List.mem_append.mp h with h | h
    · exact List.mem_append_left _ h
    · exact List.mem_append_right _ (List.mem_cons_of_mem _ h)
  rw [hpe, pendIds_split] at npend
  have hn := List.nodup_cons.mp (List.perm_middle.nodup_iff.mp npend)
  refine ⟨by rw [hpe, pendIds_split]; simp, hsub, ?_, by rw [pendIds_append]; exact hn.2, ?_⟩
  · intro u hu h
    exact hn.1 (by rw [← h, ← pendIds_append]; exact mem_pendIds_of hu)
  · intro u hu
    rw [hpe]
    rcases List.mem_append.mp hu with h | h
    · exact List.mem_append_left _ h
    · exact List.mem_append_right _ (List.mem_cons_of_mem _ h)

/-- a `StorePut` event is processed (`_trigger_get`) and nobody can be served: nothing happens -/
theorem kstep_pendNoop (fuel : Nat) (hk : KInv N scale F s a) {l1 l2 : List (QEntry ℚ)}
    (hpe : a.pend = l1 ++ q :: l2) (htg : triggerGet (openEvent s q rest) 0 = openEvent s q rest)
    (hp : popMin s.agenda = some (q, rest)) (hrest : rest.Perm (a.run.entries ++ (a.src.entries ++ (l1 ++ l2)))) :
    ∃ s', step (prog flow size cfg N scale) (fuel + 1) s = .ok s' ∧
      KInv N scale F s' { a with pend := l1 ++ l2 } ∧
      s'.now = q.time ∧ histOf s'.trace = histOf s.trace := by
  have hu : q ∈ a.pend := by rw [hpe]; simp
  obtain ⟨hkind, hcbs, hout⟩ := hk.pend q hu
  have hgs : q.ev < s.events.size := KState.lt_of_cbs hcbs
  have hwf := openEvent_wf s q rest hk.wf hp
  rw [step_eq _ _ _ _ _ _ hp hcbs]
  simp only [List.foldl, runCb]
  rw [htg]
  simp only [KState.ev] at hkind hcbs hout
  obtain ⟨nrun, nsrc, npend, drun, dsrc⟩ := (ids_nodup_iff a).mp hk.nd
  obtain ⟨hqmem, hsub, hpq, npend', hmem⟩ := pend_split_facts hpe npend
  have hrunq : ∀ e ∈ a.run.ids, e ≠ q.ev := fun e he h => (drun e he).2 (h ▸ hqmem)
  have hsrcq : ∀ e ∈ a.src.ids, e ≠ q.ev := fun e he h => dsrc e he (h ▸ hqmem)
  ssimp [hgs, hkind, hcbs, hout]
  refine ⟨?_, ?_, ?_, ?_, ?_, ?_, ?_, ?_, ?_, ?_, ?_, ?_, ?_, ?_⟩
  · exact wf_same hwf.1 rfl rfl rfl
  · exact hrest
  · exact hk.rsz
  · exact hk.st
  · refine hk.run.keep (X := [q.ev]) (by evkeep) ?_ (fun e he => rfl)
    intro e he; simp only [List.mem_singleton]; exact hrunq e he
  · refine hk.src.keep (X := [q.ev]) (by evkeep) ?_ (fun e he => rfl)
    intro e he; simp only [List.mem_singleton]; exact hsrcq e he
  · intro u hu
    refine (hk.pend u (hmem u hu)).keep (X := [q.ev]) (by evkeep) ?_
    simp only [List.mem_singleton]; exact hpq u hu
  · rw [ids_nodup_iff]
    exact ⟨nrun, nsrc, npend', fun x hx => ⟨(drun x hx).1, fun h => (drun x hx).2 (hsub x h)⟩,
      fun x hx h => dsrc x hx (hsub x h)⟩
  · exact hk.c0
  · exact hk.c1
  · exact hk.cc
  · exact hk.cb
  · exact hk.cv
  · exact hk.ca

/-- a `StorePut` event is processed while `run` is blocked on the store: the least item is handed over, the `StoreGet`
event of `run` is triggered -/
theorem kstep_pendHand (fuel : Nat) (hk : KInv N scale F s a) {g : EvId} {w : PutRec} {l1 l2 : List (QEntry ℚ)}
    (hpe : a.pend = l1 ++ q :: l2) (hph : a.run = .W g) (hw : IsLeast N scale a.items w)
    (hinj : ∀ x ∈ a.items, codeOf N scale x = codeOf N scale w → x = w)
    (hp : popMin s.agenda = some (q, rest)) (hrest : rest.Perm (a.run.entries ++ (a.src.entries ++ (l1 ++ l2)))) :
    ∃ s', step (prog flow size cfg N scale) (fuel + 1) s = .ok s' ∧
      KInv N scale F s' { a with pend := l1 ++ l2, run := .H g w ⟨q.time, NORMAL, s.eid, g⟩, items := a.items.erase w } ∧
      s'.now = q.time ∧ histOf s'.trace = histOf s.trace := by
  have hu : q ∈ a.pend := by rw [hpe]; simp
  obtain ⟨hkind, hcbs, hout⟩ := hk.pend q hu
  have hgs : q.ev < s.events.size := KState.lt_of_cbs hcbs
  have hwf := openEvent_wf s q rest hk.wf hp
  have hr := hk.run
  rw [hph] at hr
  obtain ⟨⟨hgk, hgc, hgo⟩, hproc0, hp0⟩ := hr
  have hgg : g < s.events.size := KState.lt_of_cbs hgc
  have hst := hk.st
  have hrsz := hk.rsz
  rw [hph] at hst
  simp only [KState.res, RPhase.getQ] at hst
  have hsz0 : 0 < s.resources.size := by rw [hrsz]; omega
  obtain ⟨nrun, nsrc, npend, drun, dsrc⟩ := (ids_nodup_iff a).mp hk.nd
  obtain ⟨hqmem, hsub, hpq, npend', hmem⟩ := pend_split_facts hpe npend
  simp only [hph, vcids] at nrun drun
  obtain ⟨⟨d0s, d0p⟩, ⟨dgs, dgp⟩⟩ := drun
  have hgq : g ≠ q.ev := fun h => dgp (h ▸ hqmem)
  have h0q : (0 : Nat) ≠ q.ev := fun h => d0p (h ▸ hqmem)
  have hsrcq : ∀ e ∈ a.src.ids, e ≠ q.ev := fun e he h => dsrc e he (h ▸ hqmem)
  have hpg : ∀ u ∈ l1 ++ l2, u.ev ≠ g := fun u hu h => dgp (hsub _ (h ▸ mem_pendIds_of hu))
  have hsrcg : ∀ e ∈ a.src.ids, e ≠ g := fun e he h => dgs (h ▸ he)
  rw [step_eq _ _ _ _ _ _ hp hcbs]
  simp only [List.foldl, runCb]
  simp only [KState.ev] at hkind hcbs hout hgk hgc hgo
  rw [triggerGet_hand (openEvent s q rest) 0 g (codeOf N scale w) (a.items.map (codeOf N scale)) hsz0 (by ssimp [hgg]) hst
    (listMin_codes hw), erase_codes hinj]
  ssimp [hgs, hgg, hkind, hcbs, hout, hgk, hgc, hgo, hgq, Ne.symm hgq]
  refine ⟨?_, ?_, ?_, ?_, ?_, ?_, ?_, ?_, ?_, ?_, ?_, ?_, ?_, ?_⟩
  · exact wf_push1 hwf.1 _ rfl rfl rfl rfl (le_refl _)
  · simp only [A.entries, RPhase.entries, List.singleton_append]
    rw [hph] at hrest
    simp only [RPhase.entries, List.nil_append] at hrest
    exact List.Perm.cons _ hrest
  · ssimp [hrsz]
  · ssimp [KState.res, getD_setIfInBounds, hsz0, RPhase.getQ]
  · refine ⟨rfl, ?_, hproc0, ?_⟩
    · ssimp [EvIs, hgg, hgk, hgc, hgq, Ne.symm hgq]
    · exact hp0.keep (X := [q.ev, g]) (by evkeep) (by simp; exact ⟨h0q, nrun⟩)
  · refine hk.src.keep (X := [q.ev, g]) (by evkeep) ?_ (fun e he => rfl)
    intro e he; simp only [List.mem_cons, List.not_mem_nil, or_false, not_or]; exact ⟨hsrcq e he, hsrcg e he⟩
  · intro u hu
    refine (hk.pend u (hmem u hu)).keep (X := [q.ev, g]) (by evkeep) ?_
    simp only [List.mem_cons, List.not_mem_nil, or_false, not_or]; exact ⟨hpq u hu, hpg u hu⟩
  · rw [ids_nodup_iff]
    refine ⟨by simpa [vcids] using nrun, nsrc, npend', ?_, fun x hx h => dsrc x hx (hsub x h)⟩
    intro x hx
    simp only [vcids] at hx
    rcases hx with rfl | rfl
    · exact ⟨d0s, fun h => d0p (hsub _ h)⟩
    · exact ⟨dgs, fun h => dgp (hsub _ h)⟩
  · exact hk.c0
  · exact hk.c1
  · exact hk.cc
  · exact hk.cb
  · exact hk.cv
  · exact hk.ca

end VCK
