import OnlVerif.Lemmas.KernelRel
import OnlVerif.Lemmas.KAccess
/-!
# Resource bounds hold in every state every program can reach

`ResInv`: a Resource never has more users than its capacity, a Container's level stays in
`[0, capacity]`, a Store never holds more than `capacity` items — and, as the auxiliary fact that makes
the container bounds inductive, no request record carries a negative amount.
-/

variable {σ : Type}

structure ResInv (s : KState ℚ σ) : Prop where
  users : ∀ r c, isResKind (s.res r).kind = true → (s.res r).capacity = some c → (s.res r).users.length ≤ c
  level : ∀ r, (s.res r).kind = .container →
    0 ≤ (s.res r).level ∧ ∀ c, (s.res r).capacity = some c → (s.res r).level ≤ (c : Int)
  items : ∀ r c, isStoreKind (s.res r).kind = true → (s.res r).capacity = some c → (s.res r).items.length ≤ c
  amounts : ∀ e rq, (s.ev e).req = some rq → 0 ≤ rq.amount

/-- the relation "the invariant is kept" -/
def KeepsRes (s s' : KState ℚ σ) : Prop := ResInv s → ResInv s'

/-- an update that leaves resources and request records alone -/
theorem keepsRes_of_frame {s s' : KState ℚ σ} (hr : ∀ r, s'.res r = s.res r)
    (he : ∀ e, (s'.ev e).req = (s.ev e).req) : KeepsRes s s' := by
  intro h
  refine ⟨?_, ?_, ?_, ?_⟩
  · intro r c; rw [hr]; exact h.users r c
  · intro r; rw [hr]; exact h.level r
  · intro r c; rw [hr]; exact h.items r c
  · intro e rq; rw [he]; exact h.amounts e rq

/-- an update of one resource record that keeps kind and capacity -/
theorem keepsRes_setRes (s : KState ℚ σ) (r : ResId) (x : ResRec)
    (hk : x.kind = (s.res r).kind) (hc : x.capacity = (s.res r).capacity)
    (hu : ∀ c, isResKind x.kind = true → x.capacity = some c → ResInv s → x.users.length ≤ c)
    (hl : x.kind = .container → ResInv s → 0 ≤ x.level ∧ ∀ c, x.capacity = some c → x.level ≤ (c : Int))
    (hi : ∀ c, isStoreKind x.kind = true → x.capacity = some c → ResInv s → x.items.length ≤ c) :
    KeepsRes s (s.setRes r x) := by
  intro h
  refine ⟨?_, ?_, ?_, ?_⟩
  · intro r' c
    rw [KState.res_setRes]
    split
    · intro h1 h2; exact hu c h1 h2 h
    · exact h.users r' c
  · intro r'
    rw [KState.res_setRes]
    split
    · intro h1; exact hl h1 h
    · exact h.level r'
  · intro r' c
    rw [KState.res_setRes]
    split
    · intro h1 h2; exact hi c h1 h2 h
    · exact h.items r' c
  · intro e rq; exact h.amounts e rq

theorem List.length_erase_le' {α} [BEq α] [LawfulBEq α] (l : List α) (a : α) : (l.erase a).length ≤ l.length := by
  rw [List.length_erase]; split <;> omega

theorem KeepsRes.krel : KRel (KeepsRes (σ := σ)) where
  refl _ h := h
  trans h1 h2 h := h2 (h1 h)
  emit _ _ := keepsRes_of_frame (fun _ => rfl) (fun _ => rfl)
  active _ _ := keepsRes_of_frame (fun _ => rfl) (fun _ => rfl)
  shared _ _ := keepsRes_of_frame (fun _ => rfl) (fun _ => rfl)
  setProc _ _ _ := keepsRes_of_frame (fun _ => rfl) (fun _ => rfl)
  schedule _ _ _ _ _ _ := keepsRes_of_frame (fun _ => rfl) (fun _ => rfl)
  newEv s r hr := by
    intro h
    refine ⟨h.users, h.level, h.items, ?_⟩
    intro e rq
    rw [KState.ev_newEv]
    split
    · rw [hr]; intro hc; cases hc
    · exact h.amounts e rq
  newLabelled s r hr := by
    intro h
    refine ⟨h.users, h.level, h.items, ?_⟩
    intro e rq
    rw [KState.ev_newLabelled]
    split
    · show r.req = some rq → _; rw [hr]; intro hc; cases hc
    · exact h.amounts e rq
  newReq s r rq0 hr hpos := by
    intro h
    refine ⟨h.users, h.level, h.items, ?_⟩
    intro e rq
    rw [KState.ev_newLabelled]
    split
    · show r.req = some rq → _; rw [hr]; intro hc; cases hc; exact hpos
    · exact h.amounts e rq
  setOut s e o := keepsRes_of_frame (fun _ => rfl) (fun e' => KState.req_setEv_keep s e e' _ rfl)
  defuse s e := keepsRes_of_frame (fun _ => rfl) (fun e' => KState.req_setEv_keep s e e' _ rfl)
  bumpCount s e := keepsRes_of_frame (fun _ => rfl) (fun e' => KState.req_setEv_keep s e e' _ rfl)
  eraseCb s e _ := keepsRes_of_frame (fun _ => rfl) (fun e' => KState.req_setEv_keep s e e' _ rfl)
  addCb s e _ _ := keepsRes_of_frame (fun _ => rfl) (fun e' => KState.req_setEv_keep s e e' _ rfl)
  setUsage s e := by
    intro h
    refine ⟨h.users, h.level, h.items, ?_⟩
    intro e' rq
    unfold KState.setUsage
    rw [KState.ev_setEv]
    split
    · rename_i hc
      cases hq : (s.ev e).req with
      | none => simp [hq]
      | some rq0 =>
        simp only [hq, Option.map_some, Option.some.injEq]
        intro heq; subst heq
        exact h.amounts e rq0 hq
    · exact h.amounts e' rq
  eraseUser s r w := by
    apply keepsRes_setRes <;> try rfl
    · intro c h1 h2 h
      exact Nat.le_trans (List.length_erase_le' _ _) (h.users r c h1 h2)
    · intro h1 h; exact h.level r h1
    · intro c h1 h2 h; exact h.items r c h1 h2
  addUser s r e hk hroom := by
    apply keepsRes_setRes <;> try rfl
    · intro c _ h2 _
      have h2' : (s.res r).capacity = some c := h2
      rw [h2'] at hroom
      simp only [hasRoom, decide_eq_true_eq] at hroom
      simp only [List.length_append, List.length_singleton]
      omega
    · intro h1 h; exact h.level r h1
    · intro c h1 h2 h; exact h.items r c h1 h2
  addLevel s r e hk hcan := by
    apply keepsRes_setRes <;> try rfl
    · intro c h1 h2 h; exact h.users r c h1 h2
    · intro _ h
      have hl := h.level r hk
      have ha : 0 ≤ (reqOf s e).amount := by
        unfold reqOf
        cases hq : (s.ev e).req with
        | none => simp
        | some rq => simpa using h.amounts e rq hq
      refine ⟨by show 0 ≤ (s.res r).level + _; omega, ?_⟩
      intro c hc
      have hc' : (s.res r).capacity = some c := hc
      unfold canPut at hcan
      simp only [hk, hc', decide_eq_true_eq] at hcan
      show (s.res r).level + _ ≤ (c : Int)
      omega
    · intro c h1 h2 h; exact h.items r c h1 h2
  subLevel s r e hk hle := by
    apply keepsRes_setRes <;> try rfl
    · intro c h1 h2 h; exact h.users r c h1 h2
    · intro _ h
      have hl := h.level r hk
      have ha : 0 ≤ (reqOf s e).amount := by
        unfold reqOf
        cases hq : (s.ev e).req with
        | none => simp
        | some rq => simpa using h.amounts e rq hq
      refine ⟨by show 0 ≤ (s.res r).level - _; omega, ?_⟩
      intro c hc
      have := hl.2 c hc
      show (s.res r).level - _ ≤ (c : Int)
      omega
    · intro c h1 h2 h; exact h.items r c h1 h2
  addItem s r x hk hroom := by
    apply keepsRes_setRes <;> try rfl
    · intro c h1 h2 h; exact h.users r c h1 h2
    · intro h1 h; exact h.level r h1
    · intro c _ h2 _
      have h2' : (s.res r).capacity = some c := h2
      rw [h2'] at hroom
      simp only [hasRoom, decide_eq_true_eq] at hroom
      simp only [List.length_append, List.length_singleton]
      omega
  tailItems s r := by
    apply keepsRes_setRes <;> try rfl
    · intro c h1 h2 h; exact h.users r c h1 h2
    · intro h1 h; exact h.level r h1
    · intro c h1 h2 h
      have := h.items r c h1 h2
      simp only [List.length_tail]; omega
  eraseItem s r x := by
    apply keepsRes_setRes <;> try rfl
    · intro c h1 h2 h; exact h.users r c h1 h2
    · intro h1 h; exact h.level r h1
    · intro c h1 h2 h
      exact Nat.le_trans (List.length_erase_le' _ _) (h.items r c h1 h2)
  dropPutQ s r e := by
    unfold dropPutQ
    apply keepsRes_setRes <;> try rfl
    · intro c h1 h2 h; exact h.users r c h1 h2
    · intro h1 h; exact h.level r h1
    · intro c h1 h2 h; exact h.items r c h1 h2
  dropGetQ s r e := by
    unfold dropGetQ
    apply keepsRes_setRes <;> try rfl
    · intro c h1 h2 h; exact h.users r c h1 h2
    · intro h1 h; exact h.level r h1
    · intro c h1 h2 h; exact h.items r c h1 h2
  enqPut s r e _ := by
    unfold enqPut
    apply keepsRes_setRes <;> try rfl
    · intro c h1 h2 h; exact h.users r c h1 h2
    · intro h1 h; exact h.level r h1
    · intro c h1 h2 h; exact h.items r c h1 h2
  enqGet s r e _ := by
    unfold enqGet
    apply keepsRes_setRes <;> try rfl
    · intro c h1 h2 h; exact h.users r c h1 h2
    · intro h1 h; exact h.level r h1
    · intro c h1 h2 h; exact h.items r c h1 h2
