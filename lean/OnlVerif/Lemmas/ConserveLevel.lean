import OnlVerif.Lemmas.ConserveSum
/-!
# C07: a Container's level = initial level + granted puts − granted gets, along every run
-/

variable {σ : Type}

namespace Conserve

/-- the put requests of resource `r` that have been granted (= triggered), in creation order -/
def grantedPuts (s : KState ℚ σ) (r : ResId) : List EvId :=
  (List.range s.events.size).filter (fun e => decide ((s.ev e).kind = .put r) && s.triggered e)

/-- the get requests of resource `r` that have been granted (= triggered), in creation order -/
def grantedGets (s : KState ℚ σ) (r : ResId) : List EvId :=
  (List.range s.events.size).filter (fun e => decide ((s.ev e).kind = .get r) && s.triggered e)

/-- the sum of the amounts the listed requests carry -/
def amountSum (s : KState ℚ σ) (l : List EvId) : Int := (l.map (fun e => (reqOf s e).amount)).sum

def wPutAmt (r : ResId) : Weight := fun k o c => if k = .put r ∧ o.isSome = true then c.amount else 0
def wGetAmt (r : ResId) : Weight := fun k o c => if k = .get r ∧ o.isSome = true then c.amount else 0

theorem wPutAmt_ok (r : ResId) : (wPutAmt r).Ok := by
  constructor
  · intro k o c hk
    unfold wPutAmt
    rw [if_neg]
    rintro ⟨h, _⟩; subst h; cases hk
  · intro k c
    unfold wPutAmt
    rw [if_neg]
    rintro ⟨_, h⟩; cases h

theorem wGetAmt_ok (r : ResId) : (wGetAmt r).Ok := by
  constructor
  · intro k o c hk
    unfold wGetAmt
    rw [if_neg]
    rintro ⟨h, _⟩; subst h; cases hk
  · intro k c
    unfold wGetAmt
    rw [if_neg]
    rintro ⟨_, h⟩; cases h

theorem tot_wPutAmt (s : KState ℚ σ) (r : ResId) : tot (wPutAmt r) s = amountSum s (grantedPuts s r) := by
  unfold tot amountSum grantedPuts
  rw [← sumTo_eq_list]
  apply sumTo_congr
  intro a _
  unfold wt wPutAmt KState.triggered
  by_cases h1 : (s.ev a).kind = .put r <;> by_cases h2 : (s.ev a).out.isSome = true <;> simp [h1, h2] <;> rfl

theorem tot_wGetAmt (s : KState ℚ σ) (r : ResId) : tot (wGetAmt r) s = amountSum s (grantedGets s r) := by
  unfold tot amountSum grantedGets
  rw [← sumTo_eq_list]
  apply sumTo_congr
  intro a _
  unfold wt wGetAmt KState.triggered
  by_cases h1 : (s.ev a).kind = .get r <;> by_cases h2 : (s.ev a).out.isSome = true <;> simp [h1, h2] <;> rfl

/-! ## level and items are touched only by grants -/

theorem newPut_resLI (s : KState ℚ σ) (r : ResId) (rq : ReqData ℚ) (r' : ResId) :
    ((newPutSt s r rq).res r').level = (s.res r').level ∧ ((newPutSt s r rq).res r').items = (s.res r').items := by
  by_cases h : r' = r
  · subst h
    by_cases hr : r' < s.resources.size
    · rw [newPut_res_in s r' rq hr]; exact ⟨rfl, rfl⟩
    · rw [newPut_res_out s r' rq hr]; exact ⟨rfl, rfl⟩
  · rw [newPut_resOther s r rq r' h]; exact ⟨rfl, rfl⟩

theorem newGet_resLI (s : KState ℚ σ) (r : ResId) (rq : ReqData ℚ) (r' : ResId) :
    ((newGetSt s r rq).res r').level = (s.res r').level ∧ ((newGetSt s r rq).res r').items = (s.res r').items := by
  by_cases h : r' = r
  · subst h
    by_cases hr : r' < s.resources.size
    · rw [newGet_res_in s r' rq hr]; exact ⟨rfl, rfl⟩
    · rw [newGet_res_out s r' rq hr]; exact ⟨rfl, rfl⟩
  · rw [newGet_resOther s r rq r' h]; exact ⟨rfl, rfl⟩

theorem dropPutQ_resLI (s : KState ℚ σ) (r : ResId) (e : EvId) (r' : ResId) :
    ((dropPutQ s r e).res r').level = (s.res r').level ∧ ((dropPutQ s r e).res r').items = (s.res r').items := by
  rw [dropPutQ_res]
  split
  · rename_i h; rw [h.1]; exact ⟨rfl, rfl⟩
  · exact ⟨rfl, rfl⟩

theorem dropGetQ_resLI (s : KState ℚ σ) (r : ResId) (e : EvId) (r' : ResId) :
    ((dropGetQ s r e).res r').level = (s.res r').level ∧ ((dropGetQ s r e).res r').items = (s.res r').items := by
  rw [dropGetQ_res]
  split
  · rename_i h; rw [h.1]; exact ⟨rfl, rfl⟩
  · exact ⟨rfl, rfl⟩

/-! ## the conserved quantity -/

/-- `level − Σ granted puts + Σ granted gets` of container `r` -/
def levelPot (s : KState ℚ σ) (r : ResId) : Int := (s.res r).level - tot (wPutAmt r) s + tot (wGetAmt r) s

def LevelCons (s s' : KState ℚ σ) : Prop := ∀ r, (s.res r).kind = .container → levelPot s' r = levelPot s r

def LevelRel (s s' : KState ℚ σ) : Prop := Base s s' ∧ (WF s → LevelCons s s')

theorem levelPot_of_same {s s' : KState ℚ σ} {r : ResId} (hl : (s'.res r).level = (s.res r).level)
    (hp : tot (wPutAmt r) s' = tot (wPutAmt r) s) (hg : tot (wGetAmt r) s' = tot (wGetAmt r) s) :
    levelPot s' r = levelPot s r := by
  unfold levelPot; rw [hl, hp, hg]

theorem LevelRel.crel : CRel (LevelRel (σ := σ)) where
  refl s := ⟨Base.refl s, fun _ _ _ => rfl⟩
  trans := by
    intro s1 s2 s3 h12 h23
    refine ⟨h12.1.trans h23.1, ?_⟩
    intro hW r hk
    have hk2 : (s2.res r).kind = .container := by rw [h12.1.resKind]; exact hk
    rw [h23.2 (h12.1.keepWF hW) r hk2, h12.2 hW r hk]
  toBase h := h.1
  frame s s' _ h := ⟨Base.of_frame h, fun _ r _ => levelPot_of_same (h.res r).level (tot_frame h) (tot_frame h)⟩
  alloc s s' x _ he hk hc hr hp := by
    refine ⟨Base.of_alloc x he hk hc hr hp, fun _ r _ => levelPot_of_same ?_ (tot_alloc (wPutAmt_ok r) x he hk)
      (tot_alloc (wGetAmt_ok r) x he hk)⟩
    simp only [KState.res, hr]
  trigNR s e o _ hn := ⟨Base.of_trigNR s e o hn, fun _ r _ =>
    levelPot_of_same rfl (tot_trigNR (wPutAmt_ok r) s e o hn) (tot_trigNR (wGetAmt_ok r) s e o hn)⟩
  grantPut s r0 e rest hW hq _ := by
    have hE := Base.putEffect_of_guard hW hq
    have hmem : e ∈ (s.res r0).putQ := by rw [hq]; exact List.mem_cons_self
    have hew := hW.putQ r0 e hmem
    have hlt : e < s.events.size := lt_size_of_kind (by rw [hew.1]; simp)
    refine ⟨Base.of_putEffect hW hmem hE, ?_⟩
    intro _ r hk
    have hp := tot_grant (wPutAmt_ok r) hE.size hlt hE.kind hE.core hE.outE hE.outOther hew.2
    have hg := tot_grant (wGetAmt_ok r) hE.size hlt hE.kind hE.core hE.outE hE.outOther hew.2
    unfold levelPot
    rw [hp, hg, hew.1]
    have hg0 : wGetAmt r (.put r0) (some (.ok .none)) (coreOf s e) = 0 := by
      unfold wGetAmt; rw [if_neg]; rintro ⟨h, _⟩; cases h
    rw [hg0]
    by_cases hrr : r = r0
    · subst hrr
      have hp1 : wPutAmt r (.put r) (some (.ok .none)) (coreOf s e) = (reqOf s e).amount := by
        unfold wPutAmt; rw [if_pos ⟨rfl, rfl⟩]; rfl
      rw [hp1, hE.levelC hk]; ring
    · have hp0 : wPutAmt r (.put r0) (some (.ok .none)) (coreOf s e) = 0 := by
        unfold wPutAmt; rw [if_neg]; rintro ⟨h, _⟩; injection h with h; exact hrr h.symm
      rw [hp0, hE.resOther r hrr]; ring
  grantGet s r0 e v pre rest hW hq hgi _ := by
    have hE := Base.getEffect_of_guard hW hq hgi
    have hmem : e ∈ (s.res r0).getQ := by rw [hq]; simp
    have hew := hW.getQ r0 e hmem
    have hlt : e < s.events.size := lt_size_of_kind (by rw [hew.1]; simp)
    refine ⟨Base.of_getEffect hW hmem hE, ?_⟩
    intro _ r hk
    have hp := tot_grant (wPutAmt_ok r) hE.size hlt hE.kind hE.core hE.outE hE.outOther hew.2
    have hg := tot_grant (wGetAmt_ok r) hE.size hlt hE.kind hE.core hE.outE hE.outOther hew.2
    unfold levelPot
    rw [hp, hg, hew.1]
    have hp0 : wPutAmt r (.get r0) (some (.ok v)) (coreOf s e) = 0 := by
      unfold wPutAmt; rw [if_neg]; rintro ⟨h, _⟩; cases h
    rw [hp0]
    by_cases hrr : r = r0
    · subst hrr
      have hg1 : wGetAmt r (.get r) (some (.ok v)) (coreOf s e) = (reqOf s e).amount := by
        unfold wGetAmt; rw [if_pos ⟨rfl, rfl⟩]; rfl
      rw [hg1, hE.levelC hk]; ring
    · have hg0 : wGetAmt r (.get r0) (some (.ok v)) (coreOf s e) = 0 := by
        unfold wGetAmt; rw [if_neg]; rintro ⟨h, _⟩; injection h with h; exact hrr h.symm
      rw [hg0, hE.resOther r hrr]; ring
  newPut s r0 rq _ := ⟨Base.of_newPut s r0 rq, fun _ r _ => levelPot_of_same (newPut_resLI s r0 rq r).1
    (tot_newReq (wPutAmt_ok r) (newPut_ev s r0 rq) rfl) (tot_newReq (wGetAmt_ok r) (newPut_ev s r0 rq) rfl)⟩
  newGet s r0 rq _ := ⟨Base.of_newGet s r0 rq, fun _ r _ => levelPot_of_same (newGet_resLI s r0 rq r).1
    (tot_newReq (wPutAmt_ok r) (newGet_ev s r0 rq) rfl) (tot_newReq (wGetAmt_ok r) (newGet_ev s r0 rq) rfl)⟩
  cancelPut s r0 e _ _ _ _ := ⟨Base.of_cancelPut s r0 e, fun _ r _ => levelPot_of_same (dropPutQ_resLI s r0 e r).1
    (tot_sameEv (fun _ => rfl) rfl) (tot_sameEv (fun _ => rfl) rfl)⟩
  cancelGet s r0 e _ _ _ _ := ⟨Base.of_cancelGet s r0 e, fun _ r _ => levelPot_of_same (dropGetQ_resLI s r0 e r).1
    (tot_sameEv (fun _ => rfl) rfl) (tot_sameEv (fun _ => rfl) rfl)⟩

/-- level conservation between any two states of a run inside the domain -/
theorem reach_levelCons (body : σ → Resume → Burst ℚ σ) (fuel : Nat) (s0 s : KState ℚ σ) (hW : WF s0)
    (hr : SafeReach body fuel s0 s) (r : ResId) (hk : (s.res r).kind = .container) :
    (s.res r).level - amountSum s (grantedPuts s r) + amountSum s (grantedGets s r) =
      (s0.res r).level - amountSum s0 (grantedPuts s0 r) + amountSum s0 (grantedGets s0 r) := by
  have h := LevelRel.crel.reach body fuel s0 s hW hr
  have hk0 : (s0.res r).kind = .container := by rw [← h.1.resKind]; exact hk
  have := h.2 hW r hk0
  unfold levelPot at this
  rw [tot_wPutAmt, tot_wGetAmt, tot_wPutAmt, tot_wGetAmt] at this
  exact this

theorem grantedPuts_noReq (s : KState ℚ σ) (r : ResId) (h : ∀ e, isReq s e = false) : grantedPuts s r = [] := by
  unfold grantedPuts
  rw [List.filter_eq_nil_iff]
  intro a _
  have := h a
  unfold isReq at this
  by_cases hk : (s.ev a).kind = .put r
  · rw [hk] at this; cases this
  · simp [hk]

theorem grantedGets_noReq (s : KState ℚ σ) (r : ResId) (h : ∀ e, isReq s e = false) : grantedGets s r = [] := by
  unfold grantedGets
  rw [List.filter_eq_nil_iff]
  intro a _
  have := h a
  unfold isReq at this
  by_cases hk : (s.ev a).kind = .get r
  · rw [hk] at this; cases this
  · simp [hk]

end Conserve
