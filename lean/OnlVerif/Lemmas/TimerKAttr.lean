import Lean.Meta.Tactic.Simp.RegisterCommand
/-! simp sets used to execute the kernel model symbolically on the Timer program (`timerk`) and to take the list of
the events of a configuration apart (`idsk`) -/
register_simp_attr timerk
register_simp_attr idsk
register_simp_attr wirek
