import OnlVerif.Lemmas.StampWfqFun
/-!
# Invariants of WFQ on the StampServer

`WInv`: `class_count` counts the packets of each class the scheduler still accounts for, `active_set` is exactly
the set of classes with a positive count, finish times exist for every weighted class while anything is active,
and virtual time and all finish times are 0 whenever nothing is.
`WOrd`: every waiting packet's stamp is at most its class's finish time, and the packets of one class carry
strictly increasing stamps (needs positive rate, weights and sizes).
-/

namespace WFQ
open Stamp

abbrev WState := StState ℚ (WfqSt ℚ)

/-- class of a flow -/
def clsOf (c : WfqCfg ℚ) (f : Nat) : Option Nat := lookup c.flow2class f
/-- 1 for packets of class `k` -/
def cind (c : WfqCfg ℚ) (k : Nat) (p : SPkt) : Int := if clsOf c p.flow = some k then 1 else 0
/-- `class_count[k]` (0 when absent) -/
def ccOf (st : WfqSt ℚ) (k : Nat) : Int := (lookup st.classCount k).getD 0

theorem msum_cind_nonneg (c : WfqCfg ℚ) (k : Nat) (l : List SPkt) : 0 ≤ msum (cind c k) l := by
  induction l with
  | nil => simp
  | cons p l ih =>
    simp only [msum_cons, cind]
    split <;> omega

theorem msum_cind_pos_of_mem (c : WfqCfg ℚ) (k : Nat) (l : List SPkt) (p : SPkt) (hp : p ∈ l)
    (hk : clsOf c p.flow = some k) : 0 < msum (cind c k) l := by
  induction l with
  | nil => simp at hp
  | cons q l ih =>
    simp only [msum_cons]
    rcases List.mem_cons.mp hp with rfl | hp
    · have := msum_cind_nonneg c k l
      simp only [cind, hk, if_true]
      omega
    · have := ih hp
      have h2 : 0 ≤ cind c k q := by unfold cind; split <;> omega
      omega

theorem msum_cind_pos (c : WfqCfg ℚ) (k : Nat) (l : List SPkt) (h : 0 < msum (cind c k) l) :
    ∃ p ∈ l, clsOf c p.flow = some k := by
  induction l with
  | nil => simp at h
  | cons q l ih =>
    simp only [msum_cons] at h
    by_cases hq : clsOf c q.flow = some k
    · exact ⟨q, by simp, hq⟩
    · simp only [cind, hq, if_false, zero_add] at h
      obtain ⟨p, hp, hk⟩ := ih h
      exact ⟨p, List.mem_cons_of_mem _ hp, hk⟩

structure WInv (c : WfqCfg ℚ) (s : WState) : Prop where
  /-- `total_packets` counts the packets waiting or in transmission -/
  tot : Tot s
  cc : ∀ k, ccOf s.sch k = msum (cind c k) (held' s)
  act : ∀ k, k ∈ s.sch.active ↔ 0 < ccOf s.sch k
  sorted : s.sch.active.Pairwise (· < ·)
  conf : ∀ p ∈ held' s, ∃ k w, clsOf c p.flow = some k ∧ lookup c.weights k = some w
  fkeys : s.sch.active ≠ [] → ∀ k w, lookup c.weights k = some w → ∃ F, lookup s.sch.finish k = some F
  fsub : ∀ k F, lookup s.sch.finish k = some F → (lookup c.weights k).isSome
  zero : s.sch.active = [] → s.sch.vtime = 0 ∧ ∀ k F, lookup s.sch.finish k = some F → F = 0

/-- the initial state of a WFQ scheduler -/
def start (t0 : ℚ) : WState := Stamp.init WFQ.init0 t0

theorem init_winv (c : WfqCfg ℚ) (t0 : ℚ) : WInv c (start t0) := by
  refine ⟨init_tot _ _, ?_, ?_, ?_, ?_, ?_, ?_, ?_⟩
  · intro k; simp [start, Stamp.init, init0, ccOf, lookup, held', held, inHand, waiting, finL]
  · intro k; simp [start, Stamp.init, init0, ccOf, lookup]
  · simp [start, Stamp.init, init0]
  · intro p hp; simp [start, Stamp.init, held', held, inHand, waiting, finL] at hp
  · intro h; simp [start, Stamp.init, init0] at h
  · intro k F h; simp [start, Stamp.init, init0, lookup] at h
  · intro _
    refine ⟨by simp [start, Stamp.init, init0, zero_eq_q], ?_⟩
    intro k F h; simp [start, Stamp.init, init0, lookup] at h

/-- nothing active ⇔ the scheduler accounts for no packet -/
theorem WInv.active_nil_iff {c : WfqCfg ℚ} {s : WState} (h : WInv c s) : s.sch.active = [] ↔ held' s = [] := by
  constructor
  · intro ha
    by_contra hne
    obtain ⟨p, hp⟩ := List.exists_mem_of_ne_nil _ hne
    obtain ⟨k, w, hk, _⟩ := h.conf p hp
    have h1 := msum_cind_pos_of_mem c k _ p hp hk
    rw [← h.cc k] at h1
    have := (h.act k).mpr h1
    rw [ha] at this
    simp at this
  · intro he
    apply List.eq_nil_iff_forall_not_mem.mpr
    intro k hk
    have := (h.act k).mp hk
    rw [h.cc k, he] at this
    simp at this

/-- a class is active iff one of its packets is waiting, in transmission or not yet booked out -/
theorem WInv.active_iff {c : WfqCfg ℚ} {s : WState} (h : WInv c s) (k : Nat) :
    k ∈ s.sch.active ↔ ∃ p ∈ held' s, clsOf c p.flow = some k := by
  rw [h.act k, h.cc k]
  constructor
  · exact msum_cind_pos c k _
  · rintro ⟨p, hp, hk⟩; exact msum_cind_pos_of_mem c k _ p hp hk

theorem WInv.active_weighted {c : WfqCfg ℚ} {s : WState} (h : WInv c s) (k : Nat) (hk : k ∈ s.sch.active) :
    (lookup c.weights k).isSome := by
  obtain ⟨p, hp, hc⟩ := (h.active_iff k).mp hk
  obtain ⟨k', w, hk', hw⟩ := h.conf p hp
  rw [hc] at hk'
  cases hk'
  simp [hw]

/-- `total_packets ≠ 0`: something is waiting or in transmission, so some class is active -/
theorem WInv.active_ne_of_total {c : WfqCfg ℚ} {s : WState} (h : WInv c s) (hne : qcTotal s.queueCount ≠ 0) :
    s.sch.active ≠ [] := by
  intro hc
  have he := h.active_nil_iff.mp hc
  simp only [held', List.append_eq_nil_iff] at he
  exact hne (h.tot.zero_iff.mpr he.1)

theorem getD_match (o : Option Int) : (match o with | some n => n | none => 0) = o.getD 0 := by
  cases o <;> rfl

theorem ccOf_commit (st : WfqSt ℚ) (k k' : Nat) (F now : ℚ) :
    ccOf (commit st k F now) k' = ccOf st k' + if k' = k then 1 else 0 := by
  simp only [ccOf, commit, lookup_setKey]
  by_cases h : k' = k
  · subst h
    cases lookup st.classCount k' <;> simp
  · simp [h]

theorem cind_of_cls (c : WfqCfg ℚ) (k k' : Nat) (p : SPkt) (hk : clsOf c p.flow = some k) :
    cind c k' p = if k' = k then 1 else 0 := by
  simp only [cind, hk, Option.some.injEq]
  by_cases h : k' = k
  · subst h; simp
  · have : ¬ k = k' := fun e => h e.symm
    simp [h, this]

/-- states whose scheduler part and accounted packets agree have the same invariant -/
theorem winv_of_same {c : WfqCfg ℚ} {s s' : WState} (h : WInv c s) (htot : Tot s') (hsch : s'.sch = s.sch)
    (hm : ∀ g, msum g (held' s') = msum g (held' s)) (hmem : ∀ p ∈ held' s', p ∈ held' s) :
    WInv c s' := by
  refine ⟨htot, ?_, ?_, ?_, ?_, ?_, ?_, ?_⟩
  · intro k; rw [hsch, hm]; exact h.cc k
  · intro k; rw [hsch]; exact h.act k
  · rw [hsch]; exact h.sorted
  · intro p hp; exact h.conf p (hmem p hp)
  · rw [hsch]; exact h.fkeys
  · rw [hsch]; exact h.fsub
  · rw [hsch]; exact h.zero

/-- **`WInv` is an invariant.** -/
theorem step_winv {c : WfqCfg ℚ} {s s' : WState} {a : StAct ℚ} {o : StOut} (hg : GInv s) (hw : WInv c s)
    (ht : Trans (sched c) s a s' o) : WInv c s' := by
  have key := step_held' hg ht
  have mem := fun p (hp : p ∈ held' s') => step_held'_mem hg ht hp
  have htot := step_tot hg ht hw.tot
  cases ht with
  | initBlock h1 h2 =>
    exact winv_of_same hw htot rfl (fun g => by simpa [entered, booked] using key g)
      (fun p hp => by simpa [entered] using mem p hp)
  | initServe id it rest h1 h2 =>
    exact winv_of_same hw htot rfl (fun g => by simpa [entered, booked] using key g)
      (fun p hp => by simpa [entered] using mem p hp)
  | handoff id it rest h1 h2 =>
    exact winv_of_same hw htot rfl (fun g => by simpa [entered, booked] using key g)
      (fun p hp => by simpa [entered] using mem p hp)
  | resume it h1 =>
    exact winv_of_same hw htot rfl (fun g => by simpa [entered, booked] using key g)
      (fun p hp => by simpa [entered] using mem p hp)
  | sendInit p h1 h2 h3 =>
    exact winv_of_same hw htot rfl (fun g => by simpa [entered, booked] using key g)
      (fun p hp => by simpa [entered] using mem p hp)
  | sendFire p due h1 h2 =>
    exact winv_of_same hw htot rfl (fun g => by simpa [entered, booked] using key g)
      (fun p hp => by simpa [entered] using mem p hp)
  | tick t h1 =>
    exact winv_of_same hw htot rfl (fun g => by simpa [entered, booked] using key g)
      (fun p hp => by simpa [entered] using mem p hp)
  | sample b =>
    exact hw
  | put p sch stamp h1 =>
    obtain ⟨k, st1, f, w, hk, ha, hf, hwt, hz, rfl, rfl⟩ := put_spec c _ _ _ _ _ _ h1
    have hst1 : st1.classCount = s.sch.classCount ∧ st1.active = s.sch.active := by
      rcases advance_spec c _ _ _ _ ha with ⟨_, rfl⟩ | ⟨_, _, _, rfl⟩ <;> exact ⟨rfl, rfl⟩
    have hcc1 : ∀ k', ccOf st1 k' = ccOf s.sch k' := fun k' => by simp [ccOf, hst1.1]
    refine ⟨htot, ?_, ?_, ?_, ?_, ?_, ?_, ?_⟩
    · intro k'
      have := key (cind c k')
      simp only [entered, booked, msum_cons, msum_nil, add_zero, sub_zero] at this
      show ccOf (commit st1 k _ s.now) k' = _
      rw [this, ccOf_commit, hcc1, hw.cc k', cind_of_cls c k k' p hk]
    · intro k'
      show k' ∈ insertAsc k st1.active ↔ 0 < ccOf (commit st1 k _ s.now) k'
      rw [mem_insertAsc, hst1.2, hw.act k', ccOf_commit, hcc1]
      have h0 : 0 ≤ ccOf s.sch k' := by rw [hw.cc k']; exact msum_cind_nonneg c k' _
      by_cases h : k' = k
      · simp only [h, if_true, true_or, true_iff]; rw [h] at h0; omega
      · simp [h]
    · show (insertAsc k st1.active).Pairwise (· < ·)
      rw [hst1.2]; exact sorted_insertAsc k _ hw.sorted
    · intro q hq
      rcases mem q hq with h | h
      · exact hw.conf q h
      · simp only [entered, List.mem_singleton] at h
        subst h
        exact ⟨k, w, hk, hwt⟩
    · intro _ k' w' hw'
      show ∃ F, lookup (setKey st1.finish k _) k' = some F
      rw [lookup_setKey]
      by_cases h : k' = k
      · simp [h]
      · simp only [h, if_false]
        rcases advance_spec c _ _ _ _ ha with ⟨_, rfl⟩ | ⟨hne, _, _, rfl⟩
        · simp [resetVtime, lookup_zeroFinish, hw']
        · exact hw.fkeys (hw.active_ne_of_total hne) k' w' hw'
    · intro k' F' hF
      change lookup (setKey st1.finish k _) k' = some F' at hF
      rw [lookup_setKey] at hF
      by_cases h : k' = k
      · subst h; simp [hwt]
      · simp only [h, if_false] at hF
        rcases advance_spec c _ _ _ _ ha with ⟨_, rfl⟩ | ⟨_, _, _, rfl⟩
        · simp only [resetVtime, lookup_zeroFinish] at hF
          by_cases hs : (lookup c.weights k').isSome
          · exact hs
          · simp only [hs] at hF
            exact hw.fsub k' F' hF
        · exact hw.fsub k' F' hF
    · intro hnil
      exact absurd hnil (insertAsc_ne_nil k _)
  | doneBlock p sch h1 h2 h3 =>
    exact step_winv_done hg hw htot h1 h2 (fun g => by simpa [entered, booked, finL, h1] using key g)
      (fun q hq => by simpa [entered] using mem q hq)
  | doneServe p sch id it rest h1 h2 h3 =>
    exact step_winv_done hg hw htot h1 h2 (fun g => by simpa [entered, booked, finL, h1] using key g)
      (fun q hq => by simpa [entered] using mem q hq)
where
  /-- the bookkeeping burst -/
  step_winv_done {c : WfqCfg ℚ} {s s' : WState} {p : SPkt} {sch : WfqSt ℚ} (_hg : GInv s) (hw : WInv c s)
      (htot : Tot s') (h1 : s.fin = some p) (h2 : (sched c).onDone s.sch s.now p = .ok sch)
      (key : ∀ g, msum g (held' s') = msum g (held' s) - g p) (mem : ∀ q ∈ held' s', q ∈ held' s)
      (hsch : s'.sch = sch := by rfl) : WInv c s' := by
    obtain ⟨st1, k, st2, hu, hk, hl, rfl⟩ := done_spec c _ _ _ _ h2
    obtain ⟨_, _, rfl⟩ := updateVtime_spec c _ _ _ hu
    obtain ⟨n, hn, hcase⟩ := leave_spec _ _ _ hl
    have hpm : p ∈ held' s := by simp [held', finL, h1]
    have hnk : n = ccOf s.sch k := by simp [ccOf] at hn ⊢; rw [hn]; rfl
    have hn1 : 1 ≤ n := by
      rw [hnk, hw.cc k]
      have := msum_cind_pos_of_mem c k _ p hpm hk
      omega
    have hcc2 : ∀ k', ccOf st2 k' = ccOf s.sch k' - if k' = k then 1 else 0 := by
      intro k'
      have : st2.classCount = setKey s.sch.classCount k (n - 1) := by
        rcases hcase with ⟨_, _, rfl⟩ | ⟨_, rfl⟩ <;> rfl
      simp only [ccOf, this, lookup_setKey]
      by_cases h : k' = k
      · subst h; simp only [if_true, Option.getD_some]; rw [hnk]; simp [ccOf]
      · simp [h]
    have hfin2 : st2.finish = s.sch.finish := by
      rcases hcase with ⟨_, _, rfl⟩ | ⟨_, rfl⟩ <;> rfl
    have hact2 : ∀ k', k' ∈ st2.active ↔ 0 < ccOf st2 k' := by
      intro k'
      rw [hcc2]
      rcases hcase with ⟨h0, hka, rfl⟩ | ⟨h0, rfl⟩
      · simp only [List.mem_filter, ne_eq, decide_not, Bool.not_eq_eq_eq_not, Bool.not_true,
          decide_eq_false_iff_not]
        rw [hw.act k']
        by_cases h : k' = k
        · subst h; simp only [not_true_eq_false, and_false, if_true, false_iff]; rw [← hnk]; omega
        · simp [h]
      · show k' ∈ s.sch.active ↔ _
        rw [hw.act k']
        by_cases h : k' = k
        · subst h; simp only [if_true]; rw [← hnk]; omega
        · simp [h]
    have hsub2 : ∀ k', k' ∈ st2.active → k' ∈ s.sch.active := by
      intro k' hk'
      rcases hcase with ⟨_, _, rfl⟩ | ⟨_, rfl⟩
      · exact (List.mem_filter.mp hk').1
      · exact hk'
    have hsorted2 : st2.active.Pairwise (· < ·) := by
      rcases hcase with ⟨_, _, rfl⟩ | ⟨_, rfl⟩
      · exact hw.sorted.sublist List.filter_sublist
      · exact hw.sorted
    refine ⟨htot, ?_, ?_, ?_, ?_, ?_, ?_, ?_⟩
    · intro k'
      rw [hsch]
      simp only [ccOf, settle_classCount]
      have := hcc2 k'
      simp only [ccOf] at this
      rw [this, key, cind_of_cls c k k' p hk]
      have := hw.cc k'
      simp only [ccOf] at this
      rw [this]
    · intro k'
      rw [hsch, settle_active]
      simp only [ccOf, settle_classCount]
      exact hact2 k'
    · rw [hsch, settle_active]; exact hsorted2
    · intro q hq; exact hw.conf q (mem q hq)
    · rw [hsch, settle_active]
      intro hne k' w' hw'
      have hne' : ¬ st2.active.isEmpty = true := by simpa using hne
      simp only [settle, hne', if_false, Bool.false_eq_true, hfin2]
      apply hw.fkeys _ k' w' hw'
      intro hnil
      obtain ⟨x, hx⟩ := List.exists_mem_of_ne_nil _ hne
      have := hsub2 x hx
      rw [hnil] at this
      simp at this
    · rw [hsch]
      intro k' F' hF
      unfold settle at hF
      split at hF
      · simp only [resetVtime, lookup_zeroFinish, hfin2] at hF
        by_cases hs : (lookup c.weights k').isSome
        · exact hs
        · simp only [hs] at hF
          exact hw.fsub k' F' hF
      · simp only [hfin2] at hF
        exact hw.fsub k' F' hF
    · rw [hsch, settle_active]
      intro hnil
      have he : st2.active.isEmpty = true := by simp [hnil]
      simp only [settle, he, if_true, resetVtime, zero_eq_q]
      refine ⟨trivial, ?_⟩
      intro k' F' hF
      simp only [lookup_zeroFinish, hfin2] at hF
      by_cases hs : (lookup c.weights k').isSome
      · simp only [hs, if_true, Option.some.injEq] at hF; exact hF.symm
      · simp only [hs] at hF
        have := hw.fsub k' F' hF
        exact absurd this hs

end WFQ
