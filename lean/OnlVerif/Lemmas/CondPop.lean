import OnlVerif.Lemmas.CondInv
/-!
# Ghost moves (a plain callback leaves the pending list) and the pop of `step`
-/

namespace Cond
variable {σ : Type}

open Once (lt_of_isCond isCond_congr lt_of_cbs_some ev_default)

theorem evaluate_mono {all : Bool} {n k k' : Nat} (h : evaluate all n k = true) (h1 : k ≤ k') (h2 : k' ≤ n) :
    evaluate all n k' = true := by
  unfold evaluate at h ⊢
  cases all
  · simp only [Bool.false_eq_true, if_false, Bool.or_eq_true, decide_eq_true_eq, beq_iff_eq] at h ⊢
    rcases h with h | h
    · left; omega
    · right; exact h
  · simp only [if_true, beq_iff_eq] at h ⊢
    omega

theorem nProcessed_le (s : KState ℚ σ) (c : EvId) : nProcessed s c ≤ (ops s c).length := List.countP_le_length

/-! ## the pending list changes, the state does not -/

theorem Gone.rem_change {rem rem' : List Cb} {s : KState ℚ σ} (hb : ∀ c, Cb.build c ∈ rem → Cb.build c ∈ rem') {d : EvId}
    (h : Gone rem' s d) : Gone rem s d :=
  Gone.transfer (Shape.refl s) (fun a ha => ⟨ha.1, ha.2.1, fun hm => ha.2.2 (hb a hm)⟩) h

theorem CInv.rem_change {rem rem' : List Cb} {e0 : EvId} {s : KState ℚ σ} (hc : CInv rem e0 s)
    (hb : ∀ c, Cb.build c ∈ rem' ↔ Cb.build c ∈ rem) (hk : ∀ c, rem'.count (.check c) = rem.count (.check c))
    (hbc : ∀ c, rem'.count (.build c) ≤ 1) (hne : rem' ≠ [] → rem ≠ []) : CInv rem' e0 s := by
  have hg : ∀ d, Gone rem' s d ↔ Gone rem s d := fun d =>
    ⟨Gone.rem_change (fun c => (hb c).mpr), Gone.rem_change (fun c => (hb c).mp)⟩
  have hm : ∀ c, Cb.check c ∈ rem' ↔ Cb.check c ∈ rem := fun c => by
    rw [← List.count_pos_iff, ← List.count_pos_iff, hk]
  refine ⟨hc.older, ?_, ?_, ?_, ?_, hc.bld_own, hc.bld_cnt, ?_, hbc, fun h => hc.e0_done (hne h), ?_, ?_, hc.unmet, hc.met,
    hc.failsrc⟩
  · intro c h; exact hc.chk_att c (fun hh => h ((hg c).mpr hh))
  · intro c h; exact hc.chk_gone c ((hg c).mp h)
  · intro c h; exact hc.rem_att c ((hm c).mp h)
  · intro c h h2; exact hc.rem_gone c ((hg c).mp h) ((hm c).mp h2)
  · intro c h; exact hc.rem_bld_own c ((hb c).mp h)
  · intro c h1 h2 h3; rw [hk]; exact hc.cnt c h1 h2 (fun hh => h3 ((hg c).mpr hh))
  · intro c h1 h2 h3 e he hp x hx
    obtain ⟨h4, h5⟩ := hc.nofail c h1 h2 (fun hh => h3 ((hg c).mpr hh)) e he hp x hx
    exact ⟨h4, (hm c).mpr h5⟩

/-- a callback that is not condition bookkeeping leaves the pending list -/
theorem CInv.drop_plain {cb : Cb} {rest : List Cb} {e0 : EvId} {s : KState ℚ σ} (hc : CInv (cb :: rest) e0 s)
    (hp : plainCb cb = true) : CInv rest e0 s := by
  refine hc.rem_change ?_ ?_ ?_ (fun _ => by simp)
  · intro c
    rw [List.mem_cons]
    constructor
    · exact Or.inr
    · rintro (h | h)
      · rw [← h] at hp; cases hp
      · exact h
  · intro c
    rw [List.count_cons]
    have : ¬ (cb == Cb.check c) = true := by
      intro h; rw [beq_iff_eq] at h; rw [h] at hp; cases hp
    simp [this]
  · intro c
    have := hc.rem_bld_cnt c
    rw [List.count_cons] at this
    omega

theorem Gone.drop_plain {cb : Cb} {rest : List Cb} {s : KState ℚ σ} (hp : plainCb cb = true) (d : EvId) :
    Gone (cb :: rest) s d ↔ Gone rest s d := by
  constructor
  · apply Gone.rem_change
    intro c h; exact List.mem_cons_of_mem _ h
  · apply Gone.rem_change
    intro c h
    rcases List.mem_cons.mp h with h | h
    · rw [← h] at hp; cases hp
    · exact h

/-- between two steps the ghost event is irrelevant -/
theorem CInv.e0_irrel {e0 : EvId} {s : KState ℚ σ} (hc : CInv [] e0 s) (x : EvId) : CInv [] x s := by
  refine ⟨hc.older, hc.chk_att, hc.chk_gone, (fun c h => by cases h), hc.rem_gone, hc.bld_own, hc.bld_cnt, (fun c h => by cases h),
   hc.rem_bld_cnt, (fun h => absurd rfl h), hc.cnt, ?_, hc.unmet, hc.met, hc.failsrc⟩
  intro c h1 h2 h3 e he hp x hx
  have := (hc.nofail c h1 h2 h3 e he hp x hx).2
  cases this

/-! ## the pop -/

theorem ev_openEvent (s : KState ℚ σ) (q : QEntry ℚ) (rest : List (QEntry ℚ)) (e : EvId) :
    (openEvent s q rest).ev e = if e = q.ev ∧ q.ev < s.events.size then { s.ev q.ev with cbs := none } else s.ev e := by
  simp only [KState.ev, openEvent, getD_setIfInBounds]

theorem countP_or_eq (l : List EvId) (p : EvId → Bool) (x : EvId) (hx : p x = false) :
    l.countP (fun e => p e || e == x) = l.countP p + l.count x := by
  induction l with
  | nil => rfl
  | cons a l ih =>
    rw [List.countP_cons, List.countP_cons, List.count_cons, ih]
    by_cases h : a = x
    · subst h; simp [hx]; omega
    · have : (a == x) = false := by simpa using h
      simp [this]; omega

/-- **the pop keeps the counting invariant**: the `_check`s subscribed to the popped event become the pending ones -/
theorem CInv.openEvent {lv strict : Bool} {x0 : EvId} {s : KState ℚ σ} (hc : CInv [] x0 s) (_hi : Once.Inv0 lv s strict)
    (q : QEntry ℚ) (rest : List (QEntry ℚ)) (L : List Cb) (hL : (s.ev q.ev).cbs = some L) :
    CInv L q.ev (_root_.openEvent s q rest) := by
  have hlt : q.ev < s.events.size := lt_of_cbs_some s _ L hL
  have hev : ∀ e, (_root_.openEvent s q rest).ev e = if e = q.ev then { s.ev q.ev with cbs := none } else s.ev e := by
    intro e; rw [ev_openEvent]
    by_cases h : e = q.ev
    · rw [if_pos ⟨h, hlt⟩, if_pos h]
    · rw [if_neg (fun hh => h hh.1), if_neg h]
  have hkind : ∀ e, ((_root_.openEvent s q rest).ev e).kind = (s.ev e).kind := by
    intro e; rw [hev]; split
    · rename_i h; rw [h]
    · rfl
  have hout : ∀ e, ((_root_.openEvent s q rest).ev e).out = (s.ev e).out := by
    intro e; rw [hev]; split
    · rename_i h; rw [h]
    · rfl
  have hcount : ∀ e, ((_root_.openEvent s q rest).ev e).count = (s.ev e).count := by
    intro e; rw [hev]; split
    · rename_i h; rw [h]
    · rfl
  have hdef : ∀ e, ((_root_.openEvent s q rest).ev e).defused = (s.ev e).defused := by
    intro e; rw [hev]; split
    · rename_i h; rw [h]
    · rfl
  have hcbs : ∀ e, ((_root_.openEvent s q rest).ev e).cbs = if e = q.ev then none else (s.ev e).cbs := by
    intro e; rw [hev]; split <;> rfl
  have hS : Shape s (_root_.openEvent s q rest) := Shape.of_kind hkind
  have hlist : ∀ e L1, ((_root_.openEvent s q rest).ev e).cbs = some L1 → e ≠ q.ev ∧ (s.ev e).cbs = some L1 := by
    intro e L1 h
    rw [hcbs] at h
    split at h
    · cases h
    · rename_i hne; exact ⟨hne, h⟩
  have hproc : ∀ e, (_root_.openEvent s q rest).processed e = (s.processed e || e == q.ev) := by
    intro e
    unfold KState.processed
    rw [hcbs]
    by_cases h : e = q.ev
    · simp [h]
    · simp [h]
  have hq0 : s.processed q.ev = false := by unfold KState.processed; rw [hL]; rfl
  have hnP : ∀ c, nProcessed (_root_.openEvent s q rest) c = nProcessed s c + (ops s c).count q.ev := by
    intro c
    unfold nProcessed
    rw [hS.ops_eq]
    have : (fun e => (_root_.openEvent s q rest).processed e) = (fun e => s.processed e || e == q.ev) := funext hproc
    rw [this]
    exact countP_or_eq _ _ _ hq0
  -- what is built / gone after the pop
  have hbuilt_old : ∀ a, Built [] s a → Built L (_root_.openEvent s q rest) a := by
    rintro a ⟨h1, h2, _⟩
    refine ⟨by rw [hS.isCond_eq]; exact h1, by rw [hcbs]; split <;> [rfl; exact h2], ?_⟩
    intro hm
    have := (hc.bld_own q.ev L a hL hm).1
    rw [← this, hL] at h2; cases h2
  have hgone_old : ∀ d, Gone [] s d → Gone L (_root_.openEvent s q rest) d := fun d => Gone.transfer hS hbuilt_old
  have hgone_new : ∀ d, Gone L (_root_.openEvent s q rest) d → Gone [] s d ∨ (d = q.ev ∧ ops s d = []) := by
    rintro d ⟨a, hu, h1, h2, h3⟩
    rw [hS.isCond_eq] at h1
    have hu' : Under s d a := hu.shape hS.symm
    rw [hcbs] at h2
    split at h2
    · rename_i ha
      -- the popped event itself: its `build` is pending unless it has no operands
      have hops : ops s a = [] := by
        by_contra hne
        have := hc.bld_cnt a L (by rw [ha]; exact hL) hne
        exact h3 (List.count_pos_iff.mp (by omega))
      right
      rcases hu'.cases with h | ⟨e, he, _⟩
      · exact ⟨h.trans ha, by rw [h]; exact hops⟩
      · rw [hops] at he; cases he
    · exact Or.inl ⟨a, hu', h1, h2, by simp⟩
  -- the checks subscribed to the popped event
  have hLg : ∀ c, Gone [] s c → L.count (.check c) = 0 := fun c hg =>
    List.count_eq_zero.mpr (hc.chk_gone c hg q.ev L hL)
  have hLa : ∀ c, ¬ Gone [] s c → L.count (.check c) = (ops s c).count q.ev := fun c hg => hc.chk_att c hg q.ev L hL
  refine ⟨?_, ?_, ?_, ?_, ?_, ?_, ?_, ?_, ?_, ?_, ?_, ?_, ?_, ?_, ?_⟩
  rotate_left 9
  · intro _
    refine ⟨by unfold _root_.openEvent; simpa using hlt, ?_⟩
    rw [hcbs, if_pos rfl]
  rotate_right 9
  · intro c e he; rw [hS.ops_eq] at he; exact hc.older c e he
  · intro c hg e L1 hL1
    obtain ⟨_, h1⟩ := hlist e L1 hL1
    rw [hS.ops_eq]
    exact hc.chk_att c (fun hh => hg (hgone_old c hh)) e L1 h1
  · intro c hg e L1 hL1
    obtain ⟨_, h1⟩ := hlist e L1 hL1
    rcases hgone_new c hg with h | ⟨_, h⟩
    · exact hc.chk_gone c h e L1 h1
    · by_cases hgs : Gone [] s c
      · exact hc.chk_gone c hgs e L1 h1
      · apply not_mem_of_count_zero
        rw [hc.chk_att c hgs e L1 h1, h]; rfl
  · intro c hm
    rw [hS.ops_eq]
    have hpos := List.count_pos_iff.mpr hm
    by_cases hg : Gone [] s c
    · rw [hLg c hg] at hpos; omega
    · rw [hLa c hg] at hpos; exact List.count_pos_iff.mp hpos
  · intro c hg
    apply not_mem_of_count_zero
    by_cases hgs : Gone [] s c
    · exact hLg c hgs
    · rw [hLa c hgs]
      rcases hgone_new c hg with h | ⟨_, h⟩
      · exact absurd h hgs
      · rw [h]; rfl
  · intro e L1 c hL1 hm
    rw [hS.ops_eq]
    exact hc.bld_own e L1 c (hlist e L1 hL1).2 hm
  · intro c L1 hL1 hne
    rw [hS.ops_eq] at hne
    exact hc.bld_cnt c L1 (hlist c L1 hL1).2 hne
  · intro c hm
    obtain ⟨h1, h2⟩ := hc.bld_own q.ev L c hL hm
    exact ⟨h1.symm, by rw [hS.ops_eq]; exact h2⟩
  · intro c
    by_cases hm : Cb.build c ∈ L
    · obtain ⟨h1, h2⟩ := hc.bld_own q.ev L c hL hm
      rw [hc.bld_cnt c L (by rw [← h1]; exact hL) h2]
    · rw [List.count_eq_zero.mpr hm]; exact Nat.zero_le _
  · intro c hcond ho hg
    rw [hS.isCond_eq] at hcond
    rw [hout] at ho
    have hgs : ¬ Gone [] s c := fun hh => hg (hgone_old c hh)
    rw [hcount, hnP, hLa c hgs]
    have := hc.cnt c hcond ho hgs
    simp only [List.count_nil, Nat.add_zero] at this
    rw [this]
  · intro c hcond ho hg e he hp x hx
    rw [hS.isCond_eq] at hcond
    rw [hout] at ho hx
    rw [hS.ops_eq] at he
    have hgs : ¬ Gone [] s c := fun hh => hg (hgone_old c hh)
    rw [hproc] at hp
    by_cases heq : e = q.ev
    · refine ⟨heq, ?_⟩
      apply List.count_pos_iff.mp
      rw [hLa c hgs]
      exact List.count_pos_iff.mpr (heq ▸ he)
    · have hp' : s.processed e = true := by
        have : (e == q.ev) = false := by simpa using heq
        rw [this, Bool.or_false] at hp; exact hp
      have := (hc.nofail c hcond ho hgs e he hp' x hx).2
      cases this
  · intro c hcond ho
    rw [hS.isCond_eq] at hcond
    rw [hout] at ho
    rw [hS.isAll_eq, hS.ops_eq, hcount]
    exact hc.unmet c hcond ho
  · intro c v hcond ho
    rw [hS.isCond_eq] at hcond
    rw [hout] at ho
    have h1 := hc.met c v hcond ho
    rw [hS.isAll_eq]
    have hle := nProcessed_le (_root_.openEvent s q rest) c
    rw [hS.ops_eq] at hle ⊢
    exact evaluate_mono h1 (by rw [hnP]; exact Nat.le_add_right _ _) hle
  · intro c x hcond ho
    rw [hS.isCond_eq] at hcond
    rw [hout] at ho
    obtain ⟨e, he, hp, hx, hd⟩ := hc.failsrc c x hcond ho
    refine ⟨e, by rw [hS.ops_eq]; exact he, by rw [hproc, hp]; rfl, by rw [hout]; exact hx, by rw [hdef]; exact hd⟩

/-- the pop changes no outcome and no count -/
theorem mono_openEvent (s : KState ℚ σ) (q : QEntry ℚ) (rest : List (QEntry ℚ)) (rem : List Cb) :
    Mono rem s (_root_.openEvent s q rest) := by
  have hout : ∀ e, ((_root_.openEvent s q rest).ev e).out = (s.ev e).out := by
    intro e; rw [ev_openEvent]; split
    · rename_i h; rw [h.1]
    · rfl
  have hcount : ∀ e, ((_root_.openEvent s q rest).ev e).count = (s.ev e).count := by
    intro e; rw [ev_openEvent]; split
    · rename_i h; rw [h.1]
    · rfl
  exact ⟨fun e o h => Or.inl (by rw [hout]; exact h), fun e h => by rw [hout]; exact h, fun e _ => hcount e,
    fun c _ h _ => by rw [hout]; exact h⟩

end Cond
