import OnlVerif.Lemmas.DRRKDefs
/-!
# The DRR scheduler on the kernel model: what each kernel operation of the program does

Every lemma rewrites an operation applied to an arbitrary state `s` into `{ s with … }` with explicit fields, under
the local facts the operation reads (the store record, the attribute cell).  The generic part (association lists,
`resume`/`step` without duplicated sub-terms) is shared with the Timer (`TimerKBasic.lean`).
-/

set_option linter.unusedSimpArgs false

namespace DRRK
open DRROnK
open TimerK (lookup plookup afterBurst resume_eq step_eq dec_enc)

theorem getD_set_same (a : Array ResRec) (r : Nat) (x : ResRec) (h : r < a.size) :
    (a.setIfInBounds r x).getD r default = x := by
  rw [getD_setIfInBounds]; simp [h]

@[simp] theorem isStoreKind_store : isStoreKind .store = true := rfl
@[simp] theorem isPrioKind_store : isPrioKind .store = false := rfl
@[simp] theorem store_beq_preemptive : (ResKind.store == ResKind.preemptive) = false := rfl
@[simp] theorem store_beq_fstore : (ResKind.store == ResKind.fstore) = false := rfl

theorem doCall_load (s : KS) (self : EvId) (k : Nat) : doCall s self (.load k) = (s, .val (lookup s.shared k)) := rfl

theorem doCall_store (s : KS) (self : EvId) (k : Nat) (v : Val) :
    doCall s self (.store k v) = ({ s with shared := (k, v) :: s.shared.filter (·.1 != k) }, .unit) := rfl

theorem doCall_log (s : KS) (self : EvId) (what : String) (i : Int) :
    doCall s self (.log what (.int i)) = ({ s with trace := s.trace.push (.log self what (.int i) s.now) }, .unit) := rfl

theorem doCall_log_none (s : KS) (self : EvId) (what : String) :
    doCall s self (.log what .none) = ({ s with trace := s.trace.push (.log self what .none s.now) }, .unit) := rfl

theorem doCall_timeout (s : KS) (self : EvId) (d : ℚ) (v : Val) (hd : 0 ≤ d) :
    doCall s self (.timeout d v) =
      ({ s with
          events := s.events.push { kind := .timeout, cbs := some [], out := some (.ok v), label := s.nlabel + 1 }
          nlabel := s.nlabel + 1
          agenda := { time := s.now + d, prio := NORMAL, eid := s.eid, ev := s.events.size } :: s.agenda
          eid := s.eid + 1 }, .ev s.events.size) := by
  have : ¬ d < Num.zero := by rw [zero_eq']; exact not_lt.mpr hd
  simp [doCall, this, KState.newLabelled, KState.schedule]

/-- `env.process(generator)` -/
theorem doCall_spawn (s : KS) (self : EvId) (st : St) :
    doCall s self (.spawn st) =
      ({ s with
          events := (s.events.push { kind := .proc, cbs := some [], out := none, label := s.nlabel + 1 }).push
                      { kind := .init s.events.size, cbs := some [.resume s.events.size], out := some (.ok .none) }
          nlabel := s.nlabel + 1
          procs := (s.events.size, { st := st, target := some (s.events.size + 1) }) :: s.procs.filter (·.1 != s.events.size)
          agenda := { time := s.now, prio := URGENT, eid := s.eid, ev := s.events.size + 1 } :: s.agenda
          eid := s.eid + 1 }, .ev s.events.size) := by
  simp [doCall, KState.newLabelled, KState.newEv, KState.setProc, KState.schedule, zero_eq']

/-- `store.put(item)` on an unbounded `Store` nobody has a pending `put` on: the item is appended, the `StorePut` event is
triggered at once -/
theorem doCall_sput (s : KS) (self : EvId) (r : ResId) (item : Int) (gq : List EvId) (its : List Int)
    (hsz : r < s.resources.size) (hr : s.resources.getD r default = storeRec gq its) :
    doCall s self (.sput r item) =
      ({ s with
          events := s.events.push { kind := .put r, cbs := some [.trigGet r], out := some (.ok .none), label := s.nlabel + 1,
                                     req := some { res := r, item := item, time := s.now, proc := s.active } }
          nlabel := s.nlabel + 1
          resources := s.resources.setIfInBounds r (storeRec gq (its ++ [item]))
          agenda := { time := s.now, prio := NORMAL, eid := s.eid, ev := s.events.size } :: s.agenda
          eid := s.eid + 1 }, .ev s.events.size) := by
  simp [doCall, hr, storeRec, mkPut, KState.newLabelled, enqPut, KState.setPutQ, KState.setRes, KState.res,
    triggerPut, scanPut, doPut, prePut, canPut, hasRoom, applyPut, KState.setItems, KState.trigger, KState.setOut, KState.schedule,
    KState.setEv, KState.ev, reqOf, KState.triggered, dropPutQ, getD_set_same, hsz, getD_push, getD_setIfInBounds, zero_eq',
    TimerK.push_setIfInBounds_size]

/-- `store.get()` on an empty `Store` nobody waits on: the `StoreGet` event is queued -/
theorem doCall_sget_miss (s : KS) (self : EvId) (r : ResId) (hsz : r < s.resources.size)
    (hr : s.resources.getD r default = storeRec [] []) :
    doCall s self (.sget r 0) =
      ({ s with
          events := s.events.push { kind := .get r, cbs := some [.trigPut r], out := none, label := s.nlabel + 1,
                                     req := some { res := r, time := s.now, proc := s.active } }
          nlabel := s.nlabel + 1
          resources := s.resources.setIfInBounds r (storeRec [s.events.size] []) }, .ev s.events.size) := by
  simp [doCall, hr, storeRec, mkGet, KState.newLabelled, enqGet, KState.setGetQ, KState.setRes, KState.res,
    triggerGet, scanGet, doGet, getItem, KState.triggered, KState.ev, getD_set_same, hsz, getD_push]

/-- `store.get()` on a non-empty `Store`: the head item is handed out at once -/
theorem doCall_sget_hit (s : KS) (self : EvId) (r : ResId) (i : Int) (is : List Int) (hsz : r < s.resources.size)
    (hr : s.resources.getD r default = storeRec [] (i :: is)) :
    doCall s self (.sget r 0) =
      ({ s with
          events := s.events.push { kind := .get r, cbs := some [.trigPut r], out := some (.ok (.int i)),
                                     label := s.nlabel + 1, req := some { res := r, time := s.now, proc := s.active } }
          nlabel := s.nlabel + 1
          resources := s.resources.setIfInBounds r (storeRec [] is)
          agenda := { time := s.now, prio := NORMAL, eid := s.eid, ev := s.events.size } :: s.agenda
          eid := s.eid + 1 }, .ev s.events.size) := by
  simp [doCall, hr, storeRec, mkGet, KState.newLabelled, enqGet, KState.setGetQ, KState.setRes, KState.res,
    triggerGet, scanGet, doGet, getItem, takeOut, KState.setItems, KState.trigger, KState.setOut, KState.schedule,
    KState.setEv, KState.triggered, KState.ev, dropGetQ, getD_set_same, hsz, getD_push, getD_setIfInBounds, zero_eq',
    TimerK.push_setIfInBounds_size]

theorem triggerPut_none (s : KS) (r : ResId) (gq : List EvId) (its : List Int)
    (hr : s.resources.getD r default = storeRec gq its) : triggerPut s r = s := by
  simp [triggerPut, KState.res, hr, storeRec, scanPut]

theorem triggerGet_none (s : KS) (r : ResId) (its : List Int)
    (hr : s.resources.getD r default = storeRec [] its) : triggerGet s r = s := by
  simp [triggerGet, KState.res, hr, storeRec, scanGet]

/-- `_trigger_get` with a waiting `get` and an empty store: nothing happens -/
theorem triggerGet_empty (s : KS) (r : ResId) (g : EvId) (hr : s.resources.getD r default = storeRec [g] [])
    (hg : (s.events.getD g default).out = none) : triggerGet s r = s := by
  simp [-Array.getD_eq_getD_getElem?, triggerGet, KState.res, hr, storeRec, scanGet, doGet, getItem, KState.triggered, KState.ev, hg]

/-- `_trigger_get` with a waiting `get` and an item: the item is handed over, the `StoreGet` event is triggered -/
theorem triggerGet_hand (s : KS) (r : ResId) (g : EvId) (i : Int) (is : List Int) (hsz : r < s.resources.size)
    (hgs : g < s.events.size) (hr : s.resources.getD r default = storeRec [g] (i :: is)) :
    triggerGet s r =
      { s with
          events := s.events.setIfInBounds g { s.events.getD g default with out := some (.ok (.int i)) }
          resources := s.resources.setIfInBounds r (storeRec [] is)
          agenda := { time := s.now, prio := NORMAL, eid := s.eid, ev := g } :: s.agenda
          eid := s.eid + 1 } := by
  simp [-Array.getD_eq_getD_getElem?, hr, storeRec, KState.setGetQ, KState.setRes, KState.res,
    triggerGet, scanGet, doGet, getItem, takeOut, KState.setItems, KState.trigger, KState.setOut, KState.schedule,
    KState.setEv, KState.triggered, KState.ev, dropGetQ, getD_set_same, hsz, hgs, getD_push, getD_setIfInBounds, zero_eq',
    TimerK.push_setIfInBounds_size]

/-! ## the attribute cells are pairwise different -/

@[drrk] theorem cRecv_ne_cCur : (cRecv = cCur) = False := by
  simp only [cRecv, cCur, eq_iff_iff, iff_false]; omega
@[drrk] theorem cCur_ne_cRecv : (cCur = cRecv) = False := by
  simp only [cCur, cRecv, eq_iff_iff, iff_false]; omega
@[drrk] theorem cRecv_ne_cCount (f' : Nat) : (cRecv = cCount f') = False := by
  simp only [cRecv, cCount, eq_iff_iff, iff_false]; omega
@[drrk] theorem cCount_ne_cRecv (f : Nat) : (cCount f = cRecv) = False := by
  simp only [cCount, cRecv, eq_iff_iff, iff_false]; omega
@[drrk] theorem cRecv_ne_cBytes (f' : Nat) : (cRecv = cBytes f') = False := by
  simp only [cRecv, cBytes, eq_iff_iff, iff_false]; omega
@[drrk] theorem cBytes_ne_cRecv (f : Nat) : (cBytes f = cRecv) = False := by
  simp only [cBytes, cRecv, eq_iff_iff, iff_false]; omega
@[drrk] theorem cRecv_ne_cCls (f' : Nat) : (cRecv = cCls f') = False := by
  simp only [cRecv, cCls, eq_iff_iff, iff_false]; omega
@[drrk] theorem cCls_ne_cRecv (f : Nat) : (cCls f = cRecv) = False := by
  simp only [cCls, cRecv, eq_iff_iff, iff_false]; omega
@[drrk] theorem cRecv_ne_cDef (f' : Nat) : (cRecv = cDef f') = False := by
  simp only [cRecv, cDef, eq_iff_iff, iff_false]; omega
@[drrk] theorem cDef_ne_cRecv (f : Nat) : (cDef f = cRecv) = False := by
  simp only [cDef, cRecv, eq_iff_iff, iff_false]; omega
@[drrk] theorem cRecv_ne_cHol (f' : Nat) : (cRecv = cHol f') = False := by
  simp only [cRecv, cHol, eq_iff_iff, iff_false]; omega
@[drrk] theorem cHol_ne_cRecv (f : Nat) : (cHol f = cRecv) = False := by
  simp only [cHol, cRecv, eq_iff_iff, iff_false]; omega
@[drrk] theorem cRecv_ne_cQuant (f' : Nat) : (cRecv = cQuant f') = False := by
  simp only [cRecv, cQuant, eq_iff_iff, iff_false]; omega
@[drrk] theorem cQuant_ne_cRecv (f : Nat) : (cQuant f = cRecv) = False := by
  simp only [cQuant, cRecv, eq_iff_iff, iff_false]; omega
@[drrk] theorem cRecv_ne_cForf (f' : Nat) : (cRecv = cForf f') = False := by
  simp only [cRecv, cForf, eq_iff_iff, iff_false]; omega
@[drrk] theorem cForf_ne_cRecv (f : Nat) : (cForf f = cRecv) = False := by
  simp only [cForf, cRecv, eq_iff_iff, iff_false]; omega
@[drrk] theorem cCur_ne_cCount (f' : Nat) : (cCur = cCount f') = False := by
  simp only [cCur, cCount, eq_iff_iff, iff_false]; omega
@[drrk] theorem cCount_ne_cCur (f : Nat) : (cCount f = cCur) = False := by
  simp only [cCount, cCur, eq_iff_iff, iff_false]; omega
@[drrk] theorem cCur_ne_cBytes (f' : Nat) : (cCur = cBytes f') = False := by
  simp only [cCur, cBytes, eq_iff_iff, iff_false]; omega
@[drrk] theorem cBytes_ne_cCur (f : Nat) : (cBytes f = cCur) = False := by
  simp only [cBytes, cCur, eq_iff_iff, iff_false]; omega
@[drrk] theorem cCur_ne_cCls (f' : Nat) : (cCur = cCls f') = False := by
  simp only [cCur, cCls, eq_iff_iff, iff_false]; omega
@[drrk] theorem cCls_ne_cCur (f : Nat) : (cCls f = cCur) = False := by
  simp only [cCls, cCur, eq_iff_iff, iff_false]; omega
@[drrk] theorem cCur_ne_cDef (f' : Nat) : (cCur = cDef f') = False := by
  simp only [cCur, cDef, eq_iff_iff, iff_false]; omega
@[drrk] theorem cDef_ne_cCur (f : Nat) : (cDef f = cCur) = False := by
  simp only [cDef, cCur, eq_iff_iff, iff_false]; omega
@[drrk] theorem cCur_ne_cHol (f' : Nat) : (cCur = cHol f') = False := by
  simp only [cCur, cHol, eq_iff_iff, iff_false]; omega
@[drrk] theorem cHol_ne_cCur (f : Nat) : (cHol f = cCur) = False := by
  simp only [cHol, cCur, eq_iff_iff, iff_false]; omega
@[drrk] theorem cCur_ne_cQuant (f' : Nat) : (cCur = cQuant f') = False := by
  simp only [cCur, cQuant, eq_iff_iff, iff_false]; omega
@[drrk] theorem cQuant_ne_cCur (f : Nat) : (cQuant f = cCur) = False := by
  simp only [cQuant, cCur, eq_iff_iff, iff_false]; omega
@[drrk] theorem cCur_ne_cForf (f' : Nat) : (cCur = cForf f') = False := by
  simp only [cCur, cForf, eq_iff_iff, iff_false]; omega
@[drrk] theorem cForf_ne_cCur (f : Nat) : (cForf f = cCur) = False := by
  simp only [cForf, cCur, eq_iff_iff, iff_false]; omega
@[drrk] theorem cCount_inj (f f' : Nat) : (cCount f = cCount f') = (f = f') := by
  simp only [cCount, eq_iff_iff]; omega
@[drrk] theorem cCount_ne_cBytes (f f' : Nat) : (cCount f = cBytes f') = False := by
  simp only [cCount, cBytes, eq_iff_iff, iff_false]; omega
@[drrk] theorem cCount_ne_cCls (f f' : Nat) : (cCount f = cCls f') = False := by
  simp only [cCount, cCls, eq_iff_iff, iff_false]; omega
@[drrk] theorem cCount_ne_cDef (f f' : Nat) : (cCount f = cDef f') = False := by
  simp only [cCount, cDef, eq_iff_iff, iff_false]; omega
@[drrk] theorem cCount_ne_cHol (f f' : Nat) : (cCount f = cHol f') = False := by
  simp only [cCount, cHol, eq_iff_iff, iff_false]; omega
@[drrk] theorem cCount_ne_cQuant (f f' : Nat) : (cCount f = cQuant f') = False := by
  simp only [cCount, cQuant, eq_iff_iff, iff_false]; omega
@[drrk] theorem cCount_ne_cForf (f f' : Nat) : (cCount f = cForf f') = False := by
  simp only [cCount, cForf, eq_iff_iff, iff_false]; omega
@[drrk] theorem cBytes_ne_cCount (f f' : Nat) : (cBytes f = cCount f') = False := by
  simp only [cBytes, cCount, eq_iff_iff, iff_false]; omega
@[drrk] theorem cBytes_inj (f f' : Nat) : (cBytes f = cBytes f') = (f = f') := by
  simp only [cBytes, eq_iff_iff]; omega
@[drrk] theorem cBytes_ne_cCls (f f' : Nat) : (cBytes f = cCls f') = False := by
  simp only [cBytes, cCls, eq_iff_iff, iff_false]; omega
@[drrk] theorem cBytes_ne_cDef (f f' : Nat) : (cBytes f = cDef f') = False := by
  simp only [cBytes, cDef, eq_iff_iff, iff_false]; omega
@[drrk] theorem cBytes_ne_cHol (f f' : Nat) : (cBytes f = cHol f') = False := by
  simp only [cBytes, cHol, eq_iff_iff, iff_false]; omega
@[drrk] theorem cBytes_ne_cQuant (f f' : Nat) : (cBytes f = cQuant f') = False := by
  simp only [cBytes, cQuant, eq_iff_iff, iff_false]; omega
@[drrk] theorem cBytes_ne_cForf (f f' : Nat) : (cBytes f = cForf f') = False := by
  simp only [cBytes, cForf, eq_iff_iff, iff_false]; omega
@[drrk] theorem cCls_ne_cCount (f f' : Nat) : (cCls f = cCount f') = False := by
  simp only [cCls, cCount, eq_iff_iff, iff_false]; omega
@[drrk] theorem cCls_ne_cBytes (f f' : Nat) : (cCls f = cBytes f') = False := by
  simp only [cCls, cBytes, eq_iff_iff, iff_false]; omega
@[drrk] theorem cCls_inj (f f' : Nat) : (cCls f = cCls f') = (f = f') := by
  simp only [cCls, eq_iff_iff]; omega
@[drrk] theorem cCls_ne_cDef (f f' : Nat) : (cCls f = cDef f') = False := by
  simp only [cCls, cDef, eq_iff_iff, iff_false]; omega
@[drrk] theorem cCls_ne_cHol (f f' : Nat) : (cCls f = cHol f') = False := by
  simp only [cCls, cHol, eq_iff_iff, iff_false]; omega
@[drrk] theorem cCls_ne_cQuant (f f' : Nat) : (cCls f = cQuant f') = False := by
  simp only [cCls, cQuant, eq_iff_iff, iff_false]; omega
@[drrk] theorem cCls_ne_cForf (f f' : Nat) : (cCls f = cForf f') = False := by
  simp only [cCls, cForf, eq_iff_iff, iff_false]; omega
@[drrk] theorem cDef_ne_cCount (f f' : Nat) : (cDef f = cCount f') = False := by
  simp only [cDef, cCount, eq_iff_iff, iff_false]; omega
@[drrk] theorem cDef_ne_cBytes (f f' : Nat) : (cDef f = cBytes f') = False := by
  simp only [cDef, cBytes, eq_iff_iff, iff_false]; omega
@[drrk] theorem cDef_ne_cCls (f f' : Nat) : (cDef f = cCls f') = False := by
  simp only [cDef, cCls, eq_iff_iff, iff_false]; omega
@[drrk] theorem cDef_inj (f f' : Nat) : (cDef f = cDef f') = (f = f') := by
  simp only [cDef, eq_iff_iff]; omega
@[drrk] theorem cDef_ne_cHol (f f' : Nat) : (cDef f = cHol f') = False := by
  simp only [cDef, cHol, eq_iff_iff, iff_false]; omega
@[drrk] theorem cDef_ne_cQuant (f f' : Nat) : (cDef f = cQuant f') = False := by
  simp only [cDef, cQuant, eq_iff_iff, iff_false]; omega
@[drrk] theorem cDef_ne_cForf (f f' : Nat) : (cDef f = cForf f') = False := by
  simp only [cDef, cForf, eq_iff_iff, iff_false]; omega
@[drrk] theorem cHol_ne_cCount (f f' : Nat) : (cHol f = cCount f') = False := by
  simp only [cHol, cCount, eq_iff_iff, iff_false]; omega
@[drrk] theorem cHol_ne_cBytes (f f' : Nat) : (cHol f = cBytes f') = False := by
  simp only [cHol, cBytes, eq_iff_iff, iff_false]; omega
@[drrk] theorem cHol_ne_cCls (f f' : Nat) : (cHol f = cCls f') = False := by
  simp only [cHol, cCls, eq_iff_iff, iff_false]; omega
@[drrk] theorem cHol_ne_cDef (f f' : Nat) : (cHol f = cDef f') = False := by
  simp only [cHol, cDef, eq_iff_iff, iff_false]; omega
@[drrk] theorem cHol_inj (f f' : Nat) : (cHol f = cHol f') = (f = f') := by
  simp only [cHol, eq_iff_iff]; omega
@[drrk] theorem cHol_ne_cQuant (f f' : Nat) : (cHol f = cQuant f') = False := by
  simp only [cHol, cQuant, eq_iff_iff, iff_false]; omega
@[drrk] theorem cHol_ne_cForf (f f' : Nat) : (cHol f = cForf f') = False := by
  simp only [cHol, cForf, eq_iff_iff, iff_false]; omega
@[drrk] theorem cQuant_ne_cCount (f f' : Nat) : (cQuant f = cCount f') = False := by
  simp only [cQuant, cCount, eq_iff_iff, iff_false]; omega
@[drrk] theorem cQuant_ne_cBytes (f f' : Nat) : (cQuant f = cBytes f') = False := by
  simp only [cQuant, cBytes, eq_iff_iff, iff_false]; omega
@[drrk] theorem cQuant_ne_cCls (f f' : Nat) : (cQuant f = cCls f') = False := by
  simp only [cQuant, cCls, eq_iff_iff, iff_false]; omega
@[drrk] theorem cQuant_ne_cDef (f f' : Nat) : (cQuant f = cDef f') = False := by
  simp only [cQuant, cDef, eq_iff_iff, iff_false]; omega
@[drrk] theorem cQuant_ne_cHol (f f' : Nat) : (cQuant f = cHol f') = False := by
  simp only [cQuant, cHol, eq_iff_iff, iff_false]; omega
@[drrk] theorem cQuant_inj (f f' : Nat) : (cQuant f = cQuant f') = (f = f') := by
  simp only [cQuant, eq_iff_iff]; omega
@[drrk] theorem cQuant_ne_cForf (f f' : Nat) : (cQuant f = cForf f') = False := by
  simp only [cQuant, cForf, eq_iff_iff, iff_false]; omega
@[drrk] theorem cForf_ne_cCount (f f' : Nat) : (cForf f = cCount f') = False := by
  simp only [cForf, cCount, eq_iff_iff, iff_false]; omega
@[drrk] theorem cForf_ne_cBytes (f f' : Nat) : (cForf f = cBytes f') = False := by
  simp only [cForf, cBytes, eq_iff_iff, iff_false]; omega
@[drrk] theorem cForf_ne_cCls (f f' : Nat) : (cForf f = cCls f') = False := by
  simp only [cForf, cCls, eq_iff_iff, iff_false]; omega
@[drrk] theorem cForf_ne_cDef (f f' : Nat) : (cForf f = cDef f') = False := by
  simp only [cForf, cDef, eq_iff_iff, iff_false]; omega
@[drrk] theorem cForf_ne_cHol (f f' : Nat) : (cForf f = cHol f') = False := by
  simp only [cForf, cHol, eq_iff_iff, iff_false]; omega
@[drrk] theorem cForf_ne_cQuant (f f' : Nat) : (cForf f = cQuant f') = False := by
  simp only [cForf, cQuant, eq_iff_iff, iff_false]; omega
@[drrk] theorem cForf_inj (f f' : Nat) : (cForf f = cForf f') = (f = f') := by
  simp only [cForf, eq_iff_iff]; omega

@[drrk] theorem flowStore_inj (f f' : Nat) : (flowStore f = flowStore f') = (f = f') :=
  propext ⟨fun h => by unfold flowStore at h; omega, fun h => by rw [h]⟩
@[drrk] theorem flowStore_ne_zero (f : Nat) : (flowStore f = 0) = False :=
  propext ⟨fun h => by unfold flowStore at h; omega, False.elim⟩
@[drrk] theorem zero_ne_flowStore (f : Nat) : (0 = flowStore f) = False :=
  propext ⟨fun h => by unfold flowStore at h; omega, False.elim⟩
@[drrk] theorem tokStore_eq : tokStore = 0 := rfl

theorem mem_addKey (l : List Nat) (k x : Nat) : x ∈ addKey l k ↔ x ∈ l ∨ x = k := by
  unfold addKey
  split
  · rename_i h
    constructor
    · exact Or.inl
    · rintro (h1 | rfl)
      · exact h1
      · exact List.elem_iff.mp h |> fun h' => by simpa using h
  · simp

end DRRK
